"""C21 — Regex translation preserves Elk regex semantics.

Legs (all on generated syntax trees, printed to Elk regex source by checks/rxref.py):
  parse   the real parser's tree for the printed source must be the tree it was printed from (model-free)
  (i)     regex.Transpile output == the Lean model's `transpile` on the real tree, for ALL 64 flag sets
  (iii)   real Regex#matches == the independent python reference matcher on the tree (model-free), plus
          metamorphic pairs on the real matcher alone: r vs (?:r); extended-mode text vs the same text with
          whitespace/comments removed; a|b vs b|a; and the `+` / `*` composition of value.Regex.
"""
import json

import vlib
from checks import rxref as R
from checks import lexrx_common as LC

META = {
    "property_id": "C21",
    "technique": "Lean 4 model of regex/transpile.go with matching semantics for source and target (theorems by induction over "
                 "the syntax tree) + differential transpilation on generated trees x 64 flag sets + independent reference matcher",
    "level_text": "Kernel-checked (transpile_correct, transpile_prints): for every Elk regex tree in the fragment — literals, '.', "
                  "anchors, shorthand classes in ASCII and Unicode mode, bracket expressions incl. the split of negated shorthands, "
                  "concatenation, alternation, ? * +, all group kinds with scoped i m s U x a, extended-mode whitespace — every flag "
                  "set, subject and position pair, the string the (mirrored) transpiler returns is the print of an RE2 tree that "
                  "matches exactly where the Elk tree does; the known x-mode comment defect has a kernel-checked witness. The "
                  "mirror (Lean port of regex lexer, parser and transpile.go) is tied to the code by string equality with "
                  "regex.Parse/Transpile on generated sources for all 64 flag sets; real Regex#matches is compared with an "
                  "independent reference matcher and with itself on metamorphic pairs (incl. + * and interpolation). Partial: "
                  "counted repetition, \\Q..\\E, numeric escapes, top-level \\p, flag-only groups and x-mode comments are outside "
                  "the proved fragment (tested only); Go's regexp parser/matcher and the Unicode tables are trusted.",
    "level_note": "Trusted: Lean kernel; hand-written model of transpile.go; Go's regexp/syntax parser and matcher (RE2 semantics); "
                  "python unicodedata for the reference matcher's categories; harness.",
    "design_ref": "DESIGN.md §7 C21",
}

XDEFECT = "x-mode-comment-swallows-structure"


def hx(s):
    return s.encode("utf-8", "surrogatepass").hex() or "-"


def subjects_for(tree, rng, k):
    alpha = sorted(R.alphabet(tree) | {ord("a"), ord("b"), ord("A"), 10})
    out = ["", "a"]
    # witnesses: random walks through the tree
    for _ in range(k // 2):
        w = witness(tree, rng, 0)
        out.append(w)
        if w and rng.random() < 0.7:
            p = rng.randrange(len(w))
            out.append(w[:p] + (chr(rng.choice(alpha)) if rng.random() < 0.6 else "") + w[p + 1:])
    while len(out) < k:
        out.append("".join(chr(rng.choice(alpha)) for _ in range(rng.choice([1, 1, 2, 3, 4, 6]))))
    seen, res = set(), []
    for s in out:
        if s not in seen and len(s) <= 24:
            seen.add(s)
            res.append(s)
    return res


CLASS_REPS = {"w": "a_é5", "W": "- !", "d": "5٣", "D": "x-", "s": " \t\n ", "S": "x-", "h": " \t ", "H": "x\n",
              "v": "\n\r\x0b", "V": "x ", "dot": "xy-", "bell": "\x07", "ff": "\x0c", "tab": "\t", "nl": "\n", "cr": "\r"}


def witness(n, rng, depth):
    t = n[0]
    if t == "cat":
        return "".join(witness(e, rng, depth) for e in n[1])
    if t == "or":
        return witness(rng.choice([n[1], n[2]]), rng, depth)
    if t == "q?":
        return witness(n[2], rng, depth) if rng.random() < 0.5 else ""
    if t in ("q*", "q+"):
        return "".join(witness(n[2], rng, depth) for _ in range(rng.randint(0 if t == "q*" else 1, 2)))
    if t == "qn":
        return "".join(witness(n[3], rng, depth) for _ in range(int(n[2])))
    if t == "qnm":
        lo = int(n[2]) if n[2] else 0
        hi = int(n[3]) if n[3] else lo + 2
        return "".join(witness(n[4], rng, depth) for _ in range(rng.randint(lo, max(lo, hi))))
    if t == "grp":
        return witness(n[5], rng, depth)
    if t in ("grp0", "^", "$", "A", "z", "b", "B"):
        return ""
    if t == "qt":
        return n[1]
    if t == "cc":
        if not n[2] or n[1]:
            return rng.choice("xq-")
        return witness(rng.choice(n[2]), rng, depth)
    if t == "rng":
        lo, hi = R.rune_of(n[1]), R.rune_of(n[2])
        if lo is None or hi is None or lo > hi:
            return "x"
        return chr(rng.choice([lo, hi, (lo + hi) // 2]))
    if t == "p":
        reps = {"L": "aé", "Lu": "AZ", "Ll": "az", "N": "5٣", "Nd": "5", "P": "!-", "Z": "  ", "Zs": " ", "Mn": "́",
                "Pc": "_", "S": "€+", "Sc": "€$"}
        return rng.choice("x1 ") if n[1] else rng.choice(reps.get(n[2], "a"))
    if t == "ncc":
        return rng.choice("a1 Z_f!")
    r = R.rune_of(n)
    if r is not None:
        return chr(r)
    return rng.choice(CLASS_REPS.get(t, "x"))


def has_tag(n, tags):
    t = n[0]
    if t in tags:
        return True
    if t == "cat":
        return any(has_tag(e, tags) for e in n[1])
    if t == "cc":
        return any(has_tag(e, tags) for e in n[2])
    if t in ("or", "rng"):
        return has_tag(n[1], tags) or has_tag(n[2], tags)
    if t in ("q?", "q*", "q+", "qn", "qnm", "grp"):
        return has_tag(n[-1], tags)
    return False


def inline_flag(n, flag):
    t = n[0]
    if t in ("grp", "grp0") and ((n[2] | n[3]) & flag):
        return True
    if t == "cat":
        return any(inline_flag(e, flag) for e in n[1])
    if t == "or":
        return inline_flag(n[1], flag) or inline_flag(n[2], flag)
    if t in ("q?", "q*", "q+", "qn", "qnm", "grp"):
        return inline_flag(n[-1], flag)
    return False


def ref_results(tree, flags, subs):
    """list of bools or None when the reference declines (constructs it has no confident semantics for)"""
    try:
        m = R.Matcher(tree, flags)
        return [m.matches(s) for s in subs]
    except R.Unsupported:
        return None


def risky_for_ref(tree, flags):
    """constructs where Go's folding of Unicode classes under the i flag is not something the reference pins down"""
    ci = bool(flags & R.I) or inline_flag(tree, R.I)
    return ci and has_tag(tree, {"p", "ncc"})


def bits(a):
    return None if not a.startswith("ok ") else a.split(" ")[1]


def run(ctx):
    ctx.rule = ("regex syntax trees (size ≤ 25) over every node kind, printed to Elk regex source; all 64 flag sets for the "
                "transpiler; 3 flag sets x ~12 subjects (witness walks of the tree, their mutants, strings over the tree's "
                "alphabet and Unicode class representatives) for the matcher; distinct = distinct (source, flags); "
                "non-trivial = the real parser accepted it")
    ctx.prove("ElkVerif.Props.C21")
    rng = ctx.rng
    if ctx.replay:
        return replay(ctx)
    gen = R.Gen(rng)
    trees = []
    for l in vlib.corpus_lines("C21"):
        f = l.split("\t")
        if f[0] == "tree":
            trees.append(json.loads(f[1], object_hook=None))
    trees = [totuple(t) for t in trees]
    grid = R.flag_scope_grid()
    trees += grid if ctx.quick else grid * 1
    ctx.extra["flag_scope_grid"] = len(grid)
    ntrees = ctx.n(1200, 20000)
    for _ in range(ntrees):
        t = gen.tree()
        if rng.random() < 0.12:
            t = sprinkle_x(t, rng)
        trees.append(t)

    # ---- leg parse + (i): transpile for all 64 flag sets
    tr_lines, tr_meta = [], []
    for t in trees:
        src = R.source(t, rng)
        lt = LC.letters_hex(src.encode("utf-8", "surrogatepass"))
        for fl in range(64):
            tr_lines.append("rx\ttr\t%d\t%s\t%s" % (fl, hx(src), lt))
            tr_meta.append((t, src, fl))
    impl = LC.confirm_hangs(tr_lines, vlib.run_impl(tr_lines), ctx.stat)
    model_lines, model_idx = [], []
    parse_ok = True
    reported = {}
    for k, ((t, src, fl), a) in enumerate(zip(tr_meta, impl)):
        want_ast = "ast=" + R.dump(t)
        got = a.split(" ")[0]
        ctx.case(("tr", src, fl), nontrivial=got.startswith("ast="), sample={"source": src, "impl": a[:120]} if fl == 0 else None)
        if fl == 0:
            ctx.stat("parse:" + ("ok" if got.startswith("ast=") else got.split("=")[0]))
            ctx.stat("size:%d" % (min(25, R.size(t)) // 5 * 5))
        if a == "slow":
            continue
        if a.startswith("timeout") or a.startswith("panic") or a.startswith("fatal"):
            if reported.setdefault("crash", 0) < 3:
                reported["crash"] += 1
                ctx.violation("property-fails", {"line": tr_lines[k]}, "regex front end did not return: " + a[:120])
            continue
        if got != want_ast:
            parse_ok = False
            if fl == 0 and reported.setdefault("parse", 0) < 3:
                reported["parse"] += 1
                ctx.violation("property-fails", {"line": tr_lines[k], "tree": t},
                              f"the parser's tree is not the tree the source was printed from: source={src!r} want {want_ast} got {got}")
            continue
        model_lines.append(tr_lines[k])   # the whole front end on the pattern TEXT: Lean lexer + parser + transpiler
        model_idx.append(k)
    model = vlib.run_model(model_lines)
    agree = True
    mism = []
    for k, mans in zip(model_idx, model):
        a = impl[k]
        if mans.startswith("bad-"):
            raise RuntimeError("model rejected " + model_lines[model_idx.index(k)])
        ctx.stat("transpile:" + a.split(" ", 1)[1].split("=")[0])
        if a != mans:
            agree = False
            mism.append(k)
    ctx.extra["transpile_lines"] = len(model_lines)
    ctx.obligation(f"(parse) real parser tree = generated tree on {len(trees)} sources", parse_ok, "correspondence")
    ctx.obligation(f"(i) regex.Parse + regex.Transpile = Lean front end (lexer, parser, transpiler) on {len(model_lines)} (source, flags) pairs", agree, "correspondence")

    # ---- leg (iii): matching
    m_lines, m_meta = [], []
    for t in trees:
        src = R.source(t, rng)
        fsets = {0, rng.randrange(64), rng.choice([R.I, R.M, R.S, R.A, R.X, R.I | R.A, R.M | R.S, R.X | R.I])}
        subs = subjects_for(t, rng, 12)
        for fl in sorted(fsets):
            m_lines.append("rx\tmatch\t%d\t%s\t%s" % (fl, hx(src), ",".join(hx(s) for s in subs)))
            m_meta.append(("ref", t, src, fl, subs))
        # metamorphic: r vs (?:r)
        wrapped = R.source(("grp", "", 0, 0, 1, t), rng)
        fl = rng.randrange(64)
        m_lines.append("rx\tmatch\t%d\t%s\t%s" % (fl, hx(src), ",".join(hx(s) for s in subs)))
        m_meta.append(("pair-a", t, src, fl, subs))
        m_lines.append("rx\tmatch\t%d\t%s\t%s" % (fl, hx(wrapped), ",".join(hx(s) for s in subs)))
        m_meta.append(("pair-b:(?:r)", t, wrapped, fl, subs))
        # metamorphic: extended-mode text vs stripped text (global x only, no inline x toggles)
        if not inline_flag(t, R.X) and not has_tag(t, {"qt"}):
            ps = R.pieces(t, rng)
            base = "".join(p.lstrip("\0") for p in ps)
            deco = R.decorate(ps, rng, unsafe=rng.random() < 0.15)
            if R.strip_x(deco) == R.strip_x(base):
                fl0 = rng.randrange(64) & ~R.X
                m_lines.append("rx\tmatch\t%d\t%s\t%s" % (fl0, hx(R.strip_x(base)), ",".join(hx(s) for s in subs)))
                m_meta.append(("pair-a", t, R.strip_x(base), fl0, subs))
                m_lines.append("rx\tmatch\t%d\t%s\t%s" % (fl0 | R.X, hx(deco), ",".join(hx(s) for s in subs)))
                m_meta.append(("pair-b:x-mode", t, deco, fl0 | R.X, subs))
        # metamorphic: a|b vs b|a
        if t[0] == "or" and t[1][0] != "or" and not inline_flag(t, 63):
            sw = R.source(("or", t[2], t[1]), rng)
            m_lines.append("rx\tmatch\t%d\t%s\t%s" % (fl, hx(src), ",".join(hx(s) for s in subs)))
            m_meta.append(("pair-a", t, src, fl, subs))
            m_lines.append("rx\tmatch\t%d\t%s\t%s" % (fl, hx(sw), ",".join(hx(s) for s in subs)))
            m_meta.append(("pair-b:b|a", t, sw, fl, subs))
    # composition: Regex#+ and Regex#*
    for _ in range(ctx.n(400, 5000)):
        t1, t2 = gen.tree(10), gen.tree(10)
        f1, f2 = rng.choice([0, 0, R.I, R.A, R.S | R.M, rng.randrange(64) & ~R.X]), rng.choice([0, R.I, rng.randrange(64) & ~R.X])
        subs = subjects_for(("cat", [t1, t2]), rng, 10)
        s1, s2 = R.source(t1, rng), R.source(t2, rng)
        m_lines.append("rx\tcomp\tconcat\t%d\t%s\t%d\t%s\t%s" % (f1, hx(s1), f2, hx(s2), ",".join(hx(s) for s in subs)))
        comp = ("cat", [group_with_flags(t1, f1), group_with_flags(t2, f2)])
        m_meta.append(("ref", comp, "%s + %s" % (s1, s2), 0, subs))
        fo = rng.choice([0, R.I, R.S, R.A, rng.randrange(64) & ~R.X])
        m_lines.append("rx\tcomp\tinterp\t%d\t%s\t%d\t-\t%s" % (f1, hx(s1), fo, ",".join(hx(s) for s in subs)))
        m_meta.append(("ref", ("grp", "", f1, ~f1 & 63, 0, t1), "interpolated %s /%s" % (s1, R.flag_str(f1)), fo, subs))
        n = rng.choice([0, 1, 2, 3])
        m_lines.append("rx\tcomp\trepeat\t%d\t%s\t%d\t-\t%s" % (f1, hx(s1), n, ",".join(hx(s) for s in subs)))
        m_meta.append(("ref", ("qn", 0, str(n), ("grp", "", 0, 0, 1, t1)), "%s * %d" % (s1, n), f1, subs))
    mimpl = LC.confirm_hangs(m_lines, vlib.run_impl(m_lines), ctx.stat)
    pending_a = None
    nref = nskip = ncerr = 0
    for k, (meta, a) in enumerate(zip(m_meta, mimpl)):
        kind, t, src, fl, subs = meta
        ctx.case(("m", kind, src, fl), nontrivial=a.startswith("ok "), sample=None)
        ctx.stat("match:" + a.split(" ")[0] + (" " + a.split(" ")[1] if a.startswith("cerr") else ""))
        if a == "slow":
            pending_a = (k, "slow", src) if kind == "pair-a" else pending_a
            continue
        if a.startswith("timeout") or a.startswith("panic") or a.startswith("fatal"):
            if reported.setdefault("crash", 0) < 3:
                reported["crash"] += 1
                ctx.violation("property-fails", {"line": m_lines[k]}, "regex compile/match did not return: " + a[:120])
            continue
        got = bits(a)
        if kind == "ref":
            if got is None:
                ncerr += 1
                continue
            want = None if risky_for_ref(t, fl) else ref_results(t, fl, subs)
            if want is None:
                nskip += 1
                continue
            nref += 1
            wbits = "".join("1" if w else "0" for w in want)
            if wbits != got:
                j = next(i for i in range(len(subs)) if wbits[i] != got[i])
                report_match(ctx, reported, m_lines[k], t, src, fl, subs[j], want[j], a)
        elif kind == "pair-a":
            pending_a = (k, got, src)
        else:
            ka, ga, srca = pending_a
            if ga == "slow" or (ga is None and got is None):
                continue
            if ga != got:
                cls = XDEFECT if kind.endswith("x-mode") and x_comment_structure(src) else "metamorphic"
                if reported.setdefault(cls, 0) < 3:
                    reported[cls] += 1
                    line, det = minimise_pair(ctx, kind, m_lines[ka], m_lines[k], cls)
                    ctx.violation("property-fails", {"line": line, "pair": kind.split(":", 1)[1]},
                                  f"{cls}: {det}")
    ctx.extra["reference_matcher_cases"] = nref
    ctx.extra["reference_declined"] = nskip
    ctx.extra["go_compile_errors"] = ncerr
    # a broken transpile correspondence with no semantic failure found is reported by vlib as no-failing-input-found
    if not agree and not ctx.violations:
        for k in mism[:3]:
            ctx.violation("model-impl-disagree", {"line": tr_lines[k], "correspondence": "transpile"},
                          f"impl={impl[k][:200]!r} model={model[model_idx.index(k)][:200]!r}", no_input=True)


def group_with_flags(t, f):
    """what Regex#WriteSourceTo spells: (?flags:src), i.e. (?:src) when no flag is on"""
    return ("grp", "", f, 0, 0, t) if f else ("grp", "", 0, 0, 1, t)


def x_comment_structure(src):
    """does an extended-mode comment of this source contain regex structure, or is the line break that ends it
    followed by a quantifier (the known defect class: comments are skipped after parsing, per concatenation)?"""
    i, incc = 0, False
    while i < len(src):
        c = src[i]
        if c == "\\":
            i += 2
            continue
        if incc:
            incc = c != "]"
        elif c == "[":
            incc = True
        elif c == "#":
            j = src.find("\n", i)
            body = src[i + 1:len(src) if j < 0 else j]
            if any(ch in body for ch in "|()[]{}*+?\\"):
                return True
            if j >= 0 and j + 1 < len(src) and src[j + 1] in "*+?{":
                return True
            if i + 1 < len(src) and src[i + 1] in "*+?{":
                return True
            i = len(src) if j < 0 else j
        i += 1
    return False


def report_match(ctx, reported, line, t, src, fl, subj, want, a):
    if reported.setdefault("ref", 0) >= 3:
        return
    reported["ref"] += 1
    f = line.split("\t")
    if f[1] == "match":
        line = "rx\tmatch\t%d\t%s\t%s" % (fl, f[3], hx(subj))
    ctx.violation("property-fails", {"line": line, "tree": t},
                  f"Regex#matches disagrees with the reference semantics: source={src!r} flags={R.flag_str(fl)!r} "
                  f"subject={subj!r}: reference says {want}, implementation says {not want}")


def minimise_pair(ctx, kind, line_a, line_b, cls):
    fa, fb = line_a.split("\t"), line_b.split("\t")
    subs = fa[4].split(",")
    ra, rb = bits(vlib.run_impl([line_a])[0]), bits(vlib.run_impl([line_b])[0])
    j = 0
    if ra and rb:
        j = next((i for i in range(len(subs)) if ra[i] != rb[i]), 0)
    pa = bytes.fromhex(fa[3].replace("-", "")).decode("utf-8", "replace")
    pb = bytes.fromhex(fb[3].replace("-", "")).decode("utf-8", "replace")
    sj = bytes.fromhex(subs[j].replace("-", "")).decode("utf-8", "replace")
    line = "rx\tpair\t%s\t%s\t%s\t%s\t%s" % (fa[2], fa[3], fb[2], fb[3], subs[j])
    det = (f"{pa!r} (flags {R.flag_str(int(fa[2]))!r}) and {pb!r} (flags {R.flag_str(int(fb[2]))!r}) must match the same "
           f"strings but differ on subject {sj!r}: {ra[j] if ra else 'cerr'} vs {rb[j] if rb else 'cerr'}")
    if cls == XDEFECT:
        # canonical minimal witness of the known defect
        cand = "rx\tpair\t0\t%s\t16\t%s\t%s" % (hx("ab"), hx("a # x|y\nb"), hx("a"))
        x, y = vlib.run_impl(["rx\tmatch\t0\t%s\t%s" % (hx("ab"), hx("a")), "rx\tmatch\t16\t%s\t%s" % (hx("a # x|y\nb"), hx("a"))])
        if bits(x) != bits(y):
            return cand, ("'ab' and 'a # x|y\\nb' (flags 'x') must match the same strings but differ on subject 'a': "
                          "the comment text `x|y` is parsed as an alternation, the transpiler's comment tracking is per "
                          "concatenation and is reset by `|`")
    return line, det


TAGS = set(R.ATOMS) | {"cat", "or", "q?", "q*", "q+", "qn", "qnm", "grp", "grp0", "cc", "rng", "ncc", "ch", "meta", "qt",
                       "caret", "u", "x", "o", "p"}


def totuple(x):
    """JSON lists back to tree tuples"""
    if isinstance(x, list) and x and isinstance(x[0], str) and x[0] in TAGS:
        tag, out = x[0], [x[0]]
        for i, e in enumerate(x[1:], 1):
            if (tag == "cat" and i == 1) or (tag == "cc" and i == 2):
                out.append([totuple(y) for y in e])
            elif isinstance(e, list):
                out.append(totuple(e))
            else:
                out.append(e)
        return tuple(out)
    return x


def sprinkle_x(t, rng):
    """put whitespace / comment characters between the elements of top-level concatenations"""
    if t[0] == "cat" and t[1]:
        els = []
        for e in t[1]:
            r = rng.random()
            if r < 0.3:
                els.append(("ch", rng.choice(R.SPACES[:6])))
            elif r < 0.4:
                els += [("ch", 35), ("ch", rng.choice([97, 32, 120])), ("ch", 10)]
            els.append(e)
        return ("cat", els)
    if t[0] == "or":
        return ("or", sprinkle_x(t[1], rng), sprinkle_x(t[2], rng))
    return t


def replay(ctx):
    inp = json.load(open(ctx.replay))["input"]
    f = inp["line"].split("\t")
    if f[1] == "pair":
        la = "rx\tmatch\t%s\t%s\t%s" % (f[2], f[3], f[6])
        lb = "rx\tmatch\t%s\t%s\t%s" % (f[4], f[5], f[6])
        a, b = vlib.run_impl([la, lb])
        ctx.case(inp["line"])
        if bits(a) != bits(b):
            src = bytes.fromhex(f[5].replace("-", "")).decode("utf-8", "replace")
            cls = XDEFECT if x_comment_structure(src) else "metamorphic"
            ctx.violation("property-fails", inp, f"{cls}: pair still differs: {a} vs {b}")
        return
    a = vlib.run_impl([inp["line"]])[0]
    ctx.case(inp["line"])
    if f[1] == "match" and "tree" in inp:
        t = totuple(inp["tree"])
        subs = [bytes.fromhex(x.replace("-", "")).decode("utf-8", "replace") for x in f[4].split(",")]
        want = ref_results(t, int(f[2]), subs)
        got = bits(a)
        if want is not None and got is not None and "".join("1" if w else "0" for w in want) != got:
            ctx.violation("property-fails", inp, f"Regex#matches still disagrees with the reference: want {want} got {got}")
    elif f[1] == "tr":
        if a.startswith(("timeout", "panic", "fatal")):
            ctx.violation("property-fails", inp, "regex front end did not return: " + a[:120])
        elif "tree" in inp and a.split(" ")[0] != "ast=" + R.dump(totuple(inp["tree"])):
            ctx.violation("property-fails", inp, "parser tree still differs: " + a[:200])
        elif a.startswith("ast="):
            pat = bytes.fromhex(f[3].replace("-", ""))
            m = vlib.run_model(["rx\ttr\t%s\t%s\t%s" % (f[2], f[3], LC.letters_hex(pat))])[0]
            if m != a:
                ctx.violation("model-impl-disagree", inp, f"impl={a!r} model={m!r}", no_input=True)
