"""C34 — The test runner runs exactly the selected cases and reports failures."""
import json
import os
import re

import vlib

META = {
    "property_id": "C34",
    "technique": "Lean 4 proof over a model of filter.go/test.go/suite.go/case.go/main.go (registration-time filtering, Run, "
                 "status aggregation, exit code) + differential correspondence in-process and through the `elk test` CLI",
    "level_text": "Kernel-checked: for every well-nested suite tree and every filter list the registered cases are exactly "
                  "the cases satisfying every filter (runs_exactly, once each, independent of filter order); the exit status "
                  "is non-zero iff an executed closure failed or errored (exit_iff_failed). Model tied to the Go code by "
                  "running generated .elk.test trees through the real checker/VM/test runner in-process and through the "
                  "elk binary as a process.",
    "level_note": "Regex and glob matching are parameters of the model (the generator uses patterns on which Python's re and a "
                  "small glob translator agree with the implementation). The shuffle of the cases of a suite, context "
                  "cancellation and the reporters are not modelled. Suite trees are lexically nested closure literals.",
    "design_ref": "DESIGN.md §7 C34",
}

# in the order `import "./**/*.elk.test"` in main.elk.test executes them (main's own body last)
FILES = ["a.elk.test", "sub/b.elk.test", "sub/d.elk.test", "sub/deep/c.elk.test", "main.elk.test"]
NAMES = ["a", "ab", "b", "c1", "c2", "x y", "A", "B", "Ab", "foo", "foo bar", "it", "z"]
HIDDEN = 999999


# ------------------------------------------------------------------ tree <-> line

def enc(name):
    return "=" + name.replace(" ", "_")


def dec(tok):
    assert tok.startswith("=")
    return tok[1:].replace("_", " ")


def tree_tokens(items):
    out = []
    for it in items:
        if it["t"] == "S":
            out += ["S", it["kind"], enc(it["name"]), it["file"], str(it["first"]), str(it["last"])]
            out += tree_tokens(it["items"])
            out.append("E")
        elif it["t"] == "C":
            out += ["C", it["kind"], str(it["id"]), enc(it["name"]), it["file"], str(it["first"]), str(it["last"]), it["o"]]
        else:
            out += ["H", it["kind"], str(it["id"]), it["o"], it["file"], str(it["first"])]
    return out


def parse_tree(field):
    toks = field.split()
    pos = [0]

    def items(nested):
        out = []
        while pos[0] < len(toks):
            t = toks[pos[0]]
            pos[0] += 1
            if t == "E":
                assert nested
                return out
            if t == "S":
                kind, name, file, first, last = toks[pos[0]:pos[0] + 5]
                pos[0] += 5
                out.append({"t": "S", "kind": kind, "name": dec(name), "file": file, "first": int(first),
                            "last": int(last), "items": items(True)})
            elif t == "C":
                kind, cid, name, file, first, last, o = toks[pos[0]:pos[0] + 7]
                pos[0] += 7
                out.append({"t": "C", "kind": kind, "id": int(cid), "name": dec(name), "file": file,
                            "first": int(first), "last": int(last), "o": o})
            elif t == "H":
                kind, hid, o, file, first = toks[pos[0]:pos[0] + 5]
                pos[0] += 5
                out.append({"t": "H", "kind": kind, "id": int(hid), "o": o, "file": file, "first": int(first)})
            else:
                raise ValueError(t)
        assert not nested
        return out

    return items(False)


def parse_filters(field):
    out = []
    for f in filter(None, field.split(";")):
        p = f.split(":")
        if p[0] == "g":
            out.append({"t": "g", "pat": p[1], "names": [dec(x) for x in p[2].split(",") if x]})
        else:
            out.append({"t": "p", "glob": p[1], "line": int(p[2]), "files": [x for x in p[3].split(",") if x]})
    return out


def filters_field(fs):
    out = []
    for f in fs:
        if f["t"] == "g":
            out.append("g:%s:%s" % (f["pat"], ",".join(enc(n) for n in f["names"])))
        else:
            out.append("p:%s:%d:%s" % (f["glob"], f["line"], ",".join(f["files"])))
    return ";".join(out)


def mk_line(op, items, fs):
    return "tfl\t%s\t%s\t%s" % (op, " ".join(tree_tokens(items)), filters_field(fs))


# ------------------------------------------------------------------ reference (python, model-free)

def case_name(c):
    return {"t": "", "i": "it ", "s": "should "}[c["kind"]] + c["name"]


def all_cases(items):
    """[(case, reporter name, chain of enclosing suites innermost first)] in tree order.

    The name is the one the reporters print (`FullNameWithSeparator`): the enclosing suites' names
    joined by spaces except the innermost, then ` > ` suite ` > ` case."""
    out = []

    def walk(its, full, sep, chain):
        for it in its:
            if it["t"] == "C":
                out.append((it, sep + " > " + case_name(it), chain))
        for it in its:
            if it["t"] == "S":
                if full == "":
                    walk(it["items"], it["name"], it["name"], [it] + chain)
                else:
                    walk(it["items"], full + " " + it["name"], full + " > " + it["name"], [it] + chain)

    walk(items, "", "", [])
    return out


def sat(f, c, name, chain):
    if f["t"] == "g":
        return name in f["names"]
    if c["file"] not in f["files"]:
        return False
    l = f["line"]
    return l < 0 or c["first"] <= l <= c["last"] or any(s["first"] == l for s in chain)


def selected_ids(items, fs):
    return [c["id"] for c, name, chain in all_cases(items) if all(sat(f, c, name, chain) for f in fs)]


def reference(items, fs):
    """What `elk test` must do: (ran ids, events, failed?) — suites without a selected case are skipped,
    a failing before_all skips its suite, a failing before_each skips the body; everything else runs once."""
    sel = set(selected_ids(items, fs))
    ran, events = [], []
    bad = [False]

    def call(kind, h):
        events.append("%s%d" % (kind, h["id"]))
        if h["o"] != "p":
            bad[0] = True
        return h["o"] == "p"

    def count(its):
        return sum(1 for it in its if it["t"] == "C" and it["id"] in sel) + \
            sum(count(it["items"]) for it in its if it["t"] == "S")

    def run(its, bes, aes):
        if count(its) == 0:
            return
        hooks = lambda k: [it for it in its if it["t"] == "H" and it["kind"] == k]
        for h in hooks("ba"):
            if not call("ba", h):
                return
        bes2, aes2 = hooks("be") + bes, hooks("ae") + aes
        for it in its:
            if it["t"] == "C" and it["id"] in sel:
                ran.append(it["id"])
                ok = True
                for h in bes2:
                    if not call("be", h):
                        ok = False
                        break
                if ok:
                    call("b", it)
                for h in aes2:
                    call("ae", h)
        for it in its:
            if it["t"] == "S":
                run(it["items"], bes2, aes2)
        for h in hooks("aa"):
            call("aa", h)

    run(items, [], [])
    return ran, events, bad[0], sel


def parse_answer(ans):
    d = {}
    for kv in ans.split(" ")[1:]:
        k, _, v = kv.partition("=")
        d[k] = v
    return d


def oracle(line, ans):
    f = line.split("\t")
    op, items, fs = f[1], parse_tree(f[2]), parse_filters(f[3])
    if ans.startswith("bad-"):
        return None  # machinery problem: reported by the correspondence (model never answers bad-)
    if not ans.startswith("ok "):
        return "the runner did not finish: " + ans
    ran, events, bad, sel = reference(items, fs)
    d = parse_answer(ans)
    srt = lambda xs: ",".join(sorted(str(x) for x in xs))
    if op == "run":
        if d.get("registered") != srt(sel):
            return "registered cases [%s] but the cases satisfying every filter are [%s]" % (d.get("registered"), srt(sel))
        rep_ids = [r.split(":")[0] for r in d.get("reports", "").split(",") if r]
        if ",".join(rep_ids) != srt(ran) and srt(rep_ids) != srt(ran):
            return "ran cases [%s], expected exactly [%s] once each" % (srt(rep_ids), srt(ran))
        if d.get("events") != srt(events):
            return "executed closures [%s], expected [%s]" % (d.get("events"), srt(events))
        st = d.get("status")
        want = ("failed", "error") if bad else ("success", "skipped")
        if st not in want:
            return "root status %s but %s" % (st, "a closure failed" if bad else "nothing failed")
        statuses = dict((r.split(":")[0], r.split(":")[1]) for r in d.get("reports", "").split(",") if r)
        for c, name, chain in all_cases(items):
            if str(c["id"]) in statuses and c["o"] != "p" and statuses[str(c["id"])] not in ("failed", "error") \
                    and ("b%d" % c["id"]) in events:
                return "case %d failed but is reported %s" % (c["id"], statuses[str(c["id"])])
        return None
    if op == "cli":
        want_exit = "1" if bad else "0"
        if d.get("exit") != want_exit:
            return "exit status %s but %s (selected %d case(s))" % (
                d.get("exit"), "a closure that ran failed" if bad else "nothing that ran failed", len(sel))
        printed = events if sel and not root_before_all_fails(items) else []
        if d.get("events") != srt(printed):
            return "executed closures [%s], expected [%s]" % (d.get("events"), srt(printed))
        return None
    return None


def root_before_all_fails(items):
    return any(it["t"] == "H" and it["kind"] == "ba" and it["o"] != "p" for it in items)


# ------------------------------------------------------------------ generator

def re_table(pat, names):
    r = re.compile(pat)
    return sorted(set(n for n in names if r.search(n)))


def glob_to_re(g):
    out, i = "", 0
    while i < len(g):
        if g.startswith("**/", i):
            out += "(?:.*/)?"
            i += 3
        elif g.startswith("**", i):
            out += ".*"
            i += 2
        elif g[i] == "*":
            out += "[^/]*"
            i += 1
        elif g[i] == "?":
            out += "[^/]"
            i += 1
        else:
            out += re.escape(g[i])
            i += 1
    return re.compile("^" + out + "$")


def gen_tree(rng, ctx=None, cli=False):
    ids = {"c": 0, "h": 0}
    files = sorted(rng.sample(FILES, rng.choice([1, 1, 2, 2, 3])), key=FILES.index)
    budget = [rng.choice([2, 4, 6, 9, 14])]

    def gap():
        return rng.choice([0, 0, 1, 1, 1, 2, 3])

    def outcome(p_pass):
        return "p" if rng.random() < p_pass else rng.choice("fe")

    def gen_items(file, cur, depth, top):
        items = []
        n = rng.choice([1, 2, 2, 3, 4]) if depth < 4 else rng.choice([1, 2])
        for _ in range(n):
            r = rng.random()
            if r < 0.14:
                kind = rng.choice(["ba", "aa", "be", "ae"])
                ids["h"] += 1
                cur += gap()
                if top and not items and cur == 2:
                    cur = 3
                items.append({"t": "H", "kind": kind, "id": ids["h"], "o": outcome(0.75), "file": file, "first": cur})
            elif r < 0.45 and depth < 4:
                first = cur + gap()
                sub, cur2 = gen_items(file, first, depth + 1, False) if rng.random() < 0.93 else ([], first)
                last = cur2 + gap()
                items.append({"t": "S", "kind": rng.choice("dc"), "name": rng.choice(NAMES + [""] * (rng.random() < 0.1)),
                              "file": file, "first": first, "last": last, "items": sub})
                cur = last
            else:
                if budget[0] <= 0:
                    continue
                budget[0] -= 1
                ids["c"] += 1
                first = cur + gap()
                last = first if rng.random() < 0.3 else first + 1 + rng.choice([0, 0, 1, 2])
                items.append({"t": "C", "kind": rng.choice("tis"), "id": ids["c"], "name": rng.choice(NAMES),
                              "file": file, "first": first, "last": last, "o": outcome(0.7)})
                cur = last
        return items, cur

    root = []
    for f in files:
        start = 6 if f == "main.elk.test" else 3
        its, _ = gen_items(f, start, 1, True)
        root += its
    return root


def gen_filters(rng, items):
    cases = all_cases(items)
    names = sorted(set(n for _, n, _ in cases))
    files = sorted(set(c["file"] for c, _, _ in cases) | set(FILES))
    lines = set([0, 1, 2])
    for c, _, chain in cases:
        lines.update([c["first"], c["last"], c["first"] + 1, c["last"] + 1, c["first"] - 1])
        for s in chain:
            lines.update([s["first"], s["last"], s["last"] + 1, s["first"] - 1])
    lines = sorted(lines)
    k = rng.choice([0, 1, 1, 1, 2, 2, 2, 3, 4])
    fs = []
    for _ in range(k):
        if rng.random() < 0.4:
            cand = []
            if names:
                n = rng.choice(names)
                words = [w for w in re.split(r"[ >]+", n) if w]
                w = rng.choice(words) if words else "a"
                cand = [w, "^" + re.escape(n[:rng.randint(1, max(1, len(n)))]).replace("\\ ", " "), w + "$", " > " + w,
                        w + "|zz", "^" + w, n.replace(">", ".") if ">" in n else w, w[:1]]
            cand += rng.sample(["it ", "should", "A > B", "nomatch", "[ab]$", "c[12]", "> a", "."], 2)
            pat = rng.choice(cand)
            if any(ch in pat for ch in ":;\t,") or pat == "":
                pat = "a"
            fs.append({"t": "g", "pat": pat, "names": re_table(pat, names)})
        else:
            c = rng.choice(cases)[0] if cases else None
            base = c["file"] if c else "a.elk.test"
            glob = rng.choice([base, base, base, "**/" + base.split("/")[-1], "**", "**", "**/*.elk.test", "**/*.elk.test",
                               base.replace(".elk.test", ".*"), base.replace(".elk.test", ".*"),
                               rng.choice(["sub/**", "*.elk.test", "sub/*", "**/deep/*", "nomatch/*", "?.elk.test"])])
            r = rng.random()
            if r < 0.25:
                line = -1
            elif r < 0.3:
                line = rng.choice([-2, -7, 0, 100000])
            elif r < 0.75 and cases:
                cc, _, chain = rng.choice(cases)
                line = rng.choice([s["first"] for s in chain] + [cc["first"], cc["last"]])
            else:
                line = rng.choice(lines)
            g = glob_to_re(glob)
            fs.append({"t": "p", "glob": glob, "line": line, "files": [f for f in files if g.match(f)]})
    return fs


def gen_line(rng, op):
    items = gen_tree(rng, cli=(op == "cli"))
    fs = gen_filters(rng, items)
    if op == "cli":
        # the CLI registers --grep first and takes a single pattern
        gs = [f for f in fs if f["t"] == "g"][:1]
        fs = gs + [f for f in fs if f["t"] == "p"]
    return mk_line(op, items, fs)


# ------------------------------------------------------------------ minimiser

def minimise(line, still):
    f = line.split("\t")
    op, items, fs = f[1], parse_tree(f[2]), parse_filters(f[3])

    def paths(its, pre=()):
        out = []
        for i, it in enumerate(its):
            out.append(pre + (i,))
            if it["t"] == "S":
                out += paths(it["items"], pre + (i,))
        return out

    def without(its, path):
        its = list(its)
        if len(path) == 1:
            del its[path[0]]
            return its
        it = dict(its[path[0]])
        it["items"] = without(it["items"], path[1:])
        its[path[0]] = it
        return its

    changed = True
    rounds = 0
    while changed and rounds < 6:
        changed = False
        rounds += 1
        for p in sorted(paths(items), key=lambda p: (len(p), p)):
            try:
                cand = without(items, p)
            except IndexError:
                continue
            if still(mk_line(op, cand, fs)):
                items = cand
                changed = True
                break
        for i in range(len(fs)):
            cand = fs[:i] + fs[i + 1:]
            if still(mk_line(op, items, cand)):
                fs = cand
                changed = True
                break
    # passing bodies where possible
    def walk(its):
        for it in its:
            if it["t"] == "S":
                walk(it["items"])
            elif it["o"] != "p":
                old = it["o"]
                it["o"] = "p"
                if not still(mk_line(op, items, fs)):
                    it["o"] = old
    walk(items)
    return mk_line(op, items, fs)


# ------------------------------------------------------------------ run

def build_elk_cli(ctx):
    out = os.path.join(vlib.BIN, "elk")
    env = dict(os.environ)
    for k in ("GOFLAGS", "GOTOOLCHAIN", "GOSUMDB"):
        env.pop(k, None)
    env["GOPROXY"] = "off"
    with vlib.Lock("go"):
        rc, log = vlib.sh(["go", "build", "-o", out, "./cmd/elk"], cwd=vlib.REPO, env=env, timeout=1500)
    ctx.obligation("go build ./cmd/elk (the CLI under test, from the elk working tree)", rc == 0, "build", log[-600:])
    return out if rc == 0 else None


def run(ctx):
    ctx.rule = ("random suite trees (depth <= 4, several files, shared lines, hooks, pass/fail/error bodies) rendered as "
                ".elk.test files x 0-4 filters (grep patterns over the reporter names, path globs with lines biased to "
                "suite/case boundaries); distinct = distinct (tree, filters); non-trivial = at least one case")
    ctx.prove("ElkVerif.Props.C34")
    os.environ["VERIF_SCRATCH"] = ctx.scratch
    elk = build_elk_cli(ctx)
    if elk:
        os.environ["VERIF_ELK_BIN"] = elk
    if ctx.replay:
        lines = [json.load(open(ctx.replay))["input"]["line"]]
    else:
        lines = vlib.corpus_lines("C34")
        lines += [gen_line(ctx.rng, "run") for _ in range(ctx.n(700, 8000))]
        if elk:
            lines += [gen_line(ctx.rng, "cli") for _ in range(ctx.n(50, 600))]
    if not elk:
        lines = [l for l in lines if l.split("\t")[1] != "cli"]
    for l in lines:
        f = l.split("\t")
        fs = parse_filters(f[3])
        ctx.stat("op:" + f[1])
        ctx.stat("filters:%d" % len(fs))
        kinds = "".join(sorted(set(x["t"] for x in fs)))
        ctx.stat("filter-kinds:" + (kinds or "none"))
        items = parse_tree(f[2])
        sel = selected_ids(items, fs)
        n = len(all_cases(items))
        ctx.stat("selected:" + ("none" if not sel else "all" if len(sel) == n else "some"))
    vlib.correspond(ctx, lines, oracle=oracle, minimise=minimise, label="elk test runner",
                    keyfn=lambda l: l.split("\t", 2)[2])
