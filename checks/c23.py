"""C23 — Ranges and iterable operations agree with a list model."""
import json
import re

import vlib
from checks import datelib

META = {
    "property_id": "C23",
    "technique": "Lean 4 proofs (range membership = bounds, range iterators = integer intervals, every native loop of "
                 "vm/iterable.go = the List operation on the drained elements, for any iterator obeying the next "
                 "protocol) + differential correspondence with the real natives and range classes + Elk programs",
    "level_text": "Kernel-checked: contains_iff_bounds for the eight range kinds; each range iterator (mirrored line by "
                  "line) drains to the closed-form interval, sorted, duplicate-free, with the length formula; a "
                  "generic simulation theorem (loop over an iterator = loop over drain) and, from it, 25 per-native "
                  "theorems op_eq : native = List.op, incl. NotFound/OutOfRange answers, error propagation and take on "
                  "endless iterators. Partial: that each real iterator implements the protocol as modelled is "
                  "correspondence (natives called in-process on every iterable kind, plus Elk source programs).",
    "level_note": "Trusted: Lean kernel; hand-written model of vm/iterable.go, vm/*range*.go; harness. Elements are Int "
                  "in the tie (the theorems are polymorphic); closures are pure functions from a fixed pool. The generic "
                  "operations are not attached to iterator classes / generators / channels at run time (D19): there the "
                  "natives are exercised by direct in-process calls only.",
    "design_ref": "DESIGN.md §7 C23",
}

FN1 = {"mul2": lambda x: x * 2, "add1": lambda x: x + 1, "neg": lambda x: -x, "sq": lambda x: x * x, "id": lambda x: x,
       "const7": lambda x: 7}
FN1_ELK = {"mul2": "|x| -> x * 2", "add1": "|x| -> x + 1", "neg": "|x| -> -x", "sq": "|x| -> x * x", "id": "|x| -> x",
           "const7": "|x| -> 7"}
FN2 = {"add": lambda a, b: a + b, "mul": lambda a, b: a * b, "max": lambda a, b: b if a < b else a,
       "sub": lambda a, b: a - b, "fst": lambda a, b: a, "snd": lambda a, b: b}
FN2_ELK = {"add": "|a, x| -> a + x", "mul": "|a, x| -> a * x", "max": "|a, x| -> (if a < x then x else a)",
           "sub": "|a, x| -> a - x", "fst": "|a, x| -> a", "snd": "|a, x| -> x"}


def pred(s):
    p = s.split(":")
    if p[0] == "gt":
        k = int(p[1]); return lambda x: x > k
    if p[0] == "lt":
        k = int(p[1]); return lambda x: x < k
    if p[0] == "eq":
        k = int(p[1]); return lambda x: x == k
    return {"even": lambda x: x % 2 == 0, "odd": lambda x: x % 2 != 0, "tt": lambda x: True, "ff": lambda x: False}[s]


def pred_elk(s):
    p = s.split(":")
    lit = lambda k: "(%s)" % k if int(k) < 0 else k
    if p[0] == "gt":
        return "|x| -> x > %s" % lit(p[1])
    if p[0] == "lt":
        return "|x| -> x < %s" % lit(p[1])
    if p[0] == "eq":
        return "|x| -> x == %s" % lit(p[1])
    return {"even": "|x| -> x % 2 == 0", "odd": "|x| -> x % 2 != 0", "tt": "|x| -> true", "ff": "|x| -> false"}[s]


ENDLESS_CAP = 64   # python materialises this many elements of an endless source


def ints(s):
    return [int(x) for x in s.split(",")] if s else []


def source_elems(spec):
    """(elements in iteration order [prefix for endless], endless?, one_shot?) — computed in python, independently"""
    f = spec.split(":")
    k = f[0]
    if k in ("list", "tuple"):
        return ints(f[1]), False, False
    if k == "set":
        return ints(f[2]), False, False
    if k in ("listit", "tupleit"):
        return ints(f[1])[int(f[2]):], False, True
    if k == "setit":
        return ints(f[2])[int(f[3]):], False, True
    if k in ("chan", "gen"):
        return ints(f[1]), False, True
    it = k.startswith("it.")
    kk = k[3:] if it else k
    b = [int(x) for x in f[1:]]
    skip = b.pop() if it else 0
    if kk == "cr":
        full, endless = list(range(b[0], b[1] + 1)), False
    elif kk == "or":
        full, endless = list(range(b[0] + 1, b[1])), False
    elif kk == "lor":
        full, endless = list(range(b[0] + 1, b[1] + 1)), False
    elif kk == "ror":
        full, endless = list(range(b[0], b[1])), False
    elif kk == "ecr":
        full, endless = list(range(b[0], b[0] + ENDLESS_CAP + skip)), True
    elif kk == "eor":
        full, endless = list(range(b[0] + 1, b[0] + 1 + ENDLESS_CAP + skip)), True
    else:
        return None, False, False
    return full[skip:], endless, it


def range_contains(spec, x):
    f = spec.split(":")
    b = [int(v) for v in f[1:]]
    return {"cr": lambda: b[0] <= x <= b[1], "or": lambda: b[0] < x < b[1], "lor": lambda: b[0] < x <= b[1],
            "ror": lambda: b[0] <= x < b[1], "ecr": lambda: b[0] <= x, "eor": lambda: b[0] < x,
            "bcr": lambda: x <= b[0], "bor": lambda: x < b[0]}[f[0]]()


def show_list(l):
    return "ok [" + ",".join(map(str, l)) + "]"


def list_op(l, op, endless):
    """the operation on the materialised list; None = no verdict (would not terminate / not decidable from the prefix)"""
    name = op[0]
    hit = lambda p: next((i for i, x in enumerate(l) if p(x)), None)
    if name == "map":
        return None if endless else show_list([FN1[op[1]](x) for x in l])
    if name == "filter":
        return None if endless else show_list([x for x in l if pred(op[1])(x)])
    if name == "reject":
        return None if endless else show_list([x for x in l if not pred(op[1])(x)])
    if name == "count":
        return None if endless else "ok %d" % sum(1 for x in l if pred(op[1])(x))
    if name in ("any", "every", "find", "try_find", "find_index", "index_of", "contains"):
        if name == "every":
            p = lambda x, q=pred(op[1]): not q(x)
        elif name in ("index_of", "contains"):
            p = lambda x, v=int(op[1]): x == v
        else:
            p = pred(op[1])
        i = hit(p)
        if i is None and endless:
            return None
        if name == "any" or name == "contains":
            return "ok true" if i is not None else "ok false"
        if name == "every":
            return "ok false" if i is not None else "ok true"
        if name == "find":
            return "ok %d" % l[i] if i is not None else "err NotFound"
        if name == "try_find":
            return "ok %d" % l[i] if i is not None else "ok nil"
        return "ok %d" % (i if i is not None else -1)
    if name == "is_empty":
        return "ok true" if not l else "ok false"
    if name == "first":
        return "ok %d" % l[0] if l else "err NotFound"
    if name == "try_first":
        return "ok %d" % l[0] if l else "ok nil"
    if name == "last":
        return None if endless else ("ok %d" % l[-1] if l else "err NotFound")
    if name == "try_last":
        return None if endless else ("ok %d" % l[-1] if l else "ok nil")
    if name == "take":
        n = int(op[1])
        if n < 0:
            return "err OutOfRange"
        return show_list(l[:n]) if (not endless or n < len(l)) else None
    if name == "drop":
        n = int(op[1])
        if n < 0:
            return "err OutOfRange"
        return None if endless else show_list(l[n:])
    if name == "take_while":
        i = hit(lambda x: not pred(op[1])(x))
        if i is None:
            return None if endless else show_list(l)
        return show_list(l[:i])
    if name == "drop_while":
        if endless:
            return None
        i = hit(lambda x: not pred(op[1])(x))
        return show_list(l[i:] if i is not None else [])
    if name == "reduce":
        if endless:
            return None
        if not l:
            return "EMPTY-REDUCE"
        acc = l[0]
        for x in l[1:]:
            acc = FN2[op[1]](acc, x)
        return "ok %d" % acc
    if name == "fold":
        if endless:
            return None
        acc = int(op[1])
        for x in l:
            acc = FN2[op[2]](acc, x)
        return "ok %d" % acc
    if name in ("to_list", "to_tuple"):
        return None if endless else show_list(l)
    if name == "length":
        return None if endless else "ok %d" % len(l)
    return None


def oracle(line, ans):
    f = line.split("\t")
    mode, spec, op = f[1], f[2], f[3:]
    if ans.startswith(("panic", "fatal")):
        if op[0] == "reduce" and "undefined" in ans and source_elems(spec)[0] == []:
            return ("reduce of an empty iterable returns the VM's internal `undefined` value instead of raising or nil "
                    "(and the program crashes on its first use: " + ans[:90] + ")")
        return "the operation crashed: " + ans[:100]
    if op[0] == "rcontains":
        want = "ok true" if range_contains(spec, int(op[1])) else "ok false"
        return None if ans == want else f"{spec} contains {op[1]}: answers {ans!r}, the bounds say {want!r}"
    if ans.startswith("missing "):
        return f"{ans[8:]} is declared for this receiver (headers) but has no implementation at run time"
    l, endless, one_shot = source_elems(spec)
    if l is None:
        return None if ans == "err NoIter" else f"beginless range iterated: {ans!r}"
    want = list_op(l, op, endless)
    if want is None:
        return None
    out = ans.split(" | ")[0]
    if want == "EMPTY-REDUCE":
        if out == "ok undefined":
            return "reduce of an empty iterable returns the VM's internal `undefined` value instead of raising or nil"
        return None if out.startswith("err") or out == "ok nil" else f"reduce of an empty iterable answers {out!r}"
    if out != want:
        return f"{op} on {spec} (elements {l[:12]}) answers {out!r}, the list model says {want!r}"
    if not one_shot and " | " in ans:
        after = ans.split(" | ")[1]
        exp = ",".join(map(str, l[:5])) + ("." if len(l) <= 5 and not endless else "+")
        if after != exp:
            return f"iterating {spec} again after {op[0]} yields {after!r}, expected {exp!r}: the receiver changed"
    return None


# ----------------------------------------------------------------- generator

def gen_elems(r, n=None):
    n = r.choice([0, 0, 1, 2, 3, 4, 5, 8]) if n is None else n
    return [r.randint(-3, 9) for _ in range(n)]


def gen_source(r, set_orders):
    x = r.random()
    if x < 0.12:
        return "list:" + ",".join(map(str, gen_elems(r)))
    if x < 0.20:
        return "tuple:" + ",".join(map(str, gen_elems(r)))
    if x < 0.30:
        ins, ord_ = r.choice(set_orders)
        if r.random() < 0.5:
            return "set:%s:%s" % (ins, ord_)
        n = len(ints(ord_))
        return "setit:%s:%s:%d" % (ins, ord_, r.randint(0, n + 1))
    if x < 0.38:
        e = gen_elems(r)
        return "%s:%s:%d" % (r.choice(["listit", "tupleit"]), ",".join(map(str, e)), r.randint(0, len(e) + 1))
    if x < 0.44:
        return "chan:" + ",".join(map(str, gen_elems(r)))
    if x < 0.50:
        return "gen:" + ",".join(map(str, gen_elems(r, r.choice([1, 1, 2, 3, 5]))))
    kind = r.choice(["cr", "or", "lor", "ror", "cr", "or", "lor", "ror", "ecr", "eor"])
    lo = r.randint(-3, 6)
    if kind in ("ecr", "eor"):
        b = [lo]
        n = 6
    else:
        hi = lo + r.choice([-2, -1, 0, 1, 2, 3, 5, 7])
        b = [lo, hi]
        n = max(0, hi - lo + 1)
    if r.random() < 0.45:
        return "it.%s:%s:%d" % (kind, ":".join(map(str, b)), r.randint(0, n + 2))
    return "%s:%s" % (kind, ":".join(map(str, b)))


PREDS = lambda r, lo, hi: r.choice(["gt:%d" % r.randint(lo - 2, hi + 2), "lt:%d" % r.randint(lo - 2, hi + 2),
                                    "eq:%d" % r.randint(lo - 2, hi + 2), "even", "odd", "tt", "ff"])
OPS = ["map", "filter", "reject", "count", "any", "every", "find", "try_find", "index_of", "find_index", "contains",
       "is_empty", "first", "try_first", "last", "try_last", "take", "drop", "take_while", "drop_while", "reduce", "fold",
       "to_list", "to_tuple", "length"]


def gen_op(r, l, endless):
    lo, hi = (min(l), max(l)) if l else (0, 0)
    n = len(l)
    name = r.choice(OPS)
    if name == "map":
        op = [name, r.choice(list(FN1))]
    elif name in ("filter", "reject", "count", "any", "every", "find", "try_find", "find_index", "take_while", "drop_while"):
        op = [name, PREDS(r, lo, hi)]
    elif name in ("index_of", "contains"):
        op = [name, str(r.randint(lo - 2, hi + 2))]
    elif name in ("take", "drop"):
        op = [name, str(r.randint(-2, (6 if endless else n) + 2))]
    elif name == "reduce":
        op = [name, r.choice(list(FN2))]
    elif name == "fold":
        op = [name, str(r.randint(-2, 3)), r.choice(list(FN2))]
    else:
        op = [name]
    return op


def gen_line(r, set_orders):
    for _ in range(50):
        spec = gen_source(r, set_orders)
        l, endless, one_shot = source_elems(spec)
        if r.random() < 0.06 and not spec.startswith(("list", "tuple", "set", "chan", "gen", "it.")):
            return "iter\tn\t%s\trcontains\t%d" % (spec, r.randint(-5, 10))
        op = gen_op(r, l, endless)
        if endless and list_op(l, op, True) is None:
            continue            # would not terminate on the real code
        mode = "n"
        if spec.startswith(("list:", "tuple:")) and r.random() < 0.5:
            mode = "d"
        return "iter\t%s\t%s\t%s" % (mode, spec, "\t".join(op))
    return "iter\tn\tlist:1,2\tto_list"


def gen_rcontains(r):
    kind = r.choice(["cr", "or", "lor", "ror", "ecr", "eor", "bcr", "bor"])
    lo = r.randint(-3, 6)
    b = [lo] if kind[0] in "eb" else [lo, lo + r.choice([-2, -1, 0, 1, 2, 3, 5])]
    return "iter\tn\t%s:%s\trcontains\t%d" % (kind, ":".join(map(str, b)), r.randint(min(b) - 2, max(b) + 2))


# D19: the generic operations are declared on every iterator class, on generators and channels, but registered on none
D19_WITNESSES = ["iter\td\tit.cr:1:3:0\tto_list", "iter\td\tit.or:1:4:0\tto_list", "iter\td\tit.lor:1:3:0\tto_list",
                 "iter\td\tit.ror:1:3:0\tto_list", "iter\td\tit.ecr:1:0\ttake\t2", "iter\td\tit.eor:1:0\ttake\t2",
                 "iter\td\tlistit:1,2:0\tto_list", "iter\td\ttupleit:1,2:0\tto_list", "iter\td\tgen:1,2\tto_list",
                 "iter\td\tchan:1,2\tto_list"]


def set_orders(ctx):
    """iteration order of a few sets, asked from the implementation (a wrong guess answers `bad-order <actual>`)"""
    r = ctx.rng
    cands = [[], [1], [3, 1, 2], [5, -1, 0, 7], [9, 8, 7, 6, 5, 4], [2, 4, 6, 8, 0, -2, 3]]
    cands += [r.sample(range(-3, 10), r.randint(1, 8)) for _ in range(ctx.n(6, 40))]
    lines = ["iter\tn\tset:%s:%s\tlength" % (",".join(map(str, c)), "99") for c in cands]
    out = []
    for c, a in zip(cands, vlib.run_impl(lines)):
        if a.startswith("bad-order"):
            out.append((",".join(map(str, c)), a[10:].strip()))
        elif not c:
            out.append(("", ""))
    return out or [("1", "1")]


# ----------------------------------------------------------------- Elk source programs

def elk_lit(v):
    return "(%d)" % v if v < 0 else str(v)


def elk_source(spec):
    """Elk expression (plus set-up statements) for a receiver that offers the operation through normal dispatch"""
    f = spec.split(":")
    if f[0] == "list":
        e = ints(f[1])
        return ("a := [%s]\n" % ", ".join(map(elk_lit, e)) if e else "a := [0]\na.remove_at(0)\n"), "a"
    if f[0] == "tuple":
        e = ints(f[1])
        return ("a := %%[%s]\n" % ", ".join(map(elk_lit, e)) if e else "b := [0]\nb.remove_at(0)\na := b.to_tuple\n"), "a"
    return None, None


def elk_op(op):
    n = op[0]
    throws = n in ("first", "last", "find", "take", "drop")
    if n == "map":
        c = "map(%s)" % FN1_ELK[op[1]]
    elif n in ("filter", "reject", "count", "any", "every", "find", "try_find", "find_index", "take_while", "drop_while"):
        c = "%s(%s)" % (n, pred_elk(op[1]))
    elif n in ("index_of", "contains", "take", "drop"):
        c = "%s(%s)" % (n, elk_lit(int(op[1])))
    elif n == "reduce":
        c = "reduce(%s)" % FN2_ELK[op[1]]
    elif n == "fold":
        c = "fold(%s, %s)" % (elk_lit(int(op[1])), FN2_ELK[op[2]])
    else:
        c = n
    return c, throws


def program_for(idx, line):
    f = line.split("\t")
    setup, recv = elk_source(f[2])
    if setup is None:
        return None
    call, throws = elk_op(f[3:])
    expr = "%s.%s" % (recv, call)
    if throws:
        expr = "try " + expr
    # a nilable result has no `inspect`: print it inside a list literal
    show = "[r].inspect" if f[3].startswith("try_") else "r.inspect"
    src = "module C23P%d\nend\n%sr := %s\nprintln(%s)\nprintln(%s.inspect)\n" % (idx, setup, expr, show, recv)
    return {"id": "p%d" % idx, "src": src, "timeout_ms": 4000}


def for_program(idx, spec):
    """`for` loop over every iterable kind, elements collected into a list"""
    f = spec.split(":")
    k = f[0]
    decl = ""
    if k in ("list", "tuple", "set"):
        e = ints(f[1])
        if not e:
            return None
        recv = {"list": "[%s]", "tuple": "%%[%s]", "set": "^[%s]"}[k] % ", ".join(map(elk_lit, e))
    elif k == "chan":
        e = ints(f[1])
        decl = "ch := Channel::[Int](%d)\n" % (len(e) + 1) + "".join("ch << %s\n" % elk_lit(x) for x in e) + "ch.close\n"
        recv = "ch"
    elif k == "gen":
        e = ints(f[1])
        decl = ("module C23G%d\n  def *g: Int\n" % idx + "".join("    yield %s\n" % elk_lit(x) for x in e[:-1])
                + "    %s\n  end\nend\n" % elk_lit(e[-1]))
        recv = "C23G%d.g" % idx
    elif k in ("cr", "or", "lor", "ror", "ecr", "eor"):
        b = [int(x) for x in f[1:]]
        op = {"cr": "...", "or": "<.<", "lor": "<..", "ror": "..<", "ecr": "...", "eor": "<.."}[k]
        recv = "(%s%s%s)" % (elk_lit(b[0]), op, elk_lit(b[1]) if len(b) > 1 else "")
    else:
        return None
    stop = "  break if out.length >= 7\n" if k in ("ecr", "eor") else ""
    if idx % 2 == 1 and k != "gen":
        # the iterable held in a variable: the compiler cannot specialise the loop on a literal in the header
        decl += "rv := %s\n" % recv
        recv = "rv"
    src = ("module C23F%d\nend\n%sout := [0]\nout.remove_at(0)\nfor i in %s\n%s  out << i\nend\nprintln(out.inspect)\n"
           % (idx, decl, recv, stop))
    return {"id": "f%d" % idx, "src": src, "timeout_ms": 4000}


def parse_inspect(s):
    s = s.strip()
    m = re.fullmatch(r"[%^]?\[(.*?)\](?::\d+)?", s)
    if m:
        body = m.group(1).strip()
        return "ok [" + ",".join(x.strip() for x in body.split(",")) + "]" if body else "ok []"
    if re.fullmatch(r"-?\d+", s):
        return "ok " + s
    if s in ("true", "false", "nil", "undefined"):
        return "ok " + s
    return "ok ?" + s[:60]


def program_answer(a, unwrap=False, reduce_op=False):
    if a["outcome"] == "value":
        lines = a["stdout"].split("\n")
        first = lines[0]
        if unwrap:
            m = re.fullmatch(r"\[(.*)\](?::\d+)?", first.strip())
            first = m.group(1) if m else first
        return parse_inspect(first), (parse_inspect(lines[1]) if len(lines) > 1 and lines[1] else None)
    if a["outcome"] == "error":
        cls = a.get("err_class", "")
        return {"Std::Iterable::NotFoundError": "err NotFound", "Std::OutOfRangeError": "err OutOfRange"}.get(cls, "err " + cls), None
    if a["outcome"] == "rejected":
        return "rejected " + "; ".join(d["msg"][:80] for d in a["diags"][:2]), None
    if a["outcome"] == "panic" and reduce_op and "got: undefined" in (a.get("panic") or ""):
        return "ok undefined", None     # the program tripped over the `undefined` that reduce handed back
    return a["outcome"] + " " + (a.get("panic") or "")[:120], None


# ----------------------------------------------------------------- minimiser

def minimise(line, still):
    f = line.split("\t")
    if f[1] == "d" and not f[2].startswith(("list:", "tuple:", "set:")):
        for w in D19_WITNESSES:
            if w.split("\t")[2].split(":")[0] == f[2].split(":")[0] and (w == line or still(w)):
                return w
    if f[3] == "reduce":
        c = "\t".join(f[:2] + [f[2].split(":")[0] + ":", "reduce", "add"])
        if f[2].split(":")[0] in ("list", "tuple") and (c == line or still(c)):
            return c
    # shrink the element list / bounds
    spec = f[2].split(":")
    if spec[0] in ("list", "tuple", "chan", "gen", "listit", "tupleit"):
        e = ints(spec[1])
        def mk(es):
            s2 = list(spec)
            s2[1] = ",".join(map(str, es))
            return "\t".join(f[:2] + [":".join(s2)] + f[3:])
        if len(e) > 1:
            e = vlib.ddmin(e, lambda es: (spec[0] != "gen" or es) and still(mk(es)))
        return mk(e)
    return line


# ----------------------------------------------------------------- run

def run(ctx):
    ctx.rule = ("receiver kind (list, tuple, set, their iterators, closed channel, generator, six iterable range kinds "
                "and their iterators at every position, two beginless kinds) × 25 natives × arguments in "
                "{min-2 … max+2} / counts in {-2 … n+2} × closures from a pool of 6 unary, 7 predicate, 6 binary pure "
                "functions; natives are called directly and through dispatch; plus Elk programs; distinct = distinct line")
    ctx.assumptions += [
        "protocol: each real iterator implements `next` as the model's state machine (tested by correspondence on "
        "every kind, at every start position, including what is left in the iterator after the operation)",
        "closures are pure and total (pool of Go native closures / Elk closure literals)",
    ]
    ctx.prove("ElkVerif.Props.C23")
    if ctx.replay:
        rep = json.load(open(ctx.replay))["input"]
        if "line" in rep:
            datelib.correspond(ctx, [rep["line"]], oracle=oracle, label="iter domain")
        else:
            run_programs(ctx, [rep["program_line"]] if "program_line" in rep else [], [rep["for_spec"]] if "for_spec" in rep else [])
        return
    orders = set_orders(ctx)
    n = ctx.n(2500, 120000)
    lines = vlib.corpus_lines("C23") + D19_WITNESSES
    lines += [gen_line(ctx.rng, orders) for _ in range(n)] + [gen_rcontains(ctx.rng) for _ in range(n // 10)]
    for ln in lines:
        ff = ln.split("\t")
        ctx.stat("kind:" + ff[2].split(":")[0])
        ctx.stat("op:" + ff[3])
        ctx.stat("mode:" + ff[1])
    datelib.correspond(ctx, lines, oracle=oracle, minimise=minimise, label="iter domain")
    # Elk source: the same operations through parser, checker, compiler and VM dispatch
    plines = [l for l in (gen_line(ctx.rng, orders) for _ in range(ctx.n(1500, 12000))) if l.split("\t")[2].startswith(("list:", "tuple:"))]
    plines = plines[:ctx.n(200, 3000)]
    # every range kind in a `for` header, as a literal and held in a variable (for_program alternates by index)
    specs = []
    for sp in ("cr:1:4", "or:1:4", "lor:1:4", "ror:1:4", "ecr:1", "eor:1", "cr:4:1", "or:2:3", "lor:3:3", "ror:-2:0", "ecr:-3", "eor:-1"):
        specs += [sp, sp]
    for _ in range(ctx.n(100, 1500)):
        s = gen_source(ctx.rng, orders)
        if not s.startswith(("it.", "listit", "tupleit", "setit")):
            specs.append(s)
    run_programs(ctx, plines, specs)


def run_programs(ctx, plines, specs):
    reqs, meta = [], []
    for i, ln in enumerate(plines):
        p = program_for(i, ln)
        if p:
            reqs.append(p)
            meta.append(("op", ln))
    for i, s in enumerate(specs):
        p = for_program(i, s)
        if p:
            reqs.append(p)
            meta.append(("for", s))
    if not reqs:
        return
    model_lines = [m[1] if m[0] == "op" else "iter\tn\t%s\t%s" % (m[1], "take\t7" if m[1].startswith("e") else "to_list")
                   for m in meta]
    model = vlib.run_model(model_lines)
    answers = vlib.run_programs(reqs)
    ok = True
    reported = 0
    for (kind, what), req, a, mline, mans in zip(meta, reqs, answers, model_lines, model):
        opname = what.split("\t")[3] if kind == "op" else ""
        got, recv_after = program_answer(a, opname.startswith("try_"), opname == "reduce")
        want_model = mans.split(" | ")[0]
        ctx.case(("prog", kind, what), sample={"program": req["src"], "impl": got, "model": want_model})
        ctx.stat("program:" + kind)
        ctx.stat("program-outcome:" + a["outcome"])
        pf = oracle(mline, got)
        if pf is None and kind == "op" and recv_after is not None:
            l, _, _ = source_elems(what.split("\t")[2])
            if recv_after != show_list(l):
                pf = f"the receiver reads {recv_after!r} after {what.split(chr(9))[3]}, it was {show_list(l)!r}"
        if got == want_model and pf is None:
            continue
        inp = {"program_line": what, "program": req["src"]} if kind == "op" else {"for_spec": what, "program": req["src"]}
        if pf is not None and got == want_model:
            v = {"kind": "property-fails", "input": inp, "detail": f"{pf}; program answers {got!r}, model {want_model!r}"}
            if ctx.match_finding(v) is not None:
                ctx.violation(v["kind"], v["input"], v["detail"])
                continue
        ok = False
        if reported >= 5:
            continue
        reported += 1
        if pf is not None:
            ctx.violation("property-fails", inp, f"{pf}; program answers {got!r}, model {want_model!r}")
        else:
            ctx.violation("model-impl-disagree", dict(inp, correspondence="Elk programs"),
                          f"program answers {got!r}, model {want_model!r}; the list oracle found nothing wrong", no_input=True)
    ctx.obligation(f"Elk programs: implementation = model on {len(reqs)} generated programs", ok, "correspondence")
