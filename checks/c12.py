"""C12 — Type-checking verdicts survive meaning-preserving edits."""
import json
import os
import re
import subprocess

import vlib
from checks import mini_gen, mini_common

META = {
    "property_id": "C12",
    "technique": "Lean 4 model of checkMethod's save/set/body/restore context discipline with a kernel-checked frame rule + probe of the "
                 "real checker's context fields around a closure literal + metamorphic testing of the four edits on generated "
                 "MiniElk programs and on directed method templates (return/throw/defer/loop/catch contexts)",
    "level_text": "Partial. Proved for every body, method description and context of the model of types/checker/method.go checkMethod "
                  "(as it is after commits e47324a and the hasDefer fix): the enclosing context (mode, flags, return/throw type, catch "
                  "scopes, local environments) is handed back unchanged (ctx_frame, ctx_frame_fields, checkMethod_balanced); the two "
                  "repaired variants are refuted on concrete contexts (ctx_leak_witness: return type reset to nil; "
                  "ctx_defer_leak_witness: hasDefer erased) and proved under the hypotheses that exclude them. Tie: a probe runs the "
                  "real checker on 9 closure shapes inside a method and an init context and the regenerated table of leaked fields is re-proved "
                  "clean by `decide` (ctx_probe_clean; one execution per shape). That the four edits (insert an unused local bound to "
                  "a value/closure at any statement position, consistent renaming of a local, redundant parentheses, reordering of "
                  "independent method definitions) preserve verdict and output is tested metamorphically on generated programs; the "
                  "MiniElk-level theorem `insert_unused_eval` is stated but not proved.",
    "level_note": "Trusted: Lean kernel; hand-written model of checkMethod; hook types/checker/verif_ctx.go; the integrator's MiniElk "
                  "generator/printer (read-only); python edit functions. Not covered: edits on harvested .elk files; renaming of "
                  "parameters of methods called with named arguments; edits inside string interpolation.",
    "design_ref": "DESIGN.md §7 C12",
}

# ---------------------------------------------------------------- s-expressions

def parse(s):
    i = 0
    n = len(s)

    def skip():
        nonlocal i
        while i < n and s[i].isspace():
            i += 1

    def node():
        nonlocal i
        skip()
        if s[i] == "(":
            i += 1
            out = []
            while True:
                skip()
                if s[i] == ")":
                    i += 1
                    return out
                out.append(node())
        if s[i] == '"':
            j = i + 1
            while s[j] != '"':
                j += 2 if s[j] == "\\" else 1
            tok = s[i:j + 1]
            i = j + 1
            return ("str", tok)
        j = i
        while j < n and not s[j].isspace() and s[j] not in "()":
            j += 1
        tok = s[i:j]
        i = j
        return tok
    return node()


def show(x):
    if isinstance(x, tuple):
        return x[1]
    if isinstance(x, list):
        return "(" + " ".join(show(y) for y in x) + ")"
    return x


def stmt_lists(prog):
    """all statement lists of a program as (container, slice-start) so that statements can be inserted: yields
    (list_object, first_index_of_statements)"""
    out = []

    def stmts(lst, start):
        out.append((lst, start))
        for s in lst[start:]:
            stmt(s)

    def expr(e):
        if isinstance(e, list) and e:
            if e[0] == "lam":
                stmts(e, 3)
            else:
                for x in e[1:]:
                    expr(x)

    def stmt(s):
        h = s[0]
        if h == "decl":
            expr(s[3])
        elif h in ("expr", "print", "ret", "throw"):
            expr(s[1])
        elif h == "if":
            expr(s[1])
            stmts(s[2], 0)
            stmts(s[3], 0)
        elif h == "while":
            expr(s[2])
            stmts(s, 3)
        elif h == "loop":
            stmts(s, 2)
        elif h == "try":
            stmts(s[1], 0)
            for c in s[2]:
                stmts(c, 3)
            if isinstance(s[3], list):
                stmts(s[3], 1)
    for d in prog[2][1:]:
        stmts(d, 4)
    stmts(prog[3], 1)
    return out


UNUSED_VALUES = [
    "(int 7)", '(str "u")', "(bool true)", "(nil)",
    "(lam () int (expr (int 1)))",
    "(lam ((q int)) int (expr (bin add (var q) (int 1))))",
    "(lam () int (ret (int 5)))",
    "(lam ((q int)) int (while _ (bin gt (var q) (int 0)) (expr (assign q (bin sub (var q) (int 1))))) (expr (var q)))",
    '(lam () int (try ((throw (str "in")) ) ((catch isstr e (expr (int 2)))) _) (expr (int 3)))',
    "(lam ((q int)) int (if (bin gt (var q) (int 1)) ((ret (int 1))) ()) (expr (int 0)))",
]


def edit_insert(prog, rng, tag):
    """any statement position that is not the END of a block: the last expression of a block is its value (closure and
    method results, `if` used as a value), so appending there is not meaning-preserving"""
    lists = [(l, s) for l, s in stmt_lists(prog) if len(l) > s]
    lst, start = rng.choice(lists)
    pos = rng.randint(start, len(lst) - 1)
    val = parse(rng.choice(UNUSED_VALUES))
    lst.insert(pos, ["decl", f"zz{tag}", "_", val])
    return prog


def strip_marker(prog):
    """inverse of edit_insert: remove every `decl zz…` statement"""
    def walk(x):
        if isinstance(x, list):
            x[:] = [y for y in x if not (isinstance(y, list) and len(y) == 4 and y[0] == "decl" and isinstance(y[1], str) and y[1].startswith("zz"))]
            for y in x:
                walk(y)
    walk(prog)
    return prog


def local_names(prog):
    names = set()

    def walk(x):
        if isinstance(x, list) and x:
            if x[0] == "decl" and isinstance(x[1], str):
                names.add(x[1])
            if x[0] == "catch" and isinstance(x[2], str):
                names.add(x[2])
            if x[0] in ("def",):
                for p in x[2]:
                    names.add(p[0])
            if x[0] == "lam":
                for p in x[1]:
                    names.add(p[0])
            for y in x:
                walk(y)
    walk(prog)
    return sorted(names)


def edit_rename(prog, rng, tag, which=None):
    names = local_names(prog)
    if not names:
        return None
    old = which or rng.choice(names)
    new = f"zr{tag}"

    def walk(x):
        if isinstance(x, list):
            return [walk(y) for y in x]
        return new if x == old else x
    return walk(prog), old


def edit_reorder(prog, rng):
    defs = prog[2][1:]
    if len(defs) < 2:
        return None
    perm = defs[:]
    while perm == defs:
        rng.shuffle(perm)
    prog[2][1:] = perm
    return prog


def edit_parens(src, rng):
    """redundant parentheses around one parenthesised sub-expression of the printed source"""
    cands = []
    for i, ch in enumerate(src):
        if ch != "(":
            continue
        j = i - 1
        while j >= 0 and src[j] == " ":
            j -= 1
        prev = src[j] if j >= 0 else "\n"
        if prev.isalnum() or prev in "_)]!?|.\"":
            continue            # a call, not a grouping parenthesis
        depth, k = 0, i
        while k < len(src):
            if src[k] == "(":
                depth += 1
            elif src[k] == ")":
                depth -= 1
                if depth == 0:
                    break
            elif src[k] == "\n":
                k = -1
                break
            k += 1
        if k > i:
            cands.append((i, k))
    if not cands:
        return None
    i, k = rng.choice(cands)
    return src[:i] + "(" + src[i:k + 1] + ")" + src[k + 1:]


# ---------------------------------------------------------------- directed templates

PRE = ["", "defer println(\"deferred\")", "x := a + 1\nprintln(x)", "defer println(\"d1\")\ndefer println(\"d2\")"]
POST = [
    "return a + 1",
    "throw \"big\" if a > 5\na",
    "do\n  throw \"x\"\ncatch String() as e\n  println(e)\nend\na",
    "i := 0\nwhile i < 3\n  i = i + 1\n  break if i == 2\nend\ni",
    "a",
    "if a > 0\n  return a\nend\n0",
    "do\n  return a\nfinally\n  println(\"fin\")\nend",
    "var l: ArrayList[String] = [\"p\", \"q\"][0...1]\nprintln(l.inspect)\na",
]
INSERTS = [
    "zz := 7", "zz := \"s\"", "zz := -> 1", "zz := |q: Int|: Int -> q + 1", "zz := ||: Int ->\n  return 5\nend",
    "zz := ||: Int ! Int ->\n  throw 3\nend", "zz := || ->\n  defer println(\"never\")\n  1\nend",
    "zz := |q: Int| ->\n  while q > 0\n    q = q - 1\n  end\n  q\nend",
    "zz := || ->\n  do\n    1 / 1\n  catch ZeroDivisionError()\n    0\n  end\nend",
    "zz := || -> || -> 2", "zz := ||: Int ->\n  loop\n    break\n  end\n  4\nend",
    "zz := [1, 2][1]", "zz := [1.5, 2.5][0...0]", "zz := %{ 1 => 2 }[1]",
]


SHADOW_TEMPLATES = [
    # the binder {N} of a pattern / parameter is a NEW local of its clause; the outer local `x` is read afterwards
    "x := \"none\"\ndo\n  throw \"boom\"\ncatch String() as {N}\n  println({N})\nend\nprintln(x)\na",
    "x := [100]\nswitch [a, a * 2]\ncase [_, _] as {N}\n  println({N}.inspect)\nend\nprintln(x.inspect)\na",
    "x := 5\ng := |{N}: Int|: Int -> {N} + 1\nprintln(g.call(2))\nprintln(x)\na",
    "x := \"none\"\ndo\n  do\n    throw \"in\"\n  catch String() as {N}\n    println({N})\n    throw \"out\"\n  end\ncatch String() as y\n  println(y)\nend\nprintln(x)\na",
    "x := 7\nswitch a\ncase Int() as {N}\n  println({N} + 1)\nend\nprintln(x)\na",
]


def template_shadow(uid, k, name):
    body = "\n".join("    " + l for l in SHADOW_TEMPLATES[k].replace("{N}", name).split("\n"))
    return (f"module D{uid}\n  def f(a: Int): Int\n{body}\n  end\nend\nprintln(D{uid}.f(1))\nprintln(D{uid}.f(9))\n")


def template(uid, pre, post, insert, at):
    """method `f` with the unused declaration inserted before (at=0) or after (at=1) `pre`"""
    parts = [insert, pre] if at == 0 else [pre, insert]
    body = "\n".join(p for p in parts + [post] if p)
    body = "\n".join("    " + l for l in body.split("\n"))
    return (f"module D{uid}\n  def f(a: Int): Int ! String\n{body}\n  end\nend\n"
            f"do\n  println(D{uid}.f(1))\n  println(D{uid}.f(9))\ncatch String() as e\n  println(\"caught \" + e)\nend\n")


def template_init(uid, insert, at):
    """`init` context: after the inserted declaration the checker must still be in init mode (instance variables may
    be initialised) and `self` must still be the instance"""
    lines = [insert, "@v = a"] if at == 0 else ["@w = a + 1", insert, "@v = a"]
    body = "\n".join("      " + l for x in lines if x for l in x.split("\n"))
    return (f"module D{uid}\n  class K\n    attr v: Int\n    attr w: Int\n    init(a: Int)\n      @w = 0\n{body}\n    end\n"
            f"    def sum: Int\n      @v + @w\n    end\n  end\nend\nprintln(D{uid}::K(3).sum)\n")


# ---------------------------------------------------------------- running

def obs(a):
    if a.get("rejected"):
        return ("rejected", "", "")
    o = a.get("outcome")
    if o == "error":
        return ("error", a.get("err_class", ""), a.get("stdout", ""))
    if o in ("panic", "fatal", "timeout"):
        return (o, (a.get("panic") or "")[:80], a.get("stdout", ""))
    return (o, "", a.get("stdout", ""))


def run_pairs(pairs):
    """pairs: list of (id, src_original, src_edited) -> list of (obs_original, obs_edited, answers)"""
    reqs = []
    for i, (pid, a, b) in enumerate(pairs):
        reqs.append({"id": f"{pid}o", "src": a, "timeout_ms": 6000})
        reqs.append({"id": f"{pid}e", "src": b, "timeout_ms": 6000})
    ans = prun(reqs)
    for k, a in enumerate(ans):
        if a.get("outcome") == "timeout":
            ans[k] = vlib.run_programs([dict(reqs[k], timeout_ms=40000)])[0]
    return [(obs(ans[2 * i]), obs(ans[2 * i + 1]), ans[2 * i], ans[2 * i + 1]) for i in range(len(pairs))]


def prun(reqs, workers=4):
    import concurrent.futures
    if not reqs:
        return []
    chunks = [reqs[i::workers] for i in range(workers)]
    with concurrent.futures.ThreadPoolExecutor(workers) as ex:
        res = list(ex.map(lambda c: vlib.run_programs(c) if c else [], chunks))
    out = [None] * len(reqs)
    for i in range(workers):
        for j, r in enumerate(res[i]):
            out[i + j * workers] = r
    return out


def uniq_mod(sexpr, suffix):
    """the module name is process-global in the worker: original and edited program get different ones"""
    return re.sub(r"^\(prog (\w+) ", lambda m: f"(prog {m.group(1)}{suffix} ", sexpr)


def sources(sexprs):
    return [m[0] for m in mini_common.model_eval(sexprs)]


def regen_probe(ctx):
    """probe table -> lean/ElkVerif/Gen/CtxProbe.lean; returns the probe document"""
    env = vlib.go_env()
    p = subprocess.run([vlib.ELKH, "probe", "ctxprobe"], stdout=subprocess.PIPE, stderr=subprocess.PIPE, text=True, env=env, timeout=300)
    if p.returncode != 0:
        raise RuntimeError("ctxprobe failed: " + p.stderr[-400:])
    doc = json.loads(p.stdout)
    rows = []
    for i, c in enumerate(doc["cases"]):
        fields = sorted({l.split(":")[0] for l in c["leaked"]})
        rows.append(f"  ({i}, [{', '.join(json.dumps(f) for f in fields)}])")
    txt = ("-- GENERATED by checks/c12.py from `elkh probe ctxprobe` (types/checker/verif_ctx.go) — do not edit\n"
           "namespace Elk.Gen\n"
           "/-- per probed closure literal: the Checker fields that differ after it was checked inside a method context -/\n"
           "def ctxLeaked : List (Nat × List String) := [\n" + ",\n".join(rows) + "\n]\nend Elk.Gen\n")
    vlib.write_if_changed(os.path.join(vlib.LEAN, "ElkVerif", "Gen", "CtxProbe.lean"), txt)
    return doc


CTX_FIELDS = {"mode", "flags", "returnType", "throwType", "catchScopes", "localEnvs", "currentLocalEnv.locals"}


def run(ctx):
    ctx.rule = ("(1) MiniElk programs (closures, 3 defs, nesting 3) with one edit each: unused local (value or one of 6 closure shapes) at a "
                "random statement position of any block, renaming of a random local/parameter/catch variable, redundant parentheses "
                "around a random grouping, permutation of the method definitions; (2) method templates pre x post x insert over "
                "defer/return/throw/catch/loop/finally contexts; distinct = distinct (program, edit); non-trivial = original accepted")
    doc = regen_probe(ctx)
    ctx.prove("ElkVerif.Props.C12")
    for c in doc["cases"]:
        for l in c["leaked"]:
            f = l.split(":")[0]
            kind = "context-leak" if f in CTX_FIELDS else "context-leak-unmodelled-field"
            ctx.violation(kind, {"field": f, "closure": c["src"]} if not c.get("variant") else {"field": f, "closure": c["src"], "context": "init"},
                          f"after checking the closure literal inside a method context the Checker field `{l}` differs")
    ctx.stat("probe-closures", len(doc["cases"]))
    if ctx.replay:
        inp = json.load(open(ctx.replay))["input"]
        if "original" not in inp:
            return
        pairs = [("rp", inp["original"], inp["edited"])]
        res = run_pairs(pairs)
        o, e, _, _ = res[0]
        if o != e:
            ctx.violation(inp.get("edit", "edit") + "-changes-behaviour", inp, f"original {o} vs edited {e}")
        return
    n = ctx.n(45, 1500)
    knobs = mini_gen.Knobs(closures=True, defs=3, max_depth=3, block_len=(1, 4))
    items = []          # (edit kind, sexpr original, sexpr edited or None, src-level edit fn or None, meta)
    sx_o, sx_e, meta = [], [], []
    for i in range(n):
        g = mini_gen.Gen(ctx.rng, knobs, modname=f"E{ctx.seed}x{i}")
        p = g.program()
        kind = ctx.rng.choice(["insert", "insert", "insert", "rename", "parens", "reorder"])
        tree = parse(p)
        if kind == "insert":
            ed = show(edit_insert(tree, ctx.rng, i))
        elif kind == "rename":
            r = edit_rename(tree, ctx.rng, i)
            if r is None:
                continue
            ed = show(r[0])
        elif kind == "reorder":
            r = edit_reorder(tree, ctx.rng)
            if r is None:
                continue
            ed = show(r)
        else:
            ed = p
        sx_o.append(uniq_mod(p, "o"))
        sx_e.append(uniq_mod(ed, "e"))
        meta.append(kind)
    so, se = sources(sx_o), sources(sx_e)
    pairs = []
    for i, kind in enumerate(meta):
        a, b = so[i], se[i]
        if kind == "parens":
            b2 = edit_parens(b, ctx.rng)
            if b2 is None:
                continue
            b = b2
        pairs.append((f"m{i}", a, b, kind, sx_o[i], sx_e[i]))
    # directed templates
    tn = ctx.n(36, 308)
    combos = [(pi, qi, ii, at) for pi in range(len(PRE)) for qi in range(len(POST)) for ii in range(len(INSERTS)) for at in (0, 1)]
    ctx.rng.shuffle(combos)
    for k, (pi, qi, ii, at) in enumerate(combos[:tn]):
        uid = f"{ctx.seed}t{k}"
        a = template(uid + "o", PRE[pi], POST[qi], "", at)
        b = template(uid + "e", PRE[pi], POST[qi], INSERTS[ii], at)
        pairs.append((f"t{k}", a, b, "insert-template", None, None))
    # `init` of a class with attrs is a pure context: closures that print are not insertable there
    init_inserts = [x for x in INSERTS if "println" not in x]
    for k, ins in enumerate(init_inserts if not ctx.quick else ctx.rng.sample(init_inserts, 4)):
        for at in (0, 1):
            uid = f"{ctx.seed}t{900 + 2 * k + at}"
            pairs.append((f"i{k}{at}", template_init(uid + "o", "", at), template_init(uid + "e", ins, at), "insert-template", None, None))
    # consistent renaming of a pattern / parameter binder to the name of an outer local that is read afterwards
    for k in range(len(SHADOW_TEMPLATES)):
        uid = f"{ctx.seed}s{k}"
        pairs.append((f"s{k}", template_shadow(uid + "o", k, "inner"), template_shadow(uid + "e", k, "x"), "rename-template", None, None))
    # corpus pairs
    for k, (a, b) in enumerate(corpus_pairs()):
        pairs.append((f"c{k}", a, b, "corpus", None, None))
    res = run_pairs([(p[0], p[1], p[2]) for p in pairs])
    ok = True
    reported = 0
    for (pid, a, b, kind, sxo, sxe), (o, e, ao, ae) in zip(pairs, res):
        ctx.case((a, b), nontrivial=o[0] in ("value", "error"), sample={"edit": kind, "original": a[:400], "verdict": o[0]})
        ctx.stat("edit:" + kind)
        ctx.stat("original:" + o[0])
        if o[0] in ("panic", "fatal", "timeout", "rejected"):
            # the original itself is not an accepted, running program: nothing to preserve (other properties own these)
            continue
        if norm_out(o, kind) == norm_out(e, kind):
            continue
        if reported >= 4:
            ok = False
            continue
        reported += 1
        a2, b2 = a, b
        if sxe is not None and kind in ("insert", "rename", "reorder"):
            a2, b2 = shrink_pair(sxo, sxe, kind)
            r2 = run_pairs([("fin", a2, b2)])[0]
            if norm_out(r2[0], kind) == norm_out(r2[1], kind) or r2[0][0] in ("panic", "fatal", "timeout", "rejected"):
                a2, b2, r2 = a, b, (o, e, ao, ae)
            o, e, ao, ae = r2
        diags = "; ".join(d["msg"].split("\n")[0] for d in ae.get("diags", []) if d["sev"] == "FAIL")[:300]
        if ctx.violation(kind + "-changes-behaviour", {"edit": kind, "original": canon(a2), "edited": canon(b2)},
                         f"original: {o}; after the edit: {e} {diags}"):
            ok = False
        else:
            reported -= 1
    ctx.obligation(f"verdict and output preserved by the four edits on {len(pairs)} (program, edit) pairs", ok, "correspondence")


def norm_out(o, kind):
    return o


def canon(src):
    """module names carry the run's seed: canonical spelling for known-finding matching"""
    return re.sub(r"\b([DE])\d+[xt]\d+([oe]k?)\b", r"\1_\2", src)


def shrink_pair(sxo, sxe, kind):
    """shrink the EDITED program (statement deletion); the original is derived from it"""
    uniq = [0]

    def derive(c):
        if kind == "insert":
            return show(strip_marker(parse(c)))
        return None

    def fails_batch(cands):
        uniq[0] += 1
        outs = []
        pairs, idx = [], []
        for j, c in enumerate(cands):
            try:
                if kind == "insert":
                    if "zz" not in c:
                        continue
                    o_sx = derive(c)
                elif kind == "rename":
                    m = re.search(r"\bzr\d+\b", c)
                    if not m:
                        continue
                    o_sx = c.replace(m.group(0), "v0orig")
                else:
                    continue
                c2 = re.sub(r"^\(prog (\w+?)(?:y\d+y\d+)? ", lambda mm: f"(prog {mm.group(1)}y{uniq[0]}y{j} ", c)
                o2 = re.sub(r"^\(prog (\w+?)(?:y\d+y\d+)? ", lambda mm: f"(prog {mm.group(1)}w{uniq[0]}y{j} ", o_sx)
                s1, s2 = sources([o2, c2])
                pairs.append((f"s{j}", s1, s2))
                idx.append(j)
            except Exception:
                continue
        res = run_pairs(pairs) if pairs else []
        out = [False] * len(cands)
        for j, r in zip(idx, res):
            out[j] = r[0][0] in ("value", "error") and r[0] != r[1]
        return out
    if kind == "reorder":
        return sources([sxo])[0], sources([sxe])[0]
    small = mini_common.shrink_program(sxe, fails_batch, wall=40.0)
    if kind == "insert":
        o_sx = derive(small)
    else:
        m = re.search(r"\bzr\d+\b", small)
        o_sx = small.replace(m.group(0), "v0orig") if m else sxo
    o_sx = re.sub(r"^\(prog (\w+) ", lambda mm: f"(prog {mm.group(1)}k ", o_sx)
    s1, s2 = sources([o_sx, small])
    return s1, s2


def corpus_pairs():
    d = os.path.join(vlib.ROOT, "corpus", "C12")
    out = []
    if os.path.isdir(d):
        for f in sorted(os.listdir(d)):
            if f.endswith(".json"):
                for l in open(os.path.join(d, f)):
                    if l.strip() and not l.startswith("#"):
                        j = json.loads(l)
                        out.append((j["original"], j["edited"]))
    return out
