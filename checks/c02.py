"""C02 — Static types describe runtime values (narrowing tables + runtime probes)."""
import itertools
import json
import re
import concurrent.futures as cf

import vlib

META = {
    "property_id": "C02",
    "technique": "Lean 4 line-by-line model of the decision tables of types/checker/narrow.go over a finite value universe with a "
                 "kernel-checked soundness theorem (all condition shapes, assumptions, value assignments) + exact correspondence of "
                 "the model's refinements with the static types read off the real checked AST + runtime probes (value in static type)",
    "level_text": "Partial. narrow_tables_sound_partial / if_branches_sound: for every condition built from identifiers, literals, "
                  "! && || ?? == != <: <<:, every reachable assumption and every value assignment, the refinements emitted by the "
                  "tables (as they are in the code) are satisfied by the run-time values, outside the defect class `||` under a nil "
                  "assumption (kernel-checked witness). The model is tied to narrow.go by comparing, per generated condition, the "
                  "static type of every local inside both branches and of every identifier occurrence of the condition with the "
                  "checked AST (types decided by the real IsSubtype). Runtime: every observed local/condition value must lie in the "
                  "static type of its probe node. Type soundness of whole programs is not proved.",
    "level_note": "Trusted: Lean kernel; Driver/Dom/Narrow.lean decoder; harness/dom/typ.go (reads node types through "
                  "ast.Traverse and Checker.IsSubtype); the Elk printer of checks/c02.py. Universe {nil,false,true,1,2,\"a\"}: "
                  "generic types, closures, pattern `match` conditions and assignments-as-conditions are outside the model. "
                  "Known findings: `(a || b) ?? e` types `a` as nil in `e`; closure-invalidated narrowing.",
    "design_ref": "DESIGN.md §7 C02",
}

VALS = ["N", "F", "T", "1", "2", "a"]
BIT = {"N": 1, "F": 2, "T": 4, "1": 8, "2": 16, "a": 32}
ELK_VAL = {"N": "nil", "F": "false", "T": "true", "1": "1", "2": "2", "a": '"a"'}
# declared parameter types: Elk spelling -> mask
TYPES = [("Int", 24), ("Int?", 25), ("String?", 33), ("Bool", 6), ("Bool?", 7), ("Int | String", 56),
         ("Int | String | nil", 57), ("nil", 1), ("false | nil", 3), ("Int | Bool", 30), ("String | false", 34),
         ("1 | nil", 9), ("true | nil", 5), ("2 | String", 48), ("true", 4), ("Int | true | nil", 29),
         ("String", 32), ("Int | false", 26), ("Int | String | Bool | nil", 63)]
NAMES = ["a", "b", "c"]
CLASSES = {"Int": 24, "String": 32, "Bool": 6, "Nil": 1, "True": 4, "False": 2, "Value": 63}


def members(mask):
    return [v for v in VALS if mask & BIT[v]]


# ----------------------------------------------------------------------------- conditions
# ('v', i) ('l', V) ('not', c) ('and', a, b) ('or', a, b) ('nc', a, b) ('eq', a, b) ('ne', a, b) ('isa', i, C) ('inst', i, C)

def sx(c):
    t = c[0]
    if t == 'v':
        return "(v %d)" % c[1]
    if t == 'l':
        return "(l %s)" % c[1]
    if t == 'not':
        return "(not %s)" % sx(c[1])
    if t in ('isa', 'inst'):
        return "(%s %d %s)" % (t, c[1], c[2])
    return "(%s %s %s)" % (t, sx(c[1]), sx(c[2]))


def unsx(x):
    t = x[0]
    if t == 'v':
        return ('v', int(x[1]))
    if t == 'l':
        return ('l', x[1])
    if t == 'not':
        return ('not', unsx(x[1]))
    if t in ('isa', 'inst'):
        return (t, int(x[1]), x[2])
    return (t, unsx(x[1]), unsx(x[2]))


def sx_parse(s):
    toks = re.findall(r"\(|\)|[^\s()]+", s)
    pos = [0]

    def rd():
        t = toks[pos[0]]
        pos[0] += 1
        if t == "(":
            out = []
            while toks[pos[0]] != ")":
                out.append(rd())
            pos[0] += 1
            return out
        return t
    return rd()


class Printer:
    """prints a condition and records the columns (0-based offsets in the printed text) of the plain
    identifier occurrences — those the model annotates — in source order"""

    def __init__(self):
        self.s = ""
        self.occ = []

    def emit(self, c):
        t = c[0]
        if t == 'v':
            self.occ.append(len(self.s))
            self.s += NAMES[c[1]]
        elif t == 'l':
            self.s += ELK_VAL[c[1]]
        elif t == 'not':
            self.s += "(!("      # `if !(x)` followed by a newline does not parse at this commit; `(!(x))` does
            self.emit(c[1])
            self.s += "))"
        elif t in ('isa', 'inst'):
            self.s += "%s %s ::Std::%s" % (NAMES[c[1]], "<:" if t == 'isa' else "<<:", c[2])
        else:
            op = {"and": "&&", "or": "||", "nc": "??", "eq": "==", "ne": "!="}[t]
            self.s += "("
            self.emit(c[1])
            self.s += ") %s (" % op
            self.emit(c[2])
            self.s += ")"


def py_eval(c, rho):
    """evaluation rules of the operators (model-free reference)"""
    t = c[0]
    if t == 'v':
        return rho[c[1]]
    if t == 'l':
        return c[1]
    truthy = lambda v: v not in ("N", "F")
    if t == 'not':
        return "F" if truthy(py_eval(c[1], rho)) else "T"
    if t == 'and':
        a = py_eval(c[1], rho)
        return py_eval(c[2], rho) if truthy(a) else a
    if t == 'or':
        a = py_eval(c[1], rho)
        return a if truthy(a) else py_eval(c[2], rho)
    if t == 'nc':
        a = py_eval(c[1], rho)
        return py_eval(c[2], rho) if a == "N" else a
    if t == 'eq':
        return "T" if py_eval(c[1], rho) == py_eval(c[2], rho) else "F"
    if t == 'ne':
        return "T" if py_eval(c[1], rho) != py_eval(c[2], rho) else "F"
    if t in ('isa', 'inst'):
        return "T" if BIT[rho[c[1]]] & CLASSES[c[2]] else "F"
    raise ValueError(c)


def has_or_on_nil_path(c, under_nc_left=False):
    """the known defect class: an `||` that receives the nil assumption from an enclosing `??`"""
    t = c[0]
    if t == 'or' and under_nc_left:
        return True
    if t == 'nc':
        return has_or_on_nil_path(c[1], True) or has_or_on_nil_path(c[2], under_nc_left) or has_or_on_nil_path(c[2], False)
    if t in ('v', 'l', 'isa', 'inst'):
        return False
    if t == 'not':
        return has_or_on_nil_path(c[1], False)
    return has_or_on_nil_path(c[1], False) or has_or_on_nil_path(c[2], False)


# ----------------------------------------------------------------------------- programs

def program(mod, tys, cond, assignments):
    """returns (source, info) — info: line numbers of the probes"""
    pr = Printer()
    pr.emit(cond)
    n = len(tys)
    L = ["module %s" % mod,
         "  def id(x: any): any then x",
         "  def run(%s): nil" % ", ".join("%s: %s" % (NAMES[i], tys[i][0]) for i in range(n))]
    names = NAMES[:n]
    tup = "%[" + ", ".join("id(%s)" % x for x in names) + "]"
    info = {}
    L.append("    x := (" + pr.s + ")")
    info["x_decl_line"] = len(L)
    info["cond_col_x"] = len("    x := (") + 1
    L.append('    println("X " + %[id(x)].inspect)')
    L.append("    x")
    info["x_line"] = len(L)
    L.append("    if " + pr.s)
    info["if_line"] = len(L)
    info["cond_col_if"] = len("    if ") + 1
    info["occ"] = list(pr.occ)
    L.append('      println("T " + %s.inspect)' % tup)
    info["then"] = {}
    for x in names:
        L.append("      " + x)
        info["then"][x] = len(L)
    L.append("    else")
    L.append('      println("F " + %s.inspect)' % tup)
    info["else"] = {}
    for x in names:
        L.append("      " + x)
        info["else"][x] = len(L)
    L += ["    end", "    nil", "  end", "end"]
    for rho in assignments:
        L.append("%s.run(%s)" % (mod, ", ".join(ELK_VAL[v] for v in rho)))
    return "\n".join(L) + "\n", info


def make_line(tys, cond):
    return "nar\tif\t00\t%s\t%s" % (",".join(str(m) for _, m in tys), sx(cond))


def parse_line(line):
    f = line.split("\t")
    masks = [int(m) for m in f[3].split(",")]
    tys = []
    for m in masks:
        cands = [t for t in TYPES if t[1] == m]
        if not cands:
            raise ValueError("no Elk type for mask %d" % m)
        tys.append(cands[0])
    return tys, unsx(sx_parse(f[4]))


def parse_model(ans):
    m = re.match(r"ok ty=(\d+) ann=([\d,]*) then=([\d,]*) else=([\d,]*)$", ans)
    if not m:
        return None
    ints = lambda s: [int(x) for x in s.split(",") if x != ""]
    return {"ty": int(m.group(1)), "ann": ints(m.group(2)), "then": ints(m.group(3)), "else": ints(m.group(4))}


def parse_probe(ans):
    head, _, rest = ans.partition(" | ")
    occ = {}
    for item in filter(None, rest.split(";")):
        pos, _, mask = item.partition("=")
        mask = mask.split("/")[0]
        line, col, name = pos.split(":")
        occ[(int(line), int(col))] = (name, None if mask == "?" else int(mask))
    return head, occ


def parse_run(stdout):
    """[(tag, [values])] for the lines `X %[v]` / `T %[a, b, c]` / `F …`"""
    out = []
    for ln in stdout.splitlines():
        m = re.match(r"^([XTF]) %\[(.*)\]$", ln.strip())
        if not m:
            continue
        vals = []
        for tok in [t.strip() for t in m.group(2).split(",") if t.strip()]:
            vals.append({"nil": "N", "false": "F", "true": "T", "1": "1", "2": "2", '"a"': "a"}.get(tok, "?" + tok))
        out.append((m.group(1), vals))
    return out


# ----------------------------------------------------------------------------- generator

def gen_cond(rng, n, depth):
    c = rng.random()
    if depth <= 0 or c < 0.3:
        c2 = rng.random()
        if c2 < 0.7:
            return ('v', rng.randrange(n))
        if c2 < 0.85:
            return ('l', rng.choice(VALS))
        return (rng.choice(['isa', 'inst']), rng.randrange(n), rng.choice(["Int", "String", "Bool", "Nil", "Value"] if c2 < 0.95 else ["Int", "String"]))
    if c < 0.42:
        return ('not', gen_cond(rng, n, depth - 1))
    if c < 0.6:
        return ('and', gen_cond(rng, n, depth - 1), gen_cond(rng, n, depth - 1))
    if c < 0.76:
        return ('or', gen_cond(rng, n, depth - 1), gen_cond(rng, n, depth - 1))
    if c < 0.86:
        return ('nc', gen_cond(rng, n, depth - 1), gen_cond(rng, n, depth - 1))
    a = ('v', rng.randrange(n))
    b = ('v', rng.randrange(n)) if rng.random() < 0.5 else ('l', rng.choice(VALS))
    if rng.random() < 0.3:
        a, b = b, a
    return (rng.choice(['eq', 'eq', 'ne']), a, b)


def fix_inst(c):
    """`<<:` needs a class: Bool/Value/Nil are fine for `<:`; keep Int/String for `<<:`"""
    t = c[0]
    if t == 'inst' and c[2] not in ("Int", "String"):
        return ('inst', c[1], "Int")
    if t in ('v', 'l', 'isa', 'inst'):
        return c
    if t == 'not':
        return ('not', fix_inst(c[1]))
    return (t, fix_inst(c[1]), fix_inst(c[2]))


def gen_line(rng, allow_defect=False):
    n = rng.choice([1, 2, 2, 3, 3])
    tys = [rng.choice(TYPES) for _ in range(n)]
    for _ in range(20):
        cond = fix_inst(gen_cond(rng, n, rng.choice([1, 2, 2, 3])))
        if allow_defect or not has_or_on_nil_path(cond):
            break
    return make_line(tys, cond)


# ----------------------------------------------------------------------------- the check

def run_many(reqs, workers=8):
    n = max(1, min(workers, len(reqs) // 20 + 1))
    chunks = [reqs[i::n] for i in range(n)]
    with cf.ThreadPoolExecutor(n) as ex:
        res = list(ex.map(lambda ch: vlib.run_programs(ch) if ch else [], chunks))
    byid = {}
    for ch in res:
        for a in ch:
            byid[a.get("id")] = a
    return [byid.get(r["id"], {"id": r["id"], "outcome": "fatal", "diags": [], "stdout": ""}) for r in reqs]


def assignments_for(tys, rng, limit=24):
    doms = [members(m) for _, m in tys]
    allc = list(itertools.product(*doms))
    if len(allc) > limit:
        allc = rng.sample(allc, limit)
    return allc


def analyse(line, probe_ans, model_ans, run_ans, info, assignments):
    """returns list of (kind, detail).  kinds: table (model≠checker), unsound (runtime value outside static type),
    eval (operator semantics), rejected, machinery"""
    tys, cond = parse_line(line)
    n = len(tys)
    names = NAMES[:n]
    out = []
    head, occ = parse_probe(probe_ans)
    mo = parse_model(model_ans)
    if mo is None:
        return [("machinery", "model answer " + model_ans)]
    if probe_ans.startswith("rejected parse") or probe_ans.startswith("panic") or probe_ans.startswith("fatal"):
        return [("machinery", probe_ans[:200])]

    def at(line_no, col=None, name=None):
        for (l, c), (nm, mask) in occ.items():
            if l == line_no and (col is None or c == col) and (name is None or nm == name):
                return mask
        return None
    # (i) table correspondence
    got_then = [at(info["then"][x], name=x) for x in names]
    got_else = [at(info["else"][x], name=x) for x in names]
    got_ann = [at(info["if_line"], col=info["cond_col_if"] + o) for o in info["occ"]]
    rejected = head.startswith("rejected")
    for what, got, want in (("then", got_then, mo["then"]), ("else", got_else, mo["else"]), ("annotations", got_ann, mo["ann"])):
        if any(g is None for g in got):
            if not rejected:
                out.append(("machinery", "no type on a probe node (%s): %r" % (what, got)))
            continue
        if got != want:
            out.append(("table", "%s: checker %r, model %r (masks nil=1 false=2 true=4 1=8 2=16 \"a\"=32)" % (what, got, want)))
    x_mask0 = at(info["x_line"], name="x")
    if x_mask0 is not None:
        w = mo["ty"]
        wi = w | 24 if w & 24 else w          # `x := e` widens the literal types 1, 2 to Int
        wb = w | 6 if w & 6 else w            # and, depending on their normal form, true / false to Bool
        if x_mask0 not in (w, wi, wb, wi | wb):
            out.append(("table", "type of the condition (as declared type of `x := cond`): checker %d, model %d (widened %d)" % (x_mask0, w, wi | wb)))
    if rejected:
        out.append(("rejected", head))
        return out
    # (ii) runtime: every observed value lies in the static type of its probe
    if run_ans is None:
        return out
    if run_ans["outcome"] != "value":
        out.append(("unsound" if run_ans["outcome"] in ("panic", "error") else "machinery",
                    "running the accepted program: %s %s %s" % (run_ans["outcome"], run_ans.get("err_class", ""),
                                                                (run_ans.get("err_msg") or run_ans.get("panic") or "")[:160])))
        return out
    recs = parse_run(run_ans["stdout"])
    if len(recs) != 2 * len(assignments):
        out.append(("machinery", "expected %d output records, got %d" % (2 * len(assignments), len(recs))))
        return out
    x_mask = at(info["x_line"], name="x")
    for k, rho in enumerate(assignments):
        (tx, vx), (tb, vb) = recs[2 * k], recs[2 * k + 1]
        want = py_eval(cond, list(rho))
        if tx != "X" or vx != [want]:
            out.append(("eval", "assignment %s: the condition evaluated to %r, the operator rules give %s" % (",".join(rho), vx, want)))
            continue
        if x_mask is not None and not (BIT.get(want, 0) & x_mask):
            out.append(("unsound", "assignment %s: the condition's value %s is outside its static type (mask %d)" % (",".join(rho), want, x_mask)))
        branch = "then" if want not in ("N", "F") else "else"
        if tb != ("T" if branch == "then" else "F") or vb != list(rho):
            out.append(("eval", "assignment %s: branch %s with locals %r" % (",".join(rho), tb, vb)))
            continue
        masks = got_then if branch == "then" else got_else
        for x, v, m in zip(names, rho, masks):
            if m is not None and not (BIT[v] & m):
                out.append(("unsound", "assignment %s: in the %s-branch `%s` holds %s but its static type there admits only %s"
                            % (",".join(rho), branch, x, ELK_VAL[v], "|".join(ELK_VAL[u] for u in members(m)) or "never")))
    return out


def check_lines(ctx, lines, label, tag="N"):
    parsed = [parse_line(l) for l in lines]
    progs = []
    for i, (tys, cond) in enumerate(parsed):
        asg = assignments_for(tys, ctx.rng)
        src, info = program("%s%d" % (tag, i), tys, cond, asg)
        progs.append((src, info, asg))
    probe_lines = ["typ\tprobe\ta,b,c,x\t" + src.encode().hex() for src, _, _ in progs]
    probes = vlib.run_impl(probe_lines)
    model = vlib.run_model(lines)
    accepted = [i for i, p in enumerate(probes) if p.startswith("ok ")]
    runs = dict(zip(accepted, run_many([{"id": "%s%d" % (tag, i), "src": progs[i][0], "timeout_ms": 30000} for i in accepted])))
    ok = True
    rejected = 0
    machinery = 0
    fails, tables = [], []
    for i, ln in enumerate(lines):
        src, info, asg = progs[i]
        findings = analyse(ln, probes[i], model[i], runs.get(i), info, asg)
        tys, cond = parsed[i]
        ctx.stat("cond:" + cond[0])
        ctx.case(ln, nontrivial=probes[i].startswith("ok "), sample={"line": ln, "elk": src[:500], "probe": probes[i][:200], "model": model[i]})
        for kind, detail in findings:
            ctx.stat("finding:" + kind)
            if kind == "rejected":
                rejected += 1
            elif kind == "machinery":
                machinery += 1
                if machinery <= 2:
                    ctx.extra.setdefault("machinery_samples", []).append({"line": ln, "detail": detail})
        bad = [f for f in findings if f[0] in ("unsound", "eval")]
        tab = [f for f in findings if f[0] == "table"]
        if bad:
            fails.append((len(src), ln, src, bad[0][1]))
        elif tab:
            tables.append((len(src), ln, src, tab[0][1]))
    # report the property failures (a value outside a static type) first, smallest programs first
    for _, ln, src, detail in sorted(fails)[:4]:
        if ctx.violation("property-fails", {"line": ln, "program": src}, detail):
            ok = False
    if fails and len(fails) > 4:
        ok = ok and False
    for _, ln, src, detail in sorted(tables)[:(2 if fails else 4)]:
        if ctx.violation("model-impl-disagree", {"line": ln, "program": src, "correspondence": label}, detail, no_input=True):
            ok = False
    ctx.stat("lines-with-property-failure", len(fails))
    ctx.stat("lines-with-table-mismatch", len(tables))
    ctx.obligation(f"{label}: checker types = Lean tables and runtime values inside static types on {len(lines)} generated conditions",
                   ok, "correspondence")
    ctx.obligation(f"{label}: harness answered every program ({machinery} machinery problems)", machinery <= max(1, len(lines) // 20),
                   "machinery", json.dumps(ctx.extra.get("machinery_samples", []))[:600])
    ctx.stat("rejected-programs", rejected)


# ----------------------------------------------------------------------------- runtime class of std-library results

CLASS_UNIVERSE = ["Nil", "False", "True", "Int", "Float", "String", "Symbol", "Char", "ArrayList", "ArrayTuple",
                  "HashMap", "HashRecord", "HashSet", "Regex", "ClosedRange", "Pair", "BigFloat"]

# expressions whose value is observed after a std-library call (receiver literals of the built-in classes)
SWEEP = [
    '1 + 2', '7 / 2', '7 % 3', '2 ** 10', '3.to_float', '3.to_string', '3.inspect', '1 <=> 2', '5.hash == 5.hash',
    '1.5 + 1', '1.5.to_int', '1.0 / 4',
    '"abc".length', '"abc".char_count', '"abc".byte_count', '"abc" + "d"', '"ab" * 3', '"abc".uppercase', 
    '"abc".to_symbol', 
    '"abc".is_empty', '"abc".inspect', '"abc" <=> "abd"', '"abc".lowercase', 
    ':foo.to_string', ':foo.inspect', ':foo.name',
    '[1, 2, 3].length', '[1, 2, 3][1]', '[1, 2, 3] + [4]', 
    '[1, 2, 3].contains(2)', '[1, 2, 3].is_empty', 
    '[1, 2] * 2', '%[1, 2, 3].length', '%[1, 2, 3][0]', '%[1, 2] + %[3]', 
    '{ "a" => 1 }["a"]', '{ "a" => 1 }["b"]', '{ "a" => 1 }.length', '{ "a" => 1 }.contains_key("a")', '{ "a" => 1 } + { "b" => 2 }',
    '%{ "a" => 1 }["a"]', '%{ "a" => 1 }["b"]', '%{ "a" => 1 }.length',
    '(1...5).contains(3)', '(1...5).start', '(1...5).end', '(1..<5).contains(5)',
    '^[1, 2].length', '^[1, 2].contains(1)', '^[1, 2] | ^[3]',
    '%/ab+/.matches("abb")', '%/ab/ + %/c/', 'nil.to_string', 'nil.to_int', 'true.inspect',
    '%[1, 2, 3, 4][1...2]',
]
# std results with a known mismatch: reported as known findings (owners: C28 / C24)
SWEEP_KNOWN = ['%/ab/ * 2', '[1, 2, 3, 4][0...1]', '[1, 2, 3].iter.to_list']


def classify(txt):
    t = txt.strip()
    if t == "nil":
        return "Nil"
    if t == "true":
        return "True"
    if t == "false":
        return "False"
    if re.fullmatch(r"-?\d+", t):
        return "Int"
    if re.fullmatch(r"-?\d+\.\d+(e[+-]?\d+)?|-?Inf|NaN", t):
        return "Float"
    if re.fullmatch(r"-?\d+(\.\d+)?bf", t):
        return "BigFloat"
    if re.fullmatch(r"-?\d+(\.\.\.|\.\.<|<\.\.|<\.<)-?\d+", t):
        return "ClosedRange" if "..." in t else "OtherRange"
    for pre, cl in (('%/', "Regex"), ('%[', "ArrayTuple"), ('%{', "HashRecord"), ('^[', "HashSet"), ('"', "String"), (':', "Symbol"),
                    ('`', "Char"), ('[', "ArrayList"), ('{', "HashMap"), ('Std::Pair', "Pair")):
        if t.startswith(pre):
            return cl
    return None


def sweep_program(mod, expr):
    return "\n".join(["module %s" % mod, "  def id(x: any): any then x", "  def run: nil",
                      "    v := (%s)" % expr, '    println("P " + %[id(v)].inspect)', "    v", "    nil", "  end", "end",
                      "%s.run" % mod]) + "\n"


def check_sweep(ctx, exprs, tag="W"):
    progs = [sweep_program("%s%d" % (tag, i), e) for i, e in enumerate(exprs)]
    probes = vlib.run_impl(["typ\tprobe\tv\t" + p.encode().hex() for p in progs])
    acc = [i for i, p in enumerate(probes) if p.startswith("ok ")]
    runs = dict(zip(acc, run_many([{"id": "%s%d" % (tag, i), "src": progs[i], "timeout_ms": 30000} for i in acc])))
    ok = True
    for i, e in enumerate(exprs):
        if i not in runs:
            ctx.stat("sweep:rejected")
            ctx.extra.setdefault("sweep_rejected", []).append(e)
            continue
        m = re.search(r"6:5:v=(\d+|\?)/(\d+|\?)", probes[i])
        a = runs[i]
        if not m or m.group(2) == "?":
            ctx.stat("sweep:no-type")
            continue
        cmask = int(m.group(2))
        if a["outcome"] == "error":
            ctx.stat("sweep:elk-error")      # an Elk-level error (eg. a checked failure) is not a type violation
            continue
        if a["outcome"] != "value":
            if ctx.violation("property-fails", {"expr": e, "program": progs[i]},
                             "the accepted program `v := %s` ends with %s %s" % (e, a["outcome"], (a.get("panic") or "")[:160])):
                ok = False
            continue
        mm = re.search(r"^P %\[(.*)\]\s*$", a["stdout"], re.S | re.M)
        cl = classify(mm.group(1)) if mm else None
        ctx.case(("sweep", e), nontrivial=cl is not None, sample={"expr": e, "static_classes": [c for j, c in enumerate(CLASS_UNIVERSE) if cmask >> j & 1],
                                                                  "runtime": (mm.group(1)[:60] if mm else None)})
        if cl is None or cl not in CLASS_UNIVERSE:
            ctx.stat("sweep:unclassified")
            continue
        ctx.stat("sweep:checked")
        if not (cmask >> CLASS_UNIVERSE.index(cl)) & 1:
            stat = [c for j, c in enumerate(CLASS_UNIVERSE) if cmask >> j & 1]
            if ctx.violation("property-fails", {"expr": e, "program": progs[i]},
                             "`%s` evaluates to %s (class %s) but its static type only intersects %s"
                             % (e, mm.group(1)[:60], cl, "|".join(stat) or "no class of the universe")):
                ok = False
    ctx.obligation(f"std results: the runtime class of {len(exprs)} std-library call results lies in the static type of the call", ok,
                   "correspondence")


def witness_programs():
    """hand-written witness programs: `println("P " + %[id(v)].inspect)` followed by the bare identifier `v`"""
    import os
    d = os.path.join(vlib.ROOT, "corpus", "C02", "programs")
    out = []
    if os.path.isdir(d):
        for f in sorted(os.listdir(d)):
            if f.endswith(".elk"):
                out.append((f, open(os.path.join(d, f)).read()))
    return out


def check_witnesses(ctx):
    ok = True
    for name, src in witness_programs():
        lines = src.split("\n")
        probe_lines = [i + 1 for i, l in enumerate(lines) if i > 0 and lines[i - 1].strip().startswith('println("P ') and re.fullmatch(r"\s*[a-z]\w*", l)]
        names = sorted({lines[i - 1].strip() for i in probe_lines})
        pr = vlib.run_impl(["typ\tprobe\t%s\t%s" % (",".join(names), src.encode().hex())])[0]
        head, occ = parse_probe(pr)
        if not pr.startswith("ok "):
            ctx.stat("witness:rejected")
            continue
        a = vlib.run_programs([{"id": "wit", "src": src, "timeout_ms": 30000}])[0]
        recs = re.findall(r"^P %\[(.*)\]\s*$", a["stdout"], re.M)
        ctx.case(("witness", name), sample={"program": name, "probe": pr[:200], "stdout": a["stdout"][:200]})
        for k, ln in enumerate(probe_lines):
            if k >= len(recs):
                break
            v = {"nil": "N", "false": "F", "true": "T", "1": "1", "2": "2", '"a"': "a"}.get(recs[k].strip())
            mask = None
            for (l, c), (nm, mk) in occ.items():
                if l == ln:
                    mask = mk
            if v is None or mask is None:
                continue
            if not BIT[v] & mask:
                if ctx.violation("property-fails", {"program": src, "witness": name},
                                 "line %d: `%s` holds %s but its static type there admits only %s"
                                 % (ln, lines[ln - 1].strip(), ELK_VAL[v], "|".join(ELK_VAL[u] for u in members(mask)) or "never")):
                    ok = False
        if a["outcome"] in ("panic", "fatal"):
            if ctx.violation("property-fails", {"program": src, "witness": name}, "the accepted program ends with %s %s"
                             % (a["outcome"], (a.get("panic") or "")[:160])):
                ok = False
    ctx.obligation("witness programs: runtime values inside the static types of their probes", ok, "correspondence")

# ----------------------------------------------------------------- scope of a narrowing

NEVER_EXITS = {"return": "return -1", "throw": "throw unchecked \"x\""}


def scope_programs(seed):
    """A nilable local `a` is narrowed by `<exit> if !a` (the other branch never completes) INSIDE a construct whose end the
    run reaches with `a == nil`; after the construct `a` is used as an Int. `a` may be nil there, so the program must be
    rejected; if it is accepted, running it puts nil into a variable of static type Int."""
    out = []
    k = 0
    for neg in ("if !a", "unless a"):
        for form in ("modifier", "block"):
            def guard(stmt):
                if form == "modifier":
                    return ["%s %s" % (stmt, neg)]
                return [neg, "  " + stmt, "end"]
            shapes = []
            for ex, stmt in NEVER_EXITS.items():
                shapes.append(("if-%s" % ex, ["if n < 100"] + ["  " + l for l in guard(stmt)] + ["  println((a + 1).inspect)", "end"]))
                shapes.append(("unless-%s" % ex, ["unless n >= 100"] + ["  " + l for l in guard(stmt)] + ["end"]))
                shapes.append(("if-else-%s" % ex, ["if n < 100"] + ["  " + l for l in guard(stmt)] + ["else", "  println(0)", "end"]))
            shapes.append(("while-break", ["var i = 0", "while i < 3", "  i += 1"] + ["  " + l for l in guard("break")] + ["  println((a + i).inspect)", "end"]))
            shapes.append(("while-continue", ["var i = 0", "while i < 3", "  i += 1"] + ["  " + l for l in guard("continue")] + ["  println((a + i).inspect)", "end"]))
            shapes.append(("loop-break", ["loop"] + ["  " + l for l in guard("break")] + ["  break", "end"]))
            shapes.append(("for-continue", ["for i in [1, 2]"] + ["  " + l for l in guard("continue")] + ["end"]))
            for name, body in shapes:
                k += 1
                mod = "NS%sx%d" % (seed, k)
                src = "\n".join(["module %s" % mod, "  def pick(n: Int): Int?", "    return nil if n > 50", "    n", "  end",
                                 "  def f(n: Int): Int", "    var a: Int? = %s.pick(n)" % mod] + ["    " + l for l in body]
                                + ["    a + 1", "  end", "end", "println(%s.f(170).inspect)" % mod]) + "\n"
                out.append(("%s/%s/%s" % (name, neg, form), src))
    return out


def check_scope(ctx):
    progs = scope_programs(ctx.seed)
    res = vlib.run_programs([{"id": "ns%d" % i, "src": src, "timeout_ms": 8000} for i, (_, src) in enumerate(progs)])
    ok, reported = True, 0
    for (name, src), a in zip(progs, res):
        ctx.case(("scope", name), sample={"shape": name, "outcome": a["outcome"]})
        ctx.stat("scope:" + a["outcome"])
        if a["outcome"] == "rejected":
            continue
        if reported >= 3:
            ok = False
            continue
        reported += 1
        if ctx.violation("property-fails", {"program": src, "shape": name},
                         "a narrowing made under a branch that never completes is still in force after the enclosing %s: `a + 1` is "
                         "accepted with `a: Int?` possibly nil; the run ends with %s %s %r"
                         % (name.split("/")[0], a["outcome"], (a.get("panic") or "")[:120], a.get("stdout", "")[-60:])):
            ok = False
        else:
            reported -= 1
    ctx.obligation("scope of narrowings: %d programs using a nilable local as Int after the construct in which it was narrowed are "
                   "rejected" % len(progs), ok, "search")


def run(ctx):
    ctx.rule = ("conditions of depth <= 3 over 1-3 typed locals (identifier, literal, !, &&, ||, ??, ==, !=, <:, <<:) with parameter "
                "types from 19 unions over {nil,false,true,Int,String,1,2}; per condition: static types of every identifier occurrence "
                "and of every local in both branches (checked AST) vs the Lean tables, and <= 24 value assignments executed; "
                "distinct = distinct (types, condition); non-trivial = accepted by the checker")
    ctx.prove("ElkVerif.Props.C02")
    if ctx.replay:
        rp = json.load(open(ctx.replay))
        if "line" not in rp["input"] and "program" in rp["input"]:
            a = vlib.run_programs([{"id": "r", "src": rp["input"]["program"], "timeout_ms": 8000}])[0]
            print("replayed program:", a["outcome"], (a.get("panic") or "")[:160], repr(a.get("stdout", ""))[-100:])
            if a["outcome"] != "rejected":
                ctx.violation("property-fails", rp["input"], "replayed program is accepted and ends with %s %s"
                              % (a["outcome"], (a.get("panic") or "")[:160]))
            return
        check_lines(ctx, [rp["input"]["line"]], "narrowing", "R")
        return
    corpus = vlib.corpus_lines("C02")
    lines = corpus + [gen_line(ctx.rng) for _ in range(ctx.n(110, 3000))]
    # the result type of every binary logical operator for every declared left operand type (x := a op b, value probed)
    rights = TYPES if not ctx.quick else [t for t in TYPES if t[0] in ("Int", "String?", "Bool", "nil")]
    for op in ("and", "or", "nc"):
        for lt in TYPES:
            for rt in rights:
                c = (op, ('v', 0), ('v', 1))
                if not has_or_on_nil_path(c):
                    lines.append(make_line([lt, rt], c))
    check_lines(ctx, lines, "narrowing")
    check_witnesses(ctx)
    check_scope(ctx)
    check_sweep(ctx, SWEEP + SWEEP_KNOWN)
