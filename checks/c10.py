"""C10 — Runtime sizing parameters do not change program results."""
import importlib
import json
import os
import vlib
from checks import mini_gen, mini_common

META = {
    "property_id": "C10",
    "technique": "Lean 4 proof that value-stack growth is invisible to the address-free abstraction (grow_invisible) + differential sweep of generated programs across ELK_* sizing configurations against the MiniElk reference",
    "level_text": "Partial. Mechanism: the rebasing done by growValueStack (frame pointers, per-frame upvalue slices, the "
                  "open-upvalue list) is modelled on an addressed stack and proved invisible for all states "
                  "(Props/C10.lean), and driven against the real vm.Thread. Programs x configurations: every generated "
                  "program (closures live across deep recursion, generators of stack growth in the middle of call chains) "
                  "must give the default configuration's and the reference evaluator's output under each sizing "
                  "configuration; this part is a sweep, not a theorem.",
    "level_note": "Trusted: Lean kernel; MiniElk decoder/printer/generator; one worker process per configuration (ELK_* "
                  "are read in package init). Stack-limit panics are exempt as the property states. Known finding: initial "
                  "value stacks below ~10 slots are overrun because pushes are unchecked between calls.",
    "design_ref": "DESIGN.md §7 C10",
}

# Initial value stacks are >= 200 slots here: pushes are unchecked between calls (known finding
# C10-tiny-initial-stack / C01-unchecked-push), so a frame that needs more than 30% of the current stack
# overruns it; generated frames stay far below 60 slots. Growth still happens several times per
# program (recursion depth 60 needs ~500 slots).
CONFIGS_QUICK = [
    {"ELK_INIT_VALUE_STACK_SIZE": "4800"},
    {"ELK_INIT_VALUE_STACK_SIZE": "7200", "ELK_SYMBOL_TABLE_INITIAL_SIZE": "0"},
    {"ELK_INIT_VALUE_STACK_SIZE": "12000", "ELK_CALL_STACK_SIZE": "400000"},
    {"ELK_DEFAULT_THREAD_POOL_SIZE": "1", "ELK_DEFAULT_THREAD_POOL_QUEUE_SIZE": "2", "ELK_SYMBOL_TABLE_INITIAL_SIZE": "1"},
]
CONFIGS_MORE = [
    {"ELK_INIT_VALUE_STACK_SIZE": "6000"},
    {"ELK_INIT_VALUE_STACK_SIZE": "9600"},
    {"ELK_INIT_VALUE_STACK_SIZE": "1000000"},
    {"ELK_MAX_VALUE_STACK_SIZE": "10000000", "ELK_INIT_VALUE_STACK_SIZE": "4800"},
    {"ELK_SYMBOL_TABLE_INITIAL_SIZE": "100000"},
    {"ELK_DEFAULT_THREAD_POOL_SIZE": "8", "ELK_DEFAULT_THREAD_POOL_QUEUE_SIZE": "1"},
    {"ELK_CALL_STACK_SIZE": "40000"},
]
# known finding replayed on every run: (program, configuration)
FINDING_REPLAYS = [
    ("(prog KfC10 (defs (def fdeep ((n int)) int (if (bin le (var n) (int 0)) ((ret (int 0))) ()) (expr (bin add (int 1) "
     "(calld fdeep (bin sub (var n) (int 1))))))) (main (decl x _ (int 1)) (print (bin add (calld fdeep (int 30)) (var x)))))",
     {"ELK_INIT_VALUE_STACK_SIZE": "96"}),
]
KNOBS = dict(closures=True, closure_bias=0.3, defs=3, max_depth=2, block_len=(2, 5), deep_rec=60)
# bodies that are also run as generators / async functions (C15's transformation): their saved stack
# segments are copied back into a stack that has been reallocated in the meantime
KNOBS_W = dict(closures=True, closure_bias=0.1, defs=2, max_depth=2, block_len=(1, 4), deep_rec=60, wrap_target=True)
EXEMPT = ("call stack overflow", "maximum value stack size exceeded", "stack overflow")


def canon(ans):
    return (mini_common.real_outcome(ans), ans["stdout"])

PROBE_SIZES = ["2048", "3568", "4800", "5280", "6000", "7120", "9000", "12000", "16000", "20000", "24048", "30000", "48000"]


def probe_programs(seed):
    """a generator resumed at every level of a 400-deep recursion, with frames of several shapes: the value stack grows
    several times while suspended frames are copied back at every possible distance from the growth threshold.
    Expected output is known in closed form (sum of 0..399)."""
    out = []
    for k in (0, 2, 5, 9):
        u = f"{seed}k{k}"
        pads = "".join(f"  p{j} := n + {j}\n" for j in range(k))
        use = "".join(f" + p{j} - n - {j}" for j in range(k))
        src = (f"def *nat{u}(): Int\n  i := 0\n  while i < 100000\n    yield i\n    i += 1\n  end\n  0\nend\n"
               f"def dive{u}(n: Int, g: Generator[Int, never]): Int\n  return 0 if n == 0\n{pads}"
               f"  t := [n + 7, n + 8, n + 9]\n  x := try g.next\n  x + t.length - 3{use} + dive{u}(n - 1, g)\nend\n"
               f"println(dive{u}(400, nat{u}()).inspect)\n")
        out.append((src, "79800\n"))
    return out


def run_probes(ctx):
    progs = probe_programs(ctx.seed)
    ok, reported = True, 0
    for size in [None] + PROBE_SIZES:
        cfg = {} if size is None else {"ELK_INIT_VALUE_STACK_SIZE": size}
        res = vlib.run_programs([{"id": f"pb{i}", "src": src, "timeout_ms": 8000} for i, (src, _) in enumerate(progs)], extra_env=cfg)
        for (src, want), a in zip(progs, res):
            ctx.case(("probe", src, size), sample={"config": cfg, "outcome": a["outcome"], "stdout": a["stdout"][:40]})
            ctx.stat("probe:" + a["outcome"])
            if a["outcome"] == "value" and a["stdout"] == want:
                continue
            if reported >= 2:
                ok = False
                continue
            reported += 1
            if ctx.violation("config-dependent", {"program": src, "config": cfg},
                             f"generator resumed at every depth of a 400-deep recursion: under {cfg or 'the default sizes'} the run "
                             f"gives {a['outcome']} {a['stdout'][:60]!r} {(a.get('panic') or '')[:100]}, expected {want!r}"):
                ok = False
            else:
                reported -= 1
    ctx.obligation(f"suspended frames restored at every distance from the growth threshold: {len(progs)} programs x "
                   f"{len(PROBE_SIZES) + 1} initial value-stack sizes print the closed-form result", ok, "search")


def run(ctx):
    ctx.rule = ("closure programs with recursion up to depth 60 (type-directed MiniElk), each run under the default and "
                "under every listed ELK_* sizing configuration; distinct = distinct (program, configuration); "
                "non-trivial = the program recurses deeply or creates a closure")
    for prop in ("C10",):
        if os.path.exists(os.path.join(vlib.LEAN, "ElkVerif", "Props", prop + ".lean")):
            ctx.prove("ElkVerif.Props." + prop)
        else:
            vlib.lake_build(["elkmodel"])
    try:
        mach = importlib.import_module("checks.upv_machine")
    except ModuleNotFoundError:
        mach = None
    if mach and not ctx.replay:
        mach.run_machine(ctx)     # real growValueStack driven through verif wrappers vs the Lean machine
    if not ctx.replay:
        run_probes(ctx)
    configs = CONFIGS_QUICK + ([] if ctx.quick else CONFIGS_MORE)
    if ctx.replay:
        inp = json.load(open(ctx.replay))["input"]
        if "sexpr" not in inp and "program" in inp:
            a = vlib.run_programs([{"id": "r", "src": inp["program"], "timeout_ms": 8000}], extra_env=inp.get("config") or {})[0]
            print("replayed probe:", a["outcome"], repr(a["stdout"][:60]), (a.get("panic") or "")[:100])
            if not (a["outcome"] == "value" and a["stdout"] == "79800\n"):
                ctx.violation("config-dependent", inp, f"replayed probe gives {a['outcome']} {a['stdout'][:60]!r}, expected '79800'")
            return
        progs = [inp["sexpr"]]
        if inp.get("config"):
            configs = [inp["config"]]
    else:
        progs = mini_common.corpus_programs("C10")
        for i in range(ctx.n(120, 1500)):
            g = mini_gen.Gen(ctx.rng, mini_gen.Knobs(**KNOBS), modname=f"Z{ctx.seed}x{i}")
            progs.append(g.program())
            for f in g.features:
                ctx.stat("feature:" + f)
    wprogs = []
    if not ctx.replay:
        for i in range(ctx.n(40, 600)):
            g = mini_gen.Gen(ctx.rng, mini_gen.Knobs(**KNOBS_W), modname=f"W{ctx.seed}x{i}")
            wprogs.append(g.program())
    # default configuration against the reference first
    recs = mini_common.compare_programs(ctx, progs + wprogs, "default configuration vs reference")
    if not ctx.replay:
        replay_findings(ctx)
    base = {r["sexpr"]: (r["real"], r["real_out"]) for r in recs}
    srcs = {r["sexpr"]: r["src"] for r in recs}
    # generator / async variants of the wrapped bodies: extra (pseudo-)programs keyed by their source
    from checks import c15
    import re as _re
    variants = []
    for r in recs[len(progs):]:
        if r["model"].startswith("stuck") or r["model"] == "timeout":
            continue
        v = c15.variants(r["src"])
        if v is None:
            continue
        m = _re.match(r"module (\w+)", r["src"])
        for suffix, text in (("G", v[0]), ("A", v[1])):
            variants.append(_re.sub(r"\b%s\b" % m.group(1), m.group(1) + suffix, text) if m else text)
    vres = vlib.run_programs([{"id": f"v{i}", "src": t, "timeout_ms": 8000} for i, t in enumerate(variants)])
    for t, a in zip(variants, vres):
        key = "VARIANT:" + t
        progs.append(key)
        srcs[key] = t
        base[key] = canon(a)
    for cfg in configs:
        reqs = [{"id": f"c{i}", "src": srcs[p], "timeout_ms": 8000} for i, p in enumerate(progs)]
        res = vlib.run_programs(reqs, extra_env=cfg)
        ok = True
        reported = 0
        for p, a in zip(progs, res):
            got = canon(a)
            ctx.case((srcs[p], sorted(cfg.items())), nontrivial=("fdeep(" in srcs[p] or "->" in srcs[p]),
                     sample={"config": cfg, "program": srcs[p][:300], "outcome": got[0]})
            ctx.stat("cfg-outcome:" + got[0].split(" ")[0])
            if got == base[p] or any(e in got[0] for e in EXEMPT):
                continue
            if reported >= 2:
                ok = False
                continue
            reported += 1
            # shrink under this configuration: still differs from the default run
            def fails_batch(cands, cfg=cfg):
                ms = mini_common.model_eval(cands)
                d = vlib.run_programs([{"id": f"d{i}", "src": m[0], "timeout_ms": 3000} for i, m in enumerate(ms)])
                c = vlib.run_programs([{"id": f"e{i}", "src": m[0], "timeout_ms": 3000} for i, m in enumerate(ms)], extra_env=cfg)
                return [canon(x) != canon(y) and not any(e in canon(y)[0] for e in EXEMPT) for x, y in zip(d, c)]
            if p.startswith("VARIANT:"):
                new = ctx.violation("config-changes-result", {"program": srcs[p], "config": cfg},
                                    f"default: {base[p]}; under {cfg}: {got}")
                if new:
                    ok = False
                else:
                    reported -= 1
                continue
            small = mini_common.shrink_program(p, uniq_wrap(fails_batch))
            m = mini_common.model_eval([small])[0]
            d = vlib.run_programs([{"id": "d", "src": m[0]}])[0]
            c = vlib.run_programs([{"id": "c", "src": m[0]}], extra_env=cfg)[0]
            new = ctx.violation("config-changes-result", {"program": m[0], "sexpr": small, "config": cfg},
                                f"default: {canon(d)}; under {cfg}: {canon(c)}")
            if new:
                ok = False
            else:
                reported -= 1
        pass
        ctx.obligation(f"configuration {cfg}: same results as the default configuration on {len(progs)} programs", ok, "correspondence")


def replay_findings(ctx):
    for sx, cfg in FINDING_REPLAYS:
        m = mini_common.model_eval([sx])[0]
        d = vlib.run_programs([{"id": "d", "src": m[0]}])[0]
        c = vlib.run_programs([{"id": "c", "src": m[0]}], extra_env=cfg)[0]
        if canon(d) != canon(c) and not any(e in canon(c)[0] for e in EXEMPT):
            ctx.violation("config-changes-result", {"program": m[0], "sexpr": sx, "config": cfg},
                          f"default: {canon(d)}; under {cfg}: {canon(c)}")


def uniq_wrap(fb):
    import re
    n = [0]

    def g(cands):
        n[0] += 1
        cands = [re.sub(r"^\(prog (\w+?)(?:x\d+y\d+)? ", lambda m: f"(prog {m.group(1)}x{n[0]}y{j} ", c) for j, c in enumerate(cands)]
        return fb(cands)
    return g
