"""C11 — Type checking gives the same verdict under any parallel schedule."""
import concurrent.futures
import json
import os
import re
import subprocess

import vlib

META = {
    "property_id": "C11",
    "technique": "Lean 4 model of the semaphore loop of concurrent.Foreach (every element once, at most `limit` in flight, always "
                 "returns) and a CONDITIONAL confluence theorem for the shared checker state + sampled schedules on the real "
                 "checker through schedule hook H1 (seeded start order and yields), concurrency limits {1,2,100}, and the Go race "
                 "detector in the thorough tier",
    "level_text": "Partial, and the weakest kind of claim in this framework: a conditional theorem plus sampled schedules. Proved for all "
                  "collections, limits >= 1 and interleavings of the model of concurrent/foreach.go: every element is run exactly once "
                  "(foreach_all_run), never more than `limit` at a time (foreach_limit), the loop always makes progress and returns "
                  "after exactly 2n steps (foreach_progress, foreach_terminates); and IF the method-body checks only communicate by "
                  "atomic merges that commute (hypothesis Independent) THEN all schedules and limits give the same shared state, equal "
                  "to the sequential one (sched_confluent, parallel_eq_sequential; order_sensitive_witness shows the hypothesis is "
                  "needed). Independent is a statement about the real checker (method cache, symbol table, global environment, "
                  "SyncDiagnosticList) and is NOT proved: it is only tested by checking generated multi-method programs (with and "
                  "without diagnostics, with macros and method-using constants) under MethodCheckConcurrencyLimit in {1,2,100} x "
                  "seeded schedules and comparing the sorted diagnostic multiset and the program's output, and by running the same "
                  "under `go build -race` (thorough tier), a race report being a violation.",
    "level_note": "Trusted: Lean kernel; model of Foreach (channel send/receive as atomic acquire/release of a permit); hook H1 "
                  "(concurrent/verif_on.go); Go's race detector; python generator. The sampled schedules are a tiny part of all "
                  "interleavings; data races that the detector does not observe in the sampled runs are not excluded. Known findings: the race "
                  "detector reports unsynchronised accesses to types.Method.Flags and types.Method.Body between method-body goroutines.",
    "design_ref": "DESIGN.md §7 C11, §4.4 H1",
}


# ---------------------------------------------------------------- Foreach lines

def gen_fe(rng):
    n = rng.choice([0, 1, 2, 3, 5, 8, 13, 40, 100])
    limit = rng.choice([1, 1, 2, 2, 3, 7, 100])
    return f"fore\trun\t{n}\t{limit}\t{rng.randint(1, 10**6)}"


def fe_oracle(line, ans):
    n = line.split("\t")[2]
    if ans == f"ok {n} once bounded":
        return None
    return f"Foreach over {n} elements: {ans} (every element must run exactly once, at most `limit` at a time, and Foreach must return after all finished)"


# ---------------------------------------------------------------- programs

OK_BODIES = [
    lambda g, i: f"a + {g.rng.randint(1, 9)}",
    lambda g, i: f"{g.callee(i)}(a) + 1" if i > 0 else "a * 2",
    lambda g, i: f"f := |x: Int|: Int -> x + a\n    f({g.rng.randint(1, 5)})",
    lambda g, i: f"if a > {g.rng.randint(0, 5)}\n      {g.callee(i)}(a - 1)\n    else\n      a\n    end" if i > 0 else "a",
    lambda g, i: f"l := [1, 2, a]\n    l.length + {g.rng.randint(1, 5)}",
    lambda g, i: f"s := :sym{g.uid}m{i}\n    println(s.inspect)\n    a",
    lambda g, i: f"var t: Int? = nil\n    t = a\n    t ?? 0",
    lambda g, i: f"x := a\n    while x > 100\n      x = x - 1\n    end\n    x",
    lambda g, i: f"do\n      {g.callee(i)}(a) // 1\n    catch ZeroDivisionError()\n      0\n    end" if i > 0 else "a - 1",
    lambda g, i: f"h := %{{ a => 1 }}\n    h.length + a",
]
BAD_BODIES = [
    lambda g, i: '"s"',
    lambda g, i: f"nope{i} + 1",
    lambda g, i: f"{g.callee(i)}(a, 1)" if i > 0 else "a.nope",
    lambda g, i: f"a.nope{i}",
    lambda g, i: "var x: String = a\n    a",
    lambda g, i: "return \"x\"",
    lambda g, i: f"f := |x: Int|: Int -> \"s\"\n    f(1)",
    lambda g, i: "a + nil",
    lambda g, i: f"println(1, b: 2)\n    a",
]


class ProgGen:
    def __init__(self, rng, uid):
        self.rng = rng
        self.uid = uid

    def callee(self, i):
        return f"m{self.rng.randrange(i)}"

    def program(self):
        rng = self.rng
        n = rng.choice([2, 3, 4, 6, 8, 12])
        nbad = 0 if rng.random() < 0.55 else rng.randint(1, max(1, n // 2))
        bad = set(rng.sample(range(n), min(nbad, n)))
        methods = []
        for i in range(n):
            body = rng.choice(BAD_BODIES if i in bad else OK_BODIES)(self, i)
            methods.append(f"  def m{i}(a: Int): Int\n    {body}\n  end")
        extras = []
        if rng.random() < 0.4:
            j = rng.randrange(n)
            extras.append(f"  const K0: Int = P{self.uid}.m{j}(2)")
        if rng.random() < 0.35:
            extras.append(f"  class C{self.uid}\n    attr v: Int\n    init(@v); end\n    def twice: Int\n      @v * 2\n    end\n"
                          f"    def plus(o: Int): Int\n      @v + o\n    end\n  end")
        macros = ""
        if rng.random() < 0.25:
            k = rng.randint(1, 3)
            macros = "using Std::Elk::AST::*\n" + "\n".join(
                f"macro mc{self.uid}x{j}(e: ExpressionNode)\n  quote\n    !{{e}} + {j + 1}\n  end\nend" for j in range(k)) + "\n"
            extras.append(f"  def usemacro(a: Int): Int\n    {' + '.join(f'mc{self.uid}x{j}!(1)' for j in range(k))}\n  end")
        rng.shuffle(methods)
        mod = f"P{self.uid}"
        src = macros + f"module {mod}\n" + "\n".join(extras + methods) + "\nend\n"
        calls = [f"println({mod}.m{i}({rng.randint(0, 6)}))" for i in range(n)]
        if any("usemacro" in e for e in extras):
            calls.append(f"println({mod}.usemacro(1))")
        if any("class C" in e for e in extras):
            calls.append(f"println({mod}::C{self.uid}(3).twice + {mod}::C{self.uid}(3).plus(4))")
        if any("K0" in e for e in extras):
            calls.append(f"println({mod}::K0)")
        return {"uid": self.uid, "src": src + "\n".join(calls) + "\n", "n": n, "bad": len(bad)}


def wide_program(rng, uid):
    """many small methods finishing at nearly the same moment (contention on every structure the body checkers share):
    constants initialised by method calls, methods reading the constant they initialise (circular: one diagnostic each),
    ill-typed bodies, plain methods"""
    k = rng.choice([60, 150, 300])
    mod = f"W{uid}"
    consts, methods = [], []
    ncyc = 0
    for i in range(k):
        r = rng.random()
        c = f"WC{uid}x{i}"
        if r < 0.45:
            consts.append(f"const {c}: Int = {mod}.f{i}")
            methods.append(f"  def f{i}: Int; {c}; end")
            ncyc += 1
        elif r < 0.65:
            consts.append(f"const {c}: Int = {mod}.f{i}")
            methods.append(f"  def f{i}: Int; {i}; end")
        elif r < 0.75:
            methods.append(f"  def f{i}: Int; \"s{i}\"; end")
        else:
            methods.append(f"  def f{i}: Int; {i} + 1; end")
    src = "\n".join(consts) + f"\nmodule {mod}\n" + "\n".join(methods) + f"\nend\nprintln({mod}.f0)\n"
    return {"uid": uid, "src": src, "n": k, "bad": ncyc, "wide": True}


CONFIGS_QUICK = [(1, 0), (1, 11), (2, 21), (2, 22), (100, 0), (100, 31), (100, 32)]


def configs(ctx, rng):
    if ctx.quick:
        return CONFIGS_QUICK
    cs = [(1, 0), (100, 0)]
    for limit in (1, 2, 100):
        cs += [(limit, rng.randint(1, 10**6)) for _ in range(6)]
    return cs


def run_sched(reqs, workers=4, binary=None, timeout=1800):
    if not reqs:
        return [], ""
    chunks = [reqs[i::workers] for i in range(workers)]
    errs = []

    def one(i):
        out = []
        rest = chunks[i]
        env = vlib.go_env()
        env.setdefault("GOMEMLIMIT", "6GiB")
        guard = 0
        while rest:
            data = "".join(json.dumps(r) + "\n" for r in rest)
            try:
                p = subprocess.run([binary or vlib.ELKH, "sched"], input=data, stdout=subprocess.PIPE, stderr=subprocess.PIPE,
                                   text=True, env=env, timeout=timeout)
                lines, err = [l for l in p.stdout.splitlines() if l.strip()], p.stderr
            except subprocess.TimeoutExpired:
                lines, err = [], "timeout"
            errs.append(err)
            got = [json.loads(l) for l in lines]
            out += got
            if len(got) >= len(rest):
                break
            if got and got[-1].get("outcome") == "timeout":
                rest = rest[len(got):]
                continue
            out.append({"id": rest[len(got)]["id"], "diags": [], "rejected": False, "outcome": "fatal", "stdout": "",
                        "panic": vlib.classify_fatal(err)})
            rest = rest[len(got) + 1:]
            guard += 1
            if guard > 100:
                raise RuntimeError("sched worker keeps dying")
        return out
    with concurrent.futures.ThreadPoolExecutor(workers) as ex:
        res = list(ex.map(one, range(workers)))
    out = [None] * len(reqs)
    for i in range(workers):
        for j, r in enumerate(res[i]):
            out[i + j * workers] = r
    return out, "\n".join(errs)


def obs(a):
    return (a.get("outcome"), tuple(a.get("diags", [])), a.get("stdout", ""), a.get("panic", "")[:80])


def evaluate(progs, cfgs, binary=None, workers=4):
    reqs = []
    for pi, p in enumerate(progs):
        for ci, (limit, seed) in enumerate(cfgs):
            reqs.append({"id": f"p{p['uid']}c{ci}", "src": p["src"], "limit": limit, "seed": seed, "timeout_ms": 20000})
    ans, stderr = run_sched(reqs, binary=binary, workers=workers)
    # timeouts on a loaded machine: retry alone with a generous limit before believing them
    for k, a in enumerate(ans):
        if a.get("outcome") == "timeout":
            ans[k] = run_sched([dict(reqs[k], timeout_ms=120000)], workers=1, binary=binary)[0][0]
    recs = []
    for pi, p in enumerate(progs):
        rows = ans[pi * len(cfgs):(pi + 1) * len(cfgs)]
        base = obs(rows[0])
        fails = []
        for (limit, seed), a in zip(cfgs, rows):
            o = obs(a)
            if o[0] in ("panic", "fatal", "timeout"):
                fails.append(("host-crash", f"limit={limit} seed={seed}: {o[0]} {a.get('panic', '')}", (limit, seed)))
            elif o != base:
                what = "diagnostics" if o[1] != base[1] else "verdict/output"
                d1 = [x for x in base[1] if x not in o[1]][:2]
                d2 = [x for x in o[1] if x not in base[1]][:2]
                fails.append(("schedule-dependent", f"{what} differ between limit={cfgs[0][0]} seed={cfgs[0][1]} and limit={limit} seed={seed}: "
                              f"{base[0]!r}/{base[2][:60]!r} only-first={d1} vs {o[0]!r}/{o[2][:60]!r} only-second={d2}", (limit, seed)))
        recs.append({"prog": p, "base": base, "fails": fails})
    return recs, stderr


def build_race_harness():
    """`go build -race` of the harness with checkptr switched off: -race implies -d=checkptr, and the VM's unsafe stack
    arithmetic (vm.Thread.spGet) makes every program run die with `fatal error: checkptr: pointer arithmetic result
    points to invalid allocation`. Same command as vlib.build_harness(race=True) plus the gcflags (see docs/C11.md, requests)."""
    import shutil
    os.makedirs(vlib.BIN, exist_ok=True)
    out = vlib.ELKH + "-race"
    with vlib.Lock("go"):
        sums = os.path.join(vlib.HARNESS, "go.sum")
        if not os.path.exists(sums):
            shutil.copy(os.path.join(vlib.REPO, "go.sum"), sums)
        cmd = ["go", "build", "-tags", "verif", "-race", "-gcflags=all=-d=checkptr=0"]
        if vlib.REPO != "/repo":
            alt = os.path.join(vlib.BUILD, "go.alt.mod")
            mod = open(os.path.join(vlib.HARNESS, "go.mod")).read().replace("=> /repo", "=> " + vlib.REPO)
            vlib.write_if_changed(alt, mod)
            shutil.copy(sums, os.path.join(vlib.BUILD, "go.alt.sum"))
            cmd += ["-modfile=" + alt]
        cmd += ["-o", out, "./cmd/elkh"]
        rc, log = vlib.sh(cmd, cwd=vlib.HARNESS, env=vlib.go_env(), timeout=3000)
    return rc == 0, log


RACE_RE = re.compile(r"WARNING: DATA RACE\n(.*?)\n==================", re.S)
FRAME_RE = re.compile(r"^\s+github\.com/elk-language/elk/(\S+?)\(\)\s*$", re.M)


def race_reports(stderr):
    """canonical key of a race report: the two racing accesses (top elk frame of each stack, with the caller for
    context), order-independent"""
    out = []
    for m in RACE_RE.finditer(stderr):
        body = m.group(1)
        parts = re.split(r"\n(?=Previous (?:read|write) at )", body, maxsplit=1)
        tops = []
        for part in parts[:2]:
            part = part.split("\nGoroutine ")[0]
            fr = [f.split("/")[-1] for f in FRAME_RE.findall(part)]
            fr = [re.sub(r"\[.*", "", f) for f in fr]
            tops.append(" <- ".join(fr[:2]) if fr else "?")
        out.append(" | ".join(sorted(tops)))
    return out


def run_wide(ctx, wide):
    # limit 1 first (the reference), then many parallel runs: real contention, not only the seeded permutation
    cfgs = [(1, 0)] + [(lim, s) for s in range(ctx.n(3, 8)) for lim in (2, 3, 8, 100, 1000)]
    recs, _ = evaluate(wide, cfgs)
    ok, reported = True, 0
    for rec in recs:
        p = rec["prog"]
        ctx.case(p["src"], nontrivial=True, sample={"program": p["src"][:300], "verdict": rec["base"][0], "diagnostics": len(rec["base"][1])})
        ctx.stat(f"wide-methods:{p['n']}")
        ctx.stat("runs", len(cfgs))
        if rec["fails"]:
            kind, detail, cfg = rec["fails"][0]
            if reported < 2:
                reported += 1
                if ctx.violation(kind, {"program": p["src"], "configs": [list(cfgs[0]), list(cfg)] + [list(c) for c in cfgs[1:6]]},
                                 detail + f" ({len(rec['fails'])} of {len(cfgs)} runs differ)"):
                    ok = False
                else:
                    reported -= 1
            else:
                ok = False
    ctx.obligation(f"wide modules (60-300 methods, constants initialised by method calls, circular ones): same diagnostics under "
                   f"{len(cfgs)} (limit, seed) runs on {len(wide)} programs", ok, "correspondence")


def race_sample(ctx, progs, cfgs):
    okb, log = build_race_harness()
    if not okb:
        ctx.obligation("go build -race of the harness", False, "build", log[-600:])
        return
    recs, stderr = evaluate(progs, cfgs, binary=vlib.ELKH + "-race", workers=3)
    reps = race_reports(stderr)
    ctx.stat("race-runs", len(progs) * len(cfgs))
    unknown = 0
    for r in sorted(set(reps))[:8]:
        if ctx.violation("data-race", {"race": r}, f"the Go race detector reported a data race while checking generated programs: {r}"):
            unknown += 1
    ctx.obligation(f"no data race (other than the listed known findings) reported by `go build -race` over {len(progs) * len(cfgs)} checker runs",
                   unknown == 0, "race-detector", "; ".join(sorted(set(reps))[:3]))


def run(ctx):
    ctx.rule = ("(1) concurrent.Foreach over 0..N-1 for N up to 100 and limits 1..100 under seeded schedules; (2) modules with 2-12 "
                "methods calling each other (closures, collections, catch, symbols, optional class with ivars, method-using constant, "
                "1-3 macros), 45% with 1..n/2 ill-typed bodies, each checked and run under limits {1,2,100} x seeded schedules; "
                "distinct = distinct program; non-trivial = at least 3 methods")
    ctx.prove("ElkVerif.Props.C11")
    if ctx.replay:
        inp = json.load(open(ctx.replay))["input"]
        if "line" in inp:
            vlib.correspond(ctx, [inp["line"]], oracle=fe_oracle, label="Foreach")
            return
        progs = [{"uid": "R", "src": inp["program"], "n": 0, "bad": 0}]
        cfgs = [tuple(c) for c in inp.get("configs", CONFIGS_QUICK)] * 3
    else:
        lines = vlib.corpus_lines("C11") + [gen_fe(ctx.rng) for _ in range(ctx.n(300, 6000))]
        vlib.correspond(ctx, lines, oracle=fe_oracle, label="Foreach")
        progs = [ProgGen(ctx.rng, f"{ctx.seed}x{i}").program() for i in range(ctx.n(30, 300))]
        cfgs = configs(ctx, ctx.rng)
        wide = [wide_program(ctx.rng, f"{ctx.seed}w{i}") for i in range(ctx.n(4, 30))]
        run_wide(ctx, wide)
    ok = True
    reported = 0
    B = 40
    for off in range(0, len(progs), B):
        recs, _ = evaluate(progs[off:off + B], cfgs)
        for rec in recs:
            p = rec["prog"]
            ctx.case(p["src"], nontrivial=p["n"] >= 3, sample={"program": p["src"][:500], "verdict": rec["base"][0], "diagnostics": len(rec["base"][1])})
            ctx.stat("verdict:" + str(rec["base"][0]).split(" ")[0])
            ctx.stat(f"methods:{p['n']}")
            ctx.stat("runs", len(cfgs))
            if rec["fails"]:
                kind, detail, cfg = rec["fails"][0]
                if reported < 4:
                    reported += 1
                    if ctx.violation(kind, {"program": p["src"], "configs": [list(cfgs[0]), list(cfg)]}, detail):
                        ok = False
                    else:
                        reported -= 1
                else:
                    ok = False
    ctx.obligation(f"same diagnostics multiset and output under {len(cfgs)} (limit, schedule seed) configurations on {len(progs)} programs",
                   ok, "correspondence")
    if not ctx.replay:
        if ctx.quick:
            race_sample(ctx, progs[:12] + wide[:1], [(100, 0), (2, 42)])
        else:
            race_sample(ctx, progs[:150] + wide[:4], [(100, 0), (100, 41), (2, 42), (100, 43)])
