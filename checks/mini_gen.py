"""Type-directed generator of MiniElk programs (s-expressions for the `mini` driver domain).

All randomness comes from the rng passed in. Programs are well-typed and terminating by
construction: loops carry a bounded counter that is advanced at the top of the body; methods call
only methods of lower rank (printed in shuffled order), closures are only called, never recursive.
"""

INT, BOOL, STR, OINT = "int", "bool", "str", "(opt int)"
OBOOL = "(opt bool)"


def fn_ty(ps, r):
    return "(fn (" + " ".join(ps) + ") " + r + ")"


class Knobs:
    def __init__(self, **kw):
        self.closures = True
        self.exceptions = True
        self.loops = True
        self.defs = 3
        self.max_depth = 2
        self.block_len = (1, 4)
        self.labels = True
        self.finally_abrupt = False   # break/continue/return/throw inside `finally`
        self.catch_abrupt = True      # throw/return/break inside catch bodies
        self.zero_div = True
        self.closure_bias = 0.0       # extra probability of closure declarations / calls per statement
        self.wrap_target = False      # add a method `w` (C15: wrapped as plain / generator / async by the check)
        self.assign_expr = True       # assignments used as expressions
        self.early_return = True      # `return` statements before the end of a body
        self.nilable = True           # Int? locals / parameters and `??`
        self.print_types = None       # restrict the types of printed expressions (default: all)
        self.deep_rec = 0             # >0: add a recursive method `fdeep` and call it with depths up to this
        self.d14_shapes = False       # abrupt exits from catch bodies of a `do` that has a `finally`
        self.__dict__.update(kw)


class Scope:
    """lexical scope: name -> (type, mutable)"""

    def __init__(self, parent=None, boundary=False):
        self.vars = {}
        self.parent = parent
        self.boundary = boundary  # function / closure boundary (break/continue/return stop here)

    def lookup_all(self):
        out = {}
        s = self
        while s is not None:
            for k, v in s.vars.items():
                out.setdefault(k, v)
            s = s.parent
        return out


class Gen:
    def __init__(self, rng, knobs=None, modname="P0"):
        self.r = rng
        self.k = knobs or Knobs()
        self.mod = modname
        self.counter = 0
        self.defs = []          # (name, [(p, ty)], ret, rank)
        self.features = set()
        # static cost accounting keeps the call tree polynomial: cost[f] ~ number of calls one call of f makes
        self.cost = {}
        self.lam_max = 1
        self.last_lam_cost = 1

    CALL_BUDGET = 150
    TOTAL_BUDGET = 1500

    def charge(self, ctx, name):
        """may a call of `name` be generated here? charges its cost to the enclosing body"""
        c = self.cost.get(name, self.lam_max)
        mult = ctx.get("mult", 1)
        acc = ctx.setdefault("acc", [0])
        if mult * c > self.CALL_BUDGET or acc[0] + mult * c > self.TOTAL_BUDGET:
            return False
        acc[0] += mult * c
        return True

    # -- helpers
    def fresh(self, p="v"):
        self.counter += 1
        return f"{p}{self.counter}"

    def pick(self, xs):
        return xs[self.r.randrange(len(xs))]

    def vars_of(self, sc, ty, mutable=None):
        return [n for n, (t, m) in sc.lookup_all().items() if t == ty and (mutable is None or m == mutable)]

    # -- expressions
    def expr(self, sc, ty, d, ctx):
        r = self.r
        if ty == INT:
            return self.int_expr(sc, d, ctx)
        if ty == BOOL:
            return self.bool_expr(sc, d, ctx)
        if ty == STR:
            vs = self.vars_of(sc, STR)
            c = r.random()
            if vs and c < 0.4:
                return f"(var {self.pick(vs)})"
            if d > 0 and c < 0.6:
                return f"(bin concat {self.expr(sc, STR, d - 1, ctx)} {self.expr(sc, STR, d - 1, ctx)})"
            return '(str "%s")' % self.pick(["a", "b", "xy", "", "boom", "k1"])
        if ty == OINT:
            vs = self.vars_of(sc, OINT)
            c = r.random()
            if vs and c < 0.4:
                return f"(var {self.pick(vs)})"
            if c < 0.6:
                return "(nil)"
            return self.int_expr(sc, d, ctx)
        if ty == OBOOL:
            vs = self.vars_of(sc, OBOOL)
            c = r.random()
            if vs and c < 0.4:
                return f"(var {self.pick(vs)})"
            if c < 0.6:
                return "(nil)"
            return f"(bool {self.pick(['true', 'false', 'false'])})"
        if ty.startswith("(fn"):
            vs = self.vars_of(sc, ty)
            if vs and r.random() < 0.5:
                return f"(var {self.pick(vs)})"
            return self.lam(sc, ty, d, ctx)
        raise ValueError(ty)

    def int_expr(self, sc, d, ctx):
        r = self.r
        c = r.random()
        vs = self.vars_of(sc, INT)
        if d <= 0 or c < 0.25:
            if vs and r.random() < 0.65:
                return f"(var {self.pick(vs)})"
            return f"(int {self.pick([0, 1, 2, 3, 5, 7, 10, -1, -4])})"
        if c < 0.6:
            op = self.pick(["add", "sub", "mul", "add", "sub"] + (["div", "mod"] if self.k.zero_div and not ctx.get("pure") else []))
            b = self.int_expr(sc, d - 1, ctx)
            if op in ("div", "mod"):
                self.features.add("div")
                if r.random() < 0.8:
                    b = f"(int {self.pick([1, 2, 3, -2, 7])})"
            return f"(bin {op} {self.int_expr(sc, d - 1, ctx)} {b})"
        if c < 0.68:
            return f"(un neg {self.int_expr(sc, d - 1, ctx)})"
        if c < 0.76:
            os_ = self.vars_of(sc, OINT)
            if os_:
                self.features.add("nilco")
                return f"(nilco (var {self.pick(os_)}) {self.int_expr(sc, d - 1, ctx)})"
        if self.k.deep_rec and c < 0.82 and not ctx.get("pure") and ctx.get("rank", 0) > -1:
            depth = self.pick([3, 17, self.k.deep_rec // 2, self.k.deep_rec])
            self.cost["fdeep"] = depth
            if self.charge(ctx, "fdeep"):
                self.features.add("deep-recursion")
                return f"(calld fdeep (int {depth}))"
        if c < 0.9 and not ctx.get("pure"):
            call = self.call_int(sc, d, ctx)
            if call:
                return call
        if c < 0.94 and self.k.assign_expr:
            ms = self.vars_of(sc, INT, True)
            if ms:
                self.features.add("assign-expr")
                return f"(assign {self.pick(ms)} {self.int_expr(sc, d - 1, ctx)})"
        return f"(var {self.pick(vs)})" if vs else f"(int {r.randint(0, 9)})"

    def call_int(self, sc, d, ctx):
        r = self.r
        cands = []
        for name, ps, ret, rank in self.defs:
            if ret == INT and rank < ctx["rank"]:
                if ctx.get("no_closures") and any(t.startswith("(fn") for _, t in ps):
                    continue
                cands.append(("def", name, ps))
        for n, (t, m) in sc.lookup_all().items():
            if t.startswith("(fn") and t.endswith(" int)") and not ctx.get("no_clo_calls"):
                ps = self.fn_params(t)
                cands.append(("clo", n, ps))
        if not cands:
            return None
        kind, name, ps = self.pick(cands)
        if not self.charge(ctx, name):
            return None
        # closure literals in argument position are single-expression lambdas (a multi-line closure
        # literal inside an argument list trips the real checker's overload resolution)
        actx = dict(ctx, simple_lam=True)
        args = " ".join(self.expr(sc, (p if isinstance(p, str) else p[1]), d - 1, actx) for p in ps)
        if kind == "def":
            self.features.add("call-def")
            return f"(calld {name} {args})".replace(" )", ")")
        self.features.add("call-clo")
        return f"(callc (var {name}) {args})".replace(" )", ")")

    @staticmethod
    def fn_params(t):
        # "(fn (p1 p2) r)" with simple (non-fn) parameter types
        inner = t[len("(fn ("):]
        depth, i = 1, 0
        while depth:
            if inner[i] == "(":
                depth += 1
            elif inner[i] == ")":
                depth -= 1
            i += 1
        body = inner[:i - 1].strip()
        # parameters may be "(opt int)"
        out, j = [], 0
        while j < len(body):
            if body[j] == " ":
                j += 1
            elif body[j] == "(":
                e = body.index(")", j)
                out.append(body[j:e + 1])
                j = e + 1
            else:
                e = body.find(" ", j)
                e = len(body) if e < 0 else e
                out.append(body[j:e])
                j = e
        return out

    def bool_expr(self, sc, d, ctx):
        r = self.r
        c = r.random()
        vs = self.vars_of(sc, BOOL)
        if d <= 0 or c < 0.15:
            if vs and r.random() < 0.5:
                return f"(var {self.pick(vs)})"
            return f"(bool {self.pick(['true', 'false'])})"
        if c < 0.65:
            op = self.pick(["lt", "le", "gt", "ge", "eq", "ne"])
            return f"(bin {op} {self.int_expr(sc, d - 1, ctx)} {self.int_expr(sc, d - 1, ctx)})"
        if c < 0.75:
            return f"(un not {self.bool_expr(sc, d - 1, ctx)})"
        if c < 0.9:
            self.features.add("shortcircuit")
            op = self.pick(["and", "or"])
            return f"({op} {self.bool_expr(sc, d - 1, ctx)} {self.bool_expr(sc, d - 1, ctx)})"
        os_ = self.vars_of(sc, OINT)
        if os_:
            return f"(bin {self.pick(['eq', 'ne'])} (var {self.pick(os_)}) (nil))"
        return f"(bool {self.pick(['true', 'false'])})"

    def lam(self, sc, ty, d, ctx):
        self.features.add("closure")
        ps = self.fn_params(ty)
        ret = ty[:-1].rsplit(" ", 1)[1] if not ty.endswith("))") else None
        if ret is None:  # return type is itself parenthesised, e.g. (opt int)
            ret = ty[ty.rindex("(", 0, len(ty) - 1):-1]
        inner = Scope(sc, boundary=True)
        params = []
        for p in ps:
            n = self.fresh("a")
            inner.vars[n] = (p, True)
            params.append(f"({n} {p})")
        c2 = dict(ctx, loops=[], in_fn=True, ret=ret, in_finally=False, acc=[0], mult=1, in_w=False)
        if self.r.random() < 0.5 or d <= 0 or ctx.get("simple_lam"):
            c2["simple_lam"] = False
            body = f"(expr {self.expr(inner, ret, max(d - 1, 0), c2)})"
        else:
            body = self.block(inner, max(d - 1, 1), c2, final_ty=ret)
        self.last_lam_cost = 1 + c2["acc"][0]
        self.lam_max = max(self.lam_max, self.last_lam_cost)
        return f"(lam ({' '.join(params)}) {ret} {body})"

    # -- statements
    def block(self, sc, d, ctx, final_ty=None, n=None):
        """statements as a space-separated string; `sc` is the block's own scope"""
        lo, hi = self.k.block_len
        n = n if n is not None else self.r.randint(lo, hi)
        out = []
        for _ in range(n):
            out.append(self.stmt(sc, d, ctx))
        if final_ty is not None:
            e = self.expr(sc, final_ty, 1, ctx)
            if ctx.get("in_w"):
                # known finding C15-generator-result-is-call: the result of the wrapped body is never a bare call
                e = f"(bin add (int 0) {e})"
            out.append(f"(expr {e})")
        return " ".join(out)

    def stmt(self, sc, d, ctx):
        r = self.r
        k = self.k
        c = r.random()
        if k.closures and k.closure_bias and r.random() < k.closure_bias and not ctx.get("pure") and not ctx.get("no_clo_calls") and not ctx.get("no_closures"):
            fs = [(n, t) for n, (t, m) in sc.lookup_all().items() if t.startswith("(fn")]
            if fs and r.random() < 0.6 and self.charge(ctx, fs[0][0]):
                n, t = fs[0]
                fs_rest = fs[1:]
                if fs_rest and r.random() < 0.7:
                    cand = self.pick(fs_rest)
                    if self.charge(ctx, cand[0]):
                        n, t = cand
                args = " ".join(self.expr(sc, p_, 1, dict(ctx, simple_lam=True)) for p_ in self.fn_params(t))
                self.features.add("call-clo")
                call = f"(callc (var {n}) {args})".replace(" )", ")")
                return f"(print {call})" if r.random() < 0.7 else f"(expr {call})"
            # let closures ESCAPE the scope that creates them: assign a fresh closure (capturing the
            # locals visible here, e.g. loop-body locals) to a closure variable declared further out
            outer = [(n, t) for n, (t, m) in sc.lookup_all().items() if t.startswith("(fn") and m and n not in sc.vars]
            if outer and r.random() < 0.6:
                n, t = self.pick(outer)
                self.features.add("closure-escapes")
                # no closure calls inside an escaping closure: reassignable closure variables could
                # otherwise form call cycles (non-termination)
                lam = self.lam(sc, t, 1, dict(ctx, no_clo_calls=True))
                self.cost[n] = max(self.cost.get(n, 1), self.last_lam_cost)
                return f"(expr (assign {n} {lam}))"
            return self.decl(sc, d, ctx, force_closure=True)
        if ctx.get("in_w") and r.random() < 0.18 and not ctx.get("pure"):
            self.features.add("yield-mark")
            return f"(print (bin add (int 0) (bin mul (int 1) {self.int_expr(sc, 1, ctx)})))"
        if r.random() < 0.07 and not ctx.get("pure"):
            # `a && (v = e)`, `a || (v = e)`, `a ?? (v = e)` as STATEMENTS (value ignored): the right operand's
            # side effect happens iff the reference says the operand is evaluated (left false vs nil matters for ??)
            ms = self.vars_of(sc, INT, True)
            if ms:
                self.features.add("shortcircuit-statement")
                m = self.pick(ms)
                rhs = f"(assign {m} {self.int_expr(sc, 1, ctx)})"
                op = self.pick(["and", "or", "nilco", "nilco"])
                if op == "nilco":
                    lefts = [f"(var {v})" for v in self.vars_of(sc, OBOOL) + self.vars_of(sc, OINT)]
                    left = self.pick(lefts) if lefts and r.random() < 0.8 else self.pick(["(nil)", "(bool false)", "(bool true)", "(int 0)"])
                else:
                    left = self.bool_expr(sc, 1, ctx)
                return f"(expr ({op} {left} {rhs})) (print (var {m}))"
        if c < 0.22:
            return self.decl(sc, d, ctx)
        if c < 0.34:
            ms = self.vars_of(sc, INT, True)
            if ms:
                return f"(expr (assign {self.pick(ms)} {self.int_expr(sc, 2, ctx)}))"
            return self.decl(sc, d, ctx)
        if c < 0.5:
            ty = self.pick(self.k.print_types or [INT, INT, BOOL, STR, OINT])
            if ty == OINT:   # `inspect` is not defined on `Int?` in Elk: observe through `??`
                return f"(print (nilco {self.expr(sc, OINT, 2, ctx)} (int -99)))"
            return f"(print {self.expr(sc, ty, 2, ctx)})"
        if d <= 0:
            return f"(print {self.int_expr(sc, 1, ctx)})"
        if c < 0.62:
            self.features.add("if")
            t = self.block(Scope(sc), d - 1, ctx)
            e = self.block(Scope(sc), d - 1, ctx) if r.random() < 0.6 else ""
            return f"(if {self.bool_expr(sc, 2, ctx)} ({t}) ({e}))"
        if c < 0.76 and k.loops:
            return self.loop(sc, d, ctx)
        if c < 0.88 and k.exceptions:
            return self.try_(sc, d, ctx)
        # abrupt statements (only where legal)
        return self.abrupt(sc, d, ctx) or f"(print {self.int_expr(sc, 1, ctx)})"

    def abrupt(self, sc, d, ctx, guarded=True):
        r = self.r
        opts = []
        if ctx.get("in_finally") and not self.k.finally_abrupt:
            return None
        if ctx.get("pure"):
            return None
        if ctx["loops"]:
            opts += ["brk", "cont"]
        # known finding C15-generator-return-skips-finally: no `return` inside a `do` of the wrapped body
        if ctx["in_fn"] and self.k.early_return and not (ctx.get("in_w") and ctx.get("in_try")):
            opts += ["ret"]
        if self.k.exceptions and (ctx["in_fn"] or ctx.get("in_try") or self.r.random() < 0.15):
            opts += ["throw"]
        if not opts:
            return None
        o = self.pick(opts)
        if o in ("brk", "cont"):
            lbl = "_"
            if self.k.labels and r.random() < 0.5:
                labelled = [l for l in ctx["loops"] if l != "_"]
                if labelled:
                    lbl = self.pick(labelled)
            self.features.add(o + ("-labelled" if lbl != "_" else ""))
            s = f"({o} {lbl})"
        elif o == "ret":
            self.features.add("return")
            e = self.expr(sc, ctx['ret'], 1, ctx)
            if ctx.get("in_w"):
                e = f"(bin add (int 0) {e})"
            s = f"(ret {e})"
        else:
            self.features.add("throw")
            if r.random() < 0.6:
                s = '(throw (str "%s"))' % self.pick(["boom", "e1", "e2"])
            else:
                s = f"(throw {self.int_expr(sc, 1, ctx)})"
        if guarded:
            return f"(if {self.bool_expr(sc, 2, ctx)} ({s}) ())"
        return s

    def decl(self, sc, d, ctx, force_closure=False):
        r = self.r
        c = r.random() if not force_closure else 0.95
        name = self.fresh()
        if c < 0.5:
            ty, ann = INT, "_"
        elif c < 0.6:
            ty, ann = BOOL, "_"
        elif c < 0.7:
            ty, ann = STR, "_"
        elif c < 0.74 and self.k.nilable:
            ty, ann = OINT, OINT
        elif c < 0.8 and self.k.nilable:
            ty, ann = OBOOL, OBOOL
        elif self.k.closures and not ctx.get("no_closures"):
            ps = [self.pick([INT, INT, BOOL]) for _ in range(r.randint(0, 2))]
            ty = fn_ty(ps, self.pick([INT, INT, INT, BOOL]))
            ann = ty if r.random() < 0.3 else "_"
        else:
            ty, ann = INT, "_"
        e = self.expr(sc, ty, min(d, 2), ctx)
        sc.vars[name] = (ty, True)
        if ty.startswith("(fn"):
            self.cost[name] = self.last_lam_cost if e.startswith("(lam") else self.lam_max
        return f"(decl {name} {ann} {e})"

    def loop(self, sc, d, ctx):
        r = self.r
        self.features.add("loop")
        i = self.fresh("i")
        bound = r.randint(1, 4)
        lbl = self.fresh("l") if (self.k.labels and r.random() < 0.5) else "_"
        sc.vars[i] = (INT, False)   # the counter is never reassigned by generated code
        c2 = dict(ctx, loops=ctx["loops"] + [lbl], in_finally=False, mult=ctx.get("mult", 1) * (bound + 1))
        c2.setdefault("acc", ctx.setdefault("acc", [0]))
        body_sc = Scope(sc)
        inc = f"(expr (assign {i} (bin add (var {i}) (int 1))))"
        pre, post, esc = "", "", ""
        body = self.block(body_sc, d - 1, c2)     # before the escape locals exist: it cannot mention them
        if (self.k.closures and self.k.closure_bias and r.random() < self.k.closure_bias + 0.2
                and not ctx.get("pure") and not ctx.get("no_clo_calls") and not ctx.get("no_closures")):
            # one closure per ITERATION escapes into its own outer variable: a variable captured in
            # iteration k must keep iteration k's value (fresh variable per iteration), also when the
            # body is left by `continue`/`break` or ends in nested scopes
            self.features.add("closure-per-iteration")
            ty0 = fn_ty([], INT)
            gs = [self.fresh("g") for _ in range(min(bound, 3))]
            for g in gs:
                pre += f"(decl {g} _ (lam () int (expr (int 0)))) "
                sc.vars[g] = (ty0, False)
                self.cost[g] = 1
            x = self.fresh("x")
            body_sc.vars[x] = (INT, True)
            esc = f"(decl {x} _ (bin mul (var {i}) (int 10))) "
            inner = ""
            y = None
            if r.random() < 0.5:    # a nested scope with its own captured local, ending with the body
                y = self.fresh("y")
                inner = f"(decl {y} _ (bin add (var {i}) (int 100))) "
            for kk, g in enumerate(gs):
                cap = f"(bin add (var {x}) (var {y}))" if y else f"(bin add (var {x}) (var {i}))"
                esc_k = f"(if (bin eq (var {i}) (int {kk + 1})) ((expr (assign {g} (lam () int (expr {cap}))))) ())"
                inner += esc_k + " "
            if y:
                esc += f"(if (bool true) ({inner}) ()) "
            else:
                esc += inner
            if r.random() < 0.4:
                esc += f"(if (bin eq (bin mod (var {i}) (int 2)) (int 0)) (({self.pick(['cont', 'cont', 'brk'])} _)) ()) "
            if r.random() < 0.5:
                esc += f"(expr (assign {x} (bin add (var {x}) (int 1)))) "
            if self.k.labels and r.random() < 0.35:
                # leave THIS loop from inside a nested labelled loop (labelled break/continue across two
                # loop scopes while this body's locals are captured)
                self.features.add("escape-labelled-exit-from-inner-loop")
                if lbl == "_":
                    lbl = self.fresh("l")
                    c2["loops"] = ctx["loops"] + [lbl]
                j = self.fresh("j")
                inner_lbl = self.fresh("l") if r.random() < 0.7 else "_"
                kind = self.pick(["brk", "brk", "cont"])
                esc += (f"(decl {j} _ (int 0)) (while {inner_lbl} (bin lt (var {j}) (int 2)) "
                        f"(expr (assign {j} (bin add (var {j}) (int 1)))) "
                        f"(if (bin eq (var {j}) (int {r.randint(1, 2)})) (({kind} {lbl})) ())) ")
            # locals of other types declared after the loop reuse the slots of the loop body's locals
            post = f" (decl {self.fresh('s')} _ (str \"zz\")) (decl {self.fresh('t')} _ (bool true)) " + " ".join(f"(print (callc (var {g})))" for g in gs)
        if r.random() < 0.7:
            if esc and r.random() < 0.5:
                return f"{pre}(decl {i} _ (int 0)) (while {lbl} (bin lt (var {i}) (int {bound})) {inc} {esc} {body}){post}"
            return f"{pre}(decl {i} _ (int 0)) (while {lbl} (bin lt (var {i}) (int {bound})) {inc} {body} {esc}){post}"
        self.features.add("loop-forever")
        return (f"{pre}(decl {i} _ (int 0)) (loop {lbl} {inc} "
                f"(if (bin gt (var {i}) (int {bound})) ((brk _)) ()) {body} {esc}){post}")

    def try_(self, sc, d, ctx):
        r = self.r
        self.features.add("try")
        body_sc = Scope(sc)
        tctx = dict(ctx, in_try=True)
        body = self.block(body_sc, d - 1, tctx)
        if r.random() < 0.7:
            a = self.abrupt(body_sc, d, tctx, guarded=r.random() < 0.6)
            if a:
                body += " " + a
        has_fin = r.random() < 0.55
        catches = []
        if r.random() < 0.75 or not has_fin:
            for _ in range(r.randint(1, 2)):
                pat = self.pick(["isstr", "isint", "iszde", '(lits "boom")', "any", "isstr"])
                x = self.fresh("e")
                csc = Scope(sc)
                if pat in ("isstr", '(lits "boom")'):
                    csc.vars[x] = (STR, False)
                elif pat == "isint":
                    csc.vars[x] = (INT, False)
                # known finding C14-finally-skipped: an abrupt exit from a catch body skips the
                # `finally` of the same `do`; unless asked for, keep such handlers exception-free
                cctx = dict(ctx, pure=True) if (has_fin and not self.k.d14_shapes) else ctx
                cb = self.block(csc, d - 1 if not cctx.get("pure") else 0, cctx, n=r.randint(1, 2))
                if self.k.catch_abrupt and not cctx.get("pure") and r.random() < 0.3:
                    a = self.abrupt(csc, d, cctx, guarded=r.random() < 0.5)
                    if a:
                        self.features.add("catch-abrupt")
                        cb += " " + a
                catches.append(f"(catch {pat} {x} {cb})")
                if pat == "any":
                    break
        fin = "_"
        if has_fin:
            self.features.add("finally")
            fctx = dict(ctx, in_finally=True, pure=not self.k.finally_abrupt)
            fin = "(fin " + self.block(Scope(sc), 0, fctx, n=r.randint(1, 2)) + ")"
        return f"(try ({body}) ({' '.join(catches)}) {fin})"

    # -- program
    def program(self):
        r = self.r
        ndefs = r.randint(0, self.k.defs)
        sigs = []
        for i in range(ndefs):
            ptypes = [INT, INT, BOOL, OINT] if self.k.nilable else [INT, INT, BOOL]
            if self.k.closures and self.k.closure_bias:
                ptypes = ptypes + [fn_ty([], INT), fn_ty([INT], INT)]   # closures passed to methods (also in tail position)
            ps = [(self.fresh("p"), self.pick(ptypes)) for _ in range(r.randint(0, 3))]
            ret = self.pick([INT, INT, INT, BOOL])
            if self.k.closures and r.random() < 0.25:
                ret = fn_ty([self.pick([INT])] if r.random() < 0.6 else [], INT)
            sigs.append([f"f{i}", ps, ret, i])
        self.defs = sigs
        texts = []
        for name, ps, ret, rank in sigs:
            sc = Scope(None, boundary=True)
            for p, t in ps:
                sc.vars[p] = (t, True)
            ctx = {"loops": [], "in_fn": True, "ret": ret, "rank": rank, "in_finally": False, "acc": [0], "mult": 1}
            body = self.block(sc, self.k.max_depth, ctx, final_ty=ret)
            self.cost[name] = 1 + ctx["acc"][0]
            plist = " ".join(f"({p} {t})" for p, t in ps)
            texts.append(f"(def {name} ({plist}) {ret} {body})")
        wsig = None
        if self.k.wrap_target:
            ps = [(self.fresh("p"), INT) for _ in range(r.randint(0, 2))]
            wsc = Scope(None, boundary=True)
            for p_, t_ in ps:
                wsc.vars[p_] = (t_, False)   # generator parameters are not assignable in Elk
            # known finding C15-closure-stale-across-yield: the wrapped body creates no closures
            wctx = {"loops": [], "in_fn": True, "ret": INT, "rank": 10 ** 5, "in_finally": False, "acc": [0], "mult": 1, "in_w": True,
                    "no_closures": True}
            wbody = self.block(wsc, self.k.max_depth, wctx, final_ty=INT, n=r.randint(2, 6))
            plist = " ".join(f"({p_} {t_})" for p_, t_ in ps)
            texts.append(f"(def w ({plist}) int {wbody})")
            wsig = ps
        if self.k.deep_rec:
            texts.append("(def fdeep ((n int)) int (if (bin le (var n) (int 0)) ((ret (int 0))) ()) "
                         "(expr (bin add (int 1) (calld fdeep (bin sub (var n) (int 1))))))")
        r.shuffle(texts)
        sc = Scope(None, boundary=True)
        ctx = {"loops": [], "in_fn": False, "ret": None, "rank": 10 ** 6, "in_finally": False, "acc": [0], "mult": 1}
        main = self.block(sc, self.k.max_depth, ctx, n=r.randint(3, 7))
        # make sure results of the methods are observed
        for name, ps, ret, rank in sigs:
            if ret in (INT, BOOL):
                args = " ".join(self.expr(sc, t, 1, dict(ctx, simple_lam=True)) for _, t in ps)
                if ret == BOOL and self.k.print_types and "bool" not in self.k.print_types:
                    main += f" (if (calld {name} {args}) ((print (int 1))) ((print (int 0))))".replace(" )", ")")
                else:
                    main += f" (print (calld {name} {args}))".replace(" )", ")")
            elif ret.startswith("(fn"):
                args = " ".join(self.expr(sc, t, 1, dict(ctx, simple_lam=True)) for _, t in ps)
                cps = self.fn_params(ret)
                cargs = " ".join(self.expr(sc, t, 1, ctx) for t in cps)
                h = self.fresh("h")
                main += f" (decl {h} _ (calld {name} {args}))".replace(" )", ")")
                for _ in range(2):
                    main += f" (print (callc (var {h}) {cargs}))".replace(" )", ")")
        if wsig is not None:
            for _ in range(r.randint(1, 3)):
                args = " ".join(f"(int {r.randint(-2, 6)})" for _ in wsig)
                main += f" (print (calld w {args}))".replace(" )", ")")
        return f"(prog {self.mod} (defs {' '.join(texts)}) (main {main}))"
