"""Elk regex: generator of syntax trees, printer to Elk regex source, expected parser dump, and an
independent reference matcher (python, stdlib only) implementing the Elk semantics on the tree.
Shared by checks/c21.py and checks/c03.py.

Tree nodes are tuples whose first element is the tag used by harness/dom/rx.go `dumpRx`:
  ("cat", [n…]) ("or", l, r) ("q?", alt, r) ("q*", alt, r) ("q+", alt, r) ("qn", alt, N, r) ("qnm", alt, N, M, r)
  ("grp", name, set, unset, nc, r) ("grp0", "", set, unset, 0) ("cc", neg, [e…]) ("rng", l, r) ("ncc", neg, name)
  ("ch", cp) ("meta", cp) ("qt", s) ("caret", cp) ("u", hexdigits) ("x", hexdigits) ("o", octdigits) ("p", neg, name)
  and the atoms ("bell",) ("ff",) ("tab",) ("nl",) ("cr",) ("^",) ("$",) ("A",) ("z",) ("b",) ("B",)
  ("w",) ("W",) ("d",) ("D",) ("s",) ("S",) ("h",) ("H",) ("v",) ("V",) ("dot",)
Flags: i=1 m=2 s=4 U=8 x=16 a=32.
"""
import unicodedata

I, M, S, U, X, A = 1, 2, 4, 8, 16, 32
ATOMS = ["bell", "ff", "tab", "nl", "cr", "^", "$", "A", "z", "b", "B", "w", "W", "d", "D", "s", "S", "h", "H", "v", "V", "dot"]
ATOM_SRC = {"bell": "\\a", "ff": "\\f", "tab": "\\t", "nl": "\\n", "cr": "\\r", "^": "^", "$": "$", "A": "\\A", "z": "\\z",
            "b": "\\b", "B": "\\B", "w": "\\w", "W": "\\W", "d": "\\d", "D": "\\D", "s": "\\s", "S": "\\S", "h": "\\h",
            "H": "\\H", "v": "\\v", "V": "\\V", "dot": "."}
META_CHARS = ".?-+*^\\|$()[]{} "
TOP_RAW_OK = set("abcdefghijklmnopqrstuvwxyzABCDEFGHIJKLMNOPQRSTUVWXYZ0123456789_!\"%&/;=@~`,}]-:<>'")
CC_RAW_OK = set("abcdefghijklmnopqrstuvwxyzABCDEFGHIJKLMNOPQRSTUVWXYZ0123456789_!\"%&/;=@~`,{}:<>'$.+*?|()# ")
SPACES = [0x20, 0x09, 0x0A, 0x0B, 0x0C, 0x0D, 0x85, 0xA0, 0x1680, 0x2003, 0x2028, 0x2029, 0x202F, 0x205F, 0x3000]
UNI_CHARS = [0xE9, 0xDF, 0x3BB, 0x416, 0x4E2D, 0x3042, 0x301, 0x308, 0x663, 0x96B, 0x203F, 0x20AC, 0x1F600, 0x212A, 0x17F]
CATS = ["L", "Lu", "Ll", "N", "Nd", "P", "Z", "Zs", "Mn", "Pc", "S", "Sc"]
POSIX = {"alpha": lambda c: c < 128 and chr(c).isalpha(), "digit": lambda c: 48 <= c <= 57,
         "alnum": lambda c: c < 128 and chr(c).isalnum(), "upper": lambda c: 65 <= c <= 90,
         "lower": lambda c: 97 <= c <= 122, "space": lambda c: c in (9, 10, 11, 12, 13, 32),
         "punct": lambda c: 33 <= c <= 126 and not chr(c).isalnum(), "xdigit": lambda c: chr(c) in "0123456789abcdefABCDEF" if c < 128 else False,
         "word": lambda c: c < 128 and (chr(c).isalnum() or c == 95)}


def is_space(c):  # Go unicode.IsSpace
    return c in (9, 10, 11, 12, 13, 32, 0x85, 0xA0, 0x1680, 0x2028, 0x2029, 0x202F, 0x205F, 0x3000) or 0x2000 <= c <= 0x200A


# ------------------------------------------------------------------ dump (what harness/dom/rx.go prints)

def hx0(s):
    return s.encode().hex() if s else "-"


def dump(n):
    t = n[0]
    if t == "cat":
        return ",".join(["cat", str(len(n[1]))] + [dump(e) for e in n[1]])
    if t == "or":
        return "or," + dump(n[1]) + "," + dump(n[2])
    if t in ("q?", "q*", "q+"):
        return "%s,%d,%s" % (t, n[1], dump(n[2]))
    if t == "qn":
        return "qn,%d,%s,%s" % (n[1], hx0(n[2]), dump(n[3]))
    if t == "qnm":
        return "qnm,%d,%s,%s,%s" % (n[1], hx0(n[2]), hx0(n[3]), dump(n[4]))
    if t == "grp":
        return "grp,%s,%d,%d,%d,%s" % (hx0(n[1]), n[2], n[3], n[4], dump(n[5]))
    if t == "grp0":
        return "grp0,%s,%d,%d,%d" % (hx0(n[1]), n[2], n[3], n[4])
    if t == "cc":
        return ",".join(["cc", str(n[1]), str(len(n[2]))] + [dump(e) for e in n[2]])
    if t == "rng":
        return "rng," + dump(n[1]) + "," + dump(n[2])
    if t == "ncc":
        return "ncc,%d,%s" % (n[1], hx0(n[2]))
    if t in ("ch", "meta", "caret"):
        return "%s,%d" % (t, n[1])
    if t in ("qt", "u", "x", "o"):
        return "%s,%s" % (t, hx0(n[1]))
    if t == "p":
        return "p,%d,%s" % (n[1], hx0(n[2]))
    return t


def size(n):
    t = n[0]
    if t == "cat":
        return 1 + sum(size(e) for e in n[1])
    if t == "cc":
        return 1 + sum(size(e) for e in n[2])
    if t in ("or", "rng"):
        return 1 + size(n[1]) + size(n[2])
    if t in ("q?", "q*", "q+", "qn", "qnm", "grp"):
        return 1 + size(n[-1])
    return 1


# ------------------------------------------------------------------ printer: tree -> list of source pieces

FLAGCH = [(I, "i"), (M, "m"), (S, "s"), (U, "U"), (X, "x"), (A, "a")]


def flag_str(f):
    return "".join(c for b, c in FLAGCH if f & b)


def pieces(n, rng=None, incc=False):
    """Atomic source pieces (x-mode decoration may go between two pieces, never inside one);
    a piece starting with '\\0' marks 'no decoration before this piece' (quantifiers)."""
    t = n[0]
    ch = lambda: rng.random() if rng else 0.0
    if t == "cat":
        out = []
        for e in n[1]:
            out += pieces(e, rng)
        return out
    if t == "or":
        return pieces(n[1], rng) + ["|"] + pieces(n[2], rng)
    if t in ("q?", "q*", "q+"):
        return pieces(n[2], rng) + ["\0" + t[1] + ("?" if n[1] else "")]
    if t == "qn":
        return pieces(n[3], rng) + ["\0{" + n[2] + "}" + ("?" if n[1] else "")]
    if t == "qnm":
        lo = n[2]
        if lo == "0" and ch() < 0.3:
            pass
        return pieces(n[4], rng) + ["\0{" + lo + "," + n[3] + "}" + ("?" if n[1] else "")]
    if t == "grp":
        name, st, un, nc = n[1], n[2], n[3], n[4]
        if name:
            head = rng.choice(["(?<%s>", "(?P<%s>", "(?'%s'"]) % name if rng else "(?<%s>" % name
            if head.startswith("(?'"):
                head = "(?'%s'" % name
        elif st or un:
            head = "(?" + flag_str(st) + ("-" + flag_str(un) if un else "") + ":"
        elif nc:
            head = "(?:"
        else:
            head = "("
        return [head] + pieces(n[5], rng) + [")"]
    if t == "grp0":
        return ["(?" + flag_str(n[2]) + ("-" + flag_str(n[3]) if n[3] else "") + ")"]
    if t == "cc":
        return ["[" + ("^" if n[1] else "") + "".join("".join(pieces(e, rng, True)) for e in n[2]) + "]"]
    if t == "rng":
        return ["".join(pieces(n[1], rng, True)) + "-" + "".join(pieces(n[2], rng, True))]
    if t == "ncc":
        return ["[:" + ("^" if n[1] else "") + n[2] + ":]"]
    if t == "ch":
        return [chr(n[1])]
    if t == "meta":
        return ["\\" + chr(n[1])]
    if t == "qt":
        return ["\\Q" + n[1] + "\\E"]
    if t == "caret":
        return ["\\c" + chr(n[1])]
    if t == "u":
        s = n[1]
        if len(s) == 4 and ch() < 0.5:
            return ["\\u" + s]
        if len(s) == 8 and ch() < 0.5:
            return ["\\U" + s]
        return [("\\u{" if ch() < 0.5 else "\\U{") + s + "}"]
    if t == "x":
        s = n[1]
        if len(s) == 2 and ch() < 0.5:
            return ["\\x" + s]
        return ["\\x{" + s + "}"]
    if t == "o":
        return ["\\o{" + n[1] + "}"]
    if t == "p":
        neg, name = n[1], n[2]
        r = ch()
        if len(name) == 1 and r < 0.4:
            return [("\\P" if neg else "\\p") + name]
        if neg and r < 0.7:
            return ["\\p{^" + name + "}"]
        return [("\\P{" if neg else "\\p{") + name + "}"]
    return [ATOM_SRC[t]]


def source(n, rng=None):
    return "".join(p.lstrip("\0") for p in pieces(n, rng))


COMMENT_SAFE = "abcxyz 019_;=!,<>'\":@%&~-}]"


def decorate(ps, rng, unsafe=False):
    """x-mode decoration of a piece list: whitespace and `# …\\n` comments between pieces."""
    out = []
    for k, p in enumerate(ps):
        nodeco = p.startswith("\0")
        p = p.lstrip("\0")
        if k > 0 and not nodeco:
            r = rng.random()
            if r < 0.35:
                out.append("".join(chr(rng.choice(SPACES[:6] if rng.random() < 0.8 else SPACES)) for _ in range(rng.randint(1, 2))))
            elif r < 0.5:
                alpha = COMMENT_SAFE + ("|()[*+?" if unsafe else "")
                out.append("#" + "".join(rng.choice(alpha) for _ in range(rng.randint(0, 5))) + "\n")
        out.append(p)
    if rng.random() < 0.2:
        out.append("  # trailing" if rng.random() < 0.5 else " ")
    return "".join(out)


def strip_x(src):
    """The specification of extended mode on the pattern TEXT: whitespace and `#…\\n` comments are not part of
    the pattern (outside character classes; escapes and \\Q…\\E are kept)."""
    out = []
    i, n, incc = 0, len(src), False
    while i < n:
        c = src[i]
        if c == "\\":
            if src.startswith("\\Q", i):
                j = src.find("\\E", i + 2)
                j = n if j < 0 else j + 2
                out.append(src[i:j])
                i = j
                continue
            out.append(src[i:i + 2])
            i += 2
            continue
        if incc:
            if c == "]":
                incc = False
            elif c == "[" and src.startswith("[:", i):
                j = src.find(":]", i)
                if j > 0:
                    out.append(src[i:j + 2])
                    i = j + 2
                    continue
            out.append(c)
            i += 1
            continue
        if c == "[":
            incc = True
            out.append(c)
            i += 1
            if i < n and src[i] == "^":
                out.append("^")
                i += 1
            continue
        if is_space(ord(c)):
            i += 1
            continue
        if c == "#":
            j = src.find("\n", i)
            i = n if j < 0 else j + 1
            continue
        out.append(c)
        i += 1
    return "".join(out)


# ------------------------------------------------------------------ generator

class Gen:
    def __init__(self, rng, allow_x_inline=True, ascii_only=False):
        self.rng = rng
        self.names = 0
        self.allow_x_inline = allow_x_inline
        self.ascii_only = ascii_only

    def lit_cp(self, incc=False):
        r = self.rng.random()
        ok = CC_RAW_OK if incc else TOP_RAW_OK
        if r < 0.7:
            return ord(self.rng.choice("abcABCkKsS019_"))
        if r < 0.85 or self.ascii_only:
            return ord(self.rng.choice(sorted(ok)))
        return self.rng.choice(UNI_CHARS)

    def range_end(self):
        r = self.rng.random()
        if r < 0.6:
            return ("ch", self.lit_cp(True))
        if r < 0.7:
            return ("meta", ord(self.rng.choice("-.]^\\")))
        if r < 0.8:
            return ("x", "%02x" % self.rng.choice([0x41, 0x61, 0x7A, 0x30]))
        if r < 0.9:
            return ("u", "%04x" % self.rng.choice([0x41, 0xE9, 0x3BB, 0x416]))
        return self.rng.choice([("tab",), ("nl",), ("bell",)])  # NB `\\cA` is not accepted inside a class by the parser

    def cc_elem(self):
        r = self.rng.random()
        if r < 0.35:
            c = self.lit_cp(True)
            return ("ch", c)
        if r < 0.55:
            a, b = self.range_end(), self.range_end()
            va, vb = rune_of(a), rune_of(b)
            if va is not None and vb is not None and va > vb:
                a, b = b, a
            return ("rng", a, b)
        if r < 0.62:
            return ("ncc", int(self.rng.random() < 0.3), self.rng.choice(sorted(POSIX)))
        if r < 0.92:
            return (self.rng.choice(["w", "W", "d", "D", "s", "S", "h", "H", "v", "V"]),)
        if r < 0.96:
            return ("p", int(self.rng.random() < 0.3), self.rng.choice(CATS))
        return ("meta", ord(self.rng.choice("-]^.\\[ ")))

    def primary(self, depth, budget):
        r = self.rng.random()
        if r < 0.38:
            return ("ch", self.lit_cp())
        if r < 0.5:
            return (self.rng.choice(["w", "W", "d", "D", "s", "S", "h", "H", "v", "V", "dot", "dot"]),)
        if r < 0.56:
            return (self.rng.choice(["^", "$", "A", "z", "b", "B"]),)
        if r < 0.6:
            return (self.rng.choice(["bell", "ff", "tab", "nl", "cr"]),)
        if r < 0.64:
            return ("meta", ord(self.rng.choice(META_CHARS)))
        if r < 0.67:
            return ("qt", "".join(self.rng.choice("ab.*+?()[|^$ #") for _ in range(self.rng.randint(0, 3))))
        if r < 0.7:
            k = self.rng.random()
            if k < 0.3:
                return ("x", self.rng.choice(["41", "61", "7a", "e9", "3bb", "0a"]))
            if k < 0.6:
                return ("u", self.rng.choice(["0041", "00e9", "03bb", "1f600", "0001F600", "4e2d"]))
            if k < 0.8:
                return ("o", self.rng.choice(["101", "141", "12", "7"]))
            return ("caret", ord(self.rng.choice("AJjMz")))
        if r < 0.74:
            return ("p", int(self.rng.random() < 0.3), self.rng.choice(CATS))
        if r < 0.86 and budget > 2:
            n = self.rng.randint(0, 4)
            return ("cc", int(self.rng.random() < 0.35), [self.cc_elem() for _ in range(n)])
        if depth < 4 and budget > 2:
            return self.group(depth, budget)
        return ("ch", self.lit_cp())

    def flag_only(self):
        """a flag-only group `(?ix-a)`: any on/off combination of the six flags"""
        allowed = [I, M, S, U, A] + ([X] if self.allow_x_inline else [])
        st = un = 0
        for f in allowed:
            k = self.rng.random()
            if k < 0.25:
                st |= f
            elif k < 0.45:
                un |= f
        if not st and not un:
            f = self.rng.choice([A, A, X if self.allow_x_inline else A, I, S])
            if self.rng.random() < 0.6:
                st = f
            else:
                un = f
        return ("grp0", "", st, un, 0)

    def sensitive(self):
        """an atom whose meaning depends on the x / a / i / s flags in force"""
        r = self.rng.random()
        if r < 0.55:
            return (self.rng.choice(["w", "d", "s", "h", "v", "W", "D", "S", "d", "w"]),)
        if r < 0.75:
            return ("ch", self.rng.choice([32, 32, 9, 0x2003]))
        if r < 0.85:
            return ("dot",)
        return ("ch", self.rng.choice([ord("k"), ord("S"), ord("a")]))

    def with_flag_only(self, inner):
        """put a flag-only group in front of / inside the content of a group, followed by flag-sensitive atoms"""
        els = list(inner[1]) if inner[0] == "cat" else [inner]
        pos = self.rng.randint(0, len(els))
        els[pos:pos] = [self.flag_only(), self.sensitive()]
        if inner[0] == "or":
            return ("or", self.with_flag_only(inner[1]), inner[2])
        return ("cat", els) if len(els) != 1 else els[0]

    def group(self, depth, budget):
        r = self.rng.random()
        inner = self.union(depth + 1, budget - 1)
        if self.rng.random() < 0.3:
            inner = self.with_flag_only(inner)
        if r < 0.3:
            return ("grp", "", 0, 0, 0, inner)
        if r < 0.55:
            return ("grp", "", 0, 0, 1, inner)
        if r < 0.68:
            self.names += 1
            return ("grp", "n" + "abcdefghij"[self.names % 10] * (1 + self.names // 10), 0, 0, 0, inner)
        allowed = [I, M, S, U, A] + ([X] if self.allow_x_inline else [])
        st = un = 0
        for f in allowed:
            k = self.rng.random()
            if k < 0.3:
                st |= f
            elif k < 0.45:
                un |= f
        if not st and not un:
            st = I
        return ("grp", "", st, un, 0, inner)

    def quantified(self, depth, budget):
        p = self.primary(depth, budget)
        r = self.rng.random()
        if r < 0.6 or p[0] in ("^", "$", "A", "z", "b", "B", "grp0"):
            return p
        alt = int(self.rng.random() < 0.25)
        k = self.rng.random()
        if k < 0.25:
            return ("q?", alt, p)
        if k < 0.5:
            return ("q*", alt, p)
        if k < 0.7:
            return ("q+", alt, p)
        if k < 0.82:
            return ("qn", alt, str(self.rng.choice([0, 1, 2, 3])), p)
        lo = self.rng.choice(["", "0", "1", "2"])
        hi = self.rng.choice(["", "1", "2", "3", "4"])
        if lo and hi and int(lo) > int(hi):
            lo, hi = hi, lo
        return ("qnm", alt, lo, hi, p)

    def concat(self, depth, budget):
        n = self.rng.choice([0, 1, 1, 2, 2, 3, 3, 4, 5])
        n = min(n, max(0, budget))
        els = []
        for _ in range(n):
            if self.rng.random() < 0.06:
                els.append(self.flag_only())
            else:
                q = self.quantified(depth, budget // max(1, n))
                els.append(q)
                if q[0] == "grp" and self.rng.random() < 0.5:
                    els.append(self.sensitive())
        if len(els) == 1:
            return els[0]
        return ("cat", els)

    def union(self, depth, budget):
        n = self.rng.choice([1, 1, 1, 2, 2, 3])
        node = self.concat(depth, budget // n)
        for _ in range(n - 1):
            node = ("or", node, self.concat(depth, budget // n))
        return node

    def tree(self, budget=22):
        self.names = 0
        for _ in range(50):
            t = self.union(0, budget)
            if size(t) <= 25:
                return t
        return ("ch", 97)


def flag_scope_grid():
    """Every group kind x a flag-only group inside it (each of the six flags switched on, and off) x a flag-sensitive atom
    inside AND right after the closing parenthesis: the flag-only group's scope is the enclosing group."""
    outers = [("", 0, 0, 0), ("", 0, 0, 1), ("nz", 0, 0, 0), ("", I, 0, 0), ("", M, 0, 0), ("", S, 0, 0), ("", U, 0, 0),
              ("", I | S, M, 0), ("", X, 0, 0), ("", A, 0, 0), ("", 0, A, 0), ("", 0, X | I, 0)]
    tails = [[("d",)], [("w",)], [("s",)], [("h",)], [("v",)], [("ch", 97), ("ch", 32), ("ch", 98)], [("ch", 107)], [("dot",)]]
    out = []
    for name, st, un, nc in outers:
        for f in (I, M, S, U, X, A):
            for on in (True, False):
                g0 = ("grp0", "", f, 0, 0) if on else ("grp0", "", 0, f, 0)
                for tail in tails:
                    inner = ("cat", [g0] + tail)
                    out.append(("cat", [("grp", name, st, un, nc, inner)] + tail))
    # two levels: the flag-only group sits in a group inside the flag group
    for f in (X, A, I):
        for tail in tails[:6]:
            deep = ("grp", "", 0, 0, 1, ("cat", [("grp0", "", f, 0, 0)] + tail))
            out.append(("cat", [("grp", "", I, 0, 0, ("cat", [deep] + tail))] + tail))
    return out


def rune_of(n):
    t = n[0]
    if t in ("ch", "meta"):
        return n[1]
    if t in ("x", "u"):
        return int(n[1], 16)
    if t == "o":
        return int(n[1], 8)
    if t == "caret":
        c = n[1]
        return (c - 64) if 65 <= c <= 90 else (c - 96)
    return {"bell": 7, "ff": 12, "tab": 9, "nl": 10, "cr": 13}.get(t)


# ------------------------------------------------------------------ reference matcher

class Unsupported(Exception):
    pass


def fold_orbit(c):
    """Go unicode.SimpleFold orbit of c (as far as the generator's alphabet needs it)."""
    s = {c}
    ch = chr(c)
    for v in (ch.lower(), ch.upper()):
        if len(v) == 1:
            s.add(ord(v))
    if c in (ord("k"), ord("K"), 0x212A):
        s |= {ord("k"), ord("K"), 0x212A}
    if c in (ord("s"), ord("S"), 0x17F):
        s |= {ord("s"), ord("S"), 0x17F}
    if c in (0xDF, 0x1E9E):
        s |= {0xDF, 0x1E9E}
    if c in (0xE5, 0xC5, 0x212B):
        s |= {0xE5, 0xC5, 0x212B}
    if c in (0x3BC, 0x39C, 0xB5):
        s |= {0x3BC, 0x39C, 0xB5}
    return s


def cat_of(c):
    return unicodedata.category(chr(c))


def is_word(c, ascii_):
    if ascii_:
        return c < 128 and (chr(c).isalnum() or c == 95)
    k = cat_of(c)
    return k[0] == "L" or k in ("Mn", "Nd", "Pc")


def is_digit(c, ascii_):
    return 48 <= c <= 57 if ascii_ else cat_of(c) == "Nd"


def is_ws(c, ascii_):
    if ascii_:
        return c in (9, 10, 12, 13, 32)
    return c in (9, 10, 11, 12, 13, 32, 0x85) or cat_of(c)[0] == "Z"


def is_h(c, ascii_):
    return c in (9, 32) if ascii_ else (c == 9 or cat_of(c) == "Zs")


def is_v(c, ascii_):
    return c in (10, 11, 12, 13) or (not ascii_ and c in (0x85, 0x2028, 0x2029))


def in_cat(c, name):
    k = cat_of(c)
    return k == name if len(name) == 2 else k[0] == name


def class_test(n, fl):
    """(positive predicate rune -> bool, negated?) for a single-character node under flags fl.
    Under the i flag a class is the fold-closure of its positive part, THEN negated (Perl/RE2 reading)."""
    t = n[0]
    a = bool(fl & A)
    r = rune_of(n)
    if r is not None:
        return (lambda c: c == r), False
    if t in ("w", "W"):
        return (lambda c: is_word(c, a)), t == "W"
    if t in ("d", "D"):
        return (lambda c: is_digit(c, a)), t == "D"
    if t in ("s", "S"):
        return (lambda c: is_ws(c, a)), t == "S"
    if t in ("h", "H"):
        return (lambda c: is_h(c, a)), t == "H"
    if t in ("v", "V"):
        return (lambda c: is_v(c, a)), t == "V"
    if t == "p":
        name = n[2]
        return (lambda c: in_cat(c, name)), bool(n[1])
    if t == "ncc":
        f = POSIX[n[2]]
        return f, bool(n[1])
    if t == "rng":
        lo, hi = rune_of(n[1]), rune_of(n[2])
        if lo is None or hi is None:
            raise Unsupported("range end")
        return (lambda c: lo <= c <= hi), False
    raise Unsupported(t)


def apply_flags(cur, st, un):
    return (cur | st) & ~un & 63


def annotate(n, fl):
    """attach the lexically scoped flags to every leaf: returns (node', flags after n)"""
    t = n[0]
    if t == "cat":
        out = []
        for e in n[1]:
            e2, fl = annotate(e, fl)
            out.append(e2)
        return ("cat", out), fl
    if t == "or":
        l, fl1 = annotate(n[1], fl)
        r, fl2 = annotate(n[2], fl1)
        return ("or", l, r), fl2
    if t in ("q?", "q*", "q+", "qn", "qnm"):
        r, fl2 = annotate(n[-1], fl)
        return n[:-1] + (r,), fl2
    if t == "grp":
        inner, _ = annotate(n[5], apply_flags(fl, n[2], n[3]))
        return ("grp", n[1], n[2], n[3], n[4], inner), fl
    if t == "grp0":
        return ("empty",), apply_flags(fl, n[2], n[3])
    return ("leaf", n, fl), fl


def xmode_prune(n):
    """AST-level reading of extended mode for annotated trees: whitespace chars vanish, `#` starts a comment up to the
    next `\\n` IN THE SAME concatenation. Raises Unsupported when the comment swallows structure (those inputs are
    judged by the text-level metamorphic test instead)."""
    t = n[0]
    if t == "cat":
        out, incomment = [], False
        for e in n[1]:
            if e[0] == "leaf" and e[2] & X:
                node = e[1]
                if incomment:
                    if node[0] == "ch" and node[1] == 10:
                        incomment = False
                    elif node[0] != "ch":
                        raise Unsupported("structure inside x-mode comment")
                    continue
                if node[0] == "ch" and node[1] == 35:
                    incomment = True
                    continue
            elif incomment:
                raise Unsupported("structure inside x-mode comment")
            out.append(xmode_prune(e))
        if incomment:
            raise Unsupported("comment runs to the end of a concatenation")
        return ("cat", out)
    if t == "or":
        return ("or", xmode_prune(n[1]), xmode_prune(n[2]))
    if t in ("q?", "q*", "q+", "qn", "qnm"):
        return n[:-1] + (xmode_prune(n[-1]),)
    if t == "grp":
        return n[:5] + (xmode_prune(n[5]),)
    if t == "leaf":
        node, fl = n[1], n[2]
        if fl & X and node[0] == "ch":
            if is_space(node[1]):
                return ("empty",)
            if node[1] == 35:
                raise Unsupported("lone # in x mode")
        return n
    return n


class Matcher:
    def __init__(self, tree, flags):
        ann, _ = annotate(tree, flags)
        self.tree = xmode_prune(ann)

    def matches(self, subj):
        """unanchored search, like Regex#matches"""
        s = [ord(c) for c in subj]
        self.s = s
        self.memo = {}
        for i in range(len(s) + 1):
            if self.ends(self.tree, i):
                return True
        return False

    def ends(self, n, i):
        key = (id(n), i)
        r = self.memo.get(key)
        if r is None:
            r = frozenset(self._ends(n, i))
            self.memo[key] = r
        return r

    def step(self, n, cur):
        nxt = set()
        for p in cur:
            nxt |= self.ends(n, p)
        return nxt

    def rep(self, n, i, lo, hi):
        """end positions of n{lo,hi} from i (hi None = unbounded)"""
        cur = {i}
        for _ in range(lo):
            cur = self.step(n, cur)
            if not cur:
                return set()
        res = set(cur)
        if hi is None:
            frontier = set(cur)
            while frontier:
                frontier = self.step(n, frontier) - res
                res |= frontier
            return res
        for _ in range(hi - lo):
            cur = self.step(n, cur)
            if not cur:
                break
            res |= cur
        return res

    def _ends(self, n, i):
        t = n[0]
        s = self.s
        if t == "empty":
            return {i}
        if t == "cat":
            cur = {i}
            for e in n[1]:
                nxt = set()
                for p in cur:
                    nxt |= self.ends(e, p)
                cur = nxt
                if not cur:
                    break
            return cur
        if t == "or":
            return self.ends(n[1], i) | self.ends(n[2], i)
        if t in ("q?", "q*", "q+", "qn", "qnm") and n[-1][0] == "leaf" and n[-1][1][0] == "qt" and len(n[-1][1][1]) != 1:
            # Elk's tree quantifies the whole quoted text, Go (like Perl) only its last character: not judged here
            raise Unsupported("quantified quoted text")
        if t == "q?":
            return {i} | self.ends(n[2], i)
        if t == "q*":
            return self.rep(n[2], i, 0, None)
        if t == "q+":
            return self.rep(n[2], i, 1, None)
        if t == "qn":
            k = int(n[2])
            return self.rep(n[3], i, k, k)
        if t == "qnm":
            lo = int(n[2]) if n[2] else 0
            hi = int(n[3]) if n[3] else None
            return self.rep(n[4], i, lo, hi)
        if t == "grp":
            return self.ends(n[5], i)
        if t == "leaf":
            return self.leaf(n[1], n[2], i)
        raise Unsupported(t)

    def leaf(self, n, fl, i):
        s = self.s
        t = n[0]
        L = len(s)
        if t == "^":
            return {i} if i == 0 or (fl & M and s[i - 1] == 10) else set()
        if t == "$":
            return {i} if i == L or (fl & M and s[i] == 10) else set()
        if t == "A":
            return {i} if i == 0 else set()
        if t == "z":
            return {i} if i == L else set()
        if t in ("b", "B"):
            # Go: ASCII word boundary whatever the flags
            wa = i > 0 and is_word(s[i - 1], True)
            wb = i < L and is_word(s[i], True)
            return {i} if (wa != wb) == (t == "b") else set()
        if t == "qt":
            cur = i
            for ch in n[1]:
                if cur >= L or not self.eq(s[cur], ord(ch), fl):
                    return set()
                cur += 1
            return {cur}
        if i >= L:
            return set()
        c = s[i]
        if t == "dot":
            return {i + 1} if (c != 10 or fl & S) else set()
        if t == "cc":
            neg, els = n[1], n[2]
            hit = any(self.test(e, fl, c) for e in els)
            return {i + 1} if hit != bool(neg) else set()
        return {i + 1} if self.test(n, fl, c) else set()

    def eq(self, c, d, fl):
        return c == d or (fl & I and d in fold_orbit(c))

    def test(self, n, fl, c):
        f, neg = class_test(n, fl)
        hit = any(f(x) for x in fold_orbit(c)) if fl & I else f(c)
        return hit != neg


def alphabet(n, acc=None):
    """runes worth putting into subjects for this tree"""
    acc = acc if acc is not None else set()
    t = n[0]
    if t == "cat":
        for e in n[1]:
            alphabet(e, acc)
    elif t == "cc":
        for e in n[2]:
            alphabet(e, acc)
    elif t in ("or", "rng"):
        alphabet(n[1], acc)
        alphabet(n[2], acc)
    elif t in ("q?", "q*", "q+", "qn", "qnm", "grp"):
        alphabet(n[-1], acc)
    elif t == "qt":
        acc |= {ord(c) for c in n[1]}
    else:
        r = rune_of(n)
        if r is not None:
            acc.add(r)
            acc |= {x for x in fold_orbit(r) if x < 0x250 or x in (0x212A,)}
            if t == "rng":
                pass
        elif t in ("w", "W", "b", "B"):
            acc |= {ord("a"), ord("_"), 0xE9, 0x301, 0x663, ord("-"), ord(" "), 0x203F}
        elif t in ("d", "D"):
            acc |= {ord("5"), 0x663, ord("x")}
        elif t in ("s", "S", "h", "H", "v", "V"):
            acc |= {32, 9, 10, 11, 12, 13, 0x85, 0xA0, 0x2003, 0x2028, 0x2029, 0x3000, ord("x")}
        elif t == "p":
            acc |= {ord("a"), ord("Z"), ord("1"), 0x663, ord("_"), ord("!"), 32, 0x301, 0x20AC, 0x3BB, 0x2003}
        elif t == "ncc":
            acc |= {ord("a"), ord("Z"), ord("1"), ord("_"), ord("!"), 32, ord("f")}
        elif t in ("dot", "^", "$"):
            acc |= {10, ord("x")}
    return acc
