"""C27 — REPL sessions behave like batch runs of their accepted inputs."""
import concurrent.futures
import json
import os
import re
import subprocess
import time

import vlib

META = {
    "property_id": "C27",
    "technique": "Lean 4 model of CheckSource's snapshot/check/restore-on-failure with kernel-checked no-trace and session=batch "
                 "theorems (induction on the input history) + real incremental checker/InterpretREPL sessions compared per input "
                 "with batch runs of the accepted inputs (model-free) + differential deep fingerprint of the real Checker against a "
                 "shadow checker fed a canonical rejected input",
    "level_text": "Partial. Proved for every machine, state and history: after a rejected input the four snapshotted components are the "
                  "saved ones (rejected_restores_snapshot, unconditional — this is what CheckSource does); the whole state is unchanged "
                  "and the session's outputs equal the one-program batch of its accepted inputs at every prefix (rejected_no_trace, "
                  "session_skips_rejected, session_eq_batch[_prefix]) under the hypotheses 'a failing check leaves the non-snapshotted "
                  "state untouched' and 'programs compose sequentially'; both hypotheses are proved for a concrete mini machine and "
                  "the first is refuted for a machine with one un-restored counter (partial_snapshot_witness). That the REAL checker's "
                  "snapshot is complete is only tested: generated histories (valid definitions, invalid inputs failing after "
                  "introducing constants/methods/classes/locals, redefinitions, runtime errors) are run in a real REPL session; each "
                  "input is compared with a batch run and, after every rejected input, a reflective deep fingerprint of the Checker "
                  "is compared with a shadow checker in which the rejected input was replaced by `1 + nil`.",
    "level_note": "Trusted: Lean kernel; harness/dom/repl.go (session driver, itself compared per input with repl.evaluate through hook repl/verif_eval.go; fingerprint walker with the reviewed skip-list "
                  "fpSkipFields/fpOnlyFields/fpSkipStructFields); python generator. Batch comparison looks at the last input's "
                  "segment only (definitions are hoisted in a batch program). Not covered: VM stack layout beyond observable output, "
                  "macros defined in rejected inputs, the Go backend. Known findings: DeepCopyEnv conflates the anonymous "
                  "`extend where` mixins of the range classes, so after ANY rejected input `(1...5).iter` may be typed as another "
                  "range's iterator.",
    "design_ref": "DESIGN.md §7 C27",
}

# ---------------------------------------------------------------- histories

def render_item(it, uid=""):
    """constants and top-level methods live in process-global runtime tables: names are unique per history"""
    p = it.split(" ")
    k = p[0]
    if k == "c":
        return f"const C{uid}x{p[1]} = {p[2]}"
    if k == "m":
        return f"def m{uid}x{p[1]}: Int; {p[2]}; end"
    if k == "l":
        return f"l{p[1]} := {p[2]}"
    if k == "uc":
        return f"println(C{uid}x{p[1]})"
    if k == "um":
        return f"println(m{uid}x{p[1]}())"
    if k == "ul":
        return f"println(l{p[1]})"
    if k == "bad":
        return "1 + nil"
    raise ValueError(it)


def gen_model_history(rng):
    """histories over the Mini machine's items (constants, methods, locals, uses, ill-typed items); definitions precede
    uses inside one input (the real checker hoists definitions, the model is sequential)"""
    n = rng.randint(3, 8)
    consts_ok = set()          # constants defined by an ACCEPTED input (real Elk cannot redeclare them)
    defined = {"c": set(), "m": set(), "l": set()}   # what the reference session has
    hist = []
    for _ in range(n):
        defs, uses = [], []
        bad = rng.random() < 0.4
        for _ in range(rng.randint(0, 2)):
            k = rng.choice("cml")
            if k == "c":
                free = [i for i in range(4) if i not in consts_ok and ("c", i) not in [(d[0], int(d.split()[1])) for d in defs]]
                if not free:
                    continue
                defs.append(f"c {rng.choice(free)} {rng.randint(1, 99)}")
            else:
                defs.append(f"{k} {rng.randint(0, 3)} {rng.randint(1, 99)}")
        for _ in range(rng.randint(0, 2)):
            k = rng.choice("cml")
            now = defined[k] | {int(d.split()[1]) for d in defs if d[0] == k}
            if now and rng.random() < 0.75:
                uses.append(f"u{k} {rng.choice(sorted(now))}")
            else:
                uses.append(f"u{k} {rng.randint(0, 3)}")      # possibly undefined: a legitimate rejection
        items = defs + uses
        if bad:
            items.insert(rng.randint(len(defs), len(items)), "bad")
        if not items:
            items = ["ul 0"]
        hist.append(items)
        # reference bookkeeping (python, independent of the Lean model)
        ok = "bad" not in items
        for u in uses:
            k = u[1]
            now = defined[k] | {int(d.split()[1]) for d in defs if d[0] == k}
            if int(u.split()[1]) not in now:
                ok = False
        if ok:
            for d in defs:
                defined[d[0]].add(int(d.split()[1]))
                if d[0] == "c":
                    consts_ok.add(int(d.split()[1]))
    return hist


RICH_VALID = [
    lambda u, r: f"module M{u}; def f(a: Int): Int; a * {r.randint(2, 9)}; end; end",
    lambda u, r: f"class K{u}; def m: Int; {r.randint(1, 9)}; end; end",
    lambda u, r: f"class K{u}; def m: Int; {r.randint(1, 9)}; end; def n: Int; {r.randint(1, 9)}; end; end",
    lambda u, r: f"struct S{u}; a: Int; end",
    lambda u, r: f"mixin X{u}; def g: Int; {r.randint(1, 9)}; end; end; class KX{u}; include X{u}; end",
    lambda u, r: f"def d{u}(a: Int): Int; a + {r.randint(1, 9)}; end",
    lambda u, r: f"v{u} := {r.randint(1, 99)}",
    lambda u, r: f"var w{u}: Int? = nil",
    lambda u, r: f"const Q{u} = \"s{r.randint(1, 9)}\"",
    lambda u, r: f"g{u} := |a: Int|: Int -> a * {r.randint(2, 5)}",
    lambda u, r: f"module U{u}; const UC{u} = {r.randint(1, 99)}; def uf{u}: Int; {r.randint(1, 99)}; end; class UK{u}; def m: Int; 1; end; end; end",
    lambda u, r: f"using U{u}::*",
    lambda u, r: f"using U{u}::*",
]
RICH_USE = [
    lambda u, r: f"println(M{u}.f(3))", lambda u, r: f"println(K{u}().m)", lambda u, r: f"println(K{u}().n)",
    lambda u, r: f"println(S{u}(4).a)", lambda u, r: f"println(KX{u}().g)", lambda u, r: f"println(d{u}(1))",
    lambda u, r: f"println(v{u})", lambda u, r: f"v{u} = v{u} + 1", lambda u, r: f"println(w{u}.inspect)", lambda u, r: f"w{u} = 3",
    lambda u, r: f"println(Q{u})", lambda u, r: f"println(g{u}(2))", lambda u, r: f"v{u} + 1",
    lambda u, r: f"println(UC{u})", lambda u, r: f"println(uf{u}())", lambda u, r: f"println(UK{u}().m)",
    lambda u, r: "var it: ClosedRange::Iterator[Int] = (1...5).iter" if r.random() < 0.15 else "println((1...3).to_a.inspect)"
    if r.random() < 0.3 else f"println(v{u})",
]
# invalid inputs that fail AFTER introducing something
RICH_INVALID = [
    lambda u, r: f"module M{u}; def f(a: Int): Int; a * 2; end; end; z{u} := 1 + nil",
    lambda u, r: f"module M{u}; def f(a: Int): Int; \"s\"; end; end",
    lambda u, r: f"class K{u}; def m: Int; \"s\"; end; def n: Int; 2; end; end",
    lambda u, r: f"class K{u}; def m: Int; 1; end; end; var bad{u}: String = 5",
    lambda u, r: f"const Q{u} = 5; var bad{u}: String = 5",
    lambda u, r: f"def d{u}(a: Int): Int; a + 1; end; d{u}(1, 2)",
    lambda u, r: f"def d{u}(a: Int): Int; \"s\"; end",
    lambda u, r: f"v{u} := 5; v{u} + nil",
    lambda u, r: f"v{u} = \"str\"",
    lambda u, r: f"var w{u}: Int? = nil; w{u} = \"s\"",
    lambda u, r: f"struct S{u}; a: Int; end; S{u}(\"x\")",
    lambda u, r: f"mixin X{u}; def g: Int; 4; end; end; class KX{u}; include X{u}; include Nope{u}; end",
    lambda u, r: f"g{u} := |a: Int|: Int -> a * 2; g{u}(\"s\")",
    lambda u, r: f"class K{u} < Nope{u}; end",
    lambda u, r: f"println(v{u}",        # syntax error
]
RUNTIME_ERR = ["1 / 0", "println(7 / 0)", "[1, 2][5]", "throw unchecked \"boom\""]


def gen_rich_history(rng, uid):
    n = rng.randint(4, 8)
    hist = []
    for _ in range(n):
        u = f"{uid}n{rng.randint(0, 2)}"
        r = rng.random()
        if r < 0.30:
            hist.append(rng.choice(RICH_VALID)(u, rng))
        elif r < 0.60:
            hist.append(rng.choice(RICH_USE)(u, rng))
        elif r < 0.90:
            hist.append(rng.choice(RICH_INVALID)(u, rng))
        else:
            hist.append(rng.choice(RUNTIME_ERR))
    return hist


# ---------------------------------------------------------------- reopening grid

# (member added by the rejected input, an input using it, an input declaring it again differently)
CLASS_MEMBERS = {
    "ivar": ("var @iv: Int?", "class {K}; def riv: Int? then @iv; end", "class {K}; var @iv: String?; end"),
    "attr": ("attr at: Int?", "println(({K}().at == nil).inspect)", "class {K}; attr at: String?; end"),
    "getter": ("getter gt: Int?", "println(({K}().gt == nil).inspect)", "class {K}; getter gt: String?; end"),
    "def": ("def extra: Int; 5; end", "println({K}().extra)", "class {K}; def extra: String; \"s\"; end; end"),
    "const": ("const KC = 3", "println({K}::KC)", "class {K}; const KC = \"s\"; end"),
    "nested": ("class Inner; end", "inner := {K}::Inner(); println(7)", "class {K}; class Inner; def q: Int; 1; end; end; end"),
}
MODULE_MEMBERS = {
    "def": ("def g2: Int; 2; end", "println({K}.g2)", "module {K}; def g2: String; \"s\"; end; end"),
    "const": ("const MC = 4", "println({K}::MC)", "module {K}; const MC = \"s\"; end"),
    "nested": ("class Inner; end", "inner := {K}::Inner(); println(7)", "module {K}; class Inner; def q: Int; 1; end; end; end"),
}
MIXIN_MEMBERS = {
    "def": ("def h: Int; 6; end", "println(KX{U}().h)", "mixin {K}; def h: String; \"s\"; end; end"),
    "ivar": ("var @miv: Int?", "mixin {K}; def rmiv: Int? then @miv; end", "mixin {K}; var @miv: String?; end"),
}


def gen_reopen_histories(rng, uid, full):
    """define a container in an accepted input; a REJECTED input reopens it, adds a member and then fails; later inputs
    use the member (batch: rejected) and declare it again with another type (batch: accepted). Quick: a fixed part of the
    grid (every member kind of a class) + a random part; thorough: the whole grid, both failure placements."""
    grid = []
    for kind, members, define in (
            ("class", CLASS_MEMBERS, "class {K}; def m: Int; 1; end; end"),
            ("module", MODULE_MEMBERS, "module {K}; def f: Int; 1; end; end"),
            ("mixin", MIXIN_MEMBERS, "mixin {K}; def g: Int; 4; end; end; class KX{U}; include {K}; end")):
        for mk in members:
            for fail in ("after", "inside"):
                grid.append((kind, members, define, mk, fail))
    fixed = [g for g in grid if g[0] == "class" and g[4] == "after"]
    rest = [g for g in grid if g not in fixed]
    chosen = grid if full else fixed + rng.sample(rest, 3)
    out = []
    for n, (kind, members, define, mk, fail) in enumerate(chosen):
        U = f"{uid}r{n}"
        K = {"class": "RK", "module": "RM", "mixin": "RX"}[kind] + U
        f = lambda t: t.replace("{K}", K).replace("{U}", U)
        member, use, redecl = members[mk]
        if fail == "after":
            bad = f"{kind} {K}; {member}; end; 1 + nil"
        else:
            bad = f"{kind} {K}; {member}; def broken{n}: Int; \"s\"; end; end"
        alive = {"class": f"println({K}().m)", "module": f"println({K}.f)", "mixin": f"println(KX{U}().g)"}[kind]
        h = [f(define), bad, f(use)]
        if rng.random() < 0.5 or full:
            h.append(f(redecl))
        h.append(alive)
        out.append(h)
    return out


def gen_deferred_histories(uid):
    """declarations whose checking is deferred (typed constants, typedefs, class headers) around a rejected input: the
    checker memoises copies of its scope stacks for them. Each history runs in a worker process of its own."""
    out = []
    U = f"{uid}z"
    out.append([f"def five{U}: Int; 5; end",
                f"const Ghost{U}: Int = five{U}(); nope{U}()",
                f"const B{U}: Int = Ghost{U} + five{U}()",
                f"const C{U}: Int = five{U}()",
                f"const D{U}: Int = C{U} + five{U}()",
                f"println(D{U}.inspect)"])
    out.append([f"def six{U}: Int; 6; end",
                f"typedef TG{U} = Int; nope{U}()",
                f"var xg{U}: TG{U} = 1",
                f"def seven{U}: Int; 7; end",
                f"const E{U}: Int = seven{U}() + six{U}()",
                f"println(E{U}.inspect)"])
    out.append([f"class RG{U}; def m: Int; 1; end; end",
                f"class RH{U} < RG{U}; end; const GH{U}: Int = 1; nope{U}()",
                f"println(RH{U}().m)",
                f"class RI{U} < RG{U}; def n: Int; 2; end; end",
                f"const F{U}: Int = RI{U}().n + RG{U}().m",
                f"println(F{U}.inspect)"])
    return out


# ---------------------------------------------------------------- execution

def run_sessions(reqs, workers=4, timeout=900, sub="repl"):
    if not reqs:
        return []
    chunks = [reqs[i::workers] for i in range(workers)]

    def one(i):
        out = []
        rest = chunks[i]
        env = vlib.go_env()
        env.setdefault("GOMEMLIMIT", "6GiB")
        guard = 0
        while rest:
            data = "".join(json.dumps(r) + "\n" for r in rest)
            try:
                p = subprocess.run([vlib.ELKH, sub], input=data, stdout=subprocess.PIPE, stderr=subprocess.PIPE,
                                   text=True, env=env, timeout=timeout)
                lines, err = [l for l in p.stdout.splitlines() if l.strip()], p.stderr
            except subprocess.TimeoutExpired:
                lines, err = [], "timeout"
            got = []
            for l in lines:
                try:
                    got.append(json.loads(l))
                except ValueError:
                    break
            out += got
            if len(got) >= len(rest):
                break
            if got and got[-1].get("outcome") == "timeout":
                rest = rest[len(got):]      # worker recycled itself
                continue
            out.append({"id": rest[len(got)]["id"], "steps": [], "texts": [], "outcome": "fatal", "panic": vlib.classify_fatal(err)})
            rest = rest[len(got) + 1:]
            guard += 1
            if guard > 50:
                raise RuntimeError("repl worker keeps dying")
        return out
    res = [None] * workers
    with concurrent.futures.ThreadPoolExecutor(workers) as ex:
        for i, r in enumerate(ex.map(one, range(workers))):
            res[i] = r
    out = [None] * len(reqs)
    for i in range(workers):
        for j, r in enumerate(res[i]):
            out[i + j * workers] = r
    return out


def run_batches(reqs, workers=4):
    if not reqs:
        return []
    chunks = [reqs[i::workers] for i in range(workers)]
    with concurrent.futures.ThreadPoolExecutor(workers) as ex:
        res = list(ex.map(lambda c: vlib.run_programs(c) if c else [], chunks))
    out = [None] * len(reqs)
    for i in range(workers):
        for j, r in enumerate(res[i]):
            out[i + j * workers] = r
    return out


MARK = "<<<C27:%d>>>"


def batch_source(prev, cur, idx):
    parts = []
    for j, s in prev:
        parts.append(f'println("{MARK % j}")\n{s}')
    parts.append(f'println("{MARK % idx}")\n{cur}')
    return "\n".join(parts) + "\n"


def norm_result(r):
    """source locations inside inspected values (closures) name the source file: not comparable"""
    return re.sub(r"location: [^,}]*", "location: _", r or "")


def session_obs(step):
    if not step["accepted"]:
        return ("rejected", "", "")
    if step.get("panic"):
        return ("panic", step["panic"][:80], step.get("stdout", ""))
    if step.get("err_class"):
        return ("error", step["err_class"], step.get("stdout", ""))
    return ("value", norm_result(step.get("result", "")), step.get("stdout", ""))


ANSI_RE = re.compile(r"\x1b\[[0-9;]*m")


def real_repl_obs(text):
    """what repl.evaluate printed for one input -> comparable observation"""
    t = ANSI_RE.sub("", text)
    m = re.search(r"(?s)^(.*)=> (.*)\n\n$", t)
    if m:
        return ("value", norm_result(m.group(2)), m.group(1))
    if "[FAIL]" in t:
        return ("rejected", "", "")
    m = re.search(r"(?s)^(.*?)Stack trace \(the most recent call is last\).*Uncaught error (\S+): ", t)
    if m:
        return ("error", m.group(2), m.group(1))
    m = re.search(r"(?s)^(.*?)Stack trace \(the most recent call is last\).*Uncaught thrown value", t)
    if m:
        return ("error", "thrown", m.group(1))
    return ("unrecognised", t[:120], "")


def batch_obs(ans, idx):
    if ans.get("rejected"):
        return ("rejected", "", "")
    out = ans.get("stdout", "")
    m = MARK % idx + "\n"
    seg = out.split(m, 1)[1] if m in out else None
    o = ans.get("outcome")
    if seg is None:
        return (o + "-before-input", ans.get("err_class", "") or ans.get("panic", "")[:60], "")
    if o == "error":
        return ("error", ans.get("err_class", ""), seg)
    if o in ("panic", "fatal", "timeout"):
        return (o, (ans.get("panic") or "")[:80], seg)
    return ("value", norm_result(ans.get("result", "")), seg)


TRACE_CLASS_RE = [
    (re.compile(r"Std::[A-Za-z]*Range\]\.parent\(\*types\.MixinWithWhere\).*"), "Std::*Range].parent(*types.MixinWithWhere)"),
]


def trace_class(path):
    p = path[1:] if path[:1] in "~+-" else path
    for rx, rep in TRACE_CLASS_RE:
        if rx.search(p):
            return rx.sub(rep, p)
    # first four components of the bucket path
    parts = re.split(r"(?=[.\[])", p)
    return "".join(parts[:4])


def evaluate(histories, ids, fingerprint=True, timeout_ms=60000):
    """-> list of records {history, steps, failures:[(kind, detail, input)]}"""
    reqs = [{"id": i, "inputs": h, "fingerprint": fingerprint, "timeout_ms": timeout_ms} for i, h in zip(ids, histories)]
    sess = run_sessions(reqs)
    # a timeout on a loaded machine is not evidence: retry alone with a generous limit
    for k, a in enumerate(sess):
        if a.get("outcome") == "timeout":
            sess[k] = run_sessions([dict(reqs[k], timeout_ms=240000)], workers=1)[0]
    # the REPL's own evaluate function (repl/repl.go) on the same histories
    real = run_sessions([{"id": i, "inputs": h, "timeout_ms": timeout_ms} for i, h in zip(ids, histories)], sub="replreal")
    for k, a in enumerate(real):
        if a.get("outcome") == "timeout":
            real[k] = run_sessions([{"id": ids[k], "inputs": histories[k], "timeout_ms": 240000}], workers=1, sub="replreal")[0]
    breqs, bmap = [], []
    for hi, (h, a) in enumerate(zip(histories, sess)):
        prev = []
        for si, (src, st) in enumerate(zip(h, a.get("steps", []))):
            breqs.append({"id": f"b{hi}_{si}", "src": batch_source(prev, src, si), "timeout_ms": 8000})
            bmap.append((hi, si))
            if st["accepted"] and not st.get("err_class") and not st.get("panic"):
                prev = prev + [(si, src)]
    bans = run_batches(breqs)
    for k, b in enumerate(bans):
        if b.get("outcome") == "timeout":
            bans[k] = vlib.run_programs([dict(breqs[k], timeout_ms=60000)])[0]
    bidx = {key: (b, rq["src"]) for key, b, rq in zip(bmap, bans, breqs)}
    recs = []
    for hi, (h, a) in enumerate(zip(histories, sess)):
        fails = []
        if a.get("outcome") in ("timeout", "fatal"):
            fails.append(("host-crash", f"REPL session {a.get('outcome')}: {a.get('panic', '')} after {len(a.get('steps', []))} inputs",
                          {"history": h[:len(a.get("steps", [])) + 1]}))
        ra = real[hi]
        if ra.get("outcome") != "ok":
            fails.append(("host-crash", f"repl.evaluate: {ra.get('outcome')} {ra.get('panic', '')} after {len(ra.get('texts', []))} inputs",
                          {"history": h[:len(ra.get("texts", [])) + 1]}))
        for si, (st, txt) in enumerate(zip(a.get("steps", []), ra.get("texts", []))):
            ro, so = real_repl_obs(txt), session_obs(st)
            if so[0] == "error" and ro[0] == "error" and ro[1] == "thrown":
                ro = ("error", so[1], ro[2])
            if ro != so and not st.get("panic"):
                fails.append(("repl-evaluate-differs",
                              f"input #{si} {h[si]!r}: repl.evaluate printed {ro} but an incremental checker + InterpretREPL session driven "
                              f"the way evaluate is documented gives {so}", {"history": h[:si + 1], "trace": "evaluate"}))
                break
        for si, st in enumerate(a.get("steps", [])):
            if st.get("panic"):
                fails.append(("host-crash", f"Go panic in the {st.get('stage')} stage of input #{si}: {st['panic']}", {"history": h[:si + 1]}))
                continue
            so = session_obs(st)
            b, bsrc = bidx[(hi, si)]
            bo = batch_obs(b, si)
            if so != bo:
                what = "session rejects an input the batch program accepts" if so[0] == "rejected" else \
                       "session accepts an input the batch program rejects" if bo[0] == "rejected" else "output differs"
                fails.append(("session-differs-from-batch",
                              f"input #{si} {h[si]!r}: {what}; session {so} diags={[d['msg'].splitlines()[0][:90] for d in st['diags']][:2]}; "
                              f"batch of the accepted inputs {bo} diags={[d['msg'].splitlines()[0][:90] for d in b.get('diags', [])][:2]}",
                              {"history": h[:si + 1], "batch": bsrc}))
            if not st["accepted"]:
                classes = sorted({trace_class(p) for p in st.get("fp_diff", []) if not p.startswith("…")})
                for c in classes:
                    fails.append(("rejected-input-leaves-trace",
                                  f"after rejected input #{si} {h[si]!r} the checker differs from the shadow checker (canonical rejected input instead), at {c} "
                                  f"({[p for p in st['fp_diff'] if trace_class(p) == c][:3]})",
                                  {"history": h[:si + 1], "trace": c}))
                if st.get("shadow"):
                    fails.append(("rejected-input-leaves-trace", f"input #{si}: {st['shadow']}", {"history": h[:si + 1], "trace": "shadow-verdict"}))
            elif st.get("shadow"):
                fails.append(("rejected-input-leaves-trace",
                              f"accepted input #{si} {h[si]!r}: {st['shadow']} — an earlier rejected input left something behind",
                              {"history": h[:si + 1], "trace": "shadow-verdict"}))
        recs.append({"history": h, "session": a, "fails": fails})
    return recs


def shrink(history, kind, trace, wall=40.0):
    """drop inputs (never the last) while the same failure is still reported for the last input"""
    t0 = time.time()
    cur = list(history)
    n = [0]

    def fails(h):
        n[0] += 1
        r = evaluate([h], [f"sh{n[0]}"])[0]
        return any(k == kind and inp.get("trace") == trace and len(inp["history"]) == len(h) for k, _, inp in r["fails"])
    i = 0
    while i < len(cur) - 1 and time.time() - t0 < wall:
        cand = cur[:i] + cur[i + 1:]
        if fails(cand):
            cur = cand
        else:
            i += 1
    return cur


def model_line(h):
    return "repl\trun\t" + "|".join(";".join(items) for items in h)


def run(ctx):
    ctx.rule = ("REPL histories of 3-8 inputs: (a) over the mini machine's items (constants, methods, locals, uses, ill-typed items; "
                "also compared with the Lean session model), (b) rich Elk inputs (modules, classes, structs, mixins, closures, "
                "redefinitions, invalid inputs that fail after introducing definitions, runtime errors), (c) a grid of rejected inputs that "
                "REOPEN a class/module/mixin defined earlier and add an instance variable/attr/getter/method/constant/nested class "
                "before failing, followed by uses and redeclarations; distinct = distinct "
                "history; non-trivial = contains a rejected input followed by another input")
    ctx.prove("ElkVerif.Props.C27")
    if ctx.replay:
        inp = json.load(open(ctx.replay))["input"]
        hs, model_hs = [inp["history"]], []
    else:
        nm, nr = ctx.n(8, 80), ctx.n(10, 160)
        model_hs = [gen_model_history(ctx.rng) for _ in range(nm)]
        corpus = corpus_histories()
        hs = corpus + [["\n".join(render_item(it, f"{ctx.seed}q{k}") for it in items) for items in h] for k, h in enumerate(model_hs)] \
            + [gen_rich_history(ctx.rng, f"{ctx.seed}h{i}") for i in range(nr)] \
            + gen_reopen_histories(ctx.rng, f"{ctx.seed}", not ctx.quick)
    nc = 0 if ctx.replay else len(corpus)
    ok_batch, ok_model, reported = True, True, 0
    model_ans = vlib.run_model([model_line(h) for h in model_hs]) if model_hs else []
    B = 24
    for off in range(0, len(hs), B):
        part = hs[off:off + B]
        recs = evaluate(part, [f"{ctx.seed}s{off + i}" for i in range(len(part))])
        for k, rec in enumerate(recs):
            gi = off + k
            steps = rec["session"].get("steps", [])
            rej = [i for i, s in enumerate(steps) if not s["accepted"]]
            ctx.case(tuple(rec["history"]), nontrivial=bool(rej) and rej[0] < len(steps) - 1,
                     sample={"history": rec["history"][:6], "verdicts": ["acc" if s["accepted"] else "rej" for s in steps]})
            for s in steps:
                ctx.stat("input:" + ("accepted" if s["accepted"] else "rejected") + (":runtime-error" if s.get("err_class") else ""))
            # third opinion: the Lean session model on model-able histories
            mi = gi - nc
            if not ctx.replay and 0 <= mi < len(model_hs) and rec["session"].get("outcome") == "ok":
                got = "ok " + "|".join(("acc " + ",".join(s["stdout"].split())) if s["accepted"] else "rej" for s in steps)
                if got != model_ans[mi]:
                    ok_model = False
                    if not rec["fails"]:
                        ctx.violation("model-impl-disagree", {"history": rec["history"], "line": model_line(model_hs[mi])},
                                      f"session {got!r} vs Lean model {model_ans[mi]!r}; the batch oracle found no failure", no_input=True)
            for kind, detail, inp in rec["fails"]:
                if reported >= 5:
                    ok_batch = False
                    continue
                reported += 1
                h2 = inp["history"]
                if kind in ("session-differs-from-batch", "rejected-input-leaves-trace", "repl-evaluate-differs") and len(h2) > 1 and not ctx.replay:
                    small = shrink(h2, kind, inp.get("trace"))
                    r2 = evaluate([small], ["fin"])[0]
                    hit = [(k2, d2, i2) for k2, d2, i2 in r2["fails"] if k2 == kind and i2.get("trace") == inp.get("trace")]
                    if hit:
                        kind, detail, inp = hit[-1]
                if ctx.violation(kind, inp, detail):
                    ok_batch = False
                else:
                    reported -= 1
    if not ctx.replay:
        for k, h in enumerate(gen_deferred_histories(f"{ctx.seed}")):
            rec = evaluate([h], [f"{ctx.seed}d{k}"])[0]
            ctx.case(tuple(h), nontrivial=True, sample={"history": h[:6]})
            ctx.stat("deferred-declaration-histories")
            for kind, detail, inp in rec["fails"]:
                if ctx.violation(kind, inp, detail):
                    ok_batch = False
    ctx.obligation(f"real REPL session = batch of accepted inputs, rejected inputs leave no trace, on {len(hs)} generated histories",
                   ok_batch, "correspondence")
    if model_hs:
        ctx.obligation(f"real REPL session = Lean session model on {len(model_hs)} histories over the mini machine's items",
                       ok_model, "correspondence")


def corpus_histories():
    d = os.path.join(vlib.ROOT, "corpus", "C27")
    out = []
    if os.path.isdir(d):
        for f in sorted(os.listdir(d)):
            if f.endswith(".json"):
                out += [json.loads(l) for l in open(os.path.join(d, f)) if l.strip() and not l.startswith("#")]
    return out
