import Driver.Registry
/-! `elkmodel`: one tab-separated operation per input line, one answer line per input line. -/
open Driver

def answer (line : String) : String :=
  match splitTab line with
  | dom :: rest =>
    match handlers.lookup dom with
    | some h => h rest
    | none => "bad-domain"
  | [] => "bad-domain"

partial def loop (hin : IO.FS.Stream) (hout : IO.FS.Stream) : IO Unit := do
  let line ← hin.getLine
  if line.isEmpty then return ()
  let line := stripEOL line
  hout.putStrLn (answer line)
  loop hin hout

def main : IO Unit := do
  let hin ← IO.getStdin
  let hout ← IO.getStdout
  loop hin hout
  hout.flush
