import ElkVerif.Model.Utf8
import Driver.Util
/-! hex / list helpers shared by the `str` and `insp` driver domains (core Lean only) -/
namespace Driver.StrUtil
open Elk.Utf8

def hexNib (c : Char) : Option Nat :=
  if '0' ≤ c ∧ c ≤ '9' then some (c.toNat - '0'.toNat)
  else if 'a' ≤ c ∧ c ≤ 'f' then some (c.toNat - 'a'.toNat + 10)
  else if 'A' ≤ c ∧ c ≤ 'F' then some (c.toNat - 'A'.toNat + 10)
  else none

def unhexList : List Char → Option Bytes
  | [] => some []
  | a :: b :: rest => do
    let x ← hexNib a
    let y ← hexNib b
    let r ← unhexList rest
    pure (UInt8.ofNat (x * 16 + y) :: r)
  | _ => none

/-- `-` is the empty byte string -/
def unhex (s : String) : Option Bytes := if s == "-" then some [] else unhexList s.toList

def nibChar (n : Nat) : Char := if n < 10 then Char.ofNat (48 + n) else Char.ofNat (87 + n)

def hexs (bs : Bytes) : String :=
  if bs.isEmpty then "-" else String.ofList (bs.flatMap fun b => [nibChar (b.toNat / 16), nibChar (b.toNat % 16)])

/-- comma separated list of hex strings, `-` = empty list -/
def unhexMany (s : String) : Option (List Bytes) :=
  if s == "-" then some [] else Driver.optAll ((s.splitOn ",").map unhex)

def hexMany (xs : List Bytes) : String :=
  if xs.isEmpty then "-" else Driver.joinWith "," (xs.map hexs)

def natList (xs : List Nat) : String :=
  if xs.isEmpty then "-" else Driver.joinWith "," (xs.map toString)

end Driver.StrUtil
