/-! tiny s-expression reader for the driver (atoms, "strings", lists) -/
namespace Driver

inductive Sexp where
  | atom (s : String)
  | str (s : String)
  | list (xs : List Sexp)
deriving Inhabited, Repr

namespace Sexp

partial def parseList (cs : List Char) (acc : List Sexp) : Option (List Sexp × List Char) :=
  match cs with
  | [] => none
  | ')' :: rest => some (acc.reverse, rest)
  | c :: rest =>
    if c == ' ' then parseList rest acc
    else if c == '(' then
      match parseList rest [] with
      | some (xs, rest') => parseList rest' (.list xs :: acc)
      | none => none
    else if c == '"' then
      let s := rest.takeWhile (· != '"')
      let rest' := (rest.dropWhile (· != '"')).drop 1
      parseList rest' (.str (String.ofList s) :: acc)
    else
      let tok := (c :: rest).takeWhile (fun d => d != ' ' && d != '(' && d != ')')
      parseList ((c :: rest).dropWhile (fun d => d != ' ' && d != '(' && d != ')')) (.atom (String.ofList tok) :: acc)

def parse (s : String) : Option Sexp :=
  match parseList (s.toList ++ [')']) [] with
  | some ([x], []) => some x
  | _ => none

end Sexp
end Driver
