import ElkVerif.Model.Inspect
import ElkVerif.Model.Ranges
import ElkVerif.Gen.Unicode
import Driver.StrUtil
/-! domain `insp` (C19). One operation per line:
```
insp str <hex bytes>      ok <hex inspect output> <hex of the string read back | !none>
insp chr <rune>           ok <hex inspect output> <rune read back | !none>
insp sym <hex name>       ok <hex inspect output> <hex name read back | !none>
insp int <decimal>        ok <hex inspect output> <decimal read back | !none>
insp lit <hex source>     ok <decimal> | err            integer literal, any base, `_` separators
insp toint <hex> <base>   ok <decimal> | err Format     String#to_int
insp sweep str|sym|chr|byte|symbyte <lo> <hi>
                          ok n=<count> h=<fnv64a of all inspect outputs> bad=<first input not read back|->
```
The Unicode predicates are the probed tables of `ElkVerif/Gen/Unicode.lean`. -/
namespace Driver.Dom.Insp
open Elk.Inspect Elk.Utf8 Driver Driver.StrUtil

def tag : String := "insp"

def graphicA : Array (Nat × Nat) := Elk.Gen.Unicode.graphic.toArray
def letterA : Array (Nat × Nat) := Elk.Gen.Unicode.letter.toArray
def digitA : Array (Nat × Nat) := Elk.Gen.Unicode.digit.toArray
def numberA : Array (Nat × Nat) := Elk.Gen.Unicode.number.toArray
def upperA : Array (Nat × Nat) := Elk.Gen.Unicode.upper.toArray
def lowerA : Array (Nat × Nat) := Elk.Gen.Unicode.lower.toArray

def U : Cls where
  graphic := Elk.Ranges.memA graphicA
  letter := Elk.Ranges.memA letterA
  digit := Elk.Ranges.memA digitA
  number := Elk.Ranges.memA numberA
  upper := Elk.Ranges.memA upperA
  lower := Elk.Ranges.memA lowerA

def rtStr (bs : Bytes) : Bytes × Option Bytes :=
  let ins := inspectString U.graphic bs
  (ins, readString U.letter ins)

def rtSym (bs : Bytes) : Bytes × Option Bytes :=
  let ins := inspectSymbol U bs
  (ins, readSymbol U ins)

def rtChr (c : Nat) : Bytes × Option Nat :=
  let ins := inspectChar U.graphic c
  (ins, readChar ins)

def showBack {α} (f : α → String) : Option α → String
  | some a => f a
  | none => "!none"

def fnvStep (h : UInt64) (b : UInt8) : UInt64 := (h ^^^ b.toUInt64) * 1099511628211

def fnvBytes (h : UInt64) (bs : Bytes) : UInt64 := bs.foldl fnvStep h

def hex16 (h : UInt64) : String :=
  String.ofList ((List.range 16).map fun i => nibChar ((h.toNat / 16 ^ (15 - i)) % 16))

/-- the inputs of a sweep, as the harness enumerates them -/
def sweepArgs (kind : String) (lo hi : Nat) : List Nat :=
  (List.range (hi - lo)).map (· + lo) |>.filter fun c =>
    !((kind == "str" || kind == "sym" || kind == "chr") && 0xD800 ≤ c && c ≤ 0xDFFF)

def sweepBytes (hi c : Nat) : Bytes :=
  if hi ≤ 256 then [UInt8.ofNat c] else [UInt8.ofNat (c / 256), UInt8.ofNat c]

def sweep (kind : String) (lo hi : Nat) : String := Id.run do
  let mut h : UInt64 := 14695981039346656037
  let mut bad : String := "-"
  let mut n := 0
  for c in sweepArgs kind lo hi do
    n := n + 1
    if kind == "chr" then
      let (ins, back) := rtChr c
      h := fnvStep (fnvBytes h ins) 10
      if bad == "-" && back != some c then bad := toString c
    else
      let bs := if kind == "byte" || kind == "symbyte" then sweepBytes hi c else encodeRune c
      let (ins, back) := if kind == "sym" || kind == "symbyte" then rtSym bs else rtStr bs
      h := fnvStep (fnvBytes h ins) 10
      if bad == "-" && back != some bs then bad := hexs bs
  return s!"ok n={n} h={hex16 h} bad={bad}"

def handle : List String → String
  | ["str", s] => match unhex s with
    | some bs => let (i, b) := rtStr bs; s!"ok {hexs i} {showBack hexs b}"
    | none => "bad-op"
  | ["sym", s] => match unhex s with
    | some bs => let (i, b) := rtSym bs; s!"ok {hexs i} {showBack hexs b}"
    | none => "bad-op"
  | ["chr", d] => match parseNat? d with
    | some c => let (i, b) := rtChr c; s!"ok {hexs i} {showBack toString b}"
    | none => "bad-op"
  | ["int", d] => match parseInt? d with
    | some n => let i := Elk.Inspect.showInt n; s!"ok {hexs i} {showBack (fun (v : Int) => toString v) (readInt i)}"
    | none => "bad-op"
  | ["lit", s] => match unhex s with
    | some src => match readInt src with   -- a literal, or a unary minus applied to one (constant-folded by compiler/resolve.go)
      | some v => s!"ok {v}"
      | none => "err"
    | none => "bad-op"
  | ["toint", s, b] => match unhex s, parseInt? b with
    | some bs, some base => match parseBigInt bs base with
      | .ok v => s!"ok {v}"
      | .error _ => "err Format"
    | _, _ => "bad-op"
  | ["batch", kind, items] =>
    let one (it : String) : Option String :=
      match kind with
      | "str" => (unhex it).map fun bs => let (i, b) := rtStr bs; s!"{hexs i}:{showBack hexs b}"
      | "sym" => (unhex it).map fun bs => let (i, b) := rtSym bs; s!"{hexs i}:{showBack hexs b}"
      | "chr" => (parseNat? it).map fun c => let (i, b) := rtChr c; s!"{hexs i}:{showBack toString b}"
      | "int" => (parseInt? it).map fun n =>
          let i := Elk.Inspect.showInt n; s!"{hexs i}:{showBack (fun (v : Int) => toString v) (readInt i)}"
      | "lit" => (unhex it).map fun src => showBack (fun (v : Int) => toString v) (readInt src)
      | _ => none
    match optAll ((items.splitOn ",").map one) with
    | some rs => "ok " ++ joinWith "," rs
    | none => "bad-op"
  | ["sweep", kind, lo, hi] => match parseNat? lo, parseNat? hi with
    | some lo, some hi =>
      if kind ∈ ["str", "sym", "chr", "byte", "symbyte"] ∧ lo ≤ hi then sweep kind lo hi else "bad-op"
    | _, _ => "bad-op"
  | _ => "bad-op"

end Driver.Dom.Insp
