import ElkVerif.Model.Repl
import Driver.Util
/-! domain `repl` (C27): `repl<TAB>run<TAB>history`; history = inputs separated by `|`, items of an
input separated by `;`; item = `c N V` constant, `m N V` method (re)definition, `l N V` local,
`uc N` / `um N` / `ul N` uses (print), `bad` an ill-typed item.
answer: `ok r1|r2|…` with `rej` or `acc v1,v2,…` per input (the session of `Elk.Repl.Mini.machine`) -/
namespace Driver.Dom.Repl
open Elk.Repl Elk.Repl.Mini Driver

def tag : String := "repl"

def parseItem (s : String) : Option Item :=
  match s.splitOn " " with
  | ["c", n, v] => do pure (.defConst (← parseNat? n) (← parseInt? v))
  | ["m", n, v] => do pure (.defMethod (← parseNat? n) (← parseInt? v))
  | ["l", n, v] => do pure (.defLocal (← parseNat? n) (← parseInt? v))
  | ["uc", n] => do pure (.useConst (← parseNat? n))
  | ["um", n] => do pure (.useMethod (← parseNat? n))
  | ["ul", n] => do pure (.useLocal (← parseNat? n))
  | ["bad"] => some .bad
  | _ => none

def parseInput (s : String) : Option (List Item) := optAll ((splitOnNE s ";").map parseItem)

def showRes : Option (List Int) → String
  | none => "rej"
  | some vs => "acc " ++ joinWith "," (vs.map showInt)

def handle : List String → String
  | ["run", hist] =>
    match optAll ((splitOnNE hist "|").map parseInput) with
    | some h => "ok " ++ joinWith "|" ((session machine init h).map showRes)
    | none => "bad-op"
  | _ => "bad-op"

end Driver.Dom.Repl
