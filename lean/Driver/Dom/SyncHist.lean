import ElkVerif.Model.ChanHist
import Driver.Util
/-! domain `hs` (C25): `hs<TAB>check<TAB>rec;rec;…` runs the certified history checker `okHistory`
(`C25.okHistory_sound`) on a history recorded by `elkh systress`. answer `ok true` / `ok false`. -/
namespace Driver.Dom.SyncHist
open Elk.Chan Driver

def tag : String := "hs"

def parseRec (s : String) : Option HRec :=
  match s.splitOn " " with
  | ["pb", a, c, v] => do pure (.pb (← parseNat? a) (← parseNat? c) (← parseNat? v))
  | ["pe", a, c, v, r] => do pure (.pe (← parseNat? a) (← parseNat? c) (← parseNat? v) (r == "ok"))
  | ["ge", a, c, v] => do pure (.ge (← parseNat? a) (← parseNat? c) (← parseNat? v))
  | ["gx", a, c, _] => do pure (.gx (← parseNat? a) (← parseNat? c))
  | ["cb", a, c] => do pure (.cb (← parseNat? a) (← parseNat? c))
  | ["ce", a, c, r] => do pure (.ce (← parseNat? a) (← parseNat? c) (r == "ok"))
  | ["en", a, m] => do pure (.en (← parseNat? a) (← parseNat? m))
  | ["lv", a, m] => do pure (.lv (← parseNat? a) (← parseNat? m))
  | ["ren", a, m] => do pure (.ren (← parseNat? a) (← parseNat? m))
  | ["rlv", a, m] => do pure (.rlv (← parseNat? a) (← parseNat? m))
  | ["ob", a, o] => do pure (.ob (← parseNat? a) (← parseNat? o))
  | ["or", a, o] => do pure (.orr (← parseNat? a) (← parseNat? o))
  | ["wa", a, w, k] => do pure (.wa (← parseNat? a) (← parseNat? w) (← parseNat? k))
  | ["wd", a, w] => do pure (.wd (← parseNat? a) (← parseNat? w))
  | ["wb", a, w] => do pure (.wb (← parseNat? a) (← parseNat? w))
  | ["wr", a, w] => do pure (.wr (← parseNat? a) (← parseNat? w))
  | _ => none

def handle : List String → String
  | ["check", recs] =>
    match optAll ((splitOnNE recs ";").map parseRec) with
    | some h => s!"ok {okHistory h}"
    | none => "bad-op"
  | _ => "bad-op"

end Driver.Dom.SyncHist
