import ElkVerif.Model.Hygiene
import Driver.Util
/-! domain `hyg` (C31): `hyg<TAB>run<TAB>ops(;)`
ops: `n d|m|c` pushNested default/macroBoundary/conditional, `i` pushIsolated, `p` pop,
`a NAME ID` addLocal, `r NAME 0|1` resolveLocal (hygienic/unhygienic), `g NAME` getLocal.
The run starts from the checker's initial stack (one isolated default environment).
answer: `ok <len(localEnvs)> | q1,q2,…` with `ID@ENVINDEX:NESTED` / `none` per query, or `panic` -/
namespace Driver.Dom.Hygiene
open Elk.Hygiene Driver

def tag : String := "hyg"

inductive Item where
  | op (o : Op)
  | res (n : Name) (u : Bool)
  | get (n : Name)

def parseItem (s : String) : Option Item :=
  match s.splitOn " " with
  | ["n", "d"] => some (.op (.pushNested .default))
  | ["n", "m"] => some (.op (.pushNested .macroBoundary))
  | ["n", "c"] => some (.op (.pushNested .conditional))
  | ["i"] => some (.op .pushIsolated)
  | ["p"] => some (.op .pop)
  | ["a", n, l] => do pure (.op (.add (← parseNat? n) (← parseNat? l)))
  | ["r", n, u] => do pure (.res (← parseNat? n) (u == "1"))
  | ["g", n] => do pure (.get (← parseNat? n))
  | _ => none

def showHit (s : Stack) : Option Hit → String
  | none => "none"
  | some h => s!"{h.loc}@{s.length - 1 - h.depth}:{if h.nested then 1 else 0}"

/-- queries on an empty stack are a Go panic (`currentLocalEnv` indexes `localEnvs[-1]`) -/
def exec : List Item → Stack → List String → Option (Stack × List String)
  | [], s, acc => some (s, acc.reverse)
  | .op o :: rest, s, acc =>
    match step s o with
    | some s' => exec rest s' acc
    | none => none
  | .res n u :: rest, s, acc =>
    if s.isEmpty then none else exec rest s (showHit s (resolve n u s) :: acc)
  | .get n :: rest, s, acc =>
    match s with
    | [] => none
    | f :: _ =>
      exec rest s ((match lookup n f.locals with | some l => toString l | none => "none") :: acc)

def handle : List String → String
  | ["run", ops] =>
    match optAll ((splitOnNE ops ";").map parseItem) with
    | some items =>
      match exec items [⟨.default, false, []⟩] [] with
      | some (s, ans) => s!"ok {s.length} | {joinWith "," ans}"
      | none => "panic"
    | none => "bad-op"
  | _ => "bad-op"

end Driver.Dom.Hygiene
