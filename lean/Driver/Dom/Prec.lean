import ElkVerif.Model.Prec
import ElkVerif.Gen.Prec
import Driver.Util
/-! domain `prec` (C05): `prec<TAB>rt<TAB>tree`

tree in prefix notation, space separated: an identifier is an atom; `u:<op> E` unary, `p:<op> E`
postfix, `b:<op> E E` binary, `l:<op> E E` logical, `r:<op> E E` range, `ro:<op> E` endless range,
`as:<Const> E`.
answer: `ok <printed text> => <tree of parse (print e)>`, `!` instead of the tree when it does not parse.
The table is `Elk.Gen.Prec.exprTable` (probed from the real code). -/
namespace Driver.Dom.Prec
open Elk.Prec Driver

def tag : String := "prec"

def splitTag (s : String) : Option (String × String) :=
  match s.splitOn ":" with
  | [_] => none
  | t :: rest => some (t, ":".intercalate rest)
  | [] => none

def parseTree : Nat → List String → Option (E × List String)
  | 0, _ => none
  | _, [] => none
  | fuel + 1, t :: rest =>
    match splitTag t with
    | none => some (.atom t, rest)
    | some ("u", o) => do let (e, r) ← parseTree fuel rest; pure (.un o e, r)
    | some ("p", o) => do let (e, r) ← parseTree fuel rest; pure (.post e o, r)
    | some ("ro", o) => do let (e, r) ← parseTree fuel rest; pure (.rngOpen o e, r)
    | some ("as", c) => do let (e, r) ← parseTree fuel rest; pure (.as e c, r)
    | some ("b", o) => do
      let (l, r) ← parseTree fuel rest
      let (r', r2) ← parseTree fuel r
      pure (.bin .bin o l r', r2)
    | some ("l", o) => do
      let (l, r) ← parseTree fuel rest
      let (r', r2) ← parseTree fuel r
      pure (.bin .logic o l r', r2)
    | some ("r", o) => do
      let (l, r) ← parseTree fuel rest
      let (r', r2) ← parseTree fuel r
      pure (.rng o l r', r2)
    | _ => none

def showTree : E → String
  | .atom n => n
  | .un o e => s!"u:{o} {showTree e}"
  | .post e o => s!"p:{o} {showTree e}"
  | .bin .bin o l r => s!"b:{o} {showTree l} {showTree r}"
  | .bin .logic o l r => s!"l:{o} {showTree l} {showTree r}"
  | .rng o l r => s!"r:{o} {showTree l} {showTree r}"
  | .rngOpen o l => s!"ro:{o} {showTree l}"
  | .as e c => s!"as:{c} {showTree e}"

/-- the text the real printers produce for a token list: binary operators and `as` are surrounded by
spaces, everything else is juxtaposed; a prefix operator is separated from a following prefix operator
that starts with its last character -/
def render : List Tok → String
  | [] => ""
  | .atom n :: ts => n ++ render ts
  | .const c :: ts => c ++ render ts
  | .lparen :: ts => "(" ++ render ts
  | .rparen :: ts => ")" ++ render ts
  | .as :: ts => " as " ++ render ts
  | .op .inf o :: ts => " " ++ o ++ " " ++ render ts
  | .op .pre o :: .op .pre o2 :: ts =>
    (if o.back = o2.front || (o = "!" && o2.front = '~') then o ++ " " else o) ++ render (.op .pre o2 :: ts)
  | .op _ o :: ts => o ++ render ts

def handle : List String → String
  | ["rt", tree] =>
    let toks := (tree.splitOn " ").filter (· ≠ "")
    match parseTree (toks.length + 1) toks with
    | some (e, []) =>
      let T := Elk.Gen.Prec.exprTable
      let printed := print T e
      match parse T printed with
      | some e' => s!"ok {render printed} => {showTree e'}"
      | none => s!"ok {render printed} => !"
    | _ => "bad-op"
  | _ => "bad-op"

end Driver.Dom.Prec
