import ElkVerif.Model.DateFmt
import ElkVerif.Model.ZoneOff
import Driver.Util
/-! domain `date` (C22). Fields after the tag; integers decimal, strings hex (`-` = empty).

```
mk Y M D                      MakeValidatedDate             ok y m d | err Year|Month|Day
add|sub Y M D months days     Date ± DateSpan               ok y m d
diff Y1 M1 D1 Y2 M2 D2        d1 - d2                       ok months days
diffadd Y1 M1 D1 Y2 M2 D2     d2 + (d1 - d2)                ok months days | y m d
unit name n                   Int#days …                    ok months days | ok ns
dts new months days ns        NewDateTimeSpan               ok months days ns
dt mk Y M D h m s ns          time.Date normalisation       ok y m d h m s ns
dt addts|subts <dt> ns        DateTime ± TimeSpan
dt addds|subds <dt> mo da     DateTime ± DateSpan
dt diff <dt1> <dt2>           dt1 - dt2                     ok months days ns
dt diffadd <dt1> <dt2>        dt2 + (dt1 - dt2)             ok months days ns | y m d h m s ns
dt date <dt>                  DateTime.Date (packing)       ok y m d
fmt Y M D hexfmt              Date.Format                   ok hex | err Format
parse hexfmt hexinput         ParseDate                     ok y m d | err Format
rt Y M D hexfmt               format, then parse            ok hex | y m d   /  ok hex | err Format
str Y M D                     to_string, parse (default)    ok hex | y m d
ds str|rt months days ; ds parse hex          Date::Span to_string / parse
ts str|rt ns ; ts parse hex                   Time::Span
dts str|rt months days ns ; dts parse hex     DateTime::Span
dt str <dt>                   to_string, parse (default)    ok hex | y m d h m s ns
zoff 0|1 seconds              `%z` / `%:z` of a fixed-offset zone, parsed back      ok hex | seconds  /  ok hex | err
```
`unsupported` = outside the modelled fragment (never generated); `ok now` = the real code consults
the clock. -/
namespace Driver.Dom.Date
open Elk.Date Elk.DateFmt Driver

def hexVal (c : Char) : Option Nat :=
  if '0' ≤ c ∧ c ≤ '9' then some (c.toNat - 48)
  else if 'a' ≤ c ∧ c ≤ 'f' then some (c.toNat - 87)
  else if 'A' ≤ c ∧ c ≤ 'F' then some (c.toNat - 55) else none

def hexBytes : List Char → Option (List UInt8)
  | [] => some []
  | a :: b :: r => do
    let x ← hexVal a
    let y ← hexVal b
    let rest ← hexBytes r
    pure (UInt8.ofNat (x * 16 + y) :: rest)
  | _ => none

/-- hex → text (valid UTF-8 only) -/
def unhex (s : String) : Option (List Char) :=
  if s == "-" then some [] else do
    let bs ← hexBytes s.toList
    let str ← String.fromUTF8? (ByteArray.mk bs.toArray)
    pure str.toList

def hexDigit (n : Nat) : Char := if n < 10 then Char.ofNat (48 + n) else Char.ofNat (87 + n)

def enhex (cs : List Char) : String :=
  if cs.isEmpty then "-" else
  String.ofList ((String.ofList cs).toUTF8.toList.flatMap fun b => [hexDigit (b.toNat / 16), hexDigit (b.toNat % 16)])

def showFErr : FErr → String | .format => "err Format" | .unsupported => "unsupported"

def showPRes : PRes → String
  | .ok d => s!"{d.year} {d.month} {d.day}" | .now => "now" | .err e => showFErr e

def tag : String := "date"

def ints (fs : List String) : Option (List Int) := optAll (fs.map parseInt?)

def showDate (d : Date) : String := s!"{d.year} {d.month} {d.day}"
def showSpan (s : DateSpan) : String := s!"{s.years * 12 + s.monthsPart} {s.days}"
def showDTS (s : DateTimeSpan) : String := s!"{showSpan s.date} {s.time}"

def showDT (t : DateTime) : String :=
  let tod := t.tod
  s!"{t.year} {t.month} {t.day} {tod / nsPerHour} {tod / nsPerMinute % 60} {tod / nsPerSecond % 60} {tod % nsPerSecond}"

def mkDT : List Int → Option DateTime
  | [y, mo, d, h, mi, s, ns] => some (goDate y mo d h mi s ns)
  | _ => none

def showErr : Err → String
  | .year => "err Year" | .month => "err Month" | .day => "err Day"
  | .format => "err Format" | .unsupported => "unsupported"

def handleDT (op : String) (n : List Int) : String :=
  match op, n with
  | "mk", _ => match mkDT n with | some t => "ok " ++ showDT t | none => "bad-op"
  | "addts", [y, mo, d, h, mi, s, ns, x] => "ok " ++ showDT ((goDate y mo d h mi s ns).addTimeSpan x)
  | "subts", [y, mo, d, h, mi, s, ns, x] => "ok " ++ showDT ((goDate y mo d h mi s ns).addTimeSpan (wrap64 (-x)))
  | "addds", [y, mo, d, h, mi, s, ns, a, b] =>
      "ok " ++ showDT ((goDate y mo d h mi s ns).addDateSpan (makeDateSpan 0 a b))
  | "subds", [y, mo, d, h, mi, s, ns, a, b] =>
      "ok " ++ showDT ((goDate y mo d h mi s ns).subDateSpan (makeDateSpan 0 a b))
  | "diff", [y, mo, d, h, mi, s, ns, y2, mo2, d2, h2, mi2, s2, ns2] =>
      "ok " ++ showDTS ((goDate y mo d h mi s ns).diff (goDate y2 mo2 d2 h2 mi2 s2 ns2))
  | "diffadd", [y, mo, d, h, mi, s, ns, y2, mo2, d2, h2, mi2, s2, ns2] =>
      let t1 := goDate y mo d h mi s ns
      let t2 := goDate y2 mo2 d2 h2 mi2 s2 ns2
      let sp := t1.diff t2
      "ok " ++ showDTS sp ++ " | " ++ showDT (t2.addSpan sp)
  | "date", _ =>
    match mkDT n with
    | some t => (match t.checkedDate with | .ok x => "ok " ++ showDate x | .error e => showErr e)
    | none => "bad-op"
  | _, _ => "bad-op"

def fmtThenParse (d : Date) (f : List Char) : String :=
  match formatDate f d with
  | .error e => showFErr e
  | .ok out =>
    match parseDate f out with
    | .err .unsupported => "unsupported"
    | r => "ok " ++ enhex out ++ " | " ++ showPRes r

def showS {α} (sh : α → String) : SRes α → String
  | .ok a => sh a | .err => "err Format" | .unsupported => "unsupported"

def handleFmt : List String → Option String
  | ["fmt", y, m, d, f] => do
    let n ← ints [y, m, d]
    let f ← unhex f
    match n with
    | [y, m, d] =>
      match formatDate f (makeDate y m d) with
      | .ok out => some ("ok " ++ enhex out)
      | .error e => some (showFErr e)
    | _ => none
  | ["parse", f, inp] => do
    let f ← unhex f
    let inp ← unhex inp
    match parseDate f inp with
    | .ok d => some ("ok " ++ showDate d)
    | .now => some "ok now"
    | .err e => some (showFErr e)
  | ["rt", y, m, d, f] => do
    let n ← ints [y, m, d]
    let f ← unhex f
    match n with
    | [y, m, d] => some (fmtThenParse (makeDate y m d) f)
    | _ => none
  | ["str", y, m, d] => do
    let n ← ints [y, m, d]
    match n with
    | [y, m, d] =>
      let out := dateString (makeDate y m d)
      some ("ok " ++ enhex out ++ " | " ++ showPRes (parseDate defaultDateFormat out))
    | _ => none
  | ["ds", "str", a, b] => do
    let n ← ints [a, b]
    match n with
    | [a, b] => some ("ok " ++ enhex (dateSpanString (makeDateSpan 0 a b)))
    | _ => none
  | ["ds", "rt", a, b] => do
    let n ← ints [a, b]
    match n with
    | [a, b] =>
      let out := dateSpanString (makeDateSpan 0 a b)
      some ("ok " ++ enhex out ++ " | " ++ showS showSpan (parseDateSpan out))
    | _ => none
  | ["ds", "parse", h] => do
    let inp ← unhex h
    match parseDateSpan inp with
    | .ok a => some ("ok " ++ showSpan a) | .err => some "err Format" | .unsupported => some "unsupported"
  | ["ts", "str", a] => do
    let a ← parseInt? a
    some ("ok " ++ enhex (timeSpanString a))
  | ["ts", "rt", a] => do
    let a ← parseInt? a
    let out := timeSpanString a
    some ("ok " ++ enhex out ++ " | " ++ showS (fun (x : Int) => toString x) (parseTimeSpan out))
  | ["ts", "parse", h] => do
    let inp ← unhex h
    match parseTimeSpan inp with
    | .ok a => some s!"ok {a}" | .err => some "err Format" | .unsupported => some "unsupported"
  | ["dts", "str", a, b, c] => do
    let n ← ints [a, b, c]
    match n with
    | [a, b, c] => some ("ok " ++ enhex (dateTimeSpanString (newDateTimeSpan (makeDateSpan 0 a b) c)))
    | _ => none
  | ["dts", "rt", a, b, c] => do
    let n ← ints [a, b, c]
    match n with
    | [a, b, c] =>
      let sp := newDateTimeSpan (makeDateSpan 0 a b) c
      let out := dateTimeSpanString sp
      some ("ok " ++ showDTS sp ++ " | " ++ enhex out ++ " | " ++ showS showDTS (parseDateTimeSpan out))
    | _ => none
  | ["dts", "parse", h] => do
    let inp ← unhex h
    match parseDateTimeSpan inp with
    | .ok a => some ("ok " ++ showDTS a) | .err => some "err Format" | .unsupported => some "unsupported"
  | ["dt", "str", y, mo, d, h, mi, s, ns] => do
    let n ← ints [y, mo, d, h, mi, s, ns]
    let t ← mkDT n
    match formatDateTime defaultDateTimeFormat t with
    | .error e => some (showFErr e)
    | .ok out =>
      match parseDateTime defaultDateTimeFormat out with
      | .ok t' => some ("ok " ++ enhex out ++ " | " ++ showDT t')
      | .now => some ("ok " ++ enhex out ++ " | now")
      | .err e => some ("ok " ++ enhex out ++ " | " ++ showFErr e)
  | _ => none

def handleArith : List String → String
  | ["mk", y, m, d] =>
    match ints [y, m, d] with
    | some [y, m, d] =>
      match makeValidatedDate y m d with
      | .ok r => "ok " ++ showDate r
      | .error e => showErr e
    | _ => "bad-op"
  | [op, y, m, d, a, b] =>
    match ints [y, m, d, a, b] with
    | some [y, m, d, a, b] =>
      let dt := makeDate y m d
      let sp := makeDateSpan 0 a b
      let showR : Except Err Date → String := fun r =>
        match r with | .ok x => "ok " ++ showDate x | .error e => showErr e
      if op == "add" then showR (dt.addDateSpan sp)
      else if op == "sub" then showR (dt.subDateSpan sp)
      else "bad-op"
    | _ => "bad-op"
  | [op, y1, m1, d1, y2, m2, d2] =>
    match ints [y1, m1, d1, y2, m2, d2] with
    | some [y1, m1, d1, y2, m2, d2] =>
      let a := makeDate y1 m1 d1
      let b := makeDate y2 m2 d2
      let sp := a.diffDate b
      if op == "diff" then "ok " ++ showSpan sp
      else if op == "diffadd" then
        match b.addDateSpan sp with
        | .ok x => "ok " ++ showSpan sp ++ " | " ++ showDate x
        | .error e => showErr e
      else "bad-op"
    | _ => "bad-op"
  | ["unit", name, n] =>
    match parseInt? n with
    | some n =>
      match spanOfUnit name n, timeSpanOfUnit name n with
      | some s, _ => "ok " ++ showSpan s
      | _, some t => s!"ok {t}"
      | _, _ => "bad-op"
    | none => "bad-op"
  | ["dts", "new", a, b, c] =>
    match ints [a, b, c] with
    | some [a, b, c] => "ok " ++ showDTS (newDateTimeSpan (makeDateSpan 0 a b) c)
    | _ => "bad-op"
  | "dt" :: op :: rest =>
    match ints rest with
    | some n => handleDT op n
    | none => "bad-op"
  | _ => "bad-op"

def isFmtOp : List String → Bool
  | "fmt" :: _ | "parse" :: _ | "rt" :: _ | "str" :: _ | "ds" :: _ | "ts" :: _ => true
  | "dts" :: op :: _ => op != "new"
  | "dt" :: "str" :: _ => true
  | _ => false

def handleZoff : List String → String
  | [c, o] =>
    match parseInt? o with
    | some secs =>
      if secs ≤ -86400 ∨ secs ≥ 86400 then "ok zone-err OutOfRange" else
      let colon := c == "1"
      let out := Elk.ZoneOff.fmtOff colon secs
      match Elk.ZoneOff.parseOff colon out with
      | some p => "ok " ++ enhex out ++ " | " ++ toString p
      | none => "ok " ++ enhex out ++ " | err"
    | none => "bad-op"
  | _ => "bad-op"

def handle (fs : List String) : String :=
  if fs.head? == some "zoff" then handleZoff fs.tail else
  if isFmtOp fs then (match handleFmt fs with | some a => a | none => "unsupported") else handleArith fs

end Driver.Dom.Date
