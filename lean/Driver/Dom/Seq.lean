import ElkVerif.Model.Seq
import ElkVerif.Gen.GrowCap
import Driver.Util
/-! domain `seq`: `seq<TAB>elem<TAB>flags<TAB>op;op;…`
elem ∈ v|i64|f|str|u8 (selects the size-class table of the growth policy); flags: `c` = print capacities.
ops (object ids are creation order, values are `u` undef, `n` nil or an integer; lists `,`-separated, `-` = empty;
creation ops may carry an implementation tag `new:i64` which the model ignores):
`new C` `lit C xs` `wlen N` `push O xs` `get O I` `set O I V` `at O I` `rme O I` `rm O I` `grow O N` `exp O N`
`apat O I V` `cat A B` `rep A N|big` `sl A F T` `cp A` `cl A C` `vsl O KIND A B` `vrem O V` `veq A B` `vcon O V` `iter O K` `len O`
answer: `ok a1|changes ; a2|changes …` — after each op the objects whose (elements, capacity) changed. -/
namespace Driver.Dom.Seq
open Elk.Seq Driver

def tag : String := "seq"

def parseVal (s : String) : Option Val :=
  if s == "u" then some .undef else if s == "n" then some .nil else (parseInt? s).map .i

def parseVals (s : String) : Option (List Val) :=
  if s == "-" then some [] else optAll ((s.splitOn ",").map parseVal)

def stripTag (s : String) : String := (s.splitOn ":").headD s

def parseOp (native : Bool) (s : String) : Option Op :=
  match s.splitOn " " with
  | [] => none
  | k :: args =>
    match stripTag k, args with
    | "new", [c] => do pure (.new (← parseNat? c))
    | "lit", [c, xs] => do pure (.lit (← parseNat? c) (← parseVals xs))
    | "wlen", [n] => do pure (.wlen (← parseNat? n))
    | "push", [o, xs] => do
        -- the element-specialised lists append one element at a time (NativeArrayList.AppendVal)
        if native then pure (.pushEach (← parseNat? o) (← parseVals xs))
        else pure (.push (← parseNat? o) (← parseVals xs))
    | "get", [o, i] => do pure (.get (← parseNat? o) (← parseInt? i))
    | "set", [o, i, v] => do pure (.set (← parseNat? o) (← parseInt? i) (← parseVal v))
    | "at", [o, i] => do pure (.at (← parseNat? o) (← parseInt? i))
    | "rme", [o, i] => do pure (.rme (← parseNat? o) (← parseInt? i))
    | "rm", [o, i] => do pure (.rm (← parseNat? o) (← parseInt? i))
    | "grow", [o, n] => do pure (.grow (← parseNat? o) (← parseInt? n))
    | "exp", [o, n] => do pure (.exp (← parseNat? o) (← parseInt? n))
    | "apat", [o, i, v] => do pure (.apat (← parseNat? o) (← parseInt? i) (← parseVal v))
    | "cat", [a, b] => do pure (.cat (← parseNat? a) (← parseNat? b))
    | "rep", [a, n] => do
        let a ← parseNat? a
        if n == "big" then pure (.rep a none) else pure (.rep a (some (← parseInt? n)))
    | "sl", [a, f, t] => do pure (.sl (← parseNat? a) (← parseInt? f) (← parseInt? t))
    | "cp", [a] => do pure (.cp (← parseNat? a))
    | "cl", [a, c] => do pure (.cl (← parseNat? a) (← parseInt? c))
    | "vsl", [o, k, a, b] => do
        -- kinds: cc `a...b`, oc `a<..b`, co `a..<b`, oo `a<.<b`, bo `..<b`, bc `...b`, eo `a<..`, ec `a...` (`_` = missing)
        let o ← parseNat? o
        match k with
        | "cc" => pure (.vsl o (.closed (← parseInt? a) (← parseInt? b)))
        | "oc" => pure (.vsl o (.leftOpen (← parseInt? a) (← parseInt? b)))
        | "co" => pure (.vsl o (.rightOpen (← parseInt? a) (← parseInt? b)))
        | "oo" => pure (.vsl o (.open (← parseInt? a) (← parseInt? b)))
        | "bo" => pure (.vsl o (.beginlessOpen (← parseInt? b)))
        | "bc" => pure (.vsl o (.beginlessClosed (← parseInt? b)))
        | "eo" => pure (.vsl o (.endlessOpen (← parseInt? a)))
        | "ec" => pure (.vsl o (.endlessClosed (← parseInt? a)))
        | _ => none
    | "vrem", [o, v] => do pure (.vrem (← parseNat? o) (← parseVal v))
    | "veq", [a, b] => do pure (.veq (← parseNat? a) (← parseNat? b))
    | "vcon", [o, v] => do pure (.vcon (← parseNat? o) (← parseVal v))
    | "iter", [o, k] => do pure (.iter (← parseNat? o) (← parseNat? k))
    | "len", [o] => do pure (.len (← parseNat? o))
    | _, _ => none

def showVal : Val → String
  | .undef => "u"
  | .nil => "n"
  | .i n => toString n

def showVals (vs : List Val) : String := "[" ++ joinWith "," (vs.map showVal) ++ "]"

def showAns : Ans → String
  | .unit => "-"
  | .val v => "v:" ++ showVal v
  | .bool b => "b:" ++ toString b
  | .obj id => "o:" ++ toString id
  | .vals vs => showVals vs
  | .oor => "err:OutOfRange"
  | .negIndex => "err:NegIndex"
  | .negCount => "err:NegCount"
  | .tooLarge => "err:TooLarge"
  | .negCap => "err:NegCap"
  | .panic => "panic"
  | .bad => "bad"

/-- observable state of every object: elements and capacity -/
def snapshot (st : St) : List (Option (List Val) × Nat) :=
  (List.range st.objs.length).map fun id => (view st id, (st.objs[id]?.map (·.cap)).getD 0)

def showChanges (caps : Bool) (before after : List (Option (List Val) × Nat)) : String :=
  let idx := List.range after.length
  let parts := idx.filterMap fun id =>
    match after[id]? with
    | none => none
    | some (v, c) =>
      let changed := match before[id]? with
        | none => true
        | some (v0, c0) => !(v0 == v && (c0 == c || !caps))
      if changed then
        some (toString id ++ "=" ++ (match v with | some xs => showVals xs | none => "?")
              ++ (if caps then ":" ++ toString c else ""))
      else none
  joinWith "&" parts

def table (elem : String) : List Nat :=
  match elem with
  | "u8" => Elk.Gen.GrowCap.round1
  | "i64" => Elk.Gen.GrowCap.round8
  | "f" => Elk.Gen.GrowCap.round8
  | "str" => Elk.Gen.GrowCap.round16
  | _ => Elk.Gen.GrowCap.round24

def runShow (g : Nat → Nat → Nat) (caps : Bool) : St → List Op → List String → Option (List String)
  | _, [], acc => some acc.reverse
  | st, op :: ops, acc =>
    let (st', a) := step g st op
    if a == .bad then none
    else
      let s := showAns a ++ "|" ++ showChanges caps (snapshot st) (snapshot st')
      runShow g caps st' ops (s :: acc)

def handle : List String → String
  | [elem, flags, ops] =>
    match optAll ((splitOnNE ops ";").map (parseOp (elem != "v" && elem != "tv"))) with
    | none => "bad-op"
    | some ops =>
      match runShow (goGrow (table elem)) (flags.contains 'c') St.init ops [] with
      | some outs => "ok " ++ joinWith " ; " outs
      | none => "bad-state"
  | _ => "bad-op"

end Driver.Dom.Seq
