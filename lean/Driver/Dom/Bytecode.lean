import ElkVerif.Model.Bytecode.Abort
import Driver.Util
/-! domain `bc`
* `bc<TAB>decode<TAB>hexcode<TAB>nvalues` → `ok o0,o1,…,end` | `err <pc> <class>` (mirror of Disassemble's loop)
* `bc<TAB>verify<TAB>strict|lax<TAB>F0|F1|…` with `F = name;params;upvalues;hexcode;consts;catches`,
  consts `,`-separated tokens (`f<k>` `c<argc>` `b<argc>.<tail>.<k>` `n<argc>.<params>` `s` `i<n>` `u` `t` `F` `z` `S<pops>.<cases>` `o`),
  catches `,`-separated `from.to.jump.fin` → one token per function: `k:ok:states:maxdepth:poly` | `k:err:<fault>`
-/
namespace Driver.Dom.Bytecode
open Elk.Bytecode Driver

def tag : String := "bc"

def hexVal (c : Char) : Option Nat :=
  if '0' ≤ c ∧ c ≤ '9' then some (c.toNat - '0'.toNat)
  else if 'a' ≤ c ∧ c ≤ 'f' then some (c.toNat - 'a'.toNat + 10)
  else if 'A' ≤ c ∧ c ≤ 'F' then some (c.toNat - 'A'.toNat + 10)
  else none

def hexBytes : List Char → Option (List Nat)
  | [] => some []
  | a :: b :: rest => do
    let x ← hexVal a
    let y ← hexVal b
    let r ← hexBytes rest
    pure ((x * 16 + y) :: r)
  | _ => none

def parseHex (s : String) : Option (Array Nat) := (hexBytes s.toList).map List.toArray

def parseConst (s : String) : Option Const :=
  match s.toList with
  | ['s'] => some .sym
  | ['u'] => some .undef
  | ['t'] => some .tru
  | ['F'] => some .fls
  | ['z'] => some .nil
  | ['o'] => some .other
  | 'f' :: r => (String.ofList r).toNat?.map .fn
  | 'c' :: r => (((String.ofList r).splitOn "~").head?.bind String.toNat?).map .callSite
  | 'i' :: r => (String.ofList r).toInt?.map .int
  | 'S' :: r =>
    match (String.ofList r).splitOn "." with
    | [a, c] => do pure (.select (← a.toNat?) (← c.toNat?))
    | _ => none
  | 'b' :: r =>
    match (String.ofList r).splitOn "." with
    | [a, t, k] => do pure (.bcSite (← a.toNat?) ((← t.toNat?) = 1) (← k.toInt?))
    | _ => none
  | 'n' :: r =>
    match (String.ofList r).splitOn "." with
    | [a, p] => do pure (.ntSite (← a.toNat?) (← p.toInt?))
    | _ => none
  | _ => none

def parseCatch (s : String) : Option Catch :=
  match s.splitOn "." with
  | [a, b, c, d] => do pure ⟨← a.toInt?, ← b.toInt?, ← c.toNat?, (← d.toNat?) = 1⟩
  | _ => none

def parseFunc (s : String) : Option Func :=
  match s.splitOn ";" with
  | [name, params, ups, code, consts, catches] => do
    let cs ← optAll ((splitOnNE consts ",").map parseConst)
    let ct ← optAll ((splitOnNE catches ",").map parseCatch)
    pure { name := name, code := ← parseHex code, consts := cs.toArray, catches := ct,
           upvalues := ← ups.toNat?, params := ← params.toNat? }
  | _ => none

def parseProg (s : String) : Option Prog := (optAll ((splitOnNE s "|").map parseFunc)).map List.toArray

def showFault : Fault → String
  | .pcOut pc => s!"pc-out@{pc}"
  | .unknownOp pc op => s!"unknown-op@{pc}({op})"
  | .layout pc op => s!"layout@{pc}({op})"
  | .truncated pc => s!"truncated@{pc}"
  | .underflow pc n h => s!"underflow@{pc}(need={n},have={h})"
  | .constIndex pc i => s!"const-index@{pc}({i})"
  | .constKind pc i => s!"const-kind@{pc}({i})"
  | .localIndex pc i => s!"local-index@{pc}({i})"
  | .upvalueIndex pc i => s!"upvalue-index@{pc}({i})"
  | .badOperand pc => s!"bad-operand@{pc}"
  | .badJump pc t => s!"bad-jump@{pc}({t})"
  | .dynJump pc => s!"dyn-jump@{pc}"
  | .noFinally pc => s!"no-finally@{pc}"
  | .invalidOp pc => s!"invalid-op@{pc}"
  | .prepNotFirst pc => s!"prep-not-first@{pc}"
  | .closureFn pc => s!"closure-fn@{pc}"
  | .handlerDepth pc => s!"handler-depth@{pc}"
  | .operandKind pc => s!"operand-kind@{pc}"
  | .tooDeep pc => s!"diverges@{pc}"
  | .certRejected => "cert-rejected"

def showNats (l : List Nat) : String := joinWith "," (l.map toString)

def verifyAll (P : Prog) (lax : Bool) : String :=
  let toks := (List.range P.size).map fun k =>
    match P[k]? with
    | none => s!"{k}:err:missing"
    | some f =>
      let sc (c : Option (Nat × Nat)) : String := match c with
        | some (a, b) => s!"{a}>{b}"
        | none => "-"
      match verifyFuncD P f lax with
      | .ok v => s!"{k}:ok:{v.states}:{v.maxDepth}:{if v.poly.isEmpty then "-" else showNats v.poly}:{sc v.conflict}:-"
      | .error r => s!"{k}:err:{showFault r.fault}:{sc r.conflict}"
  joinWith " " toks

def showAV : AV → String
  | .any => "_" | .tru => "T" | .fls => "F" | .nil => "N" | .undef => "U"
  | .int n => s!"i{n}" | .sel n c => s!"S{n}.{c}" | .fn k => s!"f{k}"

/-- debugging aid: like `explore` but returns what was visited when a fault stops the search -/
def exploreDbg (P : Prog) (f : Func) (cfg : Cfg) :
    (fuel : Nat) → (work : List St) → (seen : Std.HashSet St) → (acc : List St) → List St × String
  | 0, _, _, acc => (acc, "fuel")
  | _ + 1, [], _, acc => (acc, "done")
  | fuel + 1, s :: work, seen, acc =>
    if seen.contains s then exploreDbg P f cfg fuel work seen acc
    else if s.stk.length > 40 then (s :: acc, s!"deep@{s.pc}")
    else
      match exec P f cfg s with
      | .error e => (s :: acc, showFault e)
      | .ok l => exploreDbg P f cfg fuel (l ++ work) (seen.insert s) (s :: acc)

/-- debugging aid: the explored states of function `k` as `pc:stack(top first)` -/
def statesOf (P : Prog) (k : Nat) (lax : Bool) : String :=
  match P[k]? with
  | none => "err missing"
  | some f =>
    match verifyFunc P f lax with
    | .ok v => "ok " ++ joinWith " " (v.cert.reverse.map fun s => s!"{s.pc}:{joinWith "," (s.stk.map showAV)}")
    | .error _ =>
      let (acc, why) := exploreDbg P f { lax := lax } 100000 [St.entry f { lax := lax }] {} []
      s!"ok {joinWith " " (acc.reverse.map fun s => s!"{s.pc}:{joinWith "," (s.stk.map showAV)}")} !{why}"

/-- method name carried by a call-site token `c<argc>~<name>` ("" otherwise) -/
def callNameOf (tok : String) : String :=
  match tok.toList with
  | 'c' :: _ => match tok.splitOn "~" with
    | [_, n] => n
    | _ => ""
  | _ => ""

def parseCallNames (s : String) : Array (Array String) :=
  ((splitOnNE s "|").map fun f =>
    match f.splitOn ";" with
    | [_, _, _, _, consts, _] => ((splitOnNE consts ",").map callNameOf).toArray
    | _ => #[]).toArray

def showNode (u : Abort.Node) : String := s!"{u.1}:{u.2.pc}"

def abortAnswer (P : Prog) (callNames : Array (Array String)) : String :=
  let names := P.map (·.name)
  let (r, missing) := Abort.checkProgram P names callNames
  let m := if missing.isEmpty then "-" else showNats missing
  match r with
  | .ranked n e mr => s!"ok ranked nodes={n} edges={e} maxrank={mr} unverified={m}"
  | .cycle c => s!"ok cycle {joinWith ">" (c.map showNode)} unverified={m}"
  | .rejected => s!"ok rejected unverified={m}"

def handle : List String → String
  | ["abort", prog] =>
    match parseProg prog with
    | some P => abortAnswer P (parseCallNames prog)
    | none => "bad-op"
  | ["states", mode, prog, k] =>
    match parseProg prog, k.toNat? with
    | some P, some k => statesOf P k (mode = "lax")
    | _, _ => "bad-op"
  | ["decode", hex, nv] =>
    match parseHex hex, nv.toNat? with
    | some code, some n =>
      match disasm code n with
      | .ok l => s!"ok {showNats l}"
      | .error (pc, cls) => s!"err {pc} {cls}"
    | _, _ => "bad-op"
  | ["verify", mode, prog] =>
    match parseProg prog with
    | some P =>
      if mode = "strict" then "ok " ++ verifyAll P false
      else if mode = "lax" then "ok " ++ verifyAll P true
      else "bad-op"
    | none => "bad-op"
  | _ => "bad-op"

end Driver.Dom.Bytecode
