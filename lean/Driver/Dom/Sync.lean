import ElkVerif.Model.Chan
import Driver.Util
/-! domain `sy` (C25): `sy<TAB>run<TAB>op;op;…` sequential scripts over channels and sync primitives;
grammar and answer format in `harness/dom/sync.go`. `nn` (NativeChannel) and `cn` (ChannelOfValue)
have the same model. -/
namespace Driver.Dom.Sync
open Elk.Chan Driver

def tag : String := "sy"

def parseOp (s : String) : Option Op :=
  match s.splitOn " " with
  | ["cn", i, c] => do pure (.chNew (← parseNat? i) (← parseNat? c))
  | ["nn", i, c] => do pure (.chNew (← parseNat? i) (← parseNat? c))
  | ["cp", i, v] => do pure (.chPush (← parseNat? i) (← parseNat? v))
  | ["cg", i] => do pure (.chPop (← parseNat? i))
  | ["cc", i] => do pure (.chClose (← parseNat? i))
  | ["cl", i] => do pure (.chLen (← parseNat? i))
  -- the same operations through the channel's write-only / read-only view (`ch.writeonly`, `ch.readonly`):
  -- a view is the same channel
  | ["vp", i, v] => do pure (.chPush (← parseNat? i) (← parseNat? v))
  | ["vg", i] => do pure (.chPop (← parseNat? i))
  | ["vc", i] => do pure (.chClose (← parseNat? i))
  | ["vl", i] => do pure (.chLen (← parseNat? i))
  | ["mn", i] => do pure (.muNew (← parseNat? i))
  | ["ml", i] => do pure (.muLock (← parseNat? i))
  | ["mu", i] => do pure (.muUnlock (← parseNat? i))
  | ["rn", i] => do pure (.rwNew (← parseNat? i))
  | ["rl", i] => do pure (.rwLock (← parseNat? i))
  | ["rr", i] => do pure (.rwRLock (← parseNat? i))
  | ["ru", i] => do pure (.rwUnlock (← parseNat? i))
  | ["rv", i] => do pure (.rwRUnlock (← parseNat? i))
  | ["wn", i] => do pure (.wgNew (← parseNat? i))
  | ["wa", i, k] => do pure (.wgAdd (← parseNat? i) (← parseInt? k))
  | ["wr", i, k] => do pure (.wgRemove (← parseNat? i) (← parseInt? k))
  | ["ww", i] => do pure (.wgWait (← parseNat? i))
  | ["on", i] => do pure (.onNew (← parseNat? i))
  | ["oc", i] => do pure (.onCall (← parseNat? i))
  | _ => none

def showOut : Out → String
  | .ok => "ok" | .val v => s!"v{v}" | .errClosedPush => "ClosedPush" | .errClosedPop => "ClosedPop"
  | .errClosedClose => "ClosedClose" | .errUnlocked => "Unlocked" | .panic => "panic" | .fatal => "fatal"
  | .block => "block"

def handle : List String → String
  | ["run", ops] =>
    match optAll ((splitOnNE ops ";").map parseOp) with
    | some os => "ok " ++ joinWith "," ((World.run {} os).map showOut)
    | none => "bad-op"
  | _ => "bad-op"

end Driver.Dom.Sync
