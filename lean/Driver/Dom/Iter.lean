import ElkVerif.Model.IterOps
import Driver.Util
/-! domain `iter` (C23): `iter<TAB>mode<TAB>source<TAB>op[<TAB>arg…]`

```
mode    n = the native of Std::Iterable::FiniteBase/Base called directly, d = dynamic dispatch on the receiver
source  list:E | tuple:E | set:E:ORD | listit:E:k | tupleit:E:k | setit:E:ORD:k | chan:E | gen:E
        cr:lo:hi  or:lo:hi  lor:lo:hi  ror:lo:hi  ecr:lo  eor:lo  bcr:hi  bor:hi      (range values)
        it.cr:lo:hi:k … it.eor:lo:k                                                  (their iterators after k × next)
        E, ORD = comma separated integers (ORD = the set's iteration order)
op      map f | filter p | reject p | count p | any p | every p | find p | try_find p | index_of v | find_index p
        contains v | is_empty | first | try_first | last | try_last | take n | drop n | take_while p | drop_while p
        reduce g | fold init g | to_list | to_tuple | length | rcontains v (ranges: `contains` of the range class)
f       mul2 add1 neg sq id const7      p  gt:k lt:k eq:k even odd tt ff      g  add mul max sub fst snd
answer  ok [..] | ok n | ok true | ok nil | ok undefined | err NotFound | err OutOfRange | err NoIter | fuel
        then ` | a,b,c.` (iterating the receiver again: ended) or ` | a,b,c+` (more follow)
``` -/
namespace Driver.Dom.Iter
open Elk.Iter Elk.Range Elk.IterOps Driver

def tag : String := "iter"

def parseInts (s : String) : Option (List Int) :=
  if s.isEmpty then some [] else optAll ((s.splitOn ",").map parseInt?)

def parseFn1 : String → Option Fn1
  | "mul2" => some .mul2 | "add1" => some .add1 | "neg" => some .neg | "sq" => some .sq
  | "id" => some .ident | "const7" => some .const7 | _ => none

def parsePred (s : String) : Option Pred :=
  match s.splitOn ":" with
  | ["gt", k] => (parseInt? k).map .gt
  | ["lt", k] => (parseInt? k).map .lt
  | ["eq", k] => (parseInt? k).map .eq
  | ["even"] => some .even | ["odd"] => some .odd | ["tt"] => some .tt | ["ff"] => some .ff
  | _ => none

def parseFn2 : String → Option Fn2
  | "add" => some .add | "mul" => some .mul | "max" => some .max | "sub" => some .sub
  | "fst" => some .fst | "snd" => some .snd | _ => none

def parseOp : List String → Option Op
  | ["map", f] => (parseFn1 f).map .map
  | ["filter", p] => (parsePred p).map .filter
  | ["reject", p] => (parsePred p).map .reject
  | ["count", p] => (parsePred p).map .count
  | ["any", p] => (parsePred p).map .any
  | ["every", p] => (parsePred p).map .every
  | ["find", p] => (parsePred p).map .find
  | ["try_find", p] => (parsePred p).map .tryFind
  | ["index_of", v] => (parseInt? v).map .indexOf
  | ["find_index", p] => (parsePred p).map .findIndex
  | ["contains", v] => (parseInt? v).map .contains
  | ["is_empty"] => some .isEmpty
  | ["first"] => some .first | ["try_first"] => some .tryFirst
  | ["last"] => some .last | ["try_last"] => some .tryLast
  | ["take", n] => (parseInt? n).map .take
  | ["drop", n] => (parseInt? n).map .drop
  | ["take_while", p] => (parsePred p).map .takeWhile
  | ["drop_while", p] => (parsePred p).map .dropWhile
  | ["reduce", g] => (parseFn2 g).map .reduce
  | ["fold", i, g] => do pure (.fold (← parseInt? i) (← parseFn2 g))
  | ["to_list"] => some .toList | ["to_tuple"] => some .toTuple
  | ["length"] => some .length
  | _ => none

def parseKind : String → Option Kind
  | "cr" => some .closed | "or" => some .open | "lor" => some .leftOpen | "ror" => some .rightOpen
  | "ecr" => some .endlessClosed | "eor" => some .endlessOpen
  | "bcr" => some .beginlessClosed | "bor" => some .beginlessOpen
  | _ => none

def mkRange (k : Kind) (bs : List Int) : Option Range :=
  match k, bs with
  | .endlessClosed, [lo] | .endlessOpen, [lo] => some ⟨k, lo, 0⟩
  | .beginlessClosed, [hi] | .beginlessOpen, [hi] => some ⟨k, 0, hi⟩
  | .closed, [lo, hi] | .open, [lo, hi] | .leftOpen, [lo, hi] | .rightOpen, [lo, hi] => some ⟨k, lo, hi⟩
  | _, _ => none

def parseSource (s : String) : Option Source :=
  match s.splitOn ":" with
  | ["list", e] | ["tuple", e] => (parseInts e).map .seq
  | ["set", _, ord] => (parseInts ord).map .seq
  | ["listit", e, k] | ["tupleit", e, k] => do pure (.seqIter (← parseInts e) (← parseNat? k))
  | ["setit", _, ord, k] => do pure (.seqIter (← parseInts ord) (← parseNat? k))
  | ["chan", e] | ["gen", e] => do pure (.seqIter (← parseInts e) 0)
  | kind :: rest =>
    if kind.startsWith "it." then
      match parseKind (String.ofList (kind.toList.drop 3)), rest.reverse with
      | some k, kk :: bs => do
        let skip ← parseNat? kk
        let bounds ← optAll (bs.reverse.map parseInt?)
        let r ← mkRange k bounds
        pure (.rangeIter r skip)
      | _, _ => none
    else do
      let k ← parseKind kind
      let bounds ← optAll (rest.map parseInt?)
      let r ← mkRange k bounds
      pure (.range r)
  | _ => none

def showList (l : List Int) : String := joinWith "," (l.map showInt)

def showOut : Out → String
  | .list l => "ok [" ++ showList l ++ "]"
  | .int n => s!"ok {n}" | .bool true => "ok true" | .bool false => "ok false"
  | .nil => "ok nil" | .undefined => "ok undefined"
  | .notFound => "err NotFound" | .outOfRange => "err OutOfRange" | .fuel => "fuel"

def showAnswer (a : Answer) : String :=
  showOut a.out ++ " | " ++ showList a.after ++ (if a.ended then "." else "+")

def sourceRange : Source → Option Range
  | .range r => some r | _ => none

def sourceIterable : Source → Bool
  | .range r | .rangeIter r _ => r.kind.iterable
  | _ => true

/-- Run-time class of the receivers on which `Std::Iterable::FiniteBase/Base` is declared (headers) but
not registered today (D19): dynamic dispatch of any of the generic operations finds no method there.
(`Std::Channel` has its own `length`.) -/
def unregistered (src : String) (op : String) : Option String :=
  let kind := (src.splitOn ":").headD ""
  let cls : Option String :=
    match kind with
    | "it.cr" => some "Std::ClosedRange::Iterator" | "it.or" => some "Std::OpenRange::Iterator"
    | "it.lor" => some "Std::LeftOpenRange::Iterator" | "it.ror" => some "Std::RightOpenRange::Iterator"
    | "it.ecr" => some "Std::EndlessClosedRange::Iterator" | "it.eor" => some "Std::EndlessOpenRange::Iterator"
    | "listit" => some "Std::ArrayList::Iterator" | "tupleit" => some "Std::ArrayTuple::Iterator"
    | "setit" => some "Std::HashSet::Iterator" | "gen" => some "Std::Generator" | "chan" => some "Std::Channel"
    | _ => none
  match cls with
  | some c => if c == "Std::Channel" && op == "length" then none else some s!"missing {c}#{op}"
  | none => none

def handle : List String → String
  | _mode :: src :: "rcontains" :: [v] =>
    match parseSource src, parseInt? v with
    | some (.range r), some x => if r.contains x then "ok true" else "ok false"
    | _, _ => "bad-op"
  | mode :: src :: op =>
    match parseSource src, parseOp op with
    | some s, some o =>
      if !sourceIterable s then "err NoIter"
      else match (if mode == "d" then unregistered src (op.headD "") else none) with
        | some m => m
        | none => showAnswer (evalSource s o)
    | _, _ => "bad-op"
  | _ => "bad-op"

end Driver.Dom.Iter
