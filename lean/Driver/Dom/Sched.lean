import ElkVerif.Model.Sched
import Driver.Util
/-! domain `fe` (C11): `fe<TAB>run<TAB>N<TAB>LIMIT<TAB>SEED` — the semaphore loop of
`concurrent.Foreach` over 0..N-1 with LIMIT ≥ 1 permits under a pseudo-random schedule derived
from SEED. answer: `ok N once|count-violation bounded|over-limit:K` -/
namespace Driver.Dom.Sched
open Elk.Sched Driver

def tag : String := "fore"

def lcg (x : Nat) : Nat := (x * 6364136223846793005 + 1442695040888963407) % 18446744073709551616

def choices : Nat → Nat → List Nat
  | 0, _ => []
  | k + 1, x => let y := lcg x; (y / 65536) % 5 :: choices k y

/-- like `simulate`, also tracking the largest number of running tasks -/
def simulateMax (limit : Nat) : Nat → List Nat → FState Nat → Nat → FState Nat × Nat
  | 0, _, s, m => (s, m)
  | fuel + 1, cs, s, m =>
    let s' := simulate limit 1 cs s
    if s' == s then (s, m) else simulateMax limit fuel cs.tail s' (Nat.max m s'.running.length)

def handle : List String → String
  | ["run", n, limit, seed] =>
    match parseNat? n, parseNat? limit, parseInt? seed with
    | some n, some limit, some seed =>
      if limit < 1 then "bad-op" else
      let c := List.range n
      let (t, m) := simulateMax limit (2 * n + 2) (choices (2 * n + 2) seed.toNat) (FState.init c) 0
      let once := if t.pending.isEmpty ∧ t.running.isEmpty ∧ (t.done.mergeSort (· ≤ ·)) == c then "once" else "count-violation"
      let bound := if m ≤ limit then "bounded" else s!"over-limit:{m}"
      s!"ok {n} {once} {bound}"
    | _, _, _ => "bad-op"
  | _ => "bad-op"

end Driver.Dom.Sched
