import ElkVerif.Model.Promise
import Driver.Util
/-! domain `pr` (C16/C15): trace validation of H2 hook logs against `Elk.Promise.stepB`.

`pr<TAB>trace<TAB>N<TAB>Q<TAB>ev;ev;…`   events in log order, vocabulary of `Model/Promise.lean`
(`add a c`, `enq a c`, `deq a t`, `aw a p`, `awl a p`, `aws a p`, `awr a p`, `reg a p`, `unl a p`,
`res a p ok|err`, `resl a p`, `pub a p`, `enqc a p c`, `resu a p`, `newx a p`, `syw a p`, `sywd a p`).

The log is a linearisation up to the lag between an operation and its log record; records of
one goroutine are in program order. The replay therefore searches (depth first, candidates in log
order, bounded budget) for an interleaving of the per-goroutine record sequences in which every
record is enabled in the model state it meets (`stepB … = some _`); if there is none the trace is
rejected and the deepest state reached is reported.

answer: `ok steps=… skips=… movable=… queue=… tasks=… finished=… waiting=… lost=… busy=a:state,…`
        (`movable`: goroutines whose next micro-step is enabled in the final state; 0 after a genuine hang)
        `rej why=protocol|order|budget at=<k> ev=<event> actor=<state> queue=… | <first pending events>`
        (protocol: the goroutine of `ev` is in a control state in which it can never do `ev`;
         order: no interleaving exists; budget: the search budget ran out — inconclusive)
`lost` counts tasks registered on a settled promise whose mutex is free (must be 0);
`busy` lists the goroutines that are not idle in the final state (blocked ones after a hang); a
goroutine waiting for a promise mutex is followed by `@<holder>`. -/
namespace Driver.Dom.Promise
open Elk.Promise Driver

def tag : String := "pr"

def parseEvent (s : String) : Option Event :=
  match s.splitOn " " with
  | [k, a, x] => do
    let a ← parseNat? a
    let x ← parseNat? x
    match k with
    | "add" => some (.add a x) | "enq" => some (.enq a x) | "deq" => some (.deq a x)
    | "aw" => some (.aw a x) | "awl" => some (.awl a x) | "aws" => some (.aws a x) | "awr" => some (.awr a x)
    | "reg" => some (.reg a x) | "unl" => some (.unl a x) | "resl" => some (.resl a x)
    | "pub" => some (.pub a x) | "resu" => some (.resu a x) | "newx" => some (.newx a x)
    | "syw" => some (.syw a x) | "sywd" => some (.sywd a x)
    | _ => none
  | ["res", a, p, r] => do
    let a ← parseNat? a
    let p ← parseNat? p
    match r with
    | "ok" => some (.res a p (.ok 0))
    | "err" => some (.res a p (.err 0))
    | _ => none
  | ["enqc", a, p, c] => do pure (.enqc (← parseNat? a) (← parseNat? p) (← parseNat? c))
  | _ => none

def showEvent : Event → String
  | .add a c => s!"add {a} {c}" | .enq a c => s!"enq {a} {c}" | .deq a t => s!"deq {a} {t}"
  | .aw a p => s!"aw {a} {p}" | .awl a p => s!"awl {a} {p}" | .aws a p => s!"aws {a} {p}" | .awr a p => s!"awr {a} {p}"
  | .reg a p => s!"reg {a} {p}" | .unl a p => s!"unl {a} {p}"
  | .res a p (.ok _) => s!"res {a} {p} ok" | .res a p (.err _) => s!"res {a} {p} err"
  | .resl a p => s!"resl {a} {p}" | .pub a p => s!"pub {a} {p}" | .enqc a p c => s!"enqc {a} {p} {c}"
  | .resu a p => s!"resu {a} {p}" | .newx a p => s!"newx {a} {p}" | .syw a p => s!"syw {a} {p}" | .sywd a p => s!"sywd {a} {p}"

def showOpt : Option Nat → String
  | some t => toString t
  | none => "-"

def showAState : AState → String
  | .idle => "idle"
  | .run t => s!"run({t})"
  | .add r c => s!"add({showOpt r},{c})"
  | .awLock t p => s!"awLock({t},{p})"
  | .awTest t p => s!"awTest({t},{p})"
  | .awSusp t p => s!"awSusp({t},{p})"
  | .awUnl p => s!"awUnl({p})"
  | .wait r p => s!"wait({showOpt r},{p})"
  | .resLock _ p _ => s!"resLock({p})"
  | .resPub _ p _ => s!"resPub({p})"
  | .resEnq p rest => s!"resEnq({p},{rest.length})"

/-- the pending records that are the first pending one of their goroutine, each with the list that
    remains when it is taken out (log order is kept) -/
def candidates : List Event → List Nat → List Event → List (Event × List Event)
  | [], _, _ => []
  | e :: rest, seen, skippedRev =>
    if seen.contains e.actor then candidates rest seen (e :: skippedRev)
    else (e, skippedRev.reverse ++ rest) :: candidates rest (e.actor :: seen) (e :: skippedRev)

structure Found where
  final : Sys
  steps : Nat
  skips : Nat

/-- the part of a guard that only depends on the goroutine's own control state: no step of another
    goroutine can make it true, so a record that fails it can never be replayed -/
def localOk (N : Nat) (s : Sys) : Event → Bool
  | .add a _ | .newx a _ | .syw a _ => (starter N s a).isSome
  | .enq a c => match s.act a with | .add _ c' => c' == c | _ => false
  | .deq a _ => s.act a == .idle && a < N
  | .aw a _ => match s.act a with | .run _ => true | _ => false
  | .awl a p => match s.act a with | .awLock _ p' => p' == p | _ => false
  | .aws a p | .awr a p => match s.act a with | .awTest _ p' => p' == p | _ => false
  | .reg a p => match s.act a with | .awSusp _ p' => p' == p | _ => false
  | .unl a p => match s.act a with | .awUnl p' => p' == p | _ => false
  | .res a p _ => match s.act a with | .run t => t == p | .idle => N ≤ a | _ => false
  | .resl a p => match s.act a with | .resLock _ p' _ => p' == p | _ => false
  | .pub a p => match s.act a with | .resPub _ p' _ => p' == p | _ => false
  | .enqc a p c => match s.act a with | .resEnq p' (c' :: _) => p' == p && c' == c | _ => false
  | .resu a p => match s.act a with | .resEnq p' [] => p' == p | _ => false
  | .sywd a p => match s.act a with | .wait _ p' => p' == p | _ => false

/-- does candidate `h` help the blocked record `e` (make its global guard true)? -/
def helps (s : Sys) (e h : Event) : Bool :=
  match e with
  | .deq _ t => match h with | .enq _ c => c == t | .enqc _ _ c => c == t | _ => false
  | .enq _ _ | .enqc _ _ _ => match h with | .deq _ _ => true | _ => false
  | .awl _ p | .resl _ p => (s.prom p).locked == some h.actor
  | .awr _ p | .sywd _ p => match h with | .pub _ p' => p' == p | .resl _ p' => p' == p | _ => false
  | _ => false

/-- candidates in the order they are tried: the head if it is enabled, else its helpers first -/
def ordered (N Q : Nat) (s : Sys) (cands : List (Event × List Event)) : List (Event × List Event) :=
  match cands with
  | [] => []
  | (e, r) :: cs =>
    if (stepB N Q s e).isSome then cands
    else
      let hs := cs.filter fun c => helps s e c.1
      let os := cs.filter fun c => !helps s e c.1
      hs ++ os ++ [(e, r)]

/-- depth-first search for a linearisation; `budget` bounds the number of attempted steps. Returns the
    result, the budget left and the deepest state reached (for the diagnosis). A record whose
    goroutine-local guard fails ends the search at once (`hard`). -/
def search (N Q : Nat) (d : Nat) (s : Sys) (cands : List (Event × List Event)) (k : Nat) (steps skips budget : Nat)
    (best : Nat × Sys × List Event) : Option Found × Nat × (Nat × Sys × List Event) :=
  match d, cands with
  | 0, _ => (none, budget, best)
  | _, [] => (none, budget, best)
  | d' + 1, (e, rest) :: cs =>
    if budget = 0 then (none, 0, best) else
    match stepB N Q s e with
    | some s' =>
      let best' := if steps + 1 > best.1 then (steps + 1, s', rest) else best
      if rest.isEmpty then (some ⟨s', steps + 1, skips + k⟩, budget - 1, best')
      else
        match search N Q d' s' (ordered N Q s' (candidates rest [] [])) 0 (steps + 1) (skips + k) (budget - 1) best' with
        | (some r, b, bb) => (some r, b, bb)
        | (none, b, bb) => search N Q (d' + 1) s cs (k + 1) steps skips b bb
    | none => search N Q (d' + 1) s cs (k + 1) steps skips (budget - 1) best
termination_by (d, cands.length)

/-- first pending record (of any goroutine) that can never be replayed -/
def hardFail (N : Nat) (s : Sys) (pending : List Event) : Option Event :=
  ((candidates pending [] []).find? fun c => !localOk N s c.1).map (·.1)

inductive Verdict where
  | ok (s : Sys) (steps skips : Nat)
  | rej (steps : Nat) (s : Sys) (pending : List Event) (why : String)

def replay (N Q : Nat) (es : List Event) : Verdict :=
  if es.isEmpty then .ok init 0 0 else
  match search N Q (es.length + 1) init (ordered N Q init (candidates es [] [])) 0 0 0 (20000 + 20 * es.length) (0, init, es) with
  | (some r, _, _) => .ok r.final r.steps r.skips
  | (none, b, (k, s, pending)) =>
    match hardFail N s pending with
    | some e => .rej k s (e :: pending) "protocol"     -- the goroutine is not in a state in which it can do this
    | none => .rej k s pending (if b = 0 then "budget" else "order")

def actorsOf (es : List Event) : List Nat := (es.map Event.actor).eraseDups

def idsOf (es : List Event) : List Nat :=
  (es.flatMap fun e => match e with
    | .add _ c | .enq _ c | .deq _ c => [c]
    | .aw _ p | .awl _ p | .aws _ p | .awr _ p | .reg _ p | .unl _ p | .res _ p _ | .resl _ p | .pub _ p
    | .resu _ p | .newx _ p | .syw _ p | .sywd _ p => [p]
    | .enqc _ p c => [p, c]).eraseDups

/-- can goroutine `a` take its next micro-step in `s`? (a running task always can: its next step is
    a choice of the program; an idle worker can when the queue is not empty) -/
def canMove (N Q : Nat) (s : Sys) (a : Nat) : Bool :=
  match s.act a with
  | .idle => a < N && !s.queue.isEmpty
  | .run _ => true
  | .add _ _ => s.queue.length < Q
  | .awLock _ p => (s.prom p).locked.isNone
  | .awTest _ _ | .awSusp _ _ | .awUnl _ | .resPub _ _ _ => true
  | .wait _ p => (s.prom p).settled.isSome
  | .resLock _ p _ => (s.prom p).locked.isNone
  | .resEnq _ (_ :: _) => s.queue.length < Q
  | .resEnq _ [] => true

def summary (N Q : Nat) (s : Sys) (acts ids : List Nat) : String :=
  let tasks := ids.filter fun t => (s.prom t).kind == .task
  let fin := tasks.filter fun t => (s.prom t).settled.isSome
  let waiting := tasks.filter fun t => match s.loc t with | .waiting _ => true | _ => false
  let lost := ids.filter fun p => (s.prom p).settled.isSome && (s.prom p).locked.isNone && !(s.prom p).conts.isEmpty
  let busy := acts.filter fun a => s.act a != .idle
  let holder := fun (a : Nat) => match s.act a with
    | .awLock _ p | .resLock _ p _ => match (s.prom p).locked with | some h => s!"@{h}" | none => "@free"
    | _ => ""
  let workers := (List.range N).filter fun a => !acts.contains a
  let movable := (acts ++ workers).filter fun a => canMove N Q s a
  s!"movable={movable.length} queue={s.queue.length} tasks={tasks.length} finished={fin.length} waiting={waiting.length} lost={lost.length} busy=" ++
    joinWith "," (busy.map fun a => s!"{a}:{showAState (s.act a)}{holder a}")

def handle : List String → String
  | ["trace", n, q, evs] =>
    match parseNat? n, parseNat? q, optAll ((splitOnNE evs ";").map parseEvent) with
    | some N, some Q, some es =>
      let acts := actorsOf es
      let ids := idsOf es
      match replay N Q es with
      | .ok s steps skips => s!"ok steps={steps} skips={skips} " ++ summary N Q s acts ids
      | .rej k s pending why =>
        let e := pending.headD (.add 0 0)
        s!"rej why={why} at={k} ev={showEvent e} actor={showAState (s.act e.actor)} " ++ summary N Q s acts ids ++
          " | " ++ joinWith ";" ((pending.take 6).map showEvent)
    | _, _, _ => "bad-op"
  | _ => "bad-op"

end Driver.Dom.Promise
