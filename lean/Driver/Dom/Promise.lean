import ElkVerif.Model.Promise
import Driver.Util
/-! domain `pr` (C16/C15): trace validation of H2 hook logs against `Elk.Promise.stepB`.

`pr<TAB>trace<TAB>N<TAB>Q<TAB>ev;ev;…`   events in log order, vocabulary of `Model/Promise.lean`
(`add a c`, `enq a c`, `deq a t`, `aw a p`, `awl a p`, `aws a p`, `awr a p`, `reg a p`, `unl a p`,
`res a p ok|err`, `resl a p`, `pub a p`, `enqc a p c`, `resu a p`, `newx a p`, `syw a p`, `sywd a p`).

The log is a linearisation up to the lag between an operation and its log record; records of
one goroutine are in program order. The replay therefore takes, at each point, the earliest
pending record that is the first pending one of its goroutine and is enabled in the current
model state (`stepB … = some _`); if none is enabled the trace is rejected.

answer: `ok steps=… skips=… queue=… tasks=… finished=… waiting=… lost=… busy=a:state,…`
        `rej at=<k> ev=<event> actor=<state> queue=… | <first pending events>`
`lost` counts tasks registered on a settled promise whose mutex is free (must be 0);
`busy` lists the goroutines that are not idle in the final state (blocked ones after a hang). -/
namespace Driver.Dom.Promise
open Elk.Promise Driver

def tag : String := "pr"

def parseEvent (s : String) : Option Event :=
  match s.splitOn " " with
  | [k, a, x] => do
    let a ← parseNat? a
    let x ← parseNat? x
    match k with
    | "add" => some (.add a x) | "enq" => some (.enq a x) | "deq" => some (.deq a x)
    | "aw" => some (.aw a x) | "awl" => some (.awl a x) | "aws" => some (.aws a x) | "awr" => some (.awr a x)
    | "reg" => some (.reg a x) | "unl" => some (.unl a x) | "resl" => some (.resl a x)
    | "pub" => some (.pub a x) | "resu" => some (.resu a x) | "newx" => some (.newx a x)
    | "syw" => some (.syw a x) | "sywd" => some (.sywd a x)
    | _ => none
  | ["res", a, p, r] => do
    let a ← parseNat? a
    let p ← parseNat? p
    match r with
    | "ok" => some (.res a p (.ok 0))
    | "err" => some (.res a p (.err 0))
    | _ => none
  | ["enqc", a, p, c] => do pure (.enqc (← parseNat? a) (← parseNat? p) (← parseNat? c))
  | _ => none

def showEvent : Event → String
  | .add a c => s!"add {a} {c}" | .enq a c => s!"enq {a} {c}" | .deq a t => s!"deq {a} {t}"
  | .aw a p => s!"aw {a} {p}" | .awl a p => s!"awl {a} {p}" | .aws a p => s!"aws {a} {p}" | .awr a p => s!"awr {a} {p}"
  | .reg a p => s!"reg {a} {p}" | .unl a p => s!"unl {a} {p}"
  | .res a p (.ok _) => s!"res {a} {p} ok" | .res a p (.err _) => s!"res {a} {p} err"
  | .resl a p => s!"resl {a} {p}" | .pub a p => s!"pub {a} {p}" | .enqc a p c => s!"enqc {a} {p} {c}"
  | .resu a p => s!"resu {a} {p}" | .newx a p => s!"newx {a} {p}" | .syw a p => s!"syw {a} {p}" | .sywd a p => s!"sywd {a} {p}"

def showOpt : Option Nat → String
  | some t => toString t
  | none => "-"

def showAState : AState → String
  | .idle => "idle"
  | .run t => s!"run({t})"
  | .add r c => s!"add({showOpt r},{c})"
  | .awLock t p => s!"awLock({t},{p})"
  | .awTest t p => s!"awTest({t},{p})"
  | .awSusp t p => s!"awSusp({t},{p})"
  | .awUnl p => s!"awUnl({p})"
  | .wait r p => s!"wait({showOpt r},{p})"
  | .resLock _ p _ => s!"resLock({p})"
  | .resPub _ p _ => s!"resPub({p})"
  | .resEnq p rest => s!"resEnq({p},{rest.length})"

/-- find the earliest pending event that is first of its actor and enabled; returns
    (new state, remaining pending in order, how many records were skipped over) -/
def pick (N Q : Nat) (s : Sys) : List Event → List Nat → List Event → Option (Sys × List Event × Nat)
  | [], _, _ => none
  | e :: rest, seen, skippedRev =>
    if seen.contains e.actor then pick N Q s rest seen (e :: skippedRev)
    else match stepB N Q s e with
      | some s' => some (s', skippedRev.reverse ++ rest, skippedRev.length)
      | none => pick N Q s rest (e.actor :: seen) (e :: skippedRev)

def replay (N Q : Nat) : Nat → Sys → List Event → Nat → Nat → Except (Nat × Sys × List Event) (Sys × Nat × Nat)
  | 0, s, pending, steps, skips => if pending.isEmpty then .ok (s, steps, skips) else .error (steps, s, pending)
  | fuel + 1, s, pending, steps, skips =>
    match pending with
    | [] => .ok (s, steps, skips)
    | _ =>
      match pick N Q s pending [] [] with
      | some (s', pending', k) => replay N Q fuel s' pending' (steps + 1) (skips + k)
      | none => .error (steps, s, pending)

def actorsOf (es : List Event) : List Nat := (es.map Event.actor).eraseDups

def idsOf (es : List Event) : List Nat :=
  (es.flatMap fun e => match e with
    | .add _ c | .enq _ c | .deq _ c => [c]
    | .aw _ p | .awl _ p | .aws _ p | .awr _ p | .reg _ p | .unl _ p | .res _ p _ | .resl _ p | .pub _ p
    | .resu _ p | .newx _ p | .syw _ p | .sywd _ p => [p]
    | .enqc _ p c => [p, c]).eraseDups

def summary (s : Sys) (acts ids : List Nat) : String :=
  let tasks := ids.filter fun t => (s.prom t).kind == .task
  let fin := tasks.filter fun t => (s.prom t).settled.isSome
  let waiting := tasks.filter fun t => match s.loc t with | .waiting _ => true | _ => false
  let lost := ids.filter fun p => (s.prom p).settled.isSome && (s.prom p).locked.isNone && !(s.prom p).conts.isEmpty
  let busy := acts.filter fun a => s.act a != .idle
  s!"queue={s.queue.length} tasks={tasks.length} finished={fin.length} waiting={waiting.length} lost={lost.length} busy=" ++
    joinWith "," (busy.map fun a => s!"{a}:{showAState (s.act a)}")

def handle : List String → String
  | ["trace", n, q, evs] =>
    match parseNat? n, parseNat? q, optAll ((splitOnNE evs ";").map parseEvent) with
    | some N, some Q, some es =>
      let acts := actorsOf es
      let ids := idsOf es
      match replay N Q (es.length + 1) init es 0 0 with
      | .ok (s, steps, skips) => s!"ok steps={steps} skips={skips} " ++ summary s acts ids
      | .error (k, s, pending) =>
        let e := pending.headD (.add 0 0)
        s!"rej at={k} ev={showEvent e} actor={showAState (s.act e.actor)} " ++ summary s acts ids ++
          " | " ++ joinWith ";" ((pending.take 6).map showEvent)
    | _, _, _ => "bad-op"
  | _ => "bad-op"

end Driver.Dom.Promise
