import ElkVerif.Model.Pattern
import Driver.Util
import Driver.Sexp
/-! domain `pat` (C30)

`pat<TAB>sel<TAB>env<TAB>cases<TAB>values`  → `ok r₁ | r₂ | …`, one result per value:
    `else` or `<index> (x v) (y v) …` (distinct variables of the selected pattern, sorted)
`pat<TAB>csel<TAB>env<TAB>cases<TAB>values` → the same through the mirror of the compiled matcher (`cmatch`):
    variables hold what the bytecode stored, `stale` when never stored
`pat<TAB>cov<TAB>literalOnly(0|1)<TAB>env<TAB>cases<TAB>type` → `ok true|false`   (`covers`)
`pat<TAB>pty<TAB>env<TAB>pattern<TAB>type<TAB>values` → `ok b₁ b₂ …` (`hasTy vᵢ (patTy p type)`)

S-expressions
  scalar  `(i N)` `(f H)` (the Float H/2) `(s word)` `(y word)` `T` `F` `N`
  value   scalar | `(L v…)` list | `(U v…)` tuple | `(M (k v)…)` map | `(R (k v)…)` record | `(G lo hi)`
  pattern `(lit sc)` `(interp word x)` `(rng cc|co|oc|oo lo|_ hi|_)` `(list (p…) -|*|(* x) (q…))`
          `(tup …)` `(map (k p)…)` `(rec (k p)…)` `(obj Cls)` `(obj Cls p)` `(bind x)` `(as p x)`
          `(or p q)` `(and p q)` `(opt p)` `must` `(rel lt|le|gt|ge|eq|ne sc|(var x))`
  type    `any` `never` `(lit sc)` `(cls C)` `(u a b)` `(n a b)` `(not a)`
  env     `((x sc)…)`
-/
namespace Driver.Dom.Pattern
open Elk.Pattern Driver

def tag : String := "pat"

def pScalar : Sexp → Option Scalar
  | .atom "T" => some (.bool true)
  | .atom "F" => some (.bool false)
  | .atom "N" => some .nil
  | .list [.atom "i", .atom n] => n.toInt?.map .int
  | .list [.atom "f", .atom n] => n.toInt?.map .flt
  | .list [.atom "s"] => some (.str "")
  | .list [.atom "s", .atom w] => some (.str w)
  | .list [.atom "y", .atom w] => some (.sym w)
  | _ => none

partial def pValue : Sexp → Option V
  | .list (.atom "L" :: xs) => (optAll (xs.map pValue)).map .list
  | .list (.atom "U" :: xs) => (optAll (xs.map pValue)).map .tup
  | .list (.atom "M" :: xs) => (optAll (xs.map pKV)).map .map
  | .list (.atom "R" :: xs) => (optAll (xs.map pKV)).map .recd
  | .list [.atom "G", .atom a, .atom b] => do pure (.range (← a.toInt?) (← b.toInt?))
  | s => (pScalar s).map .sc
where
  pKV : Sexp → Option (Scalar × V)
    | .list [k, v] => do pure (← pScalar k, ← pValue v)
    | _ => none

def pCls : String → Option Cls
  | "Int" => some .int | "Float" => some .float | "String" => some .string
  | "Symbol" => some .symbol | "Bool" => some .bool | "Nil" => some .nil
  | "ArrayList" => some .arrayList | "ArrayTuple" => some .arrayTuple
  | "HashMap" => some .hashMap | "HashRecord" => some .hashRecord
  | "ClosedRange" => some .closedRange
  | "List" => some .listM | "Tuple" => some .tupleM | "Map" => some .mapM | "Record" => some .recordM
  | "Value" => some .value
  | _ => none

def pRangeOp : String → Option RangeOp
  | "cc" => some .cc | "co" => some .co | "oc" => some .oc | "oo" => some .oo | _ => none

def pRelOp : String → Option RelOp
  | "lt" => some .lt | "le" => some .le | "gt" => some .gt | "ge" => some .ge
  | "eq" => some .eq | "ne" => some .ne | _ => none

def pBound : Sexp → Option (Option Scalar)
  | .atom "_" => some none
  | s => (pScalar s).map some

def pRest : Sexp → Option Rest
  | .atom "-" => some .none
  | .atom "*" => some .anon
  | .list [.atom "*", .atom x] => some (.named x)
  | _ => none

partial def pPat : Sexp → Option Pat
  | .atom "must" => some .must
  | .list [.atom "lit", s] => (pScalar s).map .lit
  | .list [.atom "interp", .atom w, .atom x] => some (.interp w x)
  | .list [.atom "rng", .atom op, lo, hi] => do pure (.range (← pRangeOp op) (← pBound lo) (← pBound hi))
  | .list [.atom "list", .list pre, r, .list post] => do
      pure (.list (← optAll (pre.map pPat)) (← pRest r) (← optAll (post.map pPat)))
  | .list [.atom "tup", .list pre, r, .list post] => do
      pure (.tup (← optAll (pre.map pPat)) (← pRest r) (← optAll (post.map pPat)))
  | .list (.atom "map" :: es) => do
      let kps ← optAll (es.map pKP)
      pure (.map (kps.map (·.1)) (kps.map (·.2)))
  | .list (.atom "rec" :: es) => do
      let kps ← optAll (es.map pKP)
      pure (.recd (kps.map (·.1)) (kps.map (·.2)))
  | .list [.atom "obj", .atom c] => do pure (.obj (← pCls c) none)
  | .list [.atom "obj", .atom c, p] => do pure (.obj (← pCls c) (some (← pPat p)))
  | .list [.atom "bind", .atom x] => some (.bind x)
  | .list [.atom "as", p, .atom x] => do pure (.as (← pPat p) x)
  | .list [.atom "or", p, q] => do pure (.or (← pPat p) (← pPat q))
  | .list [.atom "and", p, q] => do pure (.and (← pPat p) (← pPat q))
  | .list [.atom "opt", p] => do pure (.opt (← pPat p))
  | .list [.atom "rel", .atom op, .list [.atom "var", .atom x]] => do pure (.rel (← pRelOp op) (.var x))
  | .list [.atom "rel", .atom op, s] => do pure (.rel (← pRelOp op) (.lit (← pScalar s)))
  | _ => none
where
  pKP : Sexp → Option (Scalar × Pat)
    | .list [k, p] => do pure (← pScalar k, ← pPat p)
    | _ => none

partial def pTy : Sexp → Option Ty
  | .atom "any" => some .any
  | .atom "never" => some .never
  | .list [.atom "lit", s] => (pScalar s).map .lit
  | .list [.atom "cls", .atom c] => (pCls c).map .cls
  | .list [.atom "u", a, b] => do pure (.union (← pTy a) (← pTy b))
  | .list [.atom "n", a, b] => do pure (.inter (← pTy a) (← pTy b))
  | .list [.atom "not", a] => do pure (.not (← pTy a))
  | _ => none

def pEnv : Sexp → Option Env
  | .list es => optAll (es.map fun
      | .list [.atom x, s] => (pScalar s).map (x, ·)
      | _ => none)
  | _ => none

def pList {α} (f : Sexp → Option α) : Sexp → Option (List α)
  | .list xs => optAll (xs.map f)
  | _ => none

def showScalar : Scalar → String
  | .int i => s!"(i {i})"
  | .flt h => s!"(f {h})"
  | .str s => if s.isEmpty then "(s)" else s!"(s {s})"
  | .sym s => s!"(y {s})"
  | .bool true => "T"
  | .bool false => "F"
  | .nil => "N"

partial def showV : V → String
  | .sc s => showScalar s
  | .list xs => "(L" ++ String.join (xs.map fun x => " " ++ showV x) ++ ")"
  | .tup xs => "(U" ++ String.join (xs.map fun x => " " ++ showV x) ++ ")"
  | .map kvs => "(M" ++ String.join (kvs.map fun (k, v) => s!" ({showScalar k} {showV v})") ++ ")"
  | .recd kvs => "(R" ++ String.join (kvs.map fun (k, v) => s!" ({showScalar k} {showV v})") ++ ")"
  | .range a b => s!"(G {a} {b})"

def insertSorted (x : String) : List String → List String
  | [] => [x]
  | y :: ys => if x < y then x :: y :: ys else if x == y then y :: ys else y :: insertSorted x ys

def sortedVars (p : Pat) : List String := p.vars.foldr insertSorted []

def showSel (cases : List Pat) : Option (Nat × Bindings) → String
  | none => "else"
  | some (i, b) =>
    match cases[i]? with
    | none => "bad-index"
    | some p =>
      toString i ++ String.join ((sortedVars p).map fun x =>
        match b.get x with
        | some v => s!" ({x} {showV v})"
        | none => s!" ({x} ?)")

def showCSel (cases : List Pat) : Option (Nat × Writes) → String
  | none => "else"
  | some (i, w) =>
    match cases[i]? with
    | none => "bad-index"
    | some p =>
      toString i ++ String.join ((sortedVars p).map fun x =>
        match w.slot x with
        | .val v => s!" ({x} {showV v})"
        | .stale => s!" ({x} stale)")

def parse1 {α} (f : Sexp → Option α) (s : String) : Option α := (Sexp.parse s).bind f

def handle : List String → String
  | ["sel", env, cases, values] =>
    match parse1 pEnv env, parse1 (pList pPat) cases, parse1 (pList pValue) values with
    | some ρ, some cs, some vs => "ok " ++ joinWith " | " (vs.map fun v => showSel cs (select ρ cs v))
    | _, _, _ => "bad-op"
  | ["csel", env, cases, values] =>
    match parse1 pEnv env, parse1 (pList pPat) cases, parse1 (pList pValue) values with
    | some ρ, some cs, some vs => "ok " ++ joinWith " | " (vs.map fun v => showCSel cs (cselect ρ cs v))
    | _, _, _ => "bad-op"
  | ["cov", lo, env, cases, ty] =>
    match parse1 pEnv env, parse1 (pList pPat) cases, parse1 pTy ty with
    | some ρ, some cs, some τ => s!"ok {covers ⟨lo == "1"⟩ ρ cs τ}"
    | _, _, _ => "bad-op"
  | ["pty", env, pat, ty, values] =>
    match parse1 pEnv env, parse1 pPat pat, parse1 pTy ty, parse1 (pList pValue) values with
    | some ρ, some p, some τ, some vs =>
      "ok " ++ joinWith " " (vs.map fun v => toString (hasTy v (patTy ρ p τ)))
    | _, _, _, _ => "bad-op"
  | _ => "bad-op"

end Driver.Dom.Pattern
