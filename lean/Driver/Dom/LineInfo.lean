import ElkVerif.Model.LineInfo
import Driver.Util
/-! domain `li`: `li<TAB>run<TAB>edits(;)<TAB>queries(;)`
edits: `a L B` add, `l B` addLast, `r` removeByte, `R N` removeBytes, `p B` prep, `x O C` removeAt
queries: integer offsets for `GetLineNumber`
answer: `ok line:count,… | q1,q2,…`  or `panic` -/
namespace Driver.Dom.LineInfo
open Elk.LineInfo Driver

def tag : String := "li"

def parseEdit (s : String) : Option Edit :=
  match s.splitOn " " with
  | ["a", l, b] => do pure (.add (← parseInt? l) (← parseInt? b))
  | ["l", b] => do pure (.addLast (← parseInt? b))
  | ["r"] => some .removeByte
  | ["R", n] => do
      let k ← parseInt? n
      pure (.removeBytes k.toNat)
  | ["p", b] => do pure (.prep (← parseInt? b))
  | ["x", o, c] => do pure (.removeAt (← parseInt? o) (← parseInt? c))
  | _ => none

def showTable (t : Table) : String :=
  joinWith "," (t.map fun e => s!"{e.line}:{e.count}")

def handle : List String → String
  | ["run", edits, queries] =>
    match optAll ((splitOnNE edits ";").map parseEdit), optAll ((splitOnNE queries ";").map parseInt?) with
    | some es, some qs =>
      match run [] es with
      | .ok t => s!"ok {showTable t} | {joinWith "," (qs.map fun q => showInt (getLine t q))}"
      | .panic => "panic"
    | _, _ => "bad-op"
  | _ => "bad-op"

end Driver.Dom.LineInfo
