import ElkVerif.Model.Upvalue
import Driver.Util
/-! domain `upv` (C13, C10 machine level)

`upv<TAB>run<TAB>size<TAB>max<TAB>ops(;)`   the ADDRESSED machine `CA` from `size` slots, limit `max` slots
   ops: `p V` push, `o` pop, `gl I`, `sl I V`, `cap I`, `cl I`, `ug K`, `us K V`, `fg J`, `fs J V`,
        `cc N K.K.K` call closure with handles, `cm N` call method, `tc N` tail call, `ret`, `grow`
   answer: `ok | r1,r2,… | cap=… sp=… fp=… st=… fr=fp:id.id/… up=… uv=o3,c7,… ol=… hs=…`
        or `err <E>@<index of failing op> | r1,r2,…`
`upv<TAB>ref<TAB>ops(;)`   index machine with the scope check + the cell machine `A`:
   answer: `ok r… | ok r…`  (C reads | A reads) or `err <E>@i | …` -/
namespace Driver.Dom.Upvalue
open Elk.Upvalue Driver

def tag : String := "upv"

def parseIds (s : String) : Option (List Nat) := optAll ((splitOnNE s ".").map parseNat?)

def parseOp (s : String) : Option Op :=
  match s.splitOn " " with
  | ["p", v] => do pure (.push (← parseInt? v))
  | ["o"] => some .pop
  | ["gl", i] => do pure (.getLocal (← parseNat? i))
  | ["sl", i, v] => do pure (.setLocal (← parseNat? i) (← parseInt? v))
  | ["cap", i] => do pure (.capture (← parseNat? i))
  | ["cl", i] => do pure (.close (← parseNat? i))
  | ["ug", k] => do pure (.uget (← parseNat? k))
  | ["us", k, v] => do pure (.uset (← parseNat? k) (← parseInt? v))
  | ["fg", j] => do pure (.fget (← parseNat? j))
  | ["fs", j, v] => do pure (.fset (← parseNat? j) (← parseInt? v))
  | ["cc", n] => do pure (.callc (← parseNat? n) [])
  | ["cc", n, ks] => do pure (.callc (← parseNat? n) (← parseIds ks))
  | ["cm", n] => do pure (.callm (← parseNat? n))
  | ["tc", n] => do pure (.tcall (← parseNat? n))
  | ["ret"] => some .ret
  | ["grow"] => some .grow
  | _ => none

def showErr : Err → String
  | .oob => "oob" | .full => "full" | .dangling => "dangling" | .corrupt => "corrupt"
  | .noframe => "noframe" | .badHandle => "badHandle" | .max => "max"

def showNats (sep : String) (l : List Nat) : String := joinWith sep (l.map toString)
def showVals (l : List Val) : String := joinWith "," (l.map showInt)

/-- slot index of an address inside the backing array, `w` (wild) otherwise -/
def showAddr (s : CA) (a : Int) : String :=
  if s.base ≤ a ∧ a < s.base + VS * s.mem.length ∧ (a - s.base) % VS = 0 then toString ((a - s.base) / VS).toNat
  else "w"

def showUvA (s : CA) : UvA → String
  | .opn a => "o" ++ showAddr s a
  | .closed v => "c" ++ showInt v

def showState (s : CA) : String :=
  let spI := ((s.sp - s.base) / VS).toNat
  let fr := s.frames.reverse.map fun f => showAddr s f.fp ++ ":" ++ showNats "." f.upvalues
  s!"cap={s.mem.length} sp={showAddr s s.sp} fp={showAddr s s.fp} st={showVals (s.mem.take spI)} " ++
  s!"fr={joinWith "/" fr} up={showNats "." s.upvalues} uv={joinWith "," (s.heap.map (showUvA s))} " ++
  s!"ol={showNats "," s.openL} hs={showNats "," s.hs}"

/-- the growth test of `callBytecodeFunction`, in IEEE doubles as in Go -/
def needGrowF (sp cap : Nat) : Bool := Float.ofNat sp > 0.7 * Float.ofNat cap

/-- a deterministic allocator: new arrays alternately above and below, never overlapping, not
a multiple of the slot size away -/
def allocD (s : CA) : Int :=
  if s.mem.length % 3 = 1 then s.base - VS * (2 * s.mem.length) - 56
  else s.base + VS * s.mem.length + 40

def runIdx {σ} (stp : σ → Op → Except Err (σ × Option Val)) : σ → Nat → List Op → List Val →
    (σ × List Val × Option (Err × Nat))
  | s, _, [], acc => (s, acc.reverse, none)
  | s, i, op :: ops, acc =>
    match stp s op with
    | .error e => (s, acc.reverse, some (e, i))
    | .ok (s', r) => runIdx stp s' (i + 1) ops (r.toList ++ acc)

def handle : List String → String
  | ["run", size, mx, ops] =>
    match parseNat? size, parseNat? mx, optAll ((splitOnNE ops ";").map parseOp) with
    | some n, some m, some os =>
      let cfg : Cfg := { needGrow := needGrowF, alloc := allocD, maxSize := m }
      match runIdx (stepCA cfg) (CA.init 4096 n) 0 os [] with
      | (s, rs, none) => s!"ok | {showVals rs} | {showState s}"
      | (_, rs, some (e, i)) => s!"err {showErr e}@{i} | {showVals rs}"
    | _, _, _ => "bad-op"
  | ["ref", ops] =>
    match optAll ((splitOnNE ops ";").map parseOp) with
    | some os =>
      let sh := fun (rs : List Val) (e : Option (Err × Nat)) =>
        match e with
        | none => s!"ok {showVals rs}"
        | some (e, i) => s!"err {showErr e}@{i} {showVals rs}"
      let (_, rc, ec) := runIdx stepS C.init 0 os []
      let (_, ra, ea) := runIdx stepA A.init 0 os []
      sh rc ec ++ " | " ++ sh ra ea
    | none => "bad-op"
  | _ => "bad-op"

end Driver.Dom.Upvalue
