import ElkVerif.Model.Paths
import ElkVerif.Gen.OpSelect
import Driver.Dom.Num
import Driver.Util
/-! domain `path` (C08)

`path<TAB>run<TAB>OP<TAB>TA<TAB>A<TAB>hex(LA)<TAB>TB<TAB>B<TAB>hex(LB)` — see `harness/dom/paths.go`.

answer `ok lit=?;R typed=<opcodes>;R union=<opcodes>;R call=?;R ucall=?;R`: the opcodes come from the probed
selection table (row of the static type of the left operand), `R` is the result every path must give when the
model covers the operator (ordering, `<=>`, `==`, `!=`, `=~`, `!~`, `===`, `!==` over numbers/String/Char), else `?`.
`?` matches anything. -/
namespace Driver.Dom.Paths
open Elk.Num Elk.Val Elk.Paths Driver

def tag : String := "path"

def unionWith : String → String
  | "Int" => "Int | Float"
  | "Float" => "Float | Int"
  | "String" => "String | Char"
  | "Char" => "Char | String"
  | t => t ++ " | Int"

def showBool (b : Bool) : String := if b then "true" else "false"

def showRes : Res Bool → String
  | .ok b => showBool b
  | .err => "err:Std::TypeError"

/-- the common result of all paths, when modelled -/
def predict (op : String) (a b : Val) : String :=
  match op with
  | "==" => showBool (Val.eqv a b)
  | "!=" => showBool (!Val.eqv a b)
  | "===" => showBool (Val.strictEq false a b)
  | "!==" => showBool (!Val.strictEq false a b)
  | _ =>
    match Val.ordered a b with
    | none => "?"
    | some (c, lt, le, gt, ge, lax) =>
      match op with
      | "<" => showRes lt
      | "<=" => showRes le
      | ">" => showRes gt
      | ">=" => showRes ge
      | "=~" => showBool lax
      | "!~" => showBool (!lax)
      | "<=>" =>
        match c with
        | .ok (some x) => s!"si:{x}"
        | .ok none => "nil"
        | .err => "err:Std::TypeError"
      | _ => "?"

def sel (ty op : String) : String :=
  match lookup Elk.Gen.OpSelect.rows Elk.Gen.OpSelect.ops ty op with
  | some o => o
  | none => "?"

def handle : List String → String
  | ["run", op, ta, a, _, _, b, _] =>
    match Driver.Dom.Num.parseOperand a, Driver.Dom.Num.parseOperand b with
    | some va, some vb =>
      if op.startsWith "u" && op.length == 2 then
        "ok lit=?;? typed=?;? union=?;? call=?;? ucall=?;?"
      else
      let r := predict op va vb
      s!"ok lit=?;{r} typed={sel ta op};{r} union={sel (unionWith ta) op};{r} call=?;{r} ucall=?;{r}"
    | _, _ => "bad-operand"
  | "grid" :: _ => "ok ?"
  | _ => "bad-op"

end Driver.Dom.Paths
