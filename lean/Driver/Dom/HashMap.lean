import ElkVerif.Model.HashMap
import Driver.Util
/-! domain `hm`: `hm<TAB>flags<TAB>op;op;…`
flags: `l` = print the slot layout and counters of changed tables (HashMapOfValue/HashRecordOfValue/HashSetOfValue),
otherwise only the sorted contents and length (native, Go-map backed variants).
A key is `id/hash/spec` (`spec` names the real Elk value, the harness checks that `hash` is its `vm.Hash`; the
model uses `id` for equality and `hash` for placement); values are integers; objects are numbered by creation.
ops: `new C` `set M K V` `get M K` `has M K` `del M K` `len M` `setcap M C` `grow M N` `clone M` `clonecap M C`
`cat A B` `copy T S` `eq A B` `items M` (All()) `iter M` (iterator) — sets: `add S K` `rem S K` `con S K` `union A B` `inter A B` `seq A B`
creation ops may carry an implementation tag (`new:r`), ignored by the model.
answer: `ok a1|changes ; a2|changes …` -/
namespace Driver.Dom.HashMap
open Elk.HashMap Driver

def tag : String := "hm"

structure Key where
  id : Nat
  hash : Nat
deriving Repr, Inhabited

abbrev T := Tbl Key Int

def khash (k : Key) : Nat := k.hash
def keqv (a b : Key) : Bool := a.id == b.id

def parseKey (s : String) : Option Key :=
  match s.splitOn "/" with
  | id :: h :: _ => do pure ⟨← parseNat? id, ← parseNat? h⟩
  | _ => none

inductive Op where
  | new (c : Nat) (impl : String) | set (m : Nat) (k : Key) (v : Int) | get (m : Nat) (k : Key) | has (m : Nat) (k : Key)
  | del (m : Nat) (k : Key) | len (m : Nat) | setcap (m c : Nat) | grow (m n : Nat) | clone (m : Nat)
  | clonecap (m c : Nat) | cat (a b : Nat) | copy (t s : Nat) | eq (a b : Nat) | items (m : Nat)
  | add (m : Nat) (k : Key) | union (a b : Nat) | inter (a b : Nat) | seq (a b : Nat)

def stripTag (s : String) : String := (s.splitOn ":").headD s

def parseOp (s : String) : Option Op :=
  match s.splitOn " " with
  | [] => none
  | k :: args =>
    match stripTag k, args with
    | "new", [c] => do pure (.new (← parseNat? c) (((k.splitOn ":").drop 1).headD "m"))
    | "set", [m, k, v] => do pure (.set (← parseNat? m) (← parseKey k) (← parseInt? v))
    | "get", [m, k] => do pure (.get (← parseNat? m) (← parseKey k))
    | "has", [m, k] => do pure (.has (← parseNat? m) (← parseKey k))
    | "con", [m, k] => do pure (.has (← parseNat? m) (← parseKey k))
    | "del", [m, k] => do pure (.del (← parseNat? m) (← parseKey k))
    | "rem", [m, k] => do pure (.del (← parseNat? m) (← parseKey k))
    | "len", [m] => do pure (.len (← parseNat? m))
    | "setcap", [m, c] => do pure (.setcap (← parseNat? m) (← parseNat? c))
    | "grow", [m, n] => do pure (.grow (← parseNat? m) (← parseNat? n))
    | "clone", [m] => do pure (.clone (← parseNat? m))
    | "clonecap", [m, c] => do pure (.clonecap (← parseNat? m) (← parseNat? c))
    | "cat", [a, b] => do pure (.cat (← parseNat? a) (← parseNat? b))
    | "copy", [t, s] => do pure (.copy (← parseNat? t) (← parseNat? s))
    | "eq", [a, b] => do pure (.eq (← parseNat? a) (← parseNat? b))
    | "items", [m] => do pure (.items (← parseNat? m))
    | "iter", [m] => do pure (.items (← parseNat? m))
    | "add", [m, k] => do pure (.add (← parseNat? m) (← parseKey k))
    | "union", [a, b] => do pure (.union (← parseNat? a) (← parseNat? b))
    | "inter", [a, b] => do pure (.inter (← parseNat? a) (← parseNat? b))
    | "seq", [a, b] => do pure (.seq (← parseNat? a) (← parseNat? b))
    | _, _ => none

def showSlot : Slot Key Int → String
  | .empty => "_"
  | .tomb => "x"
  | .live k v => s!"k{k.id}={v}"

def insertSorted (p : Nat × Int) : List (Nat × Int) → List (Nat × Int)
  | [] => [p]
  | q :: rest => if p.1 ≤ q.1 then p :: q :: rest else q :: insertSorted p rest

def showTbl (layout : Bool) (t : T) : String :=
  if layout then
    "{" ++ joinWith "," (t.slots.map showSlot) ++ "}E" ++ toString t.elements ++ "O" ++ toString t.occupied
  else
    let es := (t.toList.map fun (k, v) => (k.id, v)).foldr insertSorted []
    "{" ++ joinWith "," (es.map fun (i, v) => s!"k{i}={v}") ++ "}E" ++ toString t.elements

/-- the state-changing operations are those of the model's `mstep` -/
def toModelOp : Op → Option (Elk.HashMap.Op Key Int)
  | .new c _ => some (.new c)
  | .set m k v => some (.set m k v)
  | .del m k => some (.del m k)
  | .setcap m c => some (.setcap m c)
  | .grow m n => some (.grow m n)
  | .clone m => some (.clone m)
  | .clonecap m c => some (.clonecap m c)
  | .cat a b => some (.cat a b)
  | .copy t s => some (.copy t s)
  | .add m k => some (.set m k 0)        -- sets are tables whose value is irrelevant (printed as 0)
  | .union a b => some (.union a b)
  | .inter a b => some (.inter a b)
  | _ => none

/-- one operation on the object list: new object list and answer (`none` = dangling id) -/
def step (layout : Bool) (objs : List T) (op : Op) : Option (List T × String) :=
  match toModelOp op with
  | some mop =>
    -- the answer of a state-changing operation is computed before the step
    let ans : Option String :=
      match op with
      | .del m k => do
          let t ← objs[m]?
          match containsKey khash keqv t k with
          | .ok b => pure s!"b:{b}"
          | .panic => pure "panic"
      | .add m k => do
          let t ← objs[m]?
          match containsKey khash keqv t k with
          | .ok b => pure s!"b:{!b}"
          | .panic => pure "panic"
      | .new _ _ | .clone _ | .clonecap _ _ | .cat _ _ | .union _ _ | .inter _ _ => some s!"o:{objs.length}"
      | _ => some "-"
    match mstep khash keqv 0 objs mop, ans with
    | some (.ok objs'), some a => some (objs', a)
    | some .panic, some _ => some (objs, "panic")
    | _, _ => none
  | none =>
    match op with
    | .get m k => do
        let t ← objs[m]?
        match get khash keqv t k with
        | .ok .absent => pure (objs, "absent")
        | .ok (.val v) => pure (objs, s!"v:{v}")
        | .panic => pure (objs, "panic")
    | .has m k => do
        let t ← objs[m]?
        match containsKey khash keqv t k with
        | .ok b => pure (objs, s!"b:{b}")
        | .panic => pure (objs, "panic")
    | .len m => do
        let t ← objs[m]?
        pure (objs, s!"v:{t.elements}")
    | .eq a b => do
        let x ← objs[a]?
        let y ← objs[b]?
        match equal khash keqv (fun (v w : Int) => v == w) x y with
        | .ok r => pure (objs, s!"b:{r}")
        | .panic => pure (objs, "panic")
    | .seq a b => do
        let x ← objs[a]?
        let y ← objs[b]?
        match sEqual khash keqv x y with
        | .ok r => pure (objs, s!"b:{r}")
        | .panic => pure (objs, "panic")
    | .items m => do
        let t ← objs[m]?
        let es := t.toList.map fun (k, v) => (k.id, v)
        let es := if layout then es else es.foldr insertSorted []
        pure (objs, "[" ++ joinWith "," (es.map fun (i, v) => s!"k{i}={v}") ++ "]")
    | _ => none

def showChanges (layout : Bool) (before after : List T) : String :=
  let parts := (List.range after.length).filterMap fun id =>
    match after[id]? with
    | none => none
    | some t =>
      let s := showTbl layout t
      let changed := match before[id]? with
        | none => true
        | some t0 => showTbl layout t0 != s
      if changed then some (toString id ++ "=" ++ s) else none
  joinWith "&" parts

def isRec (t : String) : Bool := t == "r" || t == "nr"

/-- implementation tag of the object an operation creates (a map is never `==` to a record; a Go-map backed
record `+` a map is a map, every other record `+` is a record) -/
def newKind (kinds : List String) : Op → Option String
  | .new _ impl => some impl
  | .clone m | .clonecap m _ | .inter m _ => kinds[m]?
  | .cat a b | .union a b => do
      let ia ← kinds[a]?
      let ib ← kinds[b]?
      pure (if ia == ib then ia else if !isRec ia || (ia == "nr" && !isRec ib) then "m" else "r")
  | _ => none

def runShow (layout : Bool) : List T → List String → List Op → List String → Option (List String)
  | _, _, [], acc => some acc.reverse
  | objs, kinds, op :: ops, acc =>
    match step layout objs op with
    | none => none
    | some (objs', a) =>
      let a := match op with
        | .eq x y => if (kinds[x]?.map isRec) != (kinds[y]?.map isRec) then "b:false" else a
        | _ => a
      let kinds' := if objs'.length > objs.length then kinds ++ [(newKind kinds op).getD "m"] else kinds
      runShow layout objs' kinds' ops ((a ++ "|" ++ showChanges layout objs objs') :: acc)

def handle : List String → String
  | [flags, ops] =>
    match optAll ((splitOnNE ops ";").map parseOp) with
    | none => "bad-op"
    | some ops =>
      match runShow (flags.contains 'l') [] [] ops [] with
      | some outs => "ok " ++ joinWith " ; " outs
      | none => "bad-state"
  | _ => "bad-op"

end Driver.Dom.HashMap
