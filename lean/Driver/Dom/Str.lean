import ElkVerif.Model.Str
import Driver.StrUtil
/-! domain `str` (C20). One operation per line:
```
str counts <s> <segs>                 ok len=… bytes=… graphemes=… chars=r,… byteiter=b,… giter=hex,…
str char_at|byte_at <s> <kind>:<dec>  ok <n> | err Index
str grapheme_at <s> <kind>:<dec> <segs>
str rjust|ljust <s> <target> <padrune>
str concat|rmsuffix|cmp <s> s:<hex>|c:<rune>|o
str repeat <s> <count>
str upper|lower <s> <casemap>         casemap = r>upper>lower,… for the runes of s that change
str utf8 <s>                          Go unicode/utf8 vs Model/Utf8
str enc <rune>
```
`<s>` hex (`-` empty); `<segs>` = uniseg clusters of `s` (comma separated hex), supplied by `strref seg`. -/
namespace Driver.Dom.Str
open Elk.Str Elk.Utf8 Driver Driver.StrUtil

def tag : String := "str"

def parseKind : String → Option IKind
  | "int" => some .int | "i64" => some .i64 | "i32" => some .i32 | "i16" => some .i16 | "i8" => some .i8
  | "u64" => some .u64 | "u32" => some .u32 | "u16" => some .u16 | "u8" => some .u8 | "uint" => some .uint
  | _ => none

def parseIdx (s : String) : Option (IKind × Int) :=
  match s.splitOn ":" with
  | [k, d] => do pure (← parseKind k, ← parseInt? d)
  | _ => none

def parseArg (s : String) : Option Arg :=
  if s == "o" then some .other else
  match s.splitOn ":" with
  | ["s", h] => (unhex h).map .str
  | ["c", d] => (parseInt? d).map .chr
  | _ => none

def showErr : Err → String
  | .index => "err Index" | .outOfRange => "err OutOfRange" | .type => "err Type"

def showRes {α} (f : α → String) : Res α → String
  | .ok a => "ok " ++ f a
  | .err e => showErr e
  | .panic => "panic"

def showB (b : Bool) : String := if b then "t" else "f"

def resPart {α} (f : α → String) : Res α → String
  | .ok a => f a
  | .err e => showErr e
  | .panic => "panic"

def parseCase (s : String) : Option (List (Nat × Nat × Nat)) :=
  if s == "-" then some [] else
  optAll ((s.splitOn ",").map fun e => match e.splitOn ">" with
    | [a, b, c] => do pure (← parseNat? a, ← parseNat? b, ← parseNat? c)
    | _ => none)

def lookupCase (tbl : List (Nat × Nat × Nat)) (upper : Bool) (r : Nat) : Nat :=
  match tbl.find? (·.1 == r) with
  | some (_, u, l) => if upper then u else l
  | none => r

def showUtf8 (s : Bytes) : String :=
  let ps := pieces s
  let l := decodeLastRune s
  s!"ok n={runeCount s} last={l.1}:{l.2} valid={if valid s then "true" else "false"} " ++
    joinWith "," (ps.map fun p => s!"{p.1}:{p.2}")

def handle : List String → String
  | ["utf8", s] => match unhex s with
    | some bs => showUtf8 bs
    | none => "bad-op"
  | ["enc", d] => match parseInt? d with
    | some r => s!"ok {hexs (encodeRuneInt r)} len={runeLen r}"
    | none => "bad-op"
  | ["counts", s, segs] => match unhex s, unhexMany segs with
    | some bs, some gs =>
      if gs.flatten != bs then "bad-segs" else
      s!"ok len={charCount bs} bytes={byteCount bs} graphemes={gs.length} chars={natList (charIter bs)} byteiter={natList ((byteIter bs).map (·.toNat))} giter={hexMany gs}"
    | _, _ => "bad-op"
  | ["char_at", s, idx] => match unhex s, parseIdx idx with
    | some bs, some (k, v) => showRes toString (charAt bs k v)
    | _, _ => "bad-op"
  | ["byte_at", s, idx] => match unhex s, parseIdx idx with
    | some bs, some (k, v) => showRes (fun b => toString b.toNat) (byteAt bs k v)
    | _, _ => "bad-op"
  | ["grapheme_at", s, idx, segs] => match unhex s, parseIdx idx, unhexMany segs with
    | some bs, some (k, v), some gs =>
      if gs.flatten != bs then "bad-segs" else showRes hexs (graphemeAt gs k v)
    | _, _, _ => "bad-op"
  | ["rjust", s, t, c] => match unhex s, parseInt? t, parseInt? c with
    | some bs, some t, some c => "ok " ++ hexs (rjust bs t c)
    | _, _, _ => "bad-op"
  | ["ljust", s, t, c] => match unhex s, parseInt? t, parseInt? c with
    | some bs, some t, some c => "ok " ++ hexs (ljust bs t c)
    | _, _, _ => "bad-op"
  | ["concat", s, a] => match unhex s, parseArg a with
    | some bs, some a => showRes hexs (concat bs a)
    | _, _ => "bad-op"
  | ["rmsuffix", s, a] => match unhex s, parseArg a with
    | some bs, some a => showRes hexs (removeSuffix bs a)
    | _, _ => "bad-op"
  | ["repeat", s, n] => match unhex s, parseInt? n with
    | some bs, some n =>
      -- never materialise huge results in the model either
      if 0 ≤ n ∧ (bs.length : Int) * n ≤ 100000000 ∨ n < 0 ∨ (bs.length : Int) * n > maxInt ∨ ¬ (-two63 ≤ n ∧ n < two63)
      then showRes hexs (repeatStr bs n) else "bad-too-big"
    | _, _ => "bad-op"
  | ["cmp", s, a] => match unhex s, parseArg a with
    | some bs, some a =>
      "ok " ++ joinWith " " [resPart toString (compare bs a), resPart showB (lt bs a), resPart showB (le bs a),
        resPart showB (gt bs a), resPart showB (ge bs a), showB (equal bs a)]
    | _, _ => "bad-op"
  | ["upper", s, cm] => match unhex s, parseCase cm with
    | some bs, some tbl => "ok " ++ hexs (mapStr (lookupCase tbl true) bs)
    | _, _ => "bad-op"
  | ["lower", s, cm] => match unhex s, parseCase cm with
    | some bs, some tbl => "ok " ++ hexs (mapStr (lookupCase tbl false) bs)
    | _, _ => "bad-op"
  | _ => "bad-op"

end Driver.Dom.Str
