import ElkVerif.Model.Val
import Driver.Util
/-! domain `num` (C18)

`num<TAB>rel<TAB>V1[<TAB>V2[<TAB>V3]]`  answer `ok <codes for every ordered pair> | <hash codes> <y|n per pair i<j> | same …`
`num<TAB>hashbytes<TAB>V`               answer `ok <hex of the byte stream hashed>`
`num<TAB>hashis<TAB>V<TAB>HEX`          answer `ok t` iff HEX is the model's byte stream for V

Operand syntax: see `harness/dom/num.go`. For `x:<hex source>|<structure>` the model reads the structure.
Codes per ordered pair: `<=> < <= > >= =~ == ===`; for pairs outside {numbers}² ∪ {String,Char}² only
`==` and `===` are modelled, the other six positions are `-` on both sides. -/
namespace Driver.Dom.Num
open Elk.Num Elk.Val Driver

def tag : String := "num"

def hexVal (c : Char) : Option Nat :=
  if '0' ≤ c ∧ c ≤ '9' then some (c.toNat - 48)
  else if 'a' ≤ c ∧ c ≤ 'f' then some (c.toNat - 87)
  else none

def parseHexNat (s : String) : Option Nat :=
  if s.isEmpty then none else
  s.toList.foldl (fun acc c => do
    let a ← acc
    let d ← hexVal c
    pure (a * 16 + d)) (some 0)

def parseHexBytes (s : String) : Option (List UInt8) :=
  let rec go : List Char → Option (List UInt8)
    | [] => some []
    | a :: b :: rest => do
      let x ← hexVal a
      let y ← hexVal b
      let r ← go rest
      pure (UInt8.ofNat (x * 16 + y) :: r)
    | _ => none
  go s.toList

def ikOf : String → Option IK
  | "i64" => some .i64 | "i32" => some .i32 | "i16" => some .i16 | "i8" => some .i8
  | "u64" => some .u64 | "u32" => some .u32 | "u16" => some .u16 | "u8" => some .u8 | "ui" => some .ui
  | _ => none

/-- one atom token (no spaces) -/
def parseAtom (s : String) : Option Val :=
  match s with
  | "nil" => some .nil
  | "true" => some (.bool true)
  | "false" => some (.bool false)
  | _ =>
  match s.splitOn ":" with
  | ["si", v] => do pure (.num (.si (← parseInt? v)))
  | ["bi", v] => do pure (.num (.bi (← parseInt? v)))
  | ["f", b] => do pure (.num (.f (← parseHexNat b)))
  | ["f64", b] => do pure (.num (.f64 (← parseHexNat b)))
  | ["f32", b] => do pure (.num (.f32 (← parseHexNat b)))
  | ["bf", "nan"] => some (.num (.bf .nan))
  | ["bf", "+inf"] => some (.num (.bf (.inf false)))
  | ["bf", "-inf"] => some (.num (.bf (.inf true)))
  | ["bf", p, sg, m, e] => do
      let neg ← (if sg == "+" then some false else if sg == "-" then some true else none)
      pure (.num (.bf (.fin (← parseNat? p) neg (← parseNat? m) (← parseInt? e))))
  | ["s", h] => do pure (.str (← parseHexBytes h))
  | ["y", h] => do pure (.sym (← parseHexBytes h))
  | ["c", v] => do pure (.chr (← parseInt? v))
  | [k, v] => do pure (.num (.int (← ikOf k) (← parseInt? v)))
  | _ => none

/-- prefix token form of compound values; fuel = number of tokens -/
def parseToks : Nat → List String → Option (Val × List String)
  | 0, _ => none
  | fuel + 1, toks =>
    let many (n : Nat) (rest : List String) : Option (List Val × List String) :=
      (List.range n).foldl (fun acc _ => do
        let (vs, r) ← acc
        let (v, r') ← parseToks fuel r
        pure (vs ++ [v], r')) (some ([], rest))
    let two (rest : List String) : Option (Val × Val × List String) := do
      let (a, r) ← parseToks fuel rest
      let (b, r') ← parseToks fuel r
      pure (a, b, r')
    let pairsOf (vs : List Val) : List (Val × Val) :=
      let rec go : List Val → List (Val × Val)
        | a :: b :: rest => (a, b) :: go rest
        | _ => []
      go vs
    match toks with
    | [] => none
    | "list" :: n :: rest => do let (vs, r) ← many (← parseNat? n) rest; pure (.list vs, r)
    | "tuple" :: n :: rest => do let (vs, r) ← many (← parseNat? n) rest; pure (.tuple vs, r)
    | "set" :: n :: rest => do let (vs, r) ← many (← parseNat? n) rest; pure (.set vs, r)
    | "map" :: n :: rest => do let (vs, r) ← many (2 * (← parseNat? n)) rest; pure (.map (pairsOf vs), r)
    | "rec" :: n :: rest => do let (vs, r) ← many (2 * (← parseNat? n)) rest; pure (.record (pairsOf vs), r)
    | "pair" :: rest => do let (a, b, r) ← two rest; pure (.pair a b, r)
    | "crange" :: rest => do let (a, b, r) ← two rest; pure (.range .closed (some a) (some b), r)
    | "orange" :: rest => do let (a, b, r) ← two rest; pure (.range .opn (some a) (some b), r)
    | "lorange" :: rest => do let (a, b, r) ← two rest; pure (.range .leftOpen (some a) (some b), r)
    | "rorange" :: rest => do let (a, b, r) ← two rest; pure (.range .rightOpen (some a) (some b), r)
    | "ecrange" :: rest => do let (a, r) ← parseToks fuel rest; pure (.range .endlessClosed (some a) none, r)
    | "eorange" :: rest => do let (a, r) ← parseToks fuel rest; pure (.range .endlessOpen (some a) none, r)
    | "bcrange" :: rest => do let (a, r) ← parseToks fuel rest; pure (.range .beginlessClosed none (some a), r)
    | "borange" :: rest => do let (a, r) ← parseToks fuel rest; pure (.range .beginlessOpen none (some a), r)
    | "date" :: y :: m :: d :: rest => do pure (.date (← parseInt? y) (← parseInt? m) (← parseInt? d), rest)
    | a :: rest => do pure (← parseAtom a, rest)

def parseOperand (s : String) : Option Val :=
  if s.startsWith "x:" then
    match s.splitOn "|" with
    | [_, struct] =>
      let toks := struct.splitOn " "
      match parseToks (toks.length + 1) toks with
      | some (v, []) => some v
      | _ => none
    | _ => none
  else parseAtom s

def cmpCode : Res (Option Int) → Char
  | .ok (some c) => if c < 0 then '<' else if c = 0 then '=' else '>'
  | .ok none => 'n'
  | .err => 'E'

def boolCode : Res Bool → Char
  | .ok true => 't'
  | .ok false => 'f'
  | .err => 'E'

def b2c (b : Bool) : Char := if b then 't' else 'f'

/-- the eight codes for the ordered pair at positions (i, j) -/
def pairCodes (i j : Nat) (a b : Val) : String :=
  let eqs := [b2c (Val.eqv a b), b2c (Val.strictEq (i == j) a b)]
  match Val.ordered a b with
  | some (c, lt, le, gt, ge, lax) =>
    String.ofList ([cmpCode c, boolCode lt, boolCode le, boolCode gt, boolCode ge, b2c lax] ++ eqs)
  | none => String.ofList (['-', '-', '-', '-', '-', '-'] ++ eqs)

def hexOfBytes (bs : List UInt8) : String :=
  String.ofList (bs.flatMap fun b => [hexDigit (b.toNat / 16), hexDigit (b.toNat % 16)])

def handle : List String → String
  | "rel" :: ops =>
    match optAll (ops.map parseOperand) with
    | none => "bad-operand"
    | some vs =>
      if vs.length = 0 ∨ vs.length > 3 then "bad-op" else
      let idx := List.range vs.length
      let iv := idx.zip vs
      let codes := iv.flatMap fun (i, a) => iv.map fun (j, b) => pairCodes i j a b
      let hc := String.ofList (vs.map fun _ => 'h')
      let heq := iv.flatMap fun (i, a) => (iv.filter fun (j, _) => i < j).map fun (j, b) =>
        if Val.hashEq (i == j) a b then "y" else "n"
      "ok " ++ joinWith " " codes ++ " | " ++ joinWith " " (hc :: heq) ++ " | " ++
        joinWith " " (vs.map fun _ => "same")
  | ["hashbytes", v] =>
    match parseOperand v with
    | some (.num n) => "ok " ++ hexOfBytes (hashBytes n)
    | some w => match Val.hashBytes? w with
      | some bs => "ok " ++ hexOfBytes bs
      | none => "ok identity"
    | none => "bad-operand"
  | ["hashis", v, h] =>
    match parseOperand v, parseHexBytes h with
    | some w, some bs => if Val.hashBytes? w == some bs then "ok t" else "ok f"
    | _, _ => "bad-operand"
  | _ => "bad-op"

end Driver.Dom.Num
