import ElkVerif.Model.Filter
import Driver.Util
/-! domain `flt` (C34): `flt<TAB>run|cli<TAB>tree<TAB>filters`

tree (space separated tokens; names are `=` followed by the name with `_` for a space):
  `S d|c <name> <file> <first> <last> … E`        describe/context with its items
  `C t|i|s <id> <name> <file> <first> <last> p|f|e` test/it/should, body passes/fails/errors
  `H ba|aa|be|ae <id> p|f|e <file> <line>`         hook
filters (`;` separated, in registration order):
  `g:<pattern>:<full names that match, ','>`     the pattern is only read by the implementation
  `p:<glob>:<line>:<files that match, ','>`      line -1 = none
answers:
  run: `ok status=… registered=<ids> reports=<id:status:name> events=<markers>` (each list sorted as strings)
  cli: `ok exit=N events=<markers>` (markers as printed by a trailing root `after_all`) -/
namespace Driver.Dom.Filter
open Elk.Filter Driver

def tag : String := "tfl"

inductive Item where
  | suite (s : Suite)
  | case (c : Case)
  | hook (kind : String) (h : Hook)

def decodeName (s : String) : Option String :=
  match s.toList with
  | '=' :: rest => some (String.ofList (rest.map fun c => if c = '_' then ' ' else c))
  | _ => none

def encodeName (s : String) : String :=
  "=" ++ String.ofList (s.toList.map fun c => if c = ' ' then '_' else c)

def parseOutcome : String → Option Outcome
  | "p" => some .pass | "f" => some .fail | "e" => some .error | _ => none

def collect (items : List Item) : Hooks × List Case × List Suite :=
  items.foldl (init := (({} : Hooks), [], [])) fun (h, cs, ss) it =>
    match it with
    | .suite s => (h, cs, ss ++ [s])
    | .case c => (h, cs ++ [c], ss)
    | .hook "ba" k => ({ h with beforeAll := h.beforeAll ++ [k] }, cs, ss)
    | .hook "aa" k => ({ h with afterAll := h.afterAll ++ [k] }, cs, ss)
    | .hook "be" k => ({ h with beforeEach := h.beforeEach ++ [k] }, cs, ss)
    | .hook _ k => ({ h with afterEach := h.afterEach ++ [k] }, cs, ss)

/-- items up to the matching `E` (nested) or the end of the tokens (top level) -/
def parseItems : Nat → Bool → List String → Option (List Item × List String)
  | 0, _, _ => none
  | _, false, [] => some ([], [])
  | _, true, [] => none
  | _, nested, "E" :: rest => if nested then some ([], rest) else none
  | fuel + 1, nested, "S" :: _kind :: name :: file :: first :: last :: rest => do
    let name ← decodeName name
    let first ← parseInt? first
    let last ← parseInt? last
    let (inner, rest) ← parseItems fuel true rest
    let (h, cs, ss) := collect inner
    let (more, rest) ← parseItems fuel nested rest
    pure (.suite (.mk name ⟨file, first, last⟩ h cs ss) :: more, rest)
  | fuel + 1, nested, "C" :: kind :: id :: name :: file :: first :: last :: o :: rest => do
    let id ← parseNat? id
    let name ← decodeName name
    let first ← parseInt? first
    let last ← parseInt? last
    let o ← parseOutcome o
    let name ← match kind with
      | "t" => some name | "i" => some ("it " ++ name) | "s" => some ("should " ++ name) | _ => none
    let (more, rest) ← parseItems fuel nested rest
    pure (.case ⟨id, name, ⟨file, first, last⟩, o⟩ :: more, rest)
  | fuel + 1, nested, "H" :: kind :: id :: o :: _file :: _line :: rest => do
    let id ← parseNat? id
    let o ← parseOutcome o
    if !(["ba", "aa", "be", "ae"].contains kind) then none
    let (more, rest) ← parseItems fuel nested rest
    pure (.hook kind ⟨id, o⟩ :: more, rest)
  | _, _, _ => none

def parseFilter (s : String) : Option Filter :=
  match s.splitOn ":" with
  | ["g", _pat, names] => do
    let ns ← optAll ((splitOnNE names ",").map decodeName)
    pure (.grep fun n => ns.contains n)
  | ["p", _glob, line, files] => do
    let l ← parseInt? line
    let fsl := splitOnNE files ","
    pure (.path (fun f => fsl.contains f) l)
  | _ => none

def showStatus : Status → String
  | .pending => "pending" | .failed => "failed" | .error => "error"
  | .skipped => "skipped" | .running => "running" | .success => "success"

def showEv (e : Ev) : String :=
  (match e.kind with
   | .body => "b" | .beforeAll => "ba" | .afterAll => "aa" | .beforeEach => "be" | .afterEach => "ae")
  ++ toString e.id

def sortStrings (xs : List String) : List String := xs.mergeSort fun a b => !(b < a)

mutual
def regIds : RSuite → List String
  | .mk _ _ _ cases subs => cases.map (fun rc => toString rc.c.id) ++ regIdsList subs
def regIdsList : List RSuite → List String
  | [] => []
  | s :: ss => regIds s ++ regIdsList ss
end

def hiddenId : Nat := 999999

def handle : List String → String
  | [op, tree, filters] =>
    let toks := (tree.splitOn " ").filter (· ≠ "")
    match parseItems (toks.length + 1) false toks, optAll ((splitOnNE filters ";").map parseFilter) with
    | some (items, []), some fs =>
      let (h, cs, ss) := collect items
      if op = "run" then
        let reg := register fs ⟨h, cs, ss⟩
        let rep := run reg
        s!"ok status={showStatus rep.status} registered={joinWith "," (sortStrings (regIds reg))} reports={joinWith "," (sortStrings (rep.cases.map fun cr => s!"{cr.c.id}:{showStatus cr.status}:{encodeName cr.fullName}"))} events={joinWith "," (sortStrings (rep.events.map showEv))}"
      else if op = "cli" then
        -- main.elk.test ends with a passing root after_all that prints what ran so far
        let h' := { h with afterAll := h.afterAll ++ [⟨hiddenId, .pass⟩] }
        let rep := elkTest fs ⟨h', cs, ss⟩
        let seen := if rep.events.any (fun e => e.id = hiddenId) then
            rep.events.takeWhile (fun e => e.id ≠ hiddenId) else []
        s!"ok exit={exitCode rep} events={joinWith "," (sortStrings (seen.map showEv))}"
      else "bad-op"
    | _, _ => "bad-op"
  | _ => "bad-op"

end Driver.Dom.Filter
