import ElkVerif.Model.Narrow
import Driver.Util
import Driver.Sexp
/-! domain `nar` (C02)

`nar<TAB>if<TAB>cfg<TAB>masks<TAB>cond`  → `ok ty=M ann=a0,a1,… then=m0,m1,… else=m0,m1,…`
         (ann: static types of the identifier occurrences of the condition, in source order; `isa`/`inst`
         operands excluded)
  cfg    two characters `0|1`: orNilFixed, andNotNilFixed (`00` = the code as found)
  masks  comma separated static types of the locals 0,1,…; a type is the bit mask of its members in
         the order nil=1, false=2, true=4, 1=8, 2=16, "a"=32
  cond   `(v i)` `(l N|F|T|1|2|a)` `(not c)` `(and a b)` `(or a b)` `(nc a b)` `(eq a b)` `(ne a b)`
         `(isa i Class)` `(inst i Class)`   Class ∈ Int String Bool Nil True False Value
`nar<TAB>ev<TAB>values<TAB>cond` → `ok V`   value of the condition (values: comma separated N F T 1 2 a)
-/
namespace Driver.Dom.Narrow
open Elk.Narrow Driver

def tag : String := "nar"

def bitOf : Val → Nat
  | .nil => 1 | .fls => 2 | .tru => 4 | .i1 => 8 | .i2 => 16 | .s1 => 32

def tyOfMask (m : Nat) : Ty := fun v => (m / bitOf v) % 2 == 1
def maskOf (t : Ty) : Nat := (Val.all.filter t).foldl (fun acc v => acc + bitOf v) 0

def pVal : String → Option Val
  | "N" => some .nil | "F" => some .fls | "T" => some .tru
  | "1" => some .i1 | "2" => some .i2 | "a" => some .s1
  | _ => none

def showVal : Val → String
  | .nil => "N" | .fls => "F" | .tru => "T" | .i1 => "1" | .i2 => "2" | .s1 => "a"

def clsMask : String → Option Nat
  | "Int" => some 24 | "String" => some 32 | "Bool" => some 6 | "Nil" => some 1
  | "True" => some 4 | "False" => some 2 | "Value" => some 63
  | _ => none

partial def pCond : Sexp → Option Cond
  | .list [.atom "v", .atom i] => i.toNat?.map .var
  | .list [.atom "l", .atom v] => (pVal v).map .lit
  | .list [.atom "not", c] => (pCond c).map .not
  | .list [.atom "and", a, b] => do pure (.and (← pCond a) (← pCond b))
  | .list [.atom "or", a, b] => do pure (.or (← pCond a) (← pCond b))
  | .list [.atom "nc", a, b] => do pure (.nilco (← pCond a) (← pCond b))
  | .list [.atom "eq", a, b] => do pure (.eq (← pCond a) (← pCond b))
  | .list [.atom "ne", a, b] => do pure (.ne (← pCond a) (← pCond b))
  | .list [.atom "isa", .atom i, .atom c] => do pure (.isA (← i.toNat?) (tyOfMask (← clsMask c)))
  | .list [.atom "inst", .atom i, .atom c] => do pure (.instOf (← i.toNat?) (tyOfMask (← clsMask c)))
  | _ => none

/-- annotated types of the identifier occurrences, in source order -/
def varAnns : ACond → List Ty
  | .var _ τ => [τ]
  | .lit _ _ => []
  | .not c => varAnns c
  | .and a b _ | .or a b _ | .nilco a b _ | .eq a b | .ne a b => varAnns a ++ varAnns b
  | .isA _ _ | .instOf _ _ => []

def envOf (ms : List Nat) : TEnv := fun x => tyOfMask (ms.getD x 0)

def handle : List String → String
  | ["if", cfg, masks, cond] =>
    match optAll ((splitOnNE masks ",").map parseNat?), (Sexp.parse cond).bind pCond with
    | some ms, some c =>
      let cf : Cfg := ⟨cfg.take 1 == "1", (cfg.drop 1).take 1 == "1"⟩
      let Γ := envOf ms
      let ac := check cf Γ c
      let th := narrow cf ac .truthy Γ
      let el := narrow cf ac .falsy Γ
      let idx := List.range ms.length
      s!"ok ty={maskOf ac.ty} ann={joinWith "," ((varAnns ac).map fun t => toString (maskOf t))} then={joinWith "," (idx.map fun i => toString (maskOf (th i)))} else={joinWith "," (idx.map fun i => toString (maskOf (el i)))}"
    | _, _ => "bad-op"
  | ["ev", values, cond] =>
    match optAll ((splitOnNE values ",").map pVal), (Sexp.parse cond).bind pCond with
    | some vs, some c =>
      let ρ : VEnv := fun x => vs.getD x .nil
      "ok " ++ showVal (eval ρ (check ⟨false, false⟩ (fun _ => fun _ => true) c))
    | _, _ => "bad-op"
  | _ => "bad-op"

end Driver.Dom.Narrow
