import ElkVerif.Model.Mini.Eval
import ElkVerif.Model.Mini.Types
import ElkVerif.Model.Mini.TypesB
import Driver.Util
import Driver.Sexp
/-!
domain `mini`:
  `mini<TAB>src<TAB>PROG`          → `ok <Elk source, \n and \\ escaped>`
  `mini<TAB>run<TAB>FUEL<TAB>PROG` → `ok <outcome> | <printed lines joined by \n (escaped)>`
  `mini<TAB>tcb<TAB>PROG`          → `ok` if the model's program checker (`checkProg`, statements, methods,
                                     closures; Model/Mini/TypesB.lean) accepts PROG, else `reject`
PROG is an s-expression (grammar: see `decode*` below; generator: checks/mini_gen.py).
The decoder and the pretty-printer are harness code (unverified); the evaluator is the model.
-/
namespace Driver.Dom.Mini
open Elk.Mini Driver

def tag : String := "mini"

-- ---------------------------------------------------------------- decoding

partial def decTy : Sexp → Option Ty
  | .atom "int" => some .int
  | .atom "bool" => some .bool
  | .atom "str" => some .str
  | .atom "nil" => some .nil
  | .list [.atom "opt", t] => (decTy t).map .opt
  | .list [.atom "fn", .list ps, r] => do
      let ps ← optAll (ps.map decTy)
      let r ← decTy r
      pure (.fn ps r)
  | _ => none

def decLbl : Sexp → Option (Option String)
  | .atom "_" => some none
  | .atom l => some (some l)
  | _ => none

def decBin : String → Option BinOp
  | "add" => some .add | "sub" => some .sub | "mul" => some .mul | "div" => some .div
  | "mod" => some .mod | "lt" => some .lt | "le" => some .le | "gt" => some .gt
  | "ge" => some .ge | "eq" => some .eq | "ne" => some .ne | "concat" => some .concat
  | _ => none

def decPat : Sexp → Option Pat
  | .atom "isstr" => some .isStr
  | .atom "isint" => some .isInt
  | .atom "iszde" => some .isZde
  | .atom "any" => some .any
  | .list [.atom "lits", .str s] => some (.litStr s)
  | .list [.atom "liti", .atom n] => n.toInt?.map .litInt
  | _ => none

def decParam : Sexp → Option (String × Ty)
  | .list [.atom x, t] => (decTy t).map (x, ·)
  | _ => none

mutual
partial def decExpr : Sexp → Option Expr
  | .list [.atom "int", .atom n] => n.toInt?.map .int
  | .list [.atom "bool", .atom "true"] => some (.bool true)
  | .list [.atom "bool", .atom "false"] => some (.bool false)
  | .list [.atom "nil"] => some .nil
  | .list [.atom "str", .str s] => some (.str s)
  | .list [.atom "var", .atom x] => some (.var x)
  | .list [.atom "bin", .atom op, a, b] => do pure (.bin (← decBin op) (← decExpr a) (← decExpr b))
  | .list [.atom "un", .atom "neg", a] => (decExpr a).map (.un .neg)
  | .list [.atom "un", .atom "not", a] => (decExpr a).map (.un .not)
  | .list [.atom "and", a, b] => do pure (.and (← decExpr a) (← decExpr b))
  | .list [.atom "or", a, b] => do pure (.or (← decExpr a) (← decExpr b))
  | .list [.atom "nilco", a, b] => do pure (.nilco (← decExpr a) (← decExpr b))
  | .list [.atom "assign", .atom x, e] => (decExpr e).map (.assign x)
  | .list (.atom "calld" :: .atom f :: args) => (optAll (args.map decExpr)).map (.callDef f)
  | .list (.atom "callc" :: f :: args) => do pure (.callClo (← decExpr f) (← optAll (args.map decExpr)))
  | .list (.atom "lam" :: .list ps :: r :: body) => do
      pure (.lam (← optAll (ps.map decParam)) (← decTy r) (← optAll (body.map decStmt)))
  | _ => none
partial def decStmt : Sexp → Option Stmt
  | .list [.atom "decl", .atom x, .atom "_", e] => (decExpr e).map (.decl x none)
  | .list [.atom "decl", .atom x, t, e] => do pure (.decl x (some (← decTy t)) (← decExpr e))
  | .list [.atom "expr", e] => (decExpr e).map .expr
  | .list [.atom "print", e] => (decExpr e).map .print
  | .list [.atom "if", c, .list t, .list e] => do
      pure (.ite (← decExpr c) (← optAll (t.map decStmt)) (← optAll (e.map decStmt)))
  | .list (.atom "while" :: l :: c :: body) => do
      pure (.while (← decLbl l) (← decExpr c) (← optAll (body.map decStmt)))
  | .list (.atom "loop" :: l :: body) => do pure (.loop (← decLbl l) (← optAll (body.map decStmt)))
  | .list [.atom "brk", l] => (decLbl l).map .brk
  | .list [.atom "cont", l] => (decLbl l).map .cont
  | .list [.atom "ret", e] => (decExpr e).map .ret
  | .list [.atom "throw", e] => (decExpr e).map .throw
  | .list [.atom "try", .list body, .list cs, fin] => do
      let fin ← match fin with
        | .atom "_" => some none
        | .list (.atom "fin" :: f) => (optAll (f.map decStmt)).map some
        | _ => none
      pure (.try (← optAll (body.map decStmt)) (← optAll (cs.map decCatch)) fin)
  | _ => none
partial def decCatch : Sexp → Option Catch
  | .list (.atom "catch" :: p :: .atom x :: body) => do
      pure (.mk (← decPat p) x (← optAll (body.map decStmt)))
  | _ => none
end

def decDef : Sexp → Option Def
  | .list (.atom "def" :: .atom f :: .list ps :: r :: body) => do
      pure { name := f, params := ← optAll (ps.map decParam), ret := ← decTy r,
             body := ← optAll (body.map decStmt) }
  | _ => none

def decProg : Sexp → Option Prog
  | .list [.atom "prog", .atom m, .list (.atom "defs" :: ds), .list (.atom "main" :: ms)] => do
      pure { modName := m, defs := ← optAll (ds.map decDef), main := ← optAll (ms.map decStmt) }
  | _ => none

-- ---------------------------------------------------------------- printing (Elk concrete syntax)

partial def ppTy : Ty → String
  | .int => "Int" | .bool => "Bool" | .str => "String" | .nil => "nil"
  | .opt (.fn ps r) => "(" ++ ppTy (.fn ps r) ++ ")?"
  | .opt t => ppTy t ++ "?"
  | .fn ps r =>
    let args := joinWith ", " ((List.range ps.length).zip ps |>.map fun (i, t) => s!"a{i}: {ppTy t}")
    s!"|{args}|: {ppTy r}"

def ppBin : BinOp → String
  | .add => "+" | .sub => "-" | .mul => "*" | .div => "/" | .mod => "%" | .lt => "<"
  | .le => "<=" | .gt => ">" | .ge => ">=" | .eq => "==" | .ne => "!=" | .concat => "+"

def ind (k : Nat) : String := String.ofList (List.replicate (2 * k) ' ')

def ppPat : Pat → String → String
  | .isStr, x => s!"String() as {x}"
  | .isInt, x => s!"Int() as {x}"
  | .isZde, x => s!"Std::ZeroDivisionError() as {x}"
  | .litStr s, x => s!"\"{s}\" as {x}"
  | .litInt n, x => s!"{n} as {x}"
  | .any, x => x

mutual
/-- `m` = module name when printing top-level code (calls are qualified), "" inside the module -/
partial def ppExpr (m : String) (k : Nat) : Expr → String
  | .int n => if n < 0 then s!"({n})" else toString n
  | .bool b => if b then "true" else "false"
  | .nil => "nil"
  | .str s => "\"" ++ s ++ "\""
  | .var x => x
  | .bin op a b => s!"({ppExpr m k a} {ppBin op} {ppExpr m k b})"
  | .un .neg a => s!"(-{ppExpr m k a})"
  | .un .not a => s!"(!{ppExpr m k a})"
  | .and a b => s!"({ppExpr m k a} && {ppExpr m k b})"
  | .or a b => s!"({ppExpr m k a} || {ppExpr m k b})"
  | .nilco a b => s!"({ppExpr m k a} ?? {ppExpr m k b})"
  | .assign x e => s!"({x} = {ppExpr m k e})"
  | .callDef f args =>
    let a := joinWith ", " (args.map (ppExpr m k))
    if m.isEmpty then s!"{f}({a})" else s!"{m}.{f}({a})"
  | .callClo f args => s!"{ppExpr m k f}.call({joinWith ", " (args.map (ppExpr m k))})"
  | .lam ps r body =>
    let hd := "|" ++ joinWith ", " (ps.map fun (x, t) => s!"{x}: {ppTy t}") ++ "|: " ++ ppTy r
    match body with
    | [.expr e] => s!"({hd} -> {ppExpr m k e})"
    | _ => s!"{hd} ->\n{ppBlock m (k + 1) body}{ind k}end"
partial def ppBlock (m : String) (k : Nat) (ss : List Stmt) : String :=
  String.join (ss.map fun s => ind k ++ ppStmt m k s ++ "\n")
partial def ppStmt (m : String) (k : Nat) : Stmt → String
  | .decl x none e => s!"var {x} = {ppExpr m k e}"
  | .decl x (some t) e => s!"var {x}: {ppTy t} = {ppExpr m k e}"
  | .expr (.assign x e) => s!"{x} = {ppExpr m k e}"
  | .expr e => ppExpr m k e
  | .print e => s!"println(({ppExpr m k e}).inspect)"
  | .ite c t [] => s!"if {ppExpr m k c}\n{ppBlock m (k + 1) t}{ind k}end"
  | .ite c t e => s!"if {ppExpr m k c}\n{ppBlock m (k + 1) t}{ind k}else\n{ppBlock m (k + 1) e}{ind k}end"
  | .while l c body =>
    (match l with | some l => s!"${l}: " | none => "") ++
      s!"while {ppExpr m k c}\n{ppBlock m (k + 1) body}{ind k}end"
  | .loop l body =>
    (match l with | some l => s!"${l}: " | none => "") ++ s!"loop\n{ppBlock m (k + 1) body}{ind k}end"
  | .brk none => "break"
  | .brk (some l) => s!"break[{l}]"
  | .cont none => "continue"
  | .cont (some l) => s!"continue[{l}]"
  | .ret e => s!"return {ppExpr m k e}"
  | .throw e => s!"throw unchecked {ppExpr m k e}"
  | .try body cs fin =>
    "do\n" ++ ppBlock m (k + 1) body ++
    String.join (cs.map fun | .mk p x b => s!"{ind k}catch {ppPat p x}\n{ppBlock m (k + 1) b}") ++
    (match fin with | some f => s!"{ind k}finally\n{ppBlock m (k + 1) f}" | none => "") ++
    ind k ++ "end"
end

def ppDef (d : Def) : String :=
  let ps := joinWith ", " (d.params.map fun (x, t) => s!"{x}: {ppTy t}")
  s!"  def {d.name}({ps}): {ppTy d.ret}\n{ppBlock "" 2 d.body}  end\n"

def ppProg (p : Prog) : String :=
  (if p.defs.isEmpty then "" else s!"module {p.modName}\n" ++ String.join (p.defs.map ppDef) ++ "end\n")
    ++ ppBlock p.modName 0 p.main

def esc (s : String) : String :=
  (s.replace "\\" "\\\\").replace "\n" "\\n"

def showOut : Out → String
  | .val _ => "val"
  | .ret v => "ret " ++ v.inspect
  | .brk _ => "stuck break-at-top"
  | .cont _ => "stuck continue-at-top"
  | .thrw .zde => "error Std::ZeroDivisionError"
  | .thrw v => "thrown " ++ v.inspect
  | .stuck w => "stuck " ++ w
  | .timeout => "timeout"

def decBTy : Sexp → Option BTy
  | .atom "int" => some .int
  | .atom "bool" => some .bool
  | .atom "str" => some .str
  | _ => none

def decSTy : Sexp → Option STy
  | .atom "nil" => some .nil
  | .list [.atom "opt", b] => (decBTy b).map .opt
  | b => (decBTy b).map .base

def showBTy : BTy → String
  | .int => "int" | .bool => "bool" | .str => "str"

def showSTy : STy → String
  | .base b => showBTy b
  | .nil => "nil"
  | .opt b => "(opt " ++ showBTy b ++ ")"

def decTEnv : Sexp → Option TEnv
  | .list xs => optAll (xs.map fun
      | .list [.atom x, t] => (decSTy t).map (x, ·)
      | _ => none)
  | _ => none

def handle : List String → String
  | ["tc", ctx, e] =>
    -- `mini<TAB>tc<TAB>((x int) (z (opt int)))<TAB>EXPR` → the model checker's verdict
    match (Sexp.parse ctx).bind decTEnv, (Sexp.parse e).bind decExpr with
    | some g, some ex =>
      match check g 64 ex with
      | some t => "ok " ++ showSTy t
      | none => "ok none"
    | _, _ => "bad-op"
  | ["tcb", prog] =>
    -- `mini<TAB>tcb<TAB>PROG` → the model's whole-program checker (stages B–D): `ok` / `reject`
    match (Sexp.parse prog).bind decProg with
    | some p => if checkProg 256 p then "ok" else "reject"
    | none => "bad-op"
  | ["src", prog] =>
    match (Sexp.parse prog).bind decProg with
    | some p => "ok " ++ esc (ppProg p)
    | none => "bad-op"
  | ["run", fuel, prog] =>
    match fuel.toNat?, (Sexp.parse prog).bind decProg with
    | some n, some p =>
      let (o, s) := runProg n p
      s!"ok {showOut o} | {esc (joinWith "\n" s.lines)}"
    | _, _ => "bad-op"
  | _ => "bad-op"

end Driver.Dom.Mini
