import ElkVerif.Model.Lex
import Driver.Util
/-! domain `lex` (C04): the per-instance certificate checker.

`lex<TAB>cert<TAB>n|e<TAB>srchex<TAB>tokens<TAB>colourhex`
  tokens    = `-` or comma separated `type:soff:sline:scol:eoff:eline:ecol:sgr` (sgr = codes joined by `.`, `-` = none)
  colourhex = the real `Colorize` output (`-` = empty)
answer: `ok spans=0|1 pos=0|lax|1 colour=0|1|panic`
  spans  = `spansOk src toks`
  pos    = `positionsOk` (1), only `positionsOkLax` (lax), neither (0)
  colour = the modelled `colorize` does not panic, its rendering equals the real output byte for byte
           and its payload is the source
(`lex<TAB>tok<TAB>…` lines are answered by the implementation only.) -/
namespace Driver.Dom.Lex
open Elk.Lex Driver

def tag : String := "lex"

def hexVal (c : Char) : Option Nat :=
  if '0' ≤ c ∧ c ≤ '9' then some (c.toNat - 48)
  else if 'a' ≤ c ∧ c ≤ 'f' then some (c.toNat - 87)
  else if 'A' ≤ c ∧ c ≤ 'F' then some (c.toNat - 55)
  else none

def hexBytesAux : List Char → List Nat → Option (List Nat)
  | [], acc => some acc.reverse
  | [_], _ => none
  | a :: b :: rest, acc => do
    let x ← hexVal a
    let y ← hexVal b
    hexBytesAux rest ((x * 16 + y) :: acc)

def hexBytes (s : String) : Option (List Nat) :=
  if s == "-" then some [] else hexBytesAux s.toList []

def parseTok (s : String) : Option Tok :=
  match s.splitOn ":" with
  | [ty, so, sl, sc, eo, el, ec, sg] => do
    let codes ← if sg == "-" then some [] else optAll ((sg.splitOn ".").map parseNat?)
    pure ⟨← parseNat? ty, ← parseInt? so, ← parseInt? sl, ← parseInt? sc,
          ← parseInt? eo, ← parseInt? el, ← parseInt? ec, codes⟩
  | _ => none

def parseToks (s : String) : Option (List Tok) :=
  if s == "-" then some [] else optAll ((s.splitOn ",").map parseTok)

def handle : List String → String
  | ["cert", _mode, srcHex, toksS, outHex] =>
    match hexBytes srcHex, parseToks toksS, hexBytes outHex with
    | some src, some toks, some out =>
      let sp := if spansOk src toks then "1" else "0"
      let ps := if positionsOk src toks then "1" else if positionsOkLax src toks then "lax" else "0"
      let co := match colorize src toks (fun t => t.sgr) with
        | none => "panic"
        | some segs => if render segs == out && payload segs == src then "1" else "0"
      s!"ok spans={sp} pos={ps} colour={co}"
    | _, _, _ => "bad-op"
  | _ => "bad-op"

end Driver.Dom.Lex
