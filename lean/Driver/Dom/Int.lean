import ElkVerif.Model.Int
import Driver.Util
/-! domain `int`: `int<TAB>fam<TAB>op<TAB>A<TAB>B`
fam: `val` (value.<Op>Val) | `ints` (value.<Op>Ints)
op : add sub mul div mod pow shl shr and or xor andnot cmp gt ge lt le eq | neg not inc dec even odd (B = `-`)
A,B: `s<decimal>` SmallInt, `b<decimal>` *BigInt (possibly un-normalised)
answer: `ok <rep><decimal> hk=<hex of the bytes hashed> | A' B'`, `ok true|false | A' B'`,
        `err ZeroDivision | A' B'`, `panic | A' B'`   (A' B' = operands re-read after the call) -/
namespace Driver.Dom.Int
open Elk.IntM Driver

def tag : String := "int"

def parseV (s : String) : Option IntV :=
  match s.toList with
  | 's' :: rest => do
      let n ← parseInt? (String.ofList rest)
      if fits64 n then some (.small (BitVec.ofInt 64 n)) else none
  | 'b' :: rest => do
      let n ← parseInt? (String.ofList rest)
      some (.big n)
  | _ => none

def showV : IntV → String
  | .small v => "s" ++ toString v.toInt
  | .big z => "b" ++ toString z

def hexDigit (n : Nat) : Char := "0123456789abcdef".toList.getD n '?'
def hexBytes (bs : List Nat) : String :=
  String.ofList (bs.flatMap fun b => [hexDigit (b / 16), hexDigit (b % 16)])

def parseOp : String → Option Op
  | "add" => some .add | "sub" => some .sub | "mul" => some .mul | "div" => some .div
  | "mod" => some .mod | "pow" => some .pow | "shl" => some .shl | "shr" => some .shr
  | "and" => some .and | "or" => some .or | "xor" => some .xor | "andnot" => some .andNot
  | "cmp" => some .cmp | "gt" => some .gt | "ge" => some .ge | "lt" => some .lt
  | "le" => some .le | "eq" => some .eq
  | _ => none

def parseUOp : String → Option UOp
  | "neg" => some .neg | "not" => some .not | "inc" => some .inc | "dec" => some .dec
  | "even" => some .even | "odd" => some .odd
  | _ => none

def showRes (r : Res) (tail : String) : String :=
  match r with
  | .val v => s!"ok {showV v} hk={hexBytes (hashKey v)} | {tail}"
  | .bool b => s!"ok {if b then "true" else "false"} | {tail}"
  | .zeroDiv => s!"err ZeroDivision | {tail}"
  | .goPanic => s!"panic | {tail}"

def handle : List String → String
  | [fam, op, a, b] =>
    match parseV a with
    | none => "bad-op"
    | some av =>
      if b == "-" then
        match parseUOp op with
        | none => "bad-op"
        | some u =>
          if fam == "val" then showRes (unVal u av) s!"{showV av} -"
          else if fam == "ints" then showRes (unInts u av) s!"{showV av} -"
          else "bad-op"
      else
        match parseV b, parseOp op with
        | some bv, some o =>
          if fam == "val" then showRes (binVal o av bv) s!"{showV av} {showV bv}"
          else if fam == "ints" then showRes (binInts o av bv) s!"{showV av} {showV bv}"
          else "bad-op"
        | _, _ => "bad-op"
  | _ => "bad-op"

end Driver.Dom.Int
