import ElkVerif.Model.Regex.Front
import Driver.Util
/-! domain `rx` (C21): the transpiler model.

`rx<TAB>trm<TAB>flags<TAB>astdump`   (astdump = prefix form printed by harness/dom/rx.go `dumpRx`, `,`-separated)
answer: `out=<hex of UTF-8>` (`out=-` when empty) | `terr=<hex of messages joined by \n>` | `panic`
`rx<TAB>tr<TAB>flags<TAB>pathex<TAB>lettershex`   the whole front end on the pattern text: lexer + parser port, then the
transpiler model; `letters` = the non-ASCII runes of the pattern that `unicode.IsLetter` accepts
answer (same shape as the harness): `ast=<dump> out=…|terr=…|panic` | `perr=<number of diagnostics> -` | `stuck`
-/
namespace Driver.Dom.Rx
open Elk.Regex Driver

def tag : String := "rx"

def hexVal (c : Char) : Option Nat :=
  if '0' ≤ c ∧ c ≤ '9' then some (c.toNat - 48)
  else if 'a' ≤ c ∧ c ≤ 'f' then some (c.toNat - 87)
  else if 'A' ≤ c ∧ c ≤ 'F' then some (c.toNat - 55)
  else none

def hexBytesAux : List Char → List Nat → Option (List Nat)
  | [], acc => some acc.reverse
  | [_], _ => none
  | a :: b :: rest, acc => do
    let x ← hexVal a
    let y ← hexVal b
    hexBytesAux rest ((x * 16 + y) :: acc)

def hexBytes (s : String) : Option (List Nat) :=
  if s == "-" then some [] else hexBytesAux s.toList []

def hexDigitC (d : Nat) : Char := Char.ofNat (if d < 10 then 48 + d else 87 + d)
def toHex (bs : List Nat) : String :=
  if bs.isEmpty then "-" else String.ofList (bs.flatMap fun b => [hexDigitC (b / 16), hexDigitC (b % 16)])

/-- Go `utf8.EncodeRune` (invalid runes become U+FFFD) -/
def encodeRune (r : Nat) : List Nat :=
  let r := if r > 0x10FFFF || (0xD800 ≤ r && r ≤ 0xDFFF) then 0xFFFD else r
  if r < 0x80 then [r]
  else if r < 0x800 then [0xC0 + r / 64, 0x80 + r % 64]
  else if r < 0x10000 then [0xE0 + r / 4096, 0x80 + (r / 64) % 64, 0x80 + r % 64]
  else [0xF0 + r / 262144, 0x80 + (r / 4096) % 64, 0x80 + (r / 64) % 64, 0x80 + r % 64]

def encode (s : Str) : List Nat := s.flatMap encodeRune

/-- Go `utf8.DecodeRune` on a byte list: (rune, width) -/
def decodeRune : List Nat → Nat × Nat
  | [] => (0xFFFD, 0)
  | b0 :: rest =>
    if b0 < 0x80 then (b0, 1)
    else if b0 < 0xC2 then (0xFFFD, 1)
    else if b0 < 0xE0 then
      match rest with
      | b1 :: _ => if 0x80 ≤ b1 && b1 ≤ 0xBF then ((b0 - 0xC0) * 64 + (b1 - 0x80), 2) else (0xFFFD, 1)
      | _ => (0xFFFD, 1)
    else if b0 < 0xF0 then
      let lo := if b0 = 0xE0 then 0xA0 else 0x80
      let hi := if b0 = 0xED then 0x9F else 0xBF
      match rest with
      | b1 :: b2 :: _ =>
        if lo ≤ b1 && b1 ≤ hi && 0x80 ≤ b2 && b2 ≤ 0xBF
        then ((b0 - 0xE0) * 4096 + (b1 - 0x80) * 64 + (b2 - 0x80), 3) else (0xFFFD, 1)
      | _ => (0xFFFD, 1)
    else if b0 < 0xF5 then
      let lo := if b0 = 0xF0 then 0x90 else 0x80
      let hi := if b0 = 0xF4 then 0x8F else 0xBF
      match rest with
      | b1 :: b2 :: b3 :: _ =>
        if lo ≤ b1 && b1 ≤ hi && 0x80 ≤ b2 && b2 ≤ 0xBF && 0x80 ≤ b3 && b3 ≤ 0xBF
        then ((b0 - 0xF0) * 262144 + (b1 - 0x80) * 4096 + (b2 - 0x80) * 64 + (b3 - 0x80), 4) else (0xFFFD, 1)
      | _ => (0xFFFD, 1)
    else (0xFFFD, 1)

def decodeAux : Nat → List Nat → List Nat → List Nat
  | 0, _, acc => acc.reverse
  | _ + 1, [], acc => acc.reverse
  | fuel + 1, bs, acc =>
    let (r, w) := decodeRune bs
    decodeAux fuel (bs.drop (max w 1)) (r :: acc)

/-- bytes → runes the way ranging over a Go string does -/
def decode (bs : List Nat) : Str := decodeAux bs.length bs []

def hexStr (s : String) : Option Str := (hexBytes s).map decode

def bool01 (s : String) : Option Bool := if s == "1" then some true else if s == "0" then some false else none

def atom (s : String) : Option Node :=
  match s with
  | "bell" => some .bell | "ff" => some .formFeed | "tab" => some .tab | "nl" => some .newline | "cr" => some .carriageReturn
  | "^" => some .startOfString | "$" => some .endOfString | "A" => some .absStart | "z" => some .absEnd
  | "b" => some .wordBoundary | "B" => some .notWordBoundary
  | "w" => some .word | "W" => some .notWord | "d" => some .digit | "D" => some .notDigit
  | "s" => some .whitespace | "S" => some .notWhitespace | "h" => some .hWhitespace | "H" => some .notHWhitespace
  | "v" => some .vWhitespace | "V" => some .notVWhitespace | "dot" => some .anyChar | "invalid" => some .invalid
  | _ => none

mutual
/-- one node from the token list; fuel bounds the recursion depth + breadth (≥ number of tokens) -/
def parseNode : Nat → List String → Option (Node × List String)
  | 0, _ => none
  | _, [] => none
  | fuel + 1, t :: ts =>
    match t, ts with
    | "cat", n :: r => do
      let (els, r) ← parseMany fuel (← parseNat? n) r
      pure (.concat (Nodes.ofList els), r)
    | "or", r => do
      let (a, r) ← parseNode fuel r
      let (b, r) ← parseNode fuel r
      pure (.union a b, r)
    | "q?", alt :: r => do let (a, r) ← parseNode fuel r; pure (.zeroOrOne a (← bool01 alt), r)
    | "q*", alt :: r => do let (a, r) ← parseNode fuel r; pure (.zeroOrMore a (← bool01 alt), r)
    | "q+", alt :: r => do let (a, r) ← parseNode fuel r; pure (.oneOrMore a (← bool01 alt), r)
    | "qn", alt :: n :: r => do let (a, r) ← parseNode fuel r; pure (.nQuant a (← hexStr n) (← bool01 alt), r)
    | "qnm", alt :: n :: m :: r => do
      let (a, r) ← parseNode fuel r
      pure (.nmQuant a (← hexStr n) (← hexStr m) (← bool01 alt), r)
    | "grp", name :: s :: u :: nc :: r => do
      let (a, r) ← parseNode fuel r
      pure (.group a (← hexStr name) (Flags.ofNat (← parseNat? s)) (Flags.ofNat (← parseNat? u)) (← bool01 nc), r)
    | "grp0", name :: s :: u :: nc :: r => do
      pure (.groupNoRegex (← hexStr name) (Flags.ofNat (← parseNat? s)) (Flags.ofNat (← parseNat? u)) (← bool01 nc), r)
    | "cc", neg :: n :: r => do
      let (els, r) ← parseMany fuel (← parseNat? n) r
      pure (.charClass (Nodes.ofList els) (← bool01 neg), r)
    | "rng", r => do
      let (a, r) ← parseNode fuel r
      let (b, r) ← parseNode fuel r
      pure (.charRange a b, r)
    | "ncc", neg :: name :: r => do pure (.namedCharClass (← hexStr name) (← bool01 neg), r)
    | "ch", c :: r => do pure (.char (← parseNat? c), r)
    | "meta", c :: r => do pure (.metaCharEscape (← parseNat? c), r)
    | "qt", s :: r => do pure (.quotedText (← hexStr s), r)
    | "caret", c :: r => do pure (.caretEscape (← parseNat? c), r)
    | "u", s :: r => do pure (.unicodeEscape (← hexStr s), r)
    | "x", s :: r => do pure (.hexEscape (← hexStr s), r)
    | "o", s :: r => do pure (.octalEscape (← hexStr s), r)
    | "p", neg :: s :: r => do pure (.unicodeCharClass (← hexStr s) (← bool01 neg), r)
    | a, r => do pure (← atom a, r)
def parseMany : Nat → Nat → List String → Option (List Node × List String)
  | 0, _, _ => none
  | _ + 1, 0, r => some ([], r)
  | fuel + 1, n + 1, r => do
    let (a, r) ← parseNode fuel r
    let (rest, r) ← parseMany fuel n r
    pure (a :: rest, r)
end

def parseAst (s : String) : Option Node :=
  let toks := s.splitOn ","
  match parseNode (toks.length + 1) toks with
  | some (n, []) => some n
  | _ => none

def hxs (s : Str) : String := toHex (encode s)
def b01 (b : Bool) : String := if b then "1" else "0"

mutual
def dump : Node → List String
  | .concat els => ["cat", toString (els.toList.length)] ++ dumps els
  | .union l r => ["or"] ++ dump l ++ dump r
  | .zeroOrOne r a => ["q?", b01 a] ++ dump r
  | .zeroOrMore r a => ["q*", b01 a] ++ dump r
  | .oneOrMore r a => ["q+", b01 a] ++ dump r
  | .nQuant r n a => ["qn", b01 a, hxs n] ++ dump r
  | .nmQuant r n m a => ["qnm", b01 a, hxs n, hxs m] ++ dump r
  | .group r name st us nc => ["grp", hxs name, toString st.toNat, toString us.toNat, b01 nc] ++ dump r
  | .groupNoRegex name st us nc => ["grp0", hxs name, toString st.toNat, toString us.toNat, b01 nc]
  | .charClass els neg => ["cc", b01 neg, toString (els.toList.length)] ++ dumps els
  | .charRange l r => ["rng"] ++ dump l ++ dump r
  | .namedCharClass name neg => ["ncc", b01 neg, hxs name]
  | .char c => ["ch", toString c]
  | .metaCharEscape c => ["meta", toString c]
  | .quotedText s => ["qt", hxs s]
  | .caretEscape c => ["caret", toString c]
  | .unicodeEscape s => ["u", hxs s]
  | .hexEscape s => ["x", hxs s]
  | .octalEscape s => ["o", hxs s]
  | .unicodeCharClass s neg => ["p", b01 neg, hxs s]
  | .bell => ["bell"] | .formFeed => ["ff"] | .tab => ["tab"] | .newline => ["nl"] | .carriageReturn => ["cr"]
  | .startOfString => ["^"] | .endOfString => ["$"] | .absStart => ["A"] | .absEnd => ["z"]
  | .wordBoundary => ["b"] | .notWordBoundary => ["B"]
  | .word => ["w"] | .notWord => ["W"] | .digit => ["d"] | .notDigit => ["D"] | .whitespace => ["s"]
  | .notWhitespace => ["S"] | .hWhitespace => ["h"] | .notHWhitespace => ["H"] | .vWhitespace => ["v"]
  | .notVWhitespace => ["V"] | .anyChar => ["dot"] | .invalid => ["invalid"]
def dumps : Nodes → List String
  | .nil => []
  | .cons n rest => dump n ++ dumps rest
end


def showRes : Res → String
  | .ok out => "out=" ++ toHex (encode out)
  | .errs msgs => "terr=" ++ toHex (("\n".intercalate msgs).toUTF8.toList.map (·.toNat))
  | .panic => "panic"

def handleTr (flags pat letters : String) : String :=
  match parseNat? flags, hexBytes pat, hexStr letters with
  | some f, some bs, some ls =>
    let (n, nerr, stuck) := Elk.Regex.Front.parseBytes ls bs
    if stuck then "stuck"
    else if nerr > 0 then s!"perr={nerr} -"
    else "ast=" ++ ",".intercalate (dump n) ++ " " ++ showRes (transpile n (Flags.ofNat f))
  | _, _, _ => "bad-op"

def handle : List String → String
  | ["trm", flags, ast] =>
    match parseNat? flags, parseAst ast with
    | some f, some n => showRes (transpile n (Flags.ofNat f))
    | _, _ => "bad-op"
  | ["tr", flags, pat] => handleTr flags pat "-"
  | ["tr", flags, pat, letters] => handleTr flags pat letters
  | _ => "bad-op"

end Driver.Dom.Rx
