import ElkVerif.Model.Strict
import Driver.Util
/-! domain `flt`: `flt<TAB>F<TAB>op<TAB>a<TAB>b`
F : f (Float) | f64 | f32;  op: add sub mul div mod pow | neg (b = `-`)
a : hex of the IEEE bits (16 digits; 8 for f32);  b: `f:<hex>` or, for F = f, `s:<dec>` / `b:<dec>` (an Int)
answer: `ok <hex bits>` with every NaN printed as `nan` -/
namespace Driver.Dom.Flt
open Elk.Strict Driver

def tag : String := "flt"

def hexVal (c : Char) : Option Nat :=
  if '0' ≤ c ∧ c ≤ '9' then some (c.toNat - '0'.toNat)
  else if 'a' ≤ c ∧ c ≤ 'f' then some (c.toNat - 'a'.toNat + 10)
  else none

def parseHex (s : String) : Option Nat :=
  if s.isEmpty then none else
  s.toList.foldl (fun acc c => do pure ((← acc) * 16 + (← hexVal c))) (some 0)

def hexDigit (n : Nat) : Char := "0123456789abcdef".toList.getD n '?'

def toHex (digits n : Nat) : String :=
  String.ofList ((List.range digits).reverse.map fun k => hexDigit ((n / 16 ^ k) % 16))

def show64 (x : Float) : String := if x.isNaN then "ok nan" else "ok " ++ toHex 16 x.toBits.toNat
def show32 (x : Float32) : String := if x.isNaN then "ok nan" else "ok " ++ toHex 8 x.toBits.toNat

def parseOp : String → Option FOp
  | "add" => some .add | "sub" => some .sub | "mul" => some .mul | "div" => some .div
  | "mod" => some .mod | "pow" => some .pow
  | _ => none

def handle : List String → String
  | [f, op, a, b] =>
    match parseHex a with
    | none => "bad-op"
    | some abits =>
      if f == "f32" then
        let x := Float32.ofBits (UInt32.ofNat abits)
        if b == "-" then (if op == "neg" then show32 (ieee32.neg x) else "bad-op") else
        match b.splitOn ":", parseOp op with
        | ["f", h], some o =>
          match parseHex h with
          | some bb => show32 (floatOp ieee32 o x (.flt (Float32.ofBits (UInt32.ofNat bb))))
          | none => "bad-op"
        | _, _ => "bad-op"
      else if f == "f" || f == "f64" then
        let x := Float.ofBits (UInt64.ofNat abits)
        if b == "-" then (if op == "neg" then show64 (ieee64.neg x) else "bad-op") else
        match b.splitOn ":", parseOp op with
        | ["f", h], some o =>
          match parseHex h with
          | some bb => show64 (floatOp ieee64 o x (.flt (Float.ofBits (UInt64.ofNat bb))))
          | none => "bad-op"
        | [k, d], some o =>
          if f == "f" && (k == "s" || k == "b") then
            match parseInt? d with
            | some z => show64 (floatOp ieee64 o x (.int z))
            | none => "bad-op"
          else "bad-op"
        | _, _ => "bad-op"
      else "bad-op"
  | _ => "bad-op"

end Driver.Dom.Flt
