import ElkVerif.Model.Strict
import Driver.Util
/-! domain `sint`: `sint<TAB>L<TAB>op<TAB>a<TAB>R`
L : i8 i16 i32 i64 u8 u16 u32 u64 u      (left operand type), a : decimal in L's range
op: add sub mul div mod pow and or xor andnot cmp gt ge lt le eq | shl shr lshl lshr | neg not (R = `-`)
R : `<kind>:<decimal>` kind ∈ s b i64 i32 i16 i8 u64 u32 u16 u8 u, or `o:0` (a Float operand)
answer: `ok <decimal>` | `ok true|false` | `err BitshiftOperand|Coerce|ZeroDivision` | `panic` -/
namespace Driver.Dom.SInt
open Elk.Strict Driver

def tag : String := "sint"

def parseL : String → Option LKind
  | "i8" => some .i8 | "i16" => some .i16 | "i32" => some .i32 | "i64" => some .i64
  | "u8" => some .u8 | "u16" => some .u16 | "u32" => some .u32 | "u64" => some .u64 | "u" => some .uint
  | _ => none

def parseRKind : String → Option RKind
  | "s" => some .smallInt | "b" => some .bigInt
  | "i8" => some .i8 | "i16" => some .i16 | "i32" => some .i32 | "i64" => some .i64
  | "u8" => some .u8 | "u16" => some .u16 | "u32" => some .u32 | "u64" => some .u64 | "u" => some .uint
  | "o" => some .other
  | _ => none

def parseR (s : String) : Option ROp :=
  match s.splitOn ":" with
  | [k, v] => do pure ⟨← parseRKind k, ← parseInt? v⟩
  | _ => none

def parseA : String → Option AOp
  | "add" => some .add | "sub" => some .sub | "mul" => some .mul | "div" => some .div
  | "mod" => some .mod | "pow" => some .pow | "and" => some .and | "or" => some .or
  | "xor" => some .xor | "andnot" => some .andNot | "cmp" => some .cmp | "gt" => some .gt
  | "ge" => some .ge | "lt" => some .lt | "le" => some .le | "eq" => some .eq
  | _ => none

def parseSh : String → Option ShOp
  | "shl" => some .shl | "shr" => some .shr | "lshl" => some .lshl | "lshr" => some .lshr
  | _ => none

def showRes {w} (signed : Bool) : Res w → String
  | .ok v => "ok " ++ (if signed then toString v.toInt else toString v.toNat)
  | .bool b => if b then "ok true" else "ok false"
  | .cmp c => "ok " ++ toString c
  | .bitshiftOperand => "err BitshiftOperand"
  | .coerce => "err Coerce"
  | .zeroDiv => "err ZeroDivision"

def inRange (L : LKind) (a : Int) : Bool :=
  if L.signed then decide (-(2 ^ (L.width - 1) : Int) ≤ a) && decide (a < (2 ^ (L.width - 1) : Int))
  else decide (0 ≤ a) && decide (a < (2 ^ L.width : Int))

def handle : List String → String
  | [l, op, a, r] =>
    match parseL l, parseInt? a with
    | some L, some av =>
      if !inRange L av then "bad-op" else
      let x : BitVec L.width := BitVec.ofInt L.width av
      if r == "-" then
        match op with
        | "neg" => showRes L.signed (unary .neg x)
        | "not" => showRes L.signed (unary .not x)
        | _ => "bad-op"
      else
        match parseR r with
        | none => "bad-op"
        | some ro =>
          match parseA op, parseSh op with
          | some ao, _ => showRes L.signed (binOp L ao x ro)
          | none, some so => showRes L.signed (shift so L.signed x ro)
          | none, none => "bad-op"
    | _, _ => "bad-op"
  | _ => "bad-op"

end Driver.Dom.SInt
