import ElkVerif.Model.Symtab
import Driver.Util
/-! domain `sym`:
`sym<TAB>run<TAB>op;op;…` — a fresh table, ops `a NAME` Add, `g NAME` Get, `n ID` GetName, `e ID` ExistsId;
names are hex strings of the real bytes (opaque to the model). Answer `ok r;r;…` with `i<id>`, `-` (not found),
`s<NAME>`, `t`/`f`.
`sym<TAB>hist<TAB>actor op arg res;…` — a recorded concurrent history (same op/answer spelling);
answer `ok true` or `ok false` from the certified checker `okSym`. -/
namespace Driver.Dom.Symtab
open Elk.Symtab Driver

def tag : String := "sym"

def parseOp (k arg : String) : Option Op :=
  match k with
  | "a" => some (.add arg)
  | "g" => some (.get arg)
  | "n" => (parseInt? arg).map .getName
  | "e" => (parseInt? arg).map .existsId
  | _ => none

def showRes : Res → String
  | .id i => "i" ++ toString i
  | .notFound => "-"
  | .name s => "s" ++ s
  | .bool true => "t"
  | .bool false => "f"

def parseRes (s : String) : Option Res :=
  if s == "-" then some .notFound
  else if s == "t" then some (.bool true)
  else if s == "f" then some (.bool false)
  else match s.toList with
    | 'i' :: rest => (String.ofList rest).toNat?.map .id
    | 's' :: rest => some (.name (String.ofList rest))
    | _ => none

def handle : List String → String
  | ["run", ops] =>
    let parsed := (splitOnNE ops ";").map fun o =>
      match o.splitOn " " with
      | [k, arg] => parseOp k arg
      | [k] => parseOp k ""
      | _ => none
    match optAll parsed with
    | none => "bad-op"
    | some ops =>
      let (_, evs) := runSched Tab.init (ops.map fun o => (0, o))
      "ok " ++ joinWith ";" (evs.map fun e => showRes e.res)
  | ["hist", evs] =>
    let parsed := (splitOnNE evs ";").map fun e =>
      match e.splitOn " " with
      | [a, k, arg, r] => do
          let a ← parseNat? a
          let op ← parseOp k arg
          let r ← parseRes r
          pure (Event.mk a op r)
      | _ => none
    match optAll parsed with
    | none => "bad-op"
    | some evs => "ok " ++ toString (okSym evs)
  | _ => "bad-op"

end Driver.Dom.Symtab
