/-! helpers for the line protocol (core Lean only) -/
namespace Driver

def splitTab (s : String) : List String := s.splitOn "\t"
def splitOnNE (s : String) (sep : String) : List String :=
  if s.isEmpty then [] else s.splitOn sep

def joinWith (sep : String) (xs : List String) : String := sep.intercalate xs

def parseInt? (s : String) : Option Int := s.toInt?
def parseNat? (s : String) : Option Nat := s.toNat?

def optAll {α} : List (Option α) → Option (List α)
  | [] => some []
  | none :: _ => none
  | some a :: rest => (optAll rest).map (a :: ·)

def stripEOL (s : String) : String :=
  String.ofList (s.toList.reverse.dropWhile (fun c => c == '\n' || c == '\r')).reverse

def showInt (i : Int) : String := toString i

end Driver
