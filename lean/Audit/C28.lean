import ElkVerif.AuditLib
import ElkVerif.Props.C28
#audit_obligations C28 [declared_callable, arity_admits, admitted_count_fits]
