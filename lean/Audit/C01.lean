import ElkVerif.AuditLib
import ElkVerif.Props.C01
import ElkVerif.Props.C01B
#audit_obligations C01 [sound_A, preservation_A, errors_A]
#audit_obligations C01B [sound_B, sound_C, preservation_B, prog_sound, block_sound, stmt_sound, expr_sound_B, block_never_stuck, call_sound, closure_call_sound, checker_extends_A, hasTy_extends_A, checker_fuel_mono, sound_accepted]
