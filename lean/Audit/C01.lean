import ElkVerif.AuditLib
import ElkVerif.Props.C01
#audit_obligations C01 [sound_A, preservation_A, errors_A]
