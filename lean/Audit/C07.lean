import ElkVerif.AuditLib
import ElkVerif.Props.C07
#audit_obligations C07 [wrap_add, wrap_sub, wrap_mul, wrap_neg, div_zero, div_trunc_signed, mod_sign_signed,
  div_unsigned, mod_unsigned, div_mod_identity_signed, pow_spec, pow_exponent_unsigned, pow_exponent_signed,
  shift_spec, ideal_shr_floor, ideal_shl_wrap, tables_ok, shift_total, non_integer_operand_raises,
  float_dispatch, float_dispatch_int, float64_ops_are_ieee, float32_ops_are_ieee]
