import ElkVerif.AuditLib
import ElkVerif.Props.C20
#audit_obligations C20 [byte_count_eq, length_eq_chars, grapheme_count_eq, char_at_spec, char_at_error,
  char_at_kind_independent, char_at_view_valid, char_at_invalid_byte_witness, char_at_agrees_partial,
  byte_at_spec, byte_at_error, grapheme_at_spec, rjust_spec, ljust_spec, rjust_length, ljust_length, length_add_start, chars_concat_start, length_add_char, rjust_old_witness,
  concat_spec, length_add, chars_concat, length_add_invalid_witness, repeat_spec, repeat_old_witness,
  remove_suffix_string, remove_suffix_char, remove_suffix_char_other, decode_last_rune, cmp_is_bytewise_lex, cmp_total, lt_spec, case_map_chars, toGoInt_old_witness]
