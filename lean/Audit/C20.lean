import ElkVerif.AuditLib
import ElkVerif.Props.C20
#audit_obligations C20 [byte_count_eq, length_eq_chars]
