import ElkVerif.AuditLib
import ElkVerif.Props.C25
#audit_obligations C25 [chan_fifo_once, chan_delivered_prefix, chan_exactly_once, closed_protocol, closed_is_final,
  select_ready_only, select_is_channel_op, select_closed_was_wrong,
  mutex_excl, unlock_unlocked_is_error, rw_unlock_unlocked_is_error, unlock_unlocked_was_fatal,
  mutex_calls_never_crash, rw_excl, once_once, wg_counts, okHistory_sound]
