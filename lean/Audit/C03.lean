import ElkVerif.AuditLib
import ElkVerif.Props.C03
#audit_obligations C03 [emit_progress, lex_progress, sync_progress, matchOk_none_iff, regex_total, regex_lex_progress,
  regex_lex_total]
