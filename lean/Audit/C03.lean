import ElkVerif.AuditLib
import ElkVerif.Props.C03
#audit_obligations C03 [emit_progress]
