import ElkVerif.AuditLib
import ElkVerif.Props.C06
#audit_obligations C06 [add_exact, sub_exact, mul_exact, neg_exact, inc_exact, dec_exact, not_exact, pow_exact,
  div_zero, mod_zero, div_trunc, mod_sign, div_mod_identity, div_toward_zero,
  shl_exact, shr_exact, shr_is_floor, huge_count_witness, tbit_is_arithmetic, bits_determine, and_exact, or_exact, xor_exact,
  andNot_exact, not_bits, repr_independent_cmp, normal_closed,
  cmp_exact, lt_exact, le_exact, gt_exact, ge_exact, eq_exact,
  repr_unique, indistinguishable, unnormalised_distinguishable_witness,
  repr_independent_arith, repr_independent_divmod, helpers_exact, helpers_exact_unary]
