import ElkVerif.AuditLib
import ElkVerif.Props.C31
#audit_obligations C31 [caller_independent, caller_invisible_inside, caller_only_name_undefined,
  macro_locals_invisible_outside, no_overwrite, caller_frames_untouched_during, add_visible_inside,
  unhygienic_sees_caller, unhygienic_sees_caller_loc, alpha, unhygienic_capture_witness,
  alpha_unhygienic_partial, alpha_body, alpha_body_islands_partial, body_leaves_caller_stack]
