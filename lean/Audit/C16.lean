import ElkVerif.AuditLib
import ElkVerif.Props.C16
#audit_obligations C16 [probeTrace_runs, awaitSteps_ok, resume_exactly_once, deadlock_witness_lock, ghost_fields_irrelevant, no_lost_wakeup, suspended_task_located, await_result_ready,
  promise_mutex_excl, deadlock_free_partial, deadlock_witness, deadlock_free_false]
