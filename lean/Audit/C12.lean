import ElkVerif.AuditLib
import ElkVerif.Props.C12
#audit_obligations C12 [ctx_frame, ctx_frame_fields, checkMethod_balanced, ctx_frame_current, ctx_leak_witness,
  ctx_defer_leak_witness, ctx_frame_preE47324a_partial, ctx_frame_preDeferFix_partial, ctx_probe_clean]
