import ElkVerif.AuditLib
import ElkVerif.Props.C33
#audit_obligations C33 [rank_valid_bounds, run_is_path, check_free_run_bounded, no_rank_for_check_free_cycle]
