import ElkVerif.AuditLib
import ElkVerif.Props.C29
#audit_obligations C29 [tables_agree, every_opcode_has_semantics, decode_total, decode_in_range, sweep_tiles,
  structure_sound, cert_sound, verify_sound, no_underflow_stack, d16_witness]
