import ElkVerif.AuditLib
import ElkVerif.Props.C29
#audit_obligations C29 [tables_agree, every_opcode_has_semantics, decode_total, decode_in_range, sweep_tiles,
  local_read_in_frame, local_write_in_frame, upvalue_read_in_range, const_load_in_range, call_site_ok,
  stack_operands_present, jump_target_in_code, reachable_pc_in_code,
  structure_sound, cert_sound, verify_sound, no_underflow_stack, d16_witness]
