import ElkVerif.AuditLib
import ElkVerif.Props.C05
#audit_obligations C05 [roundtrip, tables_ok, shapes_ok, roundtrip_elk, endless_range_witness, range_end_witness]
