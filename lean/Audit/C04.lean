import ElkVerif.AuditLib
import ElkVerif.Props.C04
#audit_obligations C04 [tiling, tiling_wellFormed, strip]
