import ElkVerif.AuditLib
import ElkVerif.Props.C04
#audit_obligations C04 [tiling, tiling_wellFormed, strip, spansOk_sound, posOf_boundary, posOf_inside, posOf_line,
  cursor_inv, end_position_newline_witness, positionsAgree_fails, positions_partial]
