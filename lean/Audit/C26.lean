import ElkVerif.AuditLib
import ElkVerif.Props.C26
#audit_obligations C26 [inv_reachable, add_idempotent, history_agrees, same_name_same_symbol,
  distinct_names_distinct_symbols, name_recoverable, interleaving_bijection, okSym_sound, model_histories_ok]
