import ElkVerif.AuditLib
import ElkVerif.Props.C08
#audit_obligations C08 [typed_eq_generic, typed_neq_generic, selected_eq_generic, tables_ok, handlers_ok,
  float_eq_selects_int_handler_witness, legacy_subtract_float_witness, fold_eq_generic, emit_float_roundtrip,
  legacy_emit_negzero_witness]
