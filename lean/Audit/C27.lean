import ElkVerif.AuditLib
import ElkVerif.Props.C27
#audit_obligations C27 [rejected_restores_snapshot, rejected_no_trace, partial_snapshot_witness,
  session_skips_rejected, allAccepted_eq_batch, session_eq_batch, session_eq_batch_prefix,
  mini_rest_untouched, mini_sequential]
