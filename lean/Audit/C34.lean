import ElkVerif.AuditLib
import ElkVerif.Props.C34
#audit_obligations C34 [updateStatus_success_running]
