import ElkVerif.AuditLib
import ElkVerif.Props.C34
#audit_obligations C34 [registers_exactly, runs_exactly, runs_only_selected, filter_order_irrelevant,
  exit_iff_failed, exit_iff_closure_failed, case_report_status]
