import ElkVerif.AuditLib
import ElkVerif.Props.C18
#audit_obligations C18 [dy_cmp_lt, dy_cmp_eq, dy_cmp_gt, legacy_laxeq_not_trans_witness, legacy_gt_wrong_witness,
  legacy_zero_hash_witness]
