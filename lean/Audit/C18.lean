import ElkVerif.AuditLib
import ElkVerif.Props.C18
#audit_obligations C18 [cmpInt64Float64_exact, cmpUint64Float64_exact, cmp_iff_val, lt_iff_val, gt_iff_val, le_iff_val,
  laxeq_iff_val, acceptance, ops_agree, trichotomy, lt_trans, le_trans, laxeq_refl, laxeq_symm, laxeq_trans,
  lt_laxeq_trans, le_antisymm_laxeq, eq_symm, eq_refl, seq_eq, eq_imp_laxeq, eq_hash, eq_hash_unnormalised_witness, val_eq_symm, val_eq_refl, val_eq_hash_partial,
  val_eq_hash_collection_witness,
  legacy_laxeq_not_trans_witness, legacy_gt_wrong_witness, legacy_zero_hash_witness]
