import ElkVerif.AuditLib
import ElkVerif.Props.C14
#audit_obligations C14 [finally_once, finally_keeps_pending, finally_abrupt_wins, try_no_finally,
  catch_skip, catch_hit, catch_none, and_shortcircuit, and_evaluates_right, or_shortcircuit,
  or_evaluates_right, nilco_shortcircuit, nilco_evaluates_right, label_passes,
  unlabelled_hits_innermost, while_false, while_step, fuel_monotone]
