import ElkVerif.AuditLib
import ElkVerif.Props.C24
#audit_obligations C24 [norm_index, norm_index_none, view_refines, run_refines, run_refines_init, astep_frame,
  no_aliasing, astep_no_panic, oob_is_error, push_refines, set_refines, get_refines, remove_at_refines,
  concat_refines, repeat_refines, slice_range_refines, eq_refines, contains_refines, remove_refines, slice_refines, slice_push_isolated, slice_alias_fixed_witness,
  slice_shares_elements_witness]
