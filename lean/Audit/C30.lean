import ElkVerif.AuditLib
import ElkVerif.Props.C30
#audit_obligations C30 [select_first, select_none, select_deterministic, bindings_names, bindings_sound,
  select_bindings_sound, isSub_sound, captured_sound, covers_sound, covers_unsound_witness,
  switch_without_else_nilable, compiled_verdict, compiled_select_index, compiled_bindings_partial, compiled_bindings_witness,
  compiled_stale_witness]
