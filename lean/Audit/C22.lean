import ElkVerif.AuditLib
import ElkVerif.Props.C22
#audit_obligations C22 [civil_roundtrip_date, civil_roundtrip_days, civil_valid, civil_follows_calendar]
