import ElkVerif.AuditLib
import ElkVerif.Props.C22
#audit_obligations C22 [civil_roundtrip_date, civil_roundtrip_days, civil_valid, civil_follows_calendar,
  add_span_calendar, datetime_add_span_calendar, sub_span_calendar, add_days_exact, month_add_clamp_spec, range_checked,
  diff_fieldwise, diff_add_witness, diffAddInverse_fails, diff_add_partial,
  format_parse_negative_year_witness, format_parse_five_digit_year_witness, formatParseRoundtrip_fails,
  dateString_eq_format, format_parse_roundtrip_partial,
  zone_offset_roundtrip, zone_offset_seconds_witness]
