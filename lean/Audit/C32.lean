import ElkVerif.AuditLib
import ElkVerif.Props.C32
#audit_obligations C32 [getLine_flat, getLine_none_iff, flat_addLine, pos_addLine, flat_addLast,
  flat_removeByte, flat_prep, lineinfo_refines, removeAt_straddle_witness]
