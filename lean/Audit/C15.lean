import ElkVerif.AuditLib
import ElkVerif.Props.C15
#audit_obligations C15 [settle_once, settled_stable, settled_forever, async_wrap, publish_is_body_result]
