import ElkVerif.AuditLib
import ElkVerif.Props.C19
#audit_obligations C19 [hexVal_hexDigit]
