import ElkVerif.AuditLib
import ElkVerif.Props.C19
#audit_obligations C19 [string_roundtrip, char_roundtrip, char_surrogate_witness, int_roundtrip, literal_value, to_int_value, to_int_prefixed, float_roundtrip, float_text_lexes, float_nonfinite, symbol_roundtrip, symbol_roundtrip_quoted, tables_ok, symbol_roundtrip_tables,
  ofDigits_snoc, string_old_witness_nongraphic, string_old_witness_invalid, char_old_witness,
  symbol_old_witness_interpolation, symbol_old_witness_underscore, symbol_old_witness_invalid]
