import ElkVerif.AuditLib
import ElkVerif.Props.C13
#audit_obligations C13 [open_list_invariant, one_upvalue_per_slot, capture_finds_existing, step_simulation,
  upvalue_refines_cells, upvalue_refines_cells_from, shared_updates, shared_with_scope, survives_return,
  survives_growth, tailcall_safe, tailcall_prefix_witness, discipline_needed_witness]
