import ElkVerif.AuditLib
import ElkVerif.Props.C17
#audit_obligations C17 [new_refines, get_refines, absent_is_nil, contains_refines, set_refines, delete_refines,
  resize_refines, concat_refines, union_refines, inter_refines, equal_refines, length_refines, iter_refines,
  history_refines_set, history_inv, history_refines_map, never_panics, keyOk_nat, tombstone_lookup_witness,
  concat_length_witness]
