import ElkVerif.AuditLib
import ElkVerif.Props.C17
#audit_obligations C17 [new_empty]
