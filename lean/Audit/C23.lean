import ElkVerif.AuditLib
import ElkVerif.Props.C23
#audit_obligations C23 [contains_iff_bounds, range_iterates_toList, endless_iterates, mem_toList_iff_contains,
  toList_sorted, toList_nodup, length_formula, native_eq_on_drained, native_on_finite,
  map_eq, filter_eq, reject_eq, count_eq, any_eq, every_eq, find_eq, try_find_eq, index_of_eq, find_index_eq,
  contains_eq, is_empty_eq, first_eq, try_first_eq, last_eq, try_last_eq, take_eq, drop_eq, take_while_eq,
  drop_while_eq, reduce_eq, fold_eq, to_list_eq, length_eq,
  native_error_propagates, take_prefix, negative_count_is_error, reduce_empty_witness,
  range_map, range_length, endless_take]
