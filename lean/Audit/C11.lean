import ElkVerif.AuditLib
import ElkVerif.Props.C11
#audit_obligations C11 [step_perm, run_perm, foreach_all_run, foreach_limit, foreach_progress, step_measure,
  foreach_terminates, sched_confluent, parallel_eq_sequential, order_sensitive_witness, insertSorted_comm]
