import ElkVerif.AuditLib
import ElkVerif.Props.C21
#audit_obligations C21 [transpile_prints, transpile_correct, transpile_sound, xmode_comment_witness,
  xmode_comment_outside_fragment]
