import ElkVerif.AuditLib
import ElkVerif.Props.C21
#audit_obligations C21 [xmode_comment_witness]
