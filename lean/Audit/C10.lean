import ElkVerif.AuditLib
import ElkVerif.Props.C10
#audit_obligations C10 [grow_invisible, wellformed_iff, grow_is_invisible, reachable_wellformed, run_size_independent,
  growBuggy_witness_not_walked, growBuggy_witness_negated, growBuggy_breaks, growNoGuard_witness,
  growNoGuard_breaks]
