import ElkVerif.AuditLib
import ElkVerif.Props.C02
#audit_obligations C02 [narrow_tables_sound_partial, narrow_tables_sound_fixed, not_notNil_witness, or_nil_witness,
  and_notNil_row_witness, nilco_or_witness, check_annotations_sound, if_branches_sound, condition_type_sound,
  negate_negate, toNilable_idem, preservation_programs]
