-- This module serves as the root of the `ElkVerif` library.
-- Import modules here that should be built as part of the library.
import ElkVerif.Basic
