import ElkVerif.Model.Prec
/-! Round trip of the operator sub-language (C05): `parse (print e) = e` under `Compatible`. -/
namespace Elk.Prec

/-! ## what `Compatible` says -/

theorem strictInc_head (a : Nat) (l : List Nat) (h : strictInc (a :: l) = true) : ∀ x ∈ l, a < x := by
  induction l generalizing a with
  | nil => simp
  | cons b rest ih =>
    simp only [strictInc, Bool.and_eq_true, decide_eq_true_eq] at h
    intro x hx
    rcases List.mem_cons.mp hx with rfl | hx
    · exact h.1
    · exact Nat.lt_trans h.1 (ih b h.2 x hx)

theorem strictInc_tail (a : Nat) (l : List Nat) (h : strictInc (a :: l) = true) : strictInc l = true := by
  cases l with
  | nil => rfl
  | cons b rest =>
    simp only [strictInc, Bool.and_eq_true] at h
    exact h.2

theorem strictInc_pairwise (l : List Nat) (h : strictInc l = true) : l.Pairwise (· < ·) := by
  induction l with
  | nil => exact List.Pairwise.nil
  | cons a rest ih =>
    exact List.Pairwise.cons (strictInc_head a rest h) (ih (strictInc_tail a rest h))

def powPrec (T : Table) : Nat := T.precOf .bin T.powOp

structure Compat (T : Table) : Prop where
  lvl_prec : ∀ lv ∈ T.ladder, ∀ o ∈ lv.ops, T.precOf lv.kind o = lv.prec ∧ T.isRight lv.kind o = false
  sorted : T.ladder.Pairwise (fun a b => a.prec < b.prec)
  lvl_lt : ∀ lv ∈ T.ladder, lv.prec < T.rngPrec
  rng_as : T.rngPrec < T.asPrec
  as_un : T.asPrec < T.unPrec
  un_pow : T.unPrec < powPrec T
  pow_post : powPrec T < T.postPrec
  post_atom : T.postPrec < atomPrec
  pow_right : T.isRight .bin T.powOp = true
  lvl_disj : ∀ lv ∈ T.ladder, ∀ o ∈ lv.ops, ¬ o ∈ T.rngOps ∧ o ≠ T.powOp ∧ ¬ o ∈ T.postOps ∧
    ∀ lv' ∈ T.ladder, lv'.prec ≠ lv.prec → ¬ o ∈ lv'.ops
  rng_disj : ∀ o ∈ T.rngOps, o ≠ T.powOp ∧ ¬ o ∈ T.postOps
  pow_disj : ¬ T.powOp ∈ T.postOps

theorem compat_of_compatible (T : Table) (h : Compatible T = true) : Compat T := by
  simp only [Compatible, Bool.and_eq_true] at h
  obtain ⟨⟨⟨⟨⟨h1, h2⟩, h3⟩, h4⟩, h5⟩, h6⟩ := h
  have hp := strictInc_pairwise _ h2
  rw [List.pairwise_append] at hp
  obtain ⟨hp1, hp2, hp3⟩ := hp
  have hchain : T.rngPrec < T.asPrec ∧ T.asPrec < T.unPrec ∧ T.unPrec < powPrec T ∧
      powPrec T < T.postPrec ∧ T.postPrec < atomPrec := by
    simp only [List.pairwise_cons, List.mem_cons, List.not_mem_nil, or_false, forall_eq_or_imp, forall_eq] at hp2
    unfold powPrec
    refine ⟨hp2.1.1, hp2.2.1.1, hp2.2.2.1.1, hp2.2.2.2.1.1, hp2.2.2.2.2.1⟩
  refine ⟨?_, ?_, ?_, hchain.1, hchain.2.1, hchain.2.2.1, hchain.2.2.2.1, hchain.2.2.2.2, h3, ?_, ?_, ?_⟩
  · intro lv hlv o ho
    have := List.all_eq_true.mp h1 lv hlv
    have := List.all_eq_true.mp this o ho
    simpa using this
  · rw [List.pairwise_map] at hp1
    exact hp1
  · intro lv hlv
    exact hp3 lv.prec (List.mem_map.mpr ⟨lv, hlv, rfl⟩) T.rngPrec (by simp)
  · intro lv hlv o ho
    have := List.all_eq_true.mp h4 lv hlv
    have := List.all_eq_true.mp this o ho
    simp only [Bool.and_eq_true, Bool.not_eq_true', bne_iff_ne, ne_eq, List.all_eq_true,
      Bool.or_eq_true, beq_iff_eq] at this
    obtain ⟨⟨⟨a, b⟩, c⟩, d⟩ := this
    refine ⟨by simpa using a, b, by simpa using c, ?_⟩
    intro lv' hlv' hne
    rcases d lv' hlv' with h | h
    · exact absurd h hne
    · simpa using h
  · intro o ho
    have := List.all_eq_true.mp h5 o ho
    simp only [Bool.and_eq_true, bne_iff_ne, ne_eq, Bool.not_eq_true'] at this
    exact ⟨this.1, by simpa using this.2⟩
  · simpa using h6

/-! ## what may follow a complete expression -/

/-- the next token does not continue an expression at a stage of precedence `q` or tighter -/
def Stops (T : Table) (q : Nat) : List Tok → Prop
  | [] => True
  | .rparen :: _ => True
  | .op _ o :: _ =>
    (∀ lv ∈ T.ladder, q ≤ lv.prec → ¬ o ∈ lv.ops) ∧ (q ≤ T.rngPrec → ¬ o ∈ T.rngOps) ∧
    (q ≤ powPrec T → o ≠ T.powOp) ∧ (q ≤ T.postPrec → ¬ o ∈ T.postOps)
  | .as :: _ => T.asPrec < q
  | _ => False

theorem Stops.mono {T : Table} {q q' : Nat} {tl : List Tok} (h : Stops T q tl) (hq : q ≤ q') : Stops T q' tl := by
  cases tl with
  | nil => trivial
  | cons t rest =>
    cases t with
    | rparen => trivial
    | op ro o =>
      obtain ⟨h1, h2, h3, h4⟩ := h
      exact ⟨fun lv hlv hle => h1 lv hlv (Nat.le_trans hq hle), fun hle => h2 (Nat.le_trans hq hle),
        fun hle => h3 (Nat.le_trans hq hle), fun hle => h4 (Nat.le_trans hq hle)⟩
    | as => exact Nat.lt_of_lt_of_le h hq
    | atom _ => exact h
    | lparen => exact h
    | const _ => exact h

/-- `S` parses the tokens `X` as `x` whenever what follows does not continue at precedence `q` -/
def ParsesTo (T : Table) (S : P) (q : Nat) (X : List Tok) (x : E) : Prop :=
  ∀ tl, Stops T q tl → S (X ++ tl) = some (x, tl)

/-- the tokens start with an atom or an opening parenthesis -/
def HeadPrimary : List Tok → Prop
  | .atom _ :: _ => True
  | .lparen :: _ => True
  | _ => False

section Lifts
variable {T : Table} (hC : Compat T) (top : P)
include hC

omit hC in
theorem post_of_prim {X : List Tok} {x : E} (h : ∀ tl, parsePrimary top (X ++ tl) = some (x, tl)) :
    ParsesTo T (parsePostfix T top) T.postPrec X x := by
  intro tl hs
  unfold parsePostfix
  rw [h tl]
  cases tl with
  | nil => rfl
  | cons t rest =>
    cases t with
    | op ro o =>
      have hno : ¬ o ∈ T.postOps := hs.2.2.2 (Nat.le_refl _)
      simp [hno]
    | _ => rfl

theorem pow_of_post {X : List Tok} {x : E} (h : ParsesTo T (parsePostfix T top) T.postPrec X x) (k : Nat) :
    ParsesTo T (parsePower T top (k + 1)) (powPrec T) X x := by
  intro tl hs
  unfold parsePower
  rw [h tl (hs.mono (Nat.le_of_lt hC.pow_post))]
  cases tl with
  | nil => rfl
  | cons t rest =>
    cases t with
    | op ro o =>
      have : o ≠ T.powOp := hs.2.2.1 (Nat.le_refl _)
      simp [this]
    | _ => rfl

theorem un_of_pow {X : List Tok} {x : E} (hh : HeadPrimary X) (k : Nat)
    (h : ParsesTo T (parsePower T top (k + 1)) (powPrec T) X x) :
    ParsesTo T (parseUnary T top (k + 1)) T.unPrec X x := by
  intro tl hs
  have := h tl (hs.mono (Nat.le_of_lt hC.un_pow))
  cases X with
  | nil => exact absurd hh (by simp [HeadPrimary])
  | cons t rest =>
    cases t with
    | atom a => simpa [parseUnary] using this
    | lparen => simpa [parseUnary] using this
    | _ => exact absurd hh (by simp [HeadPrimary])

theorem as_of_un {X : List Tok} {x : E} (n : Nat) (h : ParsesTo T (parseUnary T top n) T.unPrec X x) :
    ParsesTo T (parseAs T top n) T.asPrec X x := by
  intro tl hs
  unfold parseAs
  rw [h tl (hs.mono (Nat.le_of_lt hC.as_un))]
  cases tl with
  | nil => rfl
  | cons t rest =>
    cases t with
    | as => exact absurd hs (by simp [Stops])
    | _ => rfl

theorem rng_of_as {X : List Tok} {x : E} (n : Nat) (h : ParsesTo T (parseAs T top n) T.asPrec X x) :
    ParsesTo T (parseRng T top n) T.rngPrec X x := by
  intro tl hs
  unfold parseRng
  rw [h tl (hs.mono (Nat.le_of_lt hC.rng_as))]
  cases tl with
  | nil => rfl
  | cons t rest =>
    cases t with
    | op ro o =>
      have hno : ¬ o ∈ T.rngOps := hs.2.1 (Nat.le_refl _)
      simp [hno]
    | _ => rfl

end Lifts

/-! ## the ladder of `binaryProduction` levels -/

/-- the levels from some level downwards -/
def Suffix (T : Table) (lad : List Level) : Prop := ∃ pre, T.ladder = pre ++ lad

/-- precedence of the loosest construct a stage parses -/
def minPrec (T : Table) : List Level → Nat
  | [] => T.rngPrec
  | lv :: _ => lv.prec

theorem Suffix.tail {T : Table} {lv : Level} {rest : List Level} (h : Suffix T (lv :: rest)) : Suffix T rest := by
  obtain ⟨pre, hp⟩ := h
  exact ⟨pre ++ [lv], by simp [hp]⟩

theorem Suffix.mem {T : Table} {lad : List Level} (h : Suffix T lad) {lv : Level} (hm : lv ∈ lad) : lv ∈ T.ladder := by
  obtain ⟨pre, hp⟩ := h
  rw [hp]; exact List.mem_append_right _ hm

theorem Suffix.sorted {T : Table} (hC : Compat T) {lad : List Level} (h : Suffix T lad) :
    lad.Pairwise (fun a b => a.prec < b.prec) := by
  obtain ⟨pre, hp⟩ := h
  have := hC.sorted
  rw [hp, List.pairwise_append] at this
  exact this.2.1

theorem Suffix.head_lt {T : Table} (hC : Compat T) {lv : Level} {rest : List Level} (h : Suffix T (lv :: rest)) :
    lv.prec < minPrec T rest := by
  cases rest with
  | nil => exact hC.lvl_lt lv (h.mem (by simp))
  | cons lv' rest' =>
    have := h.sorted hC
    rw [List.pairwise_cons] at this
    exact this.1 lv' (by simp)

/-- levels of the ladder that are strictly tighter than the head of a suffix lie in its tail -/
theorem Suffix.tighter_in_tail {T : Table} (hC : Compat T) {lv : Level} {rest : List Level}
    (h : Suffix T (lv :: rest)) {lv' : Level} (hm : lv' ∈ T.ladder) (hlt : lv.prec < lv'.prec) : lv' ∈ rest := by
  obtain ⟨pre, hp⟩ := h
  have hs := hC.sorted
  rw [hp] at hm hs
  rw [List.pairwise_append] at hs
  rcases List.mem_append.mp hm with hm | hm
  · have := hs.2.2 lv' hm lv (by simp)
    omega
  · rcases List.mem_cons.mp hm with rfl | hm
    · omega
    · exact hm

theorem Suffix.min_le {T : Table} (hC : Compat T) {lad : List Level} (h : Suffix T lad) {lv : Level} (hm : lv ∈ lad) :
    minPrec T lad ≤ lv.prec := by
  cases lad with
  | nil => cases hm
  | cons a rest =>
    rcases List.mem_cons.mp hm with rfl | hm
    · exact Nat.le_refl _
    · have := h.sorted hC
      rw [List.pairwise_cons] at this
      exact Nat.le_of_lt (this.1 lv hm)

/-- two levels of the ladder with the same precedence are the same level -/
theorem level_eq_of_prec {T : Table} (hC : Compat T) {a b : Level} (ha : a ∈ T.ladder) (hb : b ∈ T.ladder)
    (h : a.prec = b.prec) : a = b := by
  have hs := hC.sorted
  generalize T.ladder = l at ha hb hs
  induction l with
  | nil => cases ha
  | cons c rest ih =>
    rw [List.pairwise_cons] at hs
    rcases List.mem_cons.mp ha with rfl | ha' <;> rcases List.mem_cons.mp hb with rfl | hb'
    · rfl
    · have := hs.1 b hb'; omega
    · have := hs.1 a ha'; omega
    · exact ih ha' hb' hs.2

section Ladder
variable {T : Table} (hC : Compat T) (top : P) (n : Nat)
include hC

/-- parsing `X` at the next level and then running the loop of level `lv` is the same as running
the loop with `x` already parsed (`s` = iterations spent inside `X`) -/
def LoopTo (T : Table) (top : P) (n : Nat) (lv : Level) (rest : List Level) (X : List Tok) (x : E) (s : Nat) : Prop :=
  ∀ tl k, Stops T (lv.prec + 1) tl →
    (match parseBin T top n rest (X ++ tl) with
     | some (y, ts) => loop lv (parseBin T top n rest) (k + s) y ts
     | none => none) = loop lv (parseBin T top n rest) k x tl

omit hC in
theorem loop_stop {lv : Level} (hlv : lv ∈ T.ladder) (sub : P) (j : Nat) (x : E) {tl : List Tok}
    (hs : Stops T lv.prec tl) : loop lv sub (j + 1) x tl = some (x, tl) := by
  cases tl with
  | nil => simp [loop]
  | cons t rest =>
    cases t with
    | op ro o =>
      have hno : ¬ o ∈ lv.ops := hs.1 lv hlv (Nat.le_refl _)
      simp [loop, hno]
    | _ => simp [loop]

omit hC in
theorem bin_of_loop {lv : Level} {rest : List Level} (hlv : lv ∈ T.ladder) {X : List Tok} {x : E} {s : Nat}
    (h : LoopTo T top n lv rest X x s) (hs : s < n) :
    ParsesTo T (parseBin T top n (lv :: rest)) lv.prec X x := by
  intro tl hst
  have := h tl (n - s - 1 + 1) (hst.mono (Nat.le_succ _))
  have hn : n - s - 1 + 1 + s = n := by omega
  rw [hn] at this
  show (match parseBin T top n rest (X ++ tl) with
    | some (l, ts') => loop lv (parseBin T top n rest) n l ts'
    | none => none) = some (x, tl)
  rw [this]
  exact loop_stop hlv _ _ _ hst

omit hC in
theorem loop_of_bin {lv : Level} {rest : List Level} {X : List Tok} {x : E}
    (h : ParsesTo T (parseBin T top n rest) (minPrec T rest) X x) (hlt : lv.prec + 1 ≤ minPrec T rest) :
    LoopTo T top n lv rest X x 0 := by
  intro tl k hs
  rw [h tl (hs.mono hlt)]
  rfl

/-- from the tightest stage that parses `X` all looser ladder stages follow -/
theorem ladder_stages (X : List Tok) (x : E) (pr : Nat) (sp : Nat → Nat) (hn : ∀ p, sp p < n)
    (hfit : ∀ lv rest, Suffix T (lv :: rest) → lv.prec < pr → minPrec T rest ≤ pr)
    (hbase : T.rngPrec ≤ pr → ParsesTo T (parseRng T top n) T.rngPrec X x)
    (hown : ∀ lv rest, Suffix T (lv :: rest) → lv.prec = pr → LoopTo T top n lv rest X x (sp lv.prec))
    (hsp0 : ∀ p, p ≠ pr → sp p = 0) :
    ∀ lad, Suffix T lad → minPrec T lad ≤ pr →
      ParsesTo T (parseBin T top n lad) (minPrec T lad) X x ∧
      (∀ lv rest, lad = lv :: rest → LoopTo T top n lv rest X x (sp lv.prec)) := by
  intro lad
  induction lad with
  | nil =>
    intro _ hle
    exact ⟨hbase hle, fun lv rest h => by cases h⟩
  | cons lv rest ih =>
    intro hsuf hle
    have hlv : lv ∈ T.ladder := hsuf.mem (by simp)
    have hloop : LoopTo T top n lv rest X x (sp lv.prec) := by
      by_cases heq : lv.prec = pr
      · exact hown lv rest hsuf heq
      · have hlt : lv.prec < pr := by
          simp only [minPrec] at hle
          omega
        have h1 := (ih hsuf.tail (hfit lv rest hsuf hlt)).1
        rw [hsp0 lv.prec heq]
        exact loop_of_bin top n h1 (hsuf.head_lt hC)
    refine ⟨?_, ?_⟩
    · exact bin_of_loop top n hlv hloop (hn _)
    · intro lv' rest' h
      cases h
      exact hloop

end Ladder

/-! ## all stages at once -/

/-- every stage that may produce an expression of precedence `pr` parses `X` as `x` -/
structure AllStages (T : Table) (top : P) (n : Nat) (X : List Tok) (x : E) (pr : Nat) (sp : Nat → Nat) : Prop where
  post : T.postPrec ≤ pr → ParsesTo T (parsePostfix T top) T.postPrec X x
  pow : powPrec T ≤ pr → ∀ k, X.length < k → ParsesTo T (parsePower T top k) (powPrec T) X x
  un : T.unPrec ≤ pr → ∀ k, X.length < k → ParsesTo T (parseUnary T top k) T.unPrec X x
  as : T.asPrec ≤ pr → ParsesTo T (parseAs T top n) T.asPrec X x
  bin : ∀ lad, Suffix T lad → minPrec T lad ≤ pr → ParsesTo T (parseBin T top n lad) (minPrec T lad) X x
  loop : ∀ lv rest, Suffix T (lv :: rest) → lv.prec ≤ pr → LoopTo T top n lv rest X x (sp lv.prec)

theorem minPrec_le_rng {T : Table} (hC : Compat T) {lad : List Level} (h : Suffix T lad) : minPrec T lad ≤ T.rngPrec := by
  cases lad with
  | nil => exact Nat.le_refl _
  | cons lv rest => exact Nat.le_of_lt (hC.lvl_lt lv (h.mem (by simp)))

section Build
variable {T : Table} (hC : Compat T) (top : P) (n : Nat)
include hC

/-- an item whose own stage is one of the stages above the ladder -/
theorem AllStages.mk_upper {X : List Tok} {x : E} {pr : Nat} (hXn : X.length < n) (hpr : T.rngPrec ≤ pr)
    (hpost : T.postPrec ≤ pr → ParsesTo T (parsePostfix T top) T.postPrec X x)
    (hpow : powPrec T ≤ pr → pr < T.postPrec → ∀ k, X.length < k → ParsesTo T (parsePower T top k) (powPrec T) X x)
    (hun : T.unPrec ≤ pr → pr < powPrec T → ∀ k, X.length < k → ParsesTo T (parseUnary T top k) T.unPrec X x)
    (has : T.asPrec ≤ pr → pr < T.unPrec → ParsesTo T (parseAs T top n) T.asPrec X x)
    (hrng : pr < T.asPrec → ParsesTo T (parseRng T top n) T.rngPrec X x)
    (hhead : powPrec T ≤ pr → HeadPrimary X) :
    AllStages T top n X x pr (fun _ => 0) := by
  have pow' : powPrec T ≤ pr → ∀ k, X.length < k → ParsesTo T (parsePower T top k) (powPrec T) X x := by
    intro h k hk
    by_cases h2 : T.postPrec ≤ pr
    · obtain ⟨k', rfl⟩ : ∃ k', k = k' + 1 := ⟨k - 1, by omega⟩
      exact pow_of_post hC top (hpost h2) k'
    · exact hpow h (by omega) k hk
  have un' : T.unPrec ≤ pr → ∀ k, X.length < k → ParsesTo T (parseUnary T top k) T.unPrec X x := by
    intro h k hk
    by_cases h2 : powPrec T ≤ pr
    · obtain ⟨k', rfl⟩ : ∃ k', k = k' + 1 := ⟨k - 1, by omega⟩
      exact un_of_pow hC top (hhead h2) k' (pow' h2 _ hk)
    · exact hun h (by omega) k hk
  have as' : T.asPrec ≤ pr → ParsesTo T (parseAs T top n) T.asPrec X x := by
    intro h
    by_cases h2 : T.unPrec ≤ pr
    · exact as_of_un hC top n (un' h2 n hXn)
    · exact has h (by omega)
  have rng' : ParsesTo T (parseRng T top n) T.rngPrec X x := by
    by_cases h2 : T.asPrec ≤ pr
    · exact rng_of_as hC top n (as' h2)
    · exact hrng (by omega)
  have hl := ladder_stages hC top n X x pr (fun _ => 0) (fun _ => by omega)
    (fun lv rest hs _ => Nat.le_trans (minPrec_le_rng hC hs.tail) hpr)
    (fun _ => rng')
    (fun lv rest hs heq => by
      have := hC.lvl_lt lv (hs.mem (by simp))
      omega)
    (fun _ _ => rfl)
  exact ⟨hpost, pow', un', as', fun lad hs hle => (hl lad hs hle).1,
    fun lv rest hs hle => (hl (lv :: rest) hs hle).2 lv rest rfl⟩

/-- an item built by a level of the ladder -/
theorem AllStages.mk_ladder {X : List Tok} {x : E} {pr : Nat} {sp : Nat → Nat} (hpr : pr < T.rngPrec)
    (hn : ∀ p, sp p < n)
    (hfit : ∀ lv rest, Suffix T (lv :: rest) → lv.prec < pr → minPrec T rest ≤ pr)
    (hown : ∀ lv rest, Suffix T (lv :: rest) → lv.prec = pr → LoopTo T top n lv rest X x (sp lv.prec))
    (hsp0 : ∀ p, p ≠ pr → sp p = 0) :
    AllStages T top n X x pr sp := by
  have h1 := hC.rng_as
  have h2 := hC.as_un
  have h3 := hC.un_pow
  have h4 := hC.pow_post
  have hl := ladder_stages hC top n X x pr sp hn hfit (fun h => by omega) hown hsp0
  exact ⟨fun h => by omega, fun h => by omega, fun h => by omega, fun h => by omega,
    fun lad hs hle => (hl lad hs hle).1, fun lv rest hs hle => (hl (lv :: rest) hs hle).2 lv rest rfl⟩

end Build

end Elk.Prec
