import ElkVerif.Model.Strict
/-! Helper lemmas for C07 (generic in the width). Core Lean only. -/
namespace Elk.Strict

/-! ### the reference meaning of a shift by an exact integer count -/

/-- shift left by `left` (an exact integer; negative = to the right, logical or arithmetic);
counts of any size: `BitVec`'s shifts saturate -/
def idealShift {w} (logicalRight : Bool) (a : BitVec w) (left : Int) : BitVec w :=
  if 0 ≤ left then a <<< left.toNat
  else if logicalRight then a >>> (-left).toNat else a.sshiftRight (-left).toNat

/-- what each Elk operator means on a sized integer -/
def ideal {w} (op : ShOp) (signed : Bool) (a : BitVec w) (n : Int) : BitVec w :=
  match op with
  | .shl => idealShift (!signed) a n
  | .shr => idealShift (!signed) a (-n)
  | .lshl => idealShift true a n
  | .lshr => idealShift true a (-n)

theorem shlSat_eq {w} (a : BitVec w) (n : Nat) : shlSat a n = a <<< n := by
  unfold shlSat; split
  · rename_i h; rw [BitVec.shiftLeft_eq_zero h]
  · rfl

theorem lshrSat_eq {w} (a : BitVec w) (n : Nat) : lshrSat a n = a >>> n := by
  unfold lshrSat; split
  · rename_i h; rw [BitVec.ushiftRight_eq_zero h]
  · rfl

theorem ashrSat_eq {w} (a : BitVec w) (n : Nat) : ashrSat a n = a.sshiftRight n := by
  unfold ashrSat
  apply BitVec.eq_of_getLsbD_eq
  intro i hi
  rw [BitVec.getLsbD_sshiftRight, BitVec.getLsbD_sshiftRight]
  by_cases h : n ≤ w
  · rw [Nat.min_eq_left h]
  · have h1 : min n w = w := Nat.min_eq_right (by omega)
    have h2 : ¬ (w + i < w) := by omega
    have h3 : ¬ (n + i < w) := by omega
    rw [h1, if_neg h2, if_neg h3]

/-- beyond the width an arithmetic shift only leaves the sign: all such counts agree -/
theorem sshiftRight_sat {w} (a : BitVec w) (n m : Nat) (hn : w ≤ n) (hm : w ≤ m) :
    a.sshiftRight n = a.sshiftRight m := by
  rw [← ashrSat_eq a n, ← ashrSat_eq a m]
  unfold ashrSat
  rw [Nat.min_eq_right hn, Nat.min_eq_right hm]

theorem ushiftRight_sat {w} (a : BitVec w) (n m : Nat) (hn : w ≤ n) (hm : w ≤ m) : a >>> n = a >>> m := by
  rw [BitVec.ushiftRight_eq_zero hn, BitVec.ushiftRight_eq_zero hm]

theorem goShl_eq {w} (a : BitVec w) (n : Nat) : goShl a n = .ok (a <<< n) := by
  unfold goShl; rw [shlSat_eq]

theorem goShr_eq {w} (signed : Bool) (a : BitVec w) (n : Nat) :
    goShr signed a n = .ok (if signed then a.sshiftRight n else a >>> n) := by
  unfold goShr; rw [ashrSat_eq, lshrSat_eq]

theorem logShr_eq {w} (a : BitVec w) (n : Nat) : logShr a n = .ok (a >>> n) := by
  unfold logShr; rw [lshrSat_eq]

theorem idealShift_nonneg {w} (lr : Bool) (a : BitVec w) (l : Int) (h : 0 ≤ l) :
    idealShift lr a l = a <<< l.toNat := by
  unfold idealShift; rw [if_pos h]

theorem idealShift_neg {w} (lr : Bool) (a : BitVec w) (l : Int) (h : l < 0) :
    idealShift lr a l = if lr then a >>> (-l).toNat else a.sshiftRight (-l).toNat := by
  unfold idealShift; rw [if_neg (by omega)]

/-- a right shift by `n ≥ 0` is the ideal shift by `-n` (also at 0, where every shift is the identity) -/
theorem idealShift_right {w} (lr : Bool) (a : BitVec w) (n : Int) (h : 0 ≤ n) :
    idealShift lr a (-n) = if lr then a >>> n.toNat else a.sshiftRight n.toNat := by
  by_cases h0 : n = 0
  · subst h0; unfold idealShift; cases lr <;> simp
  · rw [idealShift_neg lr a (-n) (by omega), Int.neg_neg]

theorem bool_ite_not {α} (b : Bool) (x y : α) : (if (!b) = true then x else y) = if b = true then y else x := by
  cases b <;> simp

/-- what `ROp.count` says about the exact count -/
inductive CountSpec (v : Int) : Count → Prop where
  | left : 0 ≤ v → CountSpec v (.left v.toNat)
  | right : v < 0 → CountSpec v (.right (-v).toNat)
  | hugeLeft : (2 ^ 63 : Int) ≤ v → CountSpec v .hugeLeft
  | hugeRight : v < -(2 ^ 63 : Int) → CountSpec v .hugeRight

theorem count_spec (k : RKind) (v : Int) (hk : k ≠ .other) : CountSpec v (ROp.count ⟨k, v⟩) := by
  have small : CountSpec v (if v < 0 then Count.right (-v).toNat else Count.left v.toNat) := by
    by_cases h : v < 0
    · rw [if_pos h]; exact .right h
    · rw [if_neg h]; exact .left (by omega)
  cases k
  case other => exact absurd rfl hk
  case bigInt =>
    simp only [ROp.count]
    by_cases hf : fits64 v = true
    · rw [if_pos hf]; exact small
    · rw [if_neg hf]
      have hf' : v < -(2 ^ 63 : Int) ∨ (2 ^ 63 : Int) ≤ v := by
        simp [fits64] at hf; omega
      by_cases hp : 0 < v
      · rw [if_pos hp]; exact .hugeLeft (by omega)
      · rw [if_neg hp]; exact .hugeRight (by omega)
  all_goals exact small

theorem leftShift_spec {w} (hw : w ≤ 64) (signed : Bool) (a : BitVec w) (k : RKind) (v : Int) (hk : k ≠ .other) :
    leftShift signed a ⟨k, v⟩ = .ok (idealShift (!signed) a v) := by
  have hs := count_spec k v hk
  unfold leftShift
  generalize ROp.count ⟨k, v⟩ = c at hs ⊢
  cases hs with
  | left h => simp only; rw [goShl_eq, idealShift_nonneg _ a v h]
  | right h => simp only; rw [goShr_eq, idealShift_neg _ a v h, bool_ite_not]
  | hugeLeft h =>
    simp only
    rw [idealShift_nonneg _ a v (by omega), BitVec.shiftLeft_eq_zero (by omega)]
    rfl
  | hugeRight h =>
    simp only
    rw [goShr_eq, idealShift_neg _ a v (by omega), bool_ite_not,
      sshiftRight_sat a 64 (-v).toNat hw (by omega), ushiftRight_sat a 64 (-v).toNat hw (by omega)]

theorem rightShift_spec {w} (hw : w ≤ 64) (signed : Bool) (a : BitVec w) (k : RKind) (v : Int) (hk : k ≠ .other) :
    rightShift signed a ⟨k, v⟩ = .ok (idealShift (!signed) a (-v)) := by
  have hs := count_spec k v hk
  unfold rightShift
  generalize ROp.count ⟨k, v⟩ = c at hs ⊢
  cases hs with
  | left h => simp only; rw [goShr_eq, idealShift_right _ a v h, bool_ite_not]
  | right h => simp only; rw [goShl_eq, idealShift_nonneg _ a (-v) (by omega)]
  | hugeLeft h =>
    simp only
    rw [goShr_eq, idealShift_right _ a v (by omega), bool_ite_not,
      sshiftRight_sat a 64 v.toNat hw (by omega), ushiftRight_sat a 64 v.toNat hw (by omega)]
  | hugeRight h =>
    simp only
    rw [idealShift_nonneg _ a (-v) (by omega), BitVec.shiftLeft_eq_zero (by omega)]
    rfl

theorem logicalLeftShift_spec {w} (hw : w ≤ 64) (a : BitVec w) (k : RKind) (v : Int) (hk : k ≠ .other) :
    logicalLeftShift a ⟨k, v⟩ = .ok (idealShift true a v) := by
  have hs := count_spec k v hk
  unfold logicalLeftShift
  generalize ROp.count ⟨k, v⟩ = c at hs ⊢
  cases hs with
  | left h => simp only; rw [goShl_eq, idealShift_nonneg _ a v h]
  | right h => simp only; rw [logShr_eq, idealShift_neg _ a v h]; rfl
  | hugeLeft h =>
    simp only
    rw [idealShift_nonneg _ a v (by omega), BitVec.shiftLeft_eq_zero (by omega)]
    rfl
  | hugeRight h =>
    simp only
    rw [idealShift_neg _ a v (by omega), if_pos rfl, BitVec.ushiftRight_eq_zero (by omega)]
    rfl

theorem logicalRightShift_spec {w} (hw : w ≤ 64) (a : BitVec w) (k : RKind) (v : Int) (hk : k ≠ .other) :
    logicalRightShift a ⟨k, v⟩ = .ok (idealShift true a (-v)) := by
  have hs := count_spec k v hk
  unfold logicalRightShift
  generalize ROp.count ⟨k, v⟩ = c at hs ⊢
  cases hs with
  | left h => simp only; rw [logShr_eq, idealShift_right _ a v h]; rfl
  | right h => simp only; rw [goShl_eq, idealShift_nonneg _ a (-v) (by omega)]
  | hugeLeft h =>
    simp only
    rw [idealShift_right _ a v (by omega), if_pos rfl, BitVec.ushiftRight_eq_zero (by omega)]
    rfl
  | hugeRight h =>
    simp only
    rw [idealShift_nonneg _ a (-v) (by omega), BitVec.shiftLeft_eq_zero (by omega)]
    rfl

/-! ### the bitshift TypeError depends on the operand's kind only -/

theorem count_other (v : Int) : ROp.count ⟨.other, v⟩ = .notAnInt := rfl

theorem shift_typeErr_iff {w} (op : ShOp) (signed : Bool) (a : BitVec w) (k : RKind) (v : Int) :
    shift op signed a ⟨k, v⟩ = .bitshiftOperand ↔ k = .other := by
  constructor
  · intro h
    by_cases hk : k = .other
    · exact hk
    · exfalso
      have hs := count_spec k v hk
      simp only [shift, leftShift, rightShift, logicalLeftShift, logicalRightShift, goShl, goShr, logShr] at h
      generalize ROp.count ⟨k, v⟩ = c at hs h
      cases op <;> cases signed <;> cases hs <;> simp at h
  · intro h; subst h
    cases op <;> cases signed <;>
      simp [shift, leftShift, rightShift, logicalLeftShift, logicalRightShift, count_other]

/-! ### wrapped power -/

theorem powLoop_succ {w} (a : BitVec w) (n : Nat) : powLoop a (n + 1) = powLoop a n * a := by
  cases n with
  | zero => simp [powLoop]
  | succ m => rfl

theorem powLoop_toNat {w} (a : BitVec w) (n : Nat) : (powLoop a n).toNat = a.toNat ^ n % 2 ^ w := by
  induction n with
  | zero => simp [powLoop]
  | succ n ih =>
    rw [powLoop_succ, BitVec.toNat_mul, ih, Nat.pow_succ, Nat.mod_mul_mod]

end Elk.Strict
