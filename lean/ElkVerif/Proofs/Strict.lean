import ElkVerif.Model.Strict
/-! Helper lemmas for C07 (generic in the width). Core Lean only. -/
namespace Elk.Strict

/-! ### the reference meaning of a shift by an exact integer count -/

/-- shift left by `left` (an exact integer; negative = to the right, logical or arithmetic);
counts of any size: `BitVec`'s shifts saturate -/
def idealShift {w} (logicalRight : Bool) (a : BitVec w) (left : Int) : BitVec w :=
  if 0 ≤ left then a <<< left.toNat
  else if logicalRight then a >>> (-left).toNat else a.sshiftRight (-left).toNat

/-- what each Elk operator means on a sized integer -/
def ideal {w} (op : ShOp) (signed : Bool) (a : BitVec w) (n : Int) : BitVec w :=
  match op with
  | .shl => idealShift (!signed) a n
  | .shr => idealShift (!signed) a (-n)
  | .lshl => idealShift true a n
  | .lshr => idealShift true a (-n)

/-- a right operand whose count the helpers handle without a wrapped negation: an integer kind,
value in the kind's range, not the most negative value of a signed kind; a `*BigInt` that fits
a word (the runtime only creates word-sized values as `SmallInt`, but the helpers accept both) -/
def ROp.Regular (r : ROp) : Prop :=
  match r.kind with
  | .other => False
  | .bigInt => -(2 ^ 63 : Int) < r.val ∧ r.val < 2 ^ 63
  | .smallInt | .i64 => -(2 ^ 63 : Int) < r.val ∧ r.val < 2 ^ 63
  | .i32 => -(2 ^ 31 : Int) < r.val ∧ r.val < 2 ^ 31
  | .i16 => -(2 ^ 15 : Int) < r.val ∧ r.val < 2 ^ 15
  | .i8 => -(2 ^ 7 : Int) < r.val ∧ r.val < 2 ^ 7
  | .u64 | .uint => 0 ≤ r.val ∧ r.val < 2 ^ 64
  | .u32 => 0 ≤ r.val ∧ r.val < 2 ^ 32
  | .u16 => 0 ≤ r.val ∧ r.val < 2 ^ 16
  | .u8 => 0 ≤ r.val ∧ r.val < 2 ^ 8

theorem negWrap_regular (bits : Nat) (v : Int) (h : -(2 ^ (bits - 1) : Int) < v) : negWrap bits v = -v := by
  unfold negWrap
  split
  · omega
  · rfl

theorem toU64_of_nonneg (v : Int) (h0 : 0 ≤ v) (h1 : v < 2 ^ 64) : toU64 v = v.toNat := by
  unfold toU64
  rw [Int.emod_eq_of_lt h0 h1]

theorem fits64_of (v : Int) (h : -(2 ^ 63 : Int) < v ∧ v < 2 ^ 63) : fits64 v = true := by
  simp [fits64]; omega

theorem shlSat_eq {w} (a : BitVec w) (n : Nat) : shlSat a n = a <<< n := by
  unfold shlSat; split
  · rename_i h; rw [BitVec.shiftLeft_eq_zero h]
  · rfl

theorem lshrSat_eq {w} (a : BitVec w) (n : Nat) : lshrSat a n = a >>> n := by
  unfold lshrSat; split
  · rename_i h; rw [BitVec.ushiftRight_eq_zero h]
  · rfl

theorem ashrSat_eq {w} (a : BitVec w) (n : Nat) : ashrSat a n = a.sshiftRight n := by
  unfold ashrSat
  apply BitVec.eq_of_getLsbD_eq
  intro i hi
  rw [BitVec.getLsbD_sshiftRight, BitVec.getLsbD_sshiftRight]
  by_cases h : n ≤ w
  · rw [Nat.min_eq_left h]
  · have h1 : min n w = w := Nat.min_eq_right (by omega)
    have h2 : ¬ (w + i < w) := by omega
    have h3 : ¬ (n + i < w) := by omega
    rw [h1, if_neg h2, if_neg h3]

theorem logShr_eq {w} (a : BitVec w) (n : Nat) : logShr a n = .ok (a >>> n) := by
  unfold logShr; rw [lshrSat_eq]

theorem goShl_nonneg {w} (a : BitVec w) (n : Int) (h : 0 ≤ n) : goShl a n = .ok (a <<< n.toNat) := by
  unfold goShl; rw [if_neg (by omega), shlSat_eq]

theorem goShr_nonneg {w} (signed : Bool) (a : BitVec w) (n : Int) (h : 0 ≤ n) :
    goShr signed a n = .ok (if signed then a.sshiftRight n.toNat else a >>> n.toNat) := by
  unfold goShr; rw [if_neg (by omega), ashrSat_eq, lshrSat_eq]

theorem idealShift_nonneg {w} (lr : Bool) (a : BitVec w) (l : Int) (h : 0 ≤ l) :
    idealShift lr a l = a <<< l.toNat := by
  unfold idealShift; rw [if_pos h]

theorem idealShift_neg {w} (lr : Bool) (a : BitVec w) (l : Int) (h : l < 0) :
    idealShift lr a l = if lr then a >>> (-l).toNat else a.sshiftRight (-l).toNat := by
  unfold idealShift; rw [if_neg (by omega)]

/-- a right shift by `n ≥ 0` is the ideal shift by `-n` (also at 0, where every shift is the identity) -/
theorem idealShift_right {w} (lr : Bool) (a : BitVec w) (n : Int) (h : 0 ≤ n) :
    idealShift lr a (-n) = if lr then a >>> n.toNat else a.sshiftRight n.toNat := by
  by_cases h0 : n = 0
  · subst h0; unfold idealShift; cases lr <;> simp
  · rw [idealShift_neg lr a (-n) (by omega), Int.neg_neg]

theorem bool_ite_not {α} (b : Bool) (x y : α) : (if (!b) = true then x else y) = if b = true then y else x := by
  cases b <;> simp

/-- shape of every helper on a regular operand: a signed count `v` -/
theorem leftShift_signedKind {w} (signed : Bool) (a : BitVec w) (k : RKind) (bits : Nat) (v : Int)
    (hk : k.signedBits = some bits) (hko : k ≠ .other) (hv : -(2 ^ (bits - 1) : Int) < v) :
    leftShift signed a ⟨k, v⟩ = .ok (idealShift (!signed) a v) := by
  have hko' : (k == RKind.other) = false := by simpa using hko
  simp only [leftShift, hko', hk, Bool.false_eq_true, if_false]
  by_cases hneg : v < 0
  · rw [if_pos hneg, negWrap_regular bits v hv, goShr_nonneg signed a (-v) (by omega),
      idealShift_neg _ a v hneg, bool_ite_not]
  · rw [if_neg hneg, goShl_nonneg a v (by omega), idealShift_nonneg _ a v (by omega)]

theorem rightShift_signedKind {w} (signed : Bool) (a : BitVec w) (k : RKind) (bits : Nat) (v : Int)
    (hk : k.signedBits = some bits) (hko : k ≠ .other) (hv : -(2 ^ (bits - 1) : Int) < v) :
    rightShift signed a ⟨k, v⟩ = .ok (idealShift (!signed) a (-v)) := by
  have hko' : (k == RKind.other) = false := by simpa using hko
  simp only [rightShift, hko', hk, Bool.false_eq_true, if_false]
  by_cases hneg : v < 0
  · rw [if_pos hneg, negWrap_regular bits v hv, goShl_nonneg a (-v) (by omega),
      idealShift_nonneg _ a (-v) (by omega)]
  · rw [if_neg hneg, goShr_nonneg signed a v (by omega), idealShift_right _ a v (by omega), bool_ite_not]

theorem logicalLeftShift_signedKind {w} (a : BitVec w) (k : RKind) (bits : Nat) (v : Int)
    (hk : k.signedBits = some bits) (hko : k ≠ .other) (hv : -(2 ^ (bits - 1) : Int) < v)
    (hlim : (2 : Int) ^ (bits - 1) ≤ 2 ^ 63) :
    logicalLeftShift a ⟨k, v⟩ = .ok (idealShift true a v) := by
  have hko' : (k == RKind.other) = false := by simpa using hko
  simp only [logicalLeftShift, hko', hk, Bool.false_eq_true, if_false]
  by_cases hneg : v < 0
  · rw [if_pos hneg, negWrap_regular bits v hv, toU64_of_nonneg (-v) (by omega) (by omega),
      idealShift_neg _ a v hneg, logShr_eq]
    rfl
  · rw [if_neg hneg, goShl_nonneg a v (by omega), idealShift_nonneg _ a v (by omega)]

theorem logicalRightShift_signedKind {w} (a : BitVec w) (k : RKind) (bits : Nat) (v : Int)
    (hk : k.signedBits = some bits) (hko : k ≠ .other) (hv : -(2 ^ (bits - 1) : Int) < v)
    (hv2 : v < 2 ^ 64) :
    logicalRightShift a ⟨k, v⟩ = .ok (idealShift true a (-v)) := by
  have hko' : (k == RKind.other) = false := by simpa using hko
  simp only [logicalRightShift, hko', hk, Bool.false_eq_true, if_false]
  by_cases hneg : v < 0
  · rw [if_pos hneg, negWrap_regular bits v hv, goShl_nonneg a (-v) (by omega),
      idealShift_nonneg _ a (-v) (by omega)]
  · rw [if_neg hneg, toU64_of_nonneg v (by omega) hv2, idealShift_right _ a v (by omega), logShr_eq]
    rfl

theorem unsigned_facts (k : RKind) (hk : k.isUnsigned = true) :
    (k == RKind.other) = false ∧ k.signedBits = none := by
  cases k <;> simp_all [RKind.isUnsigned, RKind.signedBits]

/-- an unsigned count -/
theorem leftShift_unsignedKind {w} (signed : Bool) (a : BitVec w) (k : RKind) (v : Int)
    (hk : k.isUnsigned = true) (hv : 0 ≤ v) :
    leftShift signed a ⟨k, v⟩ = .ok (idealShift (!signed) a v) := by
  obtain ⟨hko', hsb⟩ := unsigned_facts k hk
  simp only [leftShift, hko', hsb, hk, Bool.false_eq_true, if_false, if_true]
  rw [goShl_nonneg a v hv, idealShift_nonneg _ a v hv]

theorem rightShift_unsignedKind {w} (signed : Bool) (a : BitVec w) (k : RKind) (v : Int)
    (hk : k.isUnsigned = true) (hv : 0 ≤ v) :
    rightShift signed a ⟨k, v⟩ = .ok (idealShift (!signed) a (-v)) := by
  obtain ⟨hko', hsb⟩ := unsigned_facts k hk
  simp only [rightShift, hko', hsb, hk, Bool.false_eq_true, if_false, if_true]
  rw [goShr_nonneg signed a v hv, idealShift_right _ a v hv, bool_ite_not]

theorem logicalLeftShift_unsignedKind {w} (a : BitVec w) (k : RKind) (v : Int)
    (hk : k.isUnsigned = true) (hv : 0 ≤ v) :
    logicalLeftShift a ⟨k, v⟩ = .ok (idealShift true a v) := by
  obtain ⟨hko', hsb⟩ := unsigned_facts k hk
  simp only [logicalLeftShift, hko', hsb, hk, Bool.false_eq_true, if_false, if_true]
  rw [goShl_nonneg a v hv, idealShift_nonneg _ a v hv]

theorem logicalRightShift_unsignedKind {w} (a : BitVec w) (k : RKind) (v : Int)
    (hk : k.isUnsigned = true) (hv : 0 ≤ v) (hv2 : v < 2 ^ 64) :
    logicalRightShift a ⟨k, v⟩ = .ok (idealShift true a (-v)) := by
  obtain ⟨hko', hsb⟩ := unsigned_facts k hk
  simp only [logicalRightShift, hko', hsb, hk, Bool.false_eq_true, if_false, if_true]
  rw [toU64_of_nonneg v hv hv2, idealShift_right _ a v hv, logShr_eq]
  rfl

/-- a `*BigInt` count that fits a word behaves like a `SmallInt` count -/
theorem leftShift_big {w} (signed : Bool) (a : BitVec w) (v : Int) :
    fits64 v = true → leftShift signed a ⟨.bigInt, v⟩ = leftShift signed a ⟨.smallInt, v⟩ := by
  intro h; simp [leftShift, RKind.signedBits, RKind.isUnsigned, h]

theorem rightShift_big {w} (signed : Bool) (a : BitVec w) (v : Int) :
    fits64 v = true → rightShift signed a ⟨.bigInt, v⟩ = rightShift signed a ⟨.smallInt, v⟩ := by
  intro h; simp [rightShift, RKind.signedBits, RKind.isUnsigned, h]

theorem logicalLeftShift_big {w} (a : BitVec w) (v : Int) :
    fits64 v = true → logicalLeftShift a ⟨.bigInt, v⟩ = logicalLeftShift a ⟨.smallInt, v⟩ := by
  intro h; simp [logicalLeftShift, RKind.signedBits, RKind.isUnsigned, h]

theorem logicalRightShift_big {w} (a : BitVec w) (v : Int) :
    fits64 v = true → logicalRightShift a ⟨.bigInt, v⟩ = logicalRightShift a ⟨.smallInt, v⟩ := by
  intro h; simp [logicalRightShift, RKind.signedBits, RKind.isUnsigned, h]

/-! ### the bitshift TypeError depends on the operand's kind only -/

theorem shift_typeErr_iff {w} (op : ShOp) (signed : Bool) (a : BitVec w) (k : RKind) (v : Int) :
    shift op signed a ⟨k, v⟩ = .bitshiftOperand ↔ k = .other := by
  constructor
  · intro h
    by_cases hk : k = .other
    · exact hk
    · exfalso
      have hko' : (k == RKind.other) = false := by simpa using hk
      cases op <;> cases signed <;>
        simp only [shift, leftShift, rightShift, logicalLeftShift, logicalRightShift, hko', goShl, goShr, logShr,
          Bool.false_eq_true, if_false, if_true] at h <;>
        (repeat' split at h) <;> simp_all
  · intro h; subst h
    cases op <;> cases signed <;> simp [shift, leftShift, rightShift, logicalLeftShift, logicalRightShift]

/-! ### wrapped power -/

theorem powLoop_succ {w} (a : BitVec w) (n : Nat) : powLoop a (n + 1) = powLoop a n * a := by
  cases n with
  | zero => simp [powLoop]
  | succ m => rfl

theorem powLoop_toNat {w} (a : BitVec w) (n : Nat) : (powLoop a n).toNat = a.toNat ^ n % 2 ^ w := by
  induction n with
  | zero => simp [powLoop]
  | succ n ih =>
    rw [powLoop_succ, BitVec.toNat_mul, ih, Nat.pow_succ, Nat.mod_mul_mod]

end Elk.Strict
