import ElkVerif.Proofs.Date
import ElkVerif.Model.DateFmt
/-! Helper lemmas for printing and re-reading decimal fields (C22 format/parse round trip). -/
namespace Elk.DateFmt
open Elk.Date Elk.Civil

/-! ### digits -/

theorem digitChar_spec (k : Nat) :
    isDigit (digitChar k) = true ∧ (digitChar k).toNat - 48 = k % 10 := by
  have h : k % 10 = 0 ∨ k % 10 = 1 ∨ k % 10 = 2 ∨ k % 10 = 3 ∨ k % 10 = 4 ∨ k % 10 = 5 ∨ k % 10 = 6 ∨
      k % 10 = 7 ∨ k % 10 = 8 ∨ k % 10 = 9 := by omega
  unfold digitChar
  rcases h with h | h | h | h | h | h | h | h | h | h <;> rw [h] <;> decide

theorem natDigitsF_step (f n : Nat) :
    natDigitsF (f + 1) n = if n < 10 then [digitChar n] else natDigitsF f (n / 10) ++ [digitChar n] := rfl

theorem natDigitsF_succ (f n : Nat) (h : n < f) : natDigitsF (f + 1) n = natDigitsF f n := by
  induction f generalizing n with
  | zero => omega
  | succ f ih =>
    rw [natDigitsF_step (f + 1) n, natDigitsF_step f n]
    by_cases h10 : n < 10
    · simp [h10]
    · simp only [h10, if_false]
      rw [ih (n / 10) (by omega)]

theorem natDigitsF_add (k f n : Nat) (h : n < f) : natDigitsF (f + k) n = natDigitsF f n := by
  induction k with
  | zero => rfl
  | succ k ih => rw [← Nat.add_assoc, natDigitsF_succ _ _ (by omega), ih]

theorem natDigits_small (n : Nat) (h : n < 10) : natDigits n = [digitChar n] := by
  unfold natDigits; rw [natDigitsF_step]; simp [h]

theorem natDigits_rec (n : Nat) (h : 10 ≤ n) : natDigits n = natDigits (n / 10) ++ [digitChar n] := by
  unfold natDigits
  rw [natDigitsF_step]
  have h10 : ¬ n < 10 := by omega
  simp only [h10, if_false]
  have e : n = (n / 10 + 1) + (n - (n / 10 + 1)) := by omega
  have := natDigitsF_add (n - (n / 10 + 1)) (n / 10 + 1) (n / 10) (by omega)
  rw [← e] at this
  rw [this]

/-- the value the digit loop of `parseTemporalDigitsOk` accumulates -/
def digitsValue (acc : Nat) (l : List Char) : Nat := l.foldl (fun a c => a * 10 + (c.toNat - 48)) acc

theorem digitsValue_nil (acc : Nat) : digitsValue acc [] = acc := by simp [digitsValue]
theorem digitsValue_cons (acc : Nat) (c : Char) (r : List Char) :
    digitsValue acc (c :: r) = digitsValue (acc * 10 + (c.toNat - 48)) r := by simp [digitsValue]

theorem digitsValue_append (acc : Nat) (l : List Char) (c : Char) :
    digitsValue acc (l ++ [c]) = digitsValue acc l * 10 + (c.toNat - 48) := by
  simp [digitsValue, List.foldl_append]

theorem natDigits_props (n : Nat) :
    digitsValue 0 (natDigits n) = n ∧ (∀ c ∈ natDigits n, isDigit c = true) ∧
      (∀ w, n < 10 ^ (w + 1) → (natDigits n).length ≤ w + 1) := by
  induction n using Nat.strongRecOn with
  | _ n ih =>
    by_cases h : n < 10
    · rw [natDigits_small n h]
      refine ⟨?_, ?_, ?_⟩
      · rw [digitsValue_cons, digitsValue_nil]; have := (digitChar_spec n).2; omega
      · intro c hc; simp at hc; subst hc; exact (digitChar_spec n).1
      · intro w _; simp
    · rw [natDigits_rec n (by omega)]
      obtain ⟨h1, h2, h3⟩ := ih (n / 10) (by omega)
      refine ⟨?_, ?_, ?_⟩
      · rw [digitsValue_append, h1]; have := (digitChar_spec n).2; omega
      · intro c hc
        rw [List.mem_append] at hc
        rcases hc with hc | hc
        · exact h2 c hc
        · simp at hc; subst hc; exact (digitChar_spec n).1
      · intro w hw
        cases w with
        | zero => omega
        | succ w =>
          have := h3 w (by rw [Nat.pow_succ] at hw; omega)
          simp; omega

/-- the digit loop reads a run of digits that fits the width and stops at the width, at the end of the
input or at a non-digit -/
theorem digitLoop_digits (maxChars : Nat) (l rest : List Char) (i acc : Nat)
    (hd : ∀ c ∈ l, isDigit c = true) (hlen : i + l.length ≤ maxChars)
    (hstop : rest = [] ∨ (∃ c r, rest = c :: r ∧ isDigit c = false) ∨ i + l.length = maxChars) :
    digitLoop maxChars (l ++ rest) i acc = (i + l.length, digitsValue acc l, rest) := by
  induction l generalizing i acc with
  | nil =>
    rw [digitsValue_nil]
    simp only [List.nil_append, List.length_nil, Nat.add_zero]
    rcases hstop with h | ⟨c, r, h, hc⟩ | h
    · subst h; rfl
    · subst h; simp [digitLoop, hc]
    · cases rest with
      | nil => rfl
      | cons c r => simp at h; simp [digitLoop]; omega
  | cons a l ih =>
    have ha := hd a (by simp)
    simp only [List.cons_append, digitLoop, ha]
    have hi : ¬ i ≥ maxChars := by simp at hlen; omega
    simp only [hi, Bool.not_true, Bool.false_eq_true, or_self, if_false]
    rw [ih (i + 1) _ (fun c hc => hd c (by simp [hc])) (by simp at hlen ⊢; omega)
      (by rcases hstop with h | h | h
          · exact Or.inl h
          · exact Or.inr (Or.inl h)
          · right; right; simp at h ⊢; omega)]
    rw [digitsValue_cons]
    simp only [List.length_cons]
    congr 1; omega

/-- `%0wd` of a natural number below `10^w`: exactly `w` digits whose value is the number -/
theorem fmtZero_nat (w : Nat) (n : Nat) (h : n < 10 ^ (w + 1)) :
    ∃ l : List Char, fmtZero (w + 1) (n : Int) = l ∧ l.length = w + 1 ∧ (∀ c ∈ l, isDigit c = true) ∧
      digitsValue 0 l = n := by
  obtain ⟨h1, h2, h3⟩ := natDigits_props n
  have hl := h3 w h
  refine ⟨_, rfl, ?_, ?_, ?_⟩
  · have hn : ¬ ((n : Int) < 0) := by omega
    simp only [fmtZero, Int.natAbs_natCast, hn, if_false, List.length_append, List.length_replicate]; omega
  · intro c hc
    simp only [fmtZero, Int.natAbs_natCast] at hc
    have hn : ¬ ((n : Int) < 0) := by omega
    simp only [hn, if_false, List.mem_append, List.mem_replicate] at hc
    rcases hc with ⟨_, hc⟩ | hc
    · subst hc; decide
    · exact h2 c hc
  · simp only [fmtZero, Int.natAbs_natCast]
    have hn : ¬ ((n : Int) < 0) := by omega
    simp only [hn, if_false]
    have hz : ∀ k acc rest, digitsValue acc (List.replicate k '0' ++ rest) = digitsValue (acc * 10 ^ k) rest := by
      intro k
      induction k with
      | zero => intro acc rest; simp
      | succ k ih =>
        intro acc rest
        rw [List.replicate_succ, List.cons_append, digitsValue_cons]
        rw [ih]
        have : ('0' : Char).toNat - 48 = 0 := by decide
        rw [this, Nat.pow_succ]; congr 1; rw [Nat.add_zero, Nat.mul_assoc, Nat.mul_comm 10]
    rw [hz]; simpa using h1

/-- re-reading a zero-padded field of width `w` that is followed by the end of the input or a non-digit -/
theorem parseDigits_fmtZero (w n : Nat) (h : n < 10 ^ (w + 1)) (rest : List Char)
    (hstop : rest = [] ∨ ∃ c r, rest = c :: r ∧ isDigit c = false) :
    parseDigits (fmtZero (w + 1) (n : Int) ++ rest) (w + 1) false = some (n, rest) := by
  obtain ⟨l, hl, hlen, hdig, hval⟩ := fmtZero_nat w n h
  rw [hl]
  have hne : (l ++ rest).isEmpty = false := by
    cases l with
    | nil => simp at hlen
    | cons a t => rfl
  unfold parseDigits
  simp only [hne, Bool.false_eq_true, if_false]
  have := digitLoop_digits (w + 1) l rest 0 0 hdig (by omega)
    (by rcases hstop with h | h
        · exact Or.inl h
        · exact Or.inr (Or.inl h))
  rw [this]
  simp only [Nat.zero_add, hlen, hval]
  simp

/-! ### `Date.parse(d.to_string)` for years 0 … 9999 -/

theorem scan_default :
    scan defaultDateFormat = [.year .zero, .text ['-'], .month .zero, .text ['-'], .dayOfMonth .zero] := by decide

theorem dash_not_digit : isDigit '-' = false := by decide

theorem parse_default_fields (Y M D : Nat) (hY : Y < 10000) (hM : 1 ≤ M ∧ M ≤ 12) (hD : D ≤ 31) :
    parseToks (scan defaultDateFormat)
        (fmtZero 4 (Y : Int) ++ '-' :: fmtZero 2 (M : Int) ++ '-' :: fmtZero 2 (D : Int)) {} =
      .ok { year := some (Y : Int), month := some (M : Int), day := some (D : Int) } := by
  rw [scan_default]
  have e : fmtZero 4 (Y : Int) ++ '-' :: fmtZero 2 (M : Int) ++ '-' :: fmtZero 2 (D : Int)
      = fmtZero 4 (Y : Int) ++ ('-' :: (fmtZero 2 (M : Int) ++ ('-' :: fmtZero 2 (D : Int)))) := by simp
  rw [e]
  have h1 : parseDigits (fmtZero 4 (Y : Int) ++ ('-' :: (fmtZero 2 (M : Int) ++ ('-' :: fmtZero 2 (D : Int))))) 4 false
      = some (Y, '-' :: (fmtZero 2 (M : Int) ++ ('-' :: fmtZero 2 (D : Int)))) :=
    parseDigits_fmtZero 3 Y (by omega) _ (Or.inr ⟨_, _, rfl, dash_not_digit⟩)
  have h2 : parseDigits (fmtZero 2 (M : Int) ++ ('-' :: fmtZero 2 (D : Int))) 2 false
      = some (M, '-' :: fmtZero 2 (D : Int)) :=
    parseDigits_fmtZero 1 M (by omega) _ (Or.inr ⟨_, _, rfl, dash_not_digit⟩)
  have h3 : parseDigits (fmtZero 2 (D : Int)) 2 false = some (D, []) := by
    have := parseDigits_fmtZero 1 D (by omega) [] (Or.inl rfl)
    simpa using this
  have mt : ∀ r : List Char, matchText ('-' :: r) ['-'] = some r := by
    intro r; simp [matchText]
  have hm' : ¬ (M < 1 ∨ M > 12) := by omega
  have hd' : ¬ (D > 31) := by omega
  simp only [parseToks, parseDateTok, spaceOf, pYear, pMonth, pDay, h1, h2, mt, bind, Option.bind, pure, Except.bind]
  simp only [hm', if_false, mt, h3, hd']
  rfl

/-- what `constructDateFromTmp` builds from a year, a month and a day -/
theorem construct_ymd (y m d : Int) (hy : InRange y) (hv : Valid y m d) :
    construct { year := some y, month := some m, day := some d } = (makeDate y m d, false) := by
  have hb := valid_bounds hv
  have f0 : (⟨0⟩ : Date).month = 0 ∧ (⟨0⟩ : Date).day = 0 := by decide
  obtain ⟨a1, a2, a3⟩ := makeDate_fields y 0 0 hy (by omega) (by omega)
  obtain ⟨b1, b2, b3⟩ := makeDate_fields y m 0 hy hb.1 (by omega)
  obtain ⟨c1, c2, c3⟩ := makeDate_fields y m d hy hb.1 hb.2
  have hm0 : m ≠ 0 := by have := hv.1; omega
  have hd0 : d ≠ 0 := by have := hv.2.2.1; omega
  have hnorm : (makeDate y m d).normalize (1, 1) = makeDate y m d := by
    unfold Date.normalize
    simp only [c2, c3, hm0, hd0, if_false]
    rw [toDateTime_valid y m d hy hv]
    have hc := civil_of (daysFromCivil y m d) 0 (by omega) nsPerDay_pos
    simp only [Int.add_zero] at hc
    unfold DateTime.date
    rw [hc.1, hc.2.1, hc.2.2, civilFromDays_daysFromCivil y m d hv]
  simp only [construct, Option.getD_none, Option.isSome_none, Bool.false_eq_true, if_false, f0.1, f0.2,
    Int.zero_mul, Int.zero_add, a1, a2, a3, b1, b2, b3, c1, c2, c3, hm0, hd0, hnorm, Option.isSome_some,
    Bool.or_true, Bool.not_true, Bool.or_false, decide_false, false_and, and_false, Bool.false_or]

/-- **`Date.parse(d.to_string) = d`** for every real date with a year in 0 … 9999 -/
theorem dateString_parse (y m d : Int) (hy : 0 ≤ y ∧ y ≤ 9999) (hv : Valid y m d) :
    parseDate defaultDateFormat (dateString (makeDate y m d)) = .ok (makeDate y m d) := by
  have hr : InRange y := by unfold InRange minYear maxYear; omega
  have hb := valid_bounds hv
  obtain ⟨c1, c2, c3⟩ := makeDate_fields y m d hr hb.1 hb.2
  obtain ⟨Y, rfl⟩ := Int.eq_ofNat_of_zero_le hy.1
  obtain ⟨M, rfl⟩ := Int.eq_ofNat_of_zero_le hb.1.1
  obtain ⟨D, rfl⟩ := Int.eq_ofNat_of_zero_le hb.2.1
  have hv' := hv
  obtain ⟨hm1, hm2, hd1, hd2⟩ := hv'
  have hfields := parse_default_fields Y M D (by omega) (by omega) (by have := hb.2.2; omega)
  have hs : dateString (makeDate (Y : Int) (M : Int) (D : Int)) =
      fmtZero 4 (Y : Int) ++ '-' :: fmtZero 2 (M : Int) ++ '-' :: fmtZero 2 (D : Int) := by
    unfold dateString; rw [c1, c2, c3]
  unfold parseDate
  rw [hs, hfields]
  unfold finishParse
  simp only [construct_ymd _ _ _ hr hv]
  rfl

end Elk.DateFmt
