import ElkVerif.Model.Pattern
/-! helper lemmas for C30 (pattern matching) -/
namespace Elk.Pattern

/-! ## first-match selection -/

theorem selectFrom_some (ρ : Env) (v : V) (cs : List Pat) (k i : Nat) (b : Bindings) :
    selectFrom ρ v k cs = some (i, b) ↔
      k ≤ i ∧ (∃ p, cs[i - k]? = some p ∧ matchP ρ p v = some b) ∧
        ∀ j, j < i - k → ∀ q, cs[j]? = some q → matchP ρ q v = none := by
  induction cs generalizing k with
  | nil => simp [selectFrom]
  | cons c cs ih =>
    unfold selectFrom
    cases hc : matchP ρ c v with
    | some b' =>
      simp only [Option.some.injEq, Prod.mk.injEq]
      constructor
      · rintro ⟨rfl, rfl⟩
        refine ⟨Nat.le_refl _, ⟨c, by simp, hc⟩, ?_⟩
        intro j hj; omega
      · rintro ⟨hk, ⟨p, hp, hm⟩, hall⟩
        by_cases h0 : i - k = 0
        · have : i = k := by omega
          subst this
          simp at hp; subst hp
          rw [hc] at hm; injection hm with hm
          exact ⟨rfl, hm⟩
        · have := hall 0 (by omega) c (by simp)
          rw [hc] at this; cases this
    | none =>
      simp only []
      rw [ih (k + 1)]
      constructor
      · rintro ⟨hk, ⟨p, hp, hm⟩, hall⟩
        refine ⟨by omega, ⟨p, ?_, hm⟩, ?_⟩
        · have : i - k = (i - (k + 1)) + 1 := by omega
          rw [this]; simpa using hp
        · intro j hj q hq
          cases j with
          | zero => simp at hq; subst hq; exact hc
          | succ j => exact hall j (by omega) q (by simpa using hq)
      · rintro ⟨hk, ⟨p, hp, hm⟩, hall⟩
        have hne : i ≠ k := by
          intro h; subst h
          simp at hp; subst hp
          rw [hc] at hm; cases hm
        refine ⟨by omega, ⟨p, ?_, hm⟩, ?_⟩
        · have : i - k = (i - (k + 1)) + 1 := by omega
          rw [this] at hp; simpa using hp
        · intro j hj q hq
          exact hall (j + 1) (by omega) q (by simpa using hq)

theorem selectFrom_none (ρ : Env) (v : V) (cs : List Pat) (k : Nat) :
    selectFrom ρ v k cs = none ↔ ∀ p ∈ cs, matchP ρ p v = none := by
  induction cs generalizing k with
  | nil => simp [selectFrom]
  | cons c cs ih =>
    unfold selectFrom
    cases hc : matchP ρ c v with
    | some b' => simp [hc]
    | none => simp [hc, ih (k + 1)]

/-! ## the bindings of a match are exactly the pattern's variables, in order -/

theorem nils_names (xs : List String) : (nils xs).map (·.1) = xs := by
  simp [nils, Function.comp_def]

theorem seqCombine_some {r : Rest} {npre npost : Nat} {xs : List V} {mpre mpost : Option Bindings}
    {b : Bindings} (h : seqCombine r npre npost xs mpre mpost = some b) :
    lenOk r npre npost xs.length = true ∧ ∃ b₁ b₂, mpre = some b₁ ∧ mpost = some b₂ ∧
      b = b₁ ++ (r.vars.map (·, V.list ((xs.drop npre).take (xs.length - npre - npost)))) ++ b₂ := by
  unfold seqCombine at h
  split at h
  · rename_i hl
    refine ⟨hl, ?_⟩
    cases mpre <;> cases mpost <;> simp at h
    exact ⟨_, _, rfl, rfl, by rw [← h, List.append_assoc]⟩
  · cases h

mutual
theorem matchP_names (ρ : Env) : ∀ (p : Pat) (v : V) (b : Bindings),
    matchP ρ p v = some b → b.map (·.1) = p.vars
  | .lit s, v, b, h => by
    cases v <;> simp [matchP] at h
    obtain ⟨_, rfl⟩ := h; simp [Pat.vars]
  | .interp pre x, v, b, h => by
    simp only [matchP] at h
    split at h <;> simp at h
    obtain ⟨_, rfl⟩ := h; simp [Pat.vars]
  | .range op lo hi, v, b, h => by
    simp only [matchP] at h
    split at h <;> simp at h
    subst h; simp [Pat.vars]
  | .list pre r post, v, b, h => by
    cases v <;> simp only [matchP] at h <;> try (cases h)
    obtain ⟨_, b₁, b₂, h₁, h₂, rfl⟩ := seqCombine_some h
    have e₁ := matchElems_names ρ pre _ _ h₁
    have e₂ := matchElems_names ρ post _ _ h₂
    simp [Pat.vars, e₁, e₂, Function.comp_def]
  | .tup pre r post, v, b, h => by
    cases v <;> simp only [matchP] at h <;> try (cases h)
    all_goals
      obtain ⟨_, b₁, b₂, h₁, h₂, rfl⟩ := seqCombine_some h
      have e₁ := matchElems_names ρ pre _ _ h₁
      have e₂ := matchElems_names ρ post _ _ h₂
      simp [Pat.vars, e₁, e₂, Function.comp_def]
  | .map ks ps, v, b, h => by
    cases v <;> simp only [matchP] at h <;> try (cases h)
    simpa [Pat.vars] using matchKeys_names ρ ks ps _ _ h
  | .recd ks ps, v, b, h => by
    cases v <;> simp only [matchP] at h <;> try (cases h)
    all_goals simpa [Pat.vars] using matchKeys_names ρ ks ps _ _ h
  | .obj c none, v, b, h => by
    simp only [matchP] at h
    split at h <;> simp at h
    subst h; simp [Pat.vars]
  | .obj c (some p), v, b, h => by
    simp only [matchP] at h
    split at h
    · split at h
      · simpa [Pat.vars] using matchP_names ρ p _ _ h
      · cases h
    · cases h
  | .bind x, v, b, h => by
    simp [matchP] at h; subst h; simp [Pat.vars]
  | .as p x, v, b, h => by
    simp only [matchP] at h
    cases hp : matchP ρ p v with
    | none => simp [hp] at h
    | some b' =>
      simp [hp] at h; subst h
      simp [Pat.vars, matchP_names ρ p v b' hp]
  | .or p q, v, b, h => by
    simp only [matchP] at h
    cases hp : matchP ρ p v with
    | some b' =>
      simp [hp] at h; subst h
      simp [Pat.vars, matchP_names ρ p v b' hp, nils_names]
    | none =>
      simp only [hp] at h
      cases hq : matchP ρ q v with
      | none => simp [hq] at h
      | some b' =>
        simp [hq] at h; subst h
        simp [Pat.vars, matchP_names ρ q v b' hq, nils_names]
  | .and p q, v, b, h => by
    simp only [matchP] at h
    cases hp : matchP ρ p v with
    | none => simp [hp] at h
    | some b₁ =>
      simp only [hp] at h
      cases hq : matchP ρ q v with
      | none => simp [hq] at h
      | some b₂ =>
        simp [hq] at h; subst h
        simp [Pat.vars, matchP_names ρ p v b₁ hp, matchP_names ρ q v b₂ hq]
  | .opt p, v, b, h => by
    simp only [matchP] at h
    cases hp : matchP ρ p v with
    | some b' =>
      simp [hp] at h; subst h
      simp [Pat.vars, matchP_names ρ p v b' hp]
    | none =>
      simp only [hp] at h
      split at h <;> simp at h
      subst h; simp [Pat.vars, nils_names]
  | .must, v, b, h => by
    simp only [matchP] at h
    split at h <;> simp at h
    subst h; simp [Pat.vars]
  | .rel op o, v, b, h => by
    simp only [matchP] at h
    split at h
    · split at h <;> simp at h
      subst h; simp [Pat.vars]
    · cases h

theorem matchElems_names (ρ : Env) : ∀ (ps : List Pat) (xs : List V) (b : Bindings),
    matchElems ρ ps xs = some b → b.map (·.1) = varsL ps
  | [], xs, b, h => by simp [matchElems] at h; subst h; simp [varsL]
  | p :: ps, [], b, h => by simp [matchElems] at h
  | p :: ps, x :: xs, b, h => by
    simp only [matchElems] at h
    cases hp : matchP ρ p x with
    | none => simp [hp] at h
    | some b₁ =>
      simp only [hp] at h
      cases hq : matchElems ρ ps xs with
      | none => simp [hq] at h
      | some b₂ =>
        simp [hq] at h; subst h
        simp [varsL, matchP_names ρ p x b₁ hp, matchElems_names ρ ps xs b₂ hq]

theorem matchKeys_names (ρ : Env) : ∀ (ks : List Scalar) (ps : List Pat) (kvs : List (Scalar × V)) (b : Bindings),
    matchKeys ρ ks ps kvs = some b → b.map (·.1) = varsL ps
  | [], [], kvs, b, h => by simp [matchKeys] at h; subst h; simp [varsL]
  | [], _ :: _, kvs, b, h => by simp [matchKeys] at h
  | _ :: _, [], kvs, b, h => by simp [matchKeys] at h
  | k :: ks, p :: ps, kvs, b, h => by
    simp only [matchKeys] at h
    cases hp : matchP ρ p (lookupKey kvs k) with
    | none => simp [hp] at h
    | some b₁ =>
      simp only [hp] at h
      cases hq : matchKeys ρ ks ps kvs with
      | none => simp [hq] at h
      | some b₂ =>
        simp [hq] at h; subst h
        simp [varsL, matchP_names ρ p _ b₁ hp, matchKeys_names ρ ks ps kvs b₂ hq]
end

/-! ## where a variable points: declarative specification of the bindings -/

mutual
/-- `Binds ρ p v y w`: in a match of `p` against `v`, variable `y` denotes `w` — the sub-value of `v`
at an occurrence of `y` in `p`, the list of middle elements for a named rest, or `nil` when `y`
occurs only in the alternative of a `||`/`?` that was not taken. -/
inductive Binds (ρ : Env) : Pat → V → String → V → Prop
  | bind {x v} : Binds ρ (.bind x) v x v
  | as_self {p x v} : Binds ρ (.as p x) v x v
  | as_sub {p x v y w} : Binds ρ p v y w → Binds ρ (.as p x) v y w
  | or_l {p q v y w} : (matchP ρ p v).isSome → Binds ρ p v y w → Binds ρ (.or p q) v y w
  | or_l_nil {p q v y} : (matchP ρ p v).isSome → y ∈ q.vars → Binds ρ (.or p q) v y (.sc .nil)
  | or_r {p q v y w} : matchP ρ p v = none → Binds ρ q v y w → Binds ρ (.or p q) v y w
  | or_r_nil {p q v y} : matchP ρ p v = none → y ∈ p.vars → Binds ρ (.or p q) v y (.sc .nil)
  | and_l {p q v y w} : Binds ρ p v y w → Binds ρ (.and p q) v y w
  | and_r {p q v y w} : Binds ρ q v y w → Binds ρ (.and p q) v y w
  | opt_some {p v y w} : Binds ρ p v y w → Binds ρ (.opt p) v y w
  | opt_nil {p y} : matchP ρ p (.sc .nil) = none → y ∈ p.vars → Binds ρ (.opt p) (.sc .nil) y (.sc .nil)
  | obj_len {c p v n y w} : lengthOf v = some n → Binds ρ p (.sc (.int n)) y w → Binds ρ (.obj c (some p)) v y w
  | list {pre r post xs y w} : SeqBinds ρ pre r post xs y w → Binds ρ (.list pre r post) (.list xs) y w
  | tup_l {pre r post xs y w} : SeqBinds ρ pre r post xs y w → Binds ρ (.tup pre r post) (.list xs) y w
  | tup_t {pre r post xs y w} : SeqBinds ρ pre r post xs y w → Binds ρ (.tup pre r post) (.tup xs) y w
  | map {ks ps kvs y w} : KeyBinds ρ ks ps kvs y w → Binds ρ (.map ks ps) (.map kvs) y w
  | rec_m {ks ps kvs y w} : KeyBinds ρ ks ps kvs y w → Binds ρ (.recd ks ps) (.map kvs) y w
  | rec_r {ks ps kvs y w} : KeyBinds ρ ks ps kvs y w → Binds ρ (.recd ks ps) (.recd kvs) y w
/-- bindings of `[pre…, *r, post…]` against the elements `xs` -/
inductive SeqBinds (ρ : Env) : List Pat → Rest → List Pat → List V → String → V → Prop
  | pre {pre : List Pat} {r post} {xs : List V} {i : Nat} {p x y w} : pre[i]? = some p → xs[i]? = some x → Binds ρ p x y w →
      SeqBinds ρ pre r post xs y w
  | rest {pre post : List Pat} {xs : List V} {y} :
      SeqBinds ρ pre (.named y) post xs y (V.list ((xs.drop pre.length).take (xs.length - pre.length - post.length)))
  | post {pre : List Pat} {r} {post : List Pat} {xs : List V} {j : Nat} {p x y w} : post[j]? = some p →
      xs[postStart r pre.length post.length xs + j]? = some x → Binds ρ p x y w →
      SeqBinds ρ pre r post xs y w
/-- bindings of `{ kᵢ => pᵢ … }`: pattern `pᵢ` is matched against the value under `kᵢ` (nil if absent) -/
inductive KeyBinds (ρ : Env) : List Scalar → List Pat → List (Scalar × V) → String → V → Prop
  | key {ks : List Scalar} {ps : List Pat} {kvs} {i : Nat} {k p y w} : ks[i]? = some k → ps[i]? = some p → Binds ρ p (lookupKey kvs k) y w →
      KeyBinds ρ ks ps kvs y w
end

theorem mem_nils {y : String} {w : V} {xs : List String} (h : (y, w) ∈ nils xs) : y ∈ xs ∧ w = .sc .nil := by
  simp [nils] at h
  obtain ⟨a, ha, rfl, rfl⟩ := h
  exact ⟨ha, rfl⟩

theorem seq_binds (ρ : Env) (pre : List Pat) (r : Rest) (post : List Pat) (xs : List V) (b : Bindings)
    (y : String) (w : V)
    (h : seqCombine r pre.length post.length xs (matchElems ρ pre xs)
      (matchElems ρ post (xs.drop (postStart r pre.length post.length xs))) = some b)
    (hm : (y, w) ∈ b)
    (hpre : ∀ b₁, matchElems ρ pre xs = some b₁ → (y, w) ∈ b₁ →
      ∃ (i : Nat) (p : Pat) (x : V), pre[i]? = some p ∧ xs[i]? = some x ∧ Binds ρ p x y w)
    (hpost : ∀ b₂, matchElems ρ post (xs.drop (postStart r pre.length post.length xs)) = some b₂ → (y, w) ∈ b₂ →
      ∃ (j : Nat) (p : Pat) (x : V), post[j]? = some p ∧
        (xs.drop (postStart r pre.length post.length xs))[j]? = some x ∧ Binds ρ p x y w) :
    SeqBinds ρ pre r post xs y w := by
  obtain ⟨_, b₁, b₂, h₁, h₂, rfl⟩ := seqCombine_some h
  rcases List.mem_append.mp hm with hm | hm
  · rcases List.mem_append.mp hm with hm | hm
    · obtain ⟨i, p, x, hp, hx, hb⟩ := hpre b₁ h₁ hm
      exact .pre hp hx hb
    · cases r <;> simp [Rest.vars] at hm
      obtain ⟨rfl, rfl⟩ := hm
      exact .rest
  · obtain ⟨j, p, x, hp, hx, hb⟩ := hpost b₂ h₂ hm
    refine .post hp ?_ hb
    rw [List.getElem?_drop] at hx
    exact hx

mutual
theorem matchP_binds (ρ : Env) : ∀ (p : Pat) (v : V) (b : Bindings) (y : String) (w : V),
    matchP ρ p v = some b → (y, w) ∈ b → Binds ρ p v y w
  | .lit s, v, b, y, w, h, hm => by
    cases v <;> simp [matchP] at h
    obtain ⟨_, rfl⟩ := h; simp at hm
  | .interp pre x, v, b, y, w, h, hm => by
    simp only [matchP] at h
    split at h <;> simp at h
    obtain ⟨_, rfl⟩ := h; simp at hm
  | .range op lo hi, v, b, y, w, h, hm => by
    simp only [matchP] at h
    split at h <;> simp at h
    subst h; simp at hm
  | .list pre r post, v, b, y, w, h, hm => by
    cases v <;> simp only [matchP] at h <;> try (cases h)
    exact .list (seq_binds ρ pre r post _ b y w h hm
      (fun b₁ h₁ m₁ => matchElems_binds ρ pre _ b₁ y w h₁ m₁) (fun b₂ h₂ m₂ => matchElems_binds ρ post _ b₂ y w h₂ m₂))
  | .tup pre r post, v, b, y, w, h, hm => by
    cases v <;> simp only [matchP] at h <;> try (cases h)
    · exact .tup_l (seq_binds ρ pre r post _ b y w h hm
        (fun b₁ h₁ m₁ => matchElems_binds ρ pre _ b₁ y w h₁ m₁) (fun b₂ h₂ m₂ => matchElems_binds ρ post _ b₂ y w h₂ m₂))
    · exact .tup_t (seq_binds ρ pre r post _ b y w h hm
        (fun b₁ h₁ m₁ => matchElems_binds ρ pre _ b₁ y w h₁ m₁) (fun b₂ h₂ m₂ => matchElems_binds ρ post _ b₂ y w h₂ m₂))
  | .map ks ps, v, b, y, w, h, hm => by
    cases v <;> simp only [matchP] at h <;> try (cases h)
    obtain ⟨i, k, p, hk, hp, hb⟩ := matchKeys_binds ρ ks ps _ b y w h hm
    exact .map (.key hk hp hb)
  | .recd ks ps, v, b, y, w, h, hm => by
    cases v <;> simp only [matchP] at h <;> try (cases h)
    · obtain ⟨i, k, p, hk, hp, hb⟩ := matchKeys_binds ρ ks ps _ b y w h hm
      exact .rec_m (.key hk hp hb)
    · obtain ⟨i, k, p, hk, hp, hb⟩ := matchKeys_binds ρ ks ps _ b y w h hm
      exact .rec_r (.key hk hp hb)
  | .obj c none, v, b, y, w, h, hm => by
    simp only [matchP] at h
    split at h <;> simp at h
    subst h; simp at hm
  | .obj c (some p), v, b, y, w, h, hm => by
    simp only [matchP] at h
    split at h
    · split at h
      · rename_i n hn
        exact .obj_len hn (matchP_binds ρ p _ b y w h hm)
      · cases h
    · cases h
  | .bind x, v, b, y, w, h, hm => by
    simp [matchP] at h; subst h
    simp at hm; obtain ⟨rfl, rfl⟩ := hm
    exact .bind
  | .as p x, v, b, y, w, h, hm => by
    simp only [matchP] at h
    cases hp : matchP ρ p v with
    | none => simp [hp] at h
    | some b' =>
      simp [hp] at h; subst h
      rcases List.mem_cons.mp hm with hm | hm
      · injection hm with h1 h2; subst h1; subst h2
        exact .as_self
      · exact .as_sub (matchP_binds ρ p v b' y w hp hm)
  | .or p q, v, b, y, w, h, hm => by
    simp only [matchP] at h
    cases hp : matchP ρ p v with
    | some b' =>
      simp [hp] at h; subst h
      rcases List.mem_append.mp hm with hm | hm
      · exact .or_l (by simp [hp]) (matchP_binds ρ p v b' y w hp hm)
      · obtain ⟨hy, rfl⟩ := mem_nils hm
        exact .or_l_nil (by simp [hp]) hy
    | none =>
      simp only [hp] at h
      cases hq : matchP ρ q v with
      | none => simp [hq] at h
      | some b' =>
        simp [hq] at h; subst h
        rcases List.mem_append.mp hm with hm | hm
        · obtain ⟨hy, rfl⟩ := mem_nils hm
          exact .or_r_nil hp hy
        · exact .or_r hp (matchP_binds ρ q v b' y w hq hm)
  | .and p q, v, b, y, w, h, hm => by
    simp only [matchP] at h
    cases hp : matchP ρ p v with
    | none => simp [hp] at h
    | some b₁ =>
      simp only [hp] at h
      cases hq : matchP ρ q v with
      | none => simp [hq] at h
      | some b₂ =>
        simp [hq] at h; subst h
        rcases List.mem_append.mp hm with hm | hm
        · exact .and_l (matchP_binds ρ p v b₁ y w hp hm)
        · exact .and_r (matchP_binds ρ q v b₂ y w hq hm)
  | .opt p, v, b, y, w, h, hm => by
    simp only [matchP] at h
    cases hp : matchP ρ p v with
    | some b' =>
      simp [hp] at h; subst h
      exact .opt_some (matchP_binds ρ p v b' y w hp hm)
    | none =>
      simp only [hp] at h
      split at h <;> simp at h
      subst h
      obtain ⟨hy, rfl⟩ := mem_nils hm
      exact .opt_nil hp hy
  | .must, v, b, y, w, h, hm => by
    simp only [matchP] at h
    split at h <;> simp at h
    subst h; simp at hm
  | .rel op o, v, b, y, w, h, hm => by
    simp only [matchP] at h
    split at h
    · split at h <;> simp at h
      subst h; simp at hm
    · cases h

theorem matchElems_binds (ρ : Env) : ∀ (ps : List Pat) (xs : List V) (b : Bindings) (y : String) (w : V),
    matchElems ρ ps xs = some b → (y, w) ∈ b →
      ∃ (i : Nat) (p : Pat) (x : V), ps[i]? = some p ∧ xs[i]? = some x ∧ Binds ρ p x y w
  | [], xs, b, y, w, h, hm => by simp [matchElems] at h; subst h; simp at hm
  | p :: ps, [], b, y, w, h, hm => by simp [matchElems] at h
  | p :: ps, x :: xs, b, y, w, h, hm => by
    simp only [matchElems] at h
    cases hp : matchP ρ p x with
    | none => simp [hp] at h
    | some b₁ =>
      simp only [hp] at h
      cases hq : matchElems ρ ps xs with
      | none => simp [hq] at h
      | some b₂ =>
        simp [hq] at h; subst h
        rcases List.mem_append.mp hm with hm | hm
        · exact ⟨0, p, x, by simp, by simp, matchP_binds ρ p x b₁ y w hp hm⟩
        · obtain ⟨i, p', x', h1, h2, h3⟩ := matchElems_binds ρ ps xs b₂ y w hq hm
          exact ⟨i + 1, p', x', by simpa using h1, by simpa using h2, h3⟩

theorem matchKeys_binds (ρ : Env) : ∀ (ks : List Scalar) (ps : List Pat) (kvs : List (Scalar × V)) (b : Bindings)
    (y : String) (w : V), matchKeys ρ ks ps kvs = some b → (y, w) ∈ b →
      ∃ (i : Nat) (k : Scalar) (p : Pat), ks[i]? = some k ∧ ps[i]? = some p ∧ Binds ρ p (lookupKey kvs k) y w
  | [], [], kvs, b, y, w, h, hm => by simp [matchKeys] at h; subst h; simp at hm
  | [], _ :: _, kvs, b, y, w, h, hm => by simp [matchKeys] at h
  | _ :: _, [], kvs, b, y, w, h, hm => by simp [matchKeys] at h
  | k :: ks, p :: ps, kvs, b, y, w, h, hm => by
    simp only [matchKeys] at h
    cases hp : matchP ρ p (lookupKey kvs k) with
    | none => simp [hp] at h
    | some b₁ =>
      simp only [hp] at h
      cases hq : matchKeys ρ ks ps kvs with
      | none => simp [hq] at h
      | some b₂ =>
        simp [hq] at h; subst h
        rcases List.mem_append.mp hm with hm | hm
        · exact ⟨0, k, p, by simp, by simp, matchP_binds ρ p _ b₁ y w hp hm⟩
        · obtain ⟨i, k', p', h1, h2, h3⟩ := matchKeys_binds ρ ks ps kvs b₂ y w hq hm
          exact ⟨i + 1, k', p', by simpa using h1, by simpa using h2, h3⟩
end


/-! ## types: subtyping test, fully captured types, exhaustiveness -/

theorem isA_sc (s : Scalar) (c : Cls) : isA (.sc s) c = clsLe s.cls c := by
  cases s <;> cases c <;> rfl

/-- leaf class of a value -/
def clsOf : V → Cls
  | .sc s => s.cls
  | .list _ => .arrayList
  | .tup _ => .arrayTuple
  | .map _ => .hashMap
  | .recd _ => .hashRecord
  | .range _ _ => .closedRange

theorem isA_clsOf (v : V) (c : Cls) : isA v c = clsLe (clsOf v) c := by
  cases v with
  | sc s => exact isA_sc s c
  | list _ => cases c <;> rfl
  | tup _ => cases c <;> rfl
  | map _ => cases c <;> rfl
  | recd _ => cases c <;> rfl
  | range _ _ => cases c <;> rfl

def Cls.scalar (c : Cls) : Bool :=
  c == .int || c == .float || c == .string || c == .symbol || c == .bool || c == .nil

theorem clsLe_scalar_right {k a : Cls} (ha : a.scalar = true) (h : clsLe k a = true) : k = a := by
  cases k <;> cases a <;> simp_all [clsLe, Cls.scalar]

theorem clsLe_trans_leaf {k a b : Cls} (h₁ : k = a) (h₂ : clsLe k b = true) : clsLe a b = true := by
  subst h₁; exact h₂

theorem cls_disjoint {a b k : Cls} (hs : (a.scalar || b.scalar) = true) (hab : clsLe a b = false)
    (hba : clsLe b a = false) (ha : clsLe k a = true) (hb : clsLe k b = true) : False := by
  rcases Bool.or_eq_true_iff.mp hs with hs | hs
  · have e := clsLe_scalar_right hs ha
    rw [e] at hb; rw [hb] at hab; cases hab
  · have e := clsLe_scalar_right hs hb
    rw [e] at ha; rw [ha] at hba; cases hba

theorem atomsDisjoint_sound {a y : Ty} (h : atomsDisjoint a y = true) (v : V) (ha : hasTy v a = true) :
    hasTy v y = false := by
  cases a <;> cases y <;> try (simp [atomsDisjoint] at h; done)
  case lit.lit s t =>
    simp [atomsDisjoint] at h
    cases v <;> simp [hasTy] at ha ⊢
    subst ha; exact h
  case lit.cls s c =>
    simp [atomsDisjoint] at h
    cases v <;> simp [hasTy] at ha ⊢
    subst ha; rw [isA_sc]; simpa using h
  case cls.lit c s =>
    simp [atomsDisjoint] at h
    cases v <;> simp [hasTy] at ha ⊢
    rename_i t
    intro ht; subst ht
    rw [isA_sc] at ha; rw [ha] at h; cases h
  case cls.cls a b =>
    simp only [hasTy] at ha ⊢
    rw [isA_clsOf] at ha ⊢
    have h' : ((a.scalar || b.scalar) && !clsLe a b && !clsLe b a) = true := h
    simp only [Bool.and_eq_true, Bool.not_eq_true'] at h'
    cases hb : clsLe (clsOf v) b with
    | false => rfl
    | true => exact (cls_disjoint h'.1.1 h'.1.2 h'.2 ha hb).elim

theorem clsLe_trans : ∀ (k d c : Cls), clsLe k d = true → clsLe d c = true → clsLe k c = true := by
  intro k d c
  cases k <;> cases d <;> cases c <;> decide

theorem isSub_sound (a t : Ty) (h : isSub a t = true) (v : V) (hv : hasTy v a = true) : hasTy v t = true := by
  fun_induction isSub a t <;> simp_all [hasTy]
  case case2 ih2 ih1 =>
    rcases hv with hv | hv
    · exact ih2 hv
    · exact ih1 hv
  case case4 ih2 ih1 =>
    rcases h with h | h
    · exact Or.inl (ih2 h)
    · exact Or.inr (ih1 h)
  case case6 ih2 ih1 =>
    rcases h with h | h
    · exact ih2 h
    · exact ih1 h
  case case7 =>
    exact atomsDisjoint_sound h.2 v hv
  case case9 s c =>
    cases v <;> simp at hv
    subst hv; rw [isA_sc]; exact h
  case case10 d c =>
    rw [isA_clsOf] at hv ⊢
    exact clsLe_trans _ _ _ hv h


theorem lengthOf_some_of_hasLength {v : V} {c : Cls} (hc : hasLength c = true) (hv : isA v c = true) :
    ∃ n, lengthOf v = some n := by
  cases v with
  | sc s => cases s <;> cases c <;> simp_all [hasLength, isA, lengthOf]
  | list xs => exact ⟨_, rfl⟩
  | tup xs => exact ⟨_, rfl⟩
  | map kvs => exact ⟨_, rfl⟩
  | recd kvs => exact ⟨_, rfl⟩
  | range a b => cases c <;> simp_all [hasLength, isA]

theorem hasTy_diff_lit {v : V} {μ : Ty} {s : Scalar} (h : hasTy v (μ.diff (.lit s)) = true) : v ≠ .sc s := by
  intro e; subst e
  simp [Ty.diff, hasTy] at h

theorem relHolds_ne_of_ne {v : V} {s : Scalar} (h : v ≠ .sc s) : relHolds .ne v s = true := by
  cases v <;> simp [relHolds]
  rename_i t
  intro e; exact h (by rw [e])

/-- **the fully captured type is matched**: every value of `captured p μ` is matched by `p`
(with the literal-only repair of `checkSimpleLiteralPattern`). -/
theorem captured_sound (cfg : Cfg) (hcfg : cfg.literalOnly = true) (ρ : Env) : ∀ (p : Pat) (μ : Ty) (v : V),
    hasTy v (captured cfg ρ p μ) = true → (matchP ρ p v).isSome = true
  | .lit s, μ, v, h => by
    cases v <;> simp [captured, hasTy] at h
    subst h; simp [matchP]
  | .interp pre x, μ, v, h => by simp [captured, hcfg, hasTy] at h
  | .range op lo hi, μ, v, h => by simp [captured, hasTy] at h
  | .list pre r post, μ, v, h => by simp [captured, hasTy] at h
  | .tup pre r post, μ, v, h => by simp [captured, hasTy] at h
  | .map ks ps, μ, v, h => by simp [captured, hasTy] at h
  | .recd ks ps, μ, v, h => by simp [captured, hasTy] at h
  | .obj c none, μ, v, h => by
    simp [captured, hasTy] at h
    simp [matchP, h]
  | .obj c (some p), μ, v, h => by
    simp only [captured] at h
    split at h
    · rename_i hc
      simp only [Bool.and_eq_true] at hc
      simp only [hasTy] at h
      obtain ⟨n, hn⟩ := lengthOf_some_of_hasLength hc.1 h
      have hi : hasTy (.sc (.int n)) (captured cfg ρ p (.cls .int)) = true :=
        isSub_sound _ _ hc.2 _ (by simp [hasTy, isA])
      have := captured_sound cfg hcfg ρ p (.cls .int) _ hi
      simp [matchP, h, hn, this]
    · simp [hasTy] at h
  | .bind x, μ, v, h => by simp [matchP]
  | .as p x, μ, v, h => by
    simp only [captured] at h
    have := captured_sound cfg hcfg ρ p μ v h
    cases hp : matchP ρ p v with
    | none => simp [hp] at this
    | some b => simp [matchP, hp]
  | .or p q, μ, v, h => by
    simp only [captured, hasTy, Bool.or_eq_true] at h
    cases hp : matchP ρ p v with
    | some b => simp [matchP, hp]
    | none =>
      rcases h with h | h
      · have := captured_sound cfg hcfg ρ p μ v h
        simp [hp] at this
      · have := captured_sound cfg hcfg ρ q μ v h
        cases hq : matchP ρ q v with
        | none => simp [hq] at this
        | some b => simp [matchP, hp, hq]
  | .and p q, μ, v, h => by
    simp only [captured, hasTy, Bool.and_eq_true] at h
    have h₁ := captured_sound cfg hcfg ρ p μ v h.1
    have h₂ := captured_sound cfg hcfg ρ q _ v h.2
    cases hp : matchP ρ p v with
    | none => simp [hp] at h₁
    | some b₁ =>
      cases hq : matchP ρ q v with
      | none => simp [hq] at h₂
      | some b₂ => simp [matchP, hp, hq]
  | .opt p, μ, v, h => by
    simp only [captured, Ty.nilable, hasTy, Bool.or_eq_true] at h
    cases hp : matchP ρ p v with
    | some b => simp [matchP, hp]
    | none =>
      rcases h with h | h
      · have := captured_sound cfg hcfg ρ p μ v h
        simp [hp] at this
      · cases v <;> simp at h
        subst h
        simp [matchP, hp]
  | .must, μ, v, h => by
    simp only [captured] at h
    have hne := hasTy_diff_lit h
    cases v with
    | sc s => cases s <;> simp_all [matchP]
    | _ => simp [matchP]
  | .rel op o, μ, v, h => by
    cases op <;> simp only [captured] at h <;> try (simp [hasTy] at h; done)
    case eq =>
      cases o with
      | var x => simp [hasTy] at h
      | lit s =>
        cases v <;> simp [hasTy] at h
        subst h
        simp [matchP, Operand.val, relHolds]
    case ne =>
      cases o with
      | var x => simp [hasTy] at h
      | lit s =>
        cases s with
        | nil =>
          simp only [] at h
          simp [matchP, Operand.val, relHolds_ne_of_ne (hasTy_diff_lit h)]
        | bool b =>
          cases b
          · simp only [] at h
            simp [matchP, Operand.val, relHolds_ne_of_ne (hasTy_diff_lit h)]
          · simp only [] at h
            simp [matchP, Operand.val, relHolds_ne_of_ne (hasTy_diff_lit h)]
        | _ => simp [hasTy] at h

theorem capturedAll_sound (cfg : Cfg) (hcfg : cfg.literalOnly = true) (ρ : Env) (μ : Ty) (v : V) :
    ∀ (ps : List Pat), hasTy v (capturedAll cfg ρ μ ps) = true →
      ∃ p ∈ ps, (matchP ρ p v).isSome = true
  | [], h => by simp [capturedAll, hasTy] at h
  | p :: ps, h => by
    simp only [capturedAll, hasTy, Bool.or_eq_true] at h
    rcases h with h | h
    · exact ⟨p, by simp, captured_sound cfg hcfg ρ p μ v h⟩
    · obtain ⟨q, hq, hm⟩ := capturedAll_sound cfg hcfg ρ μ v ps h
      exact ⟨q, by simp [hq], hm⟩


/-! ## the compiled matcher decides the reference relation -/

theorem cseq_verdict {r : Rest} {npre npost : Nat} {xs : List V} {cpre cpost : Bool × Writes}
    {mpre mpost : Option Bindings} (h₁ : cpre.1 = mpre.isSome) (h₂ : cpost.1 = mpost.isSome) :
    (cseqCombine r npre npost xs cpre cpost).1 = (seqCombine r npre npost xs mpre mpost).isSome := by
  unfold cseqCombine seqCombine
  split
  · cases mpre <;> cases mpost <;> simp_all
  · rfl

mutual
theorem cmatch_verdict (ρ : Env) : ∀ (p : Pat) (v : V), (cmatch ρ p v).1 = (matchP ρ p v).isSome
  | .lit s, v => by
    cases v <;> simp [cmatch, matchP]
    split <;> simp_all
  | .interp pre x, v => by
    simp only [cmatch, matchP]
    cases hx : ρ.get x with
    | none => simp
    | some s =>
      cases s <;> cases v <;> (try simp)
      all_goals (rename_i s t; cases t <;> (try simp))
      all_goals (split <;> simp_all)
  | .range op lo hi, v => by
    simp only [cmatch, matchP]
    split <;> simp_all
  | .list pre r post, v => by
    cases v <;> simp only [cmatch, matchP] <;> try rfl
    exact cseq_verdict (celems_verdict ρ pre _) (celems_verdict ρ post _)
  | .tup pre r post, v => by
    cases v <;> simp only [cmatch, matchP] <;> try rfl
    · exact cseq_verdict (celems_verdict ρ pre _) (celems_verdict ρ post _)
    · exact cseq_verdict (celems_verdict ρ pre _) (celems_verdict ρ post _)
  | .map ks ps, v => by
    cases v <;> simp only [cmatch, matchP] <;> try rfl
    exact ckeys_verdict ρ ks ps _
  | .recd ks ps, v => by
    cases v <;> simp only [cmatch, matchP] <;> try rfl
    · exact ckeys_verdict ρ ks ps _
    · exact ckeys_verdict ρ ks ps _
  | .obj c none, v => by
    simp only [cmatch, matchP]
    split <;> simp_all
  | .obj c (some p), v => by
    simp only [cmatch, matchP]
    split
    · split
      · exact cmatch_verdict ρ p _
      · rfl
    · rfl
  | .bind x, v => by simp [cmatch, matchP]
  | .as p x, v => by
    have := cmatch_verdict ρ p v
    simp only [cmatch, matchP]
    cases hp : matchP ρ p v <;> simp_all
  | .or p q, v => by
    have h₁ := cmatch_verdict ρ p v
    have h₂ := cmatch_verdict ρ q v
    simp only [cmatch, matchP]
    cases hp : matchP ρ p v <;> cases hq : matchP ρ q v <;> simp_all
  | .and p q, v => by
    have h₁ := cmatch_verdict ρ p v
    have h₂ := cmatch_verdict ρ q v
    simp only [cmatch, matchP]
    cases hp : matchP ρ p v <;> cases hq : matchP ρ q v <;> simp_all
  | .opt p, v => by
    have h₁ := cmatch_verdict ρ p v
    simp only [cmatch, matchP]
    cases hp : matchP ρ p v
    · simp_all
      split <;> simp
    · simp_all
  | .must, v => by
    simp only [cmatch, matchP]
    split <;> simp
  | .rel op o, v => by
    simp only [cmatch, matchP]
    split
    · split <;> simp_all
    · rfl

theorem celems_verdict (ρ : Env) : ∀ (ps : List Pat) (xs : List V),
    (celems ρ ps xs).1 = (matchElems ρ ps xs).isSome
  | [], xs => by simp [celems, matchElems]
  | p :: ps, [] => by simp [celems, matchElems]
  | p :: ps, x :: xs => by
    have h₁ := cmatch_verdict ρ p x
    have h₂ := celems_verdict ρ ps xs
    simp only [celems, matchElems]
    cases hp : matchP ρ p x <;> cases hq : matchElems ρ ps xs <;> simp_all

theorem ckeys_verdict (ρ : Env) : ∀ (ks : List Scalar) (ps : List Pat) (kvs : List (Scalar × V)),
    (ckeys ρ ks ps kvs).1 = (matchKeys ρ ks ps kvs).isSome
  | [], [], kvs => by simp [ckeys, matchKeys]
  | [], _ :: _, kvs => by simp [ckeys, matchKeys]
  | _ :: _, [], kvs => by simp [ckeys, matchKeys]
  | k :: ks, p :: ps, kvs => by
    have h₁ := cmatch_verdict ρ p (lookupKey kvs k)
    have h₂ := ckeys_verdict ρ ks ps kvs
    simp only [ckeys, matchKeys]
    cases hp : matchP ρ p (lookupKey kvs k) <;> cases hq : matchKeys ρ ks ps kvs <;> simp_all
end

theorem cselectFrom_index (ρ : Env) (v : V) : ∀ (cs : List Pat) (k : Nat),
    (cselectFrom ρ v k cs).map (·.1) = (selectFrom ρ v k cs).map (·.1)
  | [], k => rfl
  | c :: cs, k => by
    have h := cmatch_verdict ρ c v
    simp only [cselectFrom, selectFrom]
    cases hc : matchP ρ c v
    · simp_all [cselectFrom_index ρ v cs (k + 1)]
    · simp_all


/-! ## the stores of the compiled matcher are the reference bindings (patterns without `||` / `?`) -/

/-- two store sequences leave every variable with the same content -/
def Ext (w b : Bindings) : Prop := ∀ x, Bindings.get w x = Bindings.get b x

theorem get_append (a b : Bindings) (x : String) :
    Bindings.get (a ++ b) x = (Bindings.get b x).or (Bindings.get a x) := by
  simp only [Bindings.get, List.reverse_append, List.find?_append]
  cases h : List.find? (fun p => p.1 == x) b.reverse <;> simp

theorem ext_refl (w : Bindings) : Ext w w := fun _ => rfl

theorem ext_append {w₁ b₁ w₂ b₂ : Bindings} (h₁ : Ext w₁ b₁) (h₂ : Ext w₂ b₂) : Ext (w₁ ++ w₂) (b₁ ++ b₂) := by
  intro x
  rw [get_append, get_append, h₁ x, h₂ x]

theorem get_single (x y : String) (v : V) :
    Bindings.get [(x, v)] y = if x == y then some v else none := by
  simp only [Bindings.get, List.reverse_cons, List.reverse_nil, List.nil_append, List.find?_cons]
  cases h : (x == y) <;> simp

theorem ext_init {r : Rest} {X Y : Bindings} (h : Ext X Y)
    (hr : ∀ x, r = .named x → (Bindings.get X x).isSome = true) : Ext (r.init ++ X) Y := by
  intro y
  rw [get_append, ← h y]
  cases hx : Bindings.get X y with
  | some w => rfl
  | none =>
    cases r with
    | none => simp [Rest.init, Bindings.get]
    | anon => simp [Rest.init, Bindings.get]
    | named x =>
      simp only [Rest.init, Option.none_or, get_single]
      by_cases e : (x == y) = true
      · have := hr x rfl
        have e' : x = y := by simpa using e
        subst e'
        rw [hx] at this; cases this
      · simp [e]

theorem seq_ext {r : Rest} {npre npost : Nat} {xs : List V} {cpre cpost : Bool × Writes}
    {mpre mpost : Option Bindings} {b : Bindings}
    (hs : seqCombine r npre npost xs mpre mpost = some b)
    (h₁ : cpre.1 = mpre.isSome) (e₁ : ∀ b₁, mpre = some b₁ → Ext cpre.2 b₁)
    (e₂ : ∀ b₂, mpost = some b₂ → Ext cpost.2 b₂) :
    Ext (r.init ++ (cseqCombine r npre npost xs cpre cpost).2) b := by
  obtain ⟨hl, b₁, b₂, hp, hq, rfl⟩ := seqCombine_some hs
  have hc : cpre.1 = true := by rw [h₁, hp]; rfl
  simp only [cseqCombine, hl, hc, if_true]
  apply ext_init
  · exact ext_append (ext_append (e₁ b₁ hp) (ext_refl _)) (e₂ b₂ hq)
  · intro x hx
    subst hx
    simp only [Rest.vars, List.map_cons, List.map_nil]
    rw [get_append, get_append, get_single]
    cases Bindings.get cpost.2 x <;> simp

mutual
theorem cmatch_ext (ρ : Env) : ∀ (p : Pat) (v : V) (b : Bindings), p.altFree = true →
    matchP ρ p v = some b → Ext (cmatch ρ p v).2 b
  | .lit s, v, b, _, h => by
    cases v <;> simp [matchP] at h
    obtain ⟨_, rfl⟩ := h
    simp only [cmatch]; exact ext_refl _
  | .interp pre x, v, b, _, h => by
    simp only [matchP] at h
    split at h <;> simp at h
    obtain ⟨_, rfl⟩ := h
    simp only [cmatch]; exact ext_refl _
  | .range op lo hi, v, b, _, h => by
    simp only [matchP] at h
    split at h <;> simp at h
    subst h; simp only [cmatch]; exact ext_refl _
  | .list pre r post, v, b, ha, h => by
    simp only [Pat.altFree, Bool.and_eq_true] at ha
    cases v <;> simp only [matchP] at h <;> try (cases h)
    simp only [cmatch]
    exact seq_ext h (celems_verdict ρ pre _) (fun b₁ hb => celems_ext ρ pre _ b₁ ha.1 hb)
      (fun b₂ hb => celems_ext ρ post _ b₂ ha.2 hb)
  | .tup pre r post, v, b, ha, h => by
    simp only [Pat.altFree, Bool.and_eq_true] at ha
    cases v <;> simp only [matchP] at h <;> try (cases h)
    all_goals
      simp only [cmatch]
      exact seq_ext h (celems_verdict ρ pre _) (fun b₁ hb => celems_ext ρ pre _ b₁ ha.1 hb)
        (fun b₂ hb => celems_ext ρ post _ b₂ ha.2 hb)
  | .map ks ps, v, b, ha, h => by
    simp only [Pat.altFree] at ha
    cases v <;> simp only [matchP] at h <;> try (cases h)
    simp only [cmatch]
    exact ckeys_ext ρ ks ps _ b ha h
  | .recd ks ps, v, b, ha, h => by
    simp only [Pat.altFree] at ha
    cases v <;> simp only [matchP] at h <;> try (cases h)
    all_goals
      simp only [cmatch]
      exact ckeys_ext ρ ks ps _ b ha h
  | .obj c none, v, b, _, h => by
    simp only [matchP] at h
    split at h <;> simp at h
    subst h; simp only [cmatch]; exact ext_refl _
  | .obj c (some p), v, b, ha, h => by
    simp only [Pat.altFree] at ha
    simp only [matchP] at h
    split at h
    · rename_i hc
      split at h
      · rename_i n hn
        simp only [cmatch, hc, hn, if_true]
        exact cmatch_ext ρ p _ b ha h
      · cases h
    · cases h
  | .bind x, v, b, _, h => by
    simp [matchP] at h; subst h
    simp only [cmatch]; exact ext_refl _
  | .as p x, v, b, ha, h => by
    simp only [Pat.altFree] at ha
    simp only [matchP] at h
    cases hp : matchP ρ p v with
    | none => simp [hp] at h
    | some b' =>
      simp [hp] at h; subst h
      simp only [cmatch]
      exact ext_append (w₁ := [(x, v)]) (b₁ := [(x, v)]) (ext_refl _) (cmatch_ext ρ p v b' ha hp)
  | .or p q, v, b, ha, h => by simp [Pat.altFree] at ha
  | .and p q, v, b, ha, h => by
    simp only [Pat.altFree, Bool.and_eq_true] at ha
    simp only [matchP] at h
    cases hp : matchP ρ p v with
    | none => simp [hp] at h
    | some b₁ =>
      simp only [hp] at h
      cases hq : matchP ρ q v with
      | none => simp [hq] at h
      | some b₂ =>
        simp [hq] at h; subst h
        have hc : (cmatch ρ p v).1 = true := by rw [cmatch_verdict, hp]; rfl
        simp only [cmatch, hc, if_true]
        exact ext_append (cmatch_ext ρ p v b₁ ha.1 hp) (cmatch_ext ρ q v b₂ ha.2 hq)
  | .opt p, v, b, ha, h => by simp [Pat.altFree] at ha
  | .must, v, b, _, h => by
    simp only [matchP] at h
    split at h <;> simp at h
    subst h; simp only [cmatch]; exact ext_refl _
  | .rel op o, v, b, _, h => by
    simp only [matchP] at h
    split at h
    · split at h <;> simp at h
      subst h; simp only [cmatch]; exact ext_refl _
    · cases h

theorem celems_ext (ρ : Env) : ∀ (ps : List Pat) (xs : List V) (b : Bindings), altFreeL ps = true →
    matchElems ρ ps xs = some b → Ext (celems ρ ps xs).2 b
  | [], xs, b, _, h => by simp [matchElems] at h; subst h; simp only [celems]; exact ext_refl _
  | p :: ps, [], b, _, h => by simp [matchElems] at h
  | p :: ps, x :: xs, b, ha, h => by
    simp only [altFreeL, Bool.and_eq_true] at ha
    simp only [matchElems] at h
    cases hp : matchP ρ p x with
    | none => simp [hp] at h
    | some b₁ =>
      simp only [hp] at h
      cases hq : matchElems ρ ps xs with
      | none => simp [hq] at h
      | some b₂ =>
        simp [hq] at h; subst h
        have hc : (cmatch ρ p x).1 = true := by rw [cmatch_verdict, hp]; rfl
        simp only [celems, hc, if_true]
        exact ext_append (cmatch_ext ρ p x b₁ ha.1 hp) (celems_ext ρ ps xs b₂ ha.2 hq)

theorem ckeys_ext (ρ : Env) : ∀ (ks : List Scalar) (ps : List Pat) (kvs : List (Scalar × V)) (b : Bindings),
    altFreeL ps = true → matchKeys ρ ks ps kvs = some b → Ext (ckeys ρ ks ps kvs).2 b
  | [], [], kvs, b, _, h => by simp [matchKeys] at h; subst h; simp only [ckeys]; exact ext_refl _
  | [], _ :: _, kvs, b, _, h => by simp [matchKeys] at h
  | _ :: _, [], kvs, b, _, h => by simp [matchKeys] at h
  | k :: ks, p :: ps, kvs, b, ha, h => by
    simp only [altFreeL, Bool.and_eq_true] at ha
    simp only [matchKeys] at h
    cases hp : matchP ρ p (lookupKey kvs k) with
    | none => simp [hp] at h
    | some b₁ =>
      simp only [hp] at h
      cases hq : matchKeys ρ ks ps kvs with
      | none => simp [hq] at h
      | some b₂ =>
        simp [hq] at h; subst h
        have hc : (cmatch ρ p (lookupKey kvs k)).1 = true := by rw [cmatch_verdict, hp]; rfl
        simp only [ckeys, hc, if_true]
        exact ext_append (cmatch_ext ρ p _ b₁ ha.1 hp) (ckeys_ext ρ ks ps kvs b₂ ha.2 hq)
end

end Elk.Pattern
