import ElkVerif.Proofs.Seq
/-! one simulation lemma per operation: `step` (heap of slices) against `astep` (plain sequences) -/
namespace Elk.Seq

/-- what one simulation step establishes -/
def Sim (g : Nat → Nat → Nat) (st : St) (A : List AL) (op : Op) : Prop :=
  R (step g st op).1 (astep g A op).1 ∧ (step g st op).2 = (astep g A op).2

theorem sim_new (g) {st A} (h : R st A) (cap : Nat) : Sim g st A (.new cap) := by
  obtain ⟨h1, h2⟩ := h.alloc [] cap
  simp only [Sim, step, astep]
  refine ⟨by simpa using h1, by simp [h2]⟩

theorem sim_lit (g) {st A} (h : R st A) (cap : Nat) (xs : List Val) : Sim g st A (.lit cap xs) := by
  obtain ⟨h1, h2⟩ := h.alloc xs (xs.length + cap)
  simp only [Sim, step, astep]
  refine ⟨by simpa using h1, by simp [h2]⟩

theorem sim_wlen (g) {st A} (h : R st A) (n : Nat) : Sim g st A (.wlen n) := by
  obtain ⟨h1, h2⟩ := h.alloc (List.replicate n Val.undef) n
  simp only [Sim, step, astep]
  refine ⟨by simpa using h1, by simp [h2]⟩

theorem goAppend_sim (g) {st A} (h : R st A) {o : Nat} {al : AL} (hA : A[o]? = some al) (ys : List Val) :
    ∃ st', goAppend g st o ys = some st' ∧ R st' (A.set o (apush g al ys)) := by
  obtain ⟨s, a, hs, hheap, hlook, hfit, hlen, hwin, hcap⟩ := h.look_some hA
  have hl : al.xs.length = s.len := by rw [← hwin]; exact window_length hfit hlen
  simp only [goAppend, hlook]
  by_cases hc : s.len + ys.length ≤ s.cap
  · simp only [hc, if_true]
    have := h.write hs hheap hA s.len (s.len + ys.length) ys (Nat.le_refl _) hc (Nat.le_refl _)
    refine ⟨_, rfl, ?_⟩
    have hc' : al.xs.length + ys.length ≤ al.cap := by omega
    have e : apush g al ys = ⟨(al.xs.take s.len ++ ys).take (s.len + ys.length), al.cap⟩ := by
      simp [apush, appendCap, hc', ← hl]
      rw [List.take_of_length_le (by simp)]
    rw [e]; exact this
  · simp only [hc, if_false]
    have := h.realloc (lt_of_getElem? hA) (window s a ++ ys) (g s.cap (s.len + ys.length))
    refine ⟨_, rfl, ?_⟩
    have hc' : ¬ al.xs.length + ys.length ≤ al.cap := by omega
    have e : apush g al ys = ⟨window s a ++ ys, max (g s.cap (s.len + ys.length)) (window s a ++ ys).length⟩ := by
      simp [apush, appendCap, hc', hwin, hcap, ← hl]
    rw [e]; exact this

theorem goAppend_none (g) {st A} (h : R st A) {o : Nat} (hA : A[o]? = none) (ys : List Val) :
    goAppend g st o ys = none := by
  simp [goAppend, h.look_none hA]

theorem sim_push (g) {st A} (h : R st A) (o : Nat) (ys : List Val) : Sim g st A (.push o ys) := by
  simp only [Sim, step, astep]
  cases hA : A[o]? with
  | none => simp [goAppend_none g h hA, h]
  | some al =>
    obtain ⟨st', e, hr⟩ := goAppend_sim g h hA ys
    simp [e, hr]

theorem set_self {α} (l : List α) (o : Nat) (x : α) (h : l[o]? = some x) : l.set o x = l := by
  apply List.ext_getElem?
  intro i
  rw [List.getElem?_set]
  by_cases hi : o = i
  · subst hi
    have hlt := lt_of_getElem? h
    simp only [hlt, if_true]
    exact h.symm
  · simp [hi]

theorem appendEach_sim (g) (ys : List Val) : ∀ {st A} (_ : R st A) {o : Nat} {al : AL} (_ : A[o]? = some al),
    ∃ st', appendEach g st o ys = some st' ∧ R st' (A.set o (apushEach g al ys)) := by
  induction ys with
  | nil =>
    intro st A h o al hA
    obtain ⟨s, a, hs, hheap, hlook, _⟩ := h.look_some hA
    refine ⟨st, by simp [appendEach, hlook], ?_⟩
    simp only [apushEach]; rw [set_self _ _ _ hA]; exact h
  | cons y ys ih =>
    intro st A h o al hA
    obtain ⟨st1, e1, hr1⟩ := goAppend_sim g h hA [y]
    have hA1 : (A.set o (apush g al [y]))[o]? = some (apush g al [y]) := by
      simp [lt_of_getElem? hA]
    obtain ⟨st2, e2, hr2⟩ := ih hr1 hA1
    refine ⟨st2, by simp [appendEach, e1, e2], ?_⟩
    simpa [apushEach, List.set_set] using hr2

theorem sim_pushEach (g) {st A} (h : R st A) (o : Nat) (ys : List Val) : Sim g st A (.pushEach o ys) := by
  simp only [Sim, step, astep]
  cases hA : A[o]? with
  | none =>
    have : appendEach g st o ys = none := by
      cases ys with
      | nil => simp [appendEach, h.look_none hA]
      | cons y ys => simp [appendEach, goAppend_none g h hA]
    simp [this, h]
  | some al =>
    obtain ⟨st', e, hr⟩ := appendEach_sim g ys h hA
    simp [e, hr]

theorem normIndex_lt {i : Int} {n j : Nat} (h : normIndex i n = some j) : j < n := by
  unfold normIndex at h
  split at h
  · cases h
  · split at h <;> (injection h with h; omega)

theorem writeAt_single (xs : List Val) (j : Nat) (v : Val) (h : j < xs.length) :
    writeAt xs j [v] = xs.set j v := by
  simp only [writeAt, List.length_singleton]
  rw [List.set_eq_take_append_cons_drop]
  simp [h]

/-- read-only operations: the state is unchanged, only the answer matters -/
theorem sim_ro {g st A op} (h : R st A) (h1 : (step g st op).1 = st) (h2 : (astep g A op).1 = A)
    (h3 : (step g st op).2 = (astep g A op).2) : Sim g st A op := by
  refine ⟨?_, h3⟩; rw [h1, h2]; exact h

theorem sim_get (g) {st A} (h : R st A) (o : Nat) (i : Int) : Sim g st A (.get o i) := by
  cases hA : A[o]? with
  | none => exact sim_ro h (by simp [step, h.look_none hA]) (by simp [astep, hA]) (by simp [step, astep, h.look_none hA, hA])
  | some al =>
    obtain ⟨s, a, hs, hheap, hlook, hfit, hlen, hwin, hcap⟩ := h.look_some hA
    have hl : al.xs.length = s.len := by rw [← hwin]; exact window_length hfit hlen
    cases hn : normIndex i s.len with
    | none => exact sim_ro h (by simp [step, hlook, hn]) (by simp [astep, hA, hl, hn]) (by simp [step, astep, hlook, hA, hl, hn])
    | some j =>
      cases hj : al.xs[j]? with
      | none =>
        exact sim_ro h (by simp [step, hlook, hn, hwin, hj]) (by simp [astep, hA, hl, hn, hj])
          (by simp [step, astep, hlook, hA, hl, hn, hwin, hj])
      | some v =>
        exact sim_ro h (by simp [step, hlook, hn, hwin, hj]) (by simp [astep, hA, hl, hn, hj])
          (by simp [step, astep, hlook, hA, hl, hn, hwin, hj])

theorem sim_set (g) {st A} (h : R st A) (o : Nat) (i : Int) (v : Val) : Sim g st A (.set o i v) := by
  cases hA : A[o]? with
  | none => exact sim_ro h (by simp [step, h.look_none hA]) (by simp [astep, hA]) (by simp [step, astep, h.look_none hA, hA])
  | some al =>
    obtain ⟨s, a, hs, hheap, hlook, hfit, hlen, hwin, hcap⟩ := h.look_some hA
    have hl : al.xs.length = s.len := by rw [← hwin]; exact window_length hfit hlen
    cases hn : normIndex i s.len with
    | none => exact sim_ro h (by simp [step, hlook, hn]) (by simp [astep, hA, hl, hn]) (by simp [step, astep, hlook, hA, hl, hn])
    | some j =>
      have hj := normIndex_lt hn
      have := h.writeIn hs hheap hA j [v] (by simp; omega)
      rw [writeAt_single _ _ _ (by omega)] at this
      simp only [Sim, step, astep, hlook, hA, hl, hn]
      exact ⟨this, trivial⟩

theorem sim_at (g) {st A} (h : R st A) (o : Nat) (i : Int) : Sim g st A (.at o i) := by
  cases hA : A[o]? with
  | none => exact sim_ro h (by simp [step, h.look_none hA]) (by simp [astep, hA]) (by simp [step, astep, h.look_none hA, hA])
  | some al =>
    obtain ⟨s, a, hs, hheap, hlook, hfit, hlen, hwin, hcap⟩ := h.look_some hA
    have hl : al.xs.length = s.len := by rw [← hwin]; exact window_length hfit hlen
    by_cases hc : i < 0 ∨ i ≥ s.len
    · exact sim_ro h (by simp [step, hlook, hc]) (by simp [astep, hA, hl, hc]) (by simp [step, astep, hlook, hA, hl, hc])
    · cases hj : al.xs[i.toNat]? with
      | none =>
        exact sim_ro h (by simp [step, hlook, hc, hwin, hj]) (by simp [astep, hA, hl, hc, hj])
          (by simp [step, astep, hlook, hA, hl, hc, hwin, hj])
      | some v =>
        exact sim_ro h (by simp [step, hlook, hc, hwin, hj]) (by simp [astep, hA, hl, hc, hj])
          (by simp [step, astep, hlook, hA, hl, hc, hwin, hj])

theorem take_drop_eraseIdx (xs : List Val) (j : Nat) :
    (xs.take j ++ xs.drop (j + 1)).take (j + (xs.drop (j + 1)).length) = xs.eraseIdx j := by
  rw [List.eraseIdx_eq_take_drop_succ]
  apply List.take_of_length_le
  simp; omega

theorem sim_rme (g) {st A} (h : R st A) (o : Nat) (i : Int) : Sim g st A (.rme o i) := by
  cases hA : A[o]? with
  | none => exact sim_ro h (by simp [step, h.look_none hA]) (by simp [astep, hA]) (by simp [step, astep, h.look_none hA, hA])
  | some al =>
    obtain ⟨s, a, hs, hheap, hlook, hfit, hlen, hwin, hcap⟩ := h.look_some hA
    have hl : al.xs.length = s.len := by rw [← hwin]; exact window_length hfit hlen
    cases hn : normIndex i s.len with
    | none => exact sim_ro h (by simp [step, hlook, hn]) (by simp [astep, hA, hl, hn]) (by simp [step, astep, hlook, hA, hl, hn])
    | some j =>
      have hj := normIndex_lt hn
      have hd : (al.xs.drop (j + 1)).length = s.len - 1 - j := by simp; omega
      have := h.write hs hheap hA j (s.len - 1) (al.xs.drop (j + 1)) (by omega) (by omega) (by omega)
      have e : s.len - 1 = j + (al.xs.drop (j + 1)).length := by omega
      rw [e, take_drop_eraseIdx] at this
      simp only [Sim, step, astep, hlook, hA, hl, hn, hwin]
      rw [← e] at this
      exact ⟨this, trivial⟩

theorem sim_rm (g) {st A} (h : R st A) (o : Nat) (i : Int) : Sim g st A (.rm o i) := by
  cases hA : A[o]? with
  | none => exact sim_ro h (by simp [step, h.look_none hA]) (by simp [astep, hA]) (by simp [step, astep, h.look_none hA, hA])
  | some al =>
    obtain ⟨s, a, hs, hheap, hlook, hfit, hlen, hwin, hcap⟩ := h.look_some hA
    have hl : al.xs.length = s.len := by rw [← hwin]; exact window_length hfit hlen
    by_cases hc : i < 0 ∨ i + 1 > s.len
    · exact sim_ro h (by simp [step, hlook, hc]) (by simp [astep, hA, hl, hc]) (by simp [step, astep, hlook, hA, hl, hc])
    · have hj : i.toNat < s.len := by omega
      have hd : (al.xs.drop (i.toNat + 1)).length = s.len - 1 - i.toNat := by simp; omega
      have := h.write hs hheap hA i.toNat (s.len - 1) (al.xs.drop (i.toNat + 1)) (by omega) (by omega) (by omega)
      have e : s.len - 1 = i.toNat + (al.xs.drop (i.toNat + 1)).length := by omega
      rw [e, take_drop_eraseIdx] at this
      simp only [Sim, step, astep, hlook, hA, hl, hc, hwin, if_false]
      rw [← e] at this
      exact ⟨this, trivial⟩


theorem sim_grow (g) {st A} (h : R st A) (o : Nat) (n : Int) : Sim g st A (.grow o n) := by
  cases hA : A[o]? with
  | none => exact sim_ro h (by simp [step, h.look_none hA]) (by simp [astep, hA]) (by simp [step, astep, h.look_none hA, hA])
  | some al =>
    obtain ⟨s, a, hs, hheap, hlook, hfit, hlen, hwin, hcap⟩ := h.look_some hA
    have hl : al.xs.length = s.len := by rw [← hwin]; exact window_length hfit hlen
    by_cases hc : (s.cap : Int) + n < s.len
    · exact sim_ro h (by simp [step, hlook, hc]) (by simp [astep, hA, hl, ← hcap, hc]) (by simp [step, astep, hlook, hA, hl, ← hcap, hc])
    · have := h.realloc (lt_of_getElem? hA) (window s a) ((s.cap : Int) + n).toNat
      have e : max ((s.cap : Int) + n).toNat (window s a).length = ((s.cap : Int) + n).toNat := by
        rw [hwin, hl]; omega
      rw [e, hwin] at this
      simp only [Sim, step, astep, hlook, hA, hl, ← hcap, hc, if_false, hwin]
      exact ⟨this, trivial⟩

theorem sim_exp (g) {st A} (h : R st A) (o : Nat) (n : Int) : Sim g st A (.exp o n) := by
  cases hA : A[o]? with
  | none => exact sim_ro h (by simp [step, h.look_none hA]) (by simp [astep, hA]) (by simp [step, astep, h.look_none hA, hA])
  | some al =>
    obtain ⟨s, a, hs, hheap, hlook, hfit, hlen, hwin, hcap⟩ := h.look_some hA
    have hl : al.xs.length = s.len := by rw [← hwin]; exact window_length hfit hlen
    by_cases hc : n < 1
    · exact sim_ro h (by simp [step, hlook, hc]) (by simp [astep, hA, hc]) (by simp [step, astep, hlook, hA, hc])
    · have := h.realloc (lt_of_getElem? hA) (window s a ++ List.replicate n.toNat Val.nil) (s.cap + n.toNat)
      have e : max (s.cap + n.toNat) (window s a ++ List.replicate n.toNat Val.nil).length = s.cap + n.toNat := by
        rw [hwin]; simp [hl]; omega
      rw [e, hwin, hcap] at this
      simp only [Sim, step, astep, hlook, hA, hc, if_false, hwin, hcap]
      exact ⟨this, trivial⟩

theorem sim_apat (g) {st A} (h : R st A) (o : Nat) (i : Int) (v : Val) : Sim g st A (.apat o i v) := by
  cases hA : A[o]? with
  | none => exact sim_ro h (by simp [step, h.look_none hA]) (by simp [astep, hA]) (by simp [step, astep, h.look_none hA, hA])
  | some al =>
    obtain ⟨s, a, hs, hheap, hlook, hfit, hlen, hwin, hcap⟩ := h.look_some hA
    have hl : al.xs.length = s.len := by rw [← hwin]; exact window_length hfit hlen
    by_cases hc : i < 0
    · exact sim_ro h (by simp [step, hlook, hc]) (by simp [astep, hA, hc]) (by simp [step, astep, hlook, hA, hc])
    · by_cases hc2 : i ≥ s.len
      · have := h.realloc (lt_of_getElem? hA) (window s a ++ List.replicate (i.toNat - s.len) Val.nil ++ [v])
          (s.cap + (i.toNat + 1 - s.len))
        have e : max (s.cap + (i.toNat + 1 - s.len))
            (window s a ++ List.replicate (i.toNat - s.len) Val.nil ++ [v]).length = s.cap + (i.toNat + 1 - s.len) := by
          rw [hwin]; simp [hl]; omega
        rw [e, hwin, hcap] at this
        simp only [Sim, step, astep, hlook, hA, hc, hc2, if_false, if_true, hwin, hcap, hl]
        exact ⟨this, trivial⟩
      · have := h.writeIn hs hheap hA i.toNat [v] (by simp; omega)
        rw [writeAt_single _ _ _ (by omega)] at this
        simp only [Sim, step, astep, hlook, hA, hc, hc2, if_false, hl]
        exact ⟨this, trivial⟩

theorem sim_cat (g) {st A} (h : R st A) (x y : Nat) : Sim g st A (.cat x y) := by
  cases hX : A[x]? with
  | none => exact sim_ro h (by simp [step, h.look_none hX]) (by simp [astep, hX]) (by simp [step, astep, h.look_none hX, hX])
  | some al =>
    obtain ⟨s, a, hs, hheap, hlook, hfit, hlen, hwin, hcap⟩ := h.look_some hX
    have hl : al.xs.length = s.len := by rw [← hwin]; exact window_length hfit hlen
    cases hY : A[y]? with
    | none => exact sim_ro h (by simp [step, hlook, h.look_none hY]) (by simp [astep, hX, hY]) (by simp [step, astep, hlook, h.look_none hY, hX, hY])
    | some bl =>
      obtain ⟨t, b, ht, hheapt, hlookt, hfitt, hlent, hwint, hcapt⟩ := h.look_some hY
      have hlt : bl.xs.length = t.len := by rw [← hwint]; exact window_length hfitt hlent
      obtain ⟨h1, h2⟩ := h.alloc (window s a ++ window t b) (s.len + t.len)
      have e : max (s.len + t.len) (window s a ++ window t b).length = s.len + t.len := by
        rw [hwin, hwint]; simp [hl, hlt]
      rw [e, hwin, hwint] at h1
      simp only [Sim, step, astep, hlook, hlookt, hX, hY, hl, hlt, hwin, hwint]
      exact ⟨h1, by rw [hwin, hwint] at h2; simp [h2]⟩

theorem sim_rep (g) {st A} (h : R st A) (x : Nat) (n : Option Int) : Sim g st A (.rep x n) := by
  cases hX : A[x]? with
  | none => exact sim_ro h (by simp [step, h.look_none hX]) (by simp [astep, hX]) (by simp [step, astep, h.look_none hX, hX])
  | some al =>
    obtain ⟨s, a, hs, hheap, hlook, hfit, hlen, hwin, hcap⟩ := h.look_some hX
    have hl : al.xs.length = s.len := by rw [← hwin]; exact window_length hfit hlen
    cases n with
    | none => exact sim_ro h (by simp [step, hlook]) (by simp [astep, hX]) (by simp [step, astep, hlook, hX])
    | some n =>
      by_cases hc : n < 0
      · exact sim_ro h (by simp [step, hlook, hc]) (by simp [astep, hX, hc]) (by simp [step, astep, hlook, hX, hc])
      · by_cases hc2 : n * s.len > maxInt
        · exact sim_ro h (by simp [step, hlook, hc, hc2]) (by simp [astep, hX, hc, hl, hc2]) (by simp [step, astep, hlook, hX, hc, hl, hc2])
        · by_cases hc3 : n * s.len ≥ maxAlloc
          · exact sim_ro h (by simp [step, hlook, hc, hc2, hc3]) (by simp [astep, hX, hc, hl, hc2, hc3])
              (by simp [step, astep, hlook, hX, hc, hl, hc2, hc3])
          · obtain ⟨h1, h2⟩ := h.alloc (List.replicate n.toNat (window s a)).flatten
              (List.replicate n.toNat (window s a)).flatten.length
            rw [Nat.max_self, hwin] at h1
            simp only [Sim, step, astep, hlook, hX, hc, hc2, hc3, hl, if_false, hwin]
            exact ⟨h1, by rw [hwin] at h2; simpa using h2⟩

theorem sim_cp (g) {st A} (h : R st A) (x : Nat) : Sim g st A (.cp x) := by
  cases hX : A[x]? with
  | none => exact sim_ro h (by simp [step, h.look_none hX]) (by simp [astep, hX]) (by simp [step, astep, h.look_none hX, hX])
  | some al =>
    obtain ⟨s, a, hs, hheap, hlook, hfit, hlen, hwin, hcap⟩ := h.look_some hX
    have hl : al.xs.length = s.len := by rw [← hwin]; exact window_length hfit hlen
    obtain ⟨h1, h2⟩ := h.alloc (window s a) s.len
    have e : max s.len (window s a).length = s.len := by rw [hwin, hl]; simp
    rw [e, hwin] at h1
    simp only [Sim, step, astep, hlook, hX, hl, hwin]
    exact ⟨h1, by rw [hwin] at h2; simp [h2]⟩

theorem sim_cl (g) {st A} (h : R st A) (x : Nat) (cap : Int) : Sim g st A (.cl x cap) := by
  cases hX : A[x]? with
  | none => exact sim_ro h (by simp [step, h.look_none hX]) (by simp [astep, hX]) (by simp [step, astep, h.look_none hX, hX])
  | some al =>
    obtain ⟨s, a, hs, hheap, hlook, hfit, hlen, hwin, hcap⟩ := h.look_some hX
    have hl : al.xs.length = s.len := by rw [← hwin]; exact window_length hfit hlen
    by_cases hc : cap < 0
    · exact sim_ro h (by simp [step, hlook, hc]) (by simp [astep, hX, hc]) (by simp [step, astep, hlook, hX, hc])
    · by_cases hc2 : s.len ≤ cap.toNat
      · obtain ⟨h1, h2⟩ := h.alloc (window s a) cap.toNat
        have e : max cap.toNat (window s a).length = cap.toNat := by rw [hwin, hl]; omega
        rw [e, hwin] at h1
        simp only [Sim, step, astep, hlook, hX, hl, hc, hc2, if_false, if_true, hwin]
        exact ⟨h1, by rw [hwin] at h2; simp [h2]⟩
      · obtain ⟨h1, h2⟩ := h.alloc (window s a) (g cap.toNat s.len)
        rw [hwin, hl] at h1
        simp only [Sim, step, astep, hlook, hX, hl, hc, hc2, if_false, hwin]
        exact ⟨h1, by rw [hwin] at h2; simp [h2]⟩

theorem sim_veq (g) {st A} (h : R st A) (x y : Nat) : Sim g st A (.veq x y) := by
  cases hX : A[x]? with
  | none => exact sim_ro h (by simp [step, h.look_none hX]) (by simp [astep, hX]) (by simp [step, astep, h.look_none hX, hX])
  | some al =>
    obtain ⟨s, a, hs, hheap, hlook, hfit, hlen, hwin, hcap⟩ := h.look_some hX
    cases hY : A[y]? with
    | none => exact sim_ro h (by simp [step, hlook, h.look_none hY]) (by simp [astep, hX, hY]) (by simp [step, astep, hlook, h.look_none hY, hX, hY])
    | some bl =>
      obtain ⟨t, b, ht, hheapt, hlookt, hfitt, hlent, hwint, hcapt⟩ := h.look_some hY
      exact sim_ro h (by simp [step, hlook, hlookt]) (by simp [astep, hX, hY]) (by simp [step, astep, hlook, hlookt, hX, hY, hwin, hwint])

theorem sim_vcon (g) {st A} (h : R st A) (o : Nat) (v : Val) : Sim g st A (.vcon o v) := by
  cases hA : A[o]? with
  | none => exact sim_ro h (by simp [step, h.look_none hA]) (by simp [astep, hA]) (by simp [step, astep, h.look_none hA, hA])
  | some al =>
    obtain ⟨s, a, hs, hheap, hlook, hfit, hlen, hwin, hcap⟩ := h.look_some hA
    exact sim_ro h (by simp [step, hlook]) (by simp [astep, hA]) (by simp [step, astep, hlook, hA, hwin])

theorem sim_iter (g) {st A} (h : R st A) (o k : Nat) : Sim g st A (.iter o k) := by
  cases hA : A[o]? with
  | none => exact sim_ro h (by simp [step, h.look_none hA]) (by simp [astep, hA]) (by simp [step, astep, h.look_none hA, hA])
  | some al =>
    obtain ⟨s, a, hs, hheap, hlook, hfit, hlen, hwin, hcap⟩ := h.look_some hA
    exact sim_ro h (by simp [step, hlook]) (by simp [astep, hA]) (by simp [step, astep, hlook, hA, hwin])

theorem sim_len (g) {st A} (h : R st A) (o : Nat) : Sim g st A (.len o) := by
  cases hA : A[o]? with
  | none => exact sim_ro h (by simp [step, h.look_none hA]) (by simp [astep, hA]) (by simp [step, astep, h.look_none hA, hA])
  | some al =>
    obtain ⟨s, a, hs, hheap, hlook, hfit, hlen, hwin, hcap⟩ := h.look_some hA
    have hl : al.xs.length = s.len := by rw [← hwin]; exact window_length hfit hlen
    exact sim_ro h (by simp [step, hlook]) (by simp [astep, hA]) (by simp [step, astep, hlook, hA, hl])


/-! ### `ArrayList#remove` -/

theorem removeAll_length_le (v : Val) (xs : List Val) : (removeAll v xs).length ≤ xs.length := by
  induction xs with
  | nil => simp [removeAll]
  | cons x xs ih => simp only [removeAll]; split <;> simp <;> omega

/-- the in-place loop of `remove`, on a window split as processed ++ unprocessed ++ stale -/
theorem vremLoop_spec (v : Val) : ∀ (fuel : Nat) (pre rest tail : List Val) (r : Bool), rest.length ≤ fuel →
    ∃ tail', vremLoop v fuel (pre ++ rest ++ tail) (pre.length + rest.length) pre.length r =
        (pre ++ removeAll v rest ++ tail', pre.length + (removeAll v rest).length, r || decide (v ∈ rest)) ∧
      (removeAll v rest).length + tail'.length = rest.length + tail.length := by
  intro fuel
  induction fuel with
  | zero =>
    intro pre rest tail r hf
    have : rest = [] := List.length_eq_zero_iff.mp (by omega)
    subst this
    exact ⟨tail, by simp [vremLoop, removeAll], by simp [removeAll]⟩
  | succ fuel ih =>
    intro pre rest tail r hf
    cases rest with
    | nil => exact ⟨tail, by simp [vremLoop, removeAll], by simp [removeAll]⟩
    | cons x rest =>
      have hi : pre.length < pre.length + (x :: rest).length := by simp
      have hx : (pre ++ x :: rest ++ tail)[pre.length]? = some x := by
        rw [List.append_assoc, List.getElem?_append_right (Nat.le_refl _)]; simp
      simp only [vremLoop, hi, if_true, hx]
      by_cases hv : x = v
      · subst hv
        simp only [if_true]
        -- the shifted window: pre ++ rest ++ (one more stale slot)
        have hsh : rmShift (pre ++ x :: rest ++ tail) (pre.length + (x :: rest).length) pre.length =
            pre ++ rest ++ (pre ++ x :: rest ++ tail).drop (pre.length + rest.length) := by
          simp only [rmShift, List.length_cons]
          have e1 : (pre ++ x :: rest ++ tail).take pre.length = pre := by
            rw [List.append_assoc, List.take_left']; rfl
          have e2 : ((pre ++ x :: rest ++ tail).drop (pre.length + 1)).take (pre.length + (rest.length + 1) - 1 - pre.length) = rest := by
            have : (pre ++ x :: rest ++ tail).drop (pre.length + 1) = rest ++ tail := by
              rw [List.append_assoc, ← List.drop_drop, List.drop_left']; · simp
              rfl
            rw [this]
            have : pre.length + (rest.length + 1) - 1 - pre.length = rest.length := by omega
            rw [this, List.take_left']; rfl
          rw [e1, e2]
          congr 2
        rw [hsh]
        have hn : pre.length + (x :: rest).length - 1 = pre.length + rest.length := by simp
        rw [hn]
        obtain ⟨tail', e, hlen⟩ := ih pre rest ((pre ++ x :: rest ++ tail).drop (pre.length + rest.length)) true (by simpa using hf)
        refine ⟨tail', ?_, ?_⟩
        · rw [e]; simp [removeAll]
        · simp only [removeAll, if_true]
          rw [hlen]; simp; omega
      · have hx' : ¬ some x = some v := by simpa using hv
        simp only [hx', if_false]
        have e0 : pre ++ x :: rest ++ tail = (pre ++ [x]) ++ rest ++ tail := by simp
        have e1 : pre.length + (x :: rest).length = (pre ++ [x]).length + rest.length := by simp; omega
        have e2 : pre.length + 1 = (pre ++ [x]).length := by simp
        rw [e0, e1, e2]
        obtain ⟨tail', e, hlen⟩ := ih (pre ++ [x]) rest tail r (by simpa using hf)
        refine ⟨tail', ?_, ?_⟩
        · rw [e]; simp [removeAll, hv]
          constructor
          · omega
          · have : decide (v = x) = false := by simpa using fun h : v = x => hv h.symm
            simp [this]
        · simp only [removeAll, hv, if_false]; simp; omega

theorem sim_vrem (g) {st A} (h : R st A) (o : Nat) (v : Val) : Sim g st A (.vrem o v) := by
  cases hA : A[o]? with
  | none => exact sim_ro h (by simp [step, h.look_none hA]) (by simp [astep, hA]) (by simp [step, astep, h.look_none hA, hA])
  | some al =>
    obtain ⟨s, a, hs, hheap, hlook, hfit, hlen, hwin, hcap⟩ := h.look_some hA
    have hl : al.xs.length = s.len := by rw [← hwin]; exact window_length hfit hlen
    obtain ⟨tail', e, hlen'⟩ := vremLoop_spec v s.len [] (window s a) [] false (by rw [hwin, hl]; exact Nat.le_refl _)
    simp only [List.nil_append, List.append_nil, List.length_nil, Nat.zero_add, Bool.false_or, hwin, hl] at e hlen'
    have hle := removeAll_length_le v al.xs
    have := h.write hs hheap hA 0 (removeAll v al.xs).length (removeAll v al.xs ++ tail') (by omega)
      (by simp; omega) (by simp)
    have e2 : ((al.xs.take 0 ++ (removeAll v al.xs ++ tail')).take (removeAll v al.xs).length) = removeAll v al.xs := by
      simp
    rw [e2] at this
    simp only [Sim, step, astep, hlook, hA, hwin, e]
    exact ⟨this, trivial⟩

theorem sim_vsl (g) {st A} (h : R st A) (o : Nat) (r : RangeK) : Sim g st A (.vsl o r) := by
  cases hA : A[o]? with
  | none => exact sim_ro h (by simp [step, h.look_none hA]) (by simp [astep, hA]) (by simp [step, astep, h.look_none hA, hA])
  | some al =>
    obtain ⟨s, a, hs, hheap, hlook, hfit, hlen, hwin, hcap⟩ := h.look_some hA
    have hl : al.xs.length = s.len := by rw [← hwin]; exact window_length hfit hlen
    cases hb : r.bounds s.len with
    | mk lo hi =>
      cases hi1 : normIndex lo s.len with
      | none =>
        exact sim_ro h (by simp [step, hlook, hb, hi1]) (by simp [astep, hA, hl, hb, hi1])
          (by simp [step, astep, hlook, hA, hl, hb, hi1])
      | some i =>
        cases hi2 : normIndex hi s.len with
        | none =>
          exact sim_ro h (by simp [step, hlook, hb, hi1, hi2]) (by simp [astep, hA, hl, hb, hi1, hi2])
            (by simp [step, astep, hlook, hA, hl, hb, hi1, hi2])
        | some j =>
          obtain ⟨h1, h2⟩ := h.alloc [] 0
          have hlast : (A ++ [(⟨[], max 0 ([] : List Val).length⟩ : AL)])[A.length]? = some ⟨[], 0⟩ := by
            simp
          have hid : (allocObj st [] 0).2 = A.length := h2
          obtain ⟨st2, e2, hr2⟩ := appendEach_sim g (((window s a).drop i).take (j + 1 - i)) h1 hlast
          rw [← hid] at e2
          rw [hwin] at e2 hr2
          have : (A ++ [(⟨[], max 0 ([] : List Val).length⟩ : AL)]).set A.length
              (apushEach g ⟨[], 0⟩ ((al.xs.drop i).take (j + 1 - i))) =
              A ++ [apushEach g ⟨[], 0⟩ ((al.xs.drop i).take (j + 1 - i))] := by
            simp
          rw [this] at hr2
          simp only [Sim, step, astep, hlook, hA, hl, hb, hi1, hi2, hwin, e2]
          exact ⟨hr2, by rw [hid]⟩

/-- every slice-free operation simulates -/
theorem sim_all (g) {st A} (h : R st A) (op : Op) (hsf : op.sliceFree = true) : Sim g st A op := by
  cases op with
  | new c => exact sim_new g h c
  | lit c xs => exact sim_lit g h c xs
  | wlen n => exact sim_wlen g h n
  | push o xs => exact sim_push g h o xs
  | pushEach o xs => exact sim_pushEach g h o xs
  | get o i => exact sim_get g h o i
  | set o i v => exact sim_set g h o i v
  | «at» o i => exact sim_at g h o i
  | rme o i => exact sim_rme g h o i
  | rm o i => exact sim_rm g h o i
  | grow o n => exact sim_grow g h o n
  | exp o n => exact sim_exp g h o n
  | apat o i v => exact sim_apat g h o i v
  | cat a b => exact sim_cat g h a b
  | rep a n => exact sim_rep g h a n
  | sl a f t => simp [Op.sliceFree] at hsf
  | cp a => exact sim_cp g h a
  | cl a c => exact sim_cl g h a c
  | vsl o r => exact sim_vsl g h o r
  | vrem o v => exact sim_vrem g h o v
  | veq a b => exact sim_veq g h a b
  | vcon o v => exact sim_vcon g h o v
  | iter o k => exact sim_iter g h o k
  | len o => exact sim_len g h o

end Elk.Seq
