import ElkVerif.Model.Int
/-! Helper lemmas for C06: overflow predicates of `value/small_int.go` are exact, every pair
method denotes the exact integer and returns a normal form. Core Lean only. -/
namespace Elk.IntM

/-! ### words and normal forms -/

theorem toInt_bounds (v : I64) : -(2^63 : Int) ≤ v.toInt ∧ v.toInt < (2^63 : Int) := by
  have := @BitVec.toInt_lt 64 v
  have := @BitVec.le_toInt 64 v
  omega

theorem fits64_iff (z : Int) : fits64 z = true ↔ (-(2^63 : Int) ≤ z ∧ z < (2^63 : Int)) := by
  simp [fits64]

theorem fits64_false_iff (z : Int) : fits64 z = false ↔ (z < -(2^63 : Int) ∨ (2^63 : Int) ≤ z) := by
  simp [fits64]; omega

theorem fits64_toInt (v : I64) : fits64 v.toInt = true := by
  rw [fits64_iff]; exact toInt_bounds v

theorem toSmall_toInt (z : Int) (h : fits64 z = true) : (toSmall z).toInt = z := by
  rw [fits64_iff] at h
  simp only [toSmall, BitVec.toInt_ofInt, Int.bmod_def]
  omega

theorem toSmall_of_toInt (v : I64) : toSmall v.toInt = v := by
  simp [toSmall]

theorem ofBig_den (z : Int) : (ofBig z).den = z := by
  unfold ofBig
  split
  · simp [IntV.den, toSmall_toInt, *]
  · rfl

theorem ofBig_normal (z : Int) : (ofBig z).Normal := by
  unfold ofBig
  split
  · trivial
  · simp_all [IntV.Normal]

theorem toInt_eq_zero_iff (a : I64) : a.toInt = 0 ↔ a = 0#64 := by
  constructor
  · intro h; apply BitVec.eq_of_toInt_eq; simpa using h
  · intro h; subst h; rfl

theorem minI64_toInt : minI64.toInt = -(2^63 : Int) := by decide

theorem eq_minI64_iff (a : I64) : a = minI64 ↔ a.toInt = -(2^63 : Int) := by
  constructor
  · intro h; subst h; exact minI64_toInt
  · intro h; apply BitVec.eq_of_toInt_eq; rw [h, minI64_toInt]

theorem eq_negOne_iff (a : I64) : a = -1#64 ↔ a.toInt = -1 := by
  constructor
  · intro h; subst h; decide
  · intro h; apply BitVec.eq_of_toInt_eq; rw [h]; decide

/-- uniqueness of the normal form -/
theorem normal_unique (a b : IntV) (ha : a.Normal) (hb : b.Normal) (h : a.den = b.den) : a = b := by
  cases a with
  | small x =>
    cases b with
    | small y => simp only [IntV.den] at h; rw [BitVec.eq_of_toInt_eq h]
    | big w =>
      simp only [IntV.den] at h; simp only [IntV.Normal] at hb
      rw [← h, fits64_toInt] at hb; cases hb
  | big z =>
    cases b with
    | small y =>
      simp only [IntV.den] at h; simp only [IntV.Normal] at ha
      rw [h, fits64_toInt] at ha; cases ha
    | big w => simp only [IntV.den] at h; rw [h]

/-! ### overflow predicates -/

theorem addOverflow_spec (a b : I64) :
    (addOverflow a b).2 = true ↔ (a + b).toInt = a.toInt + b.toInt := by
  have ha := toInt_bounds a
  have hb := toInt_bounds b
  simp only [addOverflow, BitVec.slt, BitVec.toInt_add, Int.bmod_def, beq_iff_eq, decide_eq_decide, BitVec.toInt_zero]
  omega

theorem addOverflow_fst (a b : I64) : (addOverflow a b).1 = a + b := rfl

theorem addOverflow_false (a b : I64) (h : (addOverflow a b).2 = false) :
    fits64 (a.toInt + b.toInt) = false := by
  have ha := toInt_bounds a
  have hb := toInt_bounds b
  have hs := addOverflow_spec a b
  rw [h] at hs
  have hne : ¬ (a + b).toInt = a.toInt + b.toInt := fun hh => by simpa using hs.mpr hh
  rw [fits64_false_iff]
  rw [BitVec.toInt_add, Int.bmod_def] at hne
  omega

theorem subOverflow_spec (a b : I64) :
    (subOverflow a b).2 = true ↔ (a - b).toInt = a.toInt - b.toInt := by
  have ha := toInt_bounds a
  have hb := toInt_bounds b
  simp only [subOverflow, BitVec.slt, BitVec.toInt_sub, Int.bmod_def, beq_iff_eq, decide_eq_decide, BitVec.toInt_zero]
  omega

theorem subOverflow_fst (a b : I64) : (subOverflow a b).1 = a - b := rfl

theorem subOverflow_false (a b : I64) (h : (subOverflow a b).2 = false) :
    fits64 (a.toInt - b.toInt) = false := by
  have ha := toInt_bounds a
  have hb := toInt_bounds b
  have hs := subOverflow_spec a b
  rw [h] at hs
  have hne : ¬ (a - b).toInt = a.toInt - b.toInt := fun hh => by simpa using hs.mpr hh
  rw [fits64_false_iff]
  rw [BitVec.toInt_sub, Int.bmod_def] at hne
  omega

theorem sign_test_iff (p q r : Prop) [Decidable p] [Decidable q] [Decidable r] :
    ((decide p) == ((decide q) != (decide r))) = true ↔ (p ↔ ¬(q ↔ r)) := by
  by_cases hp : p <;> by_cases hq : q <;> by_cases hr : r <;> simp [*]

theorem slt_zero (x : I64) : BitVec.slt x 0#64 = decide (x.toInt < 0) := by
  simp [BitVec.slt]

theorem tmod_abs_lt (a b : Int) :
    (0 < b → -b < a.tmod b ∧ a.tmod b < b) ∧ (b < 0 → b < a.tmod b ∧ a.tmod b < -b) := by
  constructor
  · intro h; exact ⟨Int.lt_tmod_of_pos a h, Int.tmod_lt_of_pos a h⟩
  · intro h
    have h' : 0 < -b := by omega
    have h1 := Int.lt_tmod_of_pos a h'
    have h2 := Int.tmod_lt_of_pos a h'
    rw [Int.tmod_neg] at h1 h2
    omega

/-- integer core of `MultiplyOverflow`'s acceptance test: the wrapped product `C`, divided back by
`B` in wrapped arithmetic, gives `A`, and the sign of `C` is the sign of the exact product -/
theorem mul_accept_core (A B C : Int)
    (hA : -(2^63 : Int) ≤ A ∧ A < 2^63) (hB : -(2^63 : Int) ≤ B ∧ B < 2^63)
    (hC : -(2^63 : Int) ≤ C ∧ C < 2^63)
    (hB0 : B ≠ 0) (hCdef : C = (A * B).bmod (2^64))
    (hq : (C.tdiv B).bmod (2^64) = A)
    (hs : C < 0 ↔ ¬(A < 0 ↔ B < 0)) : C = A * B := by
  have hdm := Int.tmod_add_tdiv_mul C B
  have hr := tmod_abs_lt C B
  have hqa := Int.natAbs_tdiv_le_natAbs C B
  generalize hqe : C.tdiv B = q at *
  generalize hre : C.tmod B = r at *
  by_cases hfit : -(2^63:Int) ≤ q ∧ q < 2^63
  · have hqA : q = A := by
      rw [Int.bmod_def] at hq; omega
    subst hqA
    generalize hPe : q * B = P at *
    rw [Int.bmod_def] at hCdef
    omega
  · exfalso
    have hq63 : q = 2^63 := by omega
    subst hq63
    have hA' : A = -(2^63 : Int) := by
      rw [← hq]; decide
    omega

theorem mulOverflow_ok (a b : I64) (h : (mulOverflow a b).2 = true) :
    (mulOverflow a b).1.toInt = a.toInt * b.toInt := by
  unfold mulOverflow at h ⊢
  by_cases h0 : (a == 0#64 || b == 0#64) = true
  · simp only [h0, if_true]
    simp only [Bool.or_eq_true, beq_iff_eq] at h0
    rcases h0 with h0 | h0 <;> subst h0 <;> simp
  · simp only [h0] at h ⊢
    simp only [Bool.or_eq_true, beq_iff_eq, not_or] at h0
    obtain ⟨_, hb0⟩ := h0
    by_cases hs : ((BitVec.slt (a * b) 0#64) == ((BitVec.slt a 0#64) != (BitVec.slt b 0#64))) = true
    · simp only [hs, if_true] at h ⊢
      by_cases hd : (BitVec.sdiv (a * b) b == a) = true
      · simp only [hd, if_true]
        have hB0 : b.toInt ≠ 0 := fun hh => hb0 ((toInt_eq_zero_iff b).mp hh)
        have hq : (BitVec.sdiv (a * b) b).toInt = a.toInt := by
          rw [beq_iff_eq] at hd; rw [hd]
        rw [BitVec.toInt_sdiv] at hq
        have hs' : ((a * b).toInt < 0) ↔ ¬((a.toInt < 0) ↔ (b.toInt < 0)) := by
          rw [slt_zero, slt_zero, slt_zero] at hs
          exact (sign_test_iff _ _ _).mp hs
        exact mul_accept_core a.toInt b.toInt (a * b).toInt (toInt_bounds a) (toInt_bounds b)
          (toInt_bounds (a * b)) hB0 (BitVec.toInt_mul a b) hq hs'
      · simp [hd] at h
    · simp [hs] at h

theorem mul_sign (A B : Int) (hA : A ≠ 0) (hB : B ≠ 0) : (A * B < 0) ↔ ¬(A < 0 ↔ B < 0) := by
  rcases Int.lt_or_gt_of_ne hA with ha | ha <;> rcases Int.lt_or_gt_of_ne hB with hb | hb
  · have := Int.mul_pos_of_neg_of_neg ha hb; omega
  · have := Int.mul_neg_of_neg_of_pos ha hb; omega
  · have := Int.mul_neg_of_pos_of_neg ha hb; omega
  · have := Int.mul_pos ha hb; omega

theorem mulOverflow_false (a b : I64) (h : (mulOverflow a b).2 = false) :
    fits64 (a.toInt * b.toInt) = false := by
  unfold mulOverflow at h
  by_cases h0 : (a == 0#64 || b == 0#64) = true
  · simp [h0] at h
  · simp only [h0] at h
    simp only [Bool.or_eq_true, beq_iff_eq, not_or] at h0
    obtain ⟨ha0, hb0⟩ := h0
    have hA0 : a.toInt ≠ 0 := fun hh => ha0 ((toInt_eq_zero_iff a).mp hh)
    have hB0 : b.toInt ≠ 0 := fun hh => hb0 ((toInt_eq_zero_iff b).mp hh)
    cases hf : fits64 (a.toInt * b.toInt) with
    | false => rfl
    | true =>
      exfalso
      rw [fits64_iff] at hf
      have hC : (a * b).toInt = a.toInt * b.toInt := by
        rw [BitVec.toInt_mul, Int.bmod_def]
        generalize a.toInt * b.toInt = P at *
        omega
      have hsgn := mul_sign a.toInt b.toInt hA0 hB0
      have hs : ((BitVec.slt (a * b) 0#64) == ((BitVec.slt a 0#64) != (BitVec.slt b 0#64))) = true := by
        rw [slt_zero, slt_zero, slt_zero, sign_test_iff, hC]
        exact hsgn
      have hd : (BitVec.sdiv (a * b) b == a) = true := by
        rw [beq_iff_eq]
        apply BitVec.eq_of_toInt_eq
        rw [BitVec.toInt_sdiv, hC, Int.mul_tdiv_cancel _ hB0, Int.bmod_def]
        have := toInt_bounds a
        omega
      simp [hs, hd] at h

/-! ### pair methods: exact value and normal form -/

/-- `r` is the value `z` in normal form -/
def IntV.Is (v : IntV) (z : Int) : Prop := v.den = z ∧ v.Normal

theorem ofBig_is (z : Int) : (ofBig z).Is z := ⟨ofBig_den z, ofBig_normal z⟩

theorem small_is (v : I64) (z : Int) (h : v.toInt = z) : (IntV.small v).Is z := ⟨h, trivial⟩

theorem big_is (z : Int) (h : fits64 z = false) : (IntV.big z).Is z := ⟨rfl, h⟩

theorem S.addSmall_eq (i o : I64) :
    S.addSmall i o = if (addOverflow i o).2 then .small (addOverflow i o).1 else .big (i.toInt + o.toInt) := rfl

theorem S.addSmall_is (i o : I64) : (S.addSmall i o).Is (i.toInt + o.toInt) := by
  rw [S.addSmall_eq]
  by_cases hok : (addOverflow i o).2 = true
  · rw [if_pos hok]
    exact small_is _ _ ((addOverflow_spec i o).mp hok)
  · have hok' : (addOverflow i o).2 = false := by simpa using hok
    rw [if_neg hok]
    exact big_is _ (addOverflow_false i o hok')

theorem S.subSmall_eq (i o : I64) :
    S.subSmall i o = if (subOverflow i o).2 then .small (subOverflow i o).1 else .big (i.toInt - o.toInt) := rfl

theorem S.subSmall_is (i o : I64) : (S.subSmall i o).Is (i.toInt - o.toInt) := by
  rw [S.subSmall_eq]
  by_cases hok : (subOverflow i o).2 = true
  · rw [if_pos hok]
    exact small_is _ _ ((subOverflow_spec i o).mp hok)
  · have hok' : (subOverflow i o).2 = false := by simpa using hok
    rw [if_neg hok]
    exact big_is _ (subOverflow_false i o hok')

theorem S.mulSmall_eq (i o : I64) :
    S.mulSmall i o = if (mulOverflow i o).2 then .small (mulOverflow i o).1 else .big (i.toInt * o.toInt) := rfl

theorem S.mulSmall_is (i o : I64) : (S.mulSmall i o).Is (i.toInt * o.toInt) := by
  rw [S.mulSmall_eq]
  by_cases hok : (mulOverflow i o).2 = true
  · rw [if_pos hok]
    exact small_is _ _ (mulOverflow_ok i o hok)
  · have hok' : (mulOverflow i o).2 = false := by simpa using hok
    rw [if_neg hok]
    exact big_is _ (mulOverflow_false i o hok')

theorem S.inc_is (i : I64) : (S.inc i).Is (i.toInt + 1) := by
  have h := S.addSmall_is i 1#64
  have h1 : (1#64 : I64).toInt = 1 := by decide
  rw [h1] at h
  exact h

theorem S.dec_is (i : I64) : (S.dec i).Is (i.toInt - 1) := by
  have h := S.subSmall_is i 1#64
  have h1 : (1#64 : I64).toInt = 1 := by decide
  rw [h1] at h
  exact h

theorem S.neg_is (i : I64) : (S.neg i).Is (-i.toInt) := by
  unfold S.neg
  by_cases h : i = minI64
  · subst h
    simp only [beq_self_eq_true, if_true]
    exact big_is _ (by decide)
  · have h' : (i == minI64) = false := by simpa using h
    simp only [h']
    apply small_is
    have hb := toInt_bounds i
    have hne : i.toInt ≠ -(2^63 : Int) := fun hh => h ((eq_minI64_iff i).mpr hh)
    rw [BitVec.toInt_neg, Int.bmod_def]
    omega

theorem int_not_eq (z : Int) : ~~~z = -z - 1 := by
  cases z with
  | ofNat n => simp only [Complement.complement, Int.not, Int.ofNat_eq_natCast]; omega
  | negSucc n => simp only [Complement.complement, Int.not, Int.ofNat_eq_natCast]; omega

theorem S.not_is (i : I64) : (S.not i).Is (~~~ i.toInt) := by
  apply small_is
  have hb := toInt_bounds i
  rw [BitVec.toInt_not, Int.bmod_def, BitVec.toInt_eq_toNat_bmod, Int.bmod_def, int_not_eq]
  have := i.isLt
  omega

/-- the exact quotient of two words is a word except for `MinInt / -1` -/
theorem S.divSmall_spec (i o : I64) :
    (o.toInt = 0 → S.divSmall i o = .zeroDiv) ∧
    (o.toInt ≠ 0 → ∃ v, S.divSmall i o = .val v ∧ v.Is (Int.tdiv i.toInt o.toInt)) := by
  constructor
  · intro h
    have : o = 0#64 := (toInt_eq_zero_iff o).mp h
    subst this; simp [S.divSmall]
  · intro h
    have ho : (o == 0#64) = false := by
      simpa using fun hh : o = 0#64 => h ((toInt_eq_zero_iff o).mpr hh)
    unfold S.divSmall divOverflow
    simp only [ho]
    by_cases hmo : (i == minI64 && o == -1#64) = true
    · simp only [hmo, if_true]
      simp only [Bool.and_eq_true, beq_iff_eq] at hmo
      obtain ⟨h1, h2⟩ := hmo
      subst h1 h2
      exact ⟨_, rfl, big_is _ (by decide)⟩
    · simp only [hmo]
      refine ⟨_, rfl, small_is _ _ ?_⟩
      apply BitVec.toInt_sdiv_of_ne_or_ne
      simp only [Bool.and_eq_true, beq_iff_eq, not_and] at hmo
      by_cases h1 : i = minI64
      · right; exact hmo h1
      · left; simpa [minI64] using h1

theorem S.modBig_spec (i : I64) (z : Int) :
    (z = 0 → S.modBig i z = .zeroDiv) ∧
    (z ≠ 0 → ∃ v, S.modBig i z = .val v ∧ v.Is (Int.tmod i.toInt z)) := by
  constructor
  · intro h; simp [S.modBig, h]
  · intro h
    unfold S.modBig
    simp only [h, if_false]
    have hb := toInt_bounds i
    by_cases hf : fits64 z = true
    · simp only [hf, if_true]
      refine ⟨_, rfl, small_is _ _ ?_⟩
      rw [BitVec.toInt_srem, toSmall_toInt z hf]
    · simp only [hf]
      have hf' : fits64 z = false := by simpa using hf
      rw [fits64_false_iff] at hf'
      by_cases hm : (i == minI64 && z.natAbs == 2 ^ 63) = true
      · simp only [hm, if_true]
        refine ⟨_, rfl, small_is _ _ ?_⟩
        simp only [Bool.and_eq_true, beq_iff_eq] at hm
        obtain ⟨h1, h2⟩ := hm
        have hi : i.toInt = -(2^63 : Int) := (eq_minI64_iff i).mp h1
        have hz : z = 2^63 := by omega
        rw [hi, hz]; decide
      · simp only [hm]
        refine ⟨_, rfl, small_is _ _ ?_⟩
        -- |i| < |z|: the truncated remainder is the dividend itself
        have hne : ¬ (i.toInt = -(2^63 : Int) ∧ z.natAbs = 2^63) := by
          intro ⟨h1, h2⟩
          apply hm
          simp only [Bool.and_eq_true, beq_iff_eq]
          exact ⟨(eq_minI64_iff i).mpr h1, h2⟩
        have hlt : i.toInt.natAbs < z.natAbs := by omega
        by_cases hpos : 0 ≤ i.toInt
        · by_cases hzp : 0 < z
          · exact (Int.tmod_eq_of_lt hpos (by omega)).symm
          · have := Int.tmod_eq_of_lt (a := i.toInt) (b := -z) hpos (by omega)
            rw [Int.tmod_neg] at this; exact this.symm
        · have hneg : 0 ≤ -i.toInt := by omega
          by_cases hzp : 0 < z
          · have := Int.tmod_eq_of_lt (a := -i.toInt) (b := z) hneg (by omega)
            rw [Int.neg_tmod] at this; omega
          · have := Int.tmod_eq_of_lt (a := -i.toInt) (b := -z) hneg (by omega)
            rw [Int.tmod_neg, Int.neg_tmod] at this; omega

theorem S.modSmall_spec (i o : I64) :
    (o.toInt = 0 → S.modSmall i o = .zeroDiv) ∧
    (o.toInt ≠ 0 → ∃ v, S.modSmall i o = .val v ∧ v.Is (Int.tmod i.toInt o.toInt)) := by
  constructor
  · intro h
    have : o = 0#64 := (toInt_eq_zero_iff o).mp h
    subst this; simp [S.modSmall]
  · intro h
    have ho : (o == 0#64) = false := by
      simpa using fun hh : o = 0#64 => h ((toInt_eq_zero_iff o).mpr hh)
    unfold S.modSmall
    simp only [ho]
    exact ⟨_, rfl, small_is _ _ (BitVec.toInt_srem i o)⟩

/-! ### comparison -/

theorem S.cmp_spec (x y : I64) : S.cmp x y = bigCmp x.toInt y.toInt := by
  simp only [S.cmp, bigCmp, BitVec.slt, decide_eq_true_eq]
  have hinj : x.toInt = y.toInt ↔ x = y := ⟨BitVec.eq_of_toInt_eq, fun h => by rw [h]⟩
  by_cases h1 : y.toInt < x.toInt
  · simp only [h1, if_true]
    have h2 : ¬ x.toInt < y.toInt := by omega
    have h3 : ¬ x.toInt = y.toInt := by omega
    simp [h2, h3]
  · by_cases h2 : x.toInt < y.toInt
    · simp [h1, h2]
    · have : x.toInt = y.toInt := by omega
      simp [h1, h2, this]

theorem cmpInt_spec (a b : IntV) : cmpInt a b = bigCmp a.den b.den := by
  cases a <;> cases b <;> simp [cmpInt, IntV.den, S.cmp_spec]

theorem bigCmp_cases (x y : Int) :
    (x < y ∧ bigCmp x y = -1) ∨ (x = y ∧ bigCmp x y = 0) ∨ (y < x ∧ bigCmp x y = 1) := by
  unfold bigCmp
  by_cases h1 : x < y
  · left; simp [h1]
  · by_cases h2 : x = y
    · right; left; simp [h2]
    · right; right; simp [h1, h2]; omega


/-! ### shifts -/


/-- floor division by a positive `Q` gives 0 exactly on `[0, Q)` and -1 exactly on `[-Q, 0)` -/
theorem ediv_zero_range (x Q : Int) (hQ : 0 < Q) (h : x / Q = 0) : 0 ≤ x ∧ x < Q := by
  have h1 := Int.mul_ediv_add_emod x Q
  have h2 := Int.emod_nonneg x (Int.ne_of_gt hQ)
  have h3 := Int.emod_lt_of_pos x hQ
  rw [h] at h1
  simp at h1
  omega

theorem ediv_negOne_range (x Q : Int) (hQ : 0 < Q) (h : x / Q = -1) : -Q ≤ x ∧ x < 0 := by
  have h1 := Int.mul_ediv_add_emod x Q
  have h2 := Int.emod_nonneg x (Int.ne_of_gt hQ)
  have h3 := Int.emod_lt_of_pos x hQ
  rw [h] at h1
  omega

theorem toNat_cast_eq (i : I64) : ∃ c : Int, (i.toNat : Int) = i.toInt + c * 2^64 := by
  rw [BitVec.toInt_eq_toNat_cond]
  split
  · exact ⟨0, by omega⟩
  · refine ⟨1, ?_⟩
    have := i.isLt
    omega

/-- a left shift whose exact result fits the word is exact -/
theorem shl_toInt_of_fits (i : I64) (k : Nat)
    (h : -(2^63 : Int) ≤ i.toInt * 2^k ∧ i.toInt * 2^k < 2^63) : (i <<< k).toInt = i.toInt * 2^k := by
  rw [BitVec.toInt_shiftLeft, Nat.shiftLeft_eq]
  obtain ⟨c, hc⟩ := toNat_cast_eq i
  have e : ((i.toNat * 2^k : Nat) : Int) = i.toInt * 2^k + (c * 2^k) * ((2^64 : Nat) : Int) := by
    have e64 : ((2^64 : Nat) : Int) = 2^64 := by decide
    rw [Int.natCast_mul, hc, Int.natCast_pow, e64, Int.add_mul]
    congr 1
    rw [Int.mul_assoc, Int.mul_assoc, Int.mul_comm (2^64 : Int)]
    rfl
  rw [e, Int.add_mul_bmod_self_right, Int.bmod_def]
  generalize i.toInt * 2^k = y at *
  omega

theorem count_toNat (o : I64) (h0 : 0 ≤ o.toInt) : (o.toNat : Int) = o.toInt := by
  rw [BitVec.toInt_eq_toNat_cond] at h0 ⊢
  have := o.isLt
  split at h0 <;> rename_i hh <;> simp only [hh, if_true, if_false] <;> omega

theorem lsh_inWord_sound (i o : I64) (ho0 : 0 ≤ o.toInt) (ho : o.toInt ≤ 63)
    (htest : (!((BitVec.slt i 0#64 && BitVec.sshiftRight i (63#64 - o).toNat != -1#64) ||
              (BitVec.slt 0#64 i && BitVec.sshiftRight i (63#64 - o).toNat != 0#64))) = true) :
    -(2^63 : Int) ≤ i.toInt * 2^o.toNat ∧ i.toInt * 2^o.toNat < 2^63 := by
  have hk := count_toNat o ho0
  have hkn : o.toNat ≤ 63 := by omega
  have hsub : (63#64 - o).toNat = 63 - o.toNat := by
    rw [BitVec.toNat_sub]; have := o.isLt; simp; omega
  rw [hsub] at htest
  generalize hkdef : o.toNat = k at *
  have hpow : (2:Int)^(63 - k) * 2^k = 2^63 := by
    rw [← Int.pow_add]; congr 1; omega
  have hQ : (0:Int) < 2^(63-k) := Int.pow_pos (by decide)
  have hP : (0:Int) < 2^k := Int.pow_pos (by decide)
  have hcomp : (BitVec.sshiftRight i (63 - k)).toInt = i.toInt / 2^(63-k) := by
    rw [BitVec.toInt_sshiftRight, Int.shiftRight_eq_div_pow]; norm_cast
  have hb := toInt_bounds i
  by_cases hneg : i.toInt < 0
  · have hs : BitVec.slt i 0#64 = true := by simp [BitVec.slt, hneg]
    have hs2 : BitVec.slt 0#64 i = false := by simp [BitVec.slt]; omega
    simp only [hs, hs2, Bool.true_and, Bool.false_and, Bool.or_false, Bool.not_eq_true', bne_eq_false_iff_eq] at htest
    have hc1 : i.toInt / 2^(63-k) = -1 := by rw [← hcomp, htest]; decide
    have hr := ediv_negOne_range _ _ hQ hc1
    have := Int.mul_le_mul_of_nonneg_right hr.1 (Int.le_of_lt hP)
    have hz := Int.mul_neg_of_neg_of_pos hneg hP
    rw [Int.neg_mul, hpow] at this
    omega
  · by_cases hzero : i.toInt = 0
    · rw [hzero]; simp
    · have hpos : 0 < i.toInt := by omega
      have hs : BitVec.slt i 0#64 = false := by simp [BitVec.slt]; omega
      have hs2 : BitVec.slt 0#64 i = true := by simp [BitVec.slt, hpos]
      simp only [hs, hs2, Bool.true_and, Bool.false_and, Bool.false_or, Bool.not_eq_true', bne_eq_false_iff_eq] at htest
      have hc1 : i.toInt / 2^(63-k) = 0 := by rw [← hcomp, htest]; decide
      have hr := ediv_zero_range _ _ hQ hc1
      have := Int.mul_lt_mul_of_pos_right hr.2 hP
      have hz := Int.mul_pos hpos hP
      rw [hpow] at this
      omega

/-- the exact meaning of `a << n` for an integer count: `a * 2^n`, and the floor shift for `n < 0` -/
def shlSpec (x n : Int) : Int := if 0 ≤ n then x * 2 ^ n.toNat else x >>> (-n).toNat

theorem slt_zero_false (o : I64) (h : 0 ≤ o.toInt) : BitVec.slt o 0#64 = false := by
  simp [BitVec.slt]; omega

theorem slt_zero_true (o : I64) (h : o.toInt < 0) : BitVec.slt o 0#64 = true := by
  simp [BitVec.slt, h]

theorem neg_count (o : I64) (h : o.toInt < 0) (hmin : -(2^63 : Int) < o.toInt) :
    (-o).toInt = -o.toInt ∧ (-o).toNat = (-o.toInt).toNat := by
  have hb := toInt_bounds o
  have h1 : (-o).toInt = -o.toInt := by
    rw [BitVec.toInt_neg, Int.bmod_def]; omega
  refine ⟨h1, ?_⟩
  have := count_toNat (-o) (by omega)
  omega

theorem S.rshCore_spec (i o : I64) (ho : 0 ≤ o.toInt) :
    ∃ v, S.rshCore i o = .val v ∧ v.Is (i.toInt >>> o.toNat) := by
  unfold S.rshCore
  rw [slt_zero_false o ho]
  exact ⟨_, rfl, small_is _ _ BitVec.toInt_sshiftRight⟩

theorem S.lshCore_spec (i o : I64) (ho : 0 ≤ o.toInt) :
    ∃ v, S.lshCore i o = .val v ∧ v.Is (i.toInt * 2 ^ o.toNat) := by
  unfold S.lshCore
  rw [slt_zero_false o ho]
  simp only [Bool.false_eq_true, if_false]
  by_cases hin : S.lshInWord i o = true
  · rw [if_pos hin]
    refine ⟨_, rfl, small_is _ _ ?_⟩
    unfold S.lshInWord at hin
    by_cases hle : BitVec.sle o 63#64 = true
    · rw [if_pos hle] at hin
      have ho63 : o.toInt ≤ 63 := by
        have : (63#64 : I64).toInt = 63 := by decide
        simpa [BitVec.sle, this] using hle
      exact shl_toInt_of_fits i o.toNat (lsh_inWord_sound i o ho ho63 hin)
    · rw [if_neg hle] at hin; cases hin
  · rw [if_neg hin]
    refine ⟨_, rfl, ?_⟩
    rw [Int.shiftLeft_eq]
    exact ofBig_is _

theorem S.lshSmall_spec (i o : I64) (hmin : -(2^63 : Int) < o.toInt) :
    ∃ v, S.lshSmall i o = .val v ∧ v.Is (shlSpec i.toInt o.toInt) := by
  unfold S.lshSmall shlSpec
  by_cases h : o.toInt < 0
  · obtain ⟨h1, h2⟩ := neg_count o h hmin
    rw [slt_zero_true o h, if_pos rfl, if_neg (by omega), ← h2]
    exact S.rshCore_spec i (-o) (by omega)
  · rw [slt_zero_false o (by omega)]
    simp only [Bool.false_eq_true, if_false]
    rw [if_pos (show 0 ≤ o.toInt by omega)]
    have := count_toNat o (by omega)
    have e : o.toInt.toNat = o.toNat := by omega
    rw [e]
    exact S.lshCore_spec i o (by omega)

theorem S.rshSmall_spec (i o : I64) (hmin : -(2^63 : Int) < o.toInt) :
    ∃ v, S.rshSmall i o = .val v ∧ v.Is (shlSpec i.toInt (-o.toInt)) := by
  unfold S.rshSmall shlSpec
  by_cases h : o.toInt < 0
  · obtain ⟨h1, h2⟩ := neg_count o h hmin
    rw [slt_zero_true o h, if_pos rfl, if_pos (by omega), ← h2]
    exact S.lshCore_spec i (-o) (by omega)
  · rw [slt_zero_false o (by omega)]
    simp only [Bool.false_eq_true, if_false]
    have := count_toNat o (by omega)
    by_cases h0 : o.toInt = 0
    · have e : o.toNat = 0 := by omega
      rw [if_pos (by omega), h0, e]
      refine ⟨_, rfl, small_is _ _ ?_⟩
      simp
    · have e : (- -o.toInt).toNat = o.toNat := by omega
      rw [if_neg (by omega), e]
      exact ⟨_, rfl, small_is _ _ BitVec.toInt_sshiftRight⟩

theorem fits64_of_open (z : Int) (h : -(2^63 : Int) < z ∧ z < 2^63) : fits64 z = true := by
  rw [fits64_iff]; omega

theorem S.lshBig_spec (i : I64) (z : Int) (hz : -(2^63 : Int) < z ∧ z < 2^63) :
    ∃ v, S.lshBig i z = .val v ∧ v.Is (shlSpec i.toInt z) := by
  have hf := fits64_of_open z hz
  have ht := toSmall_toInt z hf
  have := S.lshSmall_spec i (toSmall z) (by omega)
  rw [ht] at this
  simpa [S.lshBig, S.lshSmall, hf] using this

theorem S.rshBig_spec (i : I64) (z : Int) (hz : -(2^63 : Int) < z ∧ z < 2^63) :
    ∃ v, S.rshBig i z = .val v ∧ v.Is (shlSpec i.toInt (-z)) := by
  have hf := fits64_of_open z hz
  have ht := toSmall_toInt z hf
  have := S.rshSmall_spec i (toSmall z) (by omega)
  rw [ht] at this
  simpa [S.rshBig, S.rshSmall, hf] using this

/-- result of a shift on a `BigInt` receiver: exact value; normal whenever the receiver is -/
def IntV.IsN (v : IntV) (z : Int) (recvNormal : Prop) : Prop := v.den = z ∧ (recvNormal → v.Normal)

theorem mul_pow_not_fits (z : Int) (k : Nat) (h : fits64 z = false) : fits64 (z * 2 ^ k) = false := by
  rw [fits64_false_iff] at h ⊢
  have hP : (1 : Int) ≤ 2 ^ k := by
    have : (0:Int) < 2^k := Int.pow_pos (by decide)
    omega
  rcases h with h | h
  · left
    have := Int.mul_le_mul_of_nonpos_left (a := z) (by omega) hP
    rw [Int.mul_one] at this
    omega
  · right
    have := Int.mul_le_mul_of_nonneg_left hP (show 0 ≤ z by omega)
    rw [Int.mul_one] at this
    omega

theorem B.rshCore_spec (z : Int) (o : I64) (ho : 0 ≤ o.toInt) :
    ∃ v, B.rshCore z o = .val v ∧ v.Is (z >>> o.toNat) := by
  unfold B.rshCore
  rw [slt_zero_false o ho]
  exact ⟨_, rfl, ofBig_is _⟩

theorem B.lshCore_spec (z : Int) (o : I64) (ho : 0 ≤ o.toInt) :
    ∃ v, B.lshCore z o = .val v ∧ v.IsN (z * 2 ^ o.toNat) (fits64 z = false) := by
  unfold B.lshCore
  rw [slt_zero_false o ho]
  refine ⟨_, rfl, ?_, ?_⟩
  · show z <<< o.toNat = _; rw [Int.shiftLeft_eq]
  · intro hn; show fits64 (z <<< o.toNat) = false
    rw [Int.shiftLeft_eq]; exact mul_pow_not_fits z _ hn

theorem is_isN {v : IntV} {z : Int} {p : Prop} (h : v.Is z) : v.IsN z p := ⟨h.1, fun _ => h.2⟩

theorem B.lshSmall_spec (z : Int) (o : I64) (hmin : -(2^63 : Int) < o.toInt) :
    ∃ v, B.lshSmall z o = .val v ∧ v.IsN (shlSpec z o.toInt) (fits64 z = false) := by
  unfold B.lshSmall shlSpec
  by_cases h : o.toInt < 0
  · obtain ⟨h1, h2⟩ := neg_count o h hmin
    rw [slt_zero_true o h, if_pos rfl, if_neg (by omega), ← h2]
    obtain ⟨v, hv, hi⟩ := B.rshCore_spec z (-o) (by omega)
    exact ⟨v, hv, is_isN hi⟩
  · rw [slt_zero_false o (by omega)]
    simp only [Bool.false_eq_true, if_false]
    rw [if_pos (show 0 ≤ o.toInt by omega)]
    have := count_toNat o (by omega)
    have e : o.toInt.toNat = o.toNat := by omega
    rw [e]
    exact B.lshCore_spec z o (by omega)

theorem B.rshSmall_spec (z : Int) (o : I64) (hmin : -(2^63 : Int) < o.toInt) :
    ∃ v, B.rshSmall z o = .val v ∧ v.IsN (shlSpec z (-o.toInt)) (fits64 z = false) := by
  unfold B.rshSmall shlSpec
  by_cases h : o.toInt < 0
  · obtain ⟨h1, h2⟩ := neg_count o h hmin
    rw [slt_zero_true o h, if_pos rfl, if_pos (by omega), ← h2]
    exact B.lshCore_spec z (-o) (by omega)
  · rw [slt_zero_false o (by omega)]
    simp only [Bool.false_eq_true, if_false]
    have := count_toNat o (by omega)
    obtain ⟨v, hv, hi⟩ := B.rshCore_spec z o (by omega)
    refine ⟨v, hv, ?_⟩
    by_cases h0 : o.toInt = 0
    · have e : o.toNat = 0 := by omega
      rw [if_pos (by omega), h0]
      rw [e] at hi
      simp only [Int.neg_zero, Int.toNat_zero, Int.pow_zero, Int.mul_one]
      simpa using is_isN hi
    · have e : (- -o.toInt).toNat = o.toNat := by omega
      rw [if_neg (by omega), e]
      exact is_isN hi

theorem B.lshBig_spec (z w : Int) (hw : -(2^63 : Int) < w ∧ w < 2^63) :
    ∃ v, B.lshBig z w = .val v ∧ v.IsN (shlSpec z w) (fits64 z = false) := by
  have hf := fits64_of_open w hw
  have ht := toSmall_toInt w hf
  have := B.lshSmall_spec z (toSmall w) (by omega)
  rw [ht] at this
  simpa [B.lshBig, hf] using this

theorem B.rshBig_spec (z w : Int) (hw : -(2^63 : Int) < w ∧ w < 2^63) :
    ∃ v, B.rshBig z w = .val v ∧ v.IsN (shlSpec z (-w)) (fits64 z = false) := by
  have hf := fits64_of_open w hw
  have ht := toSmall_toInt w hf
  have := B.rshSmall_spec z (toSmall w) (by omega)
  rw [ht] at this
  simpa [B.rshBig, hf] using this

theorem binVal_shl (a b : IntV) (hn : -(2^63 : Int) < b.den ∧ b.den < 2^63) :
    ∃ v, binVal .shl a b = .val v ∧ v.IsN (shlSpec a.den b.den) a.Normal := by
  cases a <;> cases b <;> simp only [IntV.den] at hn ⊢
  · obtain ⟨v, hv, hi⟩ := S.lshSmall_spec _ _ hn.1; exact ⟨v, hv, is_isN hi⟩
  · obtain ⟨v, hv, hi⟩ := S.lshBig_spec _ _ hn; exact ⟨v, hv, is_isN hi⟩
  · exact B.lshSmall_spec _ _ hn.1
  · exact B.lshBig_spec _ _ hn

theorem binVal_shr (a b : IntV) (hn : -(2^63 : Int) < b.den ∧ b.den < 2^63) :
    ∃ v, binVal .shr a b = .val v ∧ v.IsN (shlSpec a.den (-b.den)) a.Normal := by
  cases a <;> cases b <;> simp only [IntV.den] at hn ⊢
  · obtain ⟨v, hv, hi⟩ := S.rshSmall_spec _ _ hn.1; exact ⟨v, hv, is_isN hi⟩
  · obtain ⟨v, hv, hi⟩ := S.rshBig_spec _ _ hn; exact ⟨v, hv, is_isN hi⟩
  · exact B.rshSmall_spec _ _ hn.1
  · exact B.rshBig_spec _ _ hn

/-! ### bitwise operators: bit by bit -/



theorem natAndNot_testBit (m n i : Nat) : (natAndNot m n).testBit i = (m.testBit i && !n.testBit i) := by
  unfold natAndNot
  rw [Nat.testBit_bitwise (by rfl)]

theorem tbit_land (a b : Int) (i : Nat) : tbit (land a b) i = (tbit a i && tbit b i) := by
  cases a <;> cases b <;> simp [land, tbit, natAndNot_testBit, Bool.and_comm]

theorem tbit_lor (a b : Int) (i : Nat) : tbit (lor a b) i = (tbit a i || tbit b i) := by
  cases a <;> cases b <;> simp [lor, tbit, natAndNot_testBit, Bool.or_comm]

theorem tbit_lxor (a b : Int) (i : Nat) : tbit (lxor a b) i = (tbit a i ^^ tbit b i) := by
  cases a <;> cases b <;> simp [lxor, tbit]

theorem tbit_not (a : Int) (i : Nat) : tbit (~~~a) i = !tbit a i := by
  cases a <;> simp [tbit, Complement.complement, Int.not]

theorem tbit_landNot (a b : Int) (i : Nat) : tbit (landNot a b) i = (tbit a i && !tbit b i) := by
  rw [landNot, tbit_land, tbit_not]

/-- the bits determine the integer -/
theorem tbit_ext (a b : Int) (h : ∀ i, tbit a i = tbit b i) : a = b := by
  cases a with
  | ofNat m =>
    cases b with
    | ofNat n => congr 1; exact Nat.eq_of_testBit_eq h
    | negSucc n =>
      exfalso
      have := h (m + n)
      simp only [tbit] at this
      rw [Nat.testBit_lt_two_pow (Nat.lt_of_le_of_lt (Nat.le_add_right m n) Nat.lt_two_pow_self),
        Nat.testBit_lt_two_pow (Nat.lt_of_le_of_lt (Nat.le_add_left n m) Nat.lt_two_pow_self)] at this
      cases this
  | negSucc m =>
    cases b with
    | ofNat n =>
      exfalso
      have := h (m + n)
      simp only [tbit] at this
      rw [Nat.testBit_lt_two_pow (Nat.lt_of_le_of_lt (Nat.le_add_right m n) Nat.lt_two_pow_self),
        Nat.testBit_lt_two_pow (Nat.lt_of_le_of_lt (Nat.le_add_left n m) Nat.lt_two_pow_self)] at this
      cases this
    | negSucc n =>
      congr 1
      apply Nat.eq_of_testBit_eq
      intro i
      have := h i
      simp only [tbit] at this
      cases h1 : m.testBit i <;> cases h2 : n.testBit i <;> simp_all

/-- bit `i` of a word read as a signed integer: the word's bit, the sign beyond bit 63 -/
theorem tbit_toInt (x : I64) (i : Nat) : tbit x.toInt i = if i < 64 then x.getLsbD i else x.msb := by
  rw [BitVec.toInt_eq_msb_cond]
  cases hm : x.msb with
  | false =>
    simp only [Bool.false_eq_true, if_false]
    show tbit (Int.ofNat x.toNat) i = _
    simp only [tbit]
    split
    · rfl
    · have := BitVec.toNat_lt_of_msb_false hm
      apply Nat.testBit_lt_two_pow
      exact Nat.lt_of_lt_of_le this (Nat.pow_le_pow_right (by decide) (by omega))
  | true =>
    simp only [if_true]
    have hge := BitVec.toNat_ge_of_msb_true hm
    have hlt := x.isLt
    have e : ((x.toNat : Int) - ((2^64 : Nat) : Int)) = Int.negSucc (2^64 - (x.toNat + 1)) := by
      rw [Int.negSucc_eq]; omega
    rw [e]
    simp only [tbit]
    rw [Nat.testBit_two_pow_sub_succ hlt]
    split
    · rename_i h; simp [h, BitVec.getLsbD]
    · rename_i h; simp [h]


theorem toInt_and (x y : I64) : (x &&& y).toInt = land x.toInt y.toInt := by
  apply tbit_ext; intro i
  rw [tbit_land, tbit_toInt, tbit_toInt, tbit_toInt]
  split <;> simp

theorem toInt_or (x y : I64) : (x ||| y).toInt = lor x.toInt y.toInt := by
  apply tbit_ext; intro i
  rw [tbit_lor, tbit_toInt, tbit_toInt, tbit_toInt]
  split <;> simp

theorem toInt_xor (x y : I64) : (x ^^^ y).toInt = lxor x.toInt y.toInt := by
  apply tbit_ext; intro i
  rw [tbit_lxor, tbit_toInt, tbit_toInt, tbit_toInt]
  split <;> simp

theorem toInt_andNot (x y : I64) : (x &&& ~~~y).toInt = landNot x.toInt y.toInt := by
  apply tbit_ext; intro i
  rw [tbit_landNot, tbit_toInt, tbit_toInt, tbit_toInt]
  split
  · rename_i h; simp [h]
  · simp

theorem binVal_and (a b : IntV) : ∃ v, binVal .and a b = .val v ∧ v.Is (land a.den b.den) := by
  cases a <;> cases b <;> refine ⟨_, rfl, ?_⟩
  · exact small_is _ _ (toInt_and _ _)
  all_goals exact ofBig_is _

theorem binVal_or (a b : IntV) : ∃ v, binVal .or a b = .val v ∧ v.Is (lor a.den b.den) := by
  cases a <;> cases b <;> refine ⟨_, rfl, ?_⟩
  · exact small_is _ _ (toInt_or _ _)
  all_goals exact ofBig_is _

theorem binVal_xor (a b : IntV) : ∃ v, binVal .xor a b = .val v ∧ v.Is (lxor a.den b.den) := by
  cases a <;> cases b <;> refine ⟨_, rfl, ?_⟩
  · exact small_is _ _ (toInt_xor _ _)
  all_goals exact ofBig_is _

theorem binVal_andNot (a b : IntV) : ∃ v, binVal .andNot a b = .val v ∧ v.Is (landNot a.den b.den) := by
  cases a <;> cases b <;> refine ⟨_, rfl, ?_⟩
  · exact small_is _ _ (toInt_andNot _ _)
  all_goals exact ofBig_is _

/-- `tbit` is the arithmetic bit: `⌊a / 2^i⌋` is odd -/
theorem tbit_eq_shift (a : Int) (i : Nat) : tbit a i = decide ((a >>> i) % 2 = 1) := by
  cases a with
  | ofNat m =>
    simp only [tbit]
    show m.testBit i = decide (((m >>> i : Nat) : Int) % 2 = 1)
    rw [Nat.testBit, Nat.one_and_eq_mod_two]
    generalize m >>> i = q
    by_cases h : q % 2 = 1
    · have : ((q : Int) % 2 = 1) := by omega
      simp [h, this]
    · have : ¬ ((q : Int) % 2 = 1) := by omega
      simp [h, this]
  | negSucc m =>
    simp only [tbit]
    rw [Int.negSucc_shiftRight, Nat.testBit, Nat.one_and_eq_mod_two, Int.negSucc_eq]
    generalize m >>> i = q
    by_cases h : q % 2 = 1
    · have : ¬ ((-((q : Int) + 1)) % 2 = 1) := by omega
      rw [decide_eq_false this, h]; rfl
    · have : ((-((q : Int) + 1)) % 2 = 1) := by omega
      have h0 : q % 2 = 0 := by omega
      rw [decide_eq_true this, h0]; rfl


/-! ### the dispatchers: every representation pair -/

theorem is_unique {v w : IntV} {z : Int} (hv : v.Is z) (hw : w.Is z) : v = w :=
  normal_unique v w hv.2 hw.2 (hv.1.trans hw.1.symm)

theorem binVal_add (a b : IntV) : ∃ v, binVal .add a b = .val v ∧ v.Is (a.den + b.den) := by
  cases a <;> cases b <;> refine ⟨_, rfl, ?_⟩
  · exact S.addSmall_is _ _
  all_goals exact ofBig_is _

theorem binVal_sub (a b : IntV) : ∃ v, binVal .sub a b = .val v ∧ v.Is (a.den - b.den) := by
  cases a <;> cases b <;> refine ⟨_, rfl, ?_⟩
  · exact S.subSmall_is _ _
  all_goals exact ofBig_is _

theorem binVal_mul (a b : IntV) : ∃ v, binVal .mul a b = .val v ∧ v.Is (a.den * b.den) := by
  cases a <;> cases b <;> refine ⟨_, rfl, ?_⟩
  · exact S.mulSmall_is _ _
  all_goals exact ofBig_is _

theorem binVal_pow (a b : IntV) : ∃ v, binVal .pow a b = .val v ∧ v.Is (bigExp a.den b.den) := by
  cases a <;> cases b <;> exact ⟨_, rfl, ofBig_is _⟩

theorem unVal_neg (a : IntV) : ∃ v, unVal .neg a = .val v ∧ v.Is (-a.den) := by
  cases a
  · exact ⟨_, rfl, S.neg_is _⟩
  · exact ⟨_, rfl, ofBig_is _⟩

theorem unVal_inc (a : IntV) : ∃ v, unVal .inc a = .val v ∧ v.Is (a.den + 1) := by
  cases a
  · exact ⟨_, rfl, S.inc_is _⟩
  · exact ⟨_, rfl, ofBig_is _⟩

theorem unVal_dec (a : IntV) : ∃ v, unVal .dec a = .val v ∧ v.Is (a.den - 1) := by
  cases a
  · exact ⟨_, rfl, S.dec_is _⟩
  · exact ⟨_, rfl, ofBig_is _⟩

theorem unVal_not (a : IntV) (ha : a.Normal) : ∃ v, unVal .not a = .val v ∧ v.Is (~~~a.den) := by
  cases a with
  | small i => exact ⟨_, rfl, S.not_is _⟩
  | big z =>
    refine ⟨_, rfl, rfl, ?_⟩
    show fits64 (~~~z) = false
    have ha' : fits64 z = false := ha
    rw [fits64_false_iff] at ha' ⊢
    rw [int_not_eq]
    omega

theorem unVal_not_den (a : IntV) : ∃ v, unVal .not a = .val v ∧ v.den = ~~~a.den := by
  cases a with
  | small i => exact ⟨_, rfl, (S.not_is _).1⟩
  | big z => exact ⟨_, rfl, rfl⟩

theorem small_den_zero (o : I64) : o.toInt = 0 ↔ (o == 0#64) = true := by
  rw [toInt_eq_zero_iff]; simp

theorem binVal_div_zero (a b : IntV) (h : b.den = 0) : binVal .div a b = .zeroDiv := by
  cases a <;> cases b <;> simp only [IntV.den] at h
  · exact (S.divSmall_spec _ _).1 h
  · simp [binVal, S.divBig, h]
  · simp [binVal, B.divSmall, (small_den_zero _).mp h]
  · simp [binVal, B.divBig, h]

theorem binVal_div (a b : IntV) (h : b.den ≠ 0) :
    ∃ v, binVal .div a b = .val v ∧ v.Is (Int.tdiv a.den b.den) := by
  cases a <;> cases b <;> simp only [IntV.den] at h ⊢
  · exact (S.divSmall_spec _ _).2 h
  · exact ⟨_, by simp [binVal, S.divBig, h], ofBig_is _⟩
  · have : (‹I64› == 0#64) = false := by
      cases hh : (‹I64› == 0#64) with
      | false => rfl
      | true => exact absurd ((small_den_zero _).mpr hh) h
    exact ⟨_, by simp only [binVal, B.divSmall, this]; rfl, ofBig_is _⟩
  · exact ⟨_, by simp [binVal, B.divBig, h], ofBig_is _⟩

theorem binVal_mod_zero (a b : IntV) (h : b.den = 0) : binVal .mod a b = .zeroDiv := by
  cases a <;> cases b <;> simp only [IntV.den] at h
  · exact (S.modSmall_spec _ _).1 h
  · exact (S.modBig_spec _ _).1 h
  · simp [binVal, B.modSmall, (small_den_zero _).mp h]
  · simp [binVal, B.modBig, h]

theorem binVal_mod (a b : IntV) (h : b.den ≠ 0) :
    ∃ v, binVal .mod a b = .val v ∧ v.Is (Int.tmod a.den b.den) := by
  cases a <;> cases b <;> simp only [IntV.den] at h ⊢
  · exact (S.modSmall_spec _ _).2 h
  · exact (S.modBig_spec _ _).2 h
  · have : (‹I64› == 0#64) = false := by
      cases hh : (‹I64› == 0#64) with
      | false => rfl
      | true => exact absurd ((small_den_zero _).mpr hh) h
    exact ⟨_, by simp only [binVal, B.modSmall, this]; rfl, ofBig_is _⟩
  · exact ⟨_, by simp [binVal, B.modBig, h], ofBig_is _⟩

/-- the two dispatch families are the same function (C09 helpers) -/
theorem binInts_eq_binVal (op : Op) (a b : IntV) : binInts op a b = binVal op a b := by
  cases op <;> cases a <;> cases b <;> rfl

theorem unInts_eq_unVal (op : UOp) (a : IntV) : unInts op a = unVal op a := by
  cases op <;> cases a <;> rfl

end Elk.IntM
