import Mathlib.Tactic.Ring
import Mathlib.Tactic.Linarith
import Mathlib.Tactic.Positivity
import Mathlib.Algebra.Order.Field.Power
import Mathlib.Algebra.Order.Field.Rat
import ElkVerif.Model.Val
/-! helper lemmas for C18: exact dyadic comparison vs the order of ℚ -/

namespace Elk.Num
noncomputable def Dy.toRat (d : Dy) : ℚ := (d.m : ℚ) * (2 : ℚ) ^ d.e

theorem two_zpow_pos (e : Int) : (0 : ℚ) < (2 : ℚ) ^ e := by positivity

theorem Dy.num_spec (a b : Dy) :
    ((Dy.numL a b - Dy.numR a b : Int) : ℚ) * (2 : ℚ) ^ (min a.e b.e) = Dy.toRat a - Dy.toRat b := by
  unfold Dy.numL Dy.numR Dy.toRat
  push_cast
  have e1 : (2 : ℚ) ^ (a.e - min a.e b.e).toNat * (2 : ℚ) ^ (min a.e b.e) = (2 : ℚ) ^ a.e := by
    rw [← zpow_natCast, ← zpow_add₀ (by norm_num : (2 : ℚ) ≠ 0)]
    congr 1; omega
  have e2 : (2 : ℚ) ^ (b.e - min a.e b.e).toNat * (2 : ℚ) ^ (min a.e b.e) = (2 : ℚ) ^ b.e := by
    rw [← zpow_natCast, ← zpow_add₀ (by norm_num : (2 : ℚ) ≠ 0)]
    congr 1; omega
  calc _ = (a.m : ℚ) * ((2 : ℚ) ^ (a.e - min a.e b.e).toNat * (2 : ℚ) ^ (min a.e b.e))
          - (b.m : ℚ) * ((2 : ℚ) ^ (b.e - min a.e b.e).toNat * (2 : ℚ) ^ (min a.e b.e)) := by ring
    _ = _ := by rw [e1, e2]

theorem Dy.cmp_neg_iff (a b : Dy) : Dy.cmp a b < 0 ↔ a.toRat < b.toRat := by
  have h := Dy.num_spec a b
  have hp := two_zpow_pos (min a.e b.e)
  unfold Dy.cmp
  rw [Int.sign_neg_iff]
  constructor
  · intro hn
    have : ((Dy.numL a b - Dy.numR a b : Int) : ℚ) < 0 := by exact_mod_cast hn
    nlinarith
  · intro hlt
    have : ((Dy.numL a b - Dy.numR a b : Int) : ℚ) < 0 := by
      by_contra hc
      rw [not_lt] at hc
      nlinarith
    exact_mod_cast this

theorem Dy.cmp_zero_iff (a b : Dy) : Dy.cmp a b = 0 ↔ a.toRat = b.toRat := by
  have h := Dy.num_spec a b
  have hp := two_zpow_pos (min a.e b.e)
  unfold Dy.cmp
  rw [Int.sign_eq_zero_iff_zero]
  constructor
  · intro hn
    rw [hn] at h; simp at h; linarith
  · intro heq
    have h0 : ((Dy.numL a b - Dy.numR a b : Int) : ℚ) * (2 : ℚ) ^ (min a.e b.e) = 0 := by rw [h, heq]; ring
    rcases mul_eq_zero.mp h0 with h1 | h1
    · exact_mod_cast h1
    · exact absurd h1 (ne_of_gt hp)

theorem Dy.cmp_pos_iff (a b : Dy) : 0 < Dy.cmp a b ↔ b.toRat < a.toRat := by
  have h := Dy.num_spec a b
  have hp := two_zpow_pos (min a.e b.e)
  unfold Dy.cmp
  rw [Int.sign_pos_iff]
  constructor
  · intro hn
    have : (0 : ℚ) < ((Dy.numL a b - Dy.numR a b : Int) : ℚ) := by exact_mod_cast hn
    nlinarith
  · intro hlt
    have : (0 : ℚ) < ((Dy.numL a b - Dy.numR a b : Int) : ℚ) := by
      by_contra hc
      rw [not_lt] at hc
      nlinarith
    exact_mod_cast this
end Elk.Num

namespace Elk.Num

theorem Dy.cmp_range (a b : Dy) : Dy.cmp a b = -1 ∨ Dy.cmp a b = 0 ∨ Dy.cmp a b = 1 := by
  unfold Dy.cmp
  rcases Int.lt_trichotomy (Dy.numL a b - Dy.numR a b) 0 with h | h | h
  · left; exact Int.sign_eq_neg_one_iff_neg.mpr h
  · right; left; rw [h]; rfl
  · right; right; exact Int.sign_eq_one_iff_pos.mpr h

theorem Dy.ofInt_toRat (i : Int) : (Dy.ofInt i).toRat = (i : ℚ) := by
  simp [Dy.ofInt, Dy.toRat]

/-- `math.Trunc`: the integer part lies between 0 and the number, less than one away -/
theorem Dy.trunc_spec (d : Dy) :
    (0 ≤ d.toRat → ((d.trunc : ℚ) ≤ d.toRat ∧ d.toRat < (d.trunc : ℚ) + 1)) ∧
    (d.toRat ≤ 0 → ((d.trunc : ℚ) - 1 < d.toRat ∧ d.toRat ≤ (d.trunc : ℚ))) := by
  unfold Dy.trunc
  by_cases he : 0 ≤ d.e
  · simp only [he, if_true]
    have : d.toRat = ((d.m * 2 ^ d.e.toNat : Int) : ℚ) := by
      unfold Dy.toRat
      push_cast
      congr 1
      rw [← zpow_natCast]; congr 1; omega
    rw [this]
    constructor <;> intro _ <;> constructor <;> linarith
  · simp only [he, if_false]
    have hk : (0 : Int) < 2 ^ (-d.e).toNat := by positivity
    generalize hK : (2 : Int) ^ (-d.e).toNat = K at hk ⊢
    have hKq : (0 : ℚ) < (K : ℚ) := by exact_mod_cast hk
    have hD : d.toRat = (d.m : ℚ) / (K : ℚ) := by
      unfold Dy.toRat
      rw [← hK]
      push_cast
      rw [← zpow_natCast, div_eq_mul_inv, ← zpow_neg]
      congr 2; omega
    have hdm := Int.mul_tdiv_add_tmod d.m K
    have hlt := Int.tmod_lt_of_pos d.m hk
    have hgt := Int.lt_tmod_of_pos d.m hk
    have hmq : (d.m : ℚ) = (K : ℚ) * ((d.m.tdiv K : Int) : ℚ) + ((d.m.tmod K : Int) : ℚ) := by
      exact_mod_cast hdm.symm
    have hltq : ((d.m.tmod K : Int) : ℚ) < (K : ℚ) := by exact_mod_cast hlt
    have hgtq : -(K : ℚ) < ((d.m.tmod K : Int) : ℚ) := by exact_mod_cast hgt
    rw [hD]
    constructor
    · intro h0
      have hm0 : 0 ≤ d.m := by
        have : (0 : ℚ) ≤ (d.m : ℚ) := by
          have := mul_nonneg h0 (le_of_lt hKq)
          rwa [div_mul_cancel₀ _ (ne_of_gt hKq)] at this
        exact_mod_cast this
      have hr0 : (0 : ℚ) ≤ ((d.m.tmod K : Int) : ℚ) := by exact_mod_cast Int.tmod_nonneg K hm0
      constructor
      · rw [le_div_iff₀ hKq]; nlinarith
      · rw [div_lt_iff₀ hKq]; nlinarith
    · intro h0
      have hm0 : d.m ≤ 0 := by
        have : (d.m : ℚ) ≤ 0 := by
          have := mul_nonpos_of_nonpos_of_nonneg h0 (le_of_lt hKq)
          rwa [div_mul_cancel₀ _ (ne_of_gt hKq)] at this
        exact_mod_cast this
      have hr0 : ((d.m.tmod K : Int) : ℚ) ≤ 0 := by
        have : d.m.tmod K ≤ 0 := by
          have h := Int.tmod_nonneg K (show 0 ≤ -d.m by omega)
          rw [Int.neg_tmod] at h; omega
        exact_mod_cast this
      constructor
      · rw [lt_div_iff₀ hKq]; nlinarith
      · rw [div_le_iff₀ hKq]; nlinarith

end Elk.Num

namespace Elk.Num

theorem Dy.cmp_eq_of (a b : Dy) (r : Int)
    (h : (r = -1 ∧ a.toRat < b.toRat) ∨ (r = 0 ∧ a.toRat = b.toRat) ∨ (r = 1 ∧ b.toRat < a.toRat)) :
    Dy.cmp a b = r := by
  rcases Dy.cmp_range a b with hc | hc | hc <;> rcases h with ⟨hr, hv⟩ | ⟨hr, hv⟩ | ⟨hr, hv⟩ <;> subst hr
  all_goals first
    | exact hc
    | (exfalso
       have h1 := (Dy.cmp_neg_iff a b)
       have h2 := (Dy.cmp_zero_iff a b)
       have h3 := (Dy.cmp_pos_iff a b)
       rw [hc] at h1 h2 h3
       simp at h1 h2 h3
       linarith)

theorem Dy.cmp_nonneg_iff (a b : Dy) : 0 ≤ Dy.cmp a b ↔ b.toRat ≤ a.toRat := by
  rw [← not_lt, ← not_lt, Dy.cmp_neg_iff]

theorem Dy.cmp_nonpos_iff (a b : Dy) : Dy.cmp a b ≤ 0 ↔ a.toRat ≤ b.toRat := by
  rw [← not_lt, ← not_lt, Dy.cmp_pos_iff]

theorem cmpI64F_exact (i : Int) (hlo : -(2 ^ 63) ≤ i) (hhi : i < 2 ^ 63) (d : Dy) :
    cmpI64F i (.fin d) = Dy.cmp (Dy.ofInt i) d := by
  symm
  apply Dy.cmp_eq_of
  have hI : (Dy.ofInt i).toRat = (i : ℚ) := Dy.ofInt_toRat i
  have hloq : -(2 ^ 63 : ℚ) ≤ (i : ℚ) := by exact_mod_cast hlo
  have hhiq : (i : ℚ) < (2 ^ 63 : ℚ) := by exact_mod_cast hhi
  have ht := Dy.trunc_spec d
  rw [hI]
  simp only [cmpI64F]
  split
  · rename_i h1
    rw [ge_iff_le, Dy.cmp_nonneg_iff, Dy.ofInt_toRat] at h1
    left; refine ⟨rfl, ?_⟩
    have : ((2 ^ 63 : Int) : ℚ) = (2 ^ 63 : ℚ) := by norm_cast
    linarith
  · split
    · rename_i _ h2
      rw [Dy.cmp_neg_iff, Dy.ofInt_toRat] at h2
      right; right; refine ⟨rfl, ?_⟩
      have : ((-(2 ^ 63) : Int) : ℚ) = -(2 ^ 63 : ℚ) := by norm_cast
      linarith
    · split
      · rename_i h3
        left; refine ⟨rfl, ?_⟩
        have h3q : (i : ℚ) + 1 ≤ (d.trunc : ℚ) := by exact_mod_cast h3
        rcases le_total 0 d.toRat with h0 | h0
        · have := (ht.1 h0).1; linarith
        · have := (ht.2 h0).1; linarith
      · split
        · rename_i _ h4
          right; right; refine ⟨rfl, ?_⟩
          have h4q : (d.trunc : ℚ) + 1 ≤ (i : ℚ) := by exact_mod_cast h4
          rcases le_total 0 d.toRat with h0 | h0
          · have := (ht.1 h0).2; linarith
          · have := (ht.2 h0).2; linarith
        · rename_i h3 h4
          have hit : i = d.trunc := by omega
          split
          · rename_i h5
            rw [gt_iff_lt, Dy.cmp_pos_iff, Dy.ofInt_toRat] at h5
            left; refine ⟨rfl, ?_⟩; rw [hit]; exact h5
          · split
            · rename_i _ h6
              rw [Dy.cmp_neg_iff, Dy.ofInt_toRat] at h6
              right; right; refine ⟨rfl, ?_⟩; rw [hit]; exact h6
            · rename_i h5 h6
              rw [gt_iff_lt, Dy.cmp_pos_iff, Dy.ofInt_toRat] at h5
              rw [Dy.cmp_neg_iff, Dy.ofInt_toRat] at h6
              right; left; refine ⟨rfl, ?_⟩; rw [hit]; linarith

end Elk.Num

namespace Elk.Num

theorem cmpU64F_exact (u : Int) (hlo : 0 ≤ u) (hhi : u < 2 ^ 64) (d : Dy) :
    cmpU64F u (.fin d) = Dy.cmp (Dy.ofInt u) d := by
  symm
  apply Dy.cmp_eq_of
  have hI : (Dy.ofInt u).toRat = (u : ℚ) := Dy.ofInt_toRat u
  have hloq : (0 : ℚ) ≤ (u : ℚ) := by exact_mod_cast hlo
  have hhiq : (u : ℚ) < (2 ^ 64 : ℚ) := by exact_mod_cast hhi
  have ht := Dy.trunc_spec d
  rw [hI]
  simp only [cmpU64F]
  split
  · rename_i h1
    rw [ge_iff_le, Dy.cmp_nonneg_iff, Dy.ofInt_toRat] at h1
    left; refine ⟨rfl, ?_⟩
    have : ((2 ^ 64 : Int) : ℚ) = (2 ^ 64 : ℚ) := by norm_cast
    linarith
  · split
    · rename_i _ h2
      rw [Dy.cmp_neg_iff, Dy.ofInt_toRat] at h2
      right; right; refine ⟨rfl, ?_⟩
      have : ((0 : Int) : ℚ) = 0 := by norm_cast
      linarith
    · rename_i h1 h2
      rw [Dy.cmp_neg_iff, Dy.ofInt_toRat, not_lt] at h2
      have h0 : (0 : ℚ) ≤ d.toRat := by
        have : ((0 : Int) : ℚ) = 0 := by norm_cast
        linarith
      have htt := ht.1 h0
      split
      · rename_i h3
        left; refine ⟨rfl, ?_⟩
        have h3q : (u : ℚ) + 1 ≤ (d.trunc : ℚ) := by exact_mod_cast h3
        linarith [htt.1]
      · split
        · rename_i _ h4
          right; right; refine ⟨rfl, ?_⟩
          have h4q : (d.trunc : ℚ) + 1 ≤ (u : ℚ) := by exact_mod_cast h4
          linarith [htt.2]
        · rename_i h3 h4
          have hit : u = d.trunc := by omega
          split
          · rename_i h5
            rw [gt_iff_lt, Dy.cmp_pos_iff, Dy.ofInt_toRat] at h5
            left; refine ⟨rfl, ?_⟩; rw [hit]; exact h5
          · rename_i h5
            rw [gt_iff_lt, Dy.cmp_pos_iff, Dy.ofInt_toRat, not_lt] at h5
            right; left; refine ⟨rfl, ?_⟩; rw [hit]; linarith [htt.1]

/-! ## extended values -/

theorem Ext.cmp_none_iff (x y : Ext) : Ext.cmp x y = none ↔ x.isNaN = true ∨ y.isNaN = true := by
  cases x <;> cases y <;> simp [Ext.cmp, Ext.isNaN]

/-- the three mixed comparisons equal the exact extended comparison -/
theorem cmpI64F_ext (i : Int) (hlo : -(2 ^ 63) ≤ i) (hhi : i < 2 ^ 63) (x : Ext) (hx : x.isNaN = false) :
    some (cmpI64F i x) = Ext.cmp (.ofInt i) x := by
  cases x with
  | nan => simp [Ext.isNaN] at hx
  | ninf => simp [cmpI64F, Ext.cmp, Ext.ofInt]
  | pinf => simp [cmpI64F, Ext.cmp, Ext.ofInt]
  | fin d => simp only [Ext.cmp, Ext.ofInt]; rw [cmpI64F_exact i hlo hhi d]

theorem cmpU64F_ext (u : Int) (hlo : 0 ≤ u) (hhi : u < 2 ^ 64) (x : Ext) (hx : x.isNaN = false) :
    some (cmpU64F u x) = Ext.cmp (.ofInt u) x := by
  cases x with
  | nan => simp [Ext.isNaN] at hx
  | ninf => simp [cmpU64F, Ext.cmp, Ext.ofInt]
  | pinf => simp [cmpU64F, Ext.cmp, Ext.ofInt]
  | fin d => simp only [Ext.cmp, Ext.ofInt]; rw [cmpU64F_exact u hlo hhi d]

theorem cmpBigF_ext (i : Int) (x : Ext) (hx : x.isNaN = false) :
    some (cmpBigF i x) = Ext.cmp (.ofInt i) x := by
  cases x with
  | nan => simp [Ext.isNaN] at hx
  | ninf => simp [cmpBigF, Ext.cmp, Ext.ofInt]
  | pinf => simp [cmpBigF, Ext.cmp, Ext.ofInt]
  | fin d => simp [cmpBigF, Ext.cmp, Ext.ofInt]

/-- exact `=~` specification -/
def eqSpec (x y : Ext) : Bool := Ext.cmp x y == some 0

theorem eqI64F_spec (i : Int) (hlo : -(2 ^ 63) ≤ i) (hhi : i < 2 ^ 63) (x : Ext) :
    eqI64F i x = eqSpec (.ofInt i) x := by
  unfold eqI64F eqSpec
  cases hx : x.isNaN
  · rw [← cmpI64F_ext i hlo hhi x hx]; simp
  · cases x <;> simp [Ext.isNaN] at hx; simp [Ext.cmp, Ext.ofInt, Ext.isNaN]

theorem eqU64F_spec (u : Int) (hlo : 0 ≤ u) (hhi : u < 2 ^ 64) (x : Ext) :
    eqU64F u x = eqSpec (.ofInt u) x := by
  unfold eqU64F eqSpec
  cases hx : x.isNaN
  · rw [← cmpU64F_ext u hlo hhi x hx]; simp
  · cases x <;> simp [Ext.isNaN] at hx; simp [Ext.cmp, Ext.ofInt, Ext.isNaN]

theorem eqBigF_spec (i : Int) (x : Ext) : eqBigF i x = eqSpec (.ofInt i) x := by
  unfold eqBigF eqSpec
  cases hx : x.isNaN
  · rw [← cmpBigF_ext i x hx]; simp
  · cases x <;> simp [Ext.isNaN] at hx; simp [Ext.cmp, Ext.ofInt, Ext.isNaN]

end Elk.Num

namespace Elk.Num

theorem Dy.cmp_swap (a b : Dy) : Dy.cmp b a = -Dy.cmp a b := by
  unfold Dy.cmp Dy.numL Dy.numR
  rw [Int.min_comm b.e a.e, ← Int.sign_neg]
  congr 1; omega

theorem Ext.cmp_swap (x y : Ext) : Ext.cmp y x = (Ext.cmp x y).map (fun c => -c) := by
  cases x <;> cases y <;> simp only [Ext.cmp, Option.map] <;> first | rfl | (rename_i a b; rw [Dy.cmp_swap])

theorem eqSpec_symm (x y : Ext) : eqSpec x y = eqSpec y x := by
  unfold eqSpec
  rw [Ext.cmp_swap x y]
  cases Ext.cmp x y with
  | none => rfl
  | some c => simp

theorem Dy.cmp_ofInt (i o : Int) : Dy.cmp (Dy.ofInt i) (Dy.ofInt o) = Int.sign (i - o) := by
  simp [Dy.cmp, Dy.numL, Dy.numR, Dy.ofInt]

theorem Ext.cmp_ofInt (i o : Int) : Ext.cmp (.ofInt i) (.ofInt o) = some (Int.sign (i - o)) := by
  simp [Ext.cmp, Ext.ofInt, Dy.cmp_ofInt]

theorem eqSpec_ofInt (i o : Int) : eqSpec (.ofInt i) (.ofInt o) = (i == o) := by
  unfold eqSpec
  rw [Ext.cmp_ofInt]
  by_cases h : i = o
  · subst h; simp
  · have : Int.sign (i - o) ≠ 0 := by
      intro hs; rw [Int.sign_eq_zero_iff_zero] at hs; omega
    simp [h, this]

theorem nanGuard_spec (x y : Ext) : (!y.isNaN && Ext.cmp x y == some 0) = eqSpec x y := by
  unfold eqSpec
  cases hy : y.isNaN
  · simp
  · have : Ext.cmp x y = none := (Ext.cmp_none_iff x y).mpr (Or.inr hy)
    simp [this]

theorem nanGuard_spec' (x y : Ext) : (!x.isNaN && Ext.cmp x y == some 0) = eqSpec x y := by
  unfold eqSpec
  cases hx : x.isNaN
  · simp
  · have : Ext.cmp x y = none := (Ext.cmp_none_iff x y).mpr (Or.inl hx)
    simp [this]

theorem laxIntFloat_spec (k : IK) (v : Int) (hw : wf (.int k v) = true) (x : Ext) :
    laxIntFloat k.signed v x = eqSpec (.ofInt v) x := by
  unfold laxIntFloat
  simp only [wf, decide_eq_true_eq] at hw
  cases k <;> simp [IK.signed, IK.lo, IK.hi, IK.bits] at hw ⊢
  all_goals first
    | (apply eqI64F_spec <;> omega)
    | (apply eqU64F_spec <;> omega)

end Elk.Num

namespace Elk.Num

theorem ieeeEq_spec (x y : Ext) : ieeeEq x y = eqSpec x y := rfl

theorem wrapI64_id (x : Int) (h1 : -(2 ^ 63) ≤ x) (h2 : x < 2 ^ 63) : wrapI64 x = x := by
  unfold wrapI64; rw [Int.bmod_def]; omega

/-- int × int `=~` with the Go guards and wrapping conversions is exact equality, for in-range operands -/
theorem laxIntInt_spec (k k' : IK) (l o : Int) (hl : wf (.int k l) = true) (ho : wf (.int k' o) = true) :
    (if k.signed then
      if (k' == .u64 || k' == .ui) && o > maxI64 then false else wrapI64 l == wrapI64 o
    else if k'.signed then
      if l > maxI64 then false else wrapI64 l == wrapI64 o
    else l == o) = (l == o) := by
  simp only [wf, decide_eq_true_eq] at hl ho
  unfold wrapI64 maxI64
  simp only [Int.bmod_def]
  cases k <;> cases k' <;> simp [IK.signed, IK.lo, IK.hi, IK.bits] at hl ho ⊢ <;>
    first
    | omega
    | (rw [Bool.eq_iff_iff]
       simp only [Bool.and_eq_true, Bool.not_eq_true', decide_eq_false_iff_not, beq_iff_eq]
       split_ifs <;> omega)

end Elk.Num

namespace Elk.Num

theorem laxSiInt_spec (i : Int) (k : IK) (o : Int) (hi : wf (.si i) = true) (ho : wf (.int k o) = true) :
    laxEq (.si i) (.int k o) = (i == o) := by
  simp only [wf, decide_eq_true_eq] at hi ho
  cases k <;> simp [laxEq, wrapI64, maxI64, Int.bmod_def, IK.signed, IK.lo, IK.hi, IK.bits] at hi ho ⊢ <;>
    first
    | omega
    | (rw [Bool.eq_iff_iff]
       simp only [Bool.and_eq_true, Bool.not_eq_true', decide_eq_false_iff_not, beq_iff_eq]
       split_ifs <;> omega)
    | (intro h; split_ifs <;> omega)
    | (split_ifs <;> simp <;> omega)

theorem laxIntSi_spec (k : IK) (l o : Int) (hl : wf (.int k l) = true) (ho : wf (.si o) = true) :
    (if k.signed = true then wrapI64 l == wrapI64 o else if l > maxI64 then false else wrapI64 l == wrapI64 o)
      = (l == o) := by
  simp only [wf, decide_eq_true_eq] at hl ho
  unfold wrapI64 maxI64
  simp only [Int.bmod_def]
  cases k <;> simp [IK.signed, IK.lo, IK.hi, IK.bits] at hl ho ⊢ <;>
    first
    | omega
    | (rw [Bool.eq_iff_iff]
       simp only [Bool.and_eq_true, Bool.not_eq_true', decide_eq_false_iff_not, beq_iff_eq, Bool.false_eq_true, false_iff]
       split_ifs <;> omega)
    | (intro h; split_ifs <;> omega)
    | (split_ifs <;> simp <;> omega)

theorem wf_si {v : Int} (h : wf (.si v) = true) : -(2 ^ 63) ≤ v ∧ v < 2 ^ 63 := by
  simpa [wf] using h

/-- **`=~` is exact**: for operands satisfying the representation invariants, `laxEq` holds iff neither is NaN
and their exact values are equal -/
theorem laxEq_spec (a b : Num) (ha : wf a = true) (hb : wf b = true) :
    laxEq a b = eqSpec a.ext b.ext := by
  cases a <;> cases b
  case si.int => simp only [Num.ext]; rw [eqSpec_ofInt]; exact laxSiInt_spec _ _ _ ha hb
  all_goals simp only [laxEq, Num.ext, ieeeEq_spec]
  all_goals first
    | rfl
    | exact (eqSpec_ofInt _ _).symm
    | exact nanGuard_spec _ _
    | exact nanGuard_spec' _ _
    | exact eqBigF_spec _ _
    | (rw [eqSpec_symm]; exact eqBigF_spec _ _)
    | exact laxIntFloat_spec _ _ ha _
    | (rw [eqSpec_symm]; exact laxIntFloat_spec _ _ hb _)
    | (have h := wf_si ha; apply eqI64F_spec <;> omega)
    | (have h := wf_si hb; rw [eqSpec_symm]; apply eqI64F_spec <;> omega)
    | (rw [eqSpec_ofInt]; exact laxIntInt_spec _ _ _ _ ha hb)
    | (rw [eqSpec_ofInt]; exact laxIntSi_spec _ _ _ ha hb)

end Elk.Num

namespace Elk.Num

/-- classes of mutually comparable kinds: {SmallInt, BigInt, Float, BigFloat}, and each sized kind alone -/
def ordClass : Num → Nat
  | .si _ | .bi _ | .f _ | .bf _ => 0
  | .f64 _ => 1
  | .f32 _ => 2
  | .int k _ => 3 + (match k with
      | .i64 => 0 | .i32 => 1 | .i16 => 2 | .i8 => 3 | .u64 => 4 | .u32 => 5 | .u16 => 6 | .u8 => 7 | .ui => 8)

theorem nanIf_spec_I64 (i : Int) (hlo : -(2 ^ 63) ≤ i) (hhi : i < 2 ^ 63) (x : Ext) :
    (if x.isNaN = true then none else some (cmpI64F i x)) = Ext.cmp (.ofInt i) x := by
  cases hx : x.isNaN
  · simp; exact cmpI64F_ext i hlo hhi x hx
  · simp; exact ((Ext.cmp_none_iff _ _).mpr (Or.inr hx)).symm

theorem nanIf_spec_Big (i : Int) (x : Ext) :
    (if x.isNaN = true then none else some (cmpBigF i x)) = Ext.cmp (.ofInt i) x := by
  cases hx : x.isNaN
  · simp; exact cmpBigF_ext i x hx
  · simp; exact ((Ext.cmp_none_iff _ _).mpr (Or.inr hx)).symm

theorem nanIf_spec_I64' (i : Int) (hlo : -(2 ^ 63) ≤ i) (hhi : i < 2 ^ 63) (x : Ext) :
    (if x.isNaN = true then none else some (-(cmpI64F i x))) = Ext.cmp x (.ofInt i) := by
  rw [Ext.cmp_swap (.ofInt i) x, ← nanIf_spec_I64 i hlo hhi x]
  cases x.isNaN <;> simp

theorem nanIf_spec_Big' (i : Int) (x : Ext) :
    (if x.isNaN = true then none else some (-(cmpBigF i x))) = Ext.cmp x (.ofInt i) := by
  rw [Ext.cmp_swap (.ofInt i) x, ← nanIf_spec_Big i x]
  cases x.isNaN <;> simp

/-- **`<=>` is exact**: whenever it is defined it is the exact comparison of the values -/
theorem compareVal_spec (a b : Num) (ha : wf a = true) (hb : wf b = true) :
    compareVal a b = (if ordClass a = ordClass b then .ok (Ext.cmp a.ext b.ext) else .err) := by
  cases a <;> cases b <;> simp only [compareVal, Num.ext, ordClass]
  all_goals first
    | rfl
    | (simp [Ext.cmp_ofInt]; done)
    | (have h := wf_si ha; rw [if_pos trivial]; congr 1; apply nanIf_spec_I64 <;> omega)
    | (have h := wf_si hb; rw [if_pos trivial]; congr 1; apply nanIf_spec_I64' <;> omega)
    | (rw [if_pos trivial]; congr 1; exact nanIf_spec_Big _ _)
    | (rw [if_pos trivial]; congr 1; exact nanIf_spec_Big' _ _)
    | (rename_i k _ <;> cases k <;> simp; done)
    | (rename_i k _ _ <;> cases k <;> simp; done)
    | (rename_i k _ k' _; cases k <;> cases k' <;> simp [Ext.cmp_ofInt]; done)
    | skip

end Elk.Num

namespace Elk.Num

/-! ## denotation in ℚ ∪ {±∞} (NaN apart) -/

inductive EV
  | nan
  | ninf
  | fin (q : ℚ)
  | pinf

noncomputable def Ext.val : Ext → EV
  | .nan => .nan
  | .ninf => .ninf
  | .fin d => .fin d.toRat
  | .pinf => .pinf

/-- the strict order of ℚ ∪ {±∞}; NaN is related to nothing -/
def EV.lt : EV → EV → Prop
  | .ninf, .fin _ | .ninf, .pinf | .fin _, .pinf => True
  | .fin a, .fin b => a < b
  | _, _ => False

def EV.isNaN : EV → Prop
  | .nan => True
  | _ => False

theorem EV.lt_trans {a b c : EV} (h1 : EV.lt a b) (h2 : EV.lt b c) : EV.lt a c := by
  cases a <;> cases b <;> cases c <;> simp [EV.lt] at * <;> linarith

theorem EV.lt_irrefl (a : EV) : ¬ EV.lt a a := by
  cases a <;> simp [EV.lt]

theorem EV.lt_asymm {a b : EV} (h : EV.lt a b) : ¬ EV.lt b a := by
  cases a <;> cases b <;> simp [EV.lt] at * <;> linarith

theorem EV.trichotomy (a b : EV) (ha : ¬ a.isNaN) (hb : ¬ b.isNaN) : EV.lt a b ∨ a = b ∨ EV.lt b a := by
  cases a <;> cases b <;> simp [EV.lt, EV.isNaN] at *
  exact lt_trichotomy _ _

theorem Ext.val_nan_iff (x : Ext) : x.val.isNaN ↔ x.isNaN = true := by
  cases x <;> simp [Ext.val, EV.isNaN, Ext.isNaN]

/-- the exact comparison computes the order of the denotations -/
theorem Ext.cmp_sound (x y : Ext) (c : Int) (h : Ext.cmp x y = some c) :
    (c = -1 ∨ c = 0 ∨ c = 1) ∧ (c < 0 ↔ EV.lt x.val y.val) ∧ (c = 0 ↔ x.val = y.val) ∧
      (0 < c ↔ EV.lt y.val x.val) := by
  cases x <;> cases y <;> simp [Ext.cmp] at h <;> try subst h
  all_goals try (simp [Ext.val, EV.lt]; done)
  rename_i a b
  refine ⟨Dy.cmp_range a b, ?_, ?_, ?_⟩
  · simpa [Ext.val, EV.lt] using Dy.cmp_neg_iff a b
  · simpa [Ext.val] using Dy.cmp_zero_iff a b
  · simpa [Ext.val, EV.lt] using Dy.cmp_pos_iff a b

theorem Ext.cmp_some_of_not_nan (x y : Ext) (hx : x.isNaN = false) (hy : y.isNaN = false) :
    ∃ c, Ext.cmp x y = some c := by
  cases h : Ext.cmp x y with
  | some c => exact ⟨c, rfl⟩
  | none => rw [Ext.cmp_none_iff] at h; rcases h with h | h <;> simp_all

end Elk.Num

namespace Elk.Num

theorem Dy.cmp_self (a : Dy) : Dy.cmp a a = 0 := by
  simp [Dy.cmp, Dy.numL, Dy.numR]

theorem eqSpec_self (x : Ext) (h : x.isNaN = false) : eqSpec x x = true := by
  cases x <;> simp [eqSpec, Ext.cmp, Ext.isNaN, Dy.cmp_self] at *

theorem sameClass_symm (a b : Num) : sameClass a b = sameClass b a := by
  cases a <;> cases b <;> simp only [sameClass] <;> (rename_i k _ k' _; cases k <;> cases k' <;> rfl)

theorem strictEq_symm (a b : Num) : strictEq a b = strictEq b a := by
  cases a <;> cases b <;> simp only [strictEq, ieeeEq_spec]
  all_goals first
    | rfl
    | exact eqSpec_symm _ _
    | (rw [Bool.eq_iff_iff]; simp only [beq_iff_eq, Bool.and_eq_true]; constructor <;> intro h <;> first | exact h.symm | exact ⟨h.1.symm, h.2.symm⟩)

/-- `==` is symmetric over all kind pairs (no invariant needed) -/
theorem eqVal_symm (a b : Num) : eqVal a b = eqVal b a := by
  unfold eqVal; rw [sameClass_symm, strictEq_symm]

/-- `==` is reflexive except for NaN -/
theorem eqVal_refl (a : Num) (h : a.isNaN = false) : eqVal a a = true := by
  cases a <;> simp [eqVal, sameClass, strictEq, ieeeEq_spec] <;>
    exact eqSpec_self _ (by simpa [Num.isNaN, Num.ext] using h)

theorem strictEq_imp_sameClass (a b : Num) (h : strictEq a b = true) : sameClass a b = true := by
  cases a <;> cases b <;> simp [strictEq, sameClass] at * <;> exact h.1

/-- `===` and `==` coincide on numbers -/
theorem strictEq_eq_eqVal (a b : Num) : strictEq a b = eqVal a b := by
  unfold eqVal
  cases h : strictEq a b
  · simp
  · simp [strictEq_imp_sameClass a b h]

/-- `==` implies exact equality of the values (hence `=~`) -/
theorem eqVal_imp_eqSpec (a b : Num) (h : eqVal a b = true) : eqSpec a.ext b.ext = true := by
  unfold eqVal at h
  cases a <;> cases b <;> simp [sameClass, strictEq, ieeeEq_spec, Num.ext] at h ⊢
  all_goals first
    | exact h
    | (rw [eqSpec_ofInt]; simpa using h)
    | (rw [eqSpec_ofInt]; simpa using h.2)
    | (rw [eqSpec_ofInt]; simp [h.2])

end Elk.Num

namespace Elk.Num

/-- a normalised binary floating-point representation is unique: `P` fraction bits, minimal exponent `emin` -/
theorem normal_unique (P : Nat) (emin : Int) (m1 m2 : Nat) (e1 e2 : Int) (s1 s2 : Bool)
    (hm1 : m1 < 2 ^ (P + 1)) (hm2 : m2 < 2 ^ (P + 1)) (he1 : emin ≤ e1) (he2 : emin ≤ e2)
    (hn1 : emin < e1 → 2 ^ P ≤ m1) (hn2 : emin < e2 → 2 ^ P ≤ m2)
    (h : Dy.cmp ⟨if s1 then -(m1 : Int) else m1, e1⟩ ⟨if s2 then -(m2 : Int) else m2, e2⟩ = 0) :
    (m1 = 0 ∧ m2 = 0) ∨ (s1 = s2 ∧ m1 = m2 ∧ e1 = e2) := by
  unfold Dy.cmp at h
  rw [Int.sign_eq_zero_iff_zero] at h
  unfold Dy.numL Dy.numR at h
  simp only at h
  have hpow : (2 : Nat) ^ (P + 1) = 2 ^ P * 2 := by rw [Nat.pow_succ]
  rcases Int.le_total e1 e2 with hle | hle
  · rw [Int.min_eq_left hle] at h
    have h0 : (e1 - e1).toNat = 0 := by omega
    rw [h0] at h
    by_cases ht : e2 = e1
    · subst ht
      rw [h0] at h
      cases s1 <;> cases s2 <;> simp at h ⊢ <;> omega
    · have hlt : emin < e2 := by omega
      have hm2' := hn2 hlt
      obtain ⟨t, ht'⟩ : ∃ t : Nat, (e2 - e1).toNat = t + 1 := ⟨(e2 - e1).toNat - 1, by omega⟩
      rw [ht'] at h
      have hT : 2 ≤ 2 ^ (t + 1) := by
        calc 2 = 2 ^ 1 := by norm_num
          _ ≤ 2 ^ (t + 1) := Nat.pow_le_pow_right (by norm_num) (by omega)
      have hprod : 2 ^ P * 2 ≤ m2 * 2 ^ (t + 1) := Nat.mul_le_mul hm2' hT
      have hcast : ((m2 * 2 ^ (t + 1) : Nat) : Int) = (m2 : Int) * 2 ^ (t + 1) := by push_cast; ring
      generalize hY : m2 * 2 ^ (t + 1) = Y at hprod hcast
      exfalso
      cases s1 <;> cases s2 <;> simp at h ⊢ <;> omega
  · rw [Int.min_eq_right hle] at h
    have h0 : (e2 - e2).toNat = 0 := by omega
    rw [h0] at h
    by_cases ht : e1 = e2
    · subst ht
      rw [h0] at h
      cases s1 <;> cases s2 <;> simp at h ⊢ <;> omega
    · have hlt : emin < e1 := by omega
      have hm1' := hn1 hlt
      obtain ⟨t, ht'⟩ : ∃ t : Nat, (e1 - e2).toNat = t + 1 := ⟨(e1 - e2).toNat - 1, by omega⟩
      rw [ht'] at h
      have hT : 2 ≤ 2 ^ (t + 1) := by
        calc 2 = 2 ^ 1 := by norm_num
          _ ≤ 2 ^ (t + 1) := Nat.pow_le_pow_right (by norm_num) (by omega)
      have hprod : 2 ^ P * 2 ≤ m1 * 2 ^ (t + 1) := Nat.mul_le_mul hm1' hT
      have hcast : ((m1 * 2 ^ (t + 1) : Nat) : Int) = (m1 : Int) * 2 ^ (t + 1) := by push_cast; ring
      generalize hY : m1 * 2 ^ (t + 1) = Y at hprod hcast
      exfalso
      cases s1 <;> cases s2 <;> simp at h ⊢ <;> omega

end Elk.Num

namespace Elk.Num

theorem eqSpec_fin (a b : Dy) : eqSpec (.fin a) (.fin b) = true ↔ Dy.cmp a b = 0 := by
  simp [eqSpec, Ext.cmp]

def enc64 (s : Bool) (m : Nat) (e : Int) : Nat :=
  (if s then 2 ^ 63 else 0) + (if m < 2 ^ 52 then 0 else (e + 1075).toNat) * 2 ^ 52 + m % 2 ^ 52

theorem decode64_cases (b : Nat) (hb : b < 2 ^ 64) :
    decode64 b = .nan ∨ (decode64 b = .pinf ∧ b = 0x7FF0000000000000) ∨
    (decode64 b = .ninf ∧ b = 0xFFF0000000000000) ∨
    ∃ (s : Bool) (m : Nat) (e : Int), decode64 b = .fin ⟨if s then -(m : Int) else m, e⟩ ∧ m < 2 ^ (52 + 1) ∧
      -1074 ≤ e ∧ (-1074 < e → 2 ^ 52 ≤ m) ∧ (m = 0 → b % 2 ^ 63 = 0) ∧ b = enc64 s m e := by
  by_cases hx : b / 2 ^ 52 % 2 ^ 11 = 2047
  · by_cases hf : b % 2 ^ 52 = 0
    · by_cases hs : b / 2 ^ 63 % 2 = 1
      · right; right; left
        refine ⟨by simp only [decode64, hx, hf, hs]; simp, by omega⟩
      · right; left
        have hs0 : b / 2 ^ 63 % 2 = 0 := by omega
        refine ⟨by simp only [decode64, hx, hf, hs0]; simp, by omega⟩
    · left; simp only [decode64, hx, hf]; simp
  · right; right; right
    have hsb : ((b / 2 ^ 63 % 2 == 1) = true ∧ b / 2 ^ 63 % 2 = 1) ∨
        ((b / 2 ^ 63 % 2 == 1) = false ∧ b / 2 ^ 63 % 2 = 0) := by
      rcases (show b / 2 ^ 63 % 2 = 1 ∨ b / 2 ^ 63 % 2 = 0 by omega) with hs | hs
      · left; exact ⟨by rw [hs]; rfl, hs⟩
      · right; exact ⟨by rw [hs]; rfl, hs⟩
    by_cases h0 : b / 2 ^ 52 % 2 ^ 11 = 0
    · refine ⟨b / 2 ^ 63 % 2 == 1, b % 2 ^ 52, -1074, ?_, by omega, by omega, by omega, by omega, ?_⟩
      · simp only [decode64, hx, h0, if_true, if_false]
        rcases hsb with ⟨hs, _⟩ | ⟨hs, _⟩ <;> rw [hs] <;> simp
      · unfold enc64
        have hlt : b % 2 ^ 52 < 2 ^ 52 := Nat.mod_lt _ (by norm_num)
        rw [if_pos hlt]
        rcases hsb with ⟨hs, hs'⟩ | ⟨hs, hs'⟩ <;> rw [hs] <;> simp only [if_true, Bool.false_eq_true, if_false] <;> omega
    · refine ⟨b / 2 ^ 63 % 2 == 1, 2 ^ 52 + b % 2 ^ 52, ((b / 2 ^ 52 % 2 ^ 11 : Nat) : Int) - 1075, ?_,
        by omega, by omega, by omega, by omega, ?_⟩
      · simp only [decode64, hx, h0, if_true, if_false]
        rcases hsb with ⟨hs, _⟩ | ⟨hs, _⟩ <;> rw [hs] <;> simp
      · unfold enc64
        have hlt : ¬ (2 ^ 52 + b % 2 ^ 52 < 2 ^ 52) := by omega
        rw [if_neg hlt]
        rcases hsb with ⟨hs, hs'⟩ | ⟨hs, hs'⟩ <;> rw [hs] <;> simp only [if_true, Bool.false_eq_true, if_false] <;> omega

/-- IEEE `==` on two binary64 patterns holds only for identical patterns or two zeros -/
theorem decode64_eq_imp (b1 b2 : Nat) (h1 : b1 < 2 ^ 64) (h2 : b2 < 2 ^ 64)
    (h : eqSpec (decode64 b1) (decode64 b2) = true) : normZero 63 b1 = normZero 63 b2 := by
  rcases decode64_cases b1 h1 with n1 | ⟨p1, q1⟩ | ⟨p1, q1⟩ | ⟨s1, m1, e1, d1, hm1, he1, hn1, hz1, hb1⟩ <;>
  rcases decode64_cases b2 h2 with n2 | ⟨p2, q2⟩ | ⟨p2, q2⟩ | ⟨s2, m2, e2, d2, hm2, he2, hn2, hz2, hb2⟩
  all_goals first
    | (rw [n1] at h; simp [eqSpec, Ext.cmp] at h; done)
    | (rw [n2] at h; cases hd : decode64 b1 <;> simp [hd, eqSpec, Ext.cmp] at h; done)
    | (rw [q1, q2]; done)
    | (rw [p1, p2] at h; simp [eqSpec, Ext.cmp] at h; done)
    | (rw [p1, d2] at h; simp [eqSpec, Ext.cmp] at h; done)
    | (rw [d1, p2] at h; simp [eqSpec, Ext.cmp] at h; done)
    | skip
  rw [d1, d2, eqSpec_fin] at h
  rcases normal_unique 52 (-1074) m1 m2 e1 e2 s1 s2 hm1 hm2 he1 he2 hn1 hn2 h with ⟨z1, z2⟩ | ⟨hs, hm, he⟩
  · unfold normZero; rw [if_pos (hz1 z1), if_pos (hz2 z2)]
  · rw [hb1, hb2, hs, hm, he]

def enc32 (s : Bool) (m : Nat) (e : Int) : Nat :=
  (if s then 2 ^ 31 else 0) + (if m < 2 ^ 23 then 0 else (e + 150).toNat) * 2 ^ 23 + m % 2 ^ 23

theorem decode32_cases (b : Nat) (hb : b < 2 ^ 32) :
    decode32 b = .nan ∨ (decode32 b = .pinf ∧ b = 0x7F800000) ∨
    (decode32 b = .ninf ∧ b = 0xFF800000) ∨
    ∃ (s : Bool) (m : Nat) (e : Int), decode32 b = .fin ⟨if s then -(m : Int) else m, e⟩ ∧ m < 2 ^ (23 + 1) ∧
      -149 ≤ e ∧ (-149 < e → 2 ^ 23 ≤ m) ∧ (m = 0 → b % 2 ^ 31 = 0) ∧ b = enc32 s m e := by
  by_cases hx : b / 2 ^ 23 % 2 ^ 8 = 255
  · by_cases hf : b % 2 ^ 23 = 0
    · by_cases hs : b / 2 ^ 31 % 2 = 1
      · right; right; left
        refine ⟨by simp only [decode32, hx, hf, hs]; simp, by omega⟩
      · right; left
        have hs0 : b / 2 ^ 31 % 2 = 0 := by omega
        refine ⟨by simp only [decode32, hx, hf, hs0]; simp, by omega⟩
    · left; simp only [decode32, hx, hf]; simp
  · right; right; right
    have hsb : ((b / 2 ^ 31 % 2 == 1) = true ∧ b / 2 ^ 31 % 2 = 1) ∨
        ((b / 2 ^ 31 % 2 == 1) = false ∧ b / 2 ^ 31 % 2 = 0) := by
      rcases (show b / 2 ^ 31 % 2 = 1 ∨ b / 2 ^ 31 % 2 = 0 by omega) with hs | hs
      · left; exact ⟨by rw [hs]; rfl, hs⟩
      · right; exact ⟨by rw [hs]; rfl, hs⟩
    by_cases h0 : b / 2 ^ 23 % 2 ^ 8 = 0
    · refine ⟨b / 2 ^ 31 % 2 == 1, b % 2 ^ 23, -149, ?_, by omega, by omega, by omega, by omega, ?_⟩
      · simp only [decode32, hx, h0, if_true, if_false]
        rcases hsb with ⟨hs, _⟩ | ⟨hs, _⟩ <;> rw [hs] <;> simp
      · unfold enc32
        have hlt : b % 2 ^ 23 < 2 ^ 23 := Nat.mod_lt _ (by norm_num)
        rw [if_pos hlt]
        rcases hsb with ⟨hs, hs'⟩ | ⟨hs, hs'⟩ <;> rw [hs] <;> simp only [if_true, Bool.false_eq_true, if_false] <;> omega
    · refine ⟨b / 2 ^ 31 % 2 == 1, 2 ^ 23 + b % 2 ^ 23, ((b / 2 ^ 23 % 2 ^ 8 : Nat) : Int) - 150, ?_,
        by omega, by omega, by omega, by omega, ?_⟩
      · simp only [decode32, hx, h0, if_true, if_false]
        rcases hsb with ⟨hs, _⟩ | ⟨hs, _⟩ <;> rw [hs] <;> simp
      · unfold enc32
        have hlt : ¬ (2 ^ 23 + b % 2 ^ 23 < 2 ^ 23) := by omega
        rw [if_neg hlt]
        rcases hsb with ⟨hs, hs'⟩ | ⟨hs, hs'⟩ <;> rw [hs] <;> simp only [if_true, Bool.false_eq_true, if_false] <;> omega

/-- IEEE `==` on two binary32 patterns holds only for identical patterns or two zeros -/
theorem decode32_eq_imp (b1 b2 : Nat) (h1 : b1 < 2 ^ 32) (h2 : b2 < 2 ^ 32)
    (h : eqSpec (decode32 b1) (decode32 b2) = true) : normZero 31 b1 = normZero 31 b2 := by
  rcases decode32_cases b1 h1 with n1 | ⟨p1, q1⟩ | ⟨p1, q1⟩ | ⟨s1, m1, e1, d1, hm1, he1, hn1, hz1, hb1⟩ <;>
  rcases decode32_cases b2 h2 with n2 | ⟨p2, q2⟩ | ⟨p2, q2⟩ | ⟨s2, m2, e2, d2, hm2, he2, hn2, hz2, hb2⟩
  all_goals first
    | (rw [n1] at h; simp [eqSpec, Ext.cmp] at h; done)
    | (rw [n2] at h; cases hd : decode32 b1 <;> simp [hd, eqSpec, Ext.cmp] at h; done)
    | (rw [q1, q2]; done)
    | (rw [p1, p2] at h; simp [eqSpec, Ext.cmp] at h; done)
    | (rw [p1, d2] at h; simp [eqSpec, Ext.cmp] at h; done)
    | (rw [d1, p2] at h; simp [eqSpec, Ext.cmp] at h; done)
    | skip
  rw [d1, d2, eqSpec_fin] at h
  rcases normal_unique 23 (-149) m1 m2 e1 e2 s1 s2 hm1 hm2 he1 he2 hn1 hn2 h with ⟨z1, z2⟩ | ⟨hs, hm, he⟩
  · unfold normZero; rw [if_pos (hz1 z1), if_pos (hz2 z2)]
  · rw [hb1, hb2, hs, hm, he]

end Elk.Num

namespace Elk.Num

theorem stripTwos_spec (fuel : Nat) : ∀ (m : Nat) (e : Int), m ≠ 0 → m < 2 ^ fuel →
    (stripTwos fuel m e).1 % 2 = 1 ∧ ∃ k : Nat, m = (stripTwos fuel m e).1 * 2 ^ k ∧ (stripTwos fuel m e).2 = e + k := by
  induction fuel with
  | zero => intro m e h0 hlt; simp at hlt; omega
  | succ n ih =>
    intro m e h0 hlt
    unfold stripTwos
    by_cases hev : m % 2 = 0
    · have hc : m % 2 = 0 ∧ m ≠ 0 := ⟨hev, h0⟩
      rw [if_pos hc]
      have h0' : m / 2 ≠ 0 := by omega
      have hlt' : m / 2 < 2 ^ n := by rw [Nat.pow_succ] at hlt; omega
      obtain ⟨hodd, k, hk, hek⟩ := ih (m / 2) (e + 1) h0' hlt'
      refine ⟨hodd, k + 1, ?_, ?_⟩
      · rw [Nat.pow_succ, ← Nat.mul_assoc, ← hk]; omega
      · rw [hek]; push_cast; omega
    · have hc : ¬ (m % 2 = 0 ∧ m ≠ 0) := fun h => hev h.1
      rw [if_neg hc]
      exact ⟨by omega, 0, by simp, by simp⟩

theorem odd_pow_unique (a b i j : Nat) (ha : a % 2 = 1) (hb : b % 2 = 1) (h : a * 2 ^ i = b * 2 ^ j) :
    a = b ∧ i = j := by
  rcases Nat.le_total i j with hij | hij
  · obtain ⟨d, rfl⟩ := Nat.exists_eq_add_of_le hij
    rw [Nat.pow_add, ← Nat.mul_assoc] at h
    have h2 : a = b * 2 ^ d := Nat.eq_of_mul_eq_mul_right (Nat.two_pow_pos i) (by rw [h]; ring)
    cases d with
    | zero => simp at h2; exact ⟨h2, rfl⟩
    | succ d => exfalso; rw [Nat.pow_succ, ← Nat.mul_assoc] at h2; omega
  · obtain ⟨d, rfl⟩ := Nat.exists_eq_add_of_le hij
    rw [Nat.pow_add, ← Nat.mul_assoc] at h
    have h2 : a * 2 ^ d = b := Nat.eq_of_mul_eq_mul_right (Nat.two_pow_pos j) (by rw [← h]; ring)
    cases d with
    | zero => simp at h2; exact ⟨h2, rfl⟩
    | succ d => exfalso; rw [Nat.pow_succ, ← Nat.mul_assoc] at h2; omega

end Elk.Num

namespace Elk.Num

theorem canon_of_eq (n1 n2 : Bool) (m1 m2 : Nat) (e1 e2 : Int) (h1 : m1 ≠ 0)
    (h : Dy.cmp ⟨if n1 then -(m1 : Int) else m1, e1⟩ ⟨if n2 then -(m2 : Int) else m2, e2⟩ = 0) :
    m2 ≠ 0 ∧ BF.canon n1 m1 e1 = BF.canon n2 m2 e2 := by
  unfold Dy.cmp at h
  rw [Int.sign_eq_zero_iff_zero] at h
  unfold Dy.numL Dy.numR at h
  simp only at h
  generalize hi : (e1 - min e1 e2).toNat = i at h
  generalize hj : (e2 - min e1 e2).toNat = j at h
  have hij : (i : Int) - j = e1 - e2 := by omega
  have hp1 : ((m1 * 2 ^ i : Nat) : Int) = (m1 : Int) * 2 ^ i := by push_cast; ring
  have hp2 : ((m2 * 2 ^ j : Nat) : Int) = (m2 : Int) * 2 ^ j := by push_cast; ring
  have hne1 : m1 * 2 ^ i ≠ 0 := Nat.mul_ne_zero h1 (Nat.pos_iff_ne_zero.mp (Nat.two_pow_pos i))
  have hnat : n1 = n2 ∧ m1 * 2 ^ i = m2 * 2 ^ j := by
    cases n1 <;> cases n2 <;> simp only [Bool.false_eq_true, if_false, if_true, neg_mul] at h
    · exact ⟨rfl, by have : ((m1 * 2 ^ i : Nat) : Int) = ((m2 * 2 ^ j : Nat) : Int) := by rw [hp1, hp2]; omega
                     exact_mod_cast this⟩
    · exfalso
      have : ((m1 * 2 ^ i : Nat) : Int) = -((m2 * 2 ^ j : Nat) : Int) := by rw [hp1, hp2]; omega
      omega
    · exfalso
      have : ((m1 * 2 ^ i : Nat) : Int) = -((m2 * 2 ^ j : Nat) : Int) := by rw [hp1, hp2]; omega
      omega
    · exact ⟨rfl, by have : ((m1 * 2 ^ i : Nat) : Int) = ((m2 * 2 ^ j : Nat) : Int) := by rw [hp1, hp2]; omega
                     exact_mod_cast this⟩
  obtain ⟨hn, hm⟩ := hnat
  have h2 : m2 ≠ 0 := by
    intro hz; rw [hz] at hm; simp at hm; omega
  refine ⟨h2, ?_⟩
  have hl1 : m1 < 2 ^ (m1 + 1) := Nat.lt_trans Nat.lt_two_pow_self (Nat.pow_lt_pow_right (by norm_num) (by omega))
  have hl2 : m2 < 2 ^ (m2 + 1) := Nat.lt_trans Nat.lt_two_pow_self (Nat.pow_lt_pow_right (by norm_num) (by omega))
  obtain ⟨ho1, k1, hk1, hke1⟩ := stripTwos_spec (m1 + 1) m1 e1 h1 hl1
  obtain ⟨ho2, k2, hk2, hke2⟩ := stripTwos_spec (m2 + 1) m2 e2 h2 hl2
  have hprod : (stripTwos (m1 + 1) m1 e1).1 * 2 ^ (k1 + i) = (stripTwos (m2 + 1) m2 e2).1 * 2 ^ (k2 + j) := by
    rw [Nat.pow_add, Nat.pow_add, ← Nat.mul_assoc, ← Nat.mul_assoc, ← hk1, ← hk2]; exact hm
  obtain ⟨hab, hkk⟩ := odd_pow_unique _ _ _ _ ho1 ho2 hprod
  unfold BF.canon
  have hfst : (stripTwos (m1 + 1) m1 e1) = (stripTwos (m2 + 1) m2 e2) := by
    apply Prod.ext hab
    rw [hke1, hke2]; omega
  simp only [hn, hfst]

end Elk.Num

namespace Elk.Num

theorem bfText_of_canon (n1 n2 : Bool) (m1 m2 : Nat) (e1 e2 : Int)
    (h : BF.canon n1 m1 e1 = BF.canon n2 m2 e2) : bfText n1 m1 e1 = bfText n2 m2 e2 := by
  have hn : n1 = n2 := by
    have := congrArg Prod.fst h
    simpa [BF.canon] using this
  unfold bfText
  rw [h, hn]

/-- equal BigFloats (precision apart) write the same text into the hash -/
theorem bf_hash_of_eq (x o : BF) (h : eqSpec x.ext o.ext = true) : x.hashText = o.hashText := by
  cases x with
  | nan => simp [BF.ext, eqSpec, Ext.cmp] at h
  | inf n1 =>
    cases o with
    | nan => cases n1 <;> simp [BF.ext, eqSpec, Ext.cmp] at h
    | inf n2 => cases n1 <;> cases n2 <;> simp [BF.ext, eqSpec, Ext.cmp] at h ⊢
    | fin p2 n2 m2 e2 => cases n1 <;> simp [BF.ext, eqSpec, Ext.cmp] at h
  | fin p1 n1 m1 e1 =>
    cases o with
    | nan => simp [BF.ext, eqSpec, Ext.cmp] at h
    | inf n2 => cases n2 <;> simp [BF.ext, eqSpec, Ext.cmp] at h
    | fin p2 n2 m2 e2 =>
      simp only [BF.ext] at h
      rw [eqSpec_fin] at h
      simp only [BF.hashText]
      by_cases hz : m1 = 0
      · subst hz
        have hz2 : m2 = 0 := by
          by_contra hne
          have h' : Dy.cmp ⟨if n2 then -(m2 : Int) else m2, e2⟩ ⟨if n1 then -((0 : Nat) : Int) else (0 : Nat), e1⟩ = 0 := by
            rw [Dy.cmp_swap, h]; rfl
          exact (canon_of_eq n2 n1 m2 0 e2 e1 hne h').1 rfl
        simp [hz2]
      · obtain ⟨h2, hc⟩ := canon_of_eq n1 n2 m1 m2 e1 e2 hz h
        simp only [hz, h2, if_false]
        exact bfText_of_canon _ _ _ _ _ _ hc

/-- **equal numbers hash alike** (the byte streams given to xxhash are equal) -/
theorem hash_of_eq (a b : Num) (ha : wf a = true) (hb : wf b = true) (h : eqVal a b = true) :
    hashBytes a = hashBytes b := by
  unfold eqVal at h
  cases a <;> cases b <;> simp [sameClass, strictEq, ieeeEq_spec] at h
  case si.si => rw [h]
  case si.bi => simp [wf] at ha hb; omega
  case bi.si => simp [wf] at ha hb; omega
  case bi.bi => rw [h]
  case f.f x o => simp only [hashBytes]; rw [decode64_eq_imp x o (by simpa [wf] using ha) (by simpa [wf] using hb) h]
  case f64.f64 x o => simp only [hashBytes]; rw [decode64_eq_imp x o (by simpa [wf] using ha) (by simpa [wf] using hb) h]
  case f32.f32 x o => simp only [hashBytes]; rw [decode32_eq_imp x o (by simpa [wf] using ha) (by simpa [wf] using hb) h]
  case bf.bf x o => simp only [hashBytes]; rw [bf_hash_of_eq x o h]
  case int.int k i k' o => rw [h.1, h.2]

end Elk.Num

namespace Elk.Num

noncomputable def Num.val (a : Num) : EV := a.ext.val

theorem rel_eq (op : Ord5) (a b : Num) (ha : wf a = true) (hb : wf b = true) (hc : ordClass a = ordClass b) :
    rel op a b = .ok (match Ext.cmp a.ext b.ext with | some c => op.test c | none => false) := by
  unfold rel
  rw [compareVal_spec a b ha hb, if_pos hc]
  cases Ext.cmp a.ext b.ext <;> rfl

theorem rel_err (op : Ord5) (a b : Num) (ha : wf a = true) (hb : wf b = true) (hc : ordClass a ≠ ordClass b) :
    rel op a b = .err := by
  unfold rel
  rw [compareVal_spec a b ha hb, if_neg hc]

theorem EV.lt_nan_left (y : EV) : ¬ EV.lt .nan y := by cases y <;> simp [EV.lt]
theorem EV.lt_nan_right (x : EV) : ¬ EV.lt x .nan := by cases x <;> simp [EV.lt]

theorem Ext.not_lt_of_cmp_none (x y : Ext) (h : Ext.cmp x y = none) : ¬ EV.lt x.val y.val ∧ ¬ EV.lt y.val x.val := by
  rw [Ext.cmp_none_iff] at h
  rcases h with h | h
  · cases x <;> simp [Ext.isNaN] at h
    exact ⟨EV.lt_nan_left _, EV.lt_nan_right _⟩
  · cases y <;> simp [Ext.isNaN] at h
    exact ⟨EV.lt_nan_right _, EV.lt_nan_left _⟩

theorem lt_iff (a b : Num) (ha : wf a = true) (hb : wf b = true) (hc : ordClass a = ordClass b) :
    rel .lt a b = .ok true ↔ EV.lt a.val b.val := by
  rw [rel_eq .lt a b ha hb hc]
  cases h : Ext.cmp a.ext b.ext with
  | none => simp; exact (Ext.not_lt_of_cmp_none _ _ h).1
  | some c =>
    have := (Ext.cmp_sound _ _ c h).2.1
    simp [Ord5.test, Num.val]; exact this

theorem gt_iff (a b : Num) (ha : wf a = true) (hb : wf b = true) (hc : ordClass a = ordClass b) :
    rel .gt a b = .ok true ↔ EV.lt b.val a.val := by
  rw [rel_eq .gt a b ha hb hc]
  cases h : Ext.cmp a.ext b.ext with
  | none => simp; exact (Ext.not_lt_of_cmp_none _ _ h).2
  | some c =>
    have := (Ext.cmp_sound _ _ c h).2.2.2
    simp [Ord5.test, Num.val]; exact this

theorem le_iff (a b : Num) (ha : wf a = true) (hb : wf b = true) (hc : ordClass a = ordClass b) :
    rel .le a b = .ok true ↔ (EV.lt a.val b.val ∨ (a.val = b.val ∧ ¬ a.val.isNaN)) := by
  rw [rel_eq .le a b ha hb hc]
  cases h : Ext.cmp a.ext b.ext with
  | none =>
    simp
    have hn := Ext.not_lt_of_cmp_none _ _ h
    refine ⟨hn.1, ?_⟩
    intro heq
    rw [Ext.cmp_none_iff] at h
    rcases h with h | h
    · exact (Ext.val_nan_iff _).mpr h
    · have : b.val.isNaN := (Ext.val_nan_iff _).mpr h
      unfold Num.val at heq ⊢; rw [heq]; exact this
  | some c =>
    obtain ⟨hr, h1, h2, h3⟩ := Ext.cmp_sound _ _ c h
    have hnn : ¬ a.val.isNaN := by
      intro hn
      have := (Ext.val_nan_iff _).mp hn
      have : Ext.cmp a.ext b.ext = none := (Ext.cmp_none_iff _ _).mpr (Or.inl this)
      rw [h] at this; cases this
    simp only [Ord5.test, Res.ok.injEq, decide_eq_true_eq, Num.val] at *
    constructor
    · intro hle
      rcases hr with rfl | rfl | rfl
      · left; exact h1.mp (by omega)
      · right; exact ⟨h2.mp rfl, hnn⟩
      · omega
    · rintro (hl | ⟨he, _⟩)
      · have := h1.mpr hl; omega
      · have := h2.mpr he; omega

theorem laxEq_iff (a b : Num) (ha : wf a = true) (hb : wf b = true) :
    laxEq a b = true ↔ (a.val = b.val ∧ ¬ a.val.isNaN) := by
  rw [laxEq_spec a b ha hb]
  unfold eqSpec
  cases h : Ext.cmp a.ext b.ext with
  | none =>
    simp
    intro heq
    rw [Ext.cmp_none_iff] at h
    rcases h with h | h
    · exact (Ext.val_nan_iff _).mpr h
    · have : b.val.isNaN := (Ext.val_nan_iff _).mpr h
      unfold Num.val at heq ⊢; rw [heq]; exact this
  | some c =>
    obtain ⟨hr, h1, h2, h3⟩ := Ext.cmp_sound _ _ c h
    have hnn : ¬ a.val.isNaN := by
      intro hn
      have := (Ext.val_nan_iff _).mp hn
      have : Ext.cmp a.ext b.ext = none := (Ext.cmp_none_iff _ _).mpr (Or.inl this)
      rw [h] at this; cases this
    simp only [beq_iff_eq, Option.some.injEq, Num.val] at *
    constructor
    · intro hc; exact ⟨h2.mp hc, hnn⟩
    · intro hc; exact h2.mpr hc.1

end Elk.Num
