import Mathlib.Tactic.Ring
import Mathlib.Tactic.Linarith
import Mathlib.Tactic.Positivity
import Mathlib.Algebra.Order.Field.Power
import Mathlib.Algebra.Order.Field.Rat
import ElkVerif.Model.Val
/-! helper lemmas for C18: exact dyadic comparison vs the order of ℚ -/

namespace Elk.Num
noncomputable def Dy.toRat (d : Dy) : ℚ := (d.m : ℚ) * (2 : ℚ) ^ d.e

theorem two_zpow_pos (e : Int) : (0 : ℚ) < (2 : ℚ) ^ e := by positivity

theorem Dy.num_spec (a b : Dy) :
    ((Dy.numL a b - Dy.numR a b : Int) : ℚ) * (2 : ℚ) ^ (min a.e b.e) = Dy.toRat a - Dy.toRat b := by
  unfold Dy.numL Dy.numR Dy.toRat
  push_cast
  have e1 : (2 : ℚ) ^ (a.e - min a.e b.e).toNat * (2 : ℚ) ^ (min a.e b.e) = (2 : ℚ) ^ a.e := by
    rw [← zpow_natCast, ← zpow_add₀ (by norm_num : (2 : ℚ) ≠ 0)]
    congr 1; omega
  have e2 : (2 : ℚ) ^ (b.e - min a.e b.e).toNat * (2 : ℚ) ^ (min a.e b.e) = (2 : ℚ) ^ b.e := by
    rw [← zpow_natCast, ← zpow_add₀ (by norm_num : (2 : ℚ) ≠ 0)]
    congr 1; omega
  calc _ = (a.m : ℚ) * ((2 : ℚ) ^ (a.e - min a.e b.e).toNat * (2 : ℚ) ^ (min a.e b.e))
          - (b.m : ℚ) * ((2 : ℚ) ^ (b.e - min a.e b.e).toNat * (2 : ℚ) ^ (min a.e b.e)) := by ring
    _ = _ := by rw [e1, e2]

theorem Dy.cmp_neg_iff (a b : Dy) : Dy.cmp a b < 0 ↔ a.toRat < b.toRat := by
  have h := Dy.num_spec a b
  have hp := two_zpow_pos (min a.e b.e)
  unfold Dy.cmp
  rw [Int.sign_neg_iff]
  constructor
  · intro hn
    have : ((Dy.numL a b - Dy.numR a b : Int) : ℚ) < 0 := by exact_mod_cast hn
    nlinarith
  · intro hlt
    have : ((Dy.numL a b - Dy.numR a b : Int) : ℚ) < 0 := by
      by_contra hc
      rw [not_lt] at hc
      nlinarith
    exact_mod_cast this

theorem Dy.cmp_zero_iff (a b : Dy) : Dy.cmp a b = 0 ↔ a.toRat = b.toRat := by
  have h := Dy.num_spec a b
  have hp := two_zpow_pos (min a.e b.e)
  unfold Dy.cmp
  rw [Int.sign_eq_zero_iff_zero]
  constructor
  · intro hn
    rw [hn] at h; simp at h; linarith
  · intro heq
    have h0 : ((Dy.numL a b - Dy.numR a b : Int) : ℚ) * (2 : ℚ) ^ (min a.e b.e) = 0 := by rw [h, heq]; ring
    rcases mul_eq_zero.mp h0 with h1 | h1
    · exact_mod_cast h1
    · exact absurd h1 (ne_of_gt hp)

theorem Dy.cmp_pos_iff (a b : Dy) : 0 < Dy.cmp a b ↔ b.toRat < a.toRat := by
  have h := Dy.num_spec a b
  have hp := two_zpow_pos (min a.e b.e)
  unfold Dy.cmp
  rw [Int.sign_pos_iff]
  constructor
  · intro hn
    have : (0 : ℚ) < ((Dy.numL a b - Dy.numR a b : Int) : ℚ) := by exact_mod_cast hn
    nlinarith
  · intro hlt
    have : (0 : ℚ) < ((Dy.numL a b - Dy.numR a b : Int) : ℚ) := by
      by_contra hc
      rw [not_lt] at hc
      nlinarith
    exact_mod_cast this
end Elk.Num
