import ElkVerif.Proofs.MiniSoundB
/-!
The extended checker `checkExpr` (TypesB) accepts everything the stage-A checker `check` (Types)
accepts, at the same fuel and with the corresponding type; value typing agrees on stage-A types.
-/
namespace Elk.Mini

theorem lookupT_toB (g : TEnv) (x : String) : lookupT (TEnv.toB g) x = (lookupTy g x).map STy.toT := by
  induction g with
  | nil => rfl
  | cons p g ih =>
    obtain ⟨y, t⟩ := p
    simp only [TEnv.toB, List.map_cons, lookupT, lookupTy]
    split
    · rfl
    · exact ih

theorem join_self (a : T) : join a a = a := by simp [join, fits_refl]

theorem checkBin_embeds {op : BinOp} {a b t : STy} (h : checkBin op a b = some t) :
    checkBinB op a.toT b.toT = some t.toT := by
  cases op
  case eq => simp [checkBin] at h; subst h; simp [checkBinB, STy.toT, BTy.toT]
  case ne => simp [checkBin] at h; subst h; simp [checkBinB, STy.toT, BTy.toT]
  all_goals
    cases a <;> try (simp [checkBin] at h)
    rename_i ba
    cases ba <;> try (simp [checkBin] at h)
    all_goals
      cases b <;> try (simp [checkBin] at h)
      rename_i bb
      cases bb <;> try (simp [checkBin] at h)
      all_goals
        subst h
        rfl

theorem check_embeds (defs : List Def) (g : TEnv) :
    ∀ (k : Nat) (e : Expr) (t : STy), check g k e = some t → checkExpr defs k (TEnv.toB g) e = some t.toT
  | 0, e, t, h => by simp [check] at h
  | k + 1, e, t, h => by
    cases e with
    | int n => simp only [check] at h; cases h; rfl
    | bool n => simp only [check] at h; cases h; rfl
    | str n => simp only [check] at h; cases h; rfl
    | nil => simp only [check] at h; cases h; rfl
    | var x => simp only [check] at h; simp [checkExpr, lookupT_toB, h]
    | bin op a b =>
      simp only [check] at h
      split at h
      · rename_i ta tb ha hb
        simp only [checkExpr, check_embeds defs g k a ta ha, check_embeds defs g k b tb hb, Option.bind_some]
        exact checkBin_embeds h
      · cases h
    | un op a =>
      cases op with
      | neg =>
        simp only [check] at h
        split at h
        · rename_i ha
          cases h
          simp only [checkExpr, check_embeds defs g k a _ ha, Option.bind_some]
          rfl
        · cases h
      | not =>
        simp only [check] at h
        split at h
        · rename_i ta ha
          cases h
          simp only [checkExpr, check_embeds defs g k a _ ha, Option.bind_some]
          rfl
        · cases h
    | and a b =>
      simp only [check] at h
      split at h
      · rename_i ha hb
        cases h
        simp only [checkExpr, check_embeds defs g k a _ ha, check_embeds defs g k b _ hb, Option.bind_some]
        rfl
      · cases h
    | or a b =>
      simp only [check] at h
      split at h
      · rename_i ha hb
        cases h
        simp only [checkExpr, check_embeds defs g k a _ ha, check_embeds defs g k b _ hb, Option.bind_some]
        rfl
      · cases h
    | nilco a b =>
      simp only [check] at h
      split at h
      · rename_i tb tb' ha hb
        split at h
        · rename_i heq
          cases h
          subst heq
          simp only [checkExpr, check_embeds defs g k a _ ha, check_embeds defs g k b _ hb, Option.bind_some,
            STy.toT, nonNil, join_self]
        · cases h
      · cases h
    | assign x e => simp [check] at h
    | callDef f args => simp [check] at h
    | callClo f args => simp [check] at h
    | lam ps r body => simp [check] at h

theorem hasTy_embeds (defs : List Def) (S : List T) (v : Val) (t : STy) :
    v.hasTy t = true ↔ HasTy defs S v t.toT := by
  cases t with
  | base b => cases b <;> cases v <;> simp [Val.hasTy, Val.hasBase, STy.toT, BTy.toT, HasTy]
  | nil => cases v <;> simp [Val.hasTy, STy.toT, HasTy]
  | opt b => cases b <;> cases v <;> simp [Val.hasTy, Val.hasBase, STy.toT, BTy.toT, HasTy]

end Elk.Mini
