import ElkVerif.Model.SeqSpec
/-! helper lemmas for C24: Go-slice heap model ⟶ plain sequences -/
namespace Elk.Seq

/-! ### arrays -/

theorem writeAt_length (a : List Val) (p : Nat) (xs : List Val) (h : p + xs.length ≤ a.length) :
    (writeAt a p xs).length = a.length := by
  simp [writeAt]; omega

theorem writeAt_drop (a : List Val) (off p : Nat) (xs : List Val) (h : off + p ≤ a.length) :
    (writeAt a (off + p) xs).drop off = writeAt (a.drop off) p xs := by
  simp only [writeAt]
  rw [List.append_assoc, List.drop_append_of_le_length (by simp; omega)]
  rw [List.drop_take]
  simp [Nat.add_assoc]

theorem writeAt_take (full : List Val) (len p : Nat) (ys : List Val)
    (hp : p + ys.length ≤ len) (hl : len ≤ full.length) :
    (writeAt full p ys).take len = writeAt (full.take len) p ys := by
  simp only [writeAt]
  rw [List.append_assoc, List.append_assoc, List.take_append, List.take_append]
  rw [List.take_take, List.take_take, List.drop_take]
  simp only [List.length_take]
  have e1 : min len p = p := by omega
  have e2 : min p len = p := by omega
  have e3 : min p full.length = p := by omega
  rw [e1, e2, e3]
  congr 2
  · rw [List.take_of_length_le (by omega)]
  · congr 1; omega

/-- the window an object shows after writing `ys` at `p ≤ len` and setting the length to `n ≤ p + |ys|` -/
theorem window_write (a : List Val) (off len p n : Nat) (ys : List Val)
    (hp : p ≤ len) (hlen : off + len ≤ a.length) (hn : n ≤ p + ys.length) :
    ((writeAt a (off + p) ys).drop off).take n = (((a.drop off).take len).take p ++ ys).take n := by
  rw [writeAt_drop a off p ys (by omega)]
  simp only [writeAt]
  rw [List.take_take, Nat.min_eq_left hp]
  rw [List.take_append_of_le_length (by simp; omega)]


/-! ### the simulation relation -/

/-- header `s` over `heap` denotes the abstract list `al` and is well-formed -/
def Rel1 (heap : List (List Val)) (s : Slice) (al : AL) : Prop :=
  ∃ a, heap[s.arr]? = some a ∧ s.off + s.cap ≤ a.length ∧ s.len ≤ s.cap ∧ window s a = al.xs ∧ s.cap = al.cap

/-- `R st A`: the heap state `st` represents the sequences `A`, every header is inside its array,
and distinct objects own distinct arrays. -/
structure R (st : St) (A : List AL) : Prop where
  len : st.objs.length = A.length
  rel : ∀ (id : Nat) (s : Slice) (al : AL), st.objs[id]? = some s → A[id]? = some al → Rel1 st.heap s al
  sep : ∀ (i j : Nat) (si sj : Slice), st.objs[i]? = some si → st.objs[j]? = some sj → i ≠ j → si.arr ≠ sj.arr

theorem lt_of_getElem? {α} {l : List α} {i : Nat} {a : α} (h : l[i]? = some a) : i < l.length := by
  obtain ⟨h, _⟩ := List.getElem?_eq_some_iff.mp h; exact h

theorem R.init : R St.init [] := ⟨rfl, by simp [St.init], by simp [St.init]⟩

theorem R.obj_some {st A} (h : R st A) {o : Nat} {al : AL} (ha : A[o]? = some al) : ∃ s, st.objs[o]? = some s := by
  have : o < st.objs.length := by rw [h.len]; exact lt_of_getElem? ha
  exact ⟨st.objs[o], by simp [this]⟩

theorem R.obj_none {st A} (h : R st A) {o : Nat} (ha : A[o]? = none) : st.objs[o]? = none := by
  have : A.length ≤ o := by simpa using ha
  simp; rw [h.len]; exact this

theorem R.look_some {st A} (h : R st A) {o : Nat} {al : AL} (ha : A[o]? = some al) :
    ∃ s a, st.objs[o]? = some s ∧ st.heap[s.arr]? = some a ∧ look st o = some (s, a) ∧
      s.off + s.cap ≤ a.length ∧ s.len ≤ s.cap ∧ window s a = al.xs ∧ s.cap = al.cap := by
  obtain ⟨s, hs⟩ := h.obj_some ha
  obtain ⟨a, h1, h2, h3, h4, h5⟩ := h.rel o s al hs ha
  exact ⟨s, a, hs, h1, by simp [look, hs, h1], h2, h3, h4, h5⟩

theorem R.look_none {st A} (h : R st A) {o : Nat} (ha : A[o]? = none) : look st o = none := by
  simp [look, h.obj_none ha]

theorem window_length {s : Slice} {a : List Val} (h : s.off + s.cap ≤ a.length) (h2 : s.len ≤ s.cap) :
    (window s a).length = s.len := by
  simp [window]; omega

theorem mkArr_length (xs : List Val) (c : Nat) (h : xs.length ≤ c) : (mkArr xs c).length = c := by
  simp [mkArr]; omega

theorem mkArr_window (xs : List Val) (c : Nat) : window ⟨k, 0, xs.length, c⟩ (mkArr xs c) = xs := by
  simp [window, mkArr]

/-- allocation of a fresh object -/
theorem R.alloc {st A} (h : R st A) (xs : List Val) (cap : Nat) :
    R (allocObj st xs cap).1 (A ++ [⟨xs, max cap xs.length⟩]) ∧ (allocObj st xs cap).2 = A.length := by
  refine ⟨⟨by simp [allocObj, h.len], ?_, ?_⟩, by simp [allocObj, h.len]⟩
  · intro id s al hs ha
    simp only [allocObj] at hs ⊢
    by_cases hid : id < st.objs.length
    · rw [List.getElem?_append_left hid] at hs
      rw [List.getElem?_append_left (by rw [← h.len]; exact hid)] at ha
      obtain ⟨a, h1, h2⟩ := h.rel id s al hs ha
      exact ⟨a, by rw [List.getElem?_append_left (lt_of_getElem? h1)]; exact h1, h2⟩
    · have hid' : id = st.objs.length := by
        have := lt_of_getElem? hs; simp at this; omega
      subst hid'
      simp at hs
      rw [h.len] at ha; simp at ha
      subst hs; subst ha
      refine ⟨mkArr xs (max cap xs.length), by simp, ?_, by simp; omega, mkArr_window _ _, rfl⟩
      rw [mkArr_length _ _ (by omega)]; simp
  · intro i j si sj hi hj hij
    simp only [allocObj] at hi hj
    have key : ∀ k sk, (st.objs ++ [(⟨st.heap.length, 0, xs.length, max cap xs.length⟩ : Slice)])[k]? = some sk →
        (k < st.objs.length ∧ st.objs[k]? = some sk ∧ sk.arr < st.heap.length) ∨
        (k = st.objs.length ∧ sk.arr = st.heap.length) := by
      intro k sk hk
      by_cases hkl : k < st.objs.length
      · rw [List.getElem?_append_left hkl] at hk
        left
        obtain ⟨al, hk'⟩ : ∃ al, A[k]? = some al :=
          ⟨A[k]'(by rw [← h.len]; exact hkl), by simp⟩
        obtain ⟨a, h1, _⟩ := h.rel k sk al hk hk'
        exact ⟨hkl, hk, lt_of_getElem? h1⟩
      · right
        have : k = st.objs.length := by have := lt_of_getElem? hk; simp at this; omega
        subst this; simp at hk; subst hk; exact ⟨rfl, rfl⟩
    rcases key i si hi with ⟨hil, hi', hia⟩ | ⟨hil, hia⟩ <;> rcases key j sj hj with ⟨hjl, hj', hja⟩ | ⟨hjl, hja⟩
    · exact h.sep i j si sj hi' hj' hij
    · omega
    · omega
    · omega


/-- moving object `o` to a fresh array -/
theorem R.realloc {st A} (h : R st A) {o : Nat} (ho : o < A.length) (xs : List Val) (cap : Nat) :
    R (reallocObj st o xs cap) (A.set o ⟨xs, max cap xs.length⟩) := by
  refine ⟨by simp [reallocObj, h.len], ?_, ?_⟩
  · intro id s al hs ha
    simp only [reallocObj] at hs ⊢
    rw [List.getElem?_set] at hs ha
    by_cases hid : o = id
    · subst hid
      have ho' : o < st.objs.length := by rw [h.len]; exact ho
      simp [ho, ho'] at hs ha
      subst hs; subst ha
      refine ⟨mkArr xs (max cap xs.length), by simp, ?_, by simp; omega, mkArr_window _ _, rfl⟩
      rw [mkArr_length _ _ (by omega)]; simp
    · simp [hid] at hs ha
      obtain ⟨a, h1, h2⟩ := h.rel id s al hs ha
      exact ⟨a, by rw [List.getElem?_append_left (lt_of_getElem? h1)]; exact h1, h2⟩
  · intro i j si sj hi hj hij
    simp only [reallocObj] at hi hj
    have key : ∀ k sk, (st.objs.set o (⟨st.heap.length, 0, xs.length, max cap xs.length⟩ : Slice))[k]? = some sk →
        (k ≠ o ∧ st.objs[k]? = some sk ∧ sk.arr < st.heap.length) ∨ (k = o ∧ sk.arr = st.heap.length) := by
      intro k sk hk
      rw [List.getElem?_set] at hk
      by_cases hko : o = k
      · right; subst hko
        have ho' : o < st.objs.length := by rw [h.len]; exact ho
        simp [ho'] at hk; subst hk; exact ⟨rfl, rfl⟩
      · left; simp [hko] at hk
        obtain ⟨al, hk'⟩ : ∃ al, A[k]? = some al :=
          ⟨A[k]'(by rw [← h.len]; exact lt_of_getElem? hk), by simp⟩
        obtain ⟨a, h1, _⟩ := h.rel k sk al hk hk'
        exact ⟨fun e => hko e.symm, hk, lt_of_getElem? h1⟩
    rcases key i si hi with ⟨hil, hi', hia⟩ | ⟨hil, hia⟩ <;> rcases key j sj hj with ⟨hjl, hj', hja⟩ | ⟨hjl, hja⟩
    · exact h.sep i j si sj hi' hj' hij
    · omega
    · omega
    · omega

/-- writing inside the capacity window of object `o` and changing its length; `newxs` is whatever the
object shows afterwards -/
theorem R.write' {st A} (h : R st A) {o : Nat} {s : Slice} {a : List Val} {al : AL}
    (hs : st.objs[o]? = some s) (ha : st.heap[s.arr]? = some a) (hal : A[o]? = some al)
    (p n : Nat) (ys newxs : List Val) (hcap : p + ys.length ≤ s.cap) (hn : n ≤ s.cap)
    (hnew : ((writeAt a (s.off + p) ys).drop s.off).take n = newxs) :
    R (writeObj st o s a p ys n) (A.set o ⟨newxs, al.cap⟩) := by
  obtain ⟨a', h1, h2, h3, h4, h5⟩ := h.rel o s al hs hal
  have : a' = a := by rw [ha] at h1; exact (Option.some.inj h1).symm
  subst this
  have ho : o < st.objs.length := lt_of_getElem? hs
  have ho' : o < A.length := lt_of_getElem? hal
  have harr : s.arr < st.heap.length := lt_of_getElem? ha
  refine ⟨by simp [writeObj, h.len], ?_, ?_⟩
  · intro id s' al' hs' ha'
    simp only [writeObj] at hs' ⊢
    rw [List.getElem?_set] at hs' ha'
    by_cases hid : o = id
    · subst hid
      simp [ho, ho'] at hs' ha'
      subst hs'; subst ha'
      refine ⟨writeAt a' (s.off + p) ys, by simp [harr], ?_, by simpa using hn, ?_, by simpa using h5⟩
      · rw [writeAt_length _ _ _ (by omega)]; exact h2
      · simpa [window] using hnew
    · simp [hid] at hs' ha'
      obtain ⟨b, g1, g2⟩ := h.rel id s' al' hs' ha'
      have hne : s.arr ≠ s'.arr := h.sep o id s s' hs hs' hid
      exact ⟨b, by rw [List.getElem?_set_ne hne]; exact g1, g2⟩
  · intro i j si sj hi hj hij
    simp only [writeObj] at hi hj
    have key : ∀ (k : Nat) (sk : Slice), (st.objs.set o { s with len := n })[k]? = some sk →
        ∃ sk' : Slice, st.objs[k]? = some sk' ∧ sk'.arr = sk.arr := by
      intro k sk hk
      rw [List.getElem?_set] at hk
      by_cases hko : o = k
      · subst hko; simp [ho] at hk; subst hk; exact ⟨s, hs, rfl⟩
      · simp [hko] at hk; exact ⟨sk, hk, rfl⟩
    obtain ⟨si', hi', ei⟩ := key i si hi
    obtain ⟨sj', hj', ej⟩ := key j sj hj
    rw [← ei, ← ej]
    exact h.sep i j si' sj' hi' hj' hij

/-- write at or after position `p ≤ len`, new length `n ≤ p + |ys|` (append, remove_at, remove) -/
theorem R.write {st A} (h : R st A) {o : Nat} {s : Slice} {a : List Val} {al : AL}
    (hs : st.objs[o]? = some s) (ha : st.heap[s.arr]? = some a) (hal : A[o]? = some al)
    (p n : Nat) (ys : List Val) (hp : p ≤ s.len) (hcap : p + ys.length ≤ s.cap) (hn : n ≤ p + ys.length) :
    R (writeObj st o s a p ys n) (A.set o ⟨(al.xs.take p ++ ys).take n, al.cap⟩) := by
  obtain ⟨a', h1, h2, h3, h4, h5⟩ := h.rel o s al hs hal
  have : a' = a := by rw [ha] at h1; exact (Option.some.inj h1).symm
  subst this
  apply h.write' hs ha hal p n ys _ hcap (by omega)
  rw [window_write a' s.off s.len p n ys hp (by omega) hn]
  simp only [window] at h4
  rw [h4]

/-- overwrite inside the live window, length unchanged or smaller (`[]=`) -/
theorem R.writeIn {st A} (h : R st A) {o : Nat} {s : Slice} {a : List Val} {al : AL}
    (hs : st.objs[o]? = some s) (ha : st.heap[s.arr]? = some a) (hal : A[o]? = some al)
    (p : Nat) (ys : List Val) (hp : p + ys.length ≤ s.len) :
    R (writeObj st o s a p ys s.len) (A.set o ⟨writeAt al.xs p ys, al.cap⟩) := by
  obtain ⟨a', h1, h2, h3, h4, h5⟩ := h.rel o s al hs hal
  have : a' = a := by rw [ha] at h1; exact (Option.some.inj h1).symm
  subst this
  apply h.write' hs ha hal p s.len ys _ (by omega) h3
  rw [writeAt_drop a' s.off p ys (by omega), ← h4]
  simp only [window]
  exact writeAt_take _ _ _ _ hp (by simp; omega)

end Elk.Seq
