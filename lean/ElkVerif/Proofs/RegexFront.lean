import ElkVerif.Model.Regex.Front
/-! C03: the regex lexer port always advances; its fuel is never the reason it stops. -/
namespace Elk.Regex.Front

theorem adv_lt (b : Nat) (bs : List Nat) : (adv (b :: bs)).length < (b :: bs).length := by
  simp only [adv, List.length_drop, List.length_cons]
  omega

theorem adv_le (bs : List Nat) : (adv bs).length ≤ bs.length := by
  simp only [adv, List.length_drop]; omega

theorem skipComment_le : ∀ (bs rest : List Nat), skipComment bs = some rest → rest.length < bs.length + 1
  | [], rest, h => by simp [skipComment] at h
  | b :: bs, rest, h => by
    simp only [skipComment] at h
    split at h
    · simp at h; subst h; simp only [List.length_cons]; omega
    · have := skipComment_le bs rest h; simp only [List.length_cons]; omega

theorem octalDigits_le : ∀ (bs : List Nat) (acc : Str) (inv : Bool), (octalDigits bs acc inv).2.2.length ≤ bs.length
  | [], acc, inv => by simp [octalDigits]
  | b :: bs, acc, inv => by
    simp only [octalDigits]
    split
    · exact Nat.le_trans (octalDigits_le bs _ _) (by simp)
    · simp

def QRes.restLen : QRes → Nat
  | .ok _ rest => rest.length
  | .expectedEnd rest => rest.length
  | .unclosed => 0

theorem quoted_le : ∀ (fuel : Nat) (bs : List Nat) (acc : Str), (quoted fuel bs acc).restLen ≤ bs.length
  | 0, bs, acc => by simp [quoted, QRes.restLen]
  | fuel + 1, [], acc => by simp [quoted, QRes.restLen]
  | fuel + 1, b :: bs, acc => by
    have h2 := adv_le (b :: bs)
    simp only [quoted]
    by_cases hp : peek (b :: bs) = 92
    · simp only [hp, if_true]
      by_cases hq : peek (adv (b :: bs)) = 69 ∧ (!(adv (b :: bs)).isEmpty) = true
      · simp only [hq, and_self, if_true, QRes.restLen]
        have h1 := adv_le (adv (b :: bs)); omega
      · simp only [hq, if_false, QRes.restLen]; omega
    · simp only [hp, if_false]
      exact Nat.le_trans (quoted_le fuel _ _) h2

/-- **the regex lexer always advances**: scanning a non-empty input leaves strictly less input -/
theorem scan_lt (b : Nat) (bs : List Nat) : (scan (b :: bs)).rest.length < (b :: bs).length := by
  have hadv := adv_lt b bs
  simp only [scan]
  split
  · split
    · split
      · rename_i rest hsk
        have := skipComment_le _ _ hsk
        simp only [Lexed.rest, List.length_drop] at *
        omega
      · simp [Lexed.rest]
    · simpa [Lexed.rest] using hadv
  · split
    · split
      · simp only [Lexed.rest]; exact hadv
      · split
        · have hq := quoted_le ((adv (b :: bs)).length + 1) (adv (adv (b :: bs))) []
          have h1 := adv_le (adv (b :: bs))
          split <;> rename_i hqq <;> rw [hqq] at hq <;> simp only [Lexed.rest, QRes.restLen, List.length_nil] at * <;> omega
        · split
          · have h1 := adv_le (adv (b :: bs)); simp only [Lexed.rest]; omega
          · split
            · have h1 := adv_le (adv (b :: bs)); simp only [Lexed.rest]; omega
            · split
              · split <;> exact Nat.lt_of_le_of_lt (octalDigits_le (adv (b :: bs)) [] false) hadv
              · have h1 := adv_le (adv (b :: bs)); simp only [Lexed.rest]; omega
    · split <;> simpa [Lexed.rest] using hadv

/-- so the fuel of `lexAll` (one unit per token or skipped comment) is never the reason it stops -/
theorem lexAll_fuel : ∀ (f g : Nat) (bs : List Nat), bs.length < f → bs.length < g → lexAll f bs = lexAll g bs := by
  intro f
  induction f with
  | zero => intro g bs h; omega
  | succ f ih =>
    intro g bs hf hg
    cases g with
    | zero => omega
    | succ g =>
      cases bs with
      | nil => simp [lexAll]
      | cons b bs =>
        have hlt := scan_lt b bs
        simp only [lexAll]
        cases hs : scan (b :: bs) with
        | tok t rest =>
          rw [hs] at hlt; simp only [Lexed.rest] at hlt
          simp only [ih g rest (by omega) (by omega)]
        | skip rest =>
          rw [hs] at hlt; simp only [Lexed.rest] at hlt
          simp only [ih g rest (by omega) (by omega)]

end Elk.Regex.Front
