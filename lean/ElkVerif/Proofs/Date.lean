import ElkVerif.Proofs.Civil
import ElkVerif.Model.Date
/-! Helper lemmas for the packed `Date`, `time.Date` normalisation and span arithmetic (C22). -/
namespace Elk.Date
open Elk.Civil

/-! ### the packed representation -/

theorem pack_eq (Y M D : Nat) (hY : Y < 2 ^ 23) (hM : M < 16) (hD : D < 32) :
    (Y <<< 9) % 4294967296 ||| (M <<< 5) % 4294967296 ||| D = Y * 512 + M * 32 + D := by
  have h1 : (Y <<< 9) % 4294967296 = Y <<< 9 := by
    rw [Nat.shiftLeft_eq]; apply Nat.mod_eq_of_lt; omega
  have h2 : (M <<< 5) % 4294967296 = M <<< 5 := by
    rw [Nat.shiftLeft_eq]; apply Nat.mod_eq_of_lt; omega
  rw [h1, h2, Nat.or_assoc]
  have e1 : M <<< 5 ||| D = M <<< 5 + D := (Nat.shiftLeft_add_eq_or_of_lt (i := 5) (by omega) M).symm
  rw [e1]
  have hlt : M <<< 5 + D < 2 ^ 9 := by rw [Nat.shiftLeft_eq]; omega
  have e2 : Y <<< 9 ||| (M <<< 5 + D) = Y <<< 9 + (M <<< 5 + D) :=
    (Nat.shiftLeft_add_eq_or_of_lt (i := 9) hlt Y).symm
  rw [e2, Nat.shiftLeft_eq, Nat.shiftLeft_eq]; omega

theorem makeDate_bits (y m d : Int) (hy : minYear ≤ y ∧ y ≤ maxYear) (hm : 0 ≤ m ∧ m < 16) (hd : 0 ≤ d ∧ d < 32) :
    (makeDate y m d).bits = (y + yearBias).toNat * 512 + m.toNat * 32 + d.toNat := by
  unfold minYear maxYear at hy
  unfold makeDate u32 yearBias
  have e1 : ((y + 4194304) % 4294967296).toNat = (y + 4194304).toNat := by congr 1; omega
  have e2 : (m % 4294967296).toNat = m.toNat := by congr 1; omega
  have e3 : (d % 4294967296).toNat = d.toNat := by congr 1; omega
  simp only [e1, e2, e3]
  exact pack_eq _ _ _ (by omega) (by omega) (by omega)

/-- the three fields read back what was packed, for every year of the representable range -/
theorem makeDate_fields (y m d : Int) (hy : minYear ≤ y ∧ y ≤ maxYear) (hm : 0 ≤ m ∧ m < 16) (hd : 0 ≤ d ∧ d < 32) :
    (makeDate y m d).year = y ∧ (makeDate y m d).month = m ∧ (makeDate y m d).day = d := by
  have hb := makeDate_bits y m d hy hm hd
  unfold minYear maxYear at hy
  unfold Date.year Date.month Date.day yearBias
  rw [hb]
  simp only [Nat.shiftRight_eq_div_pow]
  unfold yearBias
  refine ⟨?_, ?_, ?_⟩ <;> omega

/-! ### `time.Date` on real dates -/

theorem nsPerDay_pos : (0 : Int) < nsPerDay := by decide

/-- `time.Date(y, m, d, 0, …)` of a month in 1..12 is midnight of the civil day `daysFromCivil y m d` (also
for a day field outside the month: it is carried linearly) -/
theorem goDate_midnight (y m d : Int) (hm : 1 ≤ m ∧ m ≤ 12) :
    goDate y m d 0 0 0 0 = daysFromCivil y m d * nsPerDay := by
  unfold goDate
  have e1 : (m - 1) / 12 = 0 := by omega
  have e2 : (m - 1) % 12 + 1 = m := by omega
  simp only [e1, e2]
  have := daysFromCivil_add_day y m 1 (d - 1)
  have e3 : (1 : Int) + (d - 1) = d := by omega
  rw [e3] at this
  rw [this]; simp

theorem dayNum_mul (n r : Int) (h0 : 0 ≤ r) (h1 : r < nsPerDay) :
    DateTime.dayNum (n * nsPerDay + r) = n ∧ DateTime.tod (n * nsPerDay + r) = r := by
  unfold DateTime.dayNum DateTime.tod nsPerDay at *
  omega

/-- Year/Month/Day of a datetime at midnight of day `n` are the civil date of `n` -/
theorem civil_of_midnight (n : Int) : DateTime.civil (n * nsPerDay) = civilFromDays n := by
  have := (dayNum_mul n 0 (by omega) nsPerDay_pos).1
  simp only [Int.add_zero] at this
  unfold DateTime.civil; rw [this]

/-! ### month arithmetic -/

/-- the month after `(y, m)` -/
def nextMonth (y m : Int) : Int × Int := if m < 12 then (y, m + 1) else (y + 1, 1)

/-- the day before the first of the next month is the last day of the month -/
theorem last_day_of_month (y m : Int) (hm : 1 ≤ m ∧ m ≤ 12) :
    civilFromDays (daysFromCivil (nextMonth y m).1 (nextMonth y m).2 1 - 1) = (y, m, daysInMonth y m) := by
  have hdim : 1 ≤ daysInMonth y m := by
    rcases daysInMonth_cases y m with ⟨_, _, h⟩ | ⟨_, _, h⟩ | ⟨_, h⟩ | ⟨_, _, _, _, _, h⟩ <;> omega
  have hv : Valid y m (daysInMonth y m) := ⟨hm.1, hm.2, hdim, Int.le_refl _⟩
  have hn := daysFromCivil_nextDay y m _ hv
  have hnext : nextDay y m (daysInMonth y m) = ((nextMonth y m).1, (nextMonth y m).2, 1) := by
    unfold nextDay nextMonth
    simp only [Int.lt_irrefl, if_false]
    split <;> rfl
  rw [hnext] at hn
  simp only at hn
  rw [hn]
  have : daysFromCivil y m (daysInMonth y m) + 1 - 1 = daysFromCivil y m (daysInMonth y m) := by omega
  rw [this]
  exact civilFromDays_daysFromCivil y m _ hv

/-- Go's truncated quotient and remainder recombine -/
theorem quot_rem (a : Int) : quot a 12 * 12 + rem a 12 = a := by
  unfold rem quot; split <;> omega

/-- the month `time.Date` normalises `(year, mo)` to -/
def normMonth (year mo : Int) : Int × Int := (year + (mo - 1) / 12, (mo - 1) % 12 + 1)

theorem normMonth_range (year mo : Int) : 1 ≤ (normMonth year mo).2 ∧ (normMonth year mo).2 ≤ 12 := by
  unfold normMonth; simp only; omega

theorem goDate_norm (year mo d : Int) :
    goDate year mo d 0 0 0 0 = daysFromCivil (normMonth year mo).1 (normMonth year mo).2 d * nsPerDay := by
  unfold goDate normMonth
  simp only
  have := daysFromCivil_add_day (year + (mo - 1) / 12) ((mo - 1) % 12 + 1) 1 (d - 1)
  have e3 : (1 : Int) + (d - 1) = d := by omega
  rw [e3] at this
  rw [this]; simp

theorem nextMonth_normMonth (year mo : Int) :
    nextMonth (normMonth year mo).1 (normMonth year mo).2 = normMonth year (mo + 1) := by
  unfold nextMonth normMonth
  simp only
  split <;> (ext <;> simp <;> omega)

/-- `daysOfMonth(year, month)` is the length of the month `time.Date` normalises `(year, month)` to,
whatever the month number (0, negative, > 12) -/
theorem daysOfMonth_eq (year mo : Int) :
    daysOfMonth year mo = daysInMonth (normMonth year mo).1 (normMonth year mo).2 := by
  unfold daysOfMonth
  rw [goDate_norm, ← nextMonth_normMonth]
  have h := last_day_of_month (normMonth year mo).1 (normMonth year mo).2 (normMonth_range year mo)
  have e : daysFromCivil (nextMonth (normMonth year mo).1 (normMonth year mo).2).1
        (nextMonth (normMonth year mo).1 (normMonth year mo).2).2 1 * nsPerDay - nsPerDay
      = (daysFromCivil (nextMonth (normMonth year mo).1 (normMonth year mo).2).1
        (nextMonth (normMonth year mo).1 (normMonth year mo).2).2 1 - 1) * nsPerDay := by
    rw [Int.sub_mul]; simp
  rw [e]
  unfold DateTime.day
  rw [civil_of_midnight, h]

/-- **Specification of `DateTime.addMonthsAndDays`** (hence of `+`/`-` with a date span), for every
datetime and all integers `months`, `days`: go `days` days along the calendar, then move to the month
`months` months away (counted on `year*12 + month`), keeping the day of month but clamping it to the
length of the target month; the time of day is kept. -/
theorem addMonthsDays_spec (t : Int) (months days : Int) :
    let c := civilFromDays (DateTime.dayNum t + days)
    let tot := c.1 * 12 + (c.2.1 - 1) + months
    let y2 := tot / 12
    let m2 := tot % 12 + 1
    DateTime.addMonthsDays t months days = daysFromCivil y2 m2 (min c.2.2 (daysInMonth y2 m2)) * nsPerDay + DateTime.tod t := by
  intro c tot y2 m2
  have ht : t + days * nsPerDay = (DateTime.dayNum t + days) * nsPerDay + DateTime.tod t := by
    unfold DateTime.dayNum DateTime.tod nsPerDay; omega
  have htod0 : 0 ≤ DateTime.tod t := by unfold DateTime.tod nsPerDay; omega
  have htod1 : DateTime.tod t < nsPerDay := by unfold DateTime.tod nsPerDay; omega
  have hd := dayNum_mul (DateTime.dayNum t + days) (DateTime.tod t) htod0 htod1
  unfold DateTime.addMonthsDays
  simp only
  rw [ht]
  have hciv : DateTime.civil ((DateTime.dayNum t + days) * nsPerDay + DateTime.tod t) = c := by
    unfold DateTime.civil; rw [hd.1]
  have hy : DateTime.year ((DateTime.dayNum t + days) * nsPerDay + DateTime.tod t) = c.1 := by unfold DateTime.year; rw [hciv]
  have hm : DateTime.month ((DateTime.dayNum t + days) * nsPerDay + DateTime.tod t) = c.2.1 := by unfold DateTime.month; rw [hciv]
  have hdd : DateTime.day ((DateTime.dayNum t + days) * nsPerDay + DateTime.tod t) = c.2.2 := by unfold DateTime.day; rw [hciv]
  rw [hy, hm, hdd, hd.2, daysOfMonth_eq, goDate_norm]
  have hqr := quot_rem (c.2.1 + months)
  have hnm : normMonth (c.1 + quot (c.2.1 + months) 12) (rem (c.2.1 + months) 12) = (y2, m2) := by
    unfold normMonth
    ext <;> simp only <;> omega
  rw [hnm]

/-! ### dates -/

def InRange (y : Int) : Prop := minYear ≤ y ∧ y ≤ maxYear

instance (y : Int) : Decidable (InRange y) := inferInstanceAs (Decidable (minYear ≤ y ∧ y ≤ maxYear))

instance : DecidableEq (Except Err Date)
  | .ok a, .ok b => if h : a = b then isTrue (by rw [h]) else isFalse (by intro e; injection e; contradiction)
  | .error a, .error b => if h : a = b then isTrue (by rw [h]) else isFalse (by intro e; injection e; contradiction)
  | .ok _, .error _ => isFalse (by intro e; cases e)
  | .error _, .ok _ => isFalse (by intro e; cases e)

theorem valid_bounds {y m d : Int} (hv : Valid y m d) : (0 ≤ m ∧ m < 16) ∧ (0 ≤ d ∧ d < 32) := by
  obtain ⟨h1, h2, h3, h4⟩ := hv
  have : daysInMonth y m ≤ 31 := by
    rcases daysInMonth_cases y m with ⟨_, _, h⟩ | ⟨_, _, h⟩ | ⟨_, h⟩ | ⟨_, _, _, _, _, h⟩ <;> omega
  omega

/-- a real date of the representable range converts to midnight of its day number -/
theorem toDateTime_valid (y m d : Int) (hy : InRange y) (hv : Valid y m d) :
    (makeDate y m d).toDateTime = daysFromCivil y m d * nsPerDay := by
  have hb := valid_bounds hv
  obtain ⟨e1, e2, e3⟩ := makeDate_fields y m d hy hb.1 hb.2
  unfold Date.toDateTime
  rw [e1, e2, e3]
  exact goDate_midnight y m d ⟨hv.1, hv.2.1⟩

/-- the civil fields of a datetime -/
theorem civil_of (n r : Int) (h0 : 0 ≤ r) (h1 : r < nsPerDay) :
    DateTime.year (n * nsPerDay + r) = (civilFromDays n).1 ∧
    DateTime.month (n * nsPerDay + r) = (civilFromDays n).2.1 ∧
    DateTime.day (n * nsPerDay + r) = (civilFromDays n).2.2 := by
  have hd := dayNum_mul n r h0 h1
  unfold DateTime.year DateTime.month DateTime.day DateTime.civil
  rw [hd.1]; exact ⟨rfl, rfl, rfl⟩

/-- **no wrap**: a successful `CheckedDate` holds exactly the datetime's year, month and day, and the
year is inside the range; it fails exactly when the year is outside -/
theorem checkedDate_ok (t : Int) (r : Date) (h : DateTime.checkedDate t = .ok r) :
    r.year = DateTime.year t ∧ r.month = DateTime.month t ∧ r.day = DateTime.day t ∧ InRange r.year := by
  unfold DateTime.checkedDate at h
  split at h
  · cases h
  · rename_i hr
    injection h with h
    subst h
    have hv := civilFromDays_valid (DateTime.dayNum t)
    have hb := valid_bounds hv
    have hy : InRange (DateTime.year t) := by unfold InRange; omega
    obtain ⟨e1, e2, e3⟩ := makeDate_fields (DateTime.year t) (DateTime.month t) (DateTime.day t) hy
      (by unfold DateTime.month DateTime.civil; exact hb.1) (by unfold DateTime.day DateTime.civil; exact hb.2)
    unfold DateTime.date
    rw [e1]; exact ⟨rfl, e2, e3, hy⟩

theorem checkedDate_err (t : Int) :
    DateTime.checkedDate t = .error .year ↔ ¬ InRange (DateTime.year t) := by
  unfold DateTime.checkedDate InRange
  split <;> simp <;> omega

theorem checkedDate_cases (t : Int) :
    (∃ r, DateTime.checkedDate t = .ok r) ∨ DateTime.checkedDate t = .error .year := by
  unfold DateTime.checkedDate; split <;> simp

/-- the range-checked date of midnight of a real calendar day -/
theorem checkedDate_midnight (Y M D : Int) (hval : Valid Y M D) :
    DateTime.checkedDate (daysFromCivil Y M D * nsPerDay) =
      (if InRange Y then .ok (makeDate Y M D) else .error .year : Except Err Date) := by
  have hc := civil_of (daysFromCivil Y M D) 0 (by omega) nsPerDay_pos
  simp only [Int.add_zero] at hc
  have hrt := civilFromDays_daysFromCivil Y M D hval
  unfold DateTime.checkedDate DateTime.date
  rw [hc.1, hc.2.1, hc.2.2, hrt]
  dsimp only
  by_cases hr : InRange Y
  · rw [if_pos hr]; unfold InRange at hr; rw [if_neg (by omega)]
  · rw [if_neg hr]; unfold InRange at hr; rw [if_pos (by omega)]

/-- Date plus (months, days), in terms of the calendar alone -/
theorem date_add_spec (y m d : Int) (hy : InRange y) (hv : Valid y m d) (months days : Int) :
    let c := civilFromDays (daysFromCivil y m d + days)
    let tot := c.1 * 12 + (c.2.1 - 1) + months
    let y2 := tot / 12
    let m2 := tot % 12 + 1
    let d2 := min c.2.2 (daysInMonth y2 m2)
    DateTime.addMonthsDays (makeDate y m d).toDateTime months days = daysFromCivil y2 m2 d2 * nsPerDay ∧
    Valid y2 m2 d2 := by
  intro c tot y2 m2 d2
  have ht := toDateTime_valid y m d hy hv
  have hsp := addMonthsDays_spec (makeDate y m d).toDateTime months days
  have hd := dayNum_mul (daysFromCivil y m d) 0 (by omega) nsPerDay_pos
  simp only [Int.add_zero] at hd
  rw [ht] at hsp ⊢
  simp only [hd.1, hd.2, Int.add_zero] at hsp
  refine ⟨hsp, ?_⟩
  have hcv := civilFromDays_valid (daysFromCivil y m d + days)
  have hm2 : 1 ≤ m2 ∧ m2 ≤ 12 := by show 1 ≤ tot % 12 + 1 ∧ tot % 12 + 1 ≤ 12; omega
  have hdim : 1 ≤ daysInMonth y2 m2 := by
    rcases daysInMonth_cases y2 m2 with ⟨_, _, h⟩ | ⟨_, _, h⟩ | ⟨_, h⟩ | ⟨_, _, _, _, _, h⟩ <;> omega
  have hc1 : 1 ≤ c.2.2 := hcv.2.2.1
  refine ⟨hm2.1, hm2.2, ?_, ?_⟩
  · show 1 ≤ min c.2.2 (daysInMonth y2 m2); omega
  · show min c.2.2 (daysInMonth y2 m2) ≤ daysInMonth y2 m2; omega

/-! ### differences -/

theorem wrap32_id (x : Int) (h : -2147483648 ≤ x ∧ x < 2147483648) : wrap32 x = x := by
  unfold wrap32; omega

theorem normalise_zero (ds : DateSpan) : (DateTimeSpan.mk ds 0).normalise = ⟨ds, 0⟩ := by
  unfold DateTimeSpan.normalise
  have hq : quot 0 nsPerDay = 0 := by decide
  simp [hq]

/-- month count of a date: `year * 12 + month - 1` -/
def monthIndex (y m : Int) : Int := y * 12 + (m - 1)

theorem toDateSpan_valid (y m d : Int) (hy : InRange y) (hv : Valid y m d) :
    (makeDate y m d).toDateSpan = ⟨monthIndex y m, d - 1⟩ := by
  have hb := valid_bounds hv
  obtain ⟨e1, e2, e3⟩ := makeDate_fields y m d hy hb.1 hb.2
  unfold Date.toDateSpan makeDateSpan monthIndex
  rw [e1, e2, e3]
  unfold InRange minYear maxYear at hy
  rw [wrap32_id _ (by omega), wrap32_id _ (by omega)]
  congr 1; omega

/-- `Date - Date` is the field-wise difference (months on `year*12 + month`, days of the month) -/
theorem diffDate_valid (y1 m1 a y2 m2 b : Int) (hy1 : InRange y1) (hv1 : Valid y1 m1 a)
    (hy2 : InRange y2) (hv2 : Valid y2 m2 b) :
    (makeDate y1 m1 a).diffDate (makeDate y2 m2 b) = ⟨monthIndex y1 m1 - monthIndex y2 m2, a - b⟩ := by
  have ht := toDateTime_valid y1 m1 a hy1 hv1
  have hc := civil_of (daysFromCivil y1 m1 a) 0 (by omega) nsPerDay_pos
  have hd := dayNum_mul (daysFromCivil y1 m1 a) 0 (by omega) nsPerDay_pos
  simp only [Int.add_zero] at hc hd
  have hrt := civilFromDays_daysFromCivil y1 m1 a hv1
  unfold Date.diffDate DateTime.diffDate DateTime.toSpan DateTimeSpan.subDateSpan newDateTimeSpan
  rw [ht, hd.2]
  have hdate : DateTime.date (daysFromCivil y1 m1 a * nsPerDay) = makeDate y1 m1 a := by
    unfold DateTime.date; rw [hc.1, hc.2.1, hc.2.2, hrt]
  rw [hdate, toDateSpan_valid y1 m1 a hy1 hv1, toDateSpan_valid y2 m2 b hy2 hv2, normalise_zero]
  simp only
  rw [normalise_zero]
  simp only
  have hb1 := valid_bounds hv1
  have hb2 := valid_bounds hv2
  unfold InRange minYear maxYear at hy1 hy2
  unfold DateSpan.add DateSpan.negate monthIndex
  simp only
  have h1 := hv1.1; have h1' := hv1.2.1; have h2 := hv2.1; have h2' := hv2.2.1
  rw [wrap32_id (-(y2 * 12 + (m2 - 1))) (by omega), wrap32_id (-(b - 1)) (by omega),
    wrap32_id _ (by omega), wrap32_id _ (by omega)]
  congr 1 <;> omega

end Elk.Date
