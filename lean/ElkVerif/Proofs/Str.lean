import ElkVerif.Model.Str
import ElkVerif.Proofs.Utf8
/-! Lemmas for C20. -/
namespace Elk.Str
open Elk.Utf8

/-! ### index normalisation -/

theorem normIdx_spec (i : Int) (n k : Nat) :
    normIdx i n = some k ↔ (-(n : Int) ≤ i ∧ i < n ∧ (k : Int) = i % n) := by
  unfold normIdx
  by_cases h1 : 0 ≤ i ∧ i < n
  · have hm : i % (n : Int) = i := Int.emod_eq_of_lt h1.1 h1.2
    rw [if_pos h1, hm, Option.some.injEq]
    exact ⟨fun h => ⟨by omega, by omega, by omega⟩, fun h => by omega⟩
  · rw [if_neg h1]
    by_cases h2 : -(n : Int) ≤ i ∧ i < 0
    · have hm : i % (n : Int) = i + n := by
        have h3 : (i + n) % (n : Int) = i + n := Int.emod_eq_of_lt (by omega) (by omega)
        rw [← h3, Int.add_emod_right]
      rw [if_pos h2, hm, Option.some.injEq]
      exact ⟨fun h => ⟨by omega, by omega, by omega⟩, fun h => by omega⟩
    · rw [if_neg h2]
      exact ⟨fun h => (by cases h), fun h => (by omega)⟩

theorem normIdx_lt (i : Int) (n k : Nat) (h : normIdx i n = some k) : k < n := by
  unfold normIdx at h
  split at h
  · injection h with h; omega
  · split at h
    · injection h with h; omega
    · cases h

theorem normIdx_none (i : Int) (n : Nat) : normIdx i n = none ↔ ¬ (-(n : Int) ≤ i ∧ i < n) := by
  unfold normIdx
  by_cases h1 : 0 ≤ i ∧ i < n
  · simp [h1]; omega
  · by_cases h2 : -(n : Int) ≤ i ∧ i < 0
    · simp [h1, h2]; omega
    · simp [h1, h2]; omega

/-! ### char_at -/

theorem getView_nil : getView [] = [] := by rw [getView]

theorem getView_cons (b : UInt8) (rest : Bytes) :
    getView (b :: rest) =
      (if (decodeRune (b :: rest)).1 = runeError ∧ (decodeRune (b :: rest)).2 = 1 then b.toNat else (decodeRune (b :: rest)).1)
        :: getView ((b :: rest).drop (decodeRune (b :: rest)).2) := by rw [getView]

theorem getLoop_eq : ∀ (n : Nat) (s : Bytes), s.length = n → ∀ i, getLoop s i = (getView s)[i]? := by
  intro n
  induction n using Nat.strongRecOn with
  | _ n ih =>
    intro s hs i
    cases s with
    | nil => rw [getLoop, getView_nil]; simp
    | cons b rest =>
      have h1 := decodeRune_width_pos (b :: rest) (by simp)
      rw [getLoop, getView_cons]
      cases i with
      | zero => simp
      | succ j =>
        simp only [Nat.succ_ne_zero, if_false, Nat.add_sub_cancel, List.getElem?_cons_succ]
        exact ih _ (by simp only [List.length_drop, List.length_cons] at *; omega) _ rfl j

theorem getView_length : ∀ (n : Nat) (s : Bytes), s.length = n → (getView s).length = charCount s := by
  intro n
  induction n using Nat.strongRecOn with
  | _ n ih =>
    intro s hs
    cases s with
    | nil => simp [getView_nil, charCount, runeCount, pieces_nil]
    | cons b rest =>
      have h1 := decodeRune_width_pos (b :: rest) (by simp)
      rw [getView_cons]
      simp only [charCount, runeCount, pieces_cons, List.length_cons]
      have := ih _ (by simp only [List.length_drop, List.length_cons] at *; omega)
        ((b :: rest).drop (decodeRune (b :: rest)).2) rfl
      simp only [charCount, runeCount] at this
      omega

/-- on valid UTF-8 `char_at` indexes into exactly what the char iterator yields -/
theorem getView_valid : ∀ (n : Nat) (s : Bytes), s.length = n → valid s = true → getView s = charIter s := by
  intro n
  induction n using Nat.strongRecOn with
  | _ n ih =>
    intro s hs hv
    cases s with
    | nil => simp [getView_nil, charIter, runes, pieces_nil]
    | cons b rest =>
      have h1 := decodeRune_width_pos (b :: rest) (by simp)
      rw [getView_cons]
      simp only [valid, pieces_cons, List.all_cons, Bool.and_eq_true] at hv
      simp only [charIter, runes, pieces_cons, List.map_cons]
      have hne : ¬ ((decodeRune (b :: rest)).1 = runeError ∧ (decodeRune (b :: rest)).2 = 1) := by
        intro ⟨a, c⟩; simp [a, c] at hv
      simp only [hne, if_false]
      congr 1
      exact ih _ (by simp only [List.length_drop, List.length_cons] at *; omega) _ rfl (by simpa [valid] using hv.2)

theorem get_eq (s : Bytes) (i : Int) :
    get s i = match normIdx i (charCount s) with
      | some k => (match (getView s)[k]? with | some c => .ok c | none => .err .index)
      | none => .err .index := by
  have hlen := getView_length s.length s rfl
  unfold get normIdx
  by_cases hneg : i < 0
  · have h1 : ¬ (0 ≤ i ∧ i < (charCount s : Int)) := by omega
    rw [if_pos hneg, if_neg h1]
    by_cases h2 : (charCount s : Int) + i < 0
    · have h3 : ¬ (-(charCount s : Int) ≤ i ∧ i < 0) := by omega
      rw [if_neg h3]; simp only [h2, if_true]
    · have h3 : (-(charCount s : Int) ≤ i ∧ i < 0) := by omega
      rw [if_pos h3]; simp only [h2, if_false, getLoop_eq s.length s rfl]
      rw [Int.add_comm]
      split <;> simp_all
  · rw [if_neg hneg]
    simp only [getLoop_eq s.length s rfl]
    by_cases h1 : 0 ≤ i ∧ i < (charCount s : Int)
    · rw [if_pos h1]
      split <;> simp_all
    · have h3 : ¬ (-(charCount s : Int) ≤ i ∧ i < 0) := by omega
      rw [if_neg h1, if_neg h3]
      have : (getView s)[i.toNat]? = none := by
        apply List.getElem?_eq_none; omega
      rw [this]

end Elk.Str

namespace Elk.Str
open Elk.Utf8

/-! ### byte_at -/

theorem byteAtInt_eq (s : Bytes) (i : Int) :
    byteAtInt s i = match normIdx i s.length with
      | some k => (match s[k]? with | some b => .ok b | none => .panic)
      | none => .err .index := by
  unfold byteAtInt normIdx
  by_cases h1 : 0 ≤ i ∧ i < (s.length : Int)
  · have h0 : ¬ (i ≥ (s.length : Int) ∨ i < -(s.length : Int)) := by omega
    have hneg : ¬ i < 0 := by omega
    rw [if_pos h1]
    simp only [h0, if_false, hneg]
    split <;> simp_all
  · rw [if_neg h1]
    by_cases h2 : -(s.length : Int) ≤ i ∧ i < 0
    · have h0 : ¬ (i ≥ (s.length : Int) ∨ i < -(s.length : Int)) := by omega
      rw [if_pos h2]
      simp only [h0, if_false, h2.2, if_true]
      rw [Int.add_comm]
      split <;> simp_all
    · have h0 : (i ≥ (s.length : Int) ∨ i < -(s.length : Int)) := by omega
      rw [if_neg h2]
      simp only [h0, if_true]

/-! ### index kinds -/

theorem charCount_le (s : Bytes) : charCount s ≤ s.length := by
  have : ∀ (n : Nat) (s : Bytes), s.length = n → charCount s ≤ s.length := by
    intro n
    induction n using Nat.strongRecOn with
    | _ n ih =>
      intro s hs
      cases s with
      | nil => simp [charCount, runeCount, pieces_nil]
      | cons b rest =>
        have h1 := decodeRune_width_pos (b :: rest) (by simp)
        have h2 := decodeRune_width_le (b :: rest)
        have := ih _ (by simp only [List.length_drop, List.length_cons] at *; omega)
          ((b :: rest).drop (decodeRune (b :: rest)).2) rfl
        simp only [charCount, runeCount, pieces_cons, List.length_cons, List.length_drop] at *
        omega
  exact this s.length s rfl

/-- values `toGoInt` rejects are outside every index range of a string shorter than 2^63 -/
theorem toGoInt_some (k : IKind) (v i : Int) (h : toGoInt k v = some i) : i = v := by
  unfold toGoInt at h
  cases k <;> simp at h <;> (try split at h) <;> simp_all

theorem toGoInt_none (k : IKind) (v : Int) (h : toGoInt k v = none) : v < -two63 ∨ two63 ≤ v := by
  unfold toGoInt at h
  cases k <;> simp at h <;> omega

end Elk.Str

namespace Elk.Str
open Elk.Utf8

/-! ### concatenation and padding -/

theorem valid_cons (b : UInt8) (rest : Bytes) (h : valid (b :: rest) = true) :
    ¬ ((decodeRune (b :: rest)).1 = runeError ∧ (decodeRune (b :: rest)).2 = 1) ∧
      valid ((b :: rest).drop (decodeRune (b :: rest)).2) = true := by
  simp only [valid, pieces_cons, List.all_cons, Bool.and_eq_true] at h
  refine ⟨?_, by simpa [valid] using h.2⟩
  intro ⟨a, c⟩; simp [a, c] at h

/-- the decoder is a monoid morphism at valid boundaries: if `a` is valid UTF-8 the pieces of
`a ++ b` are the pieces of `a` followed by the pieces of `b` -/
theorem pieces_append_valid : ∀ (n : Nat) (a : Bytes), a.length = n → valid a = true → ∀ b : Bytes,
    pieces (a ++ b) = pieces a ++ pieces b := by
  intro n
  induction n using Nat.strongRecOn with
  | _ n ih =>
    intro a ha hv b
    cases a with
    | nil => simp [pieces_nil]
    | cons x xs =>
      obtain ⟨hne, hrest⟩ := valid_cons x xs hv
      have h1 := decodeRune_width_pos (x :: xs) (by simp)
      have h2 := decodeRune_width_le (x :: xs)
      have hd : decodeRune (x :: xs ++ b) = decodeRune (x :: xs) :=
        decodeRune_append_valid x xs b (by intro ⟨e, _⟩; rw [e] at hne; exact hne ⟨rfl, rfl⟩)
      have hp : pieces (x :: xs ++ b) =
          decodeRune (x :: xs ++ b) :: pieces ((x :: xs ++ b).drop (decodeRune (x :: xs ++ b)).2) :=
        pieces_cons x (xs ++ b)
      rw [pieces_cons x xs, hp, hd]
      rw [List.drop_append_of_le_length h2]
      rw [ih _ (by simp only [List.length_drop, List.length_cons] at *; omega) _ rfl hrest b]
      simp

theorem charCount_append_valid (a b : Bytes) (h : valid a = true) :
    charCount (a ++ b) = charCount a + charCount b := by
  simp [charCount, runeCount, pieces_append_valid a.length a rfl h b]

theorem charIter_append_valid (a b : Bytes) (h : valid a = true) :
    charIter (a ++ b) = charIter a ++ charIter b := by
  simp [charIter, runes, pieces_append_valid a.length a rfl h b]

theorem pieces_pad (k : Nat) (c : Int) (s : Bytes) :
    ∃ r, ValidScalar r ∧ encodeRuneInt c = encodeRune r ∧
      pieces ((List.replicate k (encodeRuneInt c)).flatten ++ s) =
        List.replicate k (r, (encodeRune r).length) ++ pieces s := by
  obtain ⟨r, hv, he⟩ := encodeRuneInt_scalar c
  refine ⟨r, hv, he, ?_⟩
  have : List.replicate k (encodeRuneInt c) = (List.replicate k r).map encodeRune := by simp [he]
  rw [this, runes_flatten_encode _ (by intro x hx; rw [List.eq_of_mem_replicate hx]; exact hv)]
  simp

theorem charCount_pad (k : Nat) (c : Int) (s : Bytes) :
    charCount ((List.replicate k (encodeRuneInt c)).flatten ++ s) = k + charCount s := by
  obtain ⟨r, _, _, hp⟩ := pieces_pad k c s
  simp [charCount, runeCount, hp]

/-! ### repeat -/

theorem flatten_replicate_nil (n : Nat) : (List.replicate n ([] : Bytes)).flatten = [] := by
  induction n with
  | zero => rfl
  | succ k ih => simp [List.replicate_succ, ih]

/-! ### comparison -/

/-- strict bytewise lexicographic order -/
inductive LexLt : Bytes → Bytes → Prop
  | nil (b : UInt8) (bs : Bytes) : LexLt [] (b :: bs)
  | head (a b : UInt8) (as bs : Bytes) (h : a.toNat < b.toNat) : LexLt (a :: as) (b :: bs)
  | tail (a : UInt8) (as bs : Bytes) (h : LexLt as bs) : LexLt (a :: as) (a :: bs)

theorem cmp_lt_iff : ∀ (a b : Bytes), cmp a b = -1 ↔ LexLt a b := by
  intro a
  induction a with
  | nil =>
    intro b
    cases b with
    | nil => simp [cmp]; intro h; cases h
    | cons y ys => simp [cmp]; exact LexLt.nil y ys
  | cons x xs ih =>
    intro b
    cases b with
    | nil => simp [cmp]; intro h; cases h
    | cons y ys =>
      simp only [cmp]
      by_cases h1 : x.toNat < y.toNat
      · simp [h1]; exact LexLt.head x y xs ys h1
      · by_cases h2 : x.toNat > y.toNat
        · simp only [h1, h2, if_false, if_true]
          constructor
          · intro h; omega
          · intro h
            cases h with
            | head _ _ _ _ h => omega
            | tail _ _ _ h => omega
        · have hxy : x = y := UInt8.toNat_inj.mp (by omega)
          subst hxy
          simp only [h1, h2, if_false, ih ys]
          constructor
          · intro h; exact LexLt.tail x xs ys h
          · intro h
            cases h with
            | head _ _ _ _ h => omega
            | tail _ _ _ h => exact h

theorem cmp_eq_iff : ∀ (a b : Bytes), cmp a b = 0 ↔ a = b := by
  intro a
  induction a with
  | nil => intro b; cases b <;> simp [cmp]
  | cons x xs ih =>
    intro b
    cases b with
    | nil => simp [cmp]
    | cons y ys =>
      simp only [cmp]
      by_cases h1 : x.toNat < y.toNat
      · simp [h1]; intro h; subst h; omega
      · by_cases h2 : x.toNat > y.toNat
        · simp [h1, h2]; intro h; subst h; omega
        · have hxy : x = y := UInt8.toNat_inj.mp (by omega)
          subst hxy
          simp [ih ys]

theorem cmp_antisymm : ∀ (a b : Bytes), cmp b a = - cmp a b := by
  intro a
  induction a with
  | nil => intro b; cases b <;> simp [cmp]
  | cons x xs ih =>
    intro b
    cases b with
    | nil => simp [cmp]
    | cons y ys =>
      simp only [cmp]
      by_cases h1 : x.toNat < y.toNat
      · have : ¬ y.toNat < x.toNat := by omega
        simp [h1, this]
      · by_cases h2 : x.toNat > y.toNat
        · simp [h1, h2]
        · have h3 : ¬ y.toNat < x.toNat := by omega
          have h4 : ¬ y.toNat > x.toNat := by omega
          simp [h1, h2, h3, h4, ih ys]

theorem cmp_range (a b : Bytes) : cmp a b = -1 ∨ cmp a b = 0 ∨ cmp a b = 1 := by
  induction a generalizing b with
  | nil => cases b <;> simp [cmp]
  | cons x xs ih =>
    cases b with
    | nil => simp [cmp]
    | cons y ys =>
      simp only [cmp]
      split
      · simp
      · split
        · simp
        · exact ih ys

/-! ### remove suffix -/

theorem cutSuffix_append (t suf : Bytes) : cutSuffix (t ++ suf) suf = t := by
  unfold cutSuffix
  have h1 : suf.length ≤ (t ++ suf).length := by simp
  have h2 : (t ++ suf).length - suf.length = t.length := by simp
  simp [h2]

theorem cutSuffix_not (s suf : Bytes) (h : ¬ ∃ t, s = t ++ suf) : cutSuffix s suf = s := by
  unfold cutSuffix
  split
  · rename_i hc
    exfalso; apply h
    refine ⟨s.take (s.length - suf.length), ?_⟩
    have := List.take_append_drop (s.length - suf.length) s
    rw [hc.2] at this
    exact this.symm
  · rfl

end Elk.Str
