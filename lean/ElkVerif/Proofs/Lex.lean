import ElkVerif.Model.Lex
/-! Helper lemmas for C04: slicing, colorize tiling, ANSI stripping, positions, the cursor machine. -/
namespace Elk.Lex

/-! ### slices -/

theorem slice_glue {α} (l : List α) (a b : Nat) (h : a ≤ b) :
    (l.drop a).take (b - a) ++ l.drop b = l.drop a := by
  have h1 : l.drop b = (l.drop a).drop (b - a) := by
    rw [List.drop_drop]; congr 1; omega
  rw [h1, List.take_append_drop]

theorem goSlice_some (src : Bytes) (a b : Int) (h0 : 0 ≤ a) (h1 : a ≤ b) (h2 : b ≤ src.length) :
    goSlice src a b = some ((src.drop a.toNat).take (b.toNat - a.toNat)) := by
  simp [goSlice, h0, h1, h2]

/-! ### tiling -/

theorem payload_cons (s : Seg) (segs : List Seg) : payload (s :: segs) = s.payload ++ payload segs := by
  simp [payload]

theorem render_cons (s : Seg) (segs : List Seg) : render (s :: segs) = s.render ++ render segs := by
  simp [render]

theorem colorizeFrom_tiling (src : Bytes) (style : Tok → List Nat) (toks : List Tok) :
    ∀ lo : Int, 0 ≤ lo → lo ≤ src.length → spansOkFrom src.length lo toks = true →
      ∃ segs, colorizeFrom src style lo toks = some segs ∧ payload segs = src.drop lo.toNat := by
  induction toks with
  | nil =>
    intro lo h0 h1 _
    refine ⟨[.plain ((src.drop lo.toNat).take ((src.length : Int).toNat - lo.toNat))], ?_, ?_⟩
    · simp [colorizeFrom, goSlice_some src lo src.length h0 h1 (Int.le_refl _)]
    · have : payload ([] : List Seg) = [] := by simp [payload]
      rw [payload_cons, this, List.append_nil]
      show List.take _ _ = _
      apply List.take_of_length_le
      simp
  | cons t ts ih =>
    intro lo h0 h1 hs
    simp only [spansOkFrom, Bool.and_eq_true, decide_eq_true_eq] at hs
    obtain ⟨⟨hlo, hse, hen⟩, hrest⟩ := hs
    obtain ⟨rest, hr, hp⟩ := ih (t.e + 1) (by omega) (by omega) hrest
    refine ⟨.plain ((src.drop lo.toNat).take (t.s.toNat - lo.toNat)) ::
            .styled (style t) ((src.drop t.s.toNat).take ((t.e + 1).toNat - t.s.toNat)) :: rest, ?_, ?_⟩
    · simp [colorizeFrom, goSlice_some src lo t.s h0 hlo (by omega),
        goSlice_some src t.s (t.e + 1) (by omega) (by omega) (by omega), hr]
    · simp only [payload_cons, Seg.payload, hp]
      rw [slice_glue src t.s.toNat (t.e + 1).toNat (by omega), slice_glue src lo.toNat t.s.toNat (by omega)]

/-! ### ANSI stripping -/

theorem isParam_iff (b : Nat) : isParam b = true ↔ (48 ≤ b ∧ b ≤ 57) ∨ b = 59 := by
  simp [isParam]

theorem stripFrom_normal_plain (xs rest : Bytes) (h : ∀ b ∈ xs, b ≠ 27) :
    stripFrom .normal (xs ++ rest) = xs ++ stripFrom .normal rest := by
  induction xs with
  | nil => simp
  | cons x xs ih =>
    have hx : x ≠ 27 := h x (by simp)
    have := ih (fun b hb => h b (by simp [hb]))
    simp [stripFrom, hx, this]

theorem stripFrom_params (ps rest : Bytes) (h : ∀ b ∈ ps, isParam b = true) :
    ∀ pend, stripFrom (.params pend) (ps ++ 109 :: rest) = stripFrom .normal rest := by
  induction ps with
  | nil => intro pend; simp [stripFrom]
  | cons x xs ih =>
    intro pend
    have hx : isParam x = true := h x (by simp)
    have hx' : x ≠ 109 := by
      have := (isParam_iff x).1 hx
      omega
    have := ih (fun b hb => h b (by simp [hb])) (pend ++ [x])
    simp [stripFrom, hx, hx', this]

theorem decDigitsAux_param (fuel : Nat) : ∀ (n : Nat) (acc : Bytes), (∀ b ∈ acc, isParam b = true) →
    ∀ b ∈ decDigitsAux fuel n acc, isParam b = true := by
  induction fuel with
  | zero =>
    intro n acc hacc b hb
    simp only [decDigitsAux, List.mem_cons] at hb
    rcases hb with rfl | hb
    · rw [isParam_iff]; omega
    · exact hacc b hb
  | succ f ih =>
    intro n acc hacc b hb
    simp only [decDigitsAux] at hb
    split at hb
    · simp only [List.mem_cons] at hb
      rcases hb with rfl | hb
      · rw [isParam_iff]; omega
      · exact hacc b hb
    · refine ih (n / 10) _ ?_ b hb
      intro c hc
      simp only [List.mem_cons] at hc
      rcases hc with rfl | hc
      · rw [isParam_iff]; omega
      · exact hacc c hc

theorem decDigits_param (n : Nat) : ∀ b ∈ decDigits n, isParam b = true :=
  decDigitsAux_param n n [] (by simp)

theorem joinCodes_param : ∀ codes : List Nat, ∀ b ∈ joinCodes codes, isParam b = true
  | [] => by simp [joinCodes]
  | [c] => by simpa [joinCodes] using decDigits_param c
  | c :: d :: cs => by
    intro b hb
    simp only [joinCodes, List.mem_append, List.mem_cons] at hb
    rcases hb with hb | rfl | hb
    · exact decDigits_param c b hb
    · decide
    · exact joinCodes_param (d :: cs) b hb

theorem stripFrom_sgrSeq (codes : List Nat) (rest : Bytes) :
    stripFrom .normal (sgrSeq codes ++ rest) = stripFrom .normal rest := by
  have := stripFrom_params (joinCodes codes) rest (joinCodes_param codes) [27, 91]
  simpa [sgrSeq, stripFrom] using this

theorem stripFrom_sgrReset (rest : Bytes) :
    stripFrom .normal (sgrReset ++ rest) = stripFrom .normal rest := by
  simp [sgrReset, stripFrom, isParam]

theorem strip_render (segs : List Seg) (h : ∀ s ∈ segs, ∀ b ∈ s.payload, b ≠ 27) :
    stripFrom .normal (render segs) = payload segs := by
  induction segs with
  | nil => simp [render, payload, stripFrom]
  | cons s segs ih =>
    have ih' := ih (fun s' hs' => h s' (by simp [hs']))
    have hs := h s (by simp)
    rw [render_cons, payload_cons]
    cases s with
    | plain bs =>
      simp only [Seg.render, Seg.payload] at hs ⊢
      rw [stripFrom_normal_plain bs _ hs, ih']
    | styled codes bs =>
      simp only [Seg.render, Seg.payload] at hs ⊢
      rw [List.append_assoc, List.append_assoc, stripFrom_sgrSeq, stripFrom_normal_plain bs _ hs,
        stripFrom_sgrReset, ih']

theorem mem_payload_of_mem {s : Seg} {segs : List Seg} (hs : s ∈ segs) {b : Nat} (hb : b ∈ s.payload) :
    b ∈ payload segs := by
  simp only [payload, List.mem_flatten, List.mem_map]
  exact ⟨s.payload, ⟨s, hs, rfl⟩, hb⟩

/-! ### positions -/

theorem runeWidth_pos (b : Nat) (rest : Bytes) : 1 ≤ runeWidth (b :: rest) := by
  simp only [runeWidth]
  repeat' split
  all_goals omega

theorem runeWidth_le : ∀ bs : Bytes, runeWidth bs ≤ bs.length
  | [] => by simp [runeWidth]
  | b :: rest => by
    simp only [runeWidth]
    repeat' split
    all_goals simp_all
    all_goals omega

theorem runeWidth_le' (bs : Bytes) : runeWidth bs ≤ bs.length := runeWidth_le bs

/-- fuel beyond the length of the input is irrelevant -/
theorem posFrom_fuel (f : Nat) : ∀ (g : Nat) (bs : Bytes) (off : Nat) (p : Pos),
    bs.length ≤ f → bs.length ≤ g → posFrom f bs off p = posFrom g bs off p := by
  induction f with
  | zero =>
    intro g bs off p hf _
    have : bs = [] := by cases bs <;> simp_all
    subst this
    cases g <;> simp [posFrom]
  | succ f ih =>
    intro g bs off p hf hg
    cases bs with
    | nil => cases g <;> simp [posFrom]
    | cons b rest =>
      cases g with
      | zero => simp at hg
      | succ g =>
        simp only [posFrom]
        split
        · rfl
        · have h1 := runeWidth_pos b rest
          apply ih
          · simp only [List.length_drop, List.length_cons] at *; omega
          · simp only [List.length_drop, List.length_cons] at *; omega


/-- `At src k p`: offset `k` is a rune boundary of `src` (reached from 0 by whole runes) and `p` is its line/column,
counting one column per rune and a new line after each `\n` rune. -/
inductive At (src : Bytes) : Nat → Pos → Prop
  | zero : At src 0 ⟨1, 1⟩
  | step {k : Nat} {p : Pos} : At src k p → k < src.length →
      At src (k + runeWidth (src.drop k)) (bump (src.getD k 0) p)

theorem drop_cons_getD (src : Bytes) (k : Nat) (h : k < src.length) :
    src.drop k = src.getD k 0 :: src.drop (k + 1) := by
  rw [List.drop_eq_getElem_cons h]
  simp [List.getD, List.getElem?_eq_getElem h]

theorem At.le {src : Bytes} {k : Nat} {p : Pos} (h : At src k p) : k ≤ src.length := by
  induction h with
  | zero => omega
  | @step k p _ hk ih =>
    have := runeWidth_le (src.drop k)
    simp only [List.length_drop] at this
    omega

theorem at_posFrom {src : Bytes} {k : Nat} {p : Pos} (h : At src k p) :
    ∀ off f, src.length - k ≤ f →
      posFrom src.length src (k + off) ⟨1, 1⟩ = posFrom f (src.drop k) off p := by
  induction h with
  | zero =>
    intro off f hf
    simp only [Nat.zero_add, List.drop_zero]
    exact posFrom_fuel _ _ _ _ _ (Nat.le_refl _) (by omega)
  | @step k p _ hk ih =>
    intro off f hf
    have hw := runeWidth_pos (src.getD k 0) (src.drop (k + 1))
    rw [← drop_cons_getD src k hk] at hw
    obtain ⟨g, hg⟩ : ∃ g, f + runeWidth (src.drop k) = g + 1 := ⟨f + runeWidth (src.drop k) - 1, by omega⟩
    have h1 := ih (runeWidth (src.drop k) + off) (g + 1) (by omega)
    rw [Nat.add_assoc, h1]
    have hstep : posFrom (g + 1) (src.drop k) (runeWidth (src.drop k) + off) p =
        posFrom g (src.drop (k + runeWidth (src.drop k))) off (bump (src.getD k 0) p) := by
      conv => lhs; rw [drop_cons_getD src k hk]
      simp only [posFrom]
      rw [← drop_cons_getD src k hk]
      have : ¬ (runeWidth (List.drop k src) + off < runeWidth (List.drop k src)) := by omega
      simp only [this, if_false, List.drop_drop]
      congr 1
      omega
    rw [hstep]
    apply posFrom_fuel
    · simp only [List.length_drop]; omega
    · simp only [List.length_drop]; omega

/-- the position the model computes for a rune boundary is the one `At` derives -/
theorem at_posOf {src : Bytes} {k : Nat} {p : Pos} (h : At src k p) : posOf src k = p := by
  have := at_posFrom h 0 (src.length - k) (Nat.le_refl _)
  simp only [Nat.add_zero] at this
  rw [posOf, this]
  cases hf : src.length - k with
  | zero => simp [posFrom]
  | succ n =>
    have hk : k < src.length := by omega
    rw [drop_cons_getD src k hk]
    simp only [posFrom]
    have := runeWidth_pos (src.getD k 0) (src.drop (k + 1))
    simp only [show 0 < runeWidth (src.getD k 0 :: src.drop (k + 1)) from this, if_true]

/-- every byte of a rune has the position of the rune -/
theorem at_posOf_inside {src : Bytes} {k : Nat} {p : Pos} (h : At src k p) (hk : k < src.length)
    (j : Nat) (hj : j < runeWidth (src.drop k)) : posOf src (k + j) = p := by
  have := at_posFrom h j (src.length - k) (Nat.le_refl _)
  rw [posOf, this]
  cases hf : src.length - k with
  | zero => omega
  | succ n =>
    rw [drop_cons_getD src k hk]
    simp only [posFrom]
    rw [← drop_cons_getD src k hk]
    simp only [hj, if_true]

theorem At.unique {src : Bytes} {k : Nat} {p q : Pos} (h1 : At src k p) (h2 : At src k q) : p = q := by
  rw [← at_posOf h1, ← at_posOf h2]

/-- a non-zero boundary is the end of a rune that starts at a boundary -/
theorem At.pred {src : Bytes} {k : Nat} {q : Pos} (h : At src k q) (hk : 0 < k) :
    ∃ k' p', At src k' p' ∧ k' < src.length ∧ k = k' + runeWidth (src.drop k') ∧ q = bump (src.getD k' 0) p' := by
  cases h with
  | zero => omega
  | @step k' p' h' hk' => exact ⟨k', p', h', hk', rfl, rfl⟩

/-! ### the cursor machine -/

/-- the machine's counters describe rune boundaries: `(startLine, startColumn)` is the position of `start`,
`(line, column)` the position of `cursor`, and `start ≤ cursor` -/
def Inv (src : Bytes) (c : Cur) : Prop :=
  ∃ s k : Nat, c.start = s ∧ c.cursor = k ∧ s ≤ k ∧
    At src s ⟨c.startLine, c.startColumn⟩ ∧ At src k ⟨c.line, c.column⟩

/-- The ways the scanner may use the primitives (each with its precondition). A line break must be followed
by `incrementLine`; `backupChar` is only sound after a one-byte character on the same line; `skipByte` likewise;
`tokenWithValue` needs a non-empty lexeme; a saved position may be restored if it is a boundary not before `start`. -/
inductive Macro (src : Bytes) : Cur → List Op → Prop
  | adv (c : Cur) (k : Nat) : c.cursor = k → k < src.length → src.getD k 0 ≠ 10 → Macro src c [.advance]
  | advNL (c : Cur) (k : Nat) : c.cursor = k → k < src.length → src.getD k 0 = 10 →
      Macro src c [.advance, .incrementLine]
  | backup (c : Cur) (k : Nat) (p : Pos) : c.cursor = k + 1 → c.start ≤ k → At src k p →
      runeWidth (src.drop k) = 1 → src.getD k 0 ≠ 10 → Macro src c [.backup 1]
  | skipToken (c : Cur) : Macro src c [.skipToken]
  | skipByte (c : Cur) (s : Nat) : c.start = s → c.start < c.cursor → runeWidth (src.drop s) = 1 →
      src.getD s 0 ≠ 10 → Macro src c [.skipByte]
  | emit (c : Cur) (typ : Nat) : c.start < c.cursor → Macro src c [.emit typ]
  | restore (c : Cur) (k : Nat) (l col : Int) : c.start ≤ k → At src k ⟨l, col⟩ → Macro src c [.restore k l col]

inductive Guarded (src : Bytes) : Cur → List Op → Prop
  | nil (c : Cur) : Guarded src c []
  | cons {c : Cur} {ops rest : List Op} : Macro src c ops → Guarded src (run src c ops).1 rest →
      Guarded src c (ops ++ rest)

theorem run_append (src : Bytes) (a b : List Op) : ∀ c : Cur,
    run src c (a ++ b) = ((run src (run src c a).1 b).1, (run src c a).2 ++ (run src (run src c a).1 b).2) := by
  induction a with
  | nil => intro c; simp [run]
  | cons op ops ih =>
    intro c
    simp only [List.cons_append, run]
    rw [ih]
    simp [List.append_assoc]

/-- what is guaranteed about an emitted token -/
structure TokOk (src : Bytes) (lo : Int) (t : Tok) : Prop where
  lo_le : lo ≤ t.s
  s_le_e : t.s ≤ t.e
  e_lt : t.e < src.length
  startOk : startPosOk src t = true
  endLax : endPosOk src t = true ∨ endPosNewlineDefect src t = true
  endOk : src.getD t.e.toNat 0 ≠ 10 → endPosOk src t = true

theorem bump_ne {b : Nat} (h : b ≠ 10) (p : Pos) : bump b p = ⟨p.line, p.col + 1⟩ := by simp [bump, h]
theorem bump_nl (p : Pos) : bump 10 p = ⟨p.line + 1, 1⟩ := by simp [bump]

theorem runeWidth_nl (rest : Bytes) : runeWidth (10 :: rest) = 1 := by simp [runeWidth]

theorem emit_ok (src : Bytes) (c : Cur) (typ : Nat) (hinv : Inv src c) (h : c.start < c.cursor) :
    TokOk src c.start (emitTok typ c).1 ∧ (emitTok typ c).2.start = (emitTok typ c).1.e + 1 ∧
    Inv src (emitTok typ c).2 := by
  obtain ⟨s, k, hs, hk, hsk, has, hak⟩ := hinv
  have hkle := hak.le
  have hsk' : s < k := by omega
  have hpos_s : posOf src s = ⟨c.startLine, c.startColumn⟩ := at_posOf has
  obtain ⟨k', p', hak', hk'lt, hkeq, hq⟩ := hak.pred (by omega)
  have hw := runeWidth_pos (src.getD k' 0) (src.drop (k' + 1))
  rw [← drop_cons_getD src k' hk'lt] at hw
  refine ⟨?_, ?_, ?_⟩
  · by_cases he : c.cursor - 1 = c.start
    · -- one-byte token: end = start
      have : (emitTok typ c).1 = ⟨typ, c.start, c.startLine, c.startColumn, c.start, c.startLine, c.startColumn, []⟩ := by
        simp [emitTok, he]
      rw [this]
      refine ⟨by simp, by simp, by simp; omega, ?_, ?_, ?_⟩
      · simp [startPosOk, hs, hpos_s]
      · left; simp [endPosOk, hs, hpos_s]
      · intro _; simp [endPosOk, hs, hpos_s]
    · have : (emitTok typ c).1 = ⟨typ, c.start, c.startLine, c.startColumn, c.cursor - 1, c.line, c.column - 1, []⟩ := by
        simp [emitTok, he]
      rw [this]
      have hlast : posOf src (k - 1) = p' := by
        have := at_posOf_inside hak' hk'lt (runeWidth (src.drop k') - 1) (by omega)
        rw [← this]; congr 1; omega
      have hetoNat : (c.cursor - 1).toNat = k - 1 := by omega
      refine ⟨by simp, by simp; omega, by simp; omega, ?_, ?_, ?_⟩
      · simp [startPosOk, hs, hpos_s]
      · by_cases hb : src.getD k' 0 = 10
        · right
          have hw1 : runeWidth (src.drop k') = 1 := by
            rw [drop_cons_getD src k' hk'lt, hb]; exact runeWidth_nl _
          have hk1 : k - 1 = k' := by omega
          rw [hb, bump_nl] at hq
          have hl : c.line = p'.line + 1 := by injection hq
          have hc : c.column = 1 := by injection hq
          simp only [endPosNewlineDefect, hetoNat, hlast, hl, hc, Bool.and_eq_true, decide_eq_true_eq,
            beq_iff_eq]
          refine ⟨⟨by omega, ?_⟩, by simp⟩
          rw [hk1]
          simp [List.getD] at hb
          have hget : src[k']? = some (src[k']) := List.getElem?_eq_getElem hk'lt
          rw [hget] at hb ⊢
          simpa using hb
        · left
          rw [bump_ne hb] at hq
          have hl : c.line = p'.line := by injection hq
          have hc : c.column = p'.col + 1 := by injection hq
          simp [endPosOk, hetoNat, hlast, hl, hc]
      · intro hne
        by_cases hb : src.getD k' 0 = 10
        · exfalso
          have hw1 : runeWidth (src.drop k') = 1 := by
            rw [drop_cons_getD src k' hk'lt, hb]; exact runeWidth_nl _
          have hk1 : k - 1 = k' := by omega
          simp only [hetoNat, hk1] at hne
          exact hne hb
        · rw [bump_ne hb] at hq
          have hl : c.line = p'.line := by injection hq
          have hc : c.column = p'.col + 1 := by injection hq
          simp [endPosOk, hetoNat, hlast, hl, hc]
  · simp only [emitTok]
    by_cases he : c.cursor - 1 = c.start
    · simp [he]; omega
    · simp [he]
  · refine ⟨k, k, ?_, ?_, Nat.le_refl _, ?_, ?_⟩ <;> simp [emitTok, hk, hak]

theorem spansOkFrom_mono (n : Nat) (ts : List Tok) (lo lo' : Int) (h : lo' ≤ lo)
    (hs : spansOkFrom n lo ts = true) : spansOkFrom n lo' ts = true := by
  cases ts with
  | nil => simp [spansOkFrom]
  | cons t ts =>
    simp only [spansOkFrom, Bool.and_eq_true, decide_eq_true_eq] at hs ⊢
    exact ⟨⟨by omega, hs.1.2.1, hs.1.2.2⟩, hs.2⟩

/-- one precondition-respecting use of the primitives keeps the invariant; a token it emits is well placed -/
theorem macro_step (src : Bytes) (c : Cur) (ops : List Op) (hinv : Inv src c) (hm : Macro src c ops) :
    Inv src (run src c ops).1 ∧ c.start ≤ (run src c ops).1.start ∧
    ((run src c ops).2 = [] ∨
      ∃ t, (run src c ops).2 = [t] ∧ TokOk src c.start t ∧ (run src c ops).1.start = t.e + 1) := by
  obtain ⟨s, k, hs, hk, hsk, has, hak⟩ := hinv
  cases hm with
  | adv k' hk' hlt hb =>
    have hkk : k' = k := by omega
    subst hkk
    have hstep := At.step hak hlt
    rw [bump_ne hb] at hstep
    refine ⟨⟨s, k' + runeWidth (src.drop k'), ?_, ?_, by omega, ?_, ?_⟩, ?_, Or.inl ?_⟩
    all_goals simp [run, step, advanceChar, hk, hlt, hs]
    · exact has
    · exact hstep
  | advNL k' hk' hlt hb =>
    have hkk : k' = k := by omega
    subst hkk
    have hstep := At.step hak hlt
    have hw : runeWidth (src.drop k') = 1 := by
      rw [drop_cons_getD src k' hlt, hb]; exact runeWidth_nl _
    rw [hb, bump_nl, hw] at hstep
    refine ⟨⟨s, k' + 1, ?_, ?_, by omega, ?_, ?_⟩, ?_, Or.inl ?_⟩
    all_goals simp [run, step, advanceChar, hk, hlt, hs, hw]
    · exact has
    · exact hstep
  | backup k' p hk' hsk' hak' hw hb =>
    have hstep := At.step hak' (by have := hak.le; omega)
    rw [bump_ne hb, hw] at hstep
    have hkk : k = k' + 1 := by omega
    subst hkk
    have hu := At.unique hstep hak
    have hl : p.line = c.line := by injection hu
    have hc : p.col + 1 = c.column := by injection hu
    have hp : p = ⟨c.line, c.column - 1⟩ := by
      cases p; simp only [Pos.mk.injEq] at *; omega
    refine ⟨⟨s, k', ?_, ?_, by omega, ?_, ?_⟩, ?_, Or.inl ?_⟩
    all_goals simp [run, step, hk, hs]
    all_goals first | omega | exact has | (rw [← hp]; exact hak')
  | skipToken =>
    refine ⟨⟨k, k, ?_, ?_, Nat.le_refl _, ?_, ?_⟩, ?_, Or.inl ?_⟩
    all_goals simp [run, step, hk, hs]
    · exact hak
    · exact hak
    · omega
  | skipByte s' hs' hlt hw hb =>
    have hss : s' = s := by omega
    subst hss
    have hstep := At.step has (by have := hak.le; omega)
    rw [bump_ne hb, hw] at hstep
    refine ⟨⟨s' + 1, k, ?_, ?_, by omega, ?_, ?_⟩, ?_, Or.inl ?_⟩
    all_goals simp [run, step, hk, hs]
    all_goals first | omega | exact hstep | exact hak
  | emit typ hlt =>
    obtain ⟨htok, hst, hinv'⟩ := emit_ok src c typ ⟨s, k, hs, hk, hsk, has, hak⟩ hlt
    refine ⟨?_, ?_, Or.inr ⟨(emitTok typ c).1, ?_, htok, ?_⟩⟩
    · simpa [run, step] using hinv'
    · have : (run src c [Op.emit typ]).1.start = c.cursor := by simp [run, step, emitTok]
      rw [this]; omega
    · simp [run, step]
    · simpa [run, step] using hst
  | restore k' l col hle hat =>
    refine ⟨⟨s, k', ?_, ?_, by omega, ?_, ?_⟩, ?_, Or.inl ?_⟩
    all_goals simp [run, step, hs]
    · exact has
    · exact hat

/-- **cursor invariant.** Any sequence of precondition-respecting uses of the primitives keeps
`(line, column)` = position of `cursor`, and the tokens it emits are in order, non-empty, disjoint, inside the
input, with correct start positions and correct end positions — except that a token ending in a line break
reports column 0 of the next line (`endPosNewlineDefect`). -/
theorem guarded_run (src : Bytes) (c : Cur) (ops : List Op) (hinv : Inv src c) (hg : Guarded src c ops) :
    Inv src (run src c ops).1 ∧ spansOkFrom src.length c.start (run src c ops).2 = true ∧
    positionsOkLax src (run src c ops).2 = true ∧
    (∀ t ∈ (run src c ops).2, src.getD t.e.toNat 0 ≠ 10 → endPosOk src t = true) := by
  induction hg with
  | nil c => simp [run, spansOkFrom, positionsOkLax, hinv]
  | @cons c ops rest hm _ ih =>
    obtain ⟨hinv1, hle, htoks⟩ := macro_step src c ops hinv hm
    obtain ⟨hinv2, hsp, hpos, hend⟩ := ih hinv1
    rw [run_append]
    refine ⟨hinv2, ?_, ?_, ?_⟩
    · rcases htoks with h0 | ⟨t, ht, hok, hst⟩
      · rw [h0, List.nil_append]
        exact spansOkFrom_mono _ _ _ _ hle hsp
      · rw [ht]
        simp only [List.singleton_append, spansOkFrom, Bool.and_eq_true, decide_eq_true_eq]
        exact ⟨⟨hok.lo_le, hok.s_le_e, hok.e_lt⟩, hst ▸ hsp⟩
    · rcases htoks with h0 | ⟨t, ht, hok, hst⟩
      · rw [h0, List.nil_append]; exact hpos
      · rw [ht]
        simp only [positionsOkLax, List.singleton_append, List.all_cons, Bool.and_eq_true] at hpos ⊢
        refine ⟨⟨hok.startOk, ?_⟩, hpos⟩
        rcases hok.endLax with h | h <;> simp [h]
    · intro t ht
      simp only [List.mem_append] at ht
      rcases ht with ht | ht
      · rcases htoks with h0 | ⟨t', ht', hok, _⟩
        · rw [h0] at ht; simp at ht
        · rw [ht'] at ht; simp at ht; subst ht; exact hok.endOk
      · exact hend t ht

/-! ### declarative readings -/

theorem rune_no_nl (b : Nat) (rest : Bytes) (hb : b ≠ 10) :
    ∀ x ∈ (b :: rest).take (runeWidth (b :: rest)), x ≠ 10 := by
  simp only [runeWidth]
  repeat' split
  all_goals simp_all [isCont]
  all_goals omega

/-- the line of a rune boundary is one more than the number of line breaks before it -/
theorem At.line_spec {src : Bytes} {k : Nat} {p : Pos} (h : At src k p) :
    p.line = 1 + ((src.take k).count 10 : Nat) := by
  induction h with
  | zero => simp
  | @step k p _ hk ih =>
    have hd := drop_cons_getD src k hk
    have htake : src.take (k + runeWidth (src.drop k)) = src.take k ++ (src.drop k).take (runeWidth (src.drop k)) := by
      rw [List.take_add]
    rw [htake, List.count_append]
    by_cases hb : src.getD k 0 = 10
    · have hw : runeWidth (src.drop k) = 1 := by rw [hd, hb]; exact runeWidth_nl _
      rw [hb, bump_nl, hw, hd, hb]
      simp [ih]; omega
    · rw [bump_ne hb]
      have hnone : ((src.drop k).take (runeWidth (src.drop k))).count 10 = 0 := by
        rw [List.count_eq_zero]
        intro hmem
        rw [hd] at hmem
        exact rune_no_nl _ _ hb 10 hmem rfl
      simp [ih, hnone]

/-- accepted spans, declaratively: every span is inside the input and non-empty, and the spans are pairwise
disjoint and in source order -/
theorem spansOkFrom_sound (n : Nat) (toks : List Tok) : ∀ lo : Int, spansOkFrom n lo toks = true →
    (∀ t ∈ toks, lo ≤ t.s ∧ t.s ≤ t.e ∧ t.e < n) ∧ toks.Pairwise (fun a b => a.e < b.s) := by
  induction toks with
  | nil => intro lo _; simp
  | cons t ts ih =>
    intro lo h
    simp only [spansOkFrom, Bool.and_eq_true, decide_eq_true_eq] at h
    obtain ⟨hall, hpw⟩ := ih (t.e + 1) h.2
    refine ⟨?_, ?_⟩
    · intro u hu
      simp only [List.mem_cons] at hu
      rcases hu with rfl | hu
      · exact h.1
      · have := hall u hu; omega
    · rw [List.pairwise_cons]
      refine ⟨?_, hpw⟩
      intro u hu
      have := hall u hu; omega


/-- accepted spans are non-empty and disjoint inside `[lo, n)`: there are at most `n - lo` of them -/
theorem spansOkFrom_count (n : Nat) (toks : List Tok) : ∀ lo : Int, spansOkFrom n lo toks = true →
    toks.length ≤ ((n : Int) - lo).toNat := by
  induction toks with
  | nil => intro lo _; simp
  | cons t ts ih =>
    intro lo h
    simp only [spansOkFrom, Bool.and_eq_true, decide_eq_true_eq] at h
    have := ih (t.e + 1) h.2
    simp only [List.length_cons]
    omega


end Elk.Lex
