import ElkVerif.Model.Lex
/-! Helper lemmas for C04: slicing, colorize tiling, ANSI stripping, positions, the cursor machine. -/
namespace Elk.Lex

/-! ### slices -/

theorem slice_glue {α} (l : List α) (a b : Nat) (h : a ≤ b) :
    (l.drop a).take (b - a) ++ l.drop b = l.drop a := by
  have h1 : l.drop b = (l.drop a).drop (b - a) := by
    rw [List.drop_drop]; congr 1; omega
  rw [h1, List.take_append_drop]

theorem goSlice_some (src : Bytes) (a b : Int) (h0 : 0 ≤ a) (h1 : a ≤ b) (h2 : b ≤ src.length) :
    goSlice src a b = some ((src.drop a.toNat).take (b.toNat - a.toNat)) := by
  simp [goSlice, h0, h1, h2]

/-! ### tiling -/

theorem payload_cons (s : Seg) (segs : List Seg) : payload (s :: segs) = s.payload ++ payload segs := by
  simp [payload]

theorem render_cons (s : Seg) (segs : List Seg) : render (s :: segs) = s.render ++ render segs := by
  simp [render]

theorem colorizeFrom_tiling (src : Bytes) (style : Tok → List Nat) (toks : List Tok) :
    ∀ lo : Int, 0 ≤ lo → lo ≤ src.length → spansOkFrom src.length lo toks = true →
      ∃ segs, colorizeFrom src style lo toks = some segs ∧ payload segs = src.drop lo.toNat := by
  induction toks with
  | nil =>
    intro lo h0 h1 _
    refine ⟨[.plain ((src.drop lo.toNat).take ((src.length : Int).toNat - lo.toNat))], ?_, ?_⟩
    · simp [colorizeFrom, goSlice_some src lo src.length h0 h1 (Int.le_refl _)]
    · have : payload ([] : List Seg) = [] := by simp [payload]
      rw [payload_cons, this, List.append_nil]
      show List.take _ _ = _
      apply List.take_of_length_le
      simp
  | cons t ts ih =>
    intro lo h0 h1 hs
    simp only [spansOkFrom, Bool.and_eq_true, decide_eq_true_eq] at hs
    obtain ⟨⟨hlo, hse, hen⟩, hrest⟩ := hs
    obtain ⟨rest, hr, hp⟩ := ih (t.e + 1) (by omega) (by omega) hrest
    refine ⟨.plain ((src.drop lo.toNat).take (t.s.toNat - lo.toNat)) ::
            .styled (style t) ((src.drop t.s.toNat).take ((t.e + 1).toNat - t.s.toNat)) :: rest, ?_, ?_⟩
    · simp [colorizeFrom, goSlice_some src lo t.s h0 hlo (by omega),
        goSlice_some src t.s (t.e + 1) (by omega) (by omega) (by omega), hr]
    · simp only [payload_cons, Seg.payload, hp]
      rw [slice_glue src t.s.toNat (t.e + 1).toNat (by omega), slice_glue src lo.toNat t.s.toNat (by omega)]

/-! ### ANSI stripping -/

theorem isParam_iff (b : Nat) : isParam b = true ↔ (48 ≤ b ∧ b ≤ 57) ∨ b = 59 := by
  simp [isParam]

theorem stripFrom_normal_plain (xs rest : Bytes) (h : ∀ b ∈ xs, b ≠ 27) :
    stripFrom .normal (xs ++ rest) = xs ++ stripFrom .normal rest := by
  induction xs with
  | nil => simp
  | cons x xs ih =>
    have hx : x ≠ 27 := h x (by simp)
    have := ih (fun b hb => h b (by simp [hb]))
    simp [stripFrom, hx, this]

theorem stripFrom_params (ps rest : Bytes) (h : ∀ b ∈ ps, isParam b = true) :
    ∀ pend, stripFrom (.params pend) (ps ++ 109 :: rest) = stripFrom .normal rest := by
  induction ps with
  | nil => intro pend; simp [stripFrom]
  | cons x xs ih =>
    intro pend
    have hx : isParam x = true := h x (by simp)
    have hx' : x ≠ 109 := by
      have := (isParam_iff x).1 hx
      omega
    have := ih (fun b hb => h b (by simp [hb])) (pend ++ [x])
    simp [stripFrom, hx, hx', this]

theorem decDigitsAux_param (fuel : Nat) : ∀ (n : Nat) (acc : Bytes), (∀ b ∈ acc, isParam b = true) →
    ∀ b ∈ decDigitsAux fuel n acc, isParam b = true := by
  induction fuel with
  | zero =>
    intro n acc hacc b hb
    simp only [decDigitsAux, List.mem_cons] at hb
    rcases hb with rfl | hb
    · rw [isParam_iff]; omega
    · exact hacc b hb
  | succ f ih =>
    intro n acc hacc b hb
    simp only [decDigitsAux] at hb
    split at hb
    · simp only [List.mem_cons] at hb
      rcases hb with rfl | hb
      · rw [isParam_iff]; omega
      · exact hacc b hb
    · refine ih (n / 10) _ ?_ b hb
      intro c hc
      simp only [List.mem_cons] at hc
      rcases hc with rfl | hc
      · rw [isParam_iff]; omega
      · exact hacc c hc

theorem decDigits_param (n : Nat) : ∀ b ∈ decDigits n, isParam b = true :=
  decDigitsAux_param n n [] (by simp)

theorem joinCodes_param : ∀ codes : List Nat, ∀ b ∈ joinCodes codes, isParam b = true
  | [] => by simp [joinCodes]
  | [c] => by simpa [joinCodes] using decDigits_param c
  | c :: d :: cs => by
    intro b hb
    simp only [joinCodes, List.mem_append, List.mem_cons] at hb
    rcases hb with hb | rfl | hb
    · exact decDigits_param c b hb
    · decide
    · exact joinCodes_param (d :: cs) b hb

theorem stripFrom_sgrSeq (codes : List Nat) (rest : Bytes) :
    stripFrom .normal (sgrSeq codes ++ rest) = stripFrom .normal rest := by
  have := stripFrom_params (joinCodes codes) rest (joinCodes_param codes) [27, 91]
  simpa [sgrSeq, stripFrom] using this

theorem stripFrom_sgrReset (rest : Bytes) :
    stripFrom .normal (sgrReset ++ rest) = stripFrom .normal rest := by
  simp [sgrReset, stripFrom, isParam]

theorem strip_render (segs : List Seg) (h : ∀ s ∈ segs, ∀ b ∈ s.payload, b ≠ 27) :
    stripFrom .normal (render segs) = payload segs := by
  induction segs with
  | nil => simp [render, payload, stripFrom]
  | cons s segs ih =>
    have ih' := ih (fun s' hs' => h s' (by simp [hs']))
    have hs := h s (by simp)
    rw [render_cons, payload_cons]
    cases s with
    | plain bs =>
      simp only [Seg.render, Seg.payload] at hs ⊢
      rw [stripFrom_normal_plain bs _ hs, ih']
    | styled codes bs =>
      simp only [Seg.render, Seg.payload] at hs ⊢
      rw [List.append_assoc, List.append_assoc, stripFrom_sgrSeq, stripFrom_normal_plain bs _ hs,
        stripFrom_sgrReset, ih']

theorem mem_payload_of_mem {s : Seg} {segs : List Seg} (hs : s ∈ segs) {b : Nat} (hb : b ∈ s.payload) :
    b ∈ payload segs := by
  simp only [payload, List.mem_flatten, List.mem_map]
  exact ⟨s.payload, ⟨s, hs, rfl⟩, hb⟩

end Elk.Lex
