import ElkVerif.Model.TokWin
/-! C03: panic-mode synchronisation of the token window. -/
namespace Elk.TokWin

theorem sync_spec (toks : List Ty) :
    (synchronise toks).2 = toks.drop (syncSteps toks) ∧ syncSteps toks ≤ toks.length ∧
    (((synchronise toks).1 = false ∧ (synchronise toks).2 = []) ∨
     ((synchronise toks).1 = true ∧ ∃ t rest, (synchronise toks).2 = t :: rest ∧ (t = .newline ∨ t = .semicolon))) := by
  induction toks with
  | nil => simp [synchronise, syncSteps]
  | cons t rest ih =>
    by_cases h : t = .newline ∨ t = .semicolon
    · simp only [synchronise, syncSteps, h, if_true]
      exact ⟨by simp, by simp, Or.inr ⟨trivial, t, rest, rfl, h⟩⟩
    · simp only [synchronise, syncSteps, h, if_false]
      obtain ⟨h1, h2, h3⟩ := ih
      refine ⟨?_, ?_, h3⟩
      · rw [h1, Nat.add_comm]; rfl
      · simp only [List.length_cons]; omega

theorem matchOk_none (w : Win) (tys : List Ty) :
    (matchOk w tys).1 = none ↔ accept w tys = false := by
  simp only [matchOk]
  cases h : accept w tys
  · simp
  · simp only [if_true, advance]
    simp only [accept] at h
    cases hl : w.la <;> simp_all

end Elk.TokWin

