import ElkVerif.Model.Mini.Eval
/-!
Fuel monotonicity of the MiniElk reference evaluator: once an evaluation finishes without
running out of fuel, more fuel gives the same result. Hence "the result of a program" is
well defined (the value at any sufficiently large fuel).
-/
namespace Elk.Mini

def Out.isTimeout : Out → Bool
  | .timeout => true
  | _ => false

/-- the five mutually recursive functions are monotone at fuel `n` -/
structure MonoAt (defs : List Def) (n : Nat) : Prop where
  expr : ∀ env s e, (evalExpr defs n env s e).1.isTimeout = false →
    evalExpr defs (n + 1) env s e = evalExpr defs n env s e
  args : ∀ env s es, (match (evalArgs defs n env s es).1 with | .inr o => o.isTimeout | .inl _ => false) = false →
    evalArgs defs (n + 1) env s es = evalArgs defs n env s es
  block : ∀ env s ss, (execBlock defs n env s ss).1.isTimeout = false →
    execBlock defs (n + 1) env s ss = execBlock defs n env s ss
  stmt : ∀ env s st, (execStmt defs n env s st).1.isTimeout = false →
    execStmt defs (n + 1) env s st = execStmt defs n env s st
  catches : ∀ env s v cs, (execCatches defs n env s v cs).1.isTimeout = false →
    execCatches defs (n + 1) env s v cs = execCatches defs n env s v cs

theorem monoAt_zero (defs : List Def) : MonoAt defs 0 := by
  constructor <;> intros <;> simp_all [evalExpr, evalArgs, execBlock, execStmt, execCatches, Out.isTimeout]

end Elk.Mini

namespace Elk.Mini

theorem isTimeout_false_of_ne {o : Out} (h : o.isTimeout = false) : o ≠ .timeout := by
  intro h2; subst h2; simp [Out.isTimeout] at h

/-- sub-evaluation lemma: if a sub-result at fuel `n` is not a timeout it is stable, and a
timeout sub-result forces the case analysis below to contradict the hypothesis -/
theorem mono_expr_succ (defs : List Def) (n : Nat) (ih : MonoAt defs n) :
    ∀ env s e, (evalExpr defs (n + 1) env s e).1.isTimeout = false →
      evalExpr defs (n + 2) env s e = evalExpr defs (n + 1) env s e := by
  intro env s e h
  cases e with
  | int k => simp [evalExpr]
  | bool b => simp [evalExpr]
  | nil => simp [evalExpr]
  | str t => simp [evalExpr]
  | var x => simp [evalExpr]
  | lam ps r body => simp [evalExpr]
  | bin op a b =>
    unfold evalExpr at h ⊢
    try simp only at h ⊢
    by_cases ha : (evalExpr defs n env s a).1.isTimeout = false
    · rw [ih.expr env s a ha]
      rcases hea : evalExpr defs n env s a with ⟨oa, sa⟩
      rw [hea] at h
      cases oa <;> try rfl
      rename_i va
      try simp only at h ⊢
      by_cases hb : (evalExpr defs n env sa b).1.isTimeout = false
      · rw [ih.expr env sa b hb]
      · rcases heb : evalExpr defs n env sa b with ⟨ob, sb⟩
        rw [heb] at h hb
        cases ob <;> simp_all [Out.isTimeout]
    · rcases hea : evalExpr defs n env s a with ⟨oa, sa⟩
      rw [hea] at h ha
      cases oa <;> simp_all [Out.isTimeout]
  | un op a =>
    unfold evalExpr at h ⊢
    try simp only at h ⊢
    by_cases ha : (evalExpr defs n env s a).1.isTimeout = false
    · rw [ih.expr env s a ha]
    · rcases hea : evalExpr defs n env s a with ⟨oa, sa⟩
      rw [hea] at h ha
      cases oa <;> simp_all [Out.isTimeout]
  | and a b =>
    unfold evalExpr at h ⊢
    try simp only at h ⊢
    by_cases ha : (evalExpr defs n env s a).1.isTimeout = false
    · rw [ih.expr env s a ha]
      rcases hea : evalExpr defs n env s a with ⟨oa, sa⟩
      rw [hea] at h
      cases oa <;> try rfl
      rename_i va
      try simp only at h ⊢
      by_cases ht : va.truthy = true
      · simp only [ht, if_true] at h ⊢
        exact ih.expr env sa b h
      · simp [ht]
    · rcases hea : evalExpr defs n env s a with ⟨oa, sa⟩
      rw [hea] at h ha
      cases oa <;> simp_all [Out.isTimeout]
  | or a b =>
    unfold evalExpr at h ⊢
    try simp only at h ⊢
    by_cases ha : (evalExpr defs n env s a).1.isTimeout = false
    · rw [ih.expr env s a ha]
      rcases hea : evalExpr defs n env s a with ⟨oa, sa⟩
      rw [hea] at h
      cases oa <;> try rfl
      rename_i va
      try simp only at h ⊢
      by_cases ht : va.truthy = true
      · simp [ht]
      · simp only [ht] at h ⊢
        exact ih.expr env sa b h
    · rcases hea : evalExpr defs n env s a with ⟨oa, sa⟩
      rw [hea] at h ha
      cases oa <;> simp_all [Out.isTimeout]
  | nilco a b =>
    unfold evalExpr at h ⊢
    try simp only at h ⊢
    by_cases ha : (evalExpr defs n env s a).1.isTimeout = false
    · rw [ih.expr env s a ha]
      rcases hea : evalExpr defs n env s a with ⟨oa, sa⟩
      rw [hea] at h
      cases oa <;> try rfl
      rename_i va
      cases va <;> try rfl
      try simp only at h ⊢
      exact ih.expr env sa b h
    · rcases hea : evalExpr defs n env s a with ⟨oa, sa⟩
      rw [hea] at h ha
      cases oa <;> simp_all [Out.isTimeout]
  | assign x rhs =>
    unfold evalExpr at h ⊢
    try simp only at h ⊢
    by_cases ha : (evalExpr defs n env s rhs).1.isTimeout = false
    · rw [ih.expr env s rhs ha]
    · rcases hea : evalExpr defs n env s rhs with ⟨oa, sa⟩
      rw [hea] at h ha
      cases oa <;> simp_all [Out.isTimeout]
  | callDef f args =>
    unfold evalExpr at h ⊢
    try simp only at h ⊢
    by_cases ha : (match (evalArgs defs n env s args).1 with | .inr o => o.isTimeout | .inl _ => false) = false
    · rw [ih.args env s args ha]
      rcases hea : evalArgs defs n env s args with ⟨ra, sa⟩
      rw [hea] at h
      cases ra with
      | inr o => rfl
      | inl vs =>
        try simp only at h ⊢
        cases hfd : findDef defs f with
        | none => rfl
        | some d =>
          simp only [hfd] at h ⊢
          cases hbp : bindParams (d.params.map (·.1)) vs [] sa with
          | none => rfl
          | some p =>
            obtain ⟨env', s2⟩ := p
            simp only [hbp] at h ⊢
            by_cases hb : (execBlock defs n env' s2 d.body).1.isTimeout = false
            · rw [ih.block env' s2 d.body hb]
            · rcases heb : execBlock defs n env' s2 d.body with ⟨ob, eb, sb⟩
              rw [heb] at h hb
              cases ob <;> simp_all [Out.isTimeout, callResult]
    · rcases hea : evalArgs defs n env s args with ⟨ra, sa⟩
      rw [hea] at h ha
      cases ra with
      | inl vs => simp at ha
      | inr o => cases o <;> simp_all [Out.isTimeout]
  | callClo f args =>
    unfold evalExpr at h ⊢
    try simp only at h ⊢
    by_cases hf : (evalExpr defs n env s f).1.isTimeout = false
    · rw [ih.expr env s f hf]
      rcases hef : evalExpr defs n env s f with ⟨of, sf⟩
      rw [hef] at h
      cases of <;> try rfl
      rename_i vf
      cases vf <;> try rfl
      rename_i ps body cenv
      try simp only at h ⊢
      by_cases ha : (match (evalArgs defs n env sf args).1 with | .inr o => o.isTimeout | .inl _ => false) = false
      · rw [ih.args env sf args ha]
        rcases hea : evalArgs defs n env sf args with ⟨ra, sa⟩
        rw [hea] at h
        cases ra with
        | inr o => rfl
        | inl vs =>
          try simp only at h ⊢
          cases hbp : bindParams ps vs cenv sa with
          | none => rfl
          | some p =>
            obtain ⟨env', s3⟩ := p
            simp only [hbp] at h ⊢
            by_cases hb : (execBlock defs n env' s3 body).1.isTimeout = false
            · rw [ih.block env' s3 body hb]
            · rcases heb : execBlock defs n env' s3 body with ⟨ob, eb, sb⟩
              rw [heb] at h hb
              cases ob <;> simp_all [Out.isTimeout, callResult]
      · rcases hea : evalArgs defs n env sf args with ⟨ra, sa⟩
        rw [hea] at h ha
        cases ra with
        | inl vs => simp at ha
        | inr o => cases o <;> simp_all [Out.isTimeout]
    · rcases hef : evalExpr defs n env s f with ⟨of, sf⟩
      rw [hef] at h hf
      cases of <;> simp_all [Out.isTimeout]

theorem mono_args_succ (defs : List Def) (n : Nat) (ih : MonoAt defs n) :
    ∀ env s es, (match (evalArgs defs (n + 1) env s es).1 with | .inr o => o.isTimeout | .inl _ => false) = false →
      evalArgs defs (n + 2) env s es = evalArgs defs (n + 1) env s es := by
  intro env s es h
  cases es with
  | nil => simp [evalArgs]
  | cons a rest =>
    unfold evalArgs at h ⊢
    try simp only at h ⊢
    by_cases ha : (evalExpr defs n env s a).1.isTimeout = false
    · rw [ih.expr env s a ha]
      rcases hea : evalExpr defs n env s a with ⟨oa, sa⟩
      rw [hea] at h
      cases oa <;> try rfl
      rename_i va
      try simp only at h ⊢
      by_cases hr : (match (evalArgs defs n env sa rest).1 with | .inr o => o.isTimeout | .inl _ => false) = false
      · rw [ih.args env sa rest hr]
      · rcases her : evalArgs defs n env sa rest with ⟨rr, sr⟩
        rw [her] at h hr
        cases rr with
        | inl vs => simp at hr
        | inr o => cases o <;> simp_all [Out.isTimeout]
    · rcases hea : evalExpr defs n env s a with ⟨oa, sa⟩
      rw [hea] at h ha
      cases oa <;> simp_all [Out.isTimeout]

theorem mono_catches_succ (defs : List Def) (n : Nat) (ih : MonoAt defs n) :
    ∀ env s v cs, (execCatches defs (n + 1) env s v cs).1.isTimeout = false →
      execCatches defs (n + 2) env s v cs = execCatches defs (n + 1) env s v cs := by
  intro env s v cs h
  cases cs with
  | nil => simp [execCatches]
  | cons c rest =>
    cases c with
    | mk p x body =>
      unfold execCatches at h ⊢
      try simp only at h ⊢
      by_cases hp : p.matches v = true
      · simp only [hp, if_true] at h ⊢
        by_cases hb : (execBlock defs n ((x, (s.alloc v).1) :: env) (s.alloc v).2 body).1.isTimeout = false
        · rw [ih.block _ _ body hb]
        · rcases heb : execBlock defs n ((x, (s.alloc v).1) :: env) (s.alloc v).2 body with ⟨ob, eb, sb⟩
          rw [heb] at h hb
          cases ob <;> simp_all [Out.isTimeout]
      · simp only [hp] at h ⊢
        exact ih.catches env s v rest h

theorem mono_block_succ (defs : List Def) (n : Nat) (ih : MonoAt defs n) :
    ∀ env s ss, (execBlock defs (n + 1) env s ss).1.isTimeout = false →
      execBlock defs (n + 2) env s ss = execBlock defs (n + 1) env s ss := by
  intro env s ss h
  cases ss with
  | nil => simp [execBlock]
  | cons st rest =>
    cases rest with
    | nil =>
      unfold execBlock at h ⊢
      try simp only at h ⊢
      exact ih.stmt env s st h
    | cons st2 rest2 =>
      unfold execBlock at h ⊢
      try simp only at h ⊢
      by_cases ha : (execStmt defs n env s st).1.isTimeout = false
      · rw [ih.stmt env s st ha]
        rcases hea : execStmt defs n env s st with ⟨oa, ea, sa⟩
        rw [hea] at h
        cases oa <;> try rfl
        try simp only at h ⊢
        exact ih.block ea sa (st2 :: rest2) h
      · rcases hea : execStmt defs n env s st with ⟨oa, ea, sa⟩
        rw [hea] at h ha
        cases oa <;> simp_all [Out.isTimeout]

theorem finallyPhase_fatal (env : Env) (r2 : Out × St) (r3 r3' : Out × Env × St) (h : r2.1.fatal = true) :
    finallyPhase env r2 r3 = finallyPhase env r2 r3' := by
  simp [finallyPhase, h]

theorem finallyPhase_r3_not_timeout (env : Env) (r2 : Out × St) (r3 : Out × Env × St)
    (hf : r2.1.fatal = false) (h : (finallyPhase env r2 r3).1.isTimeout = false) : r3.1.isTimeout = false := by
  simp only [finallyPhase, hf] at h
  rcases r3 with ⟨o3, e3, s3⟩
  cases o3 <;> simp_all [Out.isTimeout]

theorem finallyPhase_r2_not_timeout (env : Env) (r2 : Out × St) (r3 : Out × Env × St)
    (h : (finallyPhase env r2 r3).1.isTimeout = false) : r2.1.isTimeout = false := by
  rcases r2 with ⟨o2, s2⟩
  cases o2 <;> simp_all [finallyPhase, Out.isTimeout, Out.fatal]

theorem fin_tail (defs : List Def) (n : Nat) (ih : MonoAt defs n) (env : Env) (o2 : Out) (s2 : St) (f : List Stmt)
    (h : (finallyPhase env (o2, s2) (execBlock defs n env s2 f)).1.isTimeout = false) :
    finallyPhase env (o2, s2) (execBlock defs (n + 1) env s2 f) =
      finallyPhase env (o2, s2) (execBlock defs n env s2 f) := by
  by_cases hf : o2.fatal = true
  · exact finallyPhase_fatal env (o2, s2) _ _ hf
  · have hf' : (o2, s2).1.fatal = false := by simpa using hf
    have h3 := finallyPhase_r3_not_timeout env (o2, s2) _ hf' h
    rw [ih.block env s2 f h3]

theorem mono_stmt_succ (defs : List Def) (n : Nat) (ih : MonoAt defs n) :
    ∀ env s st, (execStmt defs (n + 1) env s st).1.isTimeout = false →
      execStmt defs (n + 2) env s st = execStmt defs (n + 1) env s st := by
  intro env s st h
  cases st with
  | brk l => simp [execStmt]
  | cont l => simp [execStmt]
  | decl x ty e =>
    unfold execStmt at h ⊢
    try simp only at h ⊢
    by_cases ha : (evalExpr defs n env s e).1.isTimeout = false
    · rw [ih.expr env s e ha]
    · rcases hea : evalExpr defs n env s e with ⟨oa, sa⟩
      rw [hea] at h ha
      cases oa <;> simp_all [Out.isTimeout]
  | expr e =>
    unfold execStmt at h ⊢
    try simp only at h ⊢
    by_cases ha : (evalExpr defs n env s e).1.isTimeout = false
    · rw [ih.expr env s e ha]
    · rcases hea : evalExpr defs n env s e with ⟨oa, sa⟩
      rw [hea] at h ha
      cases oa <;> simp_all [Out.isTimeout]
  | print e =>
    unfold execStmt at h ⊢
    try simp only at h ⊢
    by_cases ha : (evalExpr defs n env s e).1.isTimeout = false
    · rw [ih.expr env s e ha]
    · rcases hea : evalExpr defs n env s e with ⟨oa, sa⟩
      rw [hea] at h ha
      cases oa <;> simp_all [Out.isTimeout]
  | ret e =>
    unfold execStmt at h ⊢
    try simp only at h ⊢
    by_cases ha : (evalExpr defs n env s e).1.isTimeout = false
    · rw [ih.expr env s e ha]
    · rcases hea : evalExpr defs n env s e with ⟨oa, sa⟩
      rw [hea] at h ha
      cases oa <;> simp_all [Out.isTimeout]
  | throw e =>
    unfold execStmt at h ⊢
    try simp only at h ⊢
    by_cases ha : (evalExpr defs n env s e).1.isTimeout = false
    · rw [ih.expr env s e ha]
    · rcases hea : evalExpr defs n env s e with ⟨oa, sa⟩
      rw [hea] at h ha
      cases oa <;> simp_all [Out.isTimeout]
  | ite c t e =>
    unfold execStmt at h ⊢
    try simp only at h ⊢
    by_cases ha : (evalExpr defs n env s c).1.isTimeout = false
    · rw [ih.expr env s c ha]
      rcases hea : evalExpr defs n env s c with ⟨oa, sa⟩
      rw [hea] at h
      cases oa <;> try rfl
      rename_i vc
      try simp only at h ⊢
      by_cases hb : (execBlock defs n env sa (if vc.truthy then t else e)).1.isTimeout = false
      · rw [ih.block env sa _ hb]
      · rcases heb : execBlock defs n env sa (if vc.truthy then t else e) with ⟨ob, eb, sb⟩
        rw [heb] at h hb
        cases ob <;> simp_all [Out.isTimeout]
    · rcases hea : evalExpr defs n env s c with ⟨oa, sa⟩
      rw [hea] at h ha
      cases oa <;> simp_all [Out.isTimeout]
  | «while» lbl c body =>
    unfold execStmt at h ⊢
    try simp only at h ⊢
    by_cases ha : (evalExpr defs n env s c).1.isTimeout = false
    · rw [ih.expr env s c ha]
      rcases hea : evalExpr defs n env s c with ⟨oa, sa⟩
      rw [hea] at h
      cases oa <;> try rfl
      rename_i vc
      try simp only at h ⊢
      by_cases ht : vc.truthy = true
      · simp only [ht, if_true] at h ⊢
        by_cases hb : (execBlock defs n env sa body).1.isTimeout = false
        · rw [ih.block env sa body hb]
          rcases heb : execBlock defs n env sa body with ⟨ob, eb, sb⟩
          rw [heb] at h
          cases ob <;> try rfl
          · try simp only at h ⊢
            exact ih.stmt env sb _ h
          · rename_i l
            try simp only at h ⊢
            by_cases hl : labelHits lbl l = true
            · simp only [hl, if_true] at h ⊢
              exact ih.stmt env sb _ h
            · simp [hl]
        · rcases heb : execBlock defs n env sa body with ⟨ob, eb, sb⟩
          rw [heb] at h hb
          cases ob <;> simp_all [Out.isTimeout]
      · simp [ht]
    · rcases hea : evalExpr defs n env s c with ⟨oa, sa⟩
      rw [hea] at h ha
      cases oa <;> simp_all [Out.isTimeout]
  | loop lbl body =>
    unfold execStmt at h ⊢
    try simp only at h ⊢
    by_cases hb : (execBlock defs n env s body).1.isTimeout = false
    · rw [ih.block env s body hb]
      rcases heb : execBlock defs n env s body with ⟨ob, eb, sb⟩
      rw [heb] at h
      cases ob <;> try rfl
      · try simp only at h ⊢
        exact ih.stmt env sb _ h
      · rename_i l
        try simp only at h ⊢
        by_cases hl : labelHits lbl l = true
        · simp only [hl, if_true] at h ⊢
          exact ih.stmt env sb _ h
        · simp [hl]
    · rcases heb : execBlock defs n env s body with ⟨ob, eb, sb⟩
      rw [heb] at h hb
      cases ob <;> simp_all [Out.isTimeout]
  | «try» body cs fin =>
    unfold execStmt at h ⊢
    try simp only at h ⊢
    by_cases hb : (execBlock defs n env s body).1.isTimeout = false
    · rw [ih.block env s body hb]
      rcases heb : execBlock defs n env s body with ⟨ob, eb, sb⟩
      rw [heb] at h
      cases ob with
      | thrw v =>
        try simp only at h ⊢
        by_cases hc : (execCatches defs n env sb v cs).1.isTimeout = false
        · rw [ih.catches env sb v cs hc]
          rcases hec : execCatches defs n env sb v cs with ⟨o2, s2⟩
          rw [hec] at h
          cases fin with
          | none => rfl
          | some f => exact fin_tail defs n ih env o2 s2 f h
        · rcases hec : execCatches defs n env sb v cs with ⟨o2, s2⟩
          rw [hec] at h hc
          cases o2 <;> try (simp [Out.isTimeout] at hc)
          cases fin <;> simp_all [Out.isTimeout, finallyPhase, Out.fatal]
      | timeout => simp [Out.isTimeout] at hb ; rw [heb] at hb; simp [Out.isTimeout] at hb
      | val v => cases fin with
        | none => rfl
        | some f => exact fin_tail defs n ih env _ sb f h
      | brk l => cases fin with
        | none => rfl
        | some f => exact fin_tail defs n ih env _ sb f h
      | cont l => cases fin with
        | none => rfl
        | some f => exact fin_tail defs n ih env _ sb f h
      | ret v => cases fin with
        | none => rfl
        | some f => exact fin_tail defs n ih env _ sb f h
      | stuck w => cases fin with
        | none => rfl
        | some f => exact fin_tail defs n ih env _ sb f h
    · rcases heb : execBlock defs n env s body with ⟨ob, eb, sb⟩
      rw [heb] at h hb
      cases ob <;> try (simp [Out.isTimeout] at hb)
      cases fin <;> simp_all [Out.isTimeout, finallyPhase, Out.fatal]

theorem monoAt_succ (defs : List Def) (n : Nat) (ih : MonoAt defs n) : MonoAt defs (n + 1) :=
  ⟨mono_expr_succ defs n ih, mono_args_succ defs n ih, mono_block_succ defs n ih,
   mono_stmt_succ defs n ih, mono_catches_succ defs n ih⟩

theorem monoAt_all (defs : List Def) : ∀ n, MonoAt defs n
  | 0 => monoAt_zero defs
  | n + 1 => monoAt_succ defs n (monoAt_all defs n)

/-- more fuel never changes a finished block evaluation -/
theorem execBlock_mono (defs : List Def) (n k : Nat) (env : Env) (s : St) (ss : List Stmt)
    (h : (execBlock defs n env s ss).1.isTimeout = false) :
    execBlock defs (n + k) env s ss = execBlock defs n env s ss := by
  induction k with
  | zero => rfl
  | succ k ih =>
    have := (monoAt_all defs (n + k)).block env s ss (by rw [ih]; exact h)
    rw [← Nat.add_assoc, this, ih]

end Elk.Mini
