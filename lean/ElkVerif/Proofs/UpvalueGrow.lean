import ElkVerif.Proofs.UpvalueInv
namespace Elk.Upvalue

/-- the allocator returns an array that does not overlap the old one -/
def Disjoint (b : Int) (cap : Nat) (nb : Int) : Prop :=
  nb + VS * (2 * cap) ≤ b ∨ b + VS * cap ≤ nb

theorem tdiv_VS (n : Nat) : (VS * (n : Int)).tdiv VS = n := by
  unfold VS
  rw [Int.tdiv_eq_ediv_of_nonneg (by omega)]
  omega

theorem rebasePtr_enc (s : CA) (nb : Int) (n : Nat) : rebasePtr s nb (s.base + VS * n) = nb + VS * n := by
  unfold rebasePtr
  have : s.base + VS * (n : Int) - s.base = VS * n := by omega
  rw [this, tdiv_VS]
  unfold VS; omega

/-- under disjointness, rebasing twice is rebasing once -/
theorem rebaseUv_idem (s : CA) (nb : Int) (hd : Disjoint s.base s.mem.length nb) (x : UvA) :
    rebaseUv s nb (rebaseUv s nb x) = rebaseUv s nb x := by
  cases x with
  | closed v => rfl
  | opn a =>
    unfold rebaseUv
    by_cases hin : inOld s a = true
    · simp only [hin, if_true]
      have hnot : inOld s (rebasePtr s nb a) = false := by
        unfold inOld at hin ⊢
        simp only [Bool.and_eq_true, decide_eq_true_eq] at hin
        unfold rebasePtr
        have h0 : 0 ≤ a - s.base := by omega
        rw [Int.tdiv_eq_ediv_of_nonneg h0]
        unfold Disjoint at hd
        unfold VS at *
        simp only [Bool.and_eq_false_iff, decide_eq_false_iff_not]
        rcases hd with hd | hd
        · left; omega
        · right; omega
      simp only [hnot]
      simp
    · simp only [hin]
      simp [hin]

theorem getElem?_modify_map {α} (f : α → α) (h : List α) (id u : Nat) :
    (h.modify id f)[u]? = if id = u then h[u]?.map f else h[u]? := by
  rw [List.getElem?_modify]
  by_cases he : id = u <;> cases h[u]? <;> simp [he]

/-- one walk with an idempotent `f`: applied exactly at the listed ids -/
theorem rebaseIds_get (f : UvA → UvA) (hf : ∀ x, f (f x) = f x) (ids : List Nat) :
    ∀ (h : List UvA) (u : Nat),
      (rebaseIds f h ids)[u]? = if u ∈ ids then h[u]?.map f else h[u]? := by
  induction ids with
  | nil => intro h u; simp [rebaseIds]
  | cons id ids ih =>
    intro h u
    have : rebaseIds f h (id :: ids) = rebaseIds f (h.modify id f) ids := by simp [rebaseIds]
    rw [this, ih, getElem?_modify_map]
    by_cases h1 : u ∈ ids <;> by_cases h2 : id = u
    · subst h2
      simp only [h1, if_true, List.mem_cons, true_or]
      cases h[id]? <;> simp [hf]
    · simp [h1, h2]
    · subst h2; simp [h1]
    · have : ¬ u = id := fun e => h2 e.symm
      simp [h1, h2, this]

/-- any sequence of walks leaves each entry untouched or rebased once -/
def Touched (f : UvA → UvA) (h0 h : List UvA) : Prop :=
  ∀ u : Nat, h[u]? = h0[u]? ∨ h[u]? = h0[u]?.map f

theorem touched_rebaseIds {f : UvA → UvA} (hf : ∀ x, f (f x) = f x) {h0 h : List UvA}
    (ht : Touched f h0 h) (ids : List Nat) : Touched f h0 (rebaseIds f h ids) := by
  intro u
  rw [rebaseIds_get f hf]
  split
  · rcases ht u with e | e
    · right; rw [e]
    · right; rw [e]; cases h0[u]? <;> simp [hf]
  · exact ht u

theorem touched_foldFrames {f : UvA → UvA} (hf : ∀ x, f (f x) = f x) {h0 : List UvA} (fr : List FrameA) :
    ∀ h, Touched f h0 h → Touched f h0 (fr.foldl (fun h g => rebaseIds f h g.upvalues) h) := by
  induction fr with
  | nil => intro h ht; exact ht
  | cons g fr ih => intro h ht; exact ih _ (touched_rebaseIds hf ht g.upvalues)

/-- the three walks of `growValueStack` together rebase every open upvalue exactly once,
whatever the frames reference -/
theorem grow_heap (f : UvA → UvA) (hf : ∀ x, f (f x) = f x) (h0 : List UvA) (fr : List FrameA)
    (ups openL : List Nat)
    (hcl : ∀ (u : Nat) (x : UvA), h0[u]? = some x → u ∉ openL → f x = x) :
    rebaseIds f (rebaseIds f (fr.foldl (fun h g => rebaseIds f h g.upvalues) h0) ups) openL = h0.map f := by
  have ht : Touched f h0 (rebaseIds f (fr.foldl (fun h g => rebaseIds f h g.upvalues) h0) ups) :=
    touched_rebaseIds hf (touched_foldFrames hf fr h0 (fun u => Or.inl rfl)) ups
  apply List.ext_getElem?
  intro u
  rw [rebaseIds_get f hf, List.getElem?_map]
  split
  · rcases ht u with e | e
    · rw [e]
    · rw [e]; cases h0[u]? <;> simp [hf]
  · rename_i hn
    rcases ht u with e | e
    · rw [e]
      cases hx : h0[u]? with
      | none => rfl
      | some x => simp [hcl u x hx hn]
    · rw [e]

theorem rebaseUv_encUv (b nb : Int) (j : Junk) (c : C) (x : Uv)
    (hx : ∀ s, x = Uv.opn s → s < (c.stack ++ j.g).length) :
    rebaseUv (enc b j c) nb (encUv b x) = encUv nb x := by
  cases x with
  | closed v => rfl
  | opn s =>
    have hs := hx s rfl
    unfold encUv rebaseUv
    have hin : inOld (enc b j c) (b + VS * (s : Int)) = true := by
      unfold inOld
      simp only [enc]
      rw [Bool.and_eq_true]
      constructor <;> (apply decide_eq_true; unfold VS; omega)
    simp only [hin, if_true]
    have := rebasePtr_enc (enc b j c) nb s
    simp only [enc] at this ⊢
    rw [this]

/-- `growValueStack` maps the representation of `c` at `b` to the representation of the same
`c` at the new address: nothing but the junk changes. -/
theorem grow_enc (b nb : Int) (j : Junk) (c : C) (hi : LInv c.heap c.openL)
    (hcap : ∀ (u s : Nat), c.heap[u]? = some (Uv.opn s) → s < (c.stack ++ j.g).length)
    (hd : Disjoint b (c.stack ++ j.g).length nb) :
    grow (enc b j c) nb =
      enc nb ⟨(j.g ++ List.replicate (c.stack ++ j.g).length undef).set
                (2 * (c.stack ++ j.g).length - 1 - c.stack.length) sentinel,
              j.stale.map (rebaseFrame (enc b j c) nb)⟩ c := by
  have hf : ∀ x, rebaseUv (enc b j c) nb (rebaseUv (enc b j c) nb x) = rebaseUv (enc b j c) nb x :=
    rebaseUv_idem (enc b j c) nb (by simpa [enc] using hd)
  have hheap := grow_heap (rebaseUv (enc b j c) nb) hf (enc b j c).heap
    ((enc b j c).frames.reverse ++ (enc b j c).stale) (enc b j c).upvalues (enc b j c).openL (by
      intro u x hx hn
      simp only [enc, List.getElem?_map] at hx hn
      cases hcu : c.heap[u]? with
      | none => simp [hcu] at hx
      | some y =>
        simp [hcu] at hx; subst hx
        cases y with
        | closed v => rfl
        | opn s => exact absurd (hi.complete u s hcu) hn)
  unfold grow
  simp only [hheap]
  simp only [enc]
  congr 1
  · -- mem
    rw [List.append_assoc, List.set_append]
    have : ¬ (2 * (c.stack ++ j.g).length - 1 < c.stack.length) := by
      simp only [List.length_append]; omega
    simp only [List.length_append] at this ⊢
    rw [if_neg this]
  · have := rebasePtr_enc (enc b j c) nb c.stack.length
    simpa [enc] using this
  · have := rebasePtr_enc (enc b j c) nb c.fp
    simpa [enc] using this
  · rw [List.map_map]
    apply List.map_congr_left
    intro f _
    simp only [Function.comp, rebaseFrame, encFrame]
    have := rebasePtr_enc (enc b j c) nb f.fp
    simp only [enc] at this
    rw [this]
  · rw [List.map_map]
    apply List.map_congr_left
    intro x hx
    simp only [Function.comp]
    have := rebaseUv_encUv b nb j c x (by
      intro s hs; subst hs
      obtain ⟨u, hu, hue⟩ := List.getElem_of_mem hx
      exact hcap u s (by rw [List.getElem?_eq_some_iff]; exact ⟨hu, hue⟩))
    simpa [enc] using this

theorem ediv_VS (n : Nat) : ((VS * (n : Int)) / VS).toNat = n := by
  unfold VS; omega

theorem abs_enc (b : Int) (j : Junk) (c : C) : abs (enc b j c) = c := by
  unfold abs enc
  have e : ∀ n : Nat, ((b + VS * (n : Int) - b) / VS).toNat = n := by
    intro n
    have : b + VS * (n : Int) - b = VS * n := by omega
    rw [this, ediv_VS]
  cases c with
  | mk stack fp ups frames heap openL hs =>
    simp only [e]
    congr 1
    · simp
    · rw [List.map_map]
      conv => rhs; rw [← List.map_id frames]
      apply List.map_congr_left
      intro f _
      simp [absFrame, encFrame, e]
    · rw [List.map_map]
      conv => rhs; rw [← List.map_id heap]
      apply List.map_congr_left
      intro x _
      cases x <;> simp [absUv, encUv, e]

/-- well-formed addressed states: representations of an index-form state whose open list is
in order and whose open upvalues point into the backing array -/
structure InvA (s : CA) : Prop where
  repr : ∃ (j : Junk) (c : C), s = enc s.base j c ∧ LInv c.heap c.openL ∧
    ∀ (u slot : Nat), c.heap[u]? = some (Uv.opn slot) → slot < s.mem.length

theorem grow_invisible' (s : CA) (nb : Int) (hI : InvA s) (hd : Disjoint s.base s.mem.length nb) :
    abs (grow s nb) = abs s ∧ InvA (grow s nb) ∧ (grow s nb).mem.length = 2 * s.mem.length := by
  obtain ⟨j, c, hs, hi, hcap⟩ := hI.repr
  have hm : s.mem = c.stack ++ j.g := by rw [hs]; rfl
  rw [hm] at hcap hd
  have hg := grow_enc s.base nb j c hi hcap hd
  rw [← hs] at hg
  have hlen : (grow s nb).mem.length = 2 * s.mem.length := by
    rw [hg, hm]; simp [enc]; omega
  refine ⟨?_, ⟨?_⟩, hlen⟩
  · rw [hg, abs_enc, hs, abs_enc]
  · have hb : (grow s nb).base = nb := by rw [hg]; rfl
    refine ⟨_, c, by rw [hb]; exact hg, hi, ?_⟩
    intro u slot hu
    have := hcap u slot hu
    rw [hlen, hm]; omega

theorem slot?_enc (b : Int) (j : Junk) (c : C) (k : Int) :
    (enc b j c).slot? (b + VS * k) = if 0 ≤ k ∧ k < c.stack.length then some k.toNat else none := by
  unfold CA.slot?
  simp only [enc]
  have e1 : (b + VS * k - b) % VS = 0 := by unfold VS; omega
  have e2 : ((b + VS * k - b) / VS).toNat = k.toNat := by unfold VS; omega
  have e3 : (b ≤ b + VS * k ∧ b + VS * k < b + VS * ↑c.stack.length ∧ (b + VS * k - b) % VS = 0) ↔
      (0 ≤ k ∧ k < c.stack.length) := by
    unfold VS at *; constructor <;> intro h <;> omega
  simp only [e3, e2]

theorem slot?_enc_nat (b : Int) (j : Junk) (c : C) (k : Nat) :
    (enc b j c).slot? (b + VS * (k : Int)) = if k < c.stack.length then some k else none := by
  rw [slot?_enc]
  by_cases h : k < c.stack.length
  · rw [if_pos (by omega), if_pos h]; simp
  · rw [if_neg (by omega), if_neg h]

theorem encUv_inj (b : Int) (x y : Uv) (h : encUv b x = encUv b y) : x = y := by
  cases x <;> cases y <;> simp [encUv] at h ⊢
  · unfold VS at h; omega
  · exact h

theorem getElem?_encHeap (b : Int) (h : List Uv) (u : Nat) :
    (h.map (encUv b))[u]? = (h[u]?).map (encUv b) := by simp

theorem walkA_enc (b : Int) (h : List Uv) (slot : Nat) (l : List Nat) :
    walkA (h.map (encUv b)) (b + VS * (slot : Int)) l = walk h slot l := by
  induction l with
  | nil => rfl
  | cons u l ih =>
    unfold walkA walk
    rw [getElem?_encHeap]
    cases hu : h[u]? with
    | none => rfl
    | some x =>
      cases x with
      | closed v => rfl
      | opn s =>
        simp only [Option.map, encUv]
        have : (b + VS * (s : Int) ≤ b + VS * (slot : Int)) ↔ s ≤ slot := by unfold VS; omega
        simp only [this, ih]

theorem captureA_enc (b : Int) (j : Junk) (c : C) (slot : Nat) :
    captureA (enc b j c) (b + VS * (slot : Int)) =
      (capture c slot).map (fun p => (enc b j p.1, p.2)) := by
  unfold captureA capture
  have hw := walkA_enc b c.heap slot c.openL
  simp only [enc] at hw ⊢
  rw [hw]
  cases hwk : walk c.heap slot c.openL with
  | error e => rfl
  | ok pr =>
    obtain ⟨pre, rest⟩ := pr
    cases rest with
    | nil => simp [Except.map, encUv]
    | cons cur rest =>
      have : ((c.heap.map (encUv b))[cur]? = some (UvA.opn (b + VS * (slot : Int)))) ↔
          (c.heap[cur]? = some (Uv.opn slot)) := by
        rw [getElem?_encHeap]
        constructor
        · intro h
          cases hx : c.heap[cur]? with
          | none => simp [hx] at h
          | some x =>
            simp [hx] at h
            have : encUv b x = encUv b (Uv.opn slot) := h
            rw [encUv_inj b _ _ this]
        · intro h; simp [h, encUv]
      simp only [this]
      split <;> simp [Except.map, encUv]

theorem closeLoopA_enc (b : Int) (j : Junk) (c : C) (frm : Nat) (l : List Nat) :
    ∀ h : List Uv, closeLoopA (enc b j c) (b + VS * (frm : Int)) (h.map (encUv b)) l =
      (closeLoop c.stack frm h l).map (fun p => (p.1.map (encUv b), p.2)) := by
  induction l with
  | nil => intro h; rfl
  | cons u l ih =>
    intro h
    unfold closeLoopA closeLoop
    rw [getElem?_encHeap]
    cases hu : h[u]? with
    | none => rfl
    | some x =>
      cases x with
      | closed v => rfl
      | opn s =>
        simp only [Option.map, encUv]
        have e1 : (b + VS * (s : Int) < b + VS * (frm : Int)) ↔ s < frm := by unfold VS; omega
        simp only [e1]
        by_cases hlt : s < frm
        · simp [hlt, Except.map]
        · simp only [hlt, if_false, slot?_enc_nat]
          by_cases hs : s < c.stack.length
          · simp only [hs, if_true]
            have hm : (enc b j c).mem[s]? = c.stack[s]? := by
              simp only [enc]; rw [List.getElem?_append_left hs]
            rw [hm]
            cases hv : c.stack[s]? with
            | none => rfl
            | some v =>
              simp only []
              have : (h.map (encUv b)).set u (UvA.closed v) = (h.set u (Uv.closed v)).map (encUv b) := by
                rw [List.map_set]; rfl
              rw [this, ih]
          · simp only [hs, if_false]
            have : c.stack[s]? = none := by rw [List.getElem?_eq_none_iff]; omega
            simp [this, Except.map]

theorem uvGetA_enc (b : Int) (j : Junk) (c : C) (id : Nat) : uvGetA (enc b j c) id = uvGet c id := by
  unfold uvGetA uvGet
  have : (enc b j c).heap[id]? = (c.heap[id]?).map (encUv b) := by simp [enc]
  rw [this]
  cases hu : c.heap[id]? with
  | none => rfl
  | some x =>
    cases x with
    | closed v => rfl
    | opn s =>
      simp only [Option.map, encUv, slot?_enc_nat]
      by_cases hs : s < c.stack.length
      · simp only [hs, if_true]
        have hm : (enc b j c).mem[s]? = c.stack[s]? := by
          simp only [enc]; rw [List.getElem?_append_left hs]
        rw [hm]
      · simp only [hs, if_false]
        have : c.stack[s]? = none := by rw [List.getElem?_eq_none_iff]; omega
        simp [this]

theorem uvSetA_enc (b : Int) (j : Junk) (c : C) (id : Nat) (v : Val) :
    uvSetA (enc b j c) id v = (uvSet c id v).map (enc b j) := by
  unfold uvSetA uvSet
  have : (enc b j c).heap[id]? = (c.heap[id]?).map (encUv b) := by simp [enc]
  rw [this]
  cases hu : c.heap[id]? with
  | none => rfl
  | some x =>
    cases x with
    | closed w =>
      simp only [Option.map, encUv, Except.map]
      simp only [enc]
      congr 2
      rw [List.map_set]; rfl
    | opn s =>
      simp only [Option.map, encUv, slot?_enc_nat]
      by_cases hs : s < c.stack.length
      · have hl : s < (enc b j c).mem.length := by simp [enc]; omega
        simp only [hs, hl, if_true, Except.map]
        simp only [enc]
        congr 2
        · rw [List.set_append_left _ _ hs]
        · simp
      · simp [hs, Except.map]

/-- open upvalues point into the backing array -/
def Bnd (c : C) (cap : Nat) : Prop := ∀ (u s : Nat), c.heap[u]? = some (Uv.opn s) → s < cap

theorem fp_add (b : Int) (j : Junk) (c : C) (i : Nat) :
    (enc b j c).fp + VS * (i : Int) = b + VS * ((c.fp + i : Nat) : Int) := by
  simp only [enc]; unfold VS; omega

theorem sp_sub (b : Int) (j : Junk) (c : C) (n : Nat) :
    (enc b j c).sp - VS * ((n : Int) + 1) = b + VS * ((c.stack.length : Int) - ((n : Int) + 1)) := by
  simp only [enc]; unfold VS; omega

theorem enc_mem_get (b : Int) (j : Junk) (c : C) (i : Nat) (hi : i < c.stack.length) :
    (enc b j c).mem[i]? = c.stack[i]? := by
  simp only [enc]; rw [List.getElem?_append_left hi]

section step
variable (cfg : Cfg) (b : Int) (j : Junk) (c : C)

abbrev capOf (c : C) (j : Junk) : Nat := (c.stack ++ j.g).length

theorem stepCA_enc_push (v : Val) (s' : CA) (r : Option Val)
    (h : stepCA cfg (enc b j c) (.push v) = .ok (s', r)) :
    ∃ b' j' c', s' = enc b' j' c' ∧ step c (.push v) = .ok (c', r) ∧ capOf c j ≤ capOf c' j' := by
  simp only [stepCA] at h
  have e1 : (enc b j c).base ≤ (enc b j c).sp ∧ ((enc b j c).sp - (enc b j c).base) % VS = 0 := by
    simp only [enc]; unfold VS; omega
  have e2 : (((enc b j c).sp - (enc b j c).base) / VS).toNat = c.stack.length := by
    simp only [enc]; unfold VS; omega
  rw [if_pos e1, e2] at h
  split at h
  · rename_i hlt
    cases h
    have hg : 1 < j.g.length := by simp [enc] at hlt; omega
    cases hgg : j.g with
    | nil => simp [hgg] at hg
    | cons g0 gs =>
      refine ⟨b, ⟨gs, j.stale⟩, { c with stack := c.stack ++ [v] }, ?_, rfl, ?_⟩
      · simp only [enc, hgg]
        congr 1
        · rw [List.set_append_right _ _ (by omega)]; simp
        · simp; unfold VS; omega
      · simp [capOf, hgg]
  · cases h

theorem stepCA_enc_pop (s' : CA) (r : Option Val)
    (h : stepCA cfg (enc b j c) .pop = .ok (s', r)) :
    ∃ b' j' c', s' = enc b' j' c' ∧ step c .pop = .ok (c', r) ∧ capOf c j ≤ capOf c' j' := by
  simp only [stepCA] at h
  have e : (enc b j c).sp - VS = b + VS * ((c.stack.length : Int) - 1) := by
    simp only [enc]; unfold VS; omega
  rw [e, slot?_enc] at h
  split at h
  · rename_i i hi
    split at hi
    · rename_i hk
      cases hi; cases h
      have hL : 0 < c.stack.length := by omega
      refine ⟨b, ⟨undef :: j.g, j.stale⟩, { c with stack := c.stack.dropLast }, ?_, ?_, ?_⟩
      · simp only [enc]
        have hi' : ((c.stack.length : Int) - 1).toNat = c.stack.length - 1 := by omega
        rw [hi']
        congr 1
        · rw [List.set_append_left _ _ (by omega)]
          have : c.stack.set (c.stack.length - 1) undef = c.stack.dropLast ++ [undef] := by
            have hne : c.stack ≠ [] := by intro he; simp [he] at hL
            conv => lhs; rw [← List.dropLast_concat_getLast hne]
            rw [List.set_append_right _ _ (by simp)]
            simp
          rw [this]; simp
        · simp; unfold VS; omega
      · simp only [step]; rw [if_neg (by omega)]
      · simp [capOf]; omega
    · cases hi
  · cases h

theorem stepCA_enc_getLocal (i : Nat) (s' : CA) (r : Option Val)
    (h : stepCA cfg (enc b j c) (.getLocal i) = .ok (s', r)) :
    ∃ b' j' c', s' = enc b' j' c' ∧ step c (.getLocal i) = .ok (c', r) ∧ capOf c j ≤ capOf c' j' := by
  simp only [stepCA] at h
  rw [fp_add, slot?_enc_nat] at h
  by_cases hlt : c.fp + i < c.stack.length
  · simp only [hlt, if_true, enc_mem_get b j c _ hlt] at h
    cases hv : c.stack[c.fp + i]? with
    | none => simp [hv] at h
    | some v =>
      simp only [hv] at h; cases h
      exact ⟨b, j, c, rfl, by simp [step, hv], Nat.le_refl _⟩
  · simp [hlt] at h

theorem stepCA_enc_setLocal (i : Nat) (v : Val) (s' : CA) (r : Option Val)
    (h : stepCA cfg (enc b j c) (.setLocal i v) = .ok (s', r)) :
    ∃ b' j' c', s' = enc b' j' c' ∧ step c (.setLocal i v) = .ok (c', r) ∧ capOf c j ≤ capOf c' j' := by
  simp only [stepCA] at h
  rw [fp_add, slot?_enc_nat] at h
  by_cases hlt : c.fp + i < c.stack.length
  · have hl : c.fp + i < (enc b j c).mem.length := by simp [enc]; omega
    simp only [hlt, hl, if_true] at h
    cases h
    refine ⟨b, j, { c with stack := c.stack.set (c.fp + i) v }, ?_, by simp [step, hlt], by simp [capOf]⟩
    simp only [enc]
    congr 1
    · rw [List.set_append_left _ _ hlt]
    · simp
  · simp [hlt] at h

theorem stepCA_enc_capture (i : Nat) (s' : CA) (r : Option Val)
    (h : stepCA cfg (enc b j c) (.capture i) = .ok (s', r)) :
    ∃ b' j' c', s' = enc b' j' c' ∧ step c (.capture i) = .ok (c', r) ∧ capOf c j ≤ capOf c' j' := by
  simp only [stepCA] at h
  rw [fp_add, slot?_enc_nat, captureA_enc] at h
  by_cases hlt : c.fp + i < c.stack.length
  · simp only [hlt, if_true] at h
    cases hc : capture c (c.fp + i) with
    | error e => simp [hc, Except.map] at h
    | ok p =>
      obtain ⟨c1, id⟩ := p
      simp only [hc, Except.map] at h
      cases h
      refine ⟨b, j, { c1 with hs := c1.hs ++ [id] }, rfl, by simp [step, hlt, hc], ?_⟩
      have : c1.stack = c.stack := by
        unfold capture at hc
        split at hc
        · cases hc
        · cases hc; rfl
        · split at hc <;> cases hc <;> rfl
      simp [capOf, this]
  · simp [hlt] at h

theorem stepCA_enc_close (i : Nat) (s' : CA) (r : Option Val)
    (h : stepCA cfg (enc b j c) (.close i) = .ok (s', r)) :
    ∃ b' j' c', s' = enc b' j' c' ∧ step c (.close i) = .ok (c', r) ∧ capOf c j ≤ capOf c' j' := by
  simp only [stepCA] at h
  rw [fp_add] at h
  have := closeLoopA_enc b j c (c.fp + i) c.openL c.heap
  have e : (enc b j c).heap = c.heap.map (encUv b) := rfl
  have e2 : (enc b j c).openL = c.openL := rfl
  rw [e, e2, this] at h
  cases hc : closeLoop c.stack (c.fp + i) c.heap c.openL with
  | error e => simp [hc, Except.map] at h
  | ok p =>
    obtain ⟨h', l'⟩ := p
    simp only [hc, Except.map] at h
    cases h
    exact ⟨b, j, { c with heap := h', openL := l' }, rfl, by simp [step, hc], by simp [capOf]⟩

theorem stepCA_enc_uget (k : Nat) (s' : CA) (r : Option Val)
    (h : stepCA cfg (enc b j c) (.uget k) = .ok (s', r)) :
    ∃ b' j' c', s' = enc b' j' c' ∧ step c (.uget k) = .ok (c', r) ∧ capOf c j ≤ capOf c' j' := by
  simp only [stepCA] at h
  have e : (enc b j c).hs = c.hs := rfl
  rw [e] at h
  cases hk : c.hs[k]? with
  | none => simp [hk] at h
  | some id =>
    simp only [hk, uvGetA_enc] at h
    cases hg : uvGet c id with
    | error e => simp [hg] at h
    | ok v =>
      simp only [hg] at h; cases h
      exact ⟨b, j, c, rfl, by simp [step, hk, hg], Nat.le_refl _⟩

theorem stepCA_enc_fget (k : Nat) (s' : CA) (r : Option Val)
    (h : stepCA cfg (enc b j c) (.fget k) = .ok (s', r)) :
    ∃ b' j' c', s' = enc b' j' c' ∧ step c (.fget k) = .ok (c', r) ∧ capOf c j ≤ capOf c' j' := by
  simp only [stepCA] at h
  have e : (enc b j c).upvalues = c.upvalues := rfl
  rw [e] at h
  cases hk : c.upvalues[k]? with
  | none => simp [hk] at h
  | some id =>
    simp only [hk, uvGetA_enc] at h
    cases hg : uvGet c id with
    | error e => simp [hg] at h
    | ok v =>
      simp only [hg] at h; cases h
      exact ⟨b, j, c, rfl, by simp [step, hk, hg], Nat.le_refl _⟩

theorem uvSet_stack_len (c c' : C) (id : Nat) (v : Val) (h : uvSet c id v = .ok c') :
    c'.stack.length = c.stack.length := by
  unfold uvSet at h
  split at h
  · cases h
  · cases h; rfl
  · split at h
    · cases h; simp
    · cases h

theorem stepCA_enc_uset (k : Nat) (v : Val) (s' : CA) (r : Option Val)
    (h : stepCA cfg (enc b j c) (.uset k v) = .ok (s', r)) :
    ∃ b' j' c', s' = enc b' j' c' ∧ step c (.uset k v) = .ok (c', r) ∧ capOf c j ≤ capOf c' j' := by
  simp only [stepCA] at h
  have e : (enc b j c).hs = c.hs := rfl
  rw [e] at h
  cases hk : c.hs[k]? with
  | none => simp [hk] at h
  | some id =>
    simp only [hk, uvSetA_enc] at h
    cases hg : uvSet c id v with
    | error e => simp [hg, Except.map] at h
    | ok c1 =>
      simp only [hg, Except.map] at h; cases h
      refine ⟨b, j, c1, rfl, by simp [step, hk, hg], ?_⟩
      simp [capOf, uvSet_stack_len c c1 id v hg]

theorem stepCA_enc_fset (k : Nat) (v : Val) (s' : CA) (r : Option Val)
    (h : stepCA cfg (enc b j c) (.fset k v) = .ok (s', r)) :
    ∃ b' j' c', s' = enc b' j' c' ∧ step c (.fset k v) = .ok (c', r) ∧ capOf c j ≤ capOf c' j' := by
  simp only [stepCA] at h
  have e : (enc b j c).upvalues = c.upvalues := rfl
  rw [e] at h
  cases hk : c.upvalues[k]? with
  | none => simp [hk] at h
  | some id =>
    simp only [hk, uvSetA_enc] at h
    cases hg : uvSet c id v with
    | error e => simp [hg, Except.map] at h
    | ok c1 =>
      simp only [hg, Except.map] at h; cases h
      refine ⟨b, j, c1, rfl, by simp [step, hk, hg], ?_⟩
      simp [capOf, uvSet_stack_len c c1 id v hg]

end step
section step
variable (cfg : Cfg) (b : Int) (j : Junk) (c : C)

theorem slot?_sp_sub (n : Nat) :
    (enc b j c).slot? ((enc b j c).sp - VS * ((n : Int) + 1)) =
      if n + 1 ≤ c.stack.length then some (c.stack.length - (n + 1)) else none := by
  rw [sp_sub, slot?_enc]
  by_cases h : n + 1 ≤ c.stack.length
  · rw [if_pos (by omega), if_pos h]; congr 1; omega
  · rw [if_neg (by omega), if_neg h]

theorem stepCA_enc_callc (n : Nat) (ks : List Nat) (s' : CA) (r : Option Val)
    (h : stepCA cfg (enc b j c) (.callc n ks) = .ok (s', r)) :
    ∃ b' j' c', s' = enc b' j' c' ∧ step c (.callc n ks) = .ok (c', r) ∧ capOf c j ≤ capOf c' j' := by
  simp only [stepCA] at h
  rw [slot?_sp_sub] at h
  by_cases hle : n + 1 ≤ c.stack.length
  · simp only [hle, if_true] at h
    have e : (enc b j c).hs = c.hs := rfl
    rw [e] at h
    cases hl : lookupAll c.hs ks with
    | none => simp [hl] at h
    | some ids =>
      simp only [hl] at h; cases h
      refine ⟨b, ⟨j.g, j.stale.drop 1⟩,
        { c with frames := ⟨c.fp, c.upvalues⟩ :: c.frames, fp := c.stack.length - (n + 1), upvalues := ids },
        ?_, by simp [step, hle, hl], by simp [capOf]⟩
      simp only [enc, List.map_cons, encFrame]
      congr 1
      unfold VS; omega
  · simp [hle] at h

/-- the frame push of `callBytecodeFunction` -/
def callmC (c : C) (n : Nat) : C :=
  { c with frames := ⟨c.fp, c.upvalues⟩ :: c.frames, fp := c.stack.length - (n + 1) }

theorem callm_enc (n : Nat) (hle : n + 1 ≤ c.stack.length) :
    ({ enc b j c with frames := ⟨(enc b j c).fp, (enc b j c).upvalues⟩ :: (enc b j c).frames,
                      stale := (enc b j c).stale.drop 1,
                      fp := (enc b j c).sp - VS * ((n : Int) + 1) } : CA) =
      enc b ⟨j.g, j.stale.drop 1⟩ (callmC c n) := by
  simp only [enc, callmC, List.map_cons, encFrame]
  congr 1
  unfold VS; omega

theorem growChecked_enc (hal : ∀ s, Disjoint s.base s.mem.length (cfg.alloc s))
    (hi : LInv c.heap c.openL) (hb : Bnd c (capOf c j)) (s' : CA)
    (h : growChecked cfg (enc b j c) = .ok s') :
    ∃ b' j', s' = enc b' j' c ∧ capOf c j ≤ capOf c j' := by
  unfold growChecked at h
  split at h
  · cases h
  · cases h
    have hd := hal (enc b j c)
    have := grow_enc b (cfg.alloc (enc b j c)) j c hi hb (by simpa [enc] using hd)
    refine ⟨_, _, this, ?_⟩
    simp [capOf]

theorem stepCA_enc_callm (hal : ∀ s, Disjoint s.base s.mem.length (cfg.alloc s))
    (hi : LInv c.heap c.openL) (hb : Bnd c (capOf c j)) (n : Nat) (s' : CA) (r : Option Val)
    (h : stepCA cfg (enc b j c) (.callm n) = .ok (s', r)) :
    ∃ b' j' c', s' = enc b' j' c' ∧ step c (.callm n) = .ok (c', r) ∧ capOf c j ≤ capOf c' j' := by
  simp only [stepCA] at h
  rw [slot?_sp_sub] at h
  by_cases hle : n + 1 ≤ c.stack.length
  · simp only [hle, if_true, callm_enc b j c n hle] at h
    have hstep : step c (.callm n) = .ok (callmC c n, none) := by simp [step, hle, callmC]
    split at h
    · cases hg : growChecked cfg (enc b ⟨j.g, j.stale.drop 1⟩ (callmC c n)) with
      | error e => rw [hg] at h; cases h
      | ok s2 =>
        simp only [hg] at h; cases h
        obtain ⟨b', j', h1, h2⟩ := growChecked_enc cfg b ⟨j.g, j.stale.drop 1⟩ (callmC c n) hal hi
          (by simpa [callmC, capOf, Bnd] using hb) _ hg
        exact ⟨b', j', callmC c n, h1, hstep, by simpa [capOf, callmC] using h2⟩
    · cases h
      exact ⟨b, _, callmC c n, rfl, hstep, by simp [capOf, callmC]⟩
  · simp [hle] at h

theorem stepCA_enc_grow (hal : ∀ s, Disjoint s.base s.mem.length (cfg.alloc s))
    (hi : LInv c.heap c.openL) (hb : Bnd c (capOf c j)) (s' : CA) (r : Option Val)
    (h : stepCA cfg (enc b j c) .grow = .ok (s', r)) :
    ∃ b' j' c', s' = enc b' j' c' ∧ step c .grow = .ok (c', r) ∧ capOf c j ≤ capOf c' j' := by
  simp only [stepCA] at h
  cases hg : growChecked cfg (enc b j c) with
  | error e => simp [hg] at h
  | ok s2 =>
    simp only [hg] at h; cases h
    obtain ⟨b', j', h1, h2⟩ := growChecked_enc cfg b j c hal hi hb _ hg
    exact ⟨b', j', c, h1, rfl, h2⟩

theorem stepCA_enc_ret (s' : CA) (r : Option Val)
    (h : stepCA cfg (enc b j c) .ret = .ok (s', r)) :
    ∃ b' j' c', s' = enc b' j' c' ∧ step c .ret = .ok (c', r) ∧ capOf c j ≤ capOf c' j' := by
  simp only [stepCA] at h
  cases hf : c.frames with
  | nil => simp [enc, hf] at h
  | cons f fs =>
    have ef : (enc b j c).frames = encFrame b f :: fs.map (encFrame b) := by simp [enc, hf]
    have e1 : (enc b j c).sp - VS = b + VS * ((c.stack.length : Int) - 1) := by
      simp only [enc]; unfold VS; omega
    have e2 : (enc b j c).fp = b + VS * ((c.fp : Nat) : Int) := rfl
    simp only [ef] at h
    rw [e1, slot?_enc] at h
    rw [e2, slot?_enc_nat] at h
    have hcond : ((0 : Int) ≤ (c.stack.length : Int) - 1 ∧ (c.stack.length : Int) - 1 < c.stack.length) ↔
        1 ≤ c.stack.length := by omega
    simp only [hcond] at h
    by_cases hL : 1 ≤ c.stack.length
    · by_cases hfp : c.fp < c.stack.length
      · simp only [hL, hfp, if_true] at h
        have htop : ((c.stack.length : Int) - 1).toNat = c.stack.length - 1 := by omega
        rw [htop, enc_mem_get b j c _ (by omega)] at h
        have hgl : c.stack.getLast? = c.stack[c.stack.length - 1]? := List.getLast?_eq_getElem? ..
        cases hv : c.stack[c.stack.length - 1]? with
        | none => simp [hv] at h
        | some rv =>
          simp only [hv] at h
          have := closeLoopA_enc b j c c.fp c.openL c.heap
          have e3 : (enc b j c).heap = c.heap.map (encUv b) := rfl
          have e4 : (enc b j c).openL = c.openL := rfl
          rw [← e2, e3, e4] at h
          rw [e2, this] at h
          cases hc : closeLoop c.stack c.fp c.heap c.openL with
          | error e => simp [hc, Except.map] at h
          | ok p =>
            obtain ⟨h', l'⟩ := p
            simp only [hc, Except.map] at h
            cases h
            refine ⟨b, ⟨c.stack.drop (c.fp + 1) ++ j.g, encFrame b f :: j.stale⟩,
              { c with stack := c.stack.take c.fp ++ [rv], fp := f.fp, upvalues := f.upvalues, frames := fs,
                       heap := h', openL := l' }, ?_, ?_, ?_⟩
            · simp only [enc, encFrame]
              congr 1
              · rw [List.set_append_left _ _ hfp]
                have : c.stack.set c.fp rv = c.stack.take c.fp ++ [rv] ++ c.stack.drop (c.fp + 1) := by
                  rw [List.set_eq_take_append_cons_drop]; simp [hfp]
                rw [this]; simp
              · simp; unfold VS; omega
            · simp only [step, hf, hgl, hv, hfp, if_true, hc]
            · simp [capOf]; omega
      · simp [hL, hfp] at h
    · simp [hL] at h

end step
/-- the slot-by-slot downward copy equals the simultaneous one when `dst ≤ src` -/
theorem copyLoop_spec (dst src : Nat) (hds : dst ≤ src) (k : Nat) :
    ∀ (i : Nat) (m : List Val), src + i + k ≤ m.length →
      ∃ m', copyLoop dst src k i m = .ok m' ∧ m'.length = m.length ∧
        ∀ j : Nat, m'[j]? = if dst + i ≤ j ∧ j < dst + i + k then m[src + (j - dst)]? else m[j]? := by
  induction k with
  | zero =>
    intro i m _
    refine ⟨m, rfl, rfl, ?_⟩
    intro j
    rw [if_neg (by omega)]
  | succ k ih =>
    intro i m hlen
    have h1 : src + i < m.length := by omega
    have h2 : dst + i < m.length := by omega
    obtain ⟨m', hm', hl', hg'⟩ := ih (i + 1) (m.set (dst + i) m[src + i]) (by simp; omega)
    refine ⟨m', ?_, by simpa using hl', ?_⟩
    · simp only [copyLoop, List.getElem?_eq_getElem h1, h2, if_true]
      exact hm'
    · intro j
      rw [hg' j]
      by_cases hj : dst + (i + 1) ≤ j ∧ j < dst + (i + 1) + k
      · rw [if_pos hj, if_pos (by omega), List.getElem?_set_ne (by omega)]
      · rw [if_neg hj]
        by_cases he : j = dst + i
        · subst he
          rw [if_pos (by omega), List.getElem?_set_self h2]
          have : src + (dst + i - dst) = src + i := by omega
          rw [this, List.getElem?_eq_getElem h1]
        · rw [if_neg (by omega), List.getElem?_set_ne (by omega)]

section step
variable (cfg : Cfg) (b : Int) (j : Junk) (c : C)

theorem stepCA_enc_tcall (n : Nat) (s' : CA) (r : Option Val)
    (h : stepCA cfg (enc b j c) (.tcall n) = .ok (s', r)) :
    ∃ b' j' c', s' = enc b' j' c' ∧ step c (.tcall n) = .ok (c', r) ∧ capOf c j ≤ capOf c' j' := by
  simp only [stepCA] at h
  have e2 : (enc b j c).fp = b + VS * ((c.fp : Nat) : Int) := rfl
  rw [slot?_sp_sub] at h
  rw [e2, slot?_enc_nat] at h
  by_cases hfp : c.fp < c.stack.length
  · by_cases hn : n + 1 ≤ c.stack.length
    · simp only [hfp, hn, if_true] at h
      by_cases hle : c.fp ≤ c.stack.length - (n + 1)
      · simp only [hle, if_true] at h
        have hcl := closeLoopA_enc b j c c.fp c.openL c.heap
        have e3 : (enc b j c).heap = c.heap.map (encUv b) := rfl
        have e4 : (enc b j c).openL = c.openL := rfl
        rw [e3, e4, hcl] at h
        cases hc : closeLoop c.stack c.fp c.heap c.openL with
        | error e => simp [hc, Except.map] at h
        | ok p =>
          obtain ⟨h', l'⟩ := p
          simp only [hc, Except.map] at h
          have hmem : (enc b j c).mem = c.stack ++ j.g := rfl
          obtain ⟨m', hm', hl', hg'⟩ := copyLoop_spec c.fp (c.stack.length - (n + 1)) hle (n + 1) 0
            (c.stack ++ j.g) (by simp; omega)
          rw [hmem, hm'] at h
          simp only at h
          cases h
          have hstep : step c (.tcall n) = .ok ({ c with
              stack := c.stack.take c.fp ++ c.stack.drop (c.stack.length - (n + 1)), heap := h', openL := l' },
              none) := by
            simp only [step]
            rw [if_pos (by omega), hc]
          refine ⟨b, ⟨m'.drop (c.fp + (n + 1)), j.stale⟩, _, ?_, hstep, ?_⟩
          · simp only [enc]
            have hnew : (c.stack.take c.fp ++ c.stack.drop (c.stack.length - (n + 1))).length = c.fp + (n + 1) := by
              simp; omega
            congr 1
            · -- the array
              have : m'.take (c.fp + (n + 1)) = c.stack.take c.fp ++ c.stack.drop (c.stack.length - (n + 1)) := by
                apply List.ext_getElem?
                intro t
                rw [List.getElem?_take]
                by_cases ht : t < c.fp + (n + 1)
                · rw [if_pos ht, hg' t]
                  by_cases ht2 : t < c.fp
                  · rw [if_neg (by omega), List.getElem?_append_left (by omega),
                        List.getElem?_append_left (by simp; omega), List.getElem?_take, if_pos ht2]
                  · rw [if_pos (by omega), List.getElem?_append_left (by omega),
                        List.getElem?_append_right (by simp; omega), List.getElem?_drop]
                    congr 1
                    simp; omega
                · rw [if_neg ht]
                  symm
                  rw [List.getElem?_eq_none_iff, hnew]; omega
              rw [← this, List.take_append_drop]
            · rw [hnew]; unfold VS; push_cast; omega
          · simp only [capOf, List.length_append, List.length_drop, List.length_take]
            rw [hl']; simp; omega
      · simp [hle] at h
    · simp [hfp, hn] at h
  · simp [hfp] at h

end step
/-- one operation of the addressed machine on a representation is the operation of the index
machine on what it represents -/
theorem stepCA_enc (cfg : Cfg) (hal : ∀ s, Disjoint s.base s.mem.length (cfg.alloc s))
    (b : Int) (j : Junk) (c : C) (hi : LInv c.heap c.openL) (hb : Bnd c (capOf c j))
    (op : Op) (s' : CA) (r : Option Val) (h : stepCA cfg (enc b j c) op = .ok (s', r)) :
    ∃ b' j' c', s' = enc b' j' c' ∧ step c op = .ok (c', r) ∧ capOf c j ≤ capOf c' j' := by
  cases op with
  | push v => exact stepCA_enc_push cfg b j c v s' r h
  | pop => exact stepCA_enc_pop cfg b j c s' r h
  | getLocal i => exact stepCA_enc_getLocal cfg b j c i s' r h
  | setLocal i v => exact stepCA_enc_setLocal cfg b j c i v s' r h
  | capture i => exact stepCA_enc_capture cfg b j c i s' r h
  | close i => exact stepCA_enc_close cfg b j c i s' r h
  | uget k => exact stepCA_enc_uget cfg b j c k s' r h
  | uset k v => exact stepCA_enc_uset cfg b j c k v s' r h
  | fget k => exact stepCA_enc_fget cfg b j c k s' r h
  | fset k v => exact stepCA_enc_fset cfg b j c k v s' r h
  | callc n ks => exact stepCA_enc_callc cfg b j c n ks s' r h
  | callm n => exact stepCA_enc_callm cfg b j c hal hi hb n s' r h
  | tcall n => exact stepCA_enc_tcall cfg b j c n s' r h
  | ret => exact stepCA_enc_ret cfg b j c s' r h
  | grow => exact stepCA_enc_grow cfg b j c hal hi hb s' r h

/-- runs of the addressed machine are runs of the index machine, whatever the sizes, the
growth policy and the allocator -/
theorem runCA_enc (cfg : Cfg) (hal : ∀ s, Disjoint s.base s.mem.length (cfg.alloc s)) (ops : List Op) :
    ∀ (b : Int) (j : Junk) (c : C), LInv c.heap c.openL → Bnd c (capOf c j) →
    ∀ (s' : CA) (rs : List Val), run (stepCA cfg) (enc b j c) ops = .ok (s', rs) →
      ∃ b' j' c', s' = enc b' j' c' ∧ run step c ops = .ok (c', rs) ∧ LInv c'.heap c'.openL ∧
        Bnd c' (capOf c' j') := by
  induction ops with
  | nil =>
    intro b j c hi hb s' rs h
    simp only [run] at h; cases h
    exact ⟨b, j, c, rfl, rfl, hi, hb⟩
  | cons op ops ih =>
    intro b j c hi hb s' rs h
    simp only [run] at h
    cases h1 : stepCA cfg (enc b j c) op with
    | error e => simp [h1] at h
    | ok p =>
      obtain ⟨s1, r1⟩ := p
      simp only [h1] at h
      obtain ⟨b1, j1, c1, e1, hs1, hcap⟩ := stepCA_enc cfg hal b j c hi hb op s1 r1 h1
      obtain ⟨hi1, hopen⟩ := step_LInv c c1 op r1 hi hs1
      have hb1 : Bnd c1 (capOf c1 j1) := by
        intro u s hu
        rcases hopen u s hu with h0 | h0
        · have := hb u s h0; omega
        · have : c.stack.length ≤ capOf c j := by simp [capOf]
          omega
      subst e1
      cases h2 : run (stepCA cfg) (enc b1 j1 c1) ops with
      | error e => simp [h2] at h
      | ok q =>
        obtain ⟨s2, rs2⟩ := q
        simp only [h2] at h
        obtain ⟨b2, j2, c2, e2, hr2, hi2, hb2⟩ := ih b1 j1 c1 hi1 hb1 s2 rs2 h2
        cases h
        exact ⟨b2, j2, c2, e2, by simp [run, hs1, hr2], hi2, hb2⟩

/-- `InvA` spelled out on the addressed state itself -/
structure WF (s : CA) : Prop where
  sp : ∃ n : Nat, s.sp = s.base + VS * n ∧ n ≤ s.mem.length
  fp : ∃ k : Nat, s.fp = s.base + VS * k
  frames : ∀ f ∈ s.frames, ∃ k : Nat, f.fp = s.base + VS * k
  heap : ∀ (u : Nat) (a : Int), s.heap[u]? = some (UvA.opn a) → ∃ k : Nat, a = s.base + VS * k ∧ k < s.mem.length
  sorted : s.openL.Pairwise (fun u u' => ∀ a a' : Int, s.heap[u]? = some (UvA.opn a) →
    s.heap[u']? = some (UvA.opn a') → a' < a)
  allOpen : ∀ u ∈ s.openL, ∃ a : Int, s.heap[u]? = some (UvA.opn a)
  complete : ∀ (u : Nat) (a : Int), s.heap[u]? = some (UvA.opn a) → u ∈ s.openL

theorem encUv_absUv (b : Int) (x : UvA) (h : ∀ a, x = UvA.opn a → ∃ k : Nat, a = b + VS * k) :
    encUv b (absUv b x) = x := by
  cases x with
  | closed v => rfl
  | opn a =>
    obtain ⟨k, hk⟩ := h a rfl
    subst hk
    simp only [absUv, encUv]
    congr 1
    unfold VS; omega

theorem WF_enc (s : CA) (h : WF s) :
    s = enc s.base ⟨s.mem.drop ((s.sp - s.base) / VS).toNat, s.stale⟩ (abs s) := by
  obtain ⟨n, hn, hnl⟩ := h.sp
  obtain ⟨k, hk⟩ := h.fp
  have en : ((s.sp - s.base) / VS).toNat = n := by rw [hn]; unfold VS; omega
  have ek : ((s.fp - s.base) / VS).toNat = k := by rw [hk]; unfold VS; omega
  cases s with
  | mk base mem sp fp ups frames stale heap openL hs =>
    simp only at hn hk en ek hnl
    simp only [enc, abs, en, ek, CA.mk.injEq]
    refine ⟨trivial, ?_, ?_, hk, trivial, ?_, trivial, ?_, trivial, trivial⟩
    · simp
    · rw [hn, List.length_take, Nat.min_eq_left hnl]
    · rw [List.map_map]
      conv => lhs; rw [← List.map_id frames]
      apply List.map_congr_left
      intro f hf
      obtain ⟨kf, hkf⟩ := h.frames f hf
      cases f with
      | mk ffp fups =>
        simp only at hkf
        simp only [id, Function.comp, absFrame, encFrame]
        congr 1
        rw [hkf]; unfold VS; omega
    · rw [List.map_map]
      conv => lhs; rw [← List.map_id heap]
      apply List.map_congr_left
      intro x hx
      simp only [id, Function.comp]
      symm
      apply encUv_absUv
      intro a ha
      obtain ⟨u, hu, hue⟩ := List.getElem_of_mem hx
      obtain ⟨k', hk', _⟩ := h.heap u a (by rw [List.getElem?_eq_some_iff]; exact ⟨hu, by rw [hue, ha]⟩)
      exact ⟨k', hk'⟩

theorem getElem?_abs_heap (s : CA) (u : Nat) : (abs s).heap[u]? = (s.heap[u]?).map (absUv s.base) := by
  simp [abs]

/-- the direct description implies the representation invariant used by the theorems -/
theorem InvA_of_WF (s : CA) (h : WF s) : InvA s := by
  have key : ∀ (u slot : Nat), (abs s).heap[u]? = some (Uv.opn slot) →
      ∃ a : Int, s.heap[u]? = some (UvA.opn a) ∧ a = s.base + VS * slot := by
    intro u slot hu
    rw [getElem?_abs_heap] at hu
    cases hx : s.heap[u]? with
    | none => simp [hx] at hu
    | some x =>
      cases x with
      | closed v => simp [hx, absUv] at hu
      | opn a =>
        obtain ⟨k, hk, _⟩ := h.heap u a hx
        simp [hx, absUv] at hu
        refine ⟨a, rfl, ?_⟩
        rw [hk] at hu ⊢
        have : ((s.base + VS * (k : Int) - s.base) / VS).toNat = k := by unfold VS; omega
        rw [this] at hu; subst hu; rfl
  refine ⟨⟨_, abs s, WF_enc s h, ⟨?_, ?_, ?_⟩, ?_⟩⟩
  · show (abs s).openL.Pairwise _
    have : (abs s).openL = s.openL := rfl
    rw [this]
    refine h.sorted.imp ?_
    intro u u' hab sl sl' h1 h2
    obtain ⟨a, ha, hae⟩ := key u sl h1
    obtain ⟨a', ha', hae'⟩ := key u' sl' h2
    have := hab a a' ha ha'
    rw [hae, hae'] at this
    unfold VS at this; omega
  · intro u hu
    obtain ⟨a, ha⟩ := h.allOpen u hu
    exact ⟨_, by rw [getElem?_abs_heap, ha]; rfl⟩
  · intro u sl hu
    obtain ⟨a, ha, _⟩ := key u sl hu
    exact h.complete u a ha
  · intro u sl hu
    obtain ⟨a, ha, hae⟩ := key u sl hu
    obtain ⟨k, hk, hkl⟩ := h.heap u a ha
    have : k = sl := by rw [hae] at hk; unfold VS at hk; omega
    omega

/-- and conversely -/
theorem WF_of_InvA (s : CA) (h : InvA s) : WF s := by
  obtain ⟨j, c, hs, hi, hcap⟩ := h.repr
  have hm : s.mem = c.stack ++ j.g := by rw [hs]; rfl
  have hh : s.heap = c.heap.map (encUv s.base) := by rw [hs]; rfl
  have hget : ∀ (u : Nat) (a : Int), s.heap[u]? = some (UvA.opn a) →
      ∃ k : Nat, c.heap[u]? = some (Uv.opn k) ∧ a = s.base + VS * k := by
    intro u a hu
    rw [hh, List.getElem?_map] at hu
    cases hx : c.heap[u]? with
    | none => simp [hx] at hu
    | some x =>
      cases x with
      | closed v => simp [hx, encUv] at hu
      | opn k => simp [hx, encUv] at hu; exact ⟨k, rfl, hu.symm⟩
  have hget' : ∀ (u k : Nat), c.heap[u]? = some (Uv.opn k) → s.heap[u]? = some (UvA.opn (s.base + VS * k)) := by
    intro u k hu; rw [hh, List.getElem?_map, hu]; rfl
  refine ⟨?_, ?_, ?_, ?_, ?_, ?_, ?_⟩
  · exact ⟨c.stack.length, by rw [hs]; rfl, by rw [hm]; simp⟩
  · exact ⟨c.fp, by rw [hs]; rfl⟩
  · intro f hf
    have : s.frames = c.frames.map (encFrame s.base) := by rw [hs]; rfl
    rw [this, List.mem_map] at hf
    obtain ⟨g, _, hg⟩ := hf
    exact ⟨g.fp, by rw [← hg]; rfl⟩
  · intro u a hu
    obtain ⟨k, h1, h2⟩ := hget u a hu
    exact ⟨k, h2, hcap u k h1⟩
  · have : s.openL = c.openL := by rw [hs]; rfl
    rw [this]
    refine hi.sorted.imp ?_
    intro u u' hab a a' h1 h2
    obtain ⟨k, hk, hka⟩ := hget u a h1
    obtain ⟨k', hk', hka'⟩ := hget u' a' h2
    have := hab k k' hk hk'
    rw [hka, hka']; unfold VS; omega
  · intro u hu
    have : s.openL = c.openL := by rw [hs]; rfl
    rw [this] at hu
    obtain ⟨k, hk⟩ := hi.allOpen u hu
    exact ⟨_, hget' u k hk⟩
  · intro u a hu
    obtain ⟨k, hk, _⟩ := hget u a hu
    have : s.openL = c.openL := by rw [hs]; rfl
    rw [this]
    exact hi.complete u k hk

end Elk.Upvalue
