import ElkVerif.Proofs.Prec
/-! The induction over expressions: every printed expression is parsed back by every stage that can produce it. -/
namespace Elk.Prec

/-! ## printing -/

theorem paren_len (b : Bool) (X : List Tok) : (paren b X).length = X.length + (if b then 2 else 0) := by
  cases b <;> simp [paren]

theorem print_pos (T : Table) (e : E) : 0 < (print T e).length := by
  cases e <;> simp [print, paren_len] <;> omega

/-- iterations of the loop of the level with precedence `p` spent on the left spine of `e` -/
def spineP (T : Table) (p : Nat) : E → Nat
  | .bin k o l _ => if T.precOf k o = p then spineP T p l + 1 else 0
  | _ => 0

theorem spineP_ne (T : Table) (p : Nat) (e : E) (h : prec T e ≠ p) : spineP T p e = 0 := by
  cases e <;> simp_all [spineP, prec]

theorem spineP_lt (T : Table) (p : Nat) (e : E) : spineP T p e < (print T e).length := by
  induction e with
  | bin k o l r ihl _ =>
    simp only [spineP, print, List.length_append, List.length_cons, paren_len]
    have := print_pos T r
    split <;> omega
  | _ => simp [spineP, print_pos]

/-- the precedences the tables know -/
def TablePrec (T : Table) (p : Nat) : Prop :=
  (∃ lv ∈ T.ladder, p = lv.prec) ∨ p = T.rngPrec ∨ p = T.asPrec ∨ p = T.unPrec ∨ p = powPrec T ∨
    p = T.postPrec ∨ p = atomPrec

/-- what `Valid` says about a binary node -/
theorem valid_bin {T : Table} {k : Kind} {o : Op} {l r : E} (h : Valid T (.bin k o l r) = true) :
    ((∃ lv ∈ T.ladder, lv.kind = k ∧ o ∈ lv.ops) ∨ (k = .bin ∧ o = T.powOp)) ∧ Valid T l = true ∧ Valid T r = true := by
  simp only [Valid, Bool.and_eq_true, Bool.or_eq_true, List.any_eq_true, beq_iff_eq] at h
  obtain ⟨⟨h1, h2⟩, h3⟩ := h
  refine ⟨?_, h2, h3⟩
  rcases h1 with ⟨lv, hlv, hk, ho⟩ | ⟨hk, ho⟩
  · exact Or.inl ⟨lv, hlv, hk, by simpa using ho⟩
  · exact Or.inr ⟨hk, ho⟩

theorem valid_prec {T : Table} (hC : Compat T) {e : E} (h : Valid T e = true) : TablePrec T (prec T e) := by
  cases e with
  | atom a => simp [TablePrec, prec]
  | un o e => simp [TablePrec, prec]
  | post e o => simp [TablePrec, prec]
  | rng o l r => simp [TablePrec, prec]
  | rngOpen o l => simp [TablePrec, prec]
  | as e c => simp [TablePrec, prec]
  | bin k o l r =>
    rcases (valid_bin h).1 with ⟨lv, hlv, hk, ho⟩ | ⟨hk, ho⟩
    · left
      refine ⟨lv, hlv, ?_⟩
      simp only [prec]
      rw [← hk]
      exact (hC.lvl_prec lv hlv o ho).1
    · subst hk; subst ho
      simp [TablePrec, prec, powPrec]

section Gaps
variable {T : Table} (hC : Compat T)
include hC

theorem tp_gt_rng {p : Nat} (h : TablePrec T p) (hp : T.rngPrec < p) : T.asPrec ≤ p := by
  have h1 := hC.rng_as; have h2 := hC.as_un; have h3 := hC.un_pow; have h4 := hC.pow_post; have h5 := hC.post_atom
  rcases h with ⟨lv, hlv, rfl⟩ | h | h | h | h | h | h
  · have := hC.lvl_lt lv hlv; omega
  all_goals omega

theorem tp_gt_as {p : Nat} (h : TablePrec T p) (hp : T.asPrec < p) : T.unPrec ≤ p := by
  have h1 := hC.rng_as; have h2 := hC.as_un; have h3 := hC.un_pow; have h4 := hC.pow_post; have h5 := hC.post_atom
  rcases h with ⟨lv, hlv, rfl⟩ | h | h | h | h | h | h
  · have := hC.lvl_lt lv hlv; omega
  all_goals omega

theorem tp_gt_pow {p : Nat} (h : TablePrec T p) (hp : powPrec T < p) : T.postPrec ≤ p := by
  have h1 := hC.rng_as; have h2 := hC.as_un; have h3 := hC.un_pow; have h4 := hC.pow_post; have h5 := hC.post_atom
  rcases h with ⟨lv, hlv, rfl⟩ | h | h | h | h | h | h
  · have := hC.lvl_lt lv hlv; omega
  all_goals omega

theorem tp_le_atom {p : Nat} (h : TablePrec T p) : p ≤ atomPrec := by
  have h1 := hC.rng_as; have h2 := hC.as_un; have h3 := hC.un_pow; have h4 := hC.pow_post; have h5 := hC.post_atom
  rcases h with ⟨lv, hlv, rfl⟩ | h | h | h | h | h | h
  · have := hC.lvl_lt lv hlv; omega
  all_goals omega

/-- an expression tighter than the head of a suffix can be produced by the rest of the suffix -/
theorem fits {p : Nat} (h : TablePrec T p) {lv : Level} {rest : List Level} (hs : Suffix T (lv :: rest))
    (hlt : lv.prec < p) : minPrec T rest ≤ p := by
  have h1 := hC.rng_as; have h2 := hC.as_un; have h3 := hC.un_pow; have h4 := hC.pow_post; have h5 := hC.post_atom
  have hr := minPrec_le_rng hC hs.tail
  rcases h with ⟨lv', hlv', rfl⟩ | h | h | h | h | h | h
  · exact hs.tail.min_le hC (hs.tighter_in_tail hC hlv' hlt)
  all_goals omega

theorem min_ladder_le {p : Nat} (h : TablePrec T p) : minPrec T T.ladder ≤ p := by
  have h1 := hC.rng_as; have h2 := hC.as_un; have h3 := hC.un_pow; have h4 := hC.pow_post; have h5 := hC.post_atom
  have hs : Suffix T T.ladder := ⟨[], rfl⟩
  have hr := minPrec_le_rng hC hs
  rcases h with ⟨lv', hlv', rfl⟩ | h | h | h | h | h | h
  · exact hs.min_le hC hlv'
  all_goals omega

end Gaps

theorem head_primary_append {X : List Tok} (h : HeadPrimary X) (tl : List Tok) : HeadPrimary (X ++ tl) := by
  cases X with
  | nil => exact absurd h (by simp [HeadPrimary])
  | cons t rest => cases t <;> simp_all [HeadPrimary]

/-- an expression at the postfix level is an atom or a postfix expression -/
theorem post_level_cases {T : Table} (hC : Compat T) {e : E} (hv : Valid T e = true) (hp : T.postPrec ≤ prec T e) :
    (∃ a, e = .atom a) ∨ (∃ e' o', e = .post e' o') := by
  have h1 := hC.rng_as; have h2 := hC.as_un; have h3 := hC.un_pow; have h4 := hC.pow_post; have h5 := hC.post_atom
  cases e with
  | atom a => exact Or.inl ⟨a, rfl⟩
  | post e o => exact Or.inr ⟨e, o, rfl⟩
  | un o e => simp only [prec] at hp; omega
  | rng o l r => simp only [prec] at hp; omega
  | rngOpen o l => simp only [prec] at hp; omega
  | as e c => simp only [prec] at hp; omega
  | bin k o l r =>
    simp only [prec] at hp
    rcases (valid_bin hv).1 with ⟨lv, hlv, hk, ho⟩ | ⟨hk, ho⟩
    · have e1 := (hC.lvl_prec lv hlv o ho).1
      have e2 := hC.lvl_lt lv hlv
      rw [hk] at e1
      omega
    · subst hk; subst ho
      simp only [powPrec] at h4
      omega

theorem valid_post {T : Table} {e : E} {o : Op} (h : Valid T (.post e o) = true) :
    o ∈ T.postOps ∧ Valid T e = true ∧ ∀ e' o', e ≠ .post e' o' := by
  simp only [Valid, Bool.and_eq_true] at h
  obtain ⟨⟨h1, h2⟩, h3⟩ := h
  refine ⟨by simpa using h1, h2, ?_⟩
  intro e' o' he
  subst he
  simp at h3

theorem head_primary_of_post {T : Table} (hC : Compat T) : (e : E) → Valid T e = true → T.postPrec ≤ prec T e →
    HeadPrimary (print T e)
  | .atom a, _, _ => by simp [print, HeadPrimary]
  | .post e o, hv, _ => by
    obtain ⟨_, hv', hnp⟩ := valid_post hv
    by_cases hb : T.postPrec > prec T e
    · simp [print, paren, hb, HeadPrimary]
    · rcases post_level_cases hC hv' (by omega) with ⟨a, rfl⟩ | ⟨e', o', rfl⟩
      · simp [print, paren, hb, HeadPrimary]
      · exact absurd rfl (hnp e' o')
  | .un o e, hv, hp => by
    rcases post_level_cases hC hv hp with ⟨a, h⟩ | ⟨e', o', h⟩ <;> cases h
  | .rng o l r, hv, hp => by
    rcases post_level_cases hC hv hp with ⟨a, h⟩ | ⟨e', o', h⟩ <;> cases h
  | .rngOpen o l, hv, hp => by
    rcases post_level_cases hC hv hp with ⟨a, h⟩ | ⟨e', o', h⟩ <;> cases h
  | .as e c, hv, hp => by
    rcases post_level_cases hC hv hp with ⟨a, h⟩ | ⟨e', o', h⟩ <;> cases h
  | .bin k o l r, hv, hp => by
    rcases post_level_cases hC hv hp with ⟨a, h⟩ | ⟨e', o', h⟩ <;> cases h

theorem startsOperand_append (T : Table) {X : List Tok} (h : startsOperand T X = true) (tl : List Tok) :
    startsOperand T (X ++ tl) = true := by
  cases X with
  | nil => simp [startsOperand] at h
  | cons t rest => cases t <;> simp_all [startsOperand]

/-! ## atoms and parenthesised expressions -/

/-- the parser used inside parentheses parses every printed expression of at most `m` tokens -/
def GoodTop (T : Table) (top : P) (m : Nat) : Prop :=
  ∀ e tl, Valid T e = true → (print T e).length ≤ m → Stops T 0 tl → top (print T e ++ tl) = some (e, tl)

section Items
variable {T : Table} (hC : Compat T) (top : P) (n m : Nat) (hTop : GoodTop T top m)
include hC

theorem stages_of_primary {X : List Tok} {x : E} (hXn : X.length < n) (hh : HeadPrimary X)
    (hprim : ∀ tl, parsePrimary top (X ++ tl) = some (x, tl)) :
    AllStages T top n X x atomPrec (fun _ => 0) := by
  have h1 := hC.rng_as; have h2 := hC.as_un; have h3 := hC.un_pow; have h4 := hC.pow_post; have h5 := hC.post_atom
  exact AllStages.mk_upper hC top n hXn (by omega) (fun _ => post_of_prim top hprim)
    (fun _ h => by omega) (fun _ h => by omega) (fun _ h => by omega) (fun h => by omega) (fun _ => hh)

include hTop in
theorem stages_block {c : E} (hv : Valid T c = true) (hm : (print T c).length ≤ m)
    (hXn : (paren true (print T c)).length < n) :
    AllStages T top n (paren true (print T c)) c atomPrec (fun _ => 0) := by
  apply stages_of_primary hC top n hXn
  · simp [paren, HeadPrimary]
  · intro tl
    have := hTop c (.rparen :: tl) hv hm (by simp [Stops])
    simp [paren, parsePrimary, this]

include hTop in
/-- a child of a node as the printer writes it: in parentheses or bare -/
theorem child {c : E} (b : Bool) (hv : Valid T c = true) (hlen : (paren b (print T c)).length < n)
    (hm : b = true → (print T c).length ≤ m)
    (ih : b = false → AllStages T top n (print T c) c (prec T c) (fun p => spineP T p c)) :
    AllStages T top n (paren b (print T c)) c (if b then atomPrec else prec T c)
      (if b then (fun _ => 0) else fun p => spineP T p c) := by
  cases b with
  | true => simpa using stages_block hC top n m hTop hv (hm rfl) hlen
  | false => simpa [paren] using ih rfl

end Items

/-! ## one lemma per node kind -/

/-- induction hypothesis / conclusion: all stages parse `print e` back to `e` -/
abbrev Round (T : Table) (top : P) (n : Nat) (e : E) : Prop :=
  AllStages T top n (print T e) e (prec T e) (fun p => spineP T p e)

theorem thr {q p : Nat} (b : Bool) (h1 : q ≤ atomPrec) (h2 : b = false → q ≤ p) :
    q ≤ (if b then atomPrec else p) := by
  cases b with
  | true => simpa using h1
  | false => simpa using h2 rfl

theorem AllStages.change_sp {T : Table} {top : P} {n : Nat} {X : List Tok} {x : E} {pr : Nat} {sp sp' : Nat → Nat}
    (h : AllStages T top n X x pr sp) (heq : ∀ lv ∈ T.ladder, sp lv.prec = sp' lv.prec) :
    AllStages T top n X x pr sp' :=
  ⟨h.post, h.pow, h.un, h.as, h.bin, fun lv rest hs hle => by
    rw [← heq lv (hs.mem (by simp))]; exact h.loop lv rest hs hle⟩

section Nodes
variable {T : Table} (hC : Compat T) (top : P) (n m : Nat) (hTop : GoodTop T top m)
include hC hTop

omit hTop in
theorem round_atom (a : String) (hn : (print T (.atom a)).length < n) : Round T top n (.atom a) := by
  show AllStages T top n [.atom a] (.atom a) atomPrec (fun _ => 0)
  exact stages_of_primary hC top n hn (by simp [HeadPrimary]) (fun tl => by simp [parsePrimary])

theorem round_post (o : Op) (e : E) (hv : Valid T (.post e o) = true)
    (hn : (print T (.post e o)).length < n) (hm : (print T (.post e o)).length ≤ m + 1) :
    Round T top n (.post e o) := by
  have h1 := hC.rng_as; have h2 := hC.as_un; have h3 := hC.un_pow; have h4 := hC.pow_post; have h5 := hC.post_atom
  obtain ⟨ho, hv', hnp⟩ := valid_post hv
  have hX : print T (.post e o) = paren (decide (T.postPrec > prec T e)) (print T e) ++ [.op .post o] := rfl
  generalize hb : decide (T.postPrec > prec T e) = b at hX
  rw [hX] at hn hm
  simp only [List.length_append, List.length_cons, List.length_nil, paren_len] at hn hm
  have hprim : ∀ tl, parsePrimary top (paren b (print T e) ++ tl) = some (e, tl) := by
    intro tl
    cases b with
    | true =>
      have := hTop e (.rparen :: tl) hv' (by simp at hm; omega) (by simp [Stops])
      simp [paren, parsePrimary, this]
    | false =>
      have hp : T.postPrec ≤ prec T e := by
        have : ¬ T.postPrec > prec T e := by simpa using hb
        omega
      rcases post_level_cases hC hv' hp with ⟨a, rfl⟩ | ⟨e', o', rfl⟩
      · simp [paren, print, parsePrimary]
      · exact absurd rfl (hnp e' o')
  have hhead : HeadPrimary (paren b (print T e) ++ [.op .post o]) := by
    cases b with
    | true => simp [paren, HeadPrimary]
    | false =>
      have hp : T.postPrec ≤ prec T e := by
        have : ¬ T.postPrec > prec T e := by simpa using hb
        omega
      simpa [paren] using head_primary_append (head_primary_of_post hC e hv' hp) _
  show AllStages T top n (print T (.post e o)) (.post e o) T.postPrec (fun _ => 0)
  rw [hX]
  refine AllStages.mk_upper hC top n (by simp only [List.length_append, List.length_cons, List.length_nil, paren_len]; omega)
    (by omega) ?_ (fun _ h => by omega) (fun _ h => by omega)
    (fun _ h => by omega) (fun h => by omega) (fun _ => hhead)
  intro _ tl _
  have := hprim (.op .post o :: tl)
  simp only [List.append_assoc, List.cons_append, List.nil_append, parsePostfix, this]
  simp [ho]

theorem round_un (o : Op) (e : E) (hv : Valid T (.un o e) = true) (hn : (print T (.un o e)).length < n)
    (hm : (print T (.un o e)).length ≤ m + 1) (ih : Round T top n e) : Round T top n (.un o e) := by
  have h1 := hC.rng_as; have h2 := hC.as_un; have h3 := hC.un_pow; have h4 := hC.pow_post; have h5 := hC.post_atom
  simp only [Valid, Bool.and_eq_true] at hv
  obtain ⟨ho, hv'⟩ := hv
  have hX : print T (.un o e) = .op .pre o :: paren (decide (T.unPrec > prec T e)) (print T e) := rfl
  generalize hb : decide (T.unPrec > prec T e) = b at hX
  rw [hX] at hn hm
  simp only [List.length_cons, paren_len] at hn hm
  have hc := child hC top n m hTop b hv' (by simp only [paren_len]; omega)
    (fun h => by subst h; simp at hm; omega) (fun _ => ih)
  show AllStages T top n (print T (.un o e)) (.un o e) T.unPrec (fun _ => 0)
  rw [hX]
  refine AllStages.mk_upper hC top n (by simp only [List.length_cons, paren_len]; omega) (by omega)
    (fun h => by omega) (fun h _ => by omega) ?_ (fun _ h => by omega) (fun h => by omega) (fun h => by omega)
  intro _ _ k hk tl hs
  simp only [List.length_cons, paren_len] at hk
  obtain ⟨k', rfl⟩ : ∃ k', k = k' + 1 := ⟨k - 1, by omega⟩
  have hthr : T.unPrec ≤ (if b then atomPrec else prec T e) :=
    thr b (by omega) (fun h => by subst h; simpa using hb)
  have := hc.un hthr k' (by simp only [paren_len]; omega) tl hs
  simp only [List.cons_append, parseUnary, ho, if_true, this]

theorem round_as (e : E) (c : String) (hv : Valid T (.as e c) = true) (hn : (print T (.as e c)).length < n)
    (hm : (print T (.as e c)).length ≤ m + 1) (ih : Round T top n e) : Round T top n (.as e c) := by
  have h1 := hC.rng_as; have h2 := hC.as_un; have h3 := hC.un_pow; have h4 := hC.pow_post; have h5 := hC.post_atom
  have hv' : Valid T e = true := by simpa [Valid] using hv
  have hX : print T (.as e c) = paren (decide (T.asPrec ≥ prec T e)) (print T e) ++ [.as, .const c] := rfl
  generalize hb : decide (T.asPrec ≥ prec T e) = b at hX
  rw [hX] at hn hm
  simp only [List.length_append, List.length_cons, List.length_nil, paren_len] at hn hm
  have hc := child hC top n m hTop b hv' (by simp only [paren_len]; omega)
    (fun h => by subst h; simp at hm; omega) (fun _ => ih)
  show AllStages T top n (print T (.as e c)) (.as e c) T.asPrec (fun _ => 0)
  rw [hX]
  refine AllStages.mk_upper hC top n (by simp only [List.length_append, List.length_cons, List.length_nil, paren_len]; omega)
    (by omega) (fun h => by omega) (fun h _ => by omega) (fun h _ => by omega) ?_ (fun h => by omega) (fun h => by omega)
  intro _ _ tl _
  have hthr : T.unPrec ≤ (if b then atomPrec else prec T e) :=
    thr b (by omega) (fun h => by
      subst h
      have : T.asPrec < prec T e := by simpa using hb
      exact tp_gt_as hC (valid_prec hC hv') this)
  have := hc.un hthr n (by simp only [paren_len]; omega) (.as :: .const c :: tl) (by simp [Stops]; omega)
  simp only [List.append_assoc, List.cons_append, List.nil_append, parseAs, this]

theorem round_rng (o : Op) (l r : E) (hv : Valid T (.rng o l r) = true) (hn : (print T (.rng o l r)).length < n)
    (hm : (print T (.rng o l r)).length ≤ m + 1) (ihl : Round T top n l) (ihr : Round T top n r) :
    Round T top n (.rng o l r) := by
  have h1 := hC.rng_as; have h2 := hC.as_un; have h3 := hC.un_pow; have h4 := hC.pow_post; have h5 := hC.post_atom
  simp only [Valid, Bool.and_eq_true, Bool.or_eq_true] at hv
  obtain ⟨⟨⟨ho, hvl⟩, hvr⟩, hstart⟩ := hv
  have homem : o ∈ T.rngOps := by simpa using ho
  have hX : print T (.rng o l r) = paren (decide (T.rngPrec ≥ prec T l)) (print T l) ++
      .op .rng o :: paren (decide (T.rngPrec ≥ prec T r)) (print T r) := rfl
  generalize hbl : decide (T.rngPrec ≥ prec T l) = bl at hX
  generalize hbr : decide (T.rngPrec ≥ prec T r) = br at hX hstart
  rw [hX] at hn hm
  simp only [List.length_append, List.length_cons, paren_len] at hn hm
  have hcl := child hC top n m hTop bl hvl (by simp only [paren_len]; omega)
    (fun h => by subst h; simp at hm; omega) (fun _ => ihl)
  have hcr := child hC top n m hTop br hvr (by simp only [paren_len]; omega)
    (fun h => by subst h; simp at hm; omega) (fun _ => ihr)
  show AllStages T top n (print T (.rng o l r)) (.rng o l r) T.rngPrec (fun _ => 0)
  rw [hX]
  refine AllStages.mk_upper hC top n (by simp only [List.length_append, List.length_cons, paren_len]; omega)
    (by omega) (fun h => by omega) (fun h _ => by omega) (fun h _ => by omega) (fun h _ => by omega) ?_ (fun h => by omega)
  intro _ tl hs
  have hthl : T.asPrec ≤ (if bl then atomPrec else prec T l) :=
    thr bl (by omega) (fun h => by
      subst h
      have : T.rngPrec < prec T l := by simpa using hbl
      exact tp_gt_rng hC (valid_prec hC hvl) this)
  have hthr : T.asPrec ≤ (if br then atomPrec else prec T r) :=
    thr br (by omega) (fun h => by
      subst h
      have : T.rngPrec < prec T r := by simpa using hbr
      exact tp_gt_rng hC (valid_prec hC hvr) this)
  have hstop : Stops T T.asPrec (.op .rng o :: (paren br (print T r) ++ tl)) := by
    refine ⟨?_, ?_, ?_, ?_⟩
    · intro lv hlv hle
      have := hC.lvl_lt lv hlv
      omega
    · intro hle; omega
    · intro _; exact (hC.rng_disj o homem).1
    · intro _; exact (hC.rng_disj o homem).2
  have e1 := hcl.as hthl (.op .rng o :: (paren br (print T r) ++ tl)) hstop
  have e2 := hcr.as hthr tl (hs.mono (Nat.le_of_lt h1))
  have e3 : startsOperand T (paren br (print T r) ++ tl) = true := by
    cases br with
    | true => simp [paren, startsOperand]
    | false =>
      have : startsOperand T (print T r) = true := by simpa using hstart
      simpa [paren] using startsOperand_append T this tl
  simp only [List.append_assoc, List.cons_append, parseRng, e1, ho, if_true, e3, e2]

theorem round_pow (l r : E) (hv : Valid T (.bin .bin T.powOp l r) = true)
    (hn : (print T (.bin .bin T.powOp l r)).length < n) (hm : (print T (.bin .bin T.powOp l r)).length ≤ m + 1)
    (ihl : Round T top n l) (ihr : Round T top n r) : Round T top n (.bin .bin T.powOp l r) := by
  have h1 := hC.rng_as; have h2 := hC.as_un; have h3 := hC.un_pow; have h4 := hC.pow_post; have h5 := hC.post_atom
  obtain ⟨_, hvl, hvr⟩ := valid_bin hv
  have hright := hC.pow_right
  have hX : print T (.bin .bin T.powOp l r) = paren (decide (powPrec T ≥ prec T l)) (print T l) ++
      .op .inf T.powOp :: paren (decide (powPrec T > prec T r)) (print T r) := by
    simp [print, hright, powPrec]
  generalize hbl : decide (powPrec T ≥ prec T l) = bl at hX
  generalize hbr : decide (powPrec T > prec T r) = br at hX
  rw [hX] at hn hm
  simp only [List.length_append, List.length_cons, paren_len] at hn hm
  have hcl := child hC top n m hTop bl hvl (by simp only [paren_len]; omega)
    (fun h => by subst h; simp at hm; omega) (fun _ => ihl)
  have hcr := child hC top n m hTop br hvr (by simp only [paren_len]; omega)
    (fun h => by subst h; simp at hm; omega) (fun _ => ihr)
  have hthl : T.postPrec ≤ (if bl then atomPrec else prec T l) :=
    thr bl (by omega) (fun h => by
      subst h
      have : powPrec T < prec T l := by simpa using hbl
      exact tp_gt_pow hC (valid_prec hC hvl) this)
  have hthr : powPrec T ≤ (if br then atomPrec else prec T r) :=
    thr br (by omega) (fun h => by subst h; simpa using hbr)
  show AllStages T top n (print T (.bin .bin T.powOp l r)) (.bin .bin T.powOp l r) (powPrec T)
    (fun p => spineP T p (.bin .bin T.powOp l r))
  refine AllStages.change_sp (sp := fun _ => 0) ?_ (fun lv hlv => by
    have := hC.lvl_lt lv hlv
    have hne : ¬ T.precOf .bin T.powOp = lv.prec := by
      simp only [powPrec] at h3
      omega
    simp [spineP, hne])
  rw [hX]
  refine AllStages.mk_upper hC top n (by simp only [List.length_append, List.length_cons, paren_len]; omega)
    (by omega) (fun h => by omega) ?_ (fun h _ => by omega) (fun h _ => by omega) (fun h => by omega) ?_
  · intro _ _ k hk tl hs
    simp only [List.length_append, List.length_cons, paren_len] at hk
    obtain ⟨k', rfl⟩ : ∃ k', k = k' + 1 := ⟨k - 1, by omega⟩
    have hstop : Stops T T.postPrec (.op .inf T.powOp :: (paren br (print T r) ++ tl)) := by
      refine ⟨?_, ?_, ?_, ?_⟩
      · intro lv hlv hle
        have := hC.lvl_lt lv hlv
        omega
      · intro hle; omega
      · intro hle; omega
      · intro _; exact hC.pow_disj
    have e1 := hcl.post hthl (.op .inf T.powOp :: (paren br (print T r) ++ tl)) hstop
    have e2 := hcr.pow hthr k' (by simp only [paren_len]; omega) tl hs
    simp only [List.append_assoc, List.cons_append, parsePower, e1, if_true, e2]
  · intro _
    cases bl with
    | true => simp [paren, HeadPrimary]
    | false =>
      have : powPrec T < prec T l := by simpa using hbl
      have hp := tp_gt_pow hC (valid_prec hC hvl) this
      simpa [paren] using head_primary_append (head_primary_of_post hC l hvl hp) _

theorem round_ladder (lv0 : Level) (hlv0 : lv0 ∈ T.ladder) (o : Op) (ho : o ∈ lv0.ops) (l r : E)
    (hv : Valid T (.bin lv0.kind o l r) = true)
    (hn : (print T (.bin lv0.kind o l r)).length < n) (hm : (print T (.bin lv0.kind o l r)).length ≤ m + 1)
    (ihl : Round T top n l) (ihr : Round T top n r) : Round T top n (.bin lv0.kind o l r) := by
  have h1 := hC.rng_as; have h2 := hC.as_un; have h3 := hC.un_pow; have h4 := hC.pow_post; have h5 := hC.post_atom
  obtain ⟨_, hvl, hvr⟩ := valid_bin hv
  obtain ⟨hp, hright⟩ := hC.lvl_prec lv0 hlv0 o ho
  have hlt := hC.lvl_lt lv0 hlv0
  have hX : print T (.bin lv0.kind o l r) = paren (decide (lv0.prec > prec T l)) (print T l) ++
      .op .inf o :: paren (decide (lv0.prec ≥ prec T r)) (print T r) := by
    simp [print, hright, hp]
  generalize hbl : decide (lv0.prec > prec T l) = bl at hX
  generalize hbr : decide (lv0.prec ≥ prec T r) = br at hX
  rw [hX] at hn hm
  simp only [List.length_append, List.length_cons, paren_len] at hn hm
  have hcl := child hC top n m hTop bl hvl (by simp only [paren_len]; omega)
    (fun h => by subst h; simp at hm; omega) (fun _ => ihl)
  have hcr := child hC top n m hTop br hvr (by simp only [paren_len]; omega)
    (fun h => by subst h; simp at hm; omega) (fun _ => ihr)
  have hlen : (print T (.bin lv0.kind o l r)).length < n := by
    rw [hX]; simp only [List.length_append, List.length_cons, paren_len]; omega
  show AllStages T top n (print T (.bin lv0.kind o l r)) (.bin lv0.kind o l r) (T.precOf lv0.kind o)
    (fun p => spineP T p (.bin lv0.kind o l r))
  rw [hp]
  refine AllStages.mk_ladder hC top n hlt (fun p => Nat.lt_trans (spineP_lt T p _) hlen)
    (fun lv rest hs hl => fits hC (by rw [← hp]; exact valid_prec hC hv) hs hl) ?_
    (fun p hne => by simp only [spineP, hp]; rw [if_neg (fun h => hne h.symm)])
  intro lv rest hs heq
  have hlv : lv ∈ T.ladder := hs.mem (by simp)
  have hlveq : lv = lv0 := level_eq_of_prec hC hlv hlv0 heq
  subst hlveq
  intro tl k hst
  have hsp : spineP T lv.prec (.bin lv.kind o l r) = spineP T lv.prec l + 1 := by
    simp only [spineP, hp, if_true]
  have hspl : (if bl then (fun _ => 0) else fun p => spineP T p l) lv.prec = spineP T lv.prec l := by
    cases bl with
    | true =>
      have : prec T l ≠ lv.prec := by
        have : lv.prec > prec T l := by simpa using hbl
        omega
      simp [spineP_ne T lv.prec l this]
    | false => rfl
  have hthl : lv.prec ≤ (if bl then atomPrec else prec T l) :=
    thr bl (by omega) (fun h => by
      subst h
      have : ¬ lv.prec > prec T l := by simpa using hbl
      omega)
  have hthr : minPrec T rest ≤ (if br then atomPrec else prec T r) :=
    thr br (by have := minPrec_le_rng hC hs.tail; omega) (fun h => by
      subst h
      have : ¬ lv.prec ≥ prec T r := by simpa using hbr
      exact fits hC (valid_prec hC hvr) hs (by omega))
  have hstop : Stops T (lv.prec + 1) (.op .inf o :: (paren br (print T r) ++ tl)) := by
    obtain ⟨d1, d2, d3, d4⟩ := hC.lvl_disj lv hlv o ho
    refine ⟨?_, fun _ => d1, fun _ => d2, fun _ => d3⟩
    intro lv' hlv' hle
    exact d4 lv' hlv' (by omega)
  have e1 := hcl.loop lv rest hs hthl (.op .inf o :: (paren br (print T r) ++ tl)) (k + 1) hstop
  rw [hspl] at e1
  have e2 := hcr.bin rest hs.tail hthr tl (hst.mono (hs.head_lt hC))
  rw [hX, hsp]
  have hk : k + (spineP T lv.prec l + 1) = k + 1 + spineP T lv.prec l := by omega
  simp only [List.append_assoc, List.cons_append, hk]
  rw [e1]
  have hoc : lv.ops.contains o = true := by simpa using ho
  simp only [loop, hoc, if_true, e2]

/-- **every stage parses a printed expression back** -/
theorem round_all : (e : E) → Valid T e = true → (print T e).length < n → (print T e).length ≤ m + 1 →
    Round T top n e
  | .atom a, _, hn, _ => round_atom hC top n a hn
  | .post e o, hv, hn, hm => round_post hC top n m hTop o e hv hn hm
  | .rngOpen _ _, hv, _, _ => by simp [Valid] at hv
  | .un o e, hv, hn, hm => by
    have hv' : Valid T e = true := by
      simp only [Valid, Bool.and_eq_true] at hv; exact hv.2
    have hl : (print T e).length < (print T (.un o e)).length := by
      simp only [print, List.length_cons, paren_len]; omega
    exact round_un hC top n m hTop o e hv hn hm (round_all e hv' (by omega) (by omega))
  | .as e c, hv, hn, hm => by
    have hv' : Valid T e = true := by simpa [Valid] using hv
    have hl : (print T e).length < (print T (.as e c)).length := by
      simp only [print, List.length_append, List.length_cons, List.length_nil, paren_len]; omega
    exact round_as hC top n m hTop e c hv hn hm (round_all e hv' (by omega) (by omega))
  | .rng o l r, hv, hn, hm => by
    have hv2 := hv
    simp only [Valid, Bool.and_eq_true] at hv2
    have hl : (print T l).length + (print T r).length < (print T (.rng o l r)).length := by
      simp only [print, List.length_append, List.length_cons, paren_len]; omega
    exact round_rng hC top n m hTop o l r hv hn hm (round_all l hv2.1.1.2 (by omega) (by omega))
      (round_all r hv2.1.2 (by omega) (by omega))
  | .bin k o l r, hv, hn, hm => by
    obtain ⟨hk, hvl, hvr⟩ := valid_bin hv
    have hl : (print T l).length + (print T r).length < (print T (.bin k o l r)).length := by
      simp only [print, List.length_append, List.length_cons, paren_len]; omega
    have ihl := round_all l hvl (by omega) (by omega)
    have ihr := round_all r hvr (by omega) (by omega)
    rcases hk with ⟨lv, hlv, rfl, ho⟩ | ⟨rfl, rfl⟩
    · exact round_ladder hC top n m hTop lv hlv o ho l r hv hn hm ihl ihr
    · exact round_pow hC top n m hTop l r hv hn hm ihl ihr

end Nodes

/-! ## the parser for parenthesised expressions is the parser itself -/

theorem good_parseTop {T : Table} (hC : Compat T) : ∀ n, GoodTop T (parseTop T (n + 1)) n
  | 0 => by
    intro e tl _ hlen _
    have := print_pos T e
    omega
  | n + 1 => by
    intro e tl hv hlen hs
    have ih := good_parseTop hC n
    have hr := round_all hC (parseTop T (n + 1)) (n + 2) n ih e hv (by omega) (by omega)
    have hmin := min_ladder_le hC (valid_prec hC hv)
    have := hr.bin T.ladder ⟨[], rfl⟩ hmin tl (hs.mono (Nat.zero_le _))
    simpa [parseTop] using this

/-- **round trip**: a printed expression parses back to itself -/
theorem parse_print {T : Table} (hC : Compat T) (e : E) (hv : Valid T e = true) :
    parse T (print T e) = some e := by
  have := good_parseTop hC (print T e).length e [] hv (Nat.le_refl _) (by simp [Stops])
  simp only [List.append_nil] at this
  simp [parse, this]

end Elk.Prec
