import ElkVerif.Model.Upvalue
namespace Elk.Upvalue

abbrev Desc (h : List Uv) (u u' : Nat) : Prop :=
  ∀ s s', h[u]? = some (.opn s) → h[u']? = some (.opn s') → s' < s

structure LInv (h : List Uv) (l : List Nat) : Prop where
  sorted : l.Pairwise (Desc h)
  allOpen : ∀ u ∈ l, ∃ s, h[u]? = some (.opn s)
  complete : ∀ u s, h[u]? = some (.opn s) → u ∈ l

theorem walk_spec (h : List Uv) (slot : Nat) (l : List Nat)
    (hs : l.Pairwise (Desc h))
    (ho : ∀ u ∈ l, ∃ s, h[u]? = some (.opn s)) :
    ∃ pre rest, walk h slot l = .ok (pre, rest) ∧ l = pre ++ rest ∧
      (∀ u ∈ pre, ∀ s, h[u]? = some (.opn s) → slot < s) ∧
      (∀ u ∈ rest, ∀ s, h[u]? = some (.opn s) → s ≤ slot) := by
  induction l with
  | nil => exact ⟨[], [], rfl, rfl, by simp, by simp⟩
  | cons u l ih =>
    rw [List.pairwise_cons] at hs
    obtain ⟨s, hu⟩ := ho u (List.mem_cons_self)
    have ho' : ∀ u' ∈ l, ∃ s, h[u']? = some (.opn s) := fun u' hu' => ho u' (List.mem_cons_of_mem _ hu')
    by_cases hle : s ≤ slot
    · refine ⟨[], u :: l, by simp [walk, hu, hle], rfl, by simp, ?_⟩
      intro u' hu' s' hs'
      rcases List.mem_cons.mp hu' with rfl | hm
      · rw [hu] at hs'; cases hs'; exact hle
      · have := hs.1 u' hm s s' hu hs'; omega
    · obtain ⟨pre, rest, hw, hl, hp, hr⟩ := ih hs.2 ho'
      refine ⟨u :: pre, rest, by simp [walk, hu, hle, hw], by simp [hl], ?_, hr⟩
      intro u' hu' s' hs'
      rcases List.mem_cons.mp hu' with rfl | hm
      · rw [hu] at hs'; cases hs'; omega
      · exact hp u' hm s' hs'

theorem getElem?_append_singleton_lt {α} (h : List α) (x : α) (u : Nat) (hu : u < h.length) :
    (h ++ [x])[u]? = h[u]? := by
  rw [List.getElem?_append_left hu]

/-- inserting a new open upvalue at the walk position keeps the list invariant -/
theorem LInv_insert (h : List Uv) (slot : Nat) (pre rest : List Nat) (hi : LInv h (pre ++ rest))
    (hp : ∀ u ∈ pre, ∀ s, h[u]? = some (.opn s) → slot < s)
    (hr : ∀ u ∈ rest, ∀ s, h[u]? = some (.opn s) → s < slot) :
    LInv (h ++ [.opn slot]) (pre ++ h.length :: rest) := by
  have hlt : ∀ u ∈ pre ++ rest, u < h.length := by
    intro u hu
    obtain ⟨s, hs⟩ := hi.allOpen u hu
    exact (List.getElem?_eq_some_iff.mp hs).1
  have hold : ∀ u ∈ pre ++ rest, (h ++ [Uv.opn slot])[u]? = h[u]? := fun u hu =>
    getElem?_append_singleton_lt _ _ _ (hlt u hu)
  have hnew : (h ++ [Uv.opn slot])[h.length]? = some (.opn slot) := by simp
  have hso := hi.sorted
  rw [List.pairwise_append] at hso
  obtain ⟨hs1, hs2, hs3⟩ := hso
  refine ⟨?_, ?_, ?_⟩
  · rw [List.pairwise_append, List.pairwise_cons]
    refine ⟨?_, ⟨?_, ?_⟩, ?_⟩
    · refine hs1.imp_of_mem ?_
      intro a b ha hb hab s s' h1 h2
      rw [hold a (List.mem_append_left _ ha)] at h1
      rw [hold b (List.mem_append_left _ hb)] at h2
      exact hab s s' h1 h2
    · intro b hb s s' h1 h2
      rw [hnew] at h1; cases h1
      rw [hold b (List.mem_append_right _ hb)] at h2
      exact hr b hb s' h2
    · refine hs2.imp_of_mem ?_
      intro a b ha hb hab s s' h1 h2
      rw [hold a (List.mem_append_right _ ha)] at h1
      rw [hold b (List.mem_append_right _ hb)] at h2
      exact hab s s' h1 h2
    · intro a ha b hb s s' h1 h2
      rw [hold a (List.mem_append_left _ ha)] at h1
      rcases List.mem_cons.mp hb with rfl | hb'
      · rw [hnew] at h2; cases h2; exact hp a ha s h1
      · rw [hold b (List.mem_append_right _ hb')] at h2
        exact hs3 a ha b hb' s s' h1 h2
  · intro u hu
    rcases List.mem_append.mp hu with hu' | hu'
    · rw [hold u (List.mem_append_left _ hu')]; exact hi.allOpen u (List.mem_append_left _ hu')
    · rcases List.mem_cons.mp hu' with rfl | hu''
      · exact ⟨slot, hnew⟩
      · rw [hold u (List.mem_append_right _ hu'')]; exact hi.allOpen u (List.mem_append_right _ hu'')
  · intro u s hu
    by_cases hul : u < h.length
    · rw [getElem?_append_singleton_lt _ _ _ hul] at hu
      have := hi.complete u s hu
      rcases List.mem_append.mp this with h1 | h1
      · exact List.mem_append_left _ h1
      · exact List.mem_append_right _ (List.mem_cons_of_mem _ h1)
    · by_cases hue : u = h.length
      · subst hue; simp
      · have : (h ++ [Uv.opn slot])[u]? = none := by
          rw [List.getElem?_eq_none_iff]; simp; omega
        rw [this] at hu; cases hu

inductive CaptureRes (c : C) (slot : Nat) : C → Nat → Prop
  | found (id : Nat) (h : c.heap[id]? = some (Uv.opn slot)) : CaptureRes c slot c id
  | fresh (l' : List Nat) (hno : ∀ u : Nat, c.heap[u]? ≠ some (Uv.opn slot))
      (hi : LInv (c.heap ++ [Uv.opn slot]) l') :
      CaptureRes c slot { c with heap := c.heap ++ [Uv.opn slot], openL := l' } c.heap.length

theorem capture_spec (c : C) (slot : Nat) (hi : LInv c.heap c.openL) :
    ∃ c' id, capture c slot = .ok (c', id) ∧ CaptureRes c slot c' id := by
  obtain ⟨pre, rest, hw, hl, hp, hr⟩ := walk_spec c.heap slot c.openL hi.sorted hi.allOpen
  have hi' : LInv c.heap (pre ++ rest) := hl ▸ hi
  unfold capture
  rw [hw]
  cases rest with
  | nil =>
    refine ⟨_, _, rfl, ?_⟩
    have := LInv_insert c.heap slot pre [] hi' hp (by simp)
    refine CaptureRes.fresh _ ?_ this
    intro u hu
    have hm := hi'.complete u slot hu
    simp at hm
    have := hp u hm slot hu; omega
  | cons cur rest' =>
    by_cases hc : c.heap[cur]? = some (.opn slot)
    · simp only [hc, if_true]
      exact ⟨_, _, rfl, CaptureRes.found cur hc⟩
    · simp only [hc, if_false]
      refine ⟨_, _, rfl, ?_⟩
      obtain ⟨sc, hsc⟩ := hi'.allOpen cur (by simp)
      have hsc_le := hr cur (by simp) sc hsc
      have hne : sc ≠ slot := by intro he; subst he; exact hc hsc
      have hso := hi'.sorted
      rw [List.pairwise_append, List.pairwise_cons] at hso
      have hr' : ∀ u ∈ cur :: rest', ∀ s, c.heap[u]? = some (.opn s) → s < slot := by
        intro u hu s hs
        rcases List.mem_cons.mp hu with rfl | hu'
        · rw [hsc] at hs; cases hs; omega
        · have := hso.2.1.1 u hu' sc s hsc hs; omega
      refine CaptureRes.fresh _ ?_ (LInv_insert c.heap slot pre (cur :: rest') hi' hp hr')
      intro u hu
      have hm := hi'.complete u slot hu
      rcases List.mem_append.mp hm with h1 | h1
      · have := hp u h1 slot hu; omega
      · have := hr' u h1 slot hu; omega

/-- what `opCloseUpvalues` achieves -/
structure CloseRes (stack : List Val) (frm : Nat) (h : List Uv) (l : List Nat) (h' : List Uv) (l' : List Nat) :
    Prop where
  len : h'.length = h.length
  low : ∀ (u s : Nat), h[u]? = some (Uv.opn s) → s < frm → h'[u]? = some (Uv.opn s)
  high : ∀ (u s : Nat), h[u]? = some (Uv.opn s) → frm ≤ s →
    ∃ v, stack[s]? = some v ∧ h'[u]? = some (Uv.closed v)
  closed : ∀ (u : Nat) (v : Val), h[u]? = some (Uv.closed v) → h'[u]? = some (Uv.closed v)
  inv : LInv h' l'
  sub : ∀ u, u ∈ l' → u ∈ l

theorem LInv.cons_set {h : List Uv} {u : Nat} {l : List Nat} (hi : LInv h (u :: l)) (v : Val) :
    LInv (h.set u (.closed v)) l := by
  have hso := hi.sorted
  rw [List.pairwise_cons] at hso
  obtain ⟨s, hs⟩ := hi.allOpen u List.mem_cons_self
  have hnot : u ∉ l := by
    intro hu
    have := hso.1 u hu s s hs hs
    omega
  have hne : ∀ u' ∈ l, (h.set u (Uv.closed v))[u']? = h[u']? := by
    intro u' hu'
    have : u ≠ u' := by intro he; subst he; exact hnot hu'
    rw [List.getElem?_set_ne this]
  refine ⟨?_, ?_, ?_⟩
  · refine hso.2.imp_of_mem ?_
    intro a b ha hb hab s s' h1 h2
    rw [hne a ha] at h1; rw [hne b hb] at h2
    exact hab s s' h1 h2
  · intro u' hu'
    rw [hne u' hu']
    exact hi.allOpen u' (List.mem_cons_of_mem _ hu')
  · intro u' s' hu'
    by_cases he : u = u'
    · subst he
      have hlt : u < h.length := (List.getElem?_eq_some_iff.mp hs).1
      rw [List.getElem?_set_self hlt] at hu'
      cases hu'
    · rw [List.getElem?_set_ne he] at hu'
      have := hi.complete u' s' hu'
      rcases List.mem_cons.mp this with h1 | h1
      · exact absurd h1.symm he
      · exact h1

theorem closeLoop_spec (stack : List Val) (frm : Nat) (l : List Nat) :
    ∀ (h h' : List Uv) (l' : List Nat), LInv h l → closeLoop stack frm h l = .ok (h', l') →
      CloseRes stack frm h l h' l' := by
  induction l with
  | nil =>
    intro h h' l' hi hc
    simp [closeLoop] at hc
    obtain ⟨rfl, rfl⟩ := hc
    refine ⟨rfl, fun u s hu _ => hu, ?_, fun u v hu => hu, hi, fun u hu => hu⟩
    intro u s hu _
    have := hi.complete u s hu
    simp at this
  | cons u l ih =>
    intro h h' l' hi hc
    obtain ⟨s, hs⟩ := hi.allOpen u List.mem_cons_self
    have hso := hi.sorted
    rw [List.pairwise_cons] at hso
    unfold closeLoop at hc
    simp only [hs] at hc
    by_cases hlt : s < frm
    · simp only [hlt, if_true] at hc
      injection hc with hc; injection hc with h1 h2; subst h1; subst h2
      refine ⟨rfl, fun u s hu _ => hu, ?_, fun u v hu => hu, hi, fun u hu => hu⟩
      intro u' s' hu' hge
      have := hi.complete u' s' hu'
      rcases List.mem_cons.mp this with rfl | hm
      · rw [hs] at hu'; cases hu'; omega
      · have := hso.1 u' hm s s' hs hu'; omega
    · simp only [hlt, if_false] at hc
      cases hv : stack[s]? with
      | none => simp [hv] at hc
      | some v =>
        simp only [hv] at hc
        have hi2 := hi.cons_set v
        have r := ih _ _ _ hi2 hc
        have hul : u < h.length := (List.getElem?_eq_some_iff.mp hs).1
        refine ⟨by rw [r.len]; simp, ?_, ?_, ?_, r.inv, fun u' hu' => List.mem_cons_of_mem _ (r.sub u' hu')⟩
        · intro u' s' hu' hlt'
          have hne : u ≠ u' := by intro he; subst he; rw [hs] at hu'; cases hu'; omega
          exact r.low u' s' (by rw [List.getElem?_set_ne hne]; exact hu') hlt'
        · intro u' s' hu' hge
          by_cases he : u = u'
          · subst he
            rw [hs] at hu'; cases hu'
            exact ⟨v, hv, r.closed u v (by rw [List.getElem?_set_self hul])⟩
          · exact r.high u' s' (by rw [List.getElem?_set_ne he]; exact hu') hge
        · intro u' v' hu'
          have hne : u ≠ u' := by intro he; subst he; rw [hs] at hu'; cases hu'
          exact r.closed u' v' (by rw [List.getElem?_set_ne hne]; exact hu')

/-- after closing from `frm`, no open upvalue points at or above `frm` -/
theorem CloseRes.lowOnly {stack frm h l h' l'} (r : CloseRes stack frm h l h' l') :
    ∀ (u s : Nat), h'[u]? = some (Uv.opn s) → s < frm ∧ h[u]? = some (Uv.opn s) := by
  intro u s hu
  cases hh : h[u]? with
  | none =>
    have : h'[u]? = none := by
      rw [List.getElem?_eq_none_iff] at hh ⊢; rw [r.len]; exact hh
    rw [this] at hu; cases hu
  | some x =>
    cases x with
    | closed v => rw [r.closed u v hh] at hu; cases hu
    | opn s' =>
      by_cases hlt : s' < frm
      · have := r.low u s' hh hlt
        rw [this] at hu; cases hu; exact ⟨hlt, rfl⟩
      · obtain ⟨v, _, h2⟩ := r.high u s' hh (by omega)
        rw [h2] at hu; cases hu

theorem LInv.slot_inj {h : List Uv} {l : List Nat} (hi : LInv h l) {u u' s : Nat}
    (h1 : h[u]? = some (Uv.opn s)) (h2 : h[u']? = some (Uv.opn s)) : u = u' := by
  by_cases he : u = u'
  · exact he
  · exfalso
    have m1 := hi.complete u s h1
    have m2 := hi.complete u' s h2
    have hs := hi.sorted
    have : ∀ l : List Nat, l.Pairwise (Desc h) → u ∈ l → u' ∈ l → False := by
      intro l hp
      induction l with
      | nil => intro h; simp at h
      | cons x l ih =>
        rw [List.pairwise_cons] at hp
        intro a b
        rcases List.mem_cons.mp a with rfl | a'
        · rcases List.mem_cons.mp b with rfl | b'
          · exact he rfl
          · have := hp.1 u' b' s s h1 h2; omega
        · rcases List.mem_cons.mp b with rfl | b'
          · have := hp.1 u a' s s h2 h1; omega
          · exact ih hp.2 a' b'
    exact this l hs m1 m2

theorem LInv.set_closed {h : List Uv} {l : List Nat} (hi : LInv h l) {id : Nat} {w : Val}
    (hc : h[id]? = some (Uv.closed w)) (v : Val) : LInv (h.set id (Uv.closed v)) l := by
  have key : ∀ (u s : Nat), (h.set id (Uv.closed v))[u]? = some (Uv.opn s) ↔ h[u]? = some (Uv.opn s) := by
    intro u s
    by_cases he : id = u
    · subst he
      have hl := (List.getElem?_eq_some_iff.mp hc).1
      rw [List.getElem?_set_self hl, hc]; simp
    · rw [List.getElem?_set_ne he]
  refine ⟨?_, ?_, ?_⟩
  · refine hi.sorted.imp ?_
    intro a b hab s s' h1 h2
    exact hab s s' ((key _ _).mp h1) ((key _ _).mp h2)
  · intro u hu
    obtain ⟨s, hs⟩ := hi.allOpen u hu
    exact ⟨s, (key _ _).mpr hs⟩
  · intro u s hu
    exact hi.complete u s ((key _ _).mp hu)

theorem uvSet_LInv (c c' : C) (id : Nat) (v : Val) (hi : LInv c.heap c.openL) (h : uvSet c id v = .ok c') :
    LInv c'.heap c'.openL ∧ (∀ (u s : Nat), c'.heap[u]? = some (Uv.opn s) → c.heap[u]? = some (Uv.opn s)) := by
  unfold uvSet at h
  split at h
  · cases h
  · rename_i w hw
    cases h
    refine ⟨hi.set_closed hw v, ?_⟩
    intro u s hu
    by_cases he : id = u
    · subst he
      have hl := (List.getElem?_eq_some_iff.mp hw).1
      simp only [List.getElem?_set_self hl] at hu
      cases hu
    · simpa [List.getElem?_set_ne he] using hu
  · split at h
    · cases h; exact ⟨hi, fun u s hu => hu⟩
    · cases h

/-- every operation keeps the open list in order (no scoping assumption) -/
theorem step_LInv (c c' : C) (op : Op) (r : Option Val) (hi : LInv c.heap c.openL)
    (h : step c op = .ok (c', r)) :
    LInv c'.heap c'.openL ∧
      (∀ (u s : Nat), c'.heap[u]? = some (Uv.opn s) → c.heap[u]? = some (Uv.opn s) ∨ s < c.stack.length) := by
  cases op with
  | push v => simp only [step] at h; cases h; exact ⟨hi, fun u s hu => Or.inl hu⟩
  | pop =>
    simp only [step] at h; split at h
    · cases h
    · cases h; exact ⟨hi, fun u s hu => Or.inl hu⟩
  | getLocal i =>
    simp only [step] at h; split at h
    · cases h; exact ⟨hi, fun u s hu => Or.inl hu⟩
    · cases h
  | setLocal i v =>
    simp only [step] at h; split at h
    · cases h; exact ⟨hi, fun u s hu => Or.inl hu⟩
    · cases h
  | capture i =>
    simp only [step] at h; split at h
    · rename_i hlt
      split at h
      · rename_i c1 id hc
        cases h
        obtain ⟨c2, id2, hc2, res⟩ := capture_spec c (c.fp + i) hi
        rw [hc] at hc2; injection hc2 with hc2; injection hc2 with e1 e2; subst e1; subst e2
        cases res with
        | found _ _ => exact ⟨hi, fun u s hu => Or.inl hu⟩
        | fresh l' hno hi' =>
          refine ⟨hi', ?_⟩
          intro u s hu
          have hu : (c.heap ++ [Uv.opn (c.fp + i)])[u]? = some (Uv.opn s) := hu
          by_cases hul : u < c.heap.length
          · rw [List.getElem?_append_left hul] at hu; exact Or.inl hu
          · rw [List.getElem?_append_right (by omega)] at hu
            have : u - c.heap.length = 0 := by
              rcases Nat.eq_zero_or_pos (u - c.heap.length) with h0 | h0
              · exact h0
              · have : ([Uv.opn (c.fp + i)] : List Uv)[u - c.heap.length]? = none := by
                  rw [List.getElem?_eq_none_iff]; simp; omega
                rw [this] at hu; cases hu
            rw [this] at hu; simp at hu; subst hu
            exact Or.inr hlt
      · cases h
    · cases h
  | close i =>
    simp only [step] at h; split at h
    · rename_i h' l' hc
      cases h
      have res := closeLoop_spec _ _ _ _ _ _ hi hc
      exact ⟨res.inv, fun u s hu => Or.inl (res.lowOnly u s hu).2⟩
    · cases h
  | uget k =>
    simp only [step] at h; split at h
    · cases h
    · split at h
      · cases h; exact ⟨hi, fun u s hu => Or.inl hu⟩
      · cases h
  | fget k =>
    simp only [step] at h; split at h
    · cases h
    · split at h
      · cases h; exact ⟨hi, fun u s hu => Or.inl hu⟩
      · cases h
  | uset k v =>
    simp only [step] at h; split at h
    · cases h
    · split at h
      · rename_i c1 hg
        cases h
        obtain ⟨h1, h2⟩ := uvSet_LInv _ _ _ _ hi hg
        exact ⟨h1, fun u s hu => Or.inl (h2 u s hu)⟩
      · cases h
  | fset k v =>
    simp only [step] at h; split at h
    · cases h
    · split at h
      · rename_i c1 hg
        cases h
        obtain ⟨h1, h2⟩ := uvSet_LInv _ _ _ _ hi hg
        exact ⟨h1, fun u s hu => Or.inl (h2 u s hu)⟩
      · cases h
  | callc n ks =>
    simp only [step] at h; split at h
    · split at h
      · cases h; exact ⟨hi, fun u s hu => Or.inl hu⟩
      · cases h
    · cases h
  | callm n =>
    simp only [step] at h; split at h
    · cases h; exact ⟨hi, fun u s hu => Or.inl hu⟩
    · cases h
  | tcall n =>
    simp only [step] at h; split at h
    · split at h
      · rename_i h' l' hc
        cases h
        have res := closeLoop_spec _ _ _ _ _ _ hi hc
        exact ⟨res.inv, fun u s hu => Or.inl (res.lowOnly u s hu).2⟩
      · cases h
    · cases h
  | ret =>
    simp only [step] at h
    split at h
    · cases h
    · split at h
      · cases h
      · split at h
        · split at h
          · rename_i h' l' hc
            cases h
            have res := closeLoop_spec _ _ _ _ _ _ hi hc
            exact ⟨res.inv, fun u s hu => Or.inl (res.lowOnly u s hu).2⟩
          · cases h
        · cases h
  | grow => simp only [step] at h; cases h; exact ⟨hi, fun u s hu => Or.inl hu⟩

end Elk.Upvalue
