import ElkVerif.Model.Upvalue
namespace Elk.Upvalue

abbrev Desc (h : List Uv) (u u' : Nat) : Prop :=
  ∀ s s', h[u]? = some (.opn s) → h[u']? = some (.opn s') → s' < s

structure LInv (h : List Uv) (l : List Nat) : Prop where
  sorted : l.Pairwise (Desc h)
  allOpen : ∀ u ∈ l, ∃ s, h[u]? = some (.opn s)
  complete : ∀ u s, h[u]? = some (.opn s) → u ∈ l

theorem walk_spec (h : List Uv) (slot : Nat) (l : List Nat)
    (hs : l.Pairwise (Desc h))
    (ho : ∀ u ∈ l, ∃ s, h[u]? = some (.opn s)) :
    ∃ pre rest, walk h slot l = .ok (pre, rest) ∧ l = pre ++ rest ∧
      (∀ u ∈ pre, ∀ s, h[u]? = some (.opn s) → slot < s) ∧
      (∀ u ∈ rest, ∀ s, h[u]? = some (.opn s) → s ≤ slot) := by
  induction l with
  | nil => exact ⟨[], [], rfl, rfl, by simp, by simp⟩
  | cons u l ih =>
    rw [List.pairwise_cons] at hs
    obtain ⟨s, hu⟩ := ho u (List.mem_cons_self)
    have ho' : ∀ u' ∈ l, ∃ s, h[u']? = some (.opn s) := fun u' hu' => ho u' (List.mem_cons_of_mem _ hu')
    by_cases hle : s ≤ slot
    · refine ⟨[], u :: l, by simp [walk, hu, hle], rfl, by simp, ?_⟩
      intro u' hu' s' hs'
      rcases List.mem_cons.mp hu' with rfl | hm
      · rw [hu] at hs'; cases hs'; exact hle
      · have := hs.1 u' hm s s' hu hs'; omega
    · obtain ⟨pre, rest, hw, hl, hp, hr⟩ := ih hs.2 ho'
      refine ⟨u :: pre, rest, by simp [walk, hu, hle, hw], by simp [hl], ?_, hr⟩
      intro u' hu' s' hs'
      rcases List.mem_cons.mp hu' with rfl | hm
      · rw [hu] at hs'; cases hs'; omega
      · exact hp u' hm s' hs'

theorem getElem?_append_singleton_lt {α} (h : List α) (x : α) (u : Nat) (hu : u < h.length) :
    (h ++ [x])[u]? = h[u]? := by
  rw [List.getElem?_append_left hu]

/-- inserting a new open upvalue at the walk position keeps the list invariant -/
theorem LInv_insert (h : List Uv) (slot : Nat) (pre rest : List Nat) (hi : LInv h (pre ++ rest))
    (hp : ∀ u ∈ pre, ∀ s, h[u]? = some (.opn s) → slot < s)
    (hr : ∀ u ∈ rest, ∀ s, h[u]? = some (.opn s) → s < slot) :
    LInv (h ++ [.opn slot]) (pre ++ h.length :: rest) := by
  have hlt : ∀ u ∈ pre ++ rest, u < h.length := by
    intro u hu
    obtain ⟨s, hs⟩ := hi.allOpen u hu
    exact (List.getElem?_eq_some_iff.mp hs).1
  have hold : ∀ u ∈ pre ++ rest, (h ++ [Uv.opn slot])[u]? = h[u]? := fun u hu =>
    getElem?_append_singleton_lt _ _ _ (hlt u hu)
  have hnew : (h ++ [Uv.opn slot])[h.length]? = some (.opn slot) := by simp
  have hso := hi.sorted
  rw [List.pairwise_append] at hso
  obtain ⟨hs1, hs2, hs3⟩ := hso
  refine ⟨?_, ?_, ?_⟩
  · rw [List.pairwise_append, List.pairwise_cons]
    refine ⟨?_, ⟨?_, ?_⟩, ?_⟩
    · refine hs1.imp_of_mem ?_
      intro a b ha hb hab s s' h1 h2
      rw [hold a (List.mem_append_left _ ha)] at h1
      rw [hold b (List.mem_append_left _ hb)] at h2
      exact hab s s' h1 h2
    · intro b hb s s' h1 h2
      rw [hnew] at h1; cases h1
      rw [hold b (List.mem_append_right _ hb)] at h2
      exact hr b hb s' h2
    · refine hs2.imp_of_mem ?_
      intro a b ha hb hab s s' h1 h2
      rw [hold a (List.mem_append_right _ ha)] at h1
      rw [hold b (List.mem_append_right _ hb)] at h2
      exact hab s s' h1 h2
    · intro a ha b hb s s' h1 h2
      rw [hold a (List.mem_append_left _ ha)] at h1
      rcases List.mem_cons.mp hb with rfl | hb'
      · rw [hnew] at h2; cases h2; exact hp a ha s h1
      · rw [hold b (List.mem_append_right _ hb')] at h2
        exact hs3 a ha b hb' s s' h1 h2
  · intro u hu
    rcases List.mem_append.mp hu with hu' | hu'
    · rw [hold u (List.mem_append_left _ hu')]; exact hi.allOpen u (List.mem_append_left _ hu')
    · rcases List.mem_cons.mp hu' with rfl | hu''
      · exact ⟨slot, hnew⟩
      · rw [hold u (List.mem_append_right _ hu'')]; exact hi.allOpen u (List.mem_append_right _ hu'')
  · intro u s hu
    by_cases hul : u < h.length
    · rw [getElem?_append_singleton_lt _ _ _ hul] at hu
      have := hi.complete u s hu
      rcases List.mem_append.mp this with h1 | h1
      · exact List.mem_append_left _ h1
      · exact List.mem_append_right _ (List.mem_cons_of_mem _ h1)
    · by_cases hue : u = h.length
      · subst hue; simp
      · have : (h ++ [Uv.opn slot])[u]? = none := by
          rw [List.getElem?_eq_none_iff]; simp; omega
        rw [this] at hu; cases hu

inductive CaptureRes (c : C) (slot : Nat) : C → Nat → Prop
  | found (id : Nat) (h : c.heap[id]? = some (Uv.opn slot)) : CaptureRes c slot c id
  | fresh (l' : List Nat) (hno : ∀ u : Nat, c.heap[u]? ≠ some (Uv.opn slot))
      (hi : LInv (c.heap ++ [Uv.opn slot]) l') :
      CaptureRes c slot { c with heap := c.heap ++ [Uv.opn slot], openL := l' } c.heap.length

theorem capture_spec (c : C) (slot : Nat) (hi : LInv c.heap c.openL) :
    ∃ c' id, capture c slot = .ok (c', id) ∧ CaptureRes c slot c' id := by
  obtain ⟨pre, rest, hw, hl, hp, hr⟩ := walk_spec c.heap slot c.openL hi.sorted hi.allOpen
  have hi' : LInv c.heap (pre ++ rest) := hl ▸ hi
  unfold capture
  rw [hw]
  cases rest with
  | nil =>
    refine ⟨_, _, rfl, ?_⟩
    have := LInv_insert c.heap slot pre [] hi' hp (by simp)
    refine CaptureRes.fresh _ ?_ this
    intro u hu
    have hm := hi'.complete u slot hu
    simp at hm
    have := hp u hm slot hu; omega
  | cons cur rest' =>
    by_cases hc : c.heap[cur]? = some (.opn slot)
    · simp only [hc, if_true]
      exact ⟨_, _, rfl, CaptureRes.found cur hc⟩
    · simp only [hc, if_false]
      refine ⟨_, _, rfl, ?_⟩
      obtain ⟨sc, hsc⟩ := hi'.allOpen cur (by simp)
      have hsc_le := hr cur (by simp) sc hsc
      have hne : sc ≠ slot := by intro he; subst he; exact hc hsc
      have hso := hi'.sorted
      rw [List.pairwise_append, List.pairwise_cons] at hso
      have hr' : ∀ u ∈ cur :: rest', ∀ s, c.heap[u]? = some (.opn s) → s < slot := by
        intro u hu s hs
        rcases List.mem_cons.mp hu with rfl | hu'
        · rw [hsc] at hs; cases hs; omega
        · have := hso.2.1.1 u hu' sc s hsc hs; omega
      refine CaptureRes.fresh _ ?_ (LInv_insert c.heap slot pre (cur :: rest') hi' hp hr')
      intro u hu
      have hm := hi'.complete u slot hu
      rcases List.mem_append.mp hm with h1 | h1
      · have := hp u h1 slot hu; omega
      · have := hr' u h1 slot hu; omega

/-- what `opCloseUpvalues` achieves -/
structure CloseRes (stack : List Val) (frm : Nat) (h : List Uv) (l : List Nat) (h' : List Uv) (l' : List Nat) :
    Prop where
  len : h'.length = h.length
  low : ∀ (u s : Nat), h[u]? = some (Uv.opn s) → s < frm → h'[u]? = some (Uv.opn s)
  high : ∀ (u s : Nat), h[u]? = some (Uv.opn s) → frm ≤ s →
    ∃ v, stack[s]? = some v ∧ h'[u]? = some (Uv.closed v)
  closed : ∀ (u : Nat) (v : Val), h[u]? = some (Uv.closed v) → h'[u]? = some (Uv.closed v)
  inv : LInv h' l'
  sub : ∀ u, u ∈ l' → u ∈ l

theorem LInv.cons_set {h : List Uv} {u : Nat} {l : List Nat} (hi : LInv h (u :: l)) (v : Val) :
    LInv (h.set u (.closed v)) l := by
  have hso := hi.sorted
  rw [List.pairwise_cons] at hso
  obtain ⟨s, hs⟩ := hi.allOpen u List.mem_cons_self
  have hnot : u ∉ l := by
    intro hu
    have := hso.1 u hu s s hs hs
    omega
  have hne : ∀ u' ∈ l, (h.set u (Uv.closed v))[u']? = h[u']? := by
    intro u' hu'
    have : u ≠ u' := by intro he; subst he; exact hnot hu'
    rw [List.getElem?_set_ne this]
  refine ⟨?_, ?_, ?_⟩
  · refine hso.2.imp_of_mem ?_
    intro a b ha hb hab s s' h1 h2
    rw [hne a ha] at h1; rw [hne b hb] at h2
    exact hab s s' h1 h2
  · intro u' hu'
    rw [hne u' hu']
    exact hi.allOpen u' (List.mem_cons_of_mem _ hu')
  · intro u' s' hu'
    by_cases he : u = u'
    · subst he
      have hlt : u < h.length := (List.getElem?_eq_some_iff.mp hs).1
      rw [List.getElem?_set_self hlt] at hu'
      cases hu'
    · rw [List.getElem?_set_ne he] at hu'
      have := hi.complete u' s' hu'
      rcases List.mem_cons.mp this with h1 | h1
      · exact absurd h1.symm he
      · exact h1

theorem closeLoop_spec (stack : List Val) (frm : Nat) (l : List Nat) :
    ∀ (h h' : List Uv) (l' : List Nat), LInv h l → closeLoop stack frm h l = .ok (h', l') →
      CloseRes stack frm h l h' l' := by
  induction l with
  | nil =>
    intro h h' l' hi hc
    simp [closeLoop] at hc
    obtain ⟨rfl, rfl⟩ := hc
    refine ⟨rfl, fun u s hu _ => hu, ?_, fun u v hu => hu, hi, fun u hu => hu⟩
    intro u s hu _
    have := hi.complete u s hu
    simp at this
  | cons u l ih =>
    intro h h' l' hi hc
    obtain ⟨s, hs⟩ := hi.allOpen u List.mem_cons_self
    have hso := hi.sorted
    rw [List.pairwise_cons] at hso
    unfold closeLoop at hc
    simp only [hs] at hc
    by_cases hlt : s < frm
    · simp only [hlt, if_true] at hc
      injection hc with hc; injection hc with h1 h2; subst h1; subst h2
      refine ⟨rfl, fun u s hu _ => hu, ?_, fun u v hu => hu, hi, fun u hu => hu⟩
      intro u' s' hu' hge
      have := hi.complete u' s' hu'
      rcases List.mem_cons.mp this with rfl | hm
      · rw [hs] at hu'; cases hu'; omega
      · have := hso.1 u' hm s s' hs hu'; omega
    · simp only [hlt, if_false] at hc
      cases hv : stack[s]? with
      | none => simp [hv] at hc
      | some v =>
        simp only [hv] at hc
        have hi2 := hi.cons_set v
        have r := ih _ _ _ hi2 hc
        have hul : u < h.length := (List.getElem?_eq_some_iff.mp hs).1
        refine ⟨by rw [r.len]; simp, ?_, ?_, ?_, r.inv, fun u' hu' => List.mem_cons_of_mem _ (r.sub u' hu')⟩
        · intro u' s' hu' hlt'
          have hne : u ≠ u' := by intro he; subst he; rw [hs] at hu'; cases hu'; omega
          exact r.low u' s' (by rw [List.getElem?_set_ne hne]; exact hu') hlt'
        · intro u' s' hu' hge
          by_cases he : u = u'
          · subst he
            rw [hs] at hu'; cases hu'
            exact ⟨v, hv, r.closed u v (by rw [List.getElem?_set_self hul])⟩
          · exact r.high u' s' (by rw [List.getElem?_set_ne he]; exact hu') hge
        · intro u' v' hu'
          have hne : u ≠ u' := by intro he; subst he; rw [hs] at hu'; cases hu'
          exact r.closed u' v' (by rw [List.getElem?_set_ne hne]; exact hu')

/-- after closing from `frm`, no open upvalue points at or above `frm` -/
theorem CloseRes.lowOnly {stack frm h l h' l'} (r : CloseRes stack frm h l h' l') :
    ∀ (u s : Nat), h'[u]? = some (Uv.opn s) → s < frm ∧ h[u]? = some (Uv.opn s) := by
  intro u s hu
  cases hh : h[u]? with
  | none =>
    have : h'[u]? = none := by
      rw [List.getElem?_eq_none_iff] at hh ⊢; rw [r.len]; exact hh
    rw [this] at hu; cases hu
  | some x =>
    cases x with
    | closed v => rw [r.closed u v hh] at hu; cases hu
    | opn s' =>
      by_cases hlt : s' < frm
      · have := r.low u s' hh hlt
        rw [this] at hu; cases hu; exact ⟨hlt, rfl⟩
      · obtain ⟨v, _, h2⟩ := r.high u s' hh (by omega)
        rw [h2] at hu; cases hu

end Elk.Upvalue
