import ElkVerif.Proofs.UpvalueSim
/-! Run-level consequences of the per-operation simulation (C13). -/
namespace Elk.Upvalue

theorem run_append {σ} (stp : σ → Op → Except Err (σ × Option Val)) (xs ys : List Op) :
    ∀ (s s'' : σ) (rs : List Val), run stp s (xs ++ ys) = .ok (s'', rs) →
      ∃ s' r1 r2, run stp s xs = .ok (s', r1) ∧ run stp s' ys = .ok (s'', r2) ∧ rs = r1 ++ r2 := by
  induction xs with
  | nil => intro s s'' rs h; exact ⟨s, [], rs, rfl, h, rfl⟩
  | cons x xs ih =>
    intro s s'' rs h
    simp only [List.cons_append, run] at h ⊢
    cases h1 : stp s x with
    | error e => simp [h1] at h
    | ok p =>
      obtain ⟨s1, r⟩ := p
      simp only [h1] at h ⊢
      cases h2 : run stp s1 (xs ++ ys) with
      | error e => simp [h2] at h
      | ok q =>
        obtain ⟨s2, rs2⟩ := q
        simp only [h2] at h
        obtain ⟨s', r1, r2, e1, e2, e3⟩ := ih s1 s2 rs2 h2
        cases h
        refine ⟨s', r.toList ++ r1, r2, ?_, e2, ?_⟩
        · simp [e1]
        · simp [e3]

theorem R_init : R C.init A.init id := by
  refine ⟨rfl, rfl, ?_, by simp [A.init], ?_, ?_, ?_, rfl, rfl, rfl, ?_, ?_, ?_, ⟨?_, ?_, ?_⟩⟩ <;>
    simp [C.init, A.init]

/-- forward simulation over whole runs -/
theorem sim_run (ops : List Op) :
    ∀ (c : C) (a : A) (ρ : Nat → Nat), R c a ρ → ∀ (c' : C) (rs : List Val),
      run stepS c ops = .ok (c', rs) → ∃ a' ρ', run stepA a ops = .ok (a', rs) ∧ R c' a' ρ' := by
  induction ops with
  | nil =>
    intro c a ρ h c' rs hr
    simp only [run] at hr; cases hr
    exact ⟨a, ρ, rfl, h⟩
  | cons op ops ih =>
    intro c a ρ h c' rs hr
    simp only [run] at hr
    cases h1 : stepS c op with
    | error e => simp [h1] at hr
    | ok p =>
      obtain ⟨c1, r⟩ := p
      simp only [h1] at hr
      unfold stepS at h1
      split at h1
      · rename_i hsc
        obtain ⟨a1, ρ1, hs1, hR1⟩ := sim_step h op hsc h1
        cases h2 : run stepS c1 ops with
        | error e => simp [h2] at hr
        | ok q =>
          obtain ⟨c2, rs2⟩ := q
          simp only [h2] at hr
          obtain ⟨a2, ρ2, hr2, hR2⟩ := ih c1 a1 ρ1 hR1 c2 rs2 h2
          cases hr
          exact ⟨a2, ρ2, by simp [run, hs1, hr2], hR2⟩
      · cases h1

/-! ### facts about the cell machine used by the corollaries -/

def Op.isWrite : Op → Bool
  | .setLocal _ _ | .uset _ _ | .fset _ _ => true
  | _ => false

theorem cellSet_fields (a a' : A) (r : Nat) (v : Val) (h : cellSet a r v = .ok a') :
    a'.hs = a.hs ∧ a'.cells = a.cells.set r v ∧ r < a.cells.length := by
  unfold cellSet at h
  split at h
  · cases h; exact ⟨rfl, rfl, by assumption⟩
  · cases h

/-- handles are never rebound: the handle table only grows -/
theorem stepA_hs (a a' : A) (op : Op) (r : Option Val) (h : stepA a op = .ok (a', r)) :
    ∃ ext, a'.hs = a.hs ++ ext := by
  cases op <;> simp only [stepA] at h
  case push v => cases h; exact ⟨[], by simp⟩
  case pop => split at h <;> cases h; exact ⟨[], by simp⟩
  case getLocal i =>
    split at h
    · split at h <;> cases h; exact ⟨[], by simp⟩
    · cases h
  case setLocal i v =>
    split at h
    · split at h
      · rename_i a1 hc; cases h; exact ⟨[], by simp [(cellSet_fields _ _ _ _ hc).1]⟩
      · cases h
    · cases h
  case capture i =>
    split at h
    · cases h; exact ⟨_, rfl⟩
    · cases h
  case close i => split at h <;> cases h; exact ⟨[], by simp⟩
  case uget k =>
    split at h
    · cases h
    · split at h <;> cases h; exact ⟨[], by simp⟩
  case uset k v =>
    split at h
    · cases h
    · split at h
      · rename_i a1 hc; cases h; exact ⟨[], by simp [(cellSet_fields _ _ _ _ hc).1]⟩
      · cases h
  case fget k =>
    split at h
    · cases h
    · split at h <;> cases h; exact ⟨[], by simp⟩
  case fset k v =>
    split at h
    · cases h
    · split at h
      · rename_i a1 hc; cases h; exact ⟨[], by simp [(cellSet_fields _ _ _ _ hc).1]⟩
      · cases h
  case callc n ks =>
    split at h
    · split at h <;> cases h; exact ⟨[], by simp⟩
    · cases h
  case callm n => split at h <;> cases h; exact ⟨[], by simp⟩
  case tcall n =>
    split at h
    · split at h <;> cases h; exact ⟨[], by simp⟩
    · cases h
  case ret =>
    split at h
    · cases h
    · split at h
      · cases h
      · split at h
        · split at h <;> cases h; exact ⟨[], by simp⟩
        · cases h
  case grow => cases h; exact ⟨[], by simp⟩

theorem runA_hs (ops : List Op) : ∀ (a a' : A) (rs : List Val), run stepA a ops = .ok (a', rs) →
    ∃ ext, a'.hs = a.hs ++ ext := by
  induction ops with
  | nil => intro a a' rs h; simp only [run] at h; cases h; exact ⟨[], by simp⟩
  | cons op ops ih =>
    intro a a' rs h
    simp only [run] at h
    cases h1 : stepA a op with
    | error e => simp [h1] at h
    | ok p =>
      obtain ⟨a1, r⟩ := p
      simp only [h1] at h
      cases h2 : run stepA a1 ops with
      | error e => simp [h2] at h
      | ok q =>
        obtain ⟨a2, rs2⟩ := q
        simp only [h2] at h
        obtain ⟨e1, he1⟩ := stepA_hs a a1 op r h1
        obtain ⟨e2, he2⟩ := ih a1 a2 rs2 h2
        cases h
        exact ⟨e1 ++ e2, by rw [he2, he1]; simp⟩

/-- operations that do not assign leave every existing variable alone -/
theorem stepA_cells (a a' : A) (op : Op) (r : Option Val) (h : stepA a op = .ok (a', r))
    (hw : op.isWrite = false) : ∃ ext, a'.cells = a.cells ++ ext := by
  cases op <;> simp only [stepA] at h <;> simp only [Op.isWrite] at hw
  case push v => cases h; exact ⟨_, rfl⟩
  case pop => split at h <;> cases h; exact ⟨[], by simp⟩
  case getLocal i =>
    split at h
    · split at h <;> cases h; exact ⟨[], by simp⟩
    · cases h
  case setLocal i v => cases hw
  case capture i =>
    split at h
    · cases h; exact ⟨[], by simp⟩
    · cases h
  case close i => split at h <;> cases h; exact ⟨_, rfl⟩
  case uget k =>
    split at h
    · cases h
    · split at h <;> cases h; exact ⟨[], by simp⟩
  case uset k v => cases hw
  case fget k =>
    split at h
    · cases h
    · split at h <;> cases h; exact ⟨[], by simp⟩
  case fset k v => cases hw
  case callc n ks =>
    split at h
    · split at h <;> cases h; exact ⟨[], by simp⟩
    · cases h
  case callm n => split at h <;> cases h; exact ⟨[], by simp⟩
  case tcall n =>
    split at h
    · split at h <;> cases h; exact ⟨_, rfl⟩
    · cases h
  case ret =>
    split at h
    · cases h
    · split at h
      · cases h
      · split at h
        · split at h <;> cases h; exact ⟨_, rfl⟩
        · cases h
  case grow => cases h; exact ⟨[], by simp⟩

theorem runA_cells (ops : List Op) (hw : ∀ op ∈ ops, op.isWrite = false) :
    ∀ (a a' : A) (rs : List Val), run stepA a ops = .ok (a', rs) → ∃ ext, a'.cells = a.cells ++ ext := by
  induction ops with
  | nil => intro a a' rs h; simp only [run] at h; cases h; exact ⟨[], by simp⟩
  | cons op ops ih =>
    intro a a' rs h
    simp only [run] at h
    cases h1 : stepA a op with
    | error e => simp [h1] at h
    | ok p =>
      obtain ⟨a1, r⟩ := p
      simp only [h1] at h
      cases h2 : run stepA a1 ops with
      | error e => simp [h2] at h
      | ok q =>
        obtain ⟨a2, rs2⟩ := q
        simp only [h2] at h
        obtain ⟨e1, he1⟩ := stepA_cells a a1 op r h1 (hw op List.mem_cons_self)
        obtain ⟨e2, he2⟩ := ih (fun o ho => hw o (List.mem_cons_of_mem _ ho)) a1 a2 rs2 h2
        cases h
        exact ⟨e1 ++ e2, by rw [he2, he1]; simp⟩

theorem stepS_step (c c' : C) (op : Op) (r : Option Val) (h : stepS c op = .ok (c', r)) :
    step c op = .ok (c', r) := by
  unfold stepS at h
  split at h
  · exact h
  · cases h

theorem runS_run (ops : List Op) : ∀ (c c' : C) (rs : List Val), run stepS c ops = .ok (c', rs) →
    run step c ops = .ok (c', rs) := by
  induction ops with
  | nil => intro c c' rs h; exact h
  | cons op ops ih =>
    intro c c' rs h
    simp only [run] at h ⊢
    cases h1 : stepS c op with
    | error e => simp [h1] at h
    | ok p =>
      obtain ⟨c1, r⟩ := p
      simp only [h1] at h
      rw [stepS_step c c1 op r h1]
      cases h2 : run stepS c1 ops with
      | error e => simp [h2] at h
      | ok q =>
        obtain ⟨c2, rs2⟩ := q
        simp only [h2] at h
        simp only [ih c1 c2 rs2 h2]
        exact h

/-- two captures of one variable, anything in between, a write through one handle, a read
through the other -/
theorem runA_shared (a₁ a₂ : A) (mid : List Op) (i : Nat) (v : Val) (rs : List Val)
    (h : run stepA a₁ ([.capture i, .capture i] ++ mid ++ [.uset a₁.hs.length v, .uget (a₁.hs.length + 1)])
      = .ok (a₂, rs)) : rs.getLast? = some v := by
  obtain ⟨s1, r1, r2, h1, h2, e⟩ := run_append stepA _ _ _ _ _ h
  obtain ⟨s0, r0, r0', h0, h0', e0⟩ := run_append stepA _ _ _ _ _ h1
  subst e; subst e0
  -- the two captures
  simp only [run, stepA] at h0
  cases hst : a₁.stack[a₁.fp + i]? with
  | none => simp [hst] at h0
  | some r =>
    simp only [hst] at h0
    cases h0
    obtain ⟨ext, hext⟩ := runA_hs mid _ _ _ h0'
    simp only at hext
    have hk : s1.hs[a₁.hs.length]? = some r := by
      rw [hext]; simp
    have hk1 : s1.hs[a₁.hs.length + 1]? = some r := by
      rw [hext]; simp
    simp only [run, stepA, hk] at h2
    cases hc : cellSet s1 r v with
    | error e => simp [hc] at h2
    | ok s2 =>
      obtain ⟨f1, f2, f3⟩ := cellSet_fields _ _ _ _ hc
      have hk1' : s2.hs[a₁.hs.length + 1]? = some r := by rw [f1]; exact hk1
      have hget : cellGet s2 r = .ok v := by
        unfold cellGet; rw [f2, List.getElem?_set_self f3]
      simp only [hc, hk1', hget] at h2
      cases h2
      simp

/-- a write through a handle survives anything that is not an assignment — returns from the
defining frame, scope exits, calls, growth — and is read back through the handle -/
theorem runA_survives (a₁ a₂ : A) (mid : List Op) (hw : ∀ op ∈ mid, op.isWrite = false) (i : Nat) (v : Val)
    (rs : List Val)
    (h : run stepA a₁ ([.capture i, .uset a₁.hs.length v] ++ mid ++ [.uget a₁.hs.length]) = .ok (a₂, rs)) :
    rs.getLast? = some v := by
  obtain ⟨s1, r1, r2, h1, h2, e⟩ := run_append stepA _ _ _ _ _ h
  obtain ⟨s0, r0, r0', h0, h0', e0⟩ := run_append stepA _ _ _ _ _ h1
  subst e; subst e0
  simp only [run, stepA] at h0
  cases hst : a₁.stack[a₁.fp + i]? with
  | none => simp [hst] at h0
  | some r =>
    simp only [hst, List.getElem?_append_right (Nat.le_refl _), Nat.sub_self, List.getElem?_cons_zero] at h0
    cases hc : cellSet { a₁ with hs := a₁.hs ++ [r] } r v with
    | error e => simp [hc] at h0
    | ok s2 =>
      obtain ⟨f1, f2, f3⟩ := cellSet_fields _ _ _ _ hc
      simp only [hc] at h0
      cases h0
      obtain ⟨ext, hext⟩ := runA_hs mid _ _ _ h0'
      obtain ⟨cext, hcext⟩ := runA_cells mid hw _ _ _ h0'
      have hk : s1.hs[a₁.hs.length]? = some r := by
        rw [hext, f1]; simp
      have hget : cellGet s1 r = .ok v := by
        unfold cellGet
        rw [hcext, f2, List.getElem?_append_left (by simpa using f3), List.getElem?_set_self f3]
      simp only [run, stepA, hk, hget] at h2
      cases h2
      simp

theorem cellSet_frame (a a' : A) (r : Nat) (v : Val) (h : cellSet a r v = .ok a') :
    a'.stack = a.stack ∧ a'.fp = a.fp := by
  unfold cellSet at h
  split at h
  · cases h; exact ⟨rfl, rfl⟩
  · cases h

/-- the enclosing scope assigns, the closure reads; the closure assigns, the scope reads -/
theorem runA_scope_closure (a₁ a₂ : A) (i : Nat) (v w : Val) (rs : List Val)
    (h : run stepA a₁ [.capture i, .setLocal i v, .uget a₁.hs.length, .uset a₁.hs.length w, .getLocal i]
      = .ok (a₂, rs)) : rs = [v, w] := by
  simp only [run, stepA] at h
  cases hst : a₁.stack[a₁.fp + i]? with
  | none => simp [hst] at h
  | some r =>
    simp only [hst] at h
    cases hc : cellSet { a₁ with hs := a₁.hs ++ [r] } r v with
    | error e => simp [hc] at h
    | ok s2 =>
      obtain ⟨f1, f2, f3⟩ := cellSet_fields _ _ _ _ hc
      have hk : s2.hs[a₁.hs.length]? = some r := by rw [f1]; simp
      have hget : cellGet s2 r = .ok v := by unfold cellGet; rw [f2, List.getElem?_set_self f3]
      simp only [hc, hk, hget] at h
      cases hc2 : cellSet s2 r w with
      | error e => simp [hc2] at h
      | ok s3 =>
        obtain ⟨g1, g2, g3⟩ := cellSet_fields _ _ _ _ hc2
        have hfp : s3.fp = a₁.fp ∧ s3.stack = a₁.stack := by
          obtain ⟨p1, p2⟩ := cellSet_frame _ _ _ _ hc
          obtain ⟨q1, q2⟩ := cellSet_frame _ _ _ _ hc2
          exact ⟨by rw [q2, p2], by rw [q1, p1]⟩
        have hget2 : cellGet s3 r = .ok w := by unfold cellGet; rw [g2, List.getElem?_set_self g3]
        simp only [hc2, hfp.1, hfp.2, hst, hget2] at h
        cases h
        rfl

end Elk.Upvalue
