import ElkVerif.Proofs.FilterReg
/-! Lemmas about `Suite.Run`/`Case.Run` of the C34 model: status aggregation and which cases run. -/
namespace Elk.Filter

/-- `TEST_FAILED` or `TEST_ERROR` -/
def Bad (st : Status) : Prop := st = .failed ∨ st = .error

instance (st : Status) : Decidable (Bad st) := by unfold Bad; infer_instance

/-- an executed closure that did not return normally -/
def EvBad (e : Ev) : Prop := e.outcome ≠ .pass

/-- statuses a finished report can have -/
def Final (st : Status) : Prop := st = .success ∨ st = .skipped ∨ Bad st

/-- statuses a suite report can have while it runs -/
def Live (st : Status) : Prop := st = .running ∨ st = .success ∨ Bad st

theorem bad_update {s new : Status} (hs : Live s) (hn : Final new) :
    Live (updateStatus s new) ∧ (Bad (updateStatus s new) ↔ Bad s ∨ Bad new) := by
  rcases hs with h | h | h | h <;> rcases hn with h' | h' | h' | h' <;> subst h <;> subst h' <;>
    simp [updateStatus, Live, Bad]

theorem outcome_status_bad (o : Outcome) (st : Status) :
    (Bad (o.status st) ↔ Bad st ∨ o ≠ .pass) ∧ (o = .pass → o.status st = st) := by
  cases o <;> simp [Outcome.status, Bad]

/-! ### hooks -/

theorem runBeforeEach_spec (hs : List Hook) (st : Status) :
    match runBeforeEach hs st with
    | (st', evs, true) => st' = st ∧ ∀ e ∈ evs, ¬ EvBad e
    | (st', evs, false) => Bad st' ∧ ∃ e ∈ evs, EvBad e := by
  induction hs with
  | nil => simp [runBeforeEach]
  | cons h hs ih =>
    unfold runBeforeEach
    by_cases hp : h.outcome = .pass
    · simp only [hp, if_true]
      rcases hr : runBeforeEach hs st with ⟨st', evs, ok⟩
      rw [hr] at ih
      cases ok
      · simp only at ih ⊢
        exact ⟨ih.1, by obtain ⟨e, he, hb⟩ := ih.2; exact ⟨e, by simp [he], hb⟩⟩
      · simp only at ih ⊢
        refine ⟨ih.1, ?_⟩
        intro e he
        rcases List.mem_cons.mp he with rfl | he
        · simp [EvBad]
        · exact ih.2 e he
    · simp only [hp, if_false]
      refine ⟨((outcome_status_bad h.outcome st).1).mpr (Or.inr hp), ?_⟩
      exact ⟨⟨.beforeEach, h.id, h.outcome⟩, by simp, hp⟩

theorem runAfterEach_spec (hs : List Hook) (st : Status) :
    (Bad (runAfterEach hs st).1 ↔ Bad st ∨ ∃ e ∈ (runAfterEach hs st).2, EvBad e) ∧
    (¬ Bad (runAfterEach hs st).1 → (runAfterEach hs st).1 = st) := by
  induction hs generalizing st with
  | nil => simp [runAfterEach]
  | cons h hs ih =>
    simp only [runAfterEach]
    have ih' := ih (h.outcome.status st)
    have ho := outcome_status_bad h.outcome st
    constructor
    · rw [ih'.1, ho.1]
      simp only [List.mem_cons, exists_eq_or_imp, EvBad]
      constructor
      · rintro ((h1 | h1) | h1)
        · exact Or.inl h1
        · exact Or.inr (Or.inl h1)
        · exact Or.inr (Or.inr h1)
      · rintro (h1 | h1 | h1)
        · exact Or.inl (Or.inl h1)
        · exact Or.inl (Or.inr h1)
        · exact Or.inr h1
    · intro hnb
      have h1 := ih'.2 hnb
      rw [h1]
      have : ¬ Bad (h.outcome.status st) := by rw [← h1]; exact hnb
      rw [ho.1] at this
      have hp : h.outcome = .pass := by
        cases hh : h.outcome <;> simp_all
      exact ho.2 hp

theorem runAfterAll_spec (hs : List Hook) (st : Status) :
    (Bad (runAfterAll hs st).1 ↔ Bad st ∨ ∃ e ∈ (runAfterAll hs st).2, EvBad e ∧ e.kind = .afterAll) ∧
    (¬ Bad (runAfterAll hs st).1 → (runAfterAll hs st).1 = st) ∧
    (∀ e ∈ (runAfterAll hs st).2, e.kind = .afterAll) := by
  induction hs generalizing st with
  | nil => simp [runAfterAll]
  | cons h hs ih =>
    simp only [runAfterAll]
    have ih' := ih (h.outcome.status st)
    have ho := outcome_status_bad h.outcome st
    refine ⟨?_, ?_, ?_⟩
    · rw [ih'.1, ho.1]
      simp only [List.mem_cons, exists_eq_or_imp, EvBad, and_true]
      constructor
      · rintro ((h1 | h1) | h1)
        · exact Or.inl h1
        · exact Or.inr (Or.inl h1)
        · exact Or.inr (Or.inr h1)
      · rintro (h1 | h1 | h1)
        · exact Or.inl (Or.inl h1)
        · exact Or.inl (Or.inr h1)
        · exact Or.inr h1
    · intro hnb
      have h1 := ih'.2.1 hnb
      rw [h1]
      have : ¬ Bad (h.outcome.status st) := by rw [← h1]; exact hnb
      rw [ho.1] at this
      have hp : h.outcome = .pass := by
        cases hh : h.outcome <;> simp_all
      exact ho.2 hp
    · intro e he
      rcases List.mem_cons.mp he with rfl | he
      · rfl
      · exact ih'.2.2 e he

theorem runBeforeAll_spec (hs : List Hook) :
    match runBeforeAll hs with
    | (none, evs) => (∀ h ∈ hs, h.outcome = .pass) ∧ ∀ e ∈ evs, ¬ EvBad e
    | (some st, evs) => Bad st ∧ (∃ e ∈ evs, EvBad e ∧ e.kind = .beforeAll) ∧ ∃ h ∈ hs, h.outcome ≠ .pass := by
  induction hs with
  | nil => simp [runBeforeAll]
  | cons h hs ih =>
    unfold runBeforeAll
    by_cases hp : h.outcome = .pass
    · simp only [hp, if_true]
      rcases hr : runBeforeAll hs with ⟨r, evs⟩
      rw [hr] at ih
      cases r with
      | none =>
        simp only at ih ⊢
        refine ⟨?_, ?_⟩
        · intro h' hh'
          rcases List.mem_cons.mp hh' with rfl | hh'
          · exact hp
          · exact ih.1 h' hh'
        · intro e he
          rcases List.mem_cons.mp he with rfl | he
          · simp [EvBad]
          · exact ih.2 e he
      | some st =>
        simp only at ih ⊢
        obtain ⟨hb, ⟨e, he, heb⟩, ⟨h', hh', hne⟩⟩ := ih
        exact ⟨hb, ⟨e, by simp [he], heb⟩, ⟨h', by simp [hh'], hne⟩⟩
    · simp only [hp, if_false]
      refine ⟨((outcome_status_bad h.outcome .running).1).mpr (Or.inr hp), ⟨⟨.beforeAll, h.id, h.outcome⟩, by simp, hp, rfl⟩, ⟨h, by simp, hp⟩⟩

/-! ### one case -/

/-- a case report ends as success, failed or error; it is failed/error iff one of the closures
called for it (before_each hooks, body, after_each hooks) failed -/
theorem runCase_spec (bes aes : List Hook) (rc : RCase) :
    ((runCase bes aes rc).1.status = .success ∨ Bad (runCase bes aes rc).1.status) ∧
    (Bad (runCase bes aes rc).1.status ↔ ∃ e ∈ (runCase bes aes rc).2, EvBad e) ∧
    (runCase bes aes rc).1.c = rc.c := by
  unfold runCase
  have hbe := runBeforeEach_spec bes .running
  rcases hr : runBeforeEach bes .running with ⟨st, evs, ok⟩
  rw [hr] at hbe
  cases ok
  · simp only at hbe ⊢
    have hae := runAfterEach_spec aes st
    have hb : Bad (runAfterEach aes st).1 := hae.1.mpr (Or.inl hbe.1)
    refine ⟨Or.inr hb, ⟨fun _ => ?_, fun _ => hb⟩, by first | rfl | trivial⟩
    obtain ⟨e, he, heb⟩ := hbe.2
    exact ⟨e, by simp [he], heb⟩
  · simp only at hbe ⊢
    obtain ⟨rfl, hpass⟩ := hbe
    have hae := runAfterEach_spec aes (rc.c.body.status .running)
    have ho := outcome_status_bad rc.c.body .running
    by_cases hb : Bad (runAfterEach aes (rc.c.body.status .running)).1
    · have hu : updateStatus (runAfterEach aes (rc.c.body.status .running)).1 .success =
          (runAfterEach aes (rc.c.body.status .running)).1 := by
        rcases hb with h | h <;> rw [h] <;> rfl
      rw [hu]
      refine ⟨Or.inr hb, ⟨fun _ => ?_, fun _ => hb⟩, by first | rfl | trivial⟩
      rcases hae.1.mp hb with h1 | ⟨e, he, heb⟩
      · rcases ho.1.mp h1 with h2 | h2
        · simp [Bad] at h2
        · exact ⟨⟨.body, rc.c.id, rc.c.body⟩, by simp, h2⟩
      · exact ⟨e, by simp [he], heb⟩
    · have h1 := hae.2 hb
      have hnb : ¬ Bad (rc.c.body.status .running) := by rw [← h1]; exact hb
      have hp : rc.c.body = .pass := by
        have := (not_congr ho.1).mp hnb
        cases hh : rc.c.body <;> simp_all [Bad]
      have h2 : (runAfterEach aes (rc.c.body.status .running)).1 = .running := by
        rw [h1]; exact ho.2 hp
      rw [h2]
      refine ⟨Or.inl rfl, ⟨fun h => by simp [updateStatus, Bad] at h, ?_⟩, by first | rfl | trivial⟩
      rintro ⟨e, he, heb⟩
      exfalso
      rcases List.mem_append.mp he with he | he
      · exact hpass e he heb
      · rcases List.mem_cons.mp he with rfl | he
        · exact heb hp
        · exact hb (hae.1.mpr (Or.inr ⟨e, he, heb⟩))

/-- bad events of a case run are never before_all/after_all events -/
theorem runBeforeEach_kinds (hs : List Hook) (st : Status) :
    ∀ e ∈ (runBeforeEach hs st).2.1, e.kind = .beforeEach := by
  induction hs with
  | nil => simp [runBeforeEach]
  | cons h hs ih =>
    unfold runBeforeEach
    by_cases hp : h.outcome = .pass
    · simp only [hp, if_true]
      intro e he
      rcases List.mem_cons.mp he with rfl | he
      · rfl
      · exact ih e he
    · simp only [hp, if_false]
      intro e he
      simp at he; subst he; rfl

theorem runAfterEach_kinds (hs : List Hook) (st : Status) :
    ∀ e ∈ (runAfterEach hs st).2, e.kind = .afterEach := by
  induction hs generalizing st with
  | nil => simp [runAfterEach]
  | cons h hs ih =>
    simp only [runAfterEach]
    intro e he
    rcases List.mem_cons.mp he with rfl | he
    · rfl
    · exact ih _ e he

theorem runCase_kinds (bes aes : List Hook) (rc : RCase) :
    ∀ e ∈ (runCase bes aes rc).2, e.kind = .body ∨ e.kind = .beforeEach ∨ e.kind = .afterEach := by
  unfold runCase
  have hk := runBeforeEach_kinds bes .running
  rcases hr : runBeforeEach bes .running with ⟨st, evs, ok⟩
  rw [hr] at hk
  cases ok
  · simp only
    intro e he
    rcases List.mem_append.mp he with he | he
    · exact Or.inr (Or.inl (hk e he))
    · exact Or.inr (Or.inr (runAfterEach_kinds _ _ e he))
  · simp only
    intro e he
    rcases List.mem_append.mp he with he | he
    · exact Or.inr (Or.inl (hk e he))
    · rcases List.mem_cons.mp he with rfl | he
      · exact Or.inl rfl
      · exact Or.inr (Or.inr (runAfterEach_kinds _ _ e he))

/-- an executed before_all/after_all hook that failed -/
def SuiteHookBad (e : Ev) : Prop := EvBad e ∧ (e.kind = .beforeAll ∨ e.kind = .afterAll)

theorem runCases_spec (bes aes : List Hook) (cs : List RCase) (st : Status) (hl : Live st) :
    Live (runCases bes aes cs st).status ∧
    (Bad (runCases bes aes cs st).status ↔ Bad st ∨ ∃ e ∈ (runCases bes aes cs st).events, EvBad e) ∧
    (Bad (runCases bes aes cs st).status ↔ Bad st ∨ ∃ cr ∈ (runCases bes aes cs st).cases, Bad cr.status) ∧
    (∀ e ∈ (runCases bes aes cs st).events, ¬ SuiteHookBad e) ∧
    (runCases bes aes cs st).cases.map (·.c) = cs.map (·.c) := by
  induction cs generalizing st with
  | nil => simp [runCases, hl]
  | cons rc rest ih =>
    simp only [runCases]
    have hc := runCase_spec bes aes rc
    have hf : Final (runCase bes aes rc).1.status := by
      rcases hc.1 with h | h
      · exact Or.inl h
      · exact Or.inr (Or.inr h)
    have hu := bad_update hl hf
    have ih' := ih _ hu.1
    refine ⟨ih'.1, ?_, ?_, ?_, ?_⟩
    · rw [ih'.2.1, hu.2, hc.2.1]
      simp only [List.mem_append]
      constructor
      · rintro ((h1 | ⟨e, he, hb⟩) | ⟨e, he, hb⟩)
        · exact Or.inl h1
        · exact Or.inr ⟨e, Or.inl he, hb⟩
        · exact Or.inr ⟨e, Or.inr he, hb⟩
      · rintro (h1 | ⟨e, he | he, hb⟩)
        · exact Or.inl (Or.inl h1)
        · exact Or.inl (Or.inr ⟨e, he, hb⟩)
        · exact Or.inr ⟨e, he, hb⟩
    · rw [ih'.2.2.1, hu.2]
      simp only [List.mem_cons, exists_eq_or_imp]
      constructor
      · rintro ((h1 | h1) | h1)
        · exact Or.inl h1
        · exact Or.inr (Or.inl h1)
        · exact Or.inr (Or.inr h1)
      · rintro (h1 | h1 | h1)
        · exact Or.inl (Or.inl h1)
        · exact Or.inl (Or.inr h1)
        · exact Or.inr h1
    · intro e he
      rcases List.mem_append.mp he with he | he
      · intro hb
        rcases runCase_kinds bes aes rc e he with h | h | h <;> rcases hb.2 with h' | h' <;> rw [h] at h' <;> cases h'
      · exact ih'.2.2.2.1 e he
    · simp [ih'.2.2.2.2, hc.2.2]

/-! ### suites -/

mutual
theorem runSuite_spec (bes aes : List Hook) : (s : RSuite) →
    Final (runSuite bes aes s).status ∧
    (Bad (runSuite bes aes s).status ↔ ∃ e ∈ (runSuite bes aes s).events, EvBad e) ∧
    (Bad (runSuite bes aes s).status ↔
      (∃ cr ∈ (runSuite bes aes s).cases, Bad cr.status) ∨ ∃ e ∈ (runSuite bes aes s).events, SuiteHookBad e)
  | .mk _ _ hooks cases subs => by
    unfold runSuite
    by_cases h0 : cases.length + caseCountList subs = 0
    · simp [h0, Final, Bad]
    · simp only [h0, if_false]
      have hba := runBeforeAll_spec hooks.beforeAll
      rcases hr : runBeforeAll hooks.beforeAll with ⟨r, evs⟩
      rw [hr] at hba
      cases r with
      | some st =>
        simp only at hba ⊢
        obtain ⟨hb, ⟨e, he, heb, hk⟩, _⟩ := hba
        refine ⟨Or.inr (Or.inr hb), ⟨fun _ => ⟨e, he, heb⟩, fun _ => hb⟩, ⟨fun _ => Or.inr ⟨e, he, heb, Or.inl hk⟩, fun _ => hb⟩⟩
      | none =>
        simp only at hba ⊢
        have h1 := runCases_spec (hooks.beforeEach ++ bes) (hooks.afterEach ++ aes) cases .running (Or.inl rfl)
        have h2 := runSubs_spec (hooks.beforeEach ++ bes) (hooks.afterEach ++ aes) subs _ h1.1
        have h3 := runAfterAll_spec hooks.afterAll
          (runSubs (hooks.beforeEach ++ bes) (hooks.afterEach ++ aes) subs
            (runCases (hooks.beforeEach ++ bes) (hooks.afterEach ++ aes) cases .running).status).status
        generalize hR1 : runCases (hooks.beforeEach ++ bes) (hooks.afterEach ++ aes) cases .running = R1 at *
        generalize hR2 : runSubs (hooks.beforeEach ++ bes) (hooks.afterEach ++ aes) subs R1.status = R2 at *
        generalize hR3 : runAfterAll hooks.afterAll R2.status = R3 at *
        have hnr : ¬ Bad Status.running := by simp [Bad]
        have hfin : Final (updateStatus R3.1 .success) ∧ (Bad (updateStatus R3.1 .success) ↔ Bad R3.1) := by
          by_cases hb : Bad R3.1
          · have : updateStatus R3.1 .success = R3.1 := by rcases hb with h | h <;> rw [h] <;> rfl
            rw [this]; exact ⟨Or.inr (Or.inr hb), Iff.rfl⟩
          · have := h3.2.1 hb
            rw [this] at hb ⊢
            rcases h2.1 with h | h | h
            · rw [h]; simp [updateStatus, Final, Bad]
            · rw [h]; simp [updateStatus, Final, Bad]
            · exact absurd h hb
        refine ⟨hfin.1, ?_, ?_⟩
        · rw [hfin.2, h3.1, h2.2.1, h1.2.1]
          simp only [List.mem_append]
          constructor
          · rintro (((h | ⟨e, he, hb⟩) | ⟨e, he, hb⟩) | ⟨e, he, hb, _⟩)
            · exact absurd h hnr
            · exact ⟨e, Or.inl (Or.inl (Or.inr he)), hb⟩
            · exact ⟨e, Or.inl (Or.inr he), hb⟩
            · exact ⟨e, Or.inr he, hb⟩
          · rintro ⟨e, (((he | he) | he) | he), hb⟩
            · exact absurd hb (hba.2 e he)
            · exact Or.inl (Or.inl (Or.inr ⟨e, he, hb⟩))
            · exact Or.inl (Or.inr ⟨e, he, hb⟩)
            · exact Or.inr ⟨e, he, hb, h3.2.2 e he⟩
        · rw [hfin.2, h3.1, h2.2.2, h1.2.2.1]
          simp only [List.mem_append]
          constructor
          · rintro (((h | ⟨cr, hc, hb⟩) | (⟨cr, hc, hb⟩ | ⟨e, he, hb⟩)) | ⟨e, he, hb, hk⟩)
            · exact absurd h hnr
            · exact Or.inl ⟨cr, Or.inl hc, hb⟩
            · exact Or.inl ⟨cr, Or.inr hc, hb⟩
            · exact Or.inr ⟨e, Or.inl (Or.inr he), hb⟩
            · exact Or.inr ⟨e, Or.inr he, hb, Or.inr hk⟩
          · rintro (⟨cr, hc | hc, hb⟩ | ⟨e, (((he | he) | he) | he), hb⟩)
            · exact Or.inl (Or.inl (Or.inr ⟨cr, hc, hb⟩))
            · exact Or.inl (Or.inr (Or.inl ⟨cr, hc, hb⟩))
            · exact absurd hb.1 (hba.2 e he)
            · exact absurd hb (h1.2.2.2.1 e he)
            · exact Or.inl (Or.inr (Or.inr ⟨e, he, hb⟩))
            · exact Or.inr ⟨e, he, hb.1, h3.2.2 e he⟩
theorem runSubs_spec (bes aes : List Hook) : (ss : List RSuite) → (st : Status) → Live st →
    Live (runSubs bes aes ss st).status ∧
    (Bad (runSubs bes aes ss st).status ↔ Bad st ∨ ∃ e ∈ (runSubs bes aes ss st).events, EvBad e) ∧
    (Bad (runSubs bes aes ss st).status ↔ Bad st ∨ (∃ cr ∈ (runSubs bes aes ss st).cases, Bad cr.status) ∨
      ∃ e ∈ (runSubs bes aes ss st).events, SuiteHookBad e)
  | [], st, hl => by simp [runSubs, hl]
  | s :: ss, st, hl => by
    simp only [runSubs]
    have hs := runSuite_spec bes aes s
    have hu := bad_update hl hs.1
    have ih := runSubs_spec bes aes ss _ hu.1
    refine ⟨ih.1, ?_, ?_⟩
    · rw [ih.2.1, hu.2, hs.2.1]
      simp only [List.mem_append]
      constructor
      · rintro ((h1 | ⟨e, he, hb⟩) | ⟨e, he, hb⟩)
        · exact Or.inl h1
        · exact Or.inr ⟨e, Or.inl he, hb⟩
        · exact Or.inr ⟨e, Or.inr he, hb⟩
      · rintro (h1 | ⟨e, he | he, hb⟩)
        · exact Or.inl (Or.inl h1)
        · exact Or.inl (Or.inr ⟨e, he, hb⟩)
        · exact Or.inr ⟨e, he, hb⟩
    · rw [ih.2.2, hu.2, hs.2.2]
      simp only [List.mem_append]
      constructor
      · rintro ((h1 | (⟨cr, hc, hb⟩ | ⟨e, he, hb⟩)) | (⟨cr, hc, hb⟩ | ⟨e, he, hb⟩))
        · exact Or.inl h1
        · exact Or.inr (Or.inl ⟨cr, Or.inl hc, hb⟩)
        · exact Or.inr (Or.inr ⟨e, Or.inl he, hb⟩)
        · exact Or.inr (Or.inl ⟨cr, Or.inr hc, hb⟩)
        · exact Or.inr (Or.inr ⟨e, Or.inr he, hb⟩)
      · rintro (h1 | (⟨cr, hc | hc, hb⟩ | ⟨e, he | he, hb⟩))
        · exact Or.inl (Or.inl h1)
        · exact Or.inl (Or.inr (Or.inl ⟨cr, hc, hb⟩))
        · exact Or.inr (Or.inl ⟨cr, hc, hb⟩)
        · exact Or.inl (Or.inr (Or.inr ⟨e, he, hb⟩))
        · exact Or.inr (Or.inr ⟨e, he, hb⟩)
end

/-! ### which cases run -/

mutual
theorem caseCount_eq : (s : RSuite) → caseCount s = (rcases s).length
  | .mk _ _ _ cases subs => by simp [caseCount, rcases, caseCountList_eq subs]
theorem caseCountList_eq : (ss : List RSuite) → caseCountList ss = (rcasesList ss).length
  | [] => rfl
  | s :: ss => by simp [caseCountList, rcasesList, caseCount_eq s, caseCountList_eq ss]
end

mutual
/-- no `before_all` hook of a registered suite fails -/
def RBeforeAllPass : RSuite → Prop
  | .mk _ _ hooks _ subs => (∀ h ∈ hooks.beforeAll, h.outcome = .pass) ∧ RBeforeAllPassList subs
def RBeforeAllPassList : List RSuite → Prop
  | [] => True
  | s :: ss => RBeforeAllPass s ∧ RBeforeAllPassList ss
end

theorem runBeforeAll_pass (hs : List Hook) (h : ∀ x ∈ hs, x.outcome = .pass) :
    (runBeforeAll hs).1 = none := by
  have := runBeforeAll_spec hs
  rcases hr : runBeforeAll hs with ⟨r, evs⟩
  rw [hr] at this
  cases r with
  | none => rfl
  | some st =>
    obtain ⟨_, _, x, hx, hne⟩ := this
    exact absurd (h x hx) hne

mutual
/-- when no `before_all` hook fails every registered case is run exactly once, in order -/
theorem runSuite_cases (bes aes : List Hook) : (s : RSuite) → RBeforeAllPass s →
    (runSuite bes aes s).cases.map (·.c) = (rcases s).map (·.c)
  | .mk _ _ hooks cases subs, hp => by
    unfold runSuite
    by_cases h0 : cases.length + caseCountList subs = 0
    · have hc : cases = [] := List.eq_nil_of_length_eq_zero (by omega)
      have hs : rcasesList subs = [] := List.eq_nil_of_length_eq_zero (by rw [← caseCountList_eq]; omega)
      rw [if_pos h0]
      simp [rcases, hc, hs]
    · simp only [h0, if_false]
      have hba := runBeforeAll_pass hooks.beforeAll hp.1
      rcases hr : runBeforeAll hooks.beforeAll with ⟨r, evs⟩
      rw [hr] at hba
      simp only at hba
      subst hba
      simp only [rcases, List.map_append]
      rw [(runCases_spec _ _ cases .running (Or.inl rfl)).2.2.2.2,
        runSubs_cases _ _ subs _ hp.2]
theorem runSubs_cases (bes aes : List Hook) : (ss : List RSuite) → (st : Status) → RBeforeAllPassList ss →
    (runSubs bes aes ss st).cases.map (·.c) = (rcasesList ss).map (·.c)
  | [], _, _ => by simp [runSubs, rcasesList]
  | s :: ss, st, hp => by
    simp only [runSubs, rcasesList, List.map_append]
    rw [runSuite_cases bes aes s hp.1, runSubs_cases bes aes ss _ hp.2]
end

mutual
/-- in general the runner runs a sub-list of the registered cases: none twice, none that is not registered -/
theorem runSuite_sublist (bes aes : List Hook) : (s : RSuite) →
    ((runSuite bes aes s).cases.map (·.c)).Sublist ((rcases s).map (·.c))
  | .mk _ _ hooks cases subs => by
    unfold runSuite
    by_cases h0 : cases.length + caseCountList subs = 0
    · simp [h0]
    · simp only [h0, if_false]
      rcases hr : runBeforeAll hooks.beforeAll with ⟨r, evs⟩
      cases r with
      | some st => simp
      | none =>
        simp only [rcases, List.map_append]
        rw [(runCases_spec _ _ cases .running (Or.inl rfl)).2.2.2.2]
        exact List.Sublist.append (List.Sublist.refl _) (runSubs_sublist _ _ subs _)
theorem runSubs_sublist (bes aes : List Hook) : (ss : List RSuite) → (st : Status) →
    ((runSubs bes aes ss st).cases.map (·.c)).Sublist ((rcasesList ss).map (·.c))
  | [], _ => by simp [runSubs, rcasesList]
  | s :: ss, st => by
    simp only [runSubs, rcasesList, List.map_append]
    exact List.Sublist.append (runSuite_sublist bes aes s) (runSubs_sublist bes aes ss _)
end

/-! ### hooks of the registered tree are hooks of the original tree -/

mutual
/-- no `before_all` hook of the tree fails -/
def BeforeAllPass : Suite → Prop
  | .mk _ _ hooks _ subs => (∀ h ∈ hooks.beforeAll, h.outcome = .pass) ∧ BeforeAllPassList subs
def BeforeAllPassList : List Suite → Prop
  | [] => True
  | s :: ss => BeforeAllPass s ∧ BeforeAllPassList ss
end

mutual
theorem regSuite_beforeAll (fs : List Filter) (ctx : NameCtx) (anc : List Loc) (pf : Bool) :
    (s : Suite) → BeforeAllPass s → ∀ r, regSuite fs ctx anc pf s = some r → RBeforeAllPass r
  | .mk name loc hooks cases subs, hp, r, hr => by
    unfold regSuite at hr
    cases hm : suiteMatchesFilters fs pf loc anc <;> simp only [hm] at hr
    · cases hr
    · cases hr
      exact ⟨hp.1, regSubs_beforeAll fs _ _ _ subs hp.2⟩
    · cases hr
      exact ⟨hp.1, regSubs_beforeAll fs _ _ _ subs hp.2⟩
theorem regSubs_beforeAll (fs : List Filter) (ctx : NameCtx) (anc : List Loc) (pf : Bool) :
    (ss : List Suite) → BeforeAllPassList ss → RBeforeAllPassList (regSubs fs ctx anc pf ss)
  | [], _ => by simp [regSubs, RBeforeAllPassList]
  | s :: ss, hp => by
    unfold regSubs
    cases hr : regSuite fs ctx anc pf s with
    | none => exact regSubs_beforeAll fs ctx anc pf ss hp.2
    | some r => exact ⟨regSuite_beforeAll fs ctx anc pf s hp.1 r hr, regSubs_beforeAll fs ctx anc pf ss hp.2⟩
end

end Elk.Filter
