import ElkVerif.Model.Filter
/-! Registration-time filtering of the C34 model equals the specification `sat` on well-nested trees. -/
namespace Elk.Filter

/-! ### well-nested trees: what lexical nesting of `describe`/`test` closure literals guarantees -/

mutual
/-- the suite lies in `file` within lines `lo..hi`, its cases and sub-suites lie within it -/
def WFSuite (file : String) (lo hi : Int) : Suite → Prop
  | .mk _ loc _ cases subs =>
    loc.file = file ∧ lo ≤ loc.first ∧ loc.first ≤ loc.last ∧ loc.last ≤ hi ∧
    (∀ c ∈ cases, c.loc.file = file ∧ loc.first ≤ c.loc.first ∧ c.loc.last ≤ loc.last) ∧
    WFSubs file loc.first loc.last subs
def WFSubs (file : String) (lo hi : Int) : List Suite → Prop
  | [] => True
  | s :: ss => WFSuite file lo hi s ∧ WFSubs file lo hi ss
end

def Suite.loc : Suite → Loc
  | .mk _ loc _ _ _ => loc

/-- a top-level suite: well nested within its own location -/
def WFTop (s : Suite) : Prop := WFSuite s.loc.file s.loc.first s.loc.last s

/-- every top-level `describe` is well nested (top-level cases are unconstrained) -/
def WFRoot (root : Root) : Prop := ∀ s ∈ root.subs, WFTop s

mutual
/-- flattening of a registered tree, in run order -/
def rcases : RSuite → List RCase
  | .mk _ _ _ cases subs => cases ++ rcasesList subs
def rcasesList : List RSuite → List RCase
  | [] => []
  | s :: ss => rcases s ++ rcasesList ss
end

def rcasesOpt : Option RSuite → List RCase
  | none => []
  | some r => rcases r

/-! ### the accumulator loop of `SuiteMatchesFilters` -/

theorem loop_yes_ne_full (loc : Loc) (anc : List Loc) (fs : List Filter) :
    suiteMatchesLoop loc anc fs .yes ≠ .full := by
  induction fs with
  | nil => simp [suiteMatchesLoop]
  | cons f fs ih =>
    unfold suiteMatchesLoop
    cases f.suiteMatches loc anc <;> simp [ih]

theorem loop_full (loc : Loc) (anc : List Loc) (fs : List Filter) (r : SuiteMatch)
    (h : suiteMatchesLoop loc anc fs r = .full) : ∀ f ∈ fs, f.suiteMatches loc anc = .full := by
  induction fs generalizing r with
  | nil => simp
  | cons f fs ih =>
    unfold suiteMatchesLoop at h
    cases hm : f.suiteMatches loc anc with
    | no => simp [hm] at h
    | yes => simp [hm] at h; exact absurd h (loop_yes_ne_full loc anc fs)
    | full =>
      simp only [hm] at h
      intro f' hf'
      rcases List.mem_cons.mp hf' with rfl | hf'
      · exact hm
      · exact ih _ h f' hf'

theorem loop_no (loc : Loc) (anc : List Loc) (fs : List Filter) (r : SuiteMatch)
    (h : suiteMatchesLoop loc anc fs r = .no) : ∃ f ∈ fs, f.suiteMatches loc anc = .no := by
  induction fs generalizing r with
  | nil =>
    unfold suiteMatchesLoop at h
    by_cases hr : r = .no <;> simp [hr] at h
  | cons f fs ih =>
    unfold suiteMatchesLoop at h
    cases hm : f.suiteMatches loc anc with
    | no => exact ⟨f, by simp, hm⟩
    | yes =>
      simp only [hm] at h
      obtain ⟨f', hf', h'⟩ := ih _ h
      exact ⟨f', by simp [hf'], h'⟩
    | full =>
      simp only [hm] at h
      obtain ⟨f', hf', h'⟩ := ih _ h
      exact ⟨f', by simp [hf'], h'⟩

/-! ### one filter against one case -/

/-- all suites of the chain are in `file` -/
def ChainIn (file : String) (chain : List Loc) : Prop := ∀ a ∈ chain, a.file = file

theorem any_start_congr (glob : String → Bool) (line : Int) (file : String) (chain : List Loc)
    (hc : ChainIn file chain) :
    (chain.any fun a => decide (line = a.first) && glob a.file) =
      (glob file && chain.any fun a => decide (line = a.first)) := by
  induction chain with
  | nil => simp
  | cons a rest ih =>
    have ha : a.file = file := hc a (by simp)
    have ih' := ih (fun b hb => hc b (by simp [hb]))
    simp only [List.any_cons, ih', ha]
    cases glob file <;> simp

/-- `Filter.CaseMatches` is `sat` when the case and its enclosing suites are in one file -/
theorem caseMatches_eq_sat (f : Filter) (c : Case) (name : String) (chain : List Loc)
    (hc : ChainIn c.loc.file chain) :
    f.caseMatches name c.loc chain = sat f ⟨c, name, chain⟩ := by
  cases f with
  | grep re => rfl
  | path glob line =>
    simp only [Filter.caseMatches, sat, locationMatches, startsSuite,
      any_start_congr glob line c.loc.file chain hc]
    by_cases hl : line < 0 <;> cases hg : glob c.loc.file <;> simp [hl]

/-- what `FullMatch` of the parent means: every filter is a path filter whose line starts the
parent or one of its ancestors -/
def FullInv (fs : List Filter) (full : Bool) (chain : List Loc) : Prop :=
  full = true → ∀ f ∈ fs, ∃ glob line, f = .path glob line ∧ startsSuite glob line chain = true

theorem sat_of_starts (glob : String → Bool) (line : Int) (c : Case) (name : String) (chain : List Loc)
    (hc : ChainIn c.loc.file chain) (h : startsSuite glob line chain = true) :
    sat (.path glob line) ⟨c, name, chain⟩ = true := by
  have := caseMatches_eq_sat (.path glob line) c name chain hc
  rw [← this]
  simp [Filter.caseMatches, h]

theorem caseMatchesFilters_eq (fs : List Filter) (full : Bool) (c : Case) (name : String) (chain : List Loc)
    (hc : ChainIn c.loc.file chain) (hf : FullInv fs full chain) :
    caseMatchesFilters fs full name c.loc chain = satAll fs ⟨c, name, chain⟩ := by
  unfold caseMatchesFilters satAll
  have hall : (fs.all fun f => f.caseMatches name c.loc chain) = fs.all fun f => sat f ⟨c, name, chain⟩ := by
    have : (fun f : Filter => f.caseMatches name c.loc chain) = fun f => sat f ⟨c, name, chain⟩ :=
      funext fun f => caseMatches_eq_sat f c name chain hc
    rw [this]
  cases full with
  | false => simpa using hall
  | true =>
    simp only [Bool.true_or]
    symm
    rw [List.all_eq_true]
    intro f hfm
    obtain ⟨glob, line, rfl, hs⟩ := hf rfl f hfm
    exact sat_of_starts glob line c name chain hc hs

theorem regCases_eq (fs : List Filter) (full : Bool) (ctx : NameCtx) (chain : List Loc) (cs : List Case)
    (file : String) (hcs : ∀ c ∈ cs, c.loc.file = file) (hc : ChainIn file chain)
    (hf : FullInv fs full chain) :
    (regCases fs full ctx chain cs).map (·.c) =
      ((infosOfCases ctx chain cs).filter (satAll fs)).map (·.c) := by
  unfold regCases infosOfCases
  rw [List.map_map, List.filter_map, List.map_map]
  have h1 : ((fun rc : RCase => rc.c) ∘ fun c : Case => (⟨c, caseFullName ctx c.name⟩ : RCase)) = id := rfl
  have h2 : ((fun ci : CaseInfo => ci.c) ∘ fun c : Case => (⟨c, caseFullName ctx c.name, chain⟩ : CaseInfo)) = id := rfl
  rw [h1, h2]
  congr 1
  apply List.filter_congr
  intro c hcm
  have := hcs c hcm
  exact caseMatchesFilters_eq fs full c _ chain (by rw [this]; exact hc) hf

/-! ### where the cases of a subtree lie -/

/-- the case lies in `file` within `lo..hi`; the suites enclosing it are those of `anc` or start
within `lo..hi` -/
def Inside (file : String) (lo hi : Int) (anc : List Loc) (ci : CaseInfo) : Prop :=
  ci.c.loc.file = file ∧ lo ≤ ci.c.loc.first ∧ ci.c.loc.last ≤ hi ∧
  ∀ a ∈ ci.chain, a ∈ anc ∨ (lo ≤ a.first ∧ a.first ≤ hi)

mutual
theorem suiteInfos_inside (ctx : NameCtx) (anc : List Loc) (file : String) (lo hi : Int) :
    (s : Suite) → WFSuite file lo hi s → ∀ ci ∈ suiteInfos ctx anc s, Inside file lo hi anc ci
  | .mk name loc _ cases subs, hwf => by
    obtain ⟨_, hlo, hfl, hhi, hcs, hsub⟩ := hwf
    intro ci hci
    simp only [suiteInfos, List.mem_append] at hci
    rcases hci with hci | hci
    · simp only [infosOfCases, List.mem_map] at hci
      obtain ⟨c, hc, rfl⟩ := hci
      obtain ⟨h1, h2, h3⟩ := hcs c hc
      refine ⟨h1, (by show lo ≤ c.loc.first; omega), (by show c.loc.last ≤ hi; omega), ?_⟩
      intro a ha
      rcases List.mem_cons.mp ha with rfl | ha
      · exact Or.inr ⟨hlo, by omega⟩
      · exact Or.inl ha
    · obtain ⟨h1, h2, h3, h4⟩ := subsInfos_inside (ctx.sub name) (loc :: anc) file loc.first loc.last subs hsub ci hci
      refine ⟨h1, by omega, by omega, ?_⟩
      intro a ha
      rcases h4 a ha with h | h
      · rcases List.mem_cons.mp h with rfl | h
        · exact Or.inr ⟨hlo, by omega⟩
        · exact Or.inl h
      · exact Or.inr ⟨by omega, by omega⟩
theorem subsInfos_inside (ctx : NameCtx) (anc : List Loc) (file : String) (lo hi : Int) :
    (ss : List Suite) → WFSubs file lo hi ss → ∀ ci ∈ subsInfos ctx anc ss, Inside file lo hi anc ci
  | [], _ => by simp [subsInfos]
  | s :: ss, hwf => by
    intro ci hci
    simp only [subsInfos, List.mem_append] at hci
    rcases hci with hci | hci
    · exact suiteInfos_inside ctx anc file lo hi s hwf.1 ci hci
    · exact subsInfos_inside ctx anc file lo hi ss hwf.2 ci hci
end

/-- a suite rejected by a filter contains no case satisfying that filter -/
theorem rejected_unsat (f : Filter) (ctx : NameCtx) (anc : List Loc) (file : String) (lo hi : Int)
    (name : String) (loc : Loc) (hooks : Hooks) (cases : List Case) (subs : List Suite)
    (hwf : WFSuite file lo hi (.mk name loc hooks cases subs)) (hanc : ChainIn file anc)
    (hno : f.suiteMatches loc anc = .no) :
    ∀ ci ∈ suiteInfos ctx anc (.mk name loc hooks cases subs), sat f ci = false := by
  have hwf' : WFSuite file loc.first loc.last (.mk name loc hooks cases subs) := by
    obtain ⟨h1, _, h3, _, h5, h6⟩ := hwf
    exact ⟨h1, Int.le_refl _, h3, Int.le_refl _, h5, h6⟩
  have hfile : loc.file = file := hwf.1
  intro ci hci
  obtain ⟨hcf, hclo, hchi, hchain⟩ := suiteInfos_inside ctx anc file loc.first loc.last _ hwf' ci hci
  cases f with
  | grep re => simp [Filter.suiteMatches] at hno
  | path glob line =>
    simp only [Filter.suiteMatches] at hno
    by_cases hg : glob loc.file = true
    · simp only [hg, Bool.not_true, Bool.false_eq_true, if_false] at hno
      by_cases hl : line < 0
      · simp [hl] at hno
      · simp only [hl, if_false] at hno
        by_cases hs : startsSuite glob line (loc :: anc) = true
        · simp [hs] at hno
        · simp only [hs, Bool.false_eq_true, if_false] at hno
          by_cases hw : loc.first ≤ line ∧ line ≤ loc.last
          · simp [hw.1, hw.2] at hno
          · -- the line is outside the suite and starts none of its ancestors
            simp only [sat]
            have hnone : ∀ a ∈ ci.chain, ¬ line = a.first := by
              intro a ha heq
              rcases hchain a ha with h | h
              · apply hs
                simp only [startsSuite, hl, if_false, List.any_cons, List.any_eq_true, Bool.or_eq_true]
                right
                refine ⟨a, h, ?_⟩
                have : a.file = loc.file := by rw [hfile]; exact hanc a h
                simp [heq, this, hg]
              · exact hw ⟨by omega, by omega⟩
            have h1 : (ci.chain.any fun a => decide (line = a.first)) = false := by
              rw [List.any_eq_false]
              intro a ha
              simpa using hnone a ha
            have h2 : (decide (ci.c.loc.first ≤ line) && decide (line ≤ ci.c.loc.last)) = false := by
              by_cases ha : ci.c.loc.first ≤ line
              · by_cases hb : line ≤ ci.c.loc.last
                · exact absurd ⟨by omega, by omega⟩ hw
                · simp [hb]
              · simp [ha]
            simp [h1, h2, hl]
    · have : glob ci.c.loc.file = false := by
        rw [hcf, ← hfile]; simpa using hg
      simp [sat, this]

/-! ### registration = specification -/

theorem fullInv_cons (fs : List Filter) (full : Bool) (loc : Loc) (anc : List Loc)
    (h : FullInv fs full anc) : FullInv fs full (loc :: anc) := by
  intro hf f hfm
  obtain ⟨glob, line, rfl, hs⟩ := h hf f hfm
  refine ⟨glob, line, rfl, ?_⟩
  simp only [startsSuite] at hs ⊢
  by_cases hl : line < 0
  · simp [hl] at hs
  · simp only [hl, if_false, List.any_cons, Bool.or_eq_true] at hs ⊢
    exact Or.inr hs

theorem suiteMatches_full (f : Filter) (loc : Loc) (anc : List Loc) (h : f.suiteMatches loc anc = .full) :
    ∃ glob line, f = .path glob line ∧ startsSuite glob line (loc :: anc) = true := by
  cases f with
  | grep re => simp [Filter.suiteMatches] at h
  | path glob line =>
    refine ⟨glob, line, rfl, ?_⟩
    simp only [Filter.suiteMatches] at h
    by_cases hg : glob loc.file = true
    · simp only [hg, Bool.not_true, Bool.false_eq_true, if_false] at h
      by_cases hl : line < 0
      · simp [hl] at h
      · simp only [hl, if_false] at h
        by_cases hs : startsSuite glob line (loc :: anc) = true
        · exact hs
        · simp only [hs, Bool.false_eq_true, if_false] at h
          split at h <;> simp at h
    · simp [hg] at h

mutual
theorem regSuite_eq (fs : List Filter) (ctx : NameCtx) (anc : List Loc) (pfull : Bool) (file : String)
    (lo hi : Int) : (s : Suite) → WFSuite file lo hi s → ChainIn file anc → FullInv fs pfull anc →
    (rcasesOpt (regSuite fs ctx anc pfull s)).map (·.c) =
      ((suiteInfos ctx anc s).filter (satAll fs)).map (·.c)
  | .mk name loc hooks cases subs, hwf, hanc, hfull => by
    have hfile : loc.file = file := hwf.1
    have hanc' : ChainIn file (loc :: anc) := by
      intro a ha
      rcases List.mem_cons.mp ha with rfl | ha
      · exact hfile
      · exact hanc a ha
    have hcs : ∀ c ∈ cases, c.loc.file = file := fun c hc => (hwf.2.2.2.2.1 c hc).1
    have hsub : WFSubs file loc.first loc.last subs := hwf.2.2.2.2.2
    unfold regSuite
    cases hm : suiteMatchesFilters fs pfull loc anc with
    | no =>
      simp only [rcasesOpt, List.map_nil]
      have hpf : pfull = false := by
        cases pfull <;> simp [suiteMatchesFilters] at hm ⊢
      subst hpf
      simp only [suiteMatchesFilters, Bool.false_eq_true, if_false] at hm
      obtain ⟨f, hf, hno⟩ := loop_no loc anc fs _ hm
      have hun := rejected_unsat f ctx anc file lo hi name loc hooks cases subs hwf hanc hno
      have : (suiteInfos ctx anc (.mk name loc hooks cases subs)).filter (satAll fs) = [] := by
        rw [List.filter_eq_nil_iff]
        intro ci hci
        simp only [satAll, List.all_eq_true]
        intro hall
        have := hall f hf
        rw [hun ci hci] at this
        cases this
      rw [this]; rfl
    | yes =>
      simp only [rcasesOpt, rcases, suiteInfos, List.map_append, List.filter_append]
      have hfi : FullInv fs SuiteMatch.yes.isFull (loc :: anc) := by
        intro h; simp [SuiteMatch.isFull] at h
      rw [regCases_eq fs _ (ctx.sub name) (loc :: anc) cases file hcs hanc' hfi]
      rw [regSubs_eq fs (ctx.sub name) (loc :: anc) _ file loc.first loc.last subs hsub hanc' hfi]
    | full =>
      simp only [rcasesOpt, rcases, suiteInfos, List.map_append, List.filter_append]
      have hfi : FullInv fs SuiteMatch.full.isFull (loc :: anc) := by
        intro _
        cases hp : pfull with
        | true => exact fullInv_cons fs true loc anc (by rw [hp] at hfull; exact hfull) rfl
        | false =>
          rw [hp] at hm
          simp only [suiteMatchesFilters, Bool.false_eq_true, if_false] at hm
          intro f hf
          exact suiteMatches_full f loc anc (loop_full loc anc fs _ hm f hf)
      rw [regCases_eq fs _ (ctx.sub name) (loc :: anc) cases file hcs hanc' hfi]
      rw [regSubs_eq fs (ctx.sub name) (loc :: anc) _ file loc.first loc.last subs hsub hanc' hfi]
theorem regSubs_eq (fs : List Filter) (ctx : NameCtx) (anc : List Loc) (pfull : Bool) (file : String)
    (lo hi : Int) : (ss : List Suite) → WFSubs file lo hi ss → ChainIn file anc → FullInv fs pfull anc →
    (rcasesList (regSubs fs ctx anc pfull ss)).map (·.c) =
      ((subsInfos ctx anc ss).filter (satAll fs)).map (·.c)
  | [], _, _, _ => by simp [regSubs, rcasesList, subsInfos]
  | s :: ss, hwf, hanc, hfull => by
    have h1 := regSuite_eq fs ctx anc pfull file lo hi s hwf.1 hanc hfull
    have h2 := regSubs_eq fs ctx anc pfull file lo hi ss hwf.2 hanc hfull
    unfold regSubs
    simp only [subsInfos, List.filter_append, List.map_append]
    rw [← h1, ← h2]
    cases regSuite fs ctx anc pfull s <;> simp [rcasesOpt, rcasesList]
end

/-- top-level suites may lie in different files -/
theorem regTop_eq (fs : List Filter) : (ss : List Suite) → (∀ s ∈ ss, WFTop s) →
    (rcasesList (regSubs fs .root [] false ss)).map (·.c) =
      ((subsInfos .root [] ss).filter (satAll fs)).map (·.c)
  | [], _ => by simp [regSubs, rcasesList, subsInfos]
  | s :: ss, hwf => by
    have h1 := regSuite_eq fs .root [] false s.loc.file s.loc.first s.loc.last s (hwf s (by simp))
      (by intro a ha; cases ha) (by intro h; cases h)
    have h2 := regTop_eq fs ss (fun s' hs' => hwf s' (by simp [hs']))
    unfold regSubs
    simp only [subsInfos, List.filter_append, List.map_append]
    rw [← h1, ← h2]
    cases regSuite fs .root [] false s <;> simp [rcasesOpt, rcasesList]

/-- **registration-time filtering registers exactly the selected cases**, in tree order -/
theorem register_eq_selected (fs : List Filter) (root : Root) (hwf : WFRoot root) :
    (rcases (register fs root)).map (·.c) = selected fs root := by
  unfold register selected allCases
  simp only [rcases, List.map_append, List.filter_append]
  rw [regTop_eq fs root.subs hwf]
  congr 1
  unfold regCases infosOfCases
  rw [List.map_map, List.filter_map, List.map_map]
  have h1 : ((fun rc : RCase => rc.c) ∘ fun c : Case => (⟨c, caseFullName .root c.name⟩ : RCase)) = id := rfl
  have h2 : ((fun ci : CaseInfo => ci.c) ∘ fun c : Case => (⟨c, caseFullName .root c.name, []⟩ : CaseInfo)) = id := rfl
  rw [h1, h2]
  congr 1
  apply List.filter_congr
  intro c _
  exact caseMatchesFilters_eq fs false c _ [] (by intro a ha; cases ha) (by intro h; cases h)

end Elk.Filter
