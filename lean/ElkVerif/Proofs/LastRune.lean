import ElkVerif.Proofs.Str
/-! C20: `DecodeLastRuneInString` on a string that ends with an encoded scalar value. -/
namespace Elk.Utf8

theorem getD_append_at (t l : Bytes) (i : Nat) : (t ++ l).getD (t.length + i) 0 = l.getD i 0 := by
  simp [List.getD_eq_getElem?_getD, List.getElem?_append_right]

/-- shape of `EncodeRune`'s output: a non-continuation lead byte followed by continuation bytes -/
theorem encodeRune_shape (c : Nat) (hv : ValidScalar c) :
    (c < 0x80 ∧ encodeRune c = [byte c]) ∨
    (∃ b0 b1, encodeRune c = [b0, b1] ∧ isCont b0 = false ∧ isCont b1 = true) ∨
    (∃ b0 b1 b2, encodeRune c = [b0, b1, b2] ∧ isCont b0 = false ∧ isCont b1 = true ∧ isCont b2 = true) ∨
    (∃ b0 b1 b2 b3, encodeRune c = [b0, b1, b2, b3] ∧ isCont b0 = false ∧ isCont b1 = true ∧ isCont b2 = true ∧ isCont b3 = true) := by
  unfold ValidScalar at hv
  by_cases h1 : c < 0x80
  · left; exact ⟨h1, by simp [encodeRune, h1]⟩
  right
  by_cases h2 : c < 0x800
  · left
    refine ⟨byte (0xC0 + c / 64), byte (0x80 + c % 64), by simp [encodeRune, h1, h2], ?_, ?_⟩
    · simp only [isCont, byte_toNat (0xC0 + c / 64) (by omega)]; simp; omega
    · simp only [isCont, byte_toNat (0x80 + c % 64) (by omega)]; simp; omega
  right
  have h3 : ¬ ((0xD800 ≤ c ∧ c ≤ 0xDFFF) ∨ 0x10FFFF < c) := by omega
  by_cases h4 : c < 0x10000
  · left
    refine ⟨byte (0xE0 + c / 4096), byte (0x80 + c / 64 % 64), byte (0x80 + c % 64), by simp [encodeRune, h1, h2, h3, h4], ?_, ?_, ?_⟩
    · simp only [isCont, byte_toNat (0xE0 + c / 4096) (by omega)]; simp; omega
    · simp only [isCont, byte_toNat (0x80 + c / 64 % 64) (by omega)]; simp; omega
    · simp only [isCont, byte_toNat (0x80 + c % 64) (by omega)]; simp; omega
  · right
    refine ⟨byte (0xF0 + c / 262144), byte (0x80 + c / 4096 % 64), byte (0x80 + c / 64 % 64), byte (0x80 + c % 64), by simp [encodeRune, h1, h2, h3, h4], ?_, ?_, ?_, ?_⟩
    · simp only [isCont, byte_toNat (0xF0 + c / 262144) (by omega)]; simp; omega
    · simp only [isCont, byte_toNat (0x80 + c / 4096 % 64) (by omega)]; simp; omega
    · simp only [isCont, byte_toNat (0x80 + c / 64 % 64) (by omega)]; simp; omega
    · simp only [isCont, byte_toNat (0x80 + c % 64) (by omega)]; simp; omega

end Elk.Utf8

namespace Elk.Utf8

theorem isCont_ge (b : UInt8) (h : isCont b = true) : ¬ b.toNat < 0x80 := by
  simp [isCont] at h; omega

theorem lastStart_two (t : Bytes) (b0 b1 : UInt8) (h0 : isCont b0 = false) :
    lastStart (t ++ [b0, b1]) = t.length := by
  have g : (t ++ [b0, b1]).getD (t.length + 2 - 2) 0 = b0 := by
    have := getD_append_at t [b0, b1] 0; simpa using this
  simp [lastStart, g, runeStart, h0]

theorem lastStart_three (t : Bytes) (b0 b1 b2 : UInt8) (h0 : isCont b0 = false) (h1 : isCont b1 = true) :
    lastStart (t ++ [b0, b1, b2]) = t.length := by
  have g1 : (t ++ [b0, b1, b2]).getD (t.length + 3 - 2) 0 = b1 := by
    have := getD_append_at t [b0, b1, b2] 1
    have e : t.length + 3 - 2 = t.length + 1 := by omega
    rw [e]; simpa using this
  have g0 : (t ++ [b0, b1, b2]).getD (t.length + 3 - 3) 0 = b0 := by
    have := getD_append_at t [b0, b1, b2] 0; simpa using this
  simp [lastStart, g0, g1, runeStart, h0, h1]

theorem lastStart_four (t : Bytes) (b0 b1 b2 b3 : UInt8) (h0 : isCont b0 = false) (h1 : isCont b1 = true)
    (h2 : isCont b2 = true) : lastStart (t ++ [b0, b1, b2, b3]) = t.length := by
  have g2 : (t ++ [b0, b1, b2, b3]).getD (t.length + 4 - 2) 0 = b2 := by
    have := getD_append_at t [b0, b1, b2, b3] 2
    have e : t.length + 4 - 2 = t.length + 2 := by omega
    rw [e]; simpa using this
  have g1 : (t ++ [b0, b1, b2, b3]).getD (t.length + 4 - 3) 0 = b1 := by
    have := getD_append_at t [b0, b1, b2, b3] 1
    have e : t.length + 4 - 3 = t.length + 1 := by omega
    rw [e]; simpa using this
  have g0 : (t ++ [b0, b1, b2, b3]).getD (t.length + 4 - 4) 0 = b0 := by
    have := getD_append_at t [b0, b1, b2, b3] 0; simpa using this
  simp [lastStart, g0, g1, g2, runeStart, h0, h1, h2]

/-- `DecodeLastRuneInString` finds the scalar value a string ends with -/
theorem decodeLastRune_encode (t : Bytes) (c : Nat) (hv : ValidScalar c) :
    decodeLastRune (t ++ encodeRune c) = (c, (encodeRune c).length) := by
  have hde := decode_encode c hv []
  rw [List.append_nil] at hde
  rcases encodeRune_shape c hv with ⟨hc, he⟩ | ⟨b0, b1, he, h0, h1⟩ | ⟨b0, b1, b2, he, h0, h1, h2⟩ |
      ⟨b0, b1, b2, b3, he, h0, h1, h2, h3⟩
  · rw [he]
    have g : (t ++ [byte c]).getD (t.length + 1 - 1) 0 = byte c := by
      have := getD_append_at t [byte c] 0; simpa using this
    simp [decodeLastRune, g, byte_toNat c (by omega), hc]
  · rw [he] at hde ⊢
    have g : (t ++ [b0, b1]).getD (t.length + 2 - 1) 0 = b1 := by
      have := getD_append_at t [b0, b1] 1
      have e : t.length + 2 - 1 = t.length + 1 := by omega
      rw [e]; simpa using this
    have hl := isCont_ge b1 h1
    simp [decodeLastRune, g, hl, lastStart_two t b0 b1 h0, hde]
  · rw [he] at hde ⊢
    have g : (t ++ [b0, b1, b2]).getD (t.length + 3 - 1) 0 = b2 := by
      have := getD_append_at t [b0, b1, b2] 2
      have e : t.length + 3 - 1 = t.length + 2 := by omega
      rw [e]; simpa using this
    have hl := isCont_ge b2 h2
    simp [decodeLastRune, g, hl, lastStart_three t b0 b1 b2 h0 h1, hde]
  · rw [he] at hde ⊢
    have g : (t ++ [b0, b1, b2, b3]).getD (t.length + 4 - 1) 0 = b3 := by
      have := getD_append_at t [b0, b1, b2, b3] 3
      have e : t.length + 4 - 1 = t.length + 3 := by omega
      rw [e]; simpa using this
    have hl := isCont_ge b3 h3
    simp [decodeLastRune, g, hl, lastStart_four t b0 b1 b2 b3 h0 h1 h2, hde]

end Elk.Utf8

namespace Elk.Str
open Elk.Utf8

/-- `-` with a Char: a string that ends with the char's encoding loses exactly that suffix -/
theorem removeSuffix_char_append (t : Bytes) (c : Nat) (hv : ValidScalar c) :
    removeSuffix (t ++ encodeRune c) (.chr (c : Int)) = .ok t := by
  have hp := encodeRune_length_pos' c
  simp only [removeSuffix, decodeLastRune_encode t c hv, List.length_append]
  have h1 : t.length + (encodeRune c).length > 0 := by omega
  simp [h1]
where
  encodeRune_length_pos' (r : Nat) : 0 < (encodeRune r).length := by
    unfold encodeRune; repeat' split
    all_goals simp

/-- … and a string whose last decoded rune is a different one is returned unchanged -/
theorem removeSuffix_char_other (s : Bytes) (c : Int) (h : ((decodeLastRune s).1 : Int) ≠ c) :
    removeSuffix s (.chr c) = .ok s := by
  simp [removeSuffix, h]

end Elk.Str
