import ElkVerif.Model.Narrow
/-! soundness of the narrowing tables (C02) -/
namespace Elk.Narrow

/-- the static environment describes the run-time values -/
def Sound (Γ : TEnv) (ρ : VEnv) : Prop := ∀ x, Γ x (ρ x) = true

/-- the type annotations of a checked condition are sound along the evaluation path: every
sub-expression that is evaluated under `ρ` yields a value of its annotated type -/
def AnnOK (ρ : VEnv) : ACond → Prop
  | .var x τ => τ (ρ x) = true
  | .lit v τ => τ v = true
  | .not c => AnnOK ρ c
  | .and a b τ => AnnOK ρ a ∧ ((eval ρ a).truthy = true → AnnOK ρ b) ∧ τ (eval ρ (.and a b τ)) = true
  | .or a b τ => AnnOK ρ a ∧ ((eval ρ a).truthy = false → AnnOK ρ b) ∧ τ (eval ρ (.or a b τ)) = true
  | .nilco a b τ => AnnOK ρ a ∧ (eval ρ a = .nil → AnnOK ρ b) ∧ τ (eval ρ (.nilco a b τ)) = true
  | .eq a b => AnnOK ρ a ∧ AnnOK ρ b
  | .ne a b => AnnOK ρ a ∧ AnnOK ρ b
  | .isA _ _ => True
  | .instOf _ _ => True

theorem bool_boolV (b : Bool) : Ty.bool (boolV b) = true := by cases b <;> rfl

theorem ty_of_annOK {ρ : VEnv} : ∀ {c : ACond}, AnnOK ρ c → c.ty (eval ρ c) = true
  | .var _ _, h => h
  | .lit _ _, h => h
  | .not _, _ => bool_boolV _
  | .and _ _ _, h => h.2.2
  | .or _ _ _, h => h.2.2
  | .nilco _ _ _, h => h.2.2
  | .eq _ _, _ => bool_boolV _
  | .ne _ _, _ => bool_boolV _
  | .isA _ _, _ => bool_boolV _
  | .instOf _ _, _ => bool_boolV _

theorem sound_set {Γ : TEnv} {ρ : VEnv} {x : Nat} {t : Ty} (h : Sound Γ ρ) (ht : t (ρ x) = true) :
    Sound (Γ.set x t) ρ := by
  intro y
  unfold TEnv.set
  by_cases e : y = x
  · subst e; simpa using ht
  · simp [e, h y]

theorem isFalsy_spec {t : Ty} (h : t.isFalsy = true) {v : Val} (hv : t v = true) : v.truthy = false := by
  cases v <;> simp_all [Ty.isFalsy, Val.truthy]

theorem isTruthy_spec {t : Ty} (h : t.isTruthy = true) {v : Val} (hv : t v = true) : v.truthy = true := by
  cases v <;> simp_all [Ty.isTruthy, Val.truthy]

theorem isNil_spec {t : Ty} (h : t.isNil = true) {v : Val} (hv : t v = true) : v = .nil := by
  cases v <;> simp_all [Ty.isNil]

theorem isNotNilable_spec {t : Ty} (h : t.isNotNilable = true) {v : Val} (hv : t v = true) : v ≠ .nil := by
  cases v <;> simp_all [Ty.isNotNilable]

theorem boolV_truthy (b : Bool) : (boolV b).truthy = b := by cases b <;> rfl
theorem boolV_ne_nil (b : Bool) : boolV b ≠ .nil := by cases b <;> simp [boolV]

theorem sat_never (v : Val) : Assumption.sat .never v = false := rfl

theorem narrowLocal_sound {Γ : TEnv} {ρ : VEnv} {x : Nat} {τ : Ty} {A : Assumption}
    (h : Sound Γ ρ) (hτ : τ (ρ x) = true) (hs : A.sat (ρ x) = true) : Sound (narrowLocal Γ x τ A) ρ := by
  cases A <;> simp only [narrowLocal] <;> apply sound_set h
  · simp_all [Ty.nonFalsy, Assumption.sat]
  · simp_all [Ty.nonTruthy, Assumption.sat]
  · simp_all [Ty.single, Assumption.sat]
  · simp_all [Ty.nonNilable, Assumption.sat]
  · simp [Assumption.sat] at hs

theorem intersectWith_sound {Γ : TEnv} {ρ : VEnv} {c : ACond} {t : Ty}
    (h : Sound Γ ρ) (ht : t (eval ρ c) = true) : Sound (intersectWith Γ c t) ρ := by
  cases c <;> simp only [intersectWith] <;> try exact h
  rename_i x τ
  apply sound_set h
  simp only [eval] at ht
  simp [Ty.inter, h x, ht]

theorem narrowIsA_sound {Γ : TEnv} {ρ : VEnv} {x : Nat} {t : Ty} {A : Assumption}
    (h : Sound Γ ρ) (hs : A.sat (boolV (t (ρ x))) = true) : Sound (narrowIsA Γ x t A) ρ := by
  cases A <;> simp only [narrowIsA]
  · apply sound_set h
    simpa [Assumption.sat, boolV_truthy] using hs
  · apply sound_set h
    simp [Assumption.sat, boolV_truthy] at hs
    simp [Ty.diff, h x, hs]
  · simp [Assumption.sat] at hs
    exact absurd hs (boolV_ne_nil _)
  · exact h
  · simp [Assumption.sat] at hs

/-- the assumptions the checker starts from (`if`/`unless`/`while`…: truthy, falsy; `??`: nil) and
everything the tables derive from them with a satisfiable premise -/
def Assumption.reachable : Assumption → Bool
  | .notNil => false
  | _ => true

/-- no `||` on the path along which the `nil` assumption travels (`??` passes it to both operands) -/
def ACond.nilOrFree : ACond → Bool
  | .or _ _ _ => false
  | .nilco a b _ => a.nilOrFree && b.nilOrFree
  | _ => true

/-- the defect class of the row "`a || b` assumed nil" is excluded: the row is repaired, or the
assumption is not `nil`, or no `||` lies on the nil-path of the condition -/
def Ok (cfg : Cfg) (c : ACond) (A : Assumption) : Bool :=
  cfg.orNilFixed || A != .nil || c.nilOrFree

theorem ok_of_ne_nil (cfg : Cfg) (c : ACond) {A : Assumption} (h : A ≠ .nil) : Ok cfg c A = true := by
  cases A <;> simp_all [Ok]

/-- **soundness of the tables** for the assumptions reachable from the checker's entry points,
outside the defect class of the `||`/nil row -/
theorem narrow_sound (cfg : Cfg) :
    ∀ (c : ACond) (A : Assumption) (Γ : TEnv) (ρ : VEnv), A.reachable = true → Ok cfg c A = true →
      Sound Γ ρ → AnnOK ρ c → A.sat (eval ρ c) = true → Sound (narrow cfg c A Γ) ρ
  | .var x τ, A, Γ, ρ, _, _, hΓ, ha, hs => by
    simp only [narrow]
    exact narrowLocal_sound hΓ ha hs
  | .lit v τ, A, Γ, ρ, _, _, hΓ, _, _ => by simpa [narrow] using hΓ
  | .not c, A, Γ, ρ, hr, hok, hΓ, ha, hs => by
    simp only [narrow]
    cases A
    · exact narrow_sound cfg c .falsy Γ ρ rfl (ok_of_ne_nil cfg _ (by decide)) hΓ ha (by simpa [Assumption.sat, eval, boolV_truthy] using hs)
    · exact narrow_sound cfg c .truthy Γ ρ rfl (ok_of_ne_nil cfg _ (by decide)) hΓ ha (by simpa [Assumption.sat, eval, boolV_truthy] using hs)
    · simp [Assumption.sat, eval] at hs; exact absurd hs (boolV_ne_nil _)
    · simp [Assumption.reachable] at hr
    · simp [Assumption.sat] at hs
  | .and a b τ, A, Γ, ρ, hr, hok, hΓ, ha, hs => by
    obtain ⟨haa, hab, _⟩ := ha
    have hta := ty_of_annOK haa
    cases A
    · -- truthy
      simp only [Assumption.sat, eval] at hs
      have hat : (eval ρ a).truthy = true := by
        cases h : (eval ρ a).truthy
        · simp [h] at hs
        · rfl
      have hbt : (eval ρ b).truthy = true := by simpa [hat] using hs
      have hb := hab hat
      have htb := ty_of_annOK hb
      simp only [narrow]
      split
      · rename_i hf
        rcases Bool.or_eq_true_iff.mp hf with hf | hf
        · have := isFalsy_spec hf hta; rw [this] at hat; cases hat
        · have := isFalsy_spec hf htb; rw [this] at hbt; cases hbt
      · exact narrow_sound cfg b .truthy _ ρ rfl (ok_of_ne_nil cfg _ (by decide))
          (narrow_sound cfg a .truthy Γ ρ rfl (ok_of_ne_nil cfg _ (by decide)) hΓ haa hat) hb hbt
    · -- falsy
      simp only [Assumption.sat, eval] at hs
      simp only [narrow]
      split
      · rename_i ht
        have hat := isTruthy_spec ht hta
        have hb := hab hat
        exact narrow_sound cfg b .falsy Γ ρ rfl (ok_of_ne_nil cfg _ (by decide)) hΓ hb (by simpa [Assumption.sat, hat] using hs)
      · split
        · rename_i ht
          cases hat : (eval ρ a).truthy
          · exact narrow_sound cfg a .falsy Γ ρ rfl (ok_of_ne_nil cfg _ (by decide)) hΓ haa (by simp [Assumption.sat, hat])
          · have hb := hab hat
            have := isTruthy_spec ht (ty_of_annOK hb)
            simp [hat, this] at hs
        · exact hΓ
    · simpa [narrow] using hΓ
    · simp [Assumption.reachable] at hr
    · simp [Assumption.sat] at hs
  | .or a b τ, A, Γ, ρ, hr, hok, hΓ, ha, hs => by
    obtain ⟨haa, hab, _⟩ := ha
    have hta := ty_of_annOK haa
    cases A
    · -- truthy
      simp only [Assumption.sat, eval] at hs
      simp only [narrow]
      split
      · rename_i hf
        have haf := isFalsy_spec hf hta
        have hb := hab haf
        exact narrow_sound cfg b .truthy Γ ρ rfl (ok_of_ne_nil cfg _ (by decide)) hΓ hb (by simpa [Assumption.sat, haf] using hs)
      · split
        · rename_i hf
          cases hat : (eval ρ a).truthy
          · have hb := hab hat
            have := isFalsy_spec hf (ty_of_annOK hb)
            simp [hat, this] at hs
          · exact narrow_sound cfg a .truthy Γ ρ rfl (ok_of_ne_nil cfg _ (by decide)) hΓ haa (by simp [Assumption.sat, hat])
        · exact hΓ
    · -- falsy
      simp only [Assumption.sat, eval] at hs
      have haf : (eval ρ a).truthy = false := by
        cases h : (eval ρ a).truthy
        · rfl
        · simp [h] at hs
      have hbf : (eval ρ b).truthy = false := by simpa [haf] using hs
      have hb := hab haf
      have htb := ty_of_annOK hb
      simp only [narrow]
      split
      · rename_i ht
        rcases Bool.or_eq_true_iff.mp ht with ht | ht
        · have := isTruthy_spec ht hta; rw [this] at haf; cases haf
        · have := isTruthy_spec ht htb; rw [this] at hbf; cases hbf
      · exact narrow_sound cfg b .falsy _ ρ rfl (ok_of_ne_nil cfg _ (by decide))
          (narrow_sound cfg a .falsy Γ ρ rfl (ok_of_ne_nil cfg _ (by decide)) hΓ haa (by simp [Assumption.sat, haf])) hb
          (by simp [Assumption.sat, hbf])
    · -- nil: left falsy, right nil
      have h₁ : cfg.orNilFixed = true := by simpa [Ok, ACond.nilOrFree] using hok
      simp only [Assumption.sat, eval] at hs
      have haf : (eval ρ a).truthy = false := by
        cases h : (eval ρ a).truthy
        · rfl
        · simp [h] at hs
          try (rw [hs] at h; cases h)
      have hbn : eval ρ b = .nil := by simpa [haf] using hs
      have hb := hab haf
      have htb := ty_of_annOK hb
      simp only [narrow, h₁, if_true]
      split
      · rename_i ht
        rcases Bool.or_eq_true_iff.mp ht with ht | ht
        · have := isTruthy_spec ht hta; rw [this] at haf; cases haf
        · exact absurd hbn (isNotNilable_spec ht htb)
      · exact narrow_sound cfg b .nil _ ρ rfl (by simp [Ok, h₁])
          (narrow_sound cfg a .falsy Γ ρ rfl (ok_of_ne_nil cfg _ (by decide)) hΓ haa (by simp [Assumption.sat, haf])) hb
          (by simp [Assumption.sat, hbn])
    · simp [Assumption.reachable] at hr
    · simp [Assumption.sat] at hs
  | .nilco a b τ, A, Γ, ρ, hr, hok, hΓ, ha, hs => by
    obtain ⟨haa, hab, _⟩ := ha
    have hta := ty_of_annOK haa
    cases A
    · simpa [narrow] using hΓ
    · simpa [narrow] using hΓ
    · -- nil: both nil
      have hoa : Ok cfg a .nil = true := by
        simp only [Ok, ACond.nilOrFree] at hok ⊢
        cases h : cfg.orNilFixed <;> simp_all
      have hob : Ok cfg b .nil = true := by
        simp only [Ok, ACond.nilOrFree] at hok ⊢
        cases h : cfg.orNilFixed <;> simp_all
      simp only [Assumption.sat, eval] at hs
      have han : eval ρ a = .nil := by
        by_cases h : eval ρ a = .nil
        · exact h
        · simp [h] at hs
          all_goals exact absurd hs h
      have hbn : eval ρ b = .nil := by simpa [han] using hs
      have hb := hab han
      have htb := ty_of_annOK hb
      simp only [narrow]
      split
      · rename_i ht
        rcases Bool.or_eq_true_iff.mp ht with ht | ht
        · exact absurd han (isNotNilable_spec ht hta)
        · exact absurd hbn (isNotNilable_spec ht htb)
      · exact narrow_sound cfg b .nil _ ρ rfl hob
          (narrow_sound cfg a .nil Γ ρ rfl hoa hΓ haa (by simp [Assumption.sat, han])) hb
          (by simp [Assumption.sat, hbn])
    · simp [Assumption.reachable] at hr
    · simp [Assumption.sat] at hs
  | .eq a b, A, Γ, ρ, hr, hok, hΓ, ha, hs => by
    obtain ⟨haa, hab⟩ := ha
    cases A
    · simp only [Assumption.sat, eval, boolV_truthy, beq_iff_eq] at hs
      simp only [narrow]
      apply intersectWith_sound
      · apply intersectWith_sound hΓ
        rw [hs]; exact ty_of_annOK hab
      · rw [← hs]; exact ty_of_annOK haa
    · simpa [narrow] using hΓ
    · simp [Assumption.sat, eval] at hs; exact absurd hs (boolV_ne_nil _)
    · simp [Assumption.reachable] at hr
    · simp [Assumption.sat] at hs
  | .ne a b, A, Γ, ρ, hr, hok, hΓ, ha, hs => by
    obtain ⟨haa, hab⟩ := ha
    cases A
    · simpa [narrow, Assumption.negate] using hΓ
    · simp only [Assumption.sat, eval, boolV_truthy] at hs
      have he : eval ρ a = eval ρ b := by simpa using hs
      simp only [narrow, Assumption.negate]
      apply intersectWith_sound
      · apply intersectWith_sound hΓ
        rw [he]; exact ty_of_annOK hab
      · rw [← he]; exact ty_of_annOK haa
    · simpa [narrow, Assumption.negate] using hΓ
    · simp [Assumption.reachable] at hr
    · simp [Assumption.sat] at hs
  | .isA x t, A, Γ, ρ, _, _, hΓ, _, hs => by
    simp only [narrow]
    exact narrowIsA_sound hΓ (by simpa [eval] using hs)
  | .instOf x t, A, Γ, ρ, _, _, hΓ, _, hs => by
    simp only [narrow]
    exact narrowIsA_sound hΓ (by simpa [eval] using hs)


/-- conditions outside the defect class: no `||` on the nil-path of a left operand of `??` -/
def Cond.nilOrFree : Cond → Bool
  | .or _ _ => false
  | .nilco a b => a.nilOrFree && b.nilOrFree
  | _ => true

def Cond.ok : Cond → Bool
  | .not c => c.ok
  | .and a b | .or a b | .eq a b | .ne a b => a.ok && b.ok
  | .nilco a b => a.nilOrFree && a.ok && b.ok
  | _ => true

theorem check_nilOrFree (cfg : Cfg) : ∀ (c : Cond) (Γ : TEnv), (check cfg Γ c).nilOrFree = c.nilOrFree
  | .var _, _ | .lit _, _ | .not _, _ | .and _ _, _ | .eq _ _, _ | .ne _ _, _ | .isA _ _, _ | .instOf _ _, _ => rfl
  | .or _ _, _ => rfl
  | .nilco a b, Γ => by
    simp only [check, ACond.nilOrFree, Cond.nilOrFree, check_nilOrFree cfg a, check_nilOrFree cfg b]

/-- `c` is outside the defect class for this configuration -/
def CondOk (cfg : Cfg) (c : Cond) : Bool := cfg.orNilFixed || c.ok

/-- the checker's own annotations are sound: conditions typed by `check` in a sound environment
satisfy `AnnOK` (the right operands are typed in the environment narrowed by the left one, which is
sound by `narrow_sound` whenever the right operand is evaluated) -/
theorem check_annOK (cfg : Cfg) :
    ∀ (c : Cond) (Γ : TEnv) (ρ : VEnv), CondOk cfg c = true → Sound Γ ρ → AnnOK ρ (check cfg Γ c)
  | .var x, Γ, ρ, _, hΓ => hΓ x
  | .lit v, Γ, ρ, _, hΓ => by simp [check, AnnOK, Ty.single]
  | .not c, Γ, ρ, hk, hΓ => by
    simpa [check, AnnOK] using check_annOK cfg c Γ ρ (by simpa [CondOk, Cond.ok] using hk) hΓ
  | .and a b, Γ, ρ, hk, hΓ => by
    have hka : CondOk cfg a = true := by
      simp only [CondOk, Cond.ok] at hk ⊢; cases h : cfg.orNilFixed <;> simp_all
    have hkb : CondOk cfg b = true := by
      simp only [CondOk, Cond.ok] at hk ⊢; cases h : cfg.orNilFixed <;> simp_all
    have ha := check_annOK cfg a Γ ρ hka hΓ
    have hta := ty_of_annOK ha
    simp only [check, AnnOK]
    refine ⟨ha, ?_, ?_⟩
    · intro ht
      exact check_annOK cfg b _ ρ hkb (narrow_sound cfg _ .truthy Γ ρ rfl (ok_of_ne_nil cfg _ (by decide)) hΓ ha
        (by simpa [Assumption.sat] using ht))
    · simp only [eval]
      cases ht : (eval ρ (check cfg Γ a)).truthy
      · simp only [Bool.false_eq_true, if_false]
        split
        · rename_i h; have := isTruthy_spec h hta; rw [this] at ht; cases ht
        · split
          · exact hta
          · simp [Ty.union, Ty.nonTruthy, hta, ht]
      · have hb := check_annOK cfg b _ ρ hkb (narrow_sound cfg _ .truthy Γ ρ rfl (ok_of_ne_nil cfg _ (by decide)) hΓ ha
          (by simpa [Assumption.sat] using ht))
        have htb := ty_of_annOK hb
        simp only [if_true]
        split
        · exact htb
        · split
          · rename_i h; have := isFalsy_spec h hta; rw [this] at ht; cases ht
          · simp [Ty.union, htb]
  | .or a b, Γ, ρ, hk, hΓ => by
    have hka : CondOk cfg a = true := by
      simp only [CondOk, Cond.ok] at hk ⊢; cases h : cfg.orNilFixed <;> simp_all
    have hkb : CondOk cfg b = true := by
      simp only [CondOk, Cond.ok] at hk ⊢; cases h : cfg.orNilFixed <;> simp_all
    have ha := check_annOK cfg a Γ ρ hka hΓ
    have hta := ty_of_annOK ha
    simp only [check, AnnOK]
    refine ⟨ha, ?_, ?_⟩
    · intro ht
      exact check_annOK cfg b _ ρ hkb (narrow_sound cfg _ .falsy Γ ρ rfl (ok_of_ne_nil cfg _ (by decide)) hΓ ha
        (by simp [Assumption.sat, ht]))
    · simp only [eval]
      cases ht : (eval ρ (check cfg Γ a)).truthy
      · have hb := check_annOK cfg b _ ρ hkb (narrow_sound cfg _ .falsy Γ ρ rfl (ok_of_ne_nil cfg _ (by decide)) hΓ ha
          (by simp [Assumption.sat, ht]))
        have htb := ty_of_annOK hb
        simp only [Bool.false_eq_true, if_false]
        split
        · rename_i h; have := isTruthy_spec h hta; rw [this] at ht; cases ht
        · split
          · exact htb
          · simp [Ty.union, htb]
      · simp only [if_true]
        split
        · exact hta
        · split
          · rename_i h; have := isFalsy_spec h hta; rw [this] at ht; cases ht
          · simp [Ty.union, Ty.nonFalsy, hta, ht]
  | .nilco a b, Γ, ρ, hk, hΓ => by
    have hka : CondOk cfg a = true := by
      simp only [CondOk, Cond.ok] at hk ⊢; cases h : cfg.orNilFixed <;> simp_all
    have hkb : CondOk cfg b = true := by
      simp only [CondOk, Cond.ok] at hk ⊢; cases h : cfg.orNilFixed <;> simp_all
    have hoa : Ok cfg (check cfg Γ a) .nil = true := by
      simp only [Ok, check_nilOrFree, CondOk, Cond.ok] at hk ⊢
      cases h : cfg.orNilFixed <;> simp_all
    have ha := check_annOK cfg a Γ ρ hka hΓ
    have hta := ty_of_annOK ha
    simp only [check, AnnOK]
    refine ⟨ha, ?_, ?_⟩
    · intro hn
      exact check_annOK cfg b _ ρ hkb (narrow_sound cfg _ .nil Γ ρ rfl hoa hΓ ha (by simp [Assumption.sat, hn]))
    · simp only [eval]
      by_cases hn : eval ρ (check cfg Γ a) = .nil
      · have hb := check_annOK cfg b _ ρ hkb (narrow_sound cfg _ .nil Γ ρ rfl hoa hΓ ha (by simp [Assumption.sat, hn]))
        have htb := ty_of_annOK hb
        simp only [hn, if_true]
        split
        · exact htb
        · split
          · rename_i h; exact absurd hn (isNotNilable_spec h hta)
          · simp [Ty.union, htb]
      · simp only [hn, if_false]
        split
        · rename_i h; exact absurd (isNil_spec h hta) hn
        · split
          · exact hta
          · have : (eval ρ (check cfg Γ a) != Val.nil) = true := by simpa using hn
            simp [Ty.union, Ty.nonNilable, hta, this]
  | .eq a b, Γ, ρ, hk, hΓ => by
    have hka : CondOk cfg a = true := by
      simp only [CondOk, Cond.ok] at hk ⊢; cases h : cfg.orNilFixed <;> simp_all
    have hkb : CondOk cfg b = true := by
      simp only [CondOk, Cond.ok] at hk ⊢; cases h : cfg.orNilFixed <;> simp_all
    exact ⟨check_annOK cfg a Γ ρ hka hΓ, check_annOK cfg b Γ ρ hkb hΓ⟩
  | .ne a b, Γ, ρ, hk, hΓ => by
    have hka : CondOk cfg a = true := by
      simp only [CondOk, Cond.ok] at hk ⊢; cases h : cfg.orNilFixed <;> simp_all
    have hkb : CondOk cfg b = true := by
      simp only [CondOk, Cond.ok] at hk ⊢; cases h : cfg.orNilFixed <;> simp_all
    exact ⟨check_annOK cfg a Γ ρ hka hΓ, check_annOK cfg b Γ ρ hkb hΓ⟩
  | .isA x t, Γ, ρ, _, hΓ => trivial
  | .instOf x t, Γ, ρ, _, hΓ => trivial

end Elk.Narrow
