import ElkVerif.Model.Civil
/-! Helper lemmas for the civil calendar (C22): the day count and its inverse. -/
namespace Elk.Civil

theorem isLeap_iff (y : Int) : isLeap y = true ↔ (y % 4 = 0 ∧ (y % 100 ≠ 0 ∨ y % 400 = 0)) := by
  simp [isLeap]

theorem isLeap_false_iff (y : Int) : isLeap y = false ↔ ¬ (y % 4 = 0 ∧ (y % 100 ≠ 0 ∨ y % 400 = 0)) := by
  simp [isLeap]

/-- `yoeOf` on a day of era written as centuries + 4-year cycles + years + day of year. -/
theorem yoeOf_cqr (c q r doy : Int) (hc0 : 0 ≤ c) (hc : c ≤ 3) (hq0 : 0 ≤ q) (hq : q ≤ 24)
    (hr0 : 0 ≤ r) (hr : r ≤ 3) (hd0 : 0 ≤ doy) (hd1 : doy ≤ 365)
    (hl : doy = 365 → r = 3 ∧ (q ≠ 24 ∨ c = 3)) :
    yoeOf (36524 * c + 1461 * q + 365 * r + doy) = (c * 100 + q * 4 + r, doy) := by
  simp only [yoeOf]
  have hc' : min ((36524 * c + 1461 * q + 365 * r + doy) / 36524) 3 = c := by omega
  rw [hc']
  have hq' : min ((36524 * c + 1461 * q + 365 * r + doy - c * 36524) / 1461) 24 = q := by omega
  rw [hq']
  have hy : min ((36524 * c + 1461 * q + 365 * r + doy - c * 36524 - q * 1461) / 365) 3 = r := by omega
  rw [hy]
  ext <;> simp <;> omega

/-- The condition under which a March-based year-of-era has a 366th day (index 365). -/
def LeapNext (yoe : Int) : Prop := (yoe + 1) % 4 = 0 ∧ ((yoe + 1) % 100 ≠ 0 ∨ (yoe + 1) % 400 = 0)

theorem yoeOf_doe (yoe doy : Int) (h0 : 0 ≤ yoe) (h1 : yoe ≤ 399) (hd0 : 0 ≤ doy) (hd1 : doy ≤ 365)
    (hl : doy = 365 → LeapNext yoe) :
    yoeOf (yoe * 365 + yoe / 4 - yoe / 100 + doy) = (yoe, doy) := by
  unfold LeapNext at hl
  have := yoeOf_cqr (yoe / 100) (yoe % 100 / 4) (yoe % 4) doy (by omega) (by omega) (by omega)
    (by omega) (by omega) (by omega) hd0 hd1 (by omega)
  have e1 : 36524 * (yoe / 100) + 1461 * (yoe % 100 / 4) + 365 * (yoe % 4) + doy
      = yoe * 365 + yoe / 4 - yoe / 100 + doy := by omega
  have e2 : yoe / 100 * 100 + yoe % 100 / 4 * 4 + yoe % 4 = yoe := by omega
  rw [e1, e2] at this
  exact this

/-- Every day of era decomposes; `yoeOf` finds the decomposition. -/
theorem yoeOf_spec (doe : Int) (h0 : 0 ≤ doe) (h1 : doe ≤ 146096) :
    ∃ yoe doy : Int, 0 ≤ yoe ∧ yoe ≤ 399 ∧ 0 ≤ doy ∧ doy ≤ 365 ∧ (doy = 365 → LeapNext yoe) ∧
      doe = yoe * 365 + yoe / 4 - yoe / 100 + doy ∧ yoeOf doe = (yoe, doy) := by
  let c := min (doe / 36524) 3
  let doc := doe - c * 36524
  let q := min (doc / 1461) 24
  let doq := doc - q * 1461
  let r := min (doq / 365) 3
  have hc0 : 0 ≤ c := by omega
  have hc3 : c ≤ 3 := by omega
  have hdoc0 : 0 ≤ doc := by omega
  have hdoc1 : doc ≤ 36524 := by omega
  have hdoc2 : doc = 36524 → c = 3 := by omega
  have hq0 : 0 ≤ q := by omega
  have hq1 : q ≤ 24 := by omega
  have hdoq0 : 0 ≤ doq := by omega
  have hdoq1 : doq ≤ 1460 := by omega
  have hdoq2 : doq = 1460 → (q ≠ 24 ∨ c = 3) := by omega
  have hr0 : 0 ≤ r := by omega
  have hr1 : r ≤ 3 := by omega
  have hdoy0 : 0 ≤ doq - r * 365 := by omega
  have hdoy1 : doq - r * 365 ≤ 365 := by omega
  have hdoy2 : doq - r * 365 = 365 → r = 3 ∧ (q ≠ 24 ∨ c = 3) := by omega
  have e4 : (c * 100 + q * 4 + r) / 4 = 25 * c + q := by omega
  have e100 : (c * 100 + q * 4 + r) / 100 = c := by omega
  have hdoe : doe = 36524 * c + 1461 * q + 365 * r + (doq - r * 365) := by omega
  refine ⟨c * 100 + q * 4 + r, doq - r * 365, by omega, by omega, hdoy0, hdoy1, ?_, ?_, rfl⟩
  · intro h
    have := hdoy2 h
    unfold LeapNext
    omega
  · rw [e4, e100]; omega

/-! ### months -/

theorem monthOfDoy_monthStart (mp d : Int) (h0 : 0 ≤ mp) (h1 : mp ≤ 11) (hd : 1 ≤ d)
    (hlen : d ≤ monthStart (mp + 1) - monthStart mp ∨ (mp = 11 ∧ d ≤ 29)) :
    monthOfDoy (monthStart mp + d - 1) = mp := by
  unfold monthOfDoy monthStart at *
  omega

theorem monthOfDoy_range (doy : Int) (_h0 : 0 ≤ doy) (_h1 : doy ≤ 365) :
    0 ≤ monthOfDoy doy ∧ monthOfDoy doy ≤ 11 ∧ monthStart (monthOfDoy doy) ≤ doy ∧
      (doy < monthStart (monthOfDoy doy + 1) ∨ monthOfDoy doy = 11) := by
  unfold monthOfDoy monthStart
  omega

/-! ### the two round trips -/

theorem daysOfEra_split (era yoe doy : Int) (h0 : 0 ≤ yoe) (h1 : yoe ≤ 399) (hd0 : 0 ≤ doy)
    (hd1 : doy ≤ 365) (hl : doy = 365 → LeapNext yoe) :
    (daysOfEra era yoe doy + 719468) / 146097 = era ∧
    (daysOfEra era yoe doy + 719468) % 146097 = yoe * 365 + yoe / 4 - yoe / 100 + doy := by
  unfold daysOfEra
  unfold LeapNext at hl
  omega

theorem civilFromDays_daysOfEra (era yoe doy : Int) (h0 : 0 ≤ yoe) (h1 : yoe ≤ 399) (hd0 : 0 ≤ doy)
    (hd1 : doy ≤ 365) (hl : doy = 365 → LeapNext yoe) :
    civilFromDays (daysOfEra era yoe doy) = civilOfEra era yoe doy := by
  have ⟨e1, e2⟩ := daysOfEra_split era yoe doy h0 h1 hd0 hd1 hl
  simp only [civilFromDays, e1, e2, yoeOf_doe yoe doy h0 h1 hd0 hd1 hl]

/-- Day count then inverse is the identity on real calendar dates (all years, negative included). -/
theorem civilFromDays_daysFromCivil (y m d : Int) (hv : Valid y m d) :
    civilFromDays (daysFromCivil y m d) = (y, m, d) := by
  obtain ⟨hm1, hm12, hd1, hdm⟩ := hv
  have hmc : m = 1 ∨ m = 2 ∨ m = 3 ∨ m = 4 ∨ m = 5 ∨ m = 6 ∨ m = 7 ∨ m = 8 ∨ m = 9 ∨ m = 10 ∨
      m = 11 ∨ m = 12 := by omega
  have hdim : d ≤ 31 := by
    unfold daysInMonth at hdm; split at hdm <;> (try split at hdm) <;> omega
  have hfeb : m = 2 → d ≤ 29 ∧ (d = 29 → (y % 4 = 0 ∧ (y % 100 ≠ 0 ∨ y % 400 = 0))) := by
    intro h2
    rw [h2] at hdm
    simp only [daysInMonth, if_true] at hdm
    by_cases hl : isLeap y = true
    · exact ⟨by simp [hl] at hdm; omega, fun _ => (isLeap_iff y).mp hl⟩
    · simp [hl] at hdm; omega
  have h30 : (m = 4 ∨ m = 6 ∨ m = 9 ∨ m = 11) → d ≤ 30 := by
    intro h
    have : m ≠ 2 := by omega
    simp [daysInMonth, this, h] at hdm; exact hdm
  simp only [daysFromCivil]
  generalize hy' : (if m ≤ 2 then y - 1 else y) = y'
  have hyoe0 : 0 ≤ y' % 400 := by omega
  have hyoe1 : y' % 400 ≤ 399 := by omega
  have hmp0 : 0 ≤ marchMonth m := by unfold marchMonth; split <;> omega
  have hmp1 : marchMonth m ≤ 11 := by unfold marchMonth; split <;> omega
  have hdoy0 : 0 ≤ monthStart (marchMonth m) + d - 1 := by unfold monthStart; omega
  have hdoy1 : monthStart (marchMonth m) + d - 1 ≤ 365 := by
    unfold monthStart marchMonth
    rcases hmc with h | h | h | h | h | h | h | h | h | h | h | h <;> subst h <;> simp <;> omega
  have hleap : monthStart (marchMonth m) + d - 1 = 365 → LeapNext (y' % 400) := by
    unfold monthStart marchMonth LeapNext
    rcases hmc with h | h | h | h | h | h | h | h | h | h | h | h <;> subst h <;> simp at * <;> omega
  rw [civilFromDays_daysOfEra _ _ _ hyoe0 hyoe1 hdoy0 hdoy1 hleap]
  have hmo : monthOfDoy (monthStart (marchMonth m) + d - 1) = marchMonth m := by
    apply monthOfDoy_monthStart _ _ hmp0 hmp1 hd1
    unfold monthStart marchMonth
    rcases hmc with h | h | h | h | h | h | h | h | h | h | h | h <;> subst h <;> simp at * <;> omega
  simp only [civilOfEra, hmo]
  unfold marchMonth
  rcases hmc with h | h | h | h | h | h | h | h | h | h | h | h <;> subst h <;> simp at * <;>
    (refine ⟨?_, ?_⟩ <;> omega)

/-- Inverse then day count is the identity on every day number. -/
theorem daysFromCivil_civilFromDays (n : Int) :
    daysFromCivil (civilFromDays n).1 (civilFromDays n).2.1 (civilFromDays n).2.2 = n := by
  have hz0 : 0 ≤ (n + 719468) % 146097 := by omega
  have hz1 : (n + 719468) % 146097 ≤ 146096 := by omega
  obtain ⟨yoe, doy, h0, h1, hd0, hd1, hl, hdoe, hy⟩ := yoeOf_spec _ hz0 hz1
  obtain ⟨hm0, hm1, hms, hme⟩ := monthOfDoy_range doy hd0 hd1
  simp only [civilFromDays, hy, civilOfEra]
  generalize hmp : monthOfDoy doy = mp at *
  have hmc : mp = 0 ∨ mp = 1 ∨ mp = 2 ∨ mp = 3 ∨ mp = 4 ∨ mp = 5 ∨ mp = 6 ∨ mp = 7 ∨ mp = 8 ∨
      mp = 9 ∨ mp = 10 ∨ mp = 11 := by omega
  have hq : ∀ e : Int, (yoe + e * 400) / 400 = e ∧ (yoe + e * 400) % 400 = yoe := by intro e; omega
  have hn : n = (n + 719468) / 146097 * 146097 + (n + 719468) % 146097 - 719468 := by omega
  generalize (n + 719468) / 146097 = era at *
  generalize (n + 719468) % 146097 = doe at *
  subst hn
  unfold monthStart at hms hme
  unfold daysFromCivil daysOfEra marchMonth monthStart
  rcases hmc with h | h | h | h | h | h | h | h | h | h | h | h <;> subst h <;>
    simp [(hq era).1, (hq era).2] <;> omega

/-- The inverse only produces real calendar dates. -/
theorem civilFromDays_valid (n : Int) :
    Valid (civilFromDays n).1 (civilFromDays n).2.1 (civilFromDays n).2.2 := by
  have hz0 : 0 ≤ (n + 719468) % 146097 := by omega
  have hz1 : (n + 719468) % 146097 ≤ 146096 := by omega
  obtain ⟨yoe, doy, h0, h1, hd0, hd1, hl, hdoe, hy⟩ := yoeOf_spec _ hz0 hz1
  obtain ⟨hm0, hm1, hms, hme⟩ := monthOfDoy_range doy hd0 hd1
  simp only [civilFromDays, hy, civilOfEra]
  generalize hmp : monthOfDoy doy = mp at *
  generalize (n + 719468) / 146097 = era at *
  have hmc : mp = 0 ∨ mp = 1 ∨ mp = 2 ∨ mp = 3 ∨ mp = 4 ∨ mp = 5 ∨ mp = 6 ∨ mp = 7 ∨ mp = 8 ∨
      mp = 9 ∨ mp = 10 ∨ mp = 11 := by omega
  unfold monthStart at hms hme
  unfold LeapNext at hl
  unfold Valid daysInMonth monthStart
  rcases hmc with h | h | h | h | h | h | h | h | h | h | h | h <;> subst h <;> simp at * <;>
    try omega
  -- February
  by_cases hleap : isLeap (yoe + era * 400 + 1) = true
  · simp [hleap]; omega
  · simp [hleap]
    have := (isLeap_false_iff _).mp (by simpa using hleap)
    omega

/-- The day count is linear in the day field. -/
theorem daysFromCivil_add_day (y m d k : Int) : daysFromCivil y m (d + k) = daysFromCivil y m d + k := by
  simp only [daysFromCivil, daysOfEra]; omega

theorem daysInMonth_cases (y m : Int) :
    (m = 2 ∧ isLeap y = true ∧ daysInMonth y m = 29) ∨ (m = 2 ∧ isLeap y = false ∧ daysInMonth y m = 28) ∨
    ((m = 4 ∨ m = 6 ∨ m = 9 ∨ m = 11) ∧ daysInMonth y m = 30) ∨
    (m ≠ 2 ∧ m ≠ 4 ∧ m ≠ 6 ∧ m ≠ 9 ∧ m ≠ 11 ∧ daysInMonth y m = 31) := by
  unfold daysInMonth
  by_cases h2 : m = 2
  · cases hl : isLeap y <;> simp [h2]
  · by_cases h30 : (m = 4 ∨ m = 6 ∨ m = 9 ∨ m = 11)
    · simp [h2, h30]
    · simp [h2, h30]; omega

/-- **The day count follows the calendar**: the successor date (by the month-length and leap-year
rules alone) has the next day number. Together with `daysFromCivil 1970 1 1 = 0` this pins
`daysFromCivil` on all real dates. -/
theorem daysFromCivil_nextDay (y m d : Int) (hv : Valid y m d) :
    daysFromCivil (nextDay y m d).1 (nextDay y m d).2.1 (nextDay y m d).2.2 = daysFromCivil y m d + 1 := by
  obtain ⟨hm1, hm12, hd1, hdm⟩ := hv
  unfold nextDay
  by_cases hlt : d < daysInMonth y m
  · simp only [hlt, if_true]; exact daysFromCivil_add_day y m d 1
  · have hd : d = daysInMonth y m := by omega
    simp only [hlt, if_false]
    have hmc : m = 1 ∨ m = 2 ∨ m = 3 ∨ m = 4 ∨ m = 5 ∨ m = 6 ∨ m = 7 ∨ m = 8 ∨ m = 9 ∨ m = 10 ∨
        m = 11 ∨ m = 12 := by omega
    rcases daysInMonth_cases y m with ⟨h2, hl, hdim⟩ | ⟨h2, hl, hdim⟩ | ⟨h30, hdim⟩ | ⟨_, _, _, _, _, hdim⟩
    · subst h2; rw [hd, hdim]
      have := (isLeap_iff y).mp hl
      simp [daysFromCivil, daysOfEra, marchMonth, monthStart]; omega
    · subst h2; rw [hd, hdim]
      have := (isLeap_false_iff y).mp hl
      simp [daysFromCivil, daysOfEra, marchMonth, monthStart]; omega
    · rw [hd, hdim]
      rcases h30 with h | h | h | h <;> subst h <;>
        simp [daysFromCivil, daysOfEra, marchMonth, monthStart] <;> omega
    · rw [hd, hdim]
      rcases hmc with h | h | h | h | h | h | h | h | h | h | h | h <;> subst h <;>
        simp_all [daysFromCivil, daysOfEra, marchMonth, monthStart] <;> omega

theorem daysFromCivil_epoch : daysFromCivil 1970 1 1 = 0 := by decide

end Elk.Civil
