import ElkVerif.Proofs.Inspect
/-! C19, symbols: `InspectSymbolContent` as a loop-free function, the quoted round trip. -/
namespace Elk.Inspect
open Elk.Utf8

/-- the bytes `InspectSymbolContent` writes for one piece (independent of the loop state) -/
def symWrite (U : Cls) (b0 : UInt8) (p : Nat × Nat) : Bytes :=
  if p.1 = runeError ∧ p.2 = 1 then [0x5C, 0x78] ++ hex2 b0.toNat
  else match symEscape p.1 with
    | some e => [0x5C, e]
    | none =>
      if p.1 = 0x5F then [0x5F]
      else if U.graphic p.1 then encodeRune p.1
      else if p.2 = 1 then [0x5C, 0x78] ++ hex2 p.1
      else [0x5C, 0x55] ++ hex8U p.1

/-- does this piece force quotes? (`first` = it is the first character of the name) -/
def symForce (U : Cls) (first : Bool) (p : Nat × Nat) : Bool :=
  if p.1 = runeError ∧ p.2 = 1 then true
  else match symEscape p.1 with
    | some _ => true
    | none =>
      if p.1 = 0x5F then false
      else (first && U.digit p.1) || (!U.digit p.1 && !U.letter p.1)

theorem symPiece_eq (U : Cls) (st : SymSt) (b0 : UInt8) (p : Nat × Nat) :
    symPiece U st b0 p =
      { out := st.out ++ symWrite U b0 p, quotes := st.quotes || symForce U st.first p, first := false } := by
  unfold symPiece symWrite symForce
  by_cases hinv : p.1 = runeError ∧ p.2 = 1
  · simp [hinv]
  · cases hesc : symEscape p.1 with
    | some e => simp [hinv]
    | none =>
      by_cases hus : p.1 = 0x5F
      · have hne : ¬ ((95 : Nat) = runeError) := by decide
        simp [hus, hne]
      · cases hq : st.quotes <;> cases hf : st.first <;> cases hd : U.digit p.1 <;> cases hl : U.letter p.1 <;>
          simp [hinv, hus, hq, hf, hd, hl]

def symBody (U : Cls) (bs : Bytes) : Bytes :=
  match bs with
  | [] => []
  | b :: rest =>
    let p := decodeRune (b :: rest)
    symWrite U b p ++ symBody U ((b :: rest).drop p.2)
termination_by bs.length
decreasing_by
  have h1 := decodeRune_width_pos (b :: rest) (by simp)
  have h2 := decodeRune_width_le (b :: rest)
  simp only [List.length_drop, List.length_cons] at *
  omega

def anyForce (U : Cls) (first : Bool) (bs : Bytes) : Bool :=
  match bs with
  | [] => false
  | b :: rest =>
    let p := decodeRune (b :: rest)
    symForce U first p || anyForce U false ((b :: rest).drop p.2)
termination_by bs.length
decreasing_by
  have h1 := decodeRune_width_pos (b :: rest) (by simp)
  have h2 := decodeRune_width_le (b :: rest)
  simp only [List.length_drop, List.length_cons] at *
  omega

theorem symBody_nil (U : Cls) : symBody U [] = [] := by rw [symBody]
theorem symBody_cons (U : Cls) (b : UInt8) (rest : Bytes) :
    symBody U (b :: rest) = symWrite U b (decodeRune (b :: rest)) ++
      symBody U ((b :: rest).drop (decodeRune (b :: rest)).2) := by rw [symBody]
theorem anyForce_nil (U : Cls) (f : Bool) : anyForce U f [] = false := by rw [anyForce]
theorem anyForce_cons (U : Cls) (f : Bool) (b : UInt8) (rest : Bytes) :
    anyForce U f (b :: rest) = (symForce U f (decodeRune (b :: rest)) ||
      anyForce U false ((b :: rest).drop (decodeRune (b :: rest)).2)) := by rw [anyForce]
theorem symLoop_nil (U : Cls) (st : SymSt) : symLoop U st [] = st := by rw [symLoop]
theorem symLoop_cons (U : Cls) (st : SymSt) (b : UInt8) (rest : Bytes) :
    symLoop U st (b :: rest) = symLoop U (symPiece U st b (decodeRune (b :: rest)))
      ((b :: rest).drop (decodeRune (b :: rest)).2) := by rw [symLoop]

/-- the loop of `InspectSymbolContent`, loop-free -/
theorem symLoop_spec (U : Cls) : ∀ (n : Nat) (bs : Bytes), bs.length = n → ∀ st : SymSt,
    (symLoop U st bs).out = st.out ++ symBody U bs ∧
    (symLoop U st bs).quotes = (st.quotes || anyForce U st.first bs) := by
  intro n
  induction n using Nat.strongRecOn with
  | _ n ih =>
    intro bs hn st
    cases bs with
    | nil => simp [symLoop_nil, symBody_nil, anyForce_nil]
    | cons b rest =>
      have h1 := decodeRune_width_pos (b :: rest) (by simp)
      have := ih _ (by simp only [List.length_drop, List.length_cons] at *; omega)
        ((b :: rest).drop (decodeRune (b :: rest)).2) rfl (symPiece U st b (decodeRune (b :: rest)))
      rw [symLoop_cons, this.1, this.2, symBody_cons, anyForce_cons, symPiece_eq]
      simp [Bool.or_assoc]

end Elk.Inspect

namespace Elk.Inspect
open Elk.Utf8

theorem symEscape_spec (c : Nat) (e : UInt8) (h : symEscape c = some e) :
    c < 0x80 ∧ e.toNat < 0x80 ∧ strUnescape e.toNat = some (byte c) := by
  unfold symEscape at h
  repeat' split at h
  all_goals first
    | (simp at h; done)
    | (injection h with h; subst h; subst_vars; decide)

theorem symEscape_none (c : Nat) (h : symEscape c = none) :
    c ≠ 0x22 ∧ c ≠ 0x5C ∧ c ≠ 0x24 ∧ c ≠ 0x23 := by
  unfold symEscape at h
  repeat' split at h
  all_goals first
    | (simp at h; done)
    | omega

theorem strStep_symPiece (U : Cls) (L : Nat → Bool) (b : UInt8) (rest tail : Bytes) :
    strStep L (symWrite U b (decodeRune (b :: rest)) ++ tail) =
      .emit ((b :: rest).take (decodeRune (b :: rest)).2) (symWrite U b (decodeRune (b :: rest))).length := by
  have hb := toNat_lt b
  rcases decode_cases b rest with ⟨hinv, _⟩ | ⟨hv, henc, hlen⟩
  · rw [hinv]
    simp only [symWrite, and_self, if_true, List.cons_append, List.nil_append]
    rw [strStep_backslash, readEscape_x _ (by decide) _ hb]
    simp [hex2, byte_toNat_self]
  · generalize hp : decodeRune (b :: rest) = p at *
    have hnot : ¬ (p.1 = runeError ∧ p.2 = 1) := by
      intro ⟨h1, h2⟩
      have := encodeRune_length_one p.1 (by omega)
      simp [runeError] at h1; omega
    have hmax : p.1 ≤ 0x10FFFF := by unfold ValidScalar at hv; omega
    simp only [symWrite, hnot, if_false]
    cases hesc : symEscape p.1 with
    | some e =>
      obtain ⟨hc, he, hun⟩ := symEscape_spec _ _ hesc
      simp only [List.cons_append, List.nil_append]
      rw [strStep_backslash, readEscape_simple _ e _ _ he hun]
      rw [← henc, encodeRune_ascii _ hc]
      simp
    | none =>
      have hn := symEscape_none _ hesc
      simp only []
      split
      · rename_i hus
        have : ([0x5F] : Bytes) = encodeRune p.1 := by rw [hus]; decide
        rw [this, strStep_rune L _ hv hn, henc]
      · split
        · rw [strStep_rune L _ hv hn, henc]
        · split
          · rename_i h1
            have hlt : p.1 < 0x80 := encodeRune_length_one p.1 (by omega)
            simp only [List.cons_append, List.nil_append]
            rw [strStep_backslash, readEscape_x _ (by decide) _ (by omega)]
            rw [← henc, encodeRune_ascii _ hlt]
            simp [hex2]
          · simp only [List.cons_append, List.nil_append]
            rw [strStep_backslash, readEscape_U _ (by decide) _ (by omega), henc]
            simp [hex8U]

theorem symWrite_length_pos (U : Cls) (b : UInt8) (p : Nat × Nat) : 0 < (symWrite U b p).length := by
  unfold symWrite
  split
  · simp
  · split
    · simp
    · repeat' split
      · simp
      · exact encodeRune_length_pos _
      all_goals simp

theorem readLoop_symBody (U : Cls) (L : Nat → Bool) : ∀ (n : Nat) (bs : Bytes), bs.length = n → ∀ acc : Bytes,
    readLoop L (symBody U bs ++ [0x22]) acc = some (acc ++ bs) := by
  intro n
  induction n using Nat.strongRecOn with
  | _ n ih =>
    intro bs hlen acc
    cases bs with
    | nil =>
      rw [symBody_nil, List.nil_append]
      have hd : strStep L [(0x22 : UInt8)] = .done 1 := by
        have : decodeRune [(0x22 : UInt8)] = (0x22, 1) := decode_lit _ _ (by decide)
        simp [strStep, this]
      rw [readLoop_done L _ _ 1 hd]; simp
    | cons b rest =>
      rw [symBody_cons, List.append_assoc]
      have hpos := symWrite_length_pos U b (decodeRune (b :: rest))
      have hw1 := decodeRune_width_pos (b :: rest) (by simp)
      have hw2 := decodeRune_width_le (b :: rest)
      rw [readLoop_emit L _ _ _ _ (strStep_symPiece U L b rest _)
        ⟨hpos, by simp, by intro h; have := congrArg List.length h; simp at this⟩]
      rw [List.drop_left]
      rw [ih ((b :: rest).drop (decodeRune (b :: rest)).2).length
        (by simp only [List.length_drop, List.length_cons] at *; omega) _ rfl]
      rw [List.append_assoc, List.take_append_drop]

/-- whenever `InspectSymbol` quotes the name, the lexer reads the name back — for every byte string -/
theorem readSymbol_quoted (U : Cls) (name : Bytes)
    (hq : (symLoop U { out := [], quotes := symInitQuotes U name, first := true } name).quotes = true) :
    readSymbol U (inspectSymbol U name) = some name := by
  have hs := symLoop_spec U name.length name rfl { out := [], quotes := symInitQuotes U name, first := true }
  simp only [inspectSymbol, inspectSymbolContent, hq, if_true, hs.1, List.nil_append, List.cons_append,
    readSymbol]
  simpa using readLoop_symBody U U.letter name.length name rfl []

end Elk.Inspect

namespace Elk.Inspect
open Elk.Utf8

/-- the inclusions between Go's Unicode classes that the bare (unquoted) form relies on -/
structure ClsOk (U : Cls) : Prop where
  letter_graphic : ∀ c, U.letter c = true → U.graphic c = true
  digit_graphic : ∀ c, U.digit c = true → U.graphic c = true
  digit_number : ∀ c, U.digit c = true → U.number c = true

/-- what a piece that does not force quotes looks like -/
theorem symForce_false' (U : Cls) (first : Bool) (b : UInt8) (rest : Bytes) (p : Nat × Nat)
    (hp : decodeRune (b :: rest) = p) (h : symForce U first p = false) :
    ValidScalar p.1 ∧ encodeRune p.1 = (b :: rest).take p.2 ∧ p.2 = (encodeRune p.1).length ∧
      symEscape p.1 = none ∧
      (p.1 = 0x5F ∨ (p.1 ≠ 0x5F ∧ ¬ (first = true ∧ U.digit p.1 = true) ∧ (U.digit p.1 = true ∨ U.letter p.1 = true))) := by
  have hc := decode_cases b rest
  rw [hp] at hc
  rcases hc with ⟨hinv, _⟩ | ⟨hv, henc, hlen⟩
  · exfalso
    rw [hinv] at h
    simp [symForce] at h
  · refine ⟨hv, henc, hlen, ?_⟩
    have hnot : ¬ (p.1 = runeError ∧ p.2 = 1) := by
      intro ⟨h1, h2⟩
      have := encodeRune_length_one p.1 (by omega)
      simp only [runeError] at h1; omega
    simp only [symForce] at h
    rw [if_neg hnot] at h
    cases hesc : symEscape p.1 with
    | some e => rw [hesc] at h; cases h
    | none =>
      rw [hesc] at h
      refine ⟨rfl, ?_⟩
      by_cases hus : p.1 = 0x5F
      · exact Or.inl hus
      · right
        rw [if_neg hus] at h
        refine ⟨hus, ?_, ?_⟩
        · intro ⟨hf, hd⟩; rw [hf, hd] at h; simp at h
        · cases hd : U.digit p.1 <;> cases hl : U.letter p.1 <;> simp [hd, hl] at h ⊢

theorem symForce_false (U : Cls) (first : Bool) (b : UInt8) (rest : Bytes)
    (h : symForce U first (decodeRune (b :: rest)) = false) :
    ValidScalar (decodeRune (b :: rest)).1 ∧
      encodeRune (decodeRune (b :: rest)).1 = (b :: rest).take (decodeRune (b :: rest)).2 ∧
      (decodeRune (b :: rest)).2 = (encodeRune (decodeRune (b :: rest)).1).length ∧
      symEscape (decodeRune (b :: rest)).1 = none ∧
      ((decodeRune (b :: rest)).1 = 0x5F ∨ ((decodeRune (b :: rest)).1 ≠ 0x5F ∧
        ¬ (first = true ∧ U.digit (decodeRune (b :: rest)).1 = true) ∧
        (U.digit (decodeRune (b :: rest)).1 = true ∨ U.letter (decodeRune (b :: rest)).1 = true))) :=
  symForce_false' U first b rest _ rfl h

theorem symWrite_plain (U : Cls) (ok : ClsOk U) (first : Bool) (b : UInt8) (rest : Bytes)
    (h : symForce U first (decodeRune (b :: rest)) = false) :
    symWrite U b (decodeRune (b :: rest)) = (b :: rest).take (decodeRune (b :: rest)).2 := by
  obtain ⟨hv, henc, hlen, hesc, hcls⟩ := symForce_false U first b rest h
  have hnot : ¬ ((decodeRune (b :: rest)).1 = runeError ∧ (decodeRune (b :: rest)).2 = 1) := by
    intro ⟨h1, h2⟩
    have := encodeRune_length_one (decodeRune (b :: rest)).1 (by omega)
    simp [runeError] at h1; omega
  simp only [symWrite, hnot, if_false, hesc]
  rcases hcls with hus | ⟨hus, _, hdl⟩
  · simp only [hus, if_true]
    rw [← henc, hus]; decide
  · have hg : U.graphic (decodeRune (b :: rest)).1 = true := by
      rcases hdl with hd | hl
      · exact ok.digit_graphic _ hd
      · exact ok.letter_graphic _ hl
    simp only [hus, if_false, hg, if_true, henc]

/-- a name that never forces quotes is written verbatim -/
theorem symBody_plain (U : Cls) (ok : ClsOk U) : ∀ (n : Nat) (bs : Bytes), bs.length = n → ∀ first : Bool,
    anyForce U first bs = false → symBody U bs = bs := by
  intro n
  induction n using Nat.strongRecOn with
  | _ n ih =>
    intro bs hn first h
    cases bs with
    | nil => exact symBody_nil U
    | cons b rest =>
      have h1 := decodeRune_width_pos (b :: rest) (by simp)
      rw [anyForce_cons, Bool.or_eq_false_iff] at h
      rw [symBody_cons, symWrite_plain U ok first b rest h.1,
        ih _ (by simp only [List.length_drop, List.length_cons] at *; omega) _ rfl false h.2,
        List.take_append_drop]

theorem identRun_nil (U : Cls) : identRun U [] = 0 := by rw [identRun]
theorem identRun_cons (U : Cls) (b : UInt8) (rest : Bytes) :
    identRun U (b :: rest) = if identChar U (decodeRune (b :: rest)).1 = true then
      (decodeRune (b :: rest)).2 + identRun U ((b :: rest).drop (decodeRune (b :: rest)).2) else 0 := by
  rw [identRun]

/-- … and is one run of identifier characters -/
theorem identRun_plain (U : Cls) (ok : ClsOk U) : ∀ (n : Nat) (bs : Bytes), bs.length = n →
    anyForce U false bs = false → identRun U bs = bs.length := by
  intro n
  induction n using Nat.strongRecOn with
  | _ n ih =>
    intro bs hn h
    cases bs with
    | nil => simp [identRun_nil]
    | cons b rest =>
      have h1 := decodeRune_width_pos (b :: rest) (by simp)
      have h2 := decodeRune_width_le (b :: rest)
      rw [anyForce_cons, Bool.or_eq_false_iff] at h
      obtain ⟨_, _, _, _, hcls⟩ := symForce_false U false b rest h.1
      have hid : identChar U (decodeRune (b :: rest)).1 = true := by
        unfold identChar
        rcases hcls with hus | ⟨_, _, hd | hl⟩
        · simp [hus]
        · simp [ok.digit_number _ hd]
        · simp [hl]
      rw [identRun_cons, if_pos hid,
        ih _ (by simp only [List.length_drop, List.length_cons] at *; omega) _ rfl h.2]
      simp only [List.length_drop, List.length_cons] at *
      omega

end Elk.Inspect

namespace Elk.Inspect
open Elk.Utf8

theorem symInitQuotes_false (U : Cls) (name : Bytes) (h : symInitQuotes U name = false) :
    ∃ b rest, name = b :: rest ∧ (b = 0x5F → rest = [] ∨
      (U.upper (decodeRune rest).1 = true ∨ U.lower (decodeRune rest).1 = true)) := by
  cases name with
  | nil => simp [symInitQuotes] at h
  | cons b rest =>
    refine ⟨b, rest, rfl, ?_⟩
    intro hb
    simp only [symInitQuotes, hb, if_true] at h
    cases rest with
    | nil => exact Or.inl rfl
    | cons r rs =>
      right
      simp only [] at h
      cases hu : U.upper (decodeRune (r :: rs)).1 <;> cases hl : U.lower (decodeRune (r :: rs)).1 <;> simp [hu, hl] at h ⊢

/-- the bare form `:name` is read back as one identifier token -/
theorem readSymbol_bare (U : Cls) (ok : ClsOk U) (name : Bytes)
    (hq : (symLoop U { out := [], quotes := symInitQuotes U name, first := true } name).quotes = false) :
    readSymbol U (inspectSymbol U name) = some name := by
  have hs := symLoop_spec U name.length name rfl { out := [], quotes := symInitQuotes U name, first := true }
  have hout0 : inspectSymbol U name = 0x3A :: symBody U name := by
    simp only [inspectSymbol, inspectSymbolContent, hq, hs.1]
    simp
  rw [hs.2, Bool.or_eq_false_iff] at hq
  obtain ⟨hinit, hforce⟩ := hq
  simp only [] at hinit hforce
  have hbody := symBody_plain U ok name.length name rfl true hforce
  rw [hout0, hbody]
  obtain ⟨b, rest, rfl, hus⟩ := symInitQuotes_false U name hinit
  rw [anyForce_cons, Bool.or_eq_false_iff] at hforce
  obtain ⟨hv, henc, hlen, hesc, hcls⟩ := symForce_false U true b rest hforce.1
  have hw1 := decodeRune_width_pos (b :: rest) (by simp)
  have hw2 := decodeRune_width_le (b :: rest)
  have hb22 : b ≠ 0x22 := by
    intro hb
    rw [hb, decode_lit _ _ (by decide)] at hesc
    revert hesc; decide
  have hident : identToken U (b :: rest) = some (b :: rest).length := by
    unfold identToken
    have hne : ¬ (decodeRune (b :: rest)).2 = 0 := by omega
    rw [if_neg hne]
    rcases hcls with hc | ⟨hc, hnd, hdl⟩
    · -- the name starts with `_`
      have h5f : encodeRune (decodeRune (b :: rest)).1 = [0x5F] := by rw [hc]; decide
      have hp2 : (decodeRune (b :: rest)).2 = 1 := by rw [hlen, h5f]; rfl
      have hb : b = 0x5F := by
        rw [h5f, hp2] at henc
        simp at henc; exact henc.symm
      rw [if_pos hc]
      simp only [List.drop_succ_cons, List.drop_zero]
      rw [hp2] at hforce
      simp only [List.drop_succ_cons, List.drop_zero] at hforce
      rcases hus hb with hr | hul
      · subst hr
        simp [decodeRune]
      · cases rest with
        | nil => simp [decodeRune]
        | cons r rs =>
          have hq1 := decodeRune_width_pos (r :: rs) (by simp)
          have hq2 := decodeRune_width_le (r :: rs)
          have hcond : (decodeRune (r :: rs)).2 ≠ 0 ∧
              (U.upper (decodeRune (r :: rs)).1 = true ∨ U.lower (decodeRune (r :: rs)).1 = true) := ⟨by omega, hul⟩
          rw [if_pos hcond]
          have hf2 := hforce.2
          rw [anyForce_cons, Bool.or_eq_false_iff] at hf2
          have hdrop : (b :: r :: rs).drop (1 + (decodeRune (r :: rs)).2) = (r :: rs).drop (decodeRune (r :: rs)).2 := by
            rw [Nat.add_comm]; rfl
          rw [hdrop, identRun_plain U ok _ _ rfl hf2.2]
          simp only [List.length_drop, List.length_cons] at *
          congr 1; omega
    · have hnd' : U.digit (decodeRune (b :: rest)).1 = false := by
        cases hd : U.digit (decodeRune (b :: rest)).1
        · rfl
        · exact absurd ⟨rfl, hd⟩ hnd
      have hl : U.letter (decodeRune (b :: rest)).1 = true := by
        rcases hdl with hd | hl
        · rw [hd] at hnd'; cases hnd'
        · exact hl
      rw [if_neg hc, if_pos hl, identRun_plain U ok _ _ rfl hforce.2]
      simp only [List.length_drop, List.length_cons] at *
      congr 1; omega
  simp [readSymbol, hb22, hident]

/-- **Symbol round trip** -/
theorem readSymbol_inspectSymbol (U : Cls) (ok : ClsOk U) (name : Bytes) :
    readSymbol U (inspectSymbol U name) = some name := by
  cases hq : (symLoop U { out := [], quotes := symInitQuotes U name, first := true } name).quotes with
  | true => exact readSymbol_quoted U name hq
  | false => exact readSymbol_bare U ok name hq

end Elk.Inspect
