import ElkVerif.Model.FloatInspect
import ElkVerif.Proofs.Inspect
/-! C19, floats: the lexer accepts every text of the `%g` / `%.1f` shape as one float token whose
lexeme is the text; round trip under strconv's contract. -/
namespace Elk.FloatInspect
open Elk.Utf8 Elk.Inspect

def digs (ds : List Nat) : Bytes := ds.map digitByte

/-- a tail at which `consumeDigits 10` stops without consuming anything -/
def Stops (tail : Bytes) : Prop := ∀ b t, tail = b :: t → b ≠ 0x5F ∧ digitSet 10 b = false

theorem consumeDigits_tail : ∀ (ds : List Nat) (fuel : Nat) (tail : Bytes), ds.length < fuel →
    (∀ d ∈ ds, d < 10) → Stops tail → consumeDigits 10 fuel (digs ds ++ tail) = (digs ds, tail) := by
  intro ds
  induction ds with
  | nil =>
    intro fuel tail hf _ hs
    cases fuel with
    | zero => omega
    | succ f =>
      cases tail with
      | nil => simp [digs, consumeDigits]
      | cons b t =>
        obtain ⟨h1, h2⟩ := hs b t rfl
        simp [digs, consumeDigits, h1, h2]
  | cons d t ih =>
    intro fuel tail hf h hs
    cases fuel with
    | zero => omega
    | succ f =>
      have hd : d < 10 := h d (by simp)
      have hset := digitSet_digitByte 10 d (by simp [LitBase]) hd
      have hne := digitByte_ne_us d (by omega)
      have iht := ih f tail (by simp at hf; omega) (fun x hx => h x (by simp [hx])) hs
      simp only [digs, List.map_cons, List.cons_append] at iht ⊢
      simp [consumeDigits, hne, hset, iht]

theorem isDec_digitByte (d : Nat) (h : d < 10) : isDec (digitByte d) = true := by
  have : ∀ d : Fin 10, isDec (digitByte d.val) = true := by decide
  exact this ⟨d, h⟩

end Elk.FloatInspect

namespace Elk.FloatInspect
open Elk.Utf8 Elk.Inspect

/-- optional fraction `.ddd` -/
def fracBytes : Option (Nat × List Nat) → Bytes
  | none => []
  | some (f0, fs) => 0x2E :: digs (f0 :: fs)

/-- exponent sign as Go prints it -/
def signBytes : Option Bool → Bytes
  | none => []
  | some true => [0x2B]
  | some false => [0x2D]

/-- optional exponent `e±dd` -/
def expBytes : Option (Option Bool × Nat × List Nat) → Bytes
  | none => []
  | some (sg, e0, es) => 0x65 :: (signBytes sg ++ digs (e0 :: es))

def fracOk : Option (Nat × List Nat) → Prop
  | none => True
  | some (f0, fs) => f0 < 10 ∧ ∀ d ∈ fs, d < 10

def expOk : Option (Option Bool × Nat × List Nat) → Prop
  | none => True
  | some (_, e0, es) => e0 < 10 ∧ ∀ d ∈ es, d < 10

/-- suffix tails: nothing, `f64`, `f32` -/
def IsSuffix (suf : Bytes) : Prop := suf = [] ∨ suf = [0x66, 0x36, 0x34] ∨ suf = [0x66, 0x33, 0x32]

theorem stops_suffix (suf : Bytes) (h : IsSuffix suf) : Stops suf := by
  intro b t hb
  rcases h with h | h | h <;> subst h
  · cases hb
  · injection hb with h1 _; subst h1; decide
  · injection hb with h1 _; subst h1; decide

theorem stops_exp (E : Option (Option Bool × Nat × List Nat)) (suf : Bytes) (h : IsSuffix suf) :
    Stops (expBytes E ++ suf) := by
  cases E with
  | none => simpa [expBytes] using stops_suffix suf h
  | some e =>
    intro b t hb
    simp only [expBytes, List.cons_append] at hb
    injection hb with h1 _; subst h1; decide

theorem stops_frac (Fr : Option (Nat × List Nat)) (E : Option (Option Bool × Nat × List Nat)) (suf : Bytes)
    (h : IsSuffix suf) : Stops (fracBytes Fr ++ (expBytes E ++ suf)) := by
  cases Fr with
  | none => simpa [fracBytes] using stops_exp E suf h
  | some f =>
    intro b t hb
    simp only [fracBytes, List.cons_append] at hb
    injection hb with h1 _; subst h1; decide

theorem fracStage_spec (lex1 : Bytes) (Fr : Option (Nat × List Nat)) (hF : fracOk Fr) (tail : Bytes)
    (hs : Stops tail) (htail : ∀ b t, tail = b :: t → b ≠ 0x2E) :
    fracStage lex1 (fracBytes Fr ++ tail) = (lex1 ++ fracBytes Fr, tail, Fr.isSome) := by
  cases Fr with
  | none =>
    simp only [fracBytes, List.nil_append, List.append_nil, Option.isSome_none]
    unfold fracStage
    split
    · rename_i dot nx t
      have := htail dot (nx :: t) rfl
      simp [this]
    · rfl
  | some f =>
    obtain ⟨f0, fs⟩ := f
    obtain ⟨h0, hfs⟩ := hF
    have hc := consumeDigits_tail (f0 :: fs) ((digs fs ++ tail).length + 2) tail
      (by simp [digs]; omega)
      (by intro d hd; rcases List.mem_cons.mp hd with rfl | hd; exact h0; exact hfs d hd) hs
    simp only [digs, List.map_cons, List.cons_append] at hc
    simp only [fracBytes, digs, List.map_cons, List.cons_append, fracStage, isDec_digitByte f0 h0,
      and_self, if_true, hc, Option.isSome_some]
    simp

theorem expStage_spec (lex2 : Bytes) (isF : Bool) (E : Option (Option Bool × Nat × List Nat)) (hE : expOk E)
    (suf : Bytes) (hsuf : IsSuffix suf) :
    expStage lex2 (expBytes E ++ suf) isF = (lex2 ++ expBytes E, suf, isF || E.isSome) := by
  cases E with
  | none =>
    simp only [expBytes, List.nil_append, List.append_nil, Option.isSome_none, Bool.or_false]
    rcases hsuf with h | h | h <;> subst h <;> simp [expStage] <;> decide
  | some e =>
    obtain ⟨sg, e0, es⟩ := e
    obtain ⟨h0, hes⟩ := hE
    have hstop := stops_suffix suf hsuf
    have hc := fun fuel hf => consumeDigits_tail (e0 :: es) fuel suf hf
      (by intro d hd; rcases List.mem_cons.mp hd with rfl | hd; exact h0; exact hes d hd) hstop
    have hne1 : digitByte e0 ≠ 0x2B := by
      have : ∀ d : Fin 10, digitByte d.val ≠ 0x2B := by decide
      exact this ⟨e0, h0⟩
    have hne2 : digitByte e0 ≠ 0x2D := by
      have : ∀ d : Fin 10, digitByte d.val ≠ 0x2D := by decide
      exact this ⟨e0, h0⟩
    simp only [digs, List.map_cons, List.cons_append] at hc
    cases sg with
    | none =>
      simp [expBytes, signBytes, digs, expStage, hne1, hne2]
      rw [hc _ (by simp only [List.length_cons]; omega)]; simp
    | some b =>
      cases b with
      | true =>
        simp [expBytes, signBytes, digs, expStage]
        rw [hc _ (by simp only [List.length_cons]; omega)]; simp
      | false =>
        simp [expBytes, signBytes, digs, expStage]
        rw [hc _ (by simp only [List.length_cons]; omega)]; simp

end Elk.FloatInspect

namespace Elk.FloatInspect
open Elk.Utf8 Elk.Inspect

theorem headOk_suffix (suf : Bytes) (h : IsSuffix suf) : HeadOk suf := by
  intro b t hb
  rcases h with h | h | h <;> subst h
  · cases hb
  · injection hb with h1 _; subst h1; unfold NotPrefixLetter; decide
  · injection hb with h1 _; subst h1; unfold NotPrefixLetter; decide

theorem headOk_tail1 (I : List Nat) (hI : ∀ d ∈ I, d < 10) (Fr : Option (Nat × List Nat))
    (E : Option (Option Bool × Nat × List Nat)) (suf : Bytes) (h : IsSuffix suf) :
    HeadOk (digs I ++ (fracBytes Fr ++ (expBytes E ++ suf))) := by
  intro b t hb
  cases I with
  | cons d ds =>
    simp only [digs, List.map_cons, List.cons_append] at hb
    injection hb with h1 _; subst h1
    exact notPrefix_digit d (hI d (by simp))
  | nil =>
    simp only [digs, List.map_nil, List.nil_append] at hb
    cases Fr with
    | some f =>
      simp only [fracBytes, List.cons_append] at hb
      injection hb with h1 _; subst h1; unfold NotPrefixLetter; decide
    | none =>
      simp only [fracBytes, List.nil_append] at hb
      cases E with
      | some e =>
        simp only [expBytes, List.cons_append] at hb
        injection hb with h1 _; subst h1; unfold NotPrefixLetter; decide
      | none =>
        simp only [expBytes, List.nil_append] at hb
        exact headOk_suffix suf h b t hb

theorem not2E_tail2 (E : Option (Option Bool × Nat × List Nat)) (suf : Bytes) (h : IsSuffix suf) :
    ∀ b t, expBytes E ++ suf = b :: t → b ≠ 0x2E := by
  intro b t hb
  cases E with
  | some e =>
    simp only [expBytes, List.cons_append] at hb
    injection hb with h1 _; subst h1; decide
  | none =>
    simp only [expBytes, List.nil_append] at hb
    rcases h with h | h | h <;> subst h
    · cases hb
    · injection hb with h1 _; subst h1; decide
    · injection hb with h1 _; subst h1; decide

/-- token type of a rendered number -/
def tokFor (Fr : Option (Nat × List Nat)) (E : Option (Option Bool × Nat × List Nat)) (suf : Bytes) : NumTok :=
  if suf = [] then (if Fr.isSome || E.isSome then .float else .int)
  else if suf = [0x66, 0x36, 0x34] then .float64 else .float32

/-- **the lexer accepts every `%g` / `%.1f` shaped text** (integer digits, optional `.digits`,
optional `e[+-]digits`, optional `f64`/`f32`) as one token whose lexeme is the text without suffix -/
theorem lexNumber_render (i0 : Nat) (I : List Nat) (h0 : i0 < 10) (hI : ∀ d ∈ I, d < 10)
    (Fr : Option (Nat × List Nat)) (hF : fracOk Fr) (E : Option (Option Bool × Nat × List Nat)) (hE : expOk E)
    (suf : Bytes) (hsuf : IsSuffix suf) :
    lexNumber (digs (i0 :: I) ++ (fracBytes Fr ++ (expBytes E ++ suf))) =
      some (tokFor Fr E suf, digs (i0 :: I) ++ fracBytes Fr ++ expBytes E) := by
  have hpre := lexPre_none (digitByte i0) _ (headOk_tail1 I hI Fr E suf hsuf)
  have hc := consumeDigits_tail I ((digs I ++ (fracBytes Fr ++ (expBytes E ++ suf))).length + 1) _
    (by simp [digs]; omega) hI (stops_frac Fr E suf hsuf)
  have hfs := fracStage_spec (digitByte i0 :: digs I) Fr hF (expBytes E ++ suf) (stops_exp E suf hsuf)
    (not2E_tail2 E suf hsuf)
  have hes := expStage_spec (digitByte i0 :: digs I ++ fracBytes Fr) Fr.isSome E hE suf hsuf
  simp only [digs, List.map_cons, List.cons_append] at *
  simp only [lexNumber, isDec_digitByte i0 h0, not_true_eq_false, if_false, hpre, Option.isSome_none,
    Bool.false_eq_true, hc, hfs, hes]
  unfold tokFor
  rcases hsuf with h | h | h <;> subst h <;> simp

end Elk.FloatInspect

namespace Elk.FloatInspect
open Elk.Utf8 Elk.Inspect

/-- the text `inspect` prints for a finite float, before the kind suffix -/
def finiteText {F : Type} (S : Strconv F) (k : Kind) (x : F) : Bytes :=
  if k = .float ∧ S.isInt x = true then S.fmtF1 x else S.fmtG x

/-- **strconv's contract for one value** (hypothesis, exercised by the correspondence run):
the printed text is an optional `-` followed by digits, optional `.digits`, optional `e±digits`;
for `Float` it contains a `.` or an exponent (`%.1f`, and `%g` of a non-integer); parsing the
magnitude and re-applying the sign gives the value back (shortest-round-trip formatting). -/
def StrconvContract {F : Type} (S : Strconv F) (k : Kind) (x : F) : Prop :=
  ∃ (negv : Bool) (i0 : Nat) (I : List Nat) (Fr : Option (Nat × List Nat)) (E : Option (Option Bool × Nat × List Nat)) (y : F),
    i0 < 10 ∧ (∀ d ∈ I, d < 10) ∧ fracOk Fr ∧ expOk E ∧
    finiteText S k x = (if negv then [0x2D] else []) ++ (digs (i0 :: I) ++ fracBytes Fr ++ expBytes E) ∧
    (k = .float → (Fr.isSome || E.isSome) = true) ∧
    S.parse (digs (i0 :: I) ++ fracBytes Fr ++ expBytes E) = some y ∧
    (if negv then S.neg y else y) = x

theorem suffix_isSuffix (k : Kind) : IsSuffix (suffix k) := by
  cases k <;> simp [suffix, IsSuffix]

theorem tokFor_kind (k : Kind) (Fr : Option (Nat × List Nat)) (E : Option (Option Bool × Nat × List Nat))
    (h : k = .float → (Fr.isSome || E.isSome) = true) : tokFor Fr E (suffix k) = tokOf k := by
  cases k with
  | float => simp [tokFor, suffix, tokOf, h rfl]
  | float64 => simp [tokFor, suffix, tokOf]
  | float32 => simp [tokFor, suffix, tokOf]

/-- **Float round trip** for finite values, under strconv's contract -/
theorem readFinite_inspectFloat {F : Type} (S : Strconv F) (k : Kind) (x : F)
    (hn : S.isNaN x = false) (hp : S.isPosInf x = false) (hm : S.isNegInf x = false)
    (hc : StrconvContract S k x) :
    readFinite S k (inspectFloat S k x) = some x := by
  obtain ⟨negv, i0, I, Fr, E, y, h0, hI, hF, hE, htext, hkind, hparse, hsign⟩ := hc
  have hins : inspectFloat S k x = finiteText S k x ++ suffix k := by
    unfold inspectFloat finiteText
    simp only [hn, hp, hm, Bool.false_eq_true, if_false]
    split
    · rename_i h; simp [h.1, suffix]
    · rfl
  have hlex := lexNumber_render i0 I h0 hI Fr hF E hE (suffix k) (suffix_isSuffix k)
  rw [tokFor_kind k Fr E hkind] at hlex
  have hbody : (digs (i0 :: I) ++ fracBytes Fr ++ expBytes E) ++ suffix k =
      digs (i0 :: I) ++ (fracBytes Fr ++ (expBytes E ++ suffix k)) := by simp [List.append_assoc]
  rw [hins, htext]
  cases negv with
  | true =>
    simp only [if_true, List.cons_append, List.nil_append, readFinite]
    rw [hbody, hlex]
    simp only [if_true, hparse, Option.map_some]
    simpa using hsign
  | false =>
    have hne : digitByte i0 ≠ 0x2D := by
      have : ∀ d : Fin 10, digitByte d.val ≠ 0x2D := by decide
      exact this ⟨i0, h0⟩
    simp only [Bool.false_eq_true, if_false, List.nil_append] at hsign ⊢
    rw [hbody]
    have hcons : digs (i0 :: I) ++ (fracBytes Fr ++ (expBytes E ++ suffix k)) =
        digitByte i0 :: (digs I ++ (fracBytes Fr ++ (expBytes E ++ suffix k))) := by simp [digs]
    rw [hcons] at hlex ⊢
    simp only [readFinite, hne, if_false, hlex, if_true, hparse, hsign]

end Elk.FloatInspect
