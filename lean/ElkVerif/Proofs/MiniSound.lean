import ElkVerif.Model.Mini.Types
namespace Elk.Mini

/-- what a well-typed expression may evaluate to: a value of its type, the (unchecked)
ZeroDivisionError, or out of fuel — never `stuck`, `break`, `continue`, `return`; and, in this
assignment-free fragment, the state is unchanged -/
def Good (t : STy) (s : St) : Out × St → Prop
  | (.val v, s') => v.hasTy t = true ∧ s' = s
  | (.thrw .zde, s') => s' = s
  | (.timeout, _) => True
  | _ => False

theorem good_val {t s v s'} (h : Good t s (.val v, s')) : v.hasTy t = true ∧ s' = s := h

theorem hasTy_int {v : Val} (h : v.hasTy (.base .int) = true) : ∃ n, v = .int n := by
  cases v <;> simp_all [Val.hasTy, Val.hasBase]

theorem hasTy_bool {v : Val} (h : v.hasTy (.base .bool) = true) : ∃ b, v = .bool b := by
  cases v <;> simp_all [Val.hasTy, Val.hasBase]

theorem hasTy_str {v : Val} (h : v.hasTy (.base .str) = true) : ∃ b, v = .str b := by
  cases v <;> simp_all [Val.hasTy, Val.hasBase]

theorem binop_sound (op : BinOp) (ta tb t : STy) (va vb : Val) (s : St)
    (hc : checkBin op ta tb = some t) (ha : va.hasTy ta = true) (hb : vb.hasTy tb = true) :
    Good t s (binop op va vb, s) := by
  cases op
  case eq => simp [checkBin] at hc; subst hc; simp [binop, Good, Val.hasTy, Val.hasBase]
  case ne => simp [checkBin] at hc; subst hc; simp [binop, Good, Val.hasTy, Val.hasBase]
  all_goals
    cases ta <;> try (simp [checkBin] at hc)
    rename_i ba
    cases ba <;> try (simp [checkBin] at hc)
    all_goals
      cases tb <;> try (simp [checkBin] at hc)
      rename_i bb
      cases bb <;> try (simp [checkBin] at hc)
      all_goals
        subst hc
        first
          | (obtain ⟨x, rfl⟩ := hasTy_int ha
             obtain ⟨y, rfl⟩ := hasTy_int hb
             simp only [binop]
             by_cases hy : y = 0 <;> simp [hy, Good, Val.hasTy, Val.hasBase])
          | (obtain ⟨x, rfl⟩ := hasTy_str ha
             obtain ⟨y, rfl⟩ := hasTy_str hb
             simp [binop, Good, Val.hasTy, Val.hasBase])

theorem lookup_sound {g : TEnv} {env : Env} {s : St} (hok : EnvOk g env s) {x : String} {t : STy}
    (h : lookupTy g x = some t) (defs : List Def) (n : Nat) :
    Good t s (evalExpr defs (n + 1) env s (.var x)) := by
  obtain ⟨i, v, hl, hr, ht⟩ := hok x t h
  simp [evalExpr, hl, hr, Good, ht]

end Elk.Mini

namespace Elk.Mini

theorem good_timeout_zero (defs : List Def) (env : Env) (s : St) (e : Expr) (t : STy) :
    Good t s (evalExpr defs 0 env s e) := by
  simp [evalExpr, Good]

/-- **Soundness of the expression fragment (stage A).** A well-typed expression, evaluated in
an environment/store that agrees with the typing context, yields a value of its static type,
the unchecked ZeroDivisionError, or runs out of fuel — for every fuel. It is never `stuck`. -/
theorem expr_sound (defs : List Def) (g : TEnv) (env : Env) (s : St) (hok : EnvOk g env s) :
    ∀ (n k : Nat) (e : Expr) (t : STy), check g k e = some t → Good t s (evalExpr defs n env s e) := by
  intro n
  induction n with
  | zero => intro k e t _; exact good_timeout_zero defs env s e t
  | succ n ih =>
    intro k e t hc
    cases k with
    | zero => simp [check] at hc
    | succ k =>
      cases e with
      | int v => simp [check] at hc; subst hc; simp [evalExpr, Good, Val.hasTy, Val.hasBase]
      | bool v => simp [check] at hc; subst hc; simp [evalExpr, Good, Val.hasTy, Val.hasBase]
      | str v => simp [check] at hc; subst hc; simp [evalExpr, Good, Val.hasTy, Val.hasBase]
      | nil => simp [check] at hc; subst hc; simp [evalExpr, Good, Val.hasTy]
      | var x => simp [check] at hc; exact lookup_sound hok hc defs n
      | bin op a b =>
        simp only [check] at hc
        cases hca : check g k a with
        | none => simp [hca] at hc
        | some ta =>
          cases hcb : check g k b with
          | none => simp [hca, hcb] at hc
          | some tb =>
            simp [hca, hcb] at hc
            have iha := ih k a ta hca
            have ihb := ih k b tb hcb
            simp only [evalExpr]
            cases hea : evalExpr defs n env s a with
            | mk oa sa =>
              rw [hea] at iha
              cases oa with
              | val va =>
                obtain ⟨hta, rfl⟩ := good_val iha
                dsimp only
                cases heb : evalExpr defs n env sa b with
                | mk ob sb =>
                  rw [heb] at ihb
                  cases ob with
                  | val vb =>
                    obtain ⟨htb, rfl⟩ := good_val ihb
                    exact binop_sound op ta tb t va vb sb hc hta htb
                  | thrw v => cases v <;> simp_all [Good]
                  | timeout => simp [Good]
                  | _ => simp [Good] at ihb
              | thrw v => cases v <;> simp_all [Good]
              | timeout => simp [Good]
              | _ => simp [Good] at iha
      | un op a =>
        cases op with
        | neg =>
          simp only [check] at hc
          cases hca : check g k a with
          | none => simp [hca] at hc
          | some ta =>
            cases ta with
            | base b =>
              cases b <;> simp [hca] at hc
              subst hc
              have iha := ih k a _ hca
              simp only [evalExpr]
              cases hea : evalExpr defs n env s a with
              | mk oa sa =>
                rw [hea] at iha
                cases oa with
                | val va =>
                  obtain ⟨hta, rfl⟩ := good_val iha
                  obtain ⟨x, rfl⟩ := hasTy_int hta
                  simp [unop, Good, Val.hasTy, Val.hasBase]
                | thrw v => cases v <;> simp_all [Good]
                | timeout => simp [Good]
                | _ => simp [Good] at iha
            | nil => simp [hca] at hc
            | opt b => simp [hca] at hc
        | not =>
          simp only [check] at hc
          cases hca : check g k a with
          | none => simp [hca] at hc
          | some ta =>
            simp [hca] at hc
            subst hc
            have iha := ih k a _ hca
            simp only [evalExpr]
            cases hea : evalExpr defs n env s a with
            | mk oa sa =>
              rw [hea] at iha
              cases oa with
              | val va =>
                obtain ⟨hta, rfl⟩ := good_val iha
                simp [unop, Good, Val.hasTy, Val.hasBase]
              | thrw v => cases v <;> simp_all [Good]
              | timeout => simp [Good]
              | _ => simp [Good] at iha
      | and a b =>
        simp only [check] at hc
        cases hca : check g k a with
        | none => simp [hca] at hc
        | some ta =>
          cases hcb : check g k b with
          | none => cases ta <;> simp [hca, hcb] at hc <;> (rename_i x; cases x <;> simp at hc)
          | some tb =>
            have hta : ta = .base .bool := by
              cases ta <;> simp [hca, hcb] at hc
              rename_i x; cases x <;> simp at hc ⊢
            have htb : tb = .base .bool := by
              subst hta
              cases tb <;> simp [hca, hcb] at hc
              rename_i x; cases x <;> simp at hc ⊢
            subst hta; subst htb
            simp [hca, hcb] at hc; subst hc
            have iha := ih k a _ hca
            have ihb := ih k b _ hcb
            simp only [evalExpr]
            cases hea : evalExpr defs n env s a with
            | mk oa sa =>
              rw [hea] at iha
              cases oa with
              | val va =>
                obtain ⟨hta, rfl⟩ := good_val iha
                by_cases htr : va.truthy = true
                · simp [htr]; exact ihb
                · simp [htr, Good, hta]
              | thrw v => cases v <;> simp_all [Good]
              | timeout => simp [Good]
              | _ => simp [Good] at iha
      | or a b =>
        simp only [check] at hc
        cases hca : check g k a with
        | none => simp [hca] at hc
        | some ta =>
          cases hcb : check g k b with
          | none => cases ta <;> simp [hca, hcb] at hc <;> (rename_i x; cases x <;> simp at hc)
          | some tb =>
            have hta : ta = .base .bool := by
              cases ta <;> simp [hca, hcb] at hc
              rename_i x; cases x <;> simp at hc ⊢
            have htb : tb = .base .bool := by
              subst hta
              cases tb <;> simp [hca, hcb] at hc
              rename_i x; cases x <;> simp at hc ⊢
            subst hta; subst htb
            simp [hca, hcb] at hc; subst hc
            have iha := ih k a _ hca
            have ihb := ih k b _ hcb
            simp only [evalExpr]
            cases hea : evalExpr defs n env s a with
            | mk oa sa =>
              rw [hea] at iha
              cases oa with
              | val va =>
                obtain ⟨hta, rfl⟩ := good_val iha
                by_cases htr : va.truthy = true
                · simp [htr, Good, hta]
                · simp [htr]; exact ihb
              | thrw v => cases v <;> simp_all [Good]
              | timeout => simp [Good]
              | _ => simp [Good] at iha
      | nilco a b =>
        simp only [check] at hc
        cases hca : check g k a with
        | none => simp [hca] at hc
        | some ta =>
          cases hcb : check g k b with
          | none => cases ta <;> simp [hca, hcb] at hc
          | some tb =>
            cases ta with
            | base x => simp [hca, hcb] at hc
            | nil => simp [hca, hcb] at hc
            | opt x =>
              cases tb with
              | nil => simp [hca, hcb] at hc
              | opt y => simp [hca, hcb] at hc
              | base y =>
                simp [hca, hcb] at hc
                obtain ⟨hxy, rfl⟩ := hc
                subst hxy
                have iha := ih k a _ hca
                have ihb := ih k b _ hcb
                simp only [evalExpr]
                cases hea : evalExpr defs n env s a with
                | mk oa sa =>
                  rw [hea] at iha
                  cases oa with
                  | val va =>
                    obtain ⟨hta, rfl⟩ := good_val iha
                    cases va <;> simp_all [Good, Val.hasTy, Val.hasBase]
                  | thrw v => cases v <;> simp_all [Good]
                  | timeout => simp [Good]
                  | _ => simp [Good] at iha
      | assign x e => simp [check] at hc
      | callDef f args => simp [check] at hc
      | callClo f args => simp [check] at hc
      | lam ps r body => simp [check] at hc

end Elk.Mini
