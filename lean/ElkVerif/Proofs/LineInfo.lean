import ElkVerif.Model.LineInfo
namespace Elk.LineInfo

theorem flat_append (a b : Table) : flat (a ++ b) = flat a ++ flat b := by
  induction a with
  | nil => simp [flat]
  | cons e rest ih => simp [flat, ih, List.append_assoc]

theorem getInfoFrom_flat (t : Table) (acc i : Int) (hp : Pos t) (h : acc ≤ i) :
    (getInfoFrom acc t i).map (·.line) = (flat t)[(i - acc).toNat]? := by
  induction t generalizing acc with
  | nil => simp [getInfoFrom, flat]
  | cons e rest ih =>
    have he : 1 ≤ e.count := hp e (by simp)
    have hr : Pos rest := fun x hx => hp x (by simp [hx])
    simp only [getInfoFrom, flat]
    split
    · rename_i hc
      have : (i - acc).toNat < (List.replicate e.count.toNat e.line).length := by
        simp; omega
      rw [List.getElem?_append_left this]
      simp [List.getElem?_replicate]; omega
    · rename_i hc
      have hlen : (List.replicate e.count.toNat e.line).length ≤ (i - acc).toNat := by
        simp; omega
      rw [List.getElem?_append_right hlen, ih (acc + e.count) hr (by omega)]
      congr 1
      simp; omega

theorem modifyLast_append_singleton (f : Entry → Entry) (t : Table) (e : Entry) :
    modifyLast f (t ++ [e]) = t ++ [f e] := by
  induction t with
  | nil => simp [modifyLast]
  | cons x rest ih =>
    cases rest with
    | nil => simp [modifyLast]
    | cons y ys =>
      simp only [List.cons_append] at ih ⊢
      simp [modifyLast, ih]

theorem replicate_add_toNat (c b : Int) (l : Int) (hc : 0 ≤ c) (hb : 0 ≤ b) :
    List.replicate (c + b).toNat l = List.replicate c.toNat l ++ List.replicate b.toNat l := by
  rw [List.replicate_append_replicate]; congr 1; omega

theorem pos_append (a b : Table) : Pos (a ++ b) ↔ Pos a ∧ Pos b := by
  simp [Pos, or_imp, forall_and]

end Elk.LineInfo
