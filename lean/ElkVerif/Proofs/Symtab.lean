import ElkVerif.Model.Symtab
/-! helper lemmas for C26 -/
namespace Elk.Symtab

/-- the two tables are inverse to each other -/
structure Inv (t : Tab) : Prop where
  idToName : ∀ (i : Nat) (n : String), t.idTable[i]? = some n → lookup t.nameTable n = some i
  nameToId : ∀ (n : String) (i : Nat), lookup t.nameTable n = some i → t.idTable[i]? = some n

theorem inv_init : Inv Tab.init := ⟨by simp [Tab.init], by simp [Tab.init, lookup]⟩

theorem lt_of_getElem? {α} {l : List α} {i : Nat} {a : α} (h : l[i]? = some a) : i < l.length := by
  obtain ⟨h, _⟩ := List.getElem?_eq_some_iff.mp h; exact h

theorem inv_add (t : Tab) (name : String) (h : Inv t) : Inv (add t name).1 := by
  unfold add
  cases hl : lookup t.nameTable name with
  | some id => exact h
  | none =>
    constructor
    · intro i n hi
      simp only at hi ⊢
      by_cases hlt : i < t.idTable.length
      · rw [List.getElem?_append_left hlt] at hi
        have := h.idToName i n hi
        simp only [lookup]
        have hne : name ≠ n := by intro e; subst e; rw [hl] at this; cases this
        simp [hne, this]
      · have : i = t.idTable.length := by have := lt_of_getElem? hi; simp at this; omega
        subst this
        simp at hi; subst hi
        simp [lookup]
    · intro n i hn
      simp only [lookup] at hn
      by_cases he : name = n
      · subst he
        simp at hn; subst hn
        simp
      · simp [he] at hn
        have := h.nameToId n i hn
        simp only
        rw [List.getElem?_append_left (lt_of_getElem? this)]; exact this

theorem inv_step (t : Tab) (op : Op) (h : Inv t) : Inv (step t op).1 := by
  cases op with
  | add n => exact inv_add t n h
  | get n => simp only [step]; split <;> exact h
  | getName i => simp only [step]; split <;> exact h
  | existsId i => exact h

/-- ids are never reassigned: the name table only grows -/
theorem lookup_add_stable (t : Tab) (name n : String) (i : Nat) (h : lookup t.nameTable n = some i) :
    lookup (add t name).1.nameTable n = some i := by
  unfold add
  cases hl : lookup t.nameTable name with
  | some id => exact h
  | none =>
    simp only [lookup]
    have hne : name ≠ n := by intro e; subst e; rw [hl] at h; cases h
    simp [hne, h]

theorem lookup_step_stable (t : Tab) (op : Op) (n : String) (i : Nat) (h : lookup t.nameTable n = some i) :
    lookup (step t op).1.nameTable n = some i := by
  cases op with
  | add m => exact lookup_add_stable t m n i h
  | get m => simp only [step]; split <;> exact h
  | getName j => simp only [step]; split <;> exact h
  | existsId j => exact h

theorem add_lookup (t : Tab) (name : String) : lookup (add t name).1.nameTable name = some (add t name).2 := by
  unfold add
  cases hl : lookup t.nameTable name with
  | some id => exact hl
  | none => simp [lookup]

theorem lookup_sched_stable (sched : List (Nat × Op)) : ∀ (t : Tab) (n : String) (i : Nat),
    lookup t.nameTable n = some i → lookup (runSched t sched).1.nameTable n = some i := by
  induction sched with
  | nil => intro t n i h; exact h
  | cons x rest ih =>
    intro t n i h
    obtain ⟨a, op⟩ := x
    simp only [runSched]
    exact ih _ n i (lookup_step_stable t op n i h)

theorem inv_sched (sched : List (Nat × Op)) : ∀ (t : Tab), Inv t → Inv (runSched t sched).1 := by
  induction sched with
  | nil => intro t h; exact h
  | cons x rest ih =>
    intro t h
    obtain ⟨a, op⟩ := x
    simp only [runSched]
    exact ih _ (inv_step t op h)

/-- what one step's answer claims is true of the table right after the step -/
theorem step_pair (t : Tab) (h : Inv t) (a : Nat) (op : Op) (n : String) (i : Nat)
    (hp : (n, i) ∈ pairsOf [⟨a, op, (step t op).2⟩]) : lookup (step t op).1.nameTable n = some i := by
  cases op with
  | add m =>
    simp only [step, pairsOf, List.mem_singleton, Prod.mk.injEq] at hp
    obtain ⟨rfl, rfl⟩ := hp
    exact add_lookup t n
  | get m =>
    simp only [step, get] at hp ⊢
    cases hl : lookup t.nameTable m with
    | none => simp [hl, pairsOf] at hp
    | some j =>
      simp only [hl, pairsOf, List.mem_singleton, Prod.mk.injEq] at hp ⊢
      obtain ⟨rfl, rfl⟩ := hp
      exact hl
  | getName j =>
    simp only [step] at hp ⊢
    cases hg : getName t j with
    | none => simp [hg, pairsOf] at hp
    | some s =>
      simp only [hg, pairsOf] at hp ⊢
      unfold getName at hg
      split at hg
      · cases hg
      · rename_i hc
        have hj : ¬ j < 0 := by omega
        simp only [hj, if_false, List.mem_singleton, Prod.mk.injEq] at hp
        obtain ⟨rfl, rfl⟩ := hp
        exact h.idToName _ _ hg
  | existsId j => simp [pairsOf] at hp

theorem pairsOf_cons (e : Event) (rest : List Event) : pairsOf (e :: rest) = pairsOf [e] ++ pairsOf rest := by
  obtain ⟨a, op, r⟩ := e
  cases op <;> cases r <;> simp [pairsOf] <;> split <;> simp

/-- every `(name, id)` pair a model history claims holds in the final table -/
theorem pairs_in_final (sched : List (Nat × Op)) : ∀ (t : Tab), Inv t → ∀ (n : String) (i : Nat),
    (n, i) ∈ pairsOf (runSched t sched).2 → lookup (runSched t sched).1.nameTable n = some i := by
  induction sched with
  | nil => intro t _ n i h; simp [runSched, pairsOf] at h
  | cons x rest ih =>
    intro t h n i hp
    obtain ⟨a, op⟩ := x
    simp only [runSched] at hp ⊢
    rw [pairsOf_cons, List.mem_append] at hp
    rcases hp with hp | hp
    · exact lookup_sched_stable rest _ n i (step_pair t h a op n i hp)
    · exact ih _ (inv_step t op h) n i hp


/-! ### the history checker -/

/-- the relation `okSym` certifies between any two claimed pairs -/
def Agree (p q : String × Nat) : Prop := p.1 = q.1 ↔ p.2 = q.2

theorem agreesWith_iff (n : String) (i : Nat) (ps : List (String × Nat)) :
    agreesWith n i ps = true ↔ ∀ q ∈ ps, Agree (n, i) q := by
  induction ps with
  | nil => simp [agreesWith]
  | cons q rest ih =>
    obtain ⟨m, j⟩ := q
    simp only [agreesWith, Bool.and_eq_true, ih, List.mem_cons, forall_eq_or_imp, Agree]
    constructor
    · rintro ⟨h1, h2⟩
      refine ⟨?_, h2⟩
      by_cases hn : n = m <;> by_cases hi : i = j <;> simp_all
    · rintro ⟨h1, h2⟩
      refine ⟨?_, h2⟩
      by_cases hn : n = m <;> by_cases hi : i = j <;> simp_all

theorem pairwiseOk_iff (ps : List (String × Nat)) :
    pairwiseOk ps = true ↔ ∀ p ∈ ps, ∀ q ∈ ps, Agree p q := by
  induction ps with
  | nil => simp [pairwiseOk]
  | cons p rest ih =>
    obtain ⟨n, i⟩ := p
    simp only [pairwiseOk, Bool.and_eq_true, agreesWith_iff, ih, List.mem_cons]
    constructor
    · rintro ⟨h1, h2⟩ p hp q hq
      rcases hp with rfl | hp <;> rcases hq with rfl | hq
      · simp [Agree]
      · exact h1 q hq
      · have := h1 p hp; simp only [Agree] at this ⊢; constructor <;> intro e <;> simp_all
      · exact h2 p hp q hq
    · intro h
      exact ⟨fun q hq => h _ (Or.inl rfl) q (Or.inr hq), fun p hp q hq => h p (Or.inr hp) q (Or.inr hq)⟩

/-- pairs that all hold in one table satisfying `Inv` agree pairwise -/
theorem agree_of_table (t : Tab) (h : Inv t) (p q : String × Nat)
    (hp : lookup t.nameTable p.1 = some p.2) (hq : lookup t.nameTable q.1 = some q.2) : Agree p q := by
  constructor
  · intro e; rw [e, hq] at hp; exact (Option.some.inj hp).symm
  · intro e
    have h1 := h.nameToId _ _ hp
    have h2 := h.nameToId _ _ hq
    rw [e, h2] at h1; exact (Option.some.inj h1).symm

theorem shapeOk_sched (sched : List (Nat × Op)) : ∀ (t : Tab), shapeOk (runSched t sched).2 = true := by
  induction sched with
  | nil => intro t; rfl
  | cons x rest ih =>
    intro t
    obtain ⟨a, op⟩ := x
    cases op with
    | add n => simp only [runSched, step, shapeOk]; exact ih _
    | get n =>
      simp only [runSched, step]
      cases hg : get t n <;> simp only [shapeOk] <;> exact ih _
    | getName j =>
      simp only [runSched, step]
      cases hg : getName t j with
      | none => simp only [shapeOk]; exact ih _
      | some s =>
        simp only [shapeOk, Bool.and_eq_true, decide_eq_true_eq]
        refine ⟨?_, ih _⟩
        unfold getName at hg; split at hg
        · cases hg
        · omega
    | existsId j => simp only [runSched, step, shapeOk]; exact ih _

/-- after `n ↦ i` is in the table no later event (by anyone) contradicts it -/
def NoContra (n : String) (i : Nat) (e : Event) : Bool :=
  match e.op, e.res with
  | .get m, .notFound => decide (m ≠ n)
  | .getName j, .notFound => decide (j ≠ i)
  | .existsId j, .bool false => decide (j ≠ i)
  | _, _ => true

theorem noContra_sched (n : String) (i : Nat) (sched : List (Nat × Op)) : ∀ (t : Tab), Inv t →
    lookup t.nameTable n = some i → (runSched t sched).2.all (NoContra n i) = true := by
  induction sched with
  | nil => intro t _ _; rfl
  | cons x rest ih =>
    intro t h hl
    obtain ⟨a, op⟩ := x
    simp only [runSched, List.all_cons, Bool.and_eq_true]
    refine ⟨?_, ih _ (inv_step t op h) (lookup_step_stable t op n i hl)⟩
    have hid := h.nameToId n i hl
    have hlt := lt_of_getElem? hid
    cases op with
    | add m => simp [NoContra]
    | get m =>
      simp only [step, get]
      cases hg : lookup t.nameTable m with
      | some j => simp [NoContra]
      | none =>
        simp only [NoContra, decide_eq_true_eq]
        intro e; subst e; rw [hl] at hg; cases hg
    | getName j =>
      simp only [step]
      cases hg : getName t j with
      | some s => simp [NoContra]
      | none =>
        simp only [NoContra, decide_eq_true_eq]
        intro e; subst e
        unfold getName at hg
        split at hg
        · omega
        · simp [hid] at hg
    | existsId j =>
      simp only [step, existsId]
      by_cases hc : j < t.idTable.length ∧ j ≥ 0
      · simp [NoContra, hc]
      · simp only [hc, decide_false, NoContra, decide_eq_true_eq]
        intro e; subst e; omega

theorem laterOk_sched (sched : List (Nat × Op)) : ∀ (t : Tab), Inv t → laterOk (runSched t sched).2 = true := by
  induction sched with
  | nil => intro t _; rfl
  | cons x rest ih =>
    intro t h
    obtain ⟨a, op⟩ := x
    cases op with
    | add n =>
      simp only [runSched, step, laterOk, Bool.and_eq_true]
      refine ⟨?_, ih _ (inv_add t n h)⟩
      have := noContra_sched n (add t n).2 rest (add t n).1 (inv_add t n h) (add_lookup t n)
      rw [List.all_eq_true] at this ⊢
      intro e he
      have := this e he
      simp only [NoContra] at this
      simp only [Bool.or_eq_true, Bool.not_eq_true']
      right
      revert this
      cases e.op <;> cases e.res <;> simp
      · rename_i b; cases b <;> simp
    | get n =>
      simp only [runSched, step]
      cases hg : get t n <;> simp only [laterOk] <;> exact ih _ h
    | getName j =>
      simp only [runSched, step]
      cases hg : getName t j <;> simp only [laterOk] <;> exact ih _ h
    | existsId j => simp only [runSched, step, laterOk]; exact ih _ h

end Elk.Symtab
