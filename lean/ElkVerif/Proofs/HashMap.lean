import ElkVerif.Model.HashMap
/-! helper lemmas for C17: the probe loop as a scan over the cyclic probe path -/
namespace Elk.HashMap

variable {K V : Type}

/-- the indices the probe loop visits starting from `h`: `h, h+1, …, cap-1, 0, …, h-1` -/
def path (cap h : Nat) : List Nat := List.range' h (cap - h) ++ List.range' 0 h

/-- the probe loop as a scan over a list of indices -/
def scan (eqv : K → K → Bool) (slots : List (Slot K V)) (key : K) : List Nat → Option Nat → Option Nat
  | [], deleted => deleted
  | i :: is, deleted =>
    match slots[i]? with
    | none => none
    | some .empty =>
      match deleted with
      | some d => some d
      | none => some i
    | some .tomb =>
      match deleted with
      | some d => scan eqv slots key is (some d)
      | none => scan eqv slots key is (some i)
    | some (.live k _) => if eqv k key then some i else scan eqv slots key is deleted

/-- the indices visited by `fuel` iterations starting at `i` -/
def walk (cap : Nat) : Nat → Nat → List Nat
  | 0, _ => []
  | fuel + 1, i => i :: walk cap fuel (next cap i)

theorem probe_eq_scan (eqv : K → K → Bool) (slots : List (Slot K V)) (key : K) :
    ∀ (fuel i : Nat) (d : Option Nat),
      probe eqv slots key fuel i d = scan eqv slots key (walk slots.length fuel i) d := by
  intro fuel
  induction fuel with
  | zero => intro i d; rfl
  | succ f ih =>
    intro i d
    simp only [probe, walk, scan]
    cases slots[i]? with
    | none => rfl
    | some s =>
      cases s with
      | empty => rfl
      | tomb => cases d <;> simp only [ih]
      | live k v => simp only [ih]

theorem walk_noWrap (cap : Nat) : ∀ (f i : Nat), i + f ≤ cap → walk cap f i = List.range' i f := by
  intro f
  induction f with
  | zero => intro i _; rfl
  | succ f ih =>
    intro i h
    simp only [walk, List.range'_succ]
    cases f with
    | zero => simp [walk]
    | succ f' =>
      have : next cap i = i + 1 := by simp only [next]; split <;> omega
      rw [this, ih (i + 1) (by omega)]

theorem walk_wrap (cap : Nat) : ∀ (n i g : Nat), i + n = cap → 0 < n →
    walk cap (n + g) i = List.range' i n ++ walk cap g 0 := by
  intro n
  induction n with
  | zero => intro i g _ h; omega
  | succ n ih =>
    intro i g hcap _
    have e : n + 1 + g = (n + g) + 1 := by omega
    rw [e]
    simp only [walk, List.range'_succ, List.cons_append]
    cases n with
    | zero =>
      have : next cap i = 0 := by simp only [next]; split <;> omega
      simp [this]
    | succ n' =>
      have : next cap i = i + 1 := by simp only [next]; split <;> omega
      rw [this, ih (i + 1) g (by omega) (by omega)]

/-- a full turn from `h < cap` visits exactly `path cap h` -/
theorem walk_full (cap h : Nat) (hlt : h < cap) : walk cap cap h = path cap h := by
  have key := walk_wrap cap (cap - h) h h (by omega) (by omega)
  have e : cap - h + h = cap := by omega
  rw [e] at key
  rw [key, walk_noWrap cap h 0 (by omega)]
  simp [path]

theorem mem_path {cap h j : Nat} (hlt : h < cap) : j ∈ path cap h ↔ j < cap := by
  simp only [path, List.mem_append, List.mem_range'_1]; omega

theorem nodup_path (cap h : Nat) : (path cap h).Nodup := by
  simp only [path]
  rw [List.nodup_append]
  refine ⟨List.nodup_range', List.nodup_range', ?_⟩
  intro a ha b hb
  simp only [List.mem_range'_1] at ha hb
  omega


/-- a slot that a probe for `key` walks past: not empty and not a live entry for `key` -/
def Passes (eqv : K → K → Bool) (key : K) : Slot K V → Prop
  | .empty => False
  | .tomb => True
  | .live k _ => eqv k key = false

/-- **found**: the scan stops at the live entry for `key` when everything before it is passed -/
theorem scan_found (eqv : K → K → Bool) (slots : List (Slot K V)) (key k' : K) (v : V) (j : Nat)
    (hj : slots[j]? = some (.live k' v)) (he : eqv k' key = true) :
    ∀ (pre post : List Nat) (d : Option Nat),
      (∀ i ∈ pre, ∃ s, slots[i]? = some s ∧ Passes eqv key s) →
      scan eqv slots key (pre ++ j :: post) d = some j := by
  intro pre
  induction pre with
  | nil => intro post d _; simp [scan, hj, he]
  | cons i pre ih =>
    intro post d h
    obtain ⟨s, hs, hp⟩ := h i (by simp)
    have h' : ∀ i ∈ pre, ∃ s, slots[i]? = some s ∧ Passes eqv key s := fun x hx => h x (by simp [hx])
    simp only [List.cons_append, scan, hs]
    cases s with
    | empty => exact absurd hp (by simp [Passes])
    | tomb => cases d <;> exact ih post _ h'
    | live k w =>
      simp only [Passes] at hp
      simp only [hp]
      exact ih post d h'

/-- no live entry of the table is a key equivalent to `key` -/
def Absent (eqv : K → K → Bool) (slots : List (Slot K V)) (key : K) : Prop :=
  ∀ (j : Nat) (k : K) (v : V), slots[j]? = some (.live k v) → eqv k key = false

/-- once a tombstone is remembered the scan can only return it -/
theorem scan_del (eqv : K → K → Bool) (slots : List (Slot K V)) (key : K) (hab : Absent eqv slots key) (d : Nat) :
    ∀ (is : List Nat), (∀ i ∈ is, i < slots.length) → scan eqv slots key is (some d) = some d := by
  intro is
  induction is with
  | nil => intro _; rfl
  | cons i is ih =>
    intro h
    have hi : i < slots.length := h i (by simp)
    have h' : ∀ x ∈ is, x < slots.length := fun x hx => h x (by simp [hx])
    simp only [scan, List.getElem?_eq_getElem hi]
    cases hs : slots[i] with
    | empty => rfl
    | tomb => exact ih h'
    | live k w =>
      have := hab i k w (by rw [List.getElem?_eq_getElem hi, hs])
      simp only [this]
      exact ih h'

/-- **absent**: with no remembered tombstone the scan answers `none` only if every visited slot is
live, and otherwise the first tombstone before the first empty slot, or that empty slot; nothing
before the answer is empty. -/
theorem scan_absent (eqv : K → K → Bool) (slots : List (Slot K V)) (key : K) (hab : Absent eqv slots key) :
    ∀ (is : List Nat), (∀ i ∈ is, i < slots.length) →
      match scan eqv slots key is none with
      | none => ∀ i ∈ is, ∃ k v, slots[i]? = some (.live k v)
      | some x => ∃ pre post, is = pre ++ x :: post ∧ (∀ i ∈ pre, slots[i]? ≠ some .empty) ∧
          (slots[x]? = some .empty ∨ slots[x]? = some .tomb) := by
  intro is
  induction is with
  | nil => intro _; simp [scan]
  | cons i is ih =>
    intro h
    have hi : i < slots.length := h i (by simp)
    have h' : ∀ x ∈ is, x < slots.length := fun x hx => h x (by simp [hx])
    simp only [scan, List.getElem?_eq_getElem hi]
    cases hs : slots[i] with
    | empty =>
      exact ⟨[], is, rfl, by simp, Or.inl (by rw [List.getElem?_eq_getElem hi, hs])⟩
    | tomb =>
      simp only [scan_del eqv slots key hab i is h']
      exact ⟨[], is, rfl, by simp, Or.inr (by rw [List.getElem?_eq_getElem hi, hs])⟩
    | live k w =>
      have hk := hab i k w (by rw [List.getElem?_eq_getElem hi, hs])
      simp only [hk]
      have := ih h'
      have hlive : slots[i]? = some (.live k w) := by rw [List.getElem?_eq_getElem hi, hs]
      cases hr : scan eqv slots key is none with
      | none =>
        rw [hr] at this
        intro x hx
        rcases List.mem_cons.mp hx with rfl | hx
        · exact ⟨k, w, hlive⟩
        · exact this x hx
      | some x =>
        rw [hr] at this
        obtain ⟨pre, post, e, hpre, hx⟩ := this
        refine ⟨i :: pre, post, by simp [e], ?_, hx⟩
        intro y hy
        rcases List.mem_cons.mp hy with rfl | hy
        · rw [hlive]; simp
        · exact hpre y hy


/-! ### hypotheses on the key equality and hash, counters, the invariant -/

/-- what the tables assume of `vm.Equal` and `vm.Hash` on keys (C18 supplies it for built-in keys) -/
structure KeyOk (hash : K → Nat) (eqv : K → K → Bool) : Prop where
  refl : ∀ a, eqv a a = true
  symm : ∀ a b, eqv a b = true → eqv b a = true
  trans : ∀ a b c, eqv a b = true → eqv b c = true → eqv a c = true
  hash_eq : ∀ a b, eqv a b = true → hash a = hash b

def countLive : List (Slot K V) → Nat
  | [] => 0
  | .live _ _ :: rest => countLive rest + 1
  | _ :: rest => countLive rest

def countTomb : List (Slot K V) → Nat
  | [] => 0
  | .tomb :: rest => countTomb rest + 1
  | _ :: rest => countTomb rest

def countEmpty : List (Slot K V) → Nat
  | [] => 0
  | .empty :: rest => countEmpty rest + 1
  | _ :: rest => countEmpty rest

theorem count_total (slots : List (Slot K V)) :
    countLive slots + countTomb slots + countEmpty slots = slots.length := by
  induction slots with
  | nil => rfl
  | cons s rest ih => cases s <;> simp [countLive, countTomb, countEmpty] <;> omega

/-- the table invariant -/
structure Inv (hash : K → Nat) (eqv : K → K → Bool) (t : Tbl K V) : Prop where
  elems : t.elements = countLive t.slots
  occ : t.occupied = countLive t.slots + countTomb t.slots
  nodup : ∀ (i j : Nat) (k1 k2 : K) (v1 v2 : V), t.slots[i]? = some (.live k1 v1) →
    t.slots[j]? = some (.live k2 v2) → eqv k1 k2 = true → i = j
  reach : ∀ (j : Nat) (k : K) (v : V), t.slots[j]? = some (.live k v) →
    ∀ (pre post : List Nat), path t.cap (hash k % t.cap) = pre ++ j :: post →
      ∀ i ∈ pre, t.slots[i]? ≠ some .empty

theorem lt_of_getElem?' {α} {l : List α} {i : Nat} {a : α} (h : l[i]? = some a) : i < l.length := by
  obtain ⟨h, _⟩ := List.getElem?_eq_some_iff.mp h; exact h

theorem not_mem_pre_of_nodup {α} {pre post : List α} {j : α} (h : (pre ++ j :: post).Nodup) : j ∉ pre := by
  rw [List.nodup_append] at h
  intro hj
  exact h.2.2 j hj j (by simp) rfl

section
variable {hash : K → Nat} {eqv : K → K → Bool}

theorem index_ok (t : Tbl K V) (key : K) (hc : 0 < t.cap) :
    index hash eqv t key = .ok (scan eqv t.slots key (path t.cap (hash key % t.cap)) none) := by
  have hne : ¬ t.cap = 0 := by omega
  simp only [index, hne, if_false, probe_eq_scan]
  rw [show t.slots.length = t.cap from rfl, walk_full t.cap _ (Nat.mod_lt _ hc)]

/-- a live entry equivalent to `key` is what `Index` finds -/
theorem index_found (hk : KeyOk hash eqv) (t : Tbl K V) (hinv : Inv hash eqv t) (key k' : K) (v : V) (j : Nat)
    (hj : t.slots[j]? = some (.live k' v)) (he : eqv k' key = true) :
    index hash eqv t key = .ok (some j) := by
  have hjlt : j < t.cap := lt_of_getElem?' hj
  have hc : 0 < t.cap := by omega
  rw [index_ok t key hc]
  have hh : hash key % t.cap = hash k' % t.cap := by rw [hk.hash_eq k' key he]
  have hmem : j ∈ path t.cap (hash key % t.cap) := (mem_path (Nat.mod_lt _ hc)).mpr hjlt
  obtain ⟨pre, post, hsplit⟩ := List.append_of_mem hmem
  rw [hsplit]
  congr 1
  apply scan_found eqv t.slots key k' v j hj he pre post none
  intro i hi
  have hilt : i < t.cap := by
    have : i ∈ path t.cap (hash key % t.cap) := by rw [hsplit]; simp [hi]
    exact (mem_path (Nat.mod_lt _ hc)).mp this
  refine ⟨t.slots[i]'hilt, List.getElem?_eq_getElem hilt, ?_⟩
  have hne := hinv.reach j k' v hj pre post (by rw [← hh]; exact hsplit) i hi
  have hnd : j ∉ pre := not_mem_pre_of_nodup (by rw [← hsplit]; exact nodup_path _ _)
  cases hs : t.slots[i]'hilt with
  | empty => exact absurd (by rw [List.getElem?_eq_getElem hilt, hs]) hne
  | tomb => trivial
  | live k2 w =>
    simp only [Passes]
    cases hek : eqv k2 key with
    | false => rfl
    | true =>
      exfalso
      have : eqv k2 k' = true := hk.trans k2 key k' hek (hk.symm k' key he)
      have := hinv.nodup i j k2 k' w v (by rw [List.getElem?_eq_getElem hilt, hs]) hj this
      exact hnd (this ▸ hi)

/-- for an absent key `Index` answers a free slot reachable from the key's home, or -1 when every
slot is live -/
theorem index_absent (t : Tbl K V) (key : K) (hc : 0 < t.cap) (hab : Absent eqv t.slots key) :
    ∃ r, index hash eqv t key = .ok r ∧
      match r with
      | none => ∀ i, i < t.cap → ∃ k v, t.slots[i]? = some (.live k v)
      | some x => ∃ pre post, path t.cap (hash key % t.cap) = pre ++ x :: post ∧
          (∀ i ∈ pre, t.slots[i]? ≠ some .empty) ∧ (t.slots[x]? = some .empty ∨ t.slots[x]? = some .tomb) := by
  rw [index_ok t key hc]
  refine ⟨_, rfl, ?_⟩
  have hm := Nat.mod_lt (hash key) hc
  have := scan_absent eqv t.slots key hab (path t.cap (hash key % t.cap))
    (fun i hi => (mem_path hm).mp hi)
  cases hr : scan eqv t.slots key (path t.cap (hash key % t.cap)) none with
  | none =>
    rw [hr] at this
    intro i hi
    exact this i ((mem_path hm).mpr hi)
  | some x =>
    rw [hr] at this
    exact this

end

end Elk.HashMap
