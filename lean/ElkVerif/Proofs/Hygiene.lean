import ElkVerif.Model.Hygiene
/-! helper lemmas for C31 (environment chain of `types/checker/local.go`) -/
namespace Elk.Hygiene

theorem lookup_rename (ρ : Name → Name) (hρ : ∀ a b, ρ a = ρ b → a = b) (n : Name)
    (ls : List (Name × LocalId)) :
    lookup (ρ n) (ls.map fun (m, l) => (ρ m, l)) = lookup n ls := by
  induction ls with
  | nil => rfl
  | cons p rest ih =>
    obtain ⟨m, l⟩ := p
    simp only [List.map_cons, lookup]
    by_cases h : m = n
    · simp [h]
    · have : ρ m ≠ ρ n := fun e => h (hρ _ _ e)
      simp [h, this, ih]

/-- a name outside the image of the renamed keys is not found after renaming -/
theorem lookup_rename_fresh (ρ : Name → Name) (m : Name) (ls : List (Name × LocalId))
    (hfresh : ∀ p ∈ ls, ρ p.1 ≠ m) :
    lookup m (ls.map fun (k, l) => (ρ k, l)) = none := by
  induction ls with
  | nil => rfl
  | cons p rest ih =>
    obtain ⟨k, l⟩ := p
    simp only [List.map_cons, lookup]
    have h1 : ρ k ≠ m := hfresh (k, l) (by simp)
    simp only [h1, if_false]
    exact ih (fun p hp => hfresh p (by simp [hp]))

theorem lookup_insert_same (n : Name) (l : LocalId) (ls : List (Name × LocalId)) :
    lookup n (insert n l ls) = some l := by
  induction ls with
  | nil => simp [insert, lookup]
  | cons p rest ih =>
    obtain ⟨m, x⟩ := p
    by_cases h : m = n
    · simp [insert, lookup, h]
    · simp [insert, lookup, h, ih]

theorem lookup_insert_other (n k : Name) (l : LocalId) (ls : List (Name × LocalId)) (h : k ≠ n) :
    lookup k (insert n l ls) = lookup k ls := by
  induction ls with
  | nil => simp [insert, lookup, Ne.symm h]
  | cons p rest ih =>
    obtain ⟨m, x⟩ := p
    by_cases hm : m = n
    · subst hm
      simp [insert, lookup, Ne.symm h]
    · by_cases hk : m = k
      · subst hk
        simp [insert, lookup, hm]
      · simp [insert, lookup, hm, hk, ih]

/-- hygienic resolution never looks past a macro boundary -/
theorem resolveFrom_boundary_indep (n : Name) (inner : Stack) (b : Frame) (outer outer' : Stack)
    (hb : b.typ = .macroBoundary) (d : Nat) (k : Bool) :
    resolveFrom n false (inner ++ b :: outer) d k = resolveFrom n false (inner ++ b :: outer') d k := by
  induction inner generalizing d k with
  | nil =>
    simp only [List.nil_append, resolveFrom, hb]
    cases lookup n b.locals <;> simp
  | cons f rest ih =>
    simp only [List.cons_append, resolveFrom]
    cases lookup n f.locals with
    | some l => rfl
    | none =>
      simp only []
      split
      · rfl
      · split
        · exact ih _ _
        · rfl

/-- a hit at depth `h.depth - d` is a binding of the frame at that position -/
theorem resolveFrom_sound (n : Name) (u : Bool) (s : Stack) (d : Nat) (k : Bool) (h : Hit)
    (hr : resolveFrom n u s d k = some h) :
    d ≤ h.depth ∧ ∃ f, s[h.depth - d]? = some f ∧ lookup n f.locals = some h.loc := by
  induction s generalizing d k with
  | nil => simp [resolveFrom] at hr
  | cons f rest ih =>
    simp only [resolveFrom] at hr
    cases hl : lookup n f.locals with
    | some l =>
      simp only [hl] at hr
      injection hr with hr; subst hr
      exact ⟨Nat.le_refl _, f, by simp, hl⟩
    | none =>
      simp only [hl] at hr
      split at hr
      · cases hr
      · split at hr
        · obtain ⟨hle, g, hg, hlk⟩ := ih _ _ hr
          refine ⟨by omega, g, ?_, hlk⟩
          have : h.depth - d = (h.depth - (d + 1)) + 1 := by omega
          rw [this]; simpa using hg
        · cases hr

/-- hygienic hits stay at or above the boundary -/
theorem resolveFrom_hyg_depth (n : Name) (inner : Stack) (b : Frame) (outer : Stack)
    (hb : b.typ = .macroBoundary) (d : Nat) (k : Bool) (h : Hit)
    (hr : resolveFrom n false (inner ++ b :: outer) d k = some h) :
    h.depth ≤ d + inner.length := by
  induction inner generalizing d k with
  | nil =>
    simp only [List.nil_append, resolveFrom, hb] at hr
    cases hl : lookup n b.locals with
    | some l => simp only [hl] at hr; injection hr with hr; subst hr; simp
    | none => simp [hl] at hr
  | cons f rest ih =>
    simp only [List.cons_append, resolveFrom] at hr
    cases hl : lookup n f.locals with
    | some l => simp only [hl] at hr; injection hr with hr; subst hr; simp
    | none =>
      simp only [hl] at hr
      split at hr
      · cases hr
      · split at hr
        · have := ih _ _ hr
          simp only [List.length_cons]; omega
        · cases hr

/-- unhygienic resolution walks through frames that do not bind the name -/
theorem resolveFrom_unhyg_skip (n : Name) (pre : Stack) (outer : Stack) (d : Nat) (k : Bool)
    (hp : ∀ f ∈ pre, f.hasParent = true) (hn : ∀ f ∈ pre, lookup n f.locals = none) :
    resolveFrom n true (pre ++ outer) d k =
      resolveFrom n true outer (d + pre.length) (k || pre.any fun f => decide (f.typ = .conditional)) := by
  induction pre generalizing d k with
  | nil => simp
  | cons f rest ih =>
    have hpf : f.hasParent = true := hp f (by simp)
    have hnf : lookup n f.locals = none := hn f (by simp)
    simp only [List.cons_append, resolveFrom, hnf, hpf]
    have : ¬ (f.typ = .macroBoundary ∧ true = false) := by simp
    simp only [this, if_false, if_true]
    rw [ih _ _ (fun g hg => hp g (by simp [hg])) (fun g hg => hn g (by simp [hg]))]
    simp only [List.length_cons, List.any_cons, Bool.or_assoc]
    congr 1; omega

/-- operations that stay above the starting point leave everything below untouched -/
theorem run_frame (ops : List Op) (inner outer s' : Stack) (k : Nat)
    (hd : depthAfter inner.length ops = some k) (hr : run ops (inner ++ outer) = some s') :
    ∃ inner', inner'.length = k ∧ s' = inner' ++ outer := by
  induction ops generalizing inner k s' with
  | nil =>
    simp only [depthAfter] at hd; injection hd with hd
    simp only [run] at hr; injection hr with hr
    exact ⟨inner, hd, hr.symm⟩
  | cons op ops ih =>
    cases op with
    | pushNested t =>
      simp only [depthAfter] at hd
      cases hs : inner ++ outer with
      | nil => simp [run, step, hs] at hr
      | cons g rest =>
        simp only [run, step, hs] at hr
        have := ih (⟨t, true, []⟩ :: inner) s' k (by simpa using hd) (by simpa [hs] using hr)
        exact this
    | pushIsolated =>
      simp only [depthAfter] at hd
      simp only [run, step] at hr
      exact ih (⟨.default, false, []⟩ :: inner) s' k (by simpa using hd) (by simpa using hr)
    | pop =>
      cases inner with
      | nil => simp [depthAfter] at hd
      | cons f rest =>
        simp only [List.length_cons, depthAfter] at hd
        simp only [List.cons_append, run, step] at hr
        exact ih rest s' k hd hr
    | add n l =>
      cases inner with
      | nil => simp [depthAfter] at hd
      | cons f rest =>
        simp only [List.length_cons, depthAfter] at hd
        simp only [List.cons_append, run, step] at hr
        exact ih ({ f with locals := insert n l f.locals } :: rest) s' k (by simpa using hd) (by simpa using hr)

theorem run_append (a b : List Op) (s : Stack) :
    run (a ++ b) s = (run a s).bind (run b) := by
  induction a generalizing s with
  | nil => simp [run]
  | cons op ops ih =>
    simp only [List.cons_append, run]
    cases step s op with
    | none => simp
    | some s' => simpa using ih s'

theorem depthAfter_append (a b : List Op) (k : Nat) :
    depthAfter k (a ++ b) = (depthAfter k a).bind fun k' => depthAfter k' b := by
  induction a generalizing k with
  | nil => simp [depthAfter]
  | cons op ops ih =>
    cases op with
    | pushNested t => simpa [depthAfter] using ih (k + 1)
    | pushIsolated => simpa [depthAfter] using ih (k + 1)
    | pop =>
      cases k with
      | zero => simp [depthAfter]
      | succ k => simpa [depthAfter] using ih k
    | add n l =>
      cases k with
      | zero => simp [depthAfter]
      | succ k => simpa [depthAfter] using ih (k + 1)

@[simp] theorem Frame.rename_typ (ρ : Name → Name) (f : Frame) : (f.rename ρ).typ = f.typ := rfl
@[simp] theorem Frame.rename_hasParent (ρ : Name → Name) (f : Frame) : (f.rename ρ).hasParent = f.hasParent := rfl

theorem Frame.lookup_rename (ρ : Name → Name) (hρ : ∀ a b, ρ a = ρ b → a = b) (n : Name) (f : Frame) :
    lookup (ρ n) (f.rename ρ).locals = lookup n f.locals :=
  Elk.Hygiene.lookup_rename ρ hρ n f.locals

/-- renaming the bound names of the expansion's environments and the looked-up name together -/
theorem resolveFrom_rename (ρ : Name → Name) (hρ : ∀ a b, ρ a = ρ b → a = b)
    (n : Name) (inner : Stack) (b : Frame) (outer : Stack) (hb : b.typ = .macroBoundary)
    (d : Nat) (k : Bool) :
    resolveFrom (ρ n) false (inner.map (Frame.rename ρ) ++ Frame.rename ρ b :: outer) d k =
      resolveFrom n false (inner ++ b :: outer) d k := by
  obtain ⟨bt, bp, bls⟩ := b
  simp only at hb; subst hb
  induction inner generalizing d k with
  | nil =>
    simp only [List.map_nil, List.nil_append, resolveFrom, Frame.rename, lookup_rename ρ hρ]
    cases lookup n bls <;> simp
  | cons f rest ih =>
    obtain ⟨t, p, ls⟩ := f
    simp only [List.map_cons, List.cons_append, resolveFrom, Frame.rename, lookup_rename ρ hρ]
    cases lookup n ls with
    | some l => rfl
    | none =>
      simp only []
      split
      · rfl
      · split
        · exact ih _ _
        · rfl

end Elk.Hygiene
