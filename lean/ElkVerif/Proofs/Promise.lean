import ElkVerif.Model.Promise
/-!
Helper lemmas for C16/C15: inversion of `stepB` per event (these read like the constructors of
the transition relation), the protocol invariant `Inv`, and its preservation by every step.
-/
set_option linter.unusedSimpArgs false
namespace Elk.Promise

theorem starter_some {N s a ret} (h : starter N s a = some ret) :
    (∃ t, s.act a = .run t ∧ ret = some t) ∨ (s.act a = .idle ∧ N ≤ a ∧ ret = none) := by
  unfold starter at h
  split at h
  · rename_i t ht; left; exact ⟨t, ht, by simpa using h.symm⟩
  · split at h
    · rename_i hi hn; right; exact ⟨hi, hn, by simpa using h.symm⟩
    · contradiction
  · contradiction

theorem starter_hold {N s a ret} (h : starter N s a = some ret) (c : Nat) :
    (s.act a).holdCount c = if ret = some c then 1 else 0 := by
  rcases starter_some h with ⟨t, ht, rfl⟩ | ⟨hi, _, rfl⟩
  · simp [ht, AState.holdCount, eq_comm]
  · simp [hi, AState.holdCount]

theorem starter_lock {N s a ret} (h : starter N s a = some ret) (p : Nat) :
    (s.act a).holdsLock p = false := by
  rcases starter_some h with ⟨t, ht, rfl⟩ | ⟨hi, _, rfl⟩ <;> simp [*, AState.holdsLock]

theorem retState_hold (ret : Option Nat) (c : Nat) :
    (retState ret).holdCount c = if ret = some c then 1 else 0 := by
  cases ret <;> simp [retState, AState.holdCount, eq_comm]

theorem retState_lock (ret : Option Nat) (p : Nat) : (retState ret).holdsLock p = false := by
  cases ret <;> simp [retState, AState.holdsLock]

/-! ### inversion lemmas: one per event -/

theorem step_add {N Q s a c s'} (h : Step N Q s (.add a c) s') :
    ∃ ret, starter N s a = some ret ∧ (s.prom c).kind = .none ∧
      s' = { s with act := upd s.act a (.add ret c), prom := setProm s c (fun _ => { kind := .task }),
                    loc := upd s.loc c (.actor a), tasks := c :: s.tasks } := by
  simp only [Step, stepB] at h
  split at h <;> try contradiction
  split at h <;> try contradiction
  rename_i ret hst hk
  exact ⟨ret, hst, hk, by simpa using h.symm⟩

theorem step_enq {N Q s a c s'} (h : Step N Q s (.enq a c) s') :
    ∃ ret, s.act a = .add ret c ∧ s.queue.length < Q ∧
      s' = { s with act := upd s.act a (retState ret), queue := s.queue ++ [c], loc := upd s.loc c .queued } := by
  simp only [Step, stepB] at h
  split at h <;> try contradiction
  split at h <;> try contradiction
  rename_i ret c' heq hc
  obtain ⟨hc1, hq⟩ := hc
  subst hc1
  exact ⟨ret, heq, hq, by simpa using h.symm⟩

theorem step_deq {N Q s a t s'} (h : Step N Q s (.deq a t) s') :
    s.act a = .idle ∧ a < N ∧ t ∈ s.queue ∧
      s' = { s with act := upd s.act a (.run t), queue := eraseFirst t s.queue,
                    loc := upd s.loc t (.actor a), resumeOn := upd s.resumeOn t none } := by
  simp only [Step, stepB] at h
  split at h <;> try contradiction
  split at h <;> try contradiction
  rename_i heq hc
  exact ⟨heq, hc.1, hc.2, by simpa using h.symm⟩

theorem step_aw {N Q s a p s'} (h : Step N Q s (.aw a p) s') :
    ∃ t, s.act a = .run t ∧ (s.prom p).kind ≠ .none ∧ s' = { s with act := upd s.act a (.awLock t p) } := by
  simp only [Step, stepB] at h
  split at h <;> try contradiction
  split at h <;> try contradiction
  rename_i t heq hc
  exact ⟨t, heq, hc, by simpa using h.symm⟩

theorem step_awl {N Q s a p s'} (h : Step N Q s (.awl a p) s') :
    ∃ t, s.act a = .awLock t p ∧ (s.prom p).locked = none ∧
      s' = { s with act := upd s.act a (.awTest t p), prom := setProm s p (fun q => { q with locked := some a }) } := by
  simp only [Step, stepB] at h
  split at h <;> try contradiction
  split at h <;> try contradiction
  rename_i t p' heq hc
  obtain ⟨hc1, hq⟩ := hc
  subst hc1
  exact ⟨t, heq, hq, by simpa using h.symm⟩

theorem step_aws {N Q s a p s'} (h : Step N Q s (.aws a p) s') :
    ∃ t, s.act a = .awTest t p ∧ (s.prom p).settled = none ∧ s' = { s with act := upd s.act a (.awSusp t p) } := by
  simp only [Step, stepB] at h
  split at h <;> try contradiction
  split at h <;> try contradiction
  rename_i t p' heq hc
  obtain ⟨hc1, hq⟩ := hc
  subst hc1
  exact ⟨t, heq, hq, by simpa using h.symm⟩

theorem step_awr {N Q s a p s'} (h : Step N Q s (.awr a p) s') :
    ∃ t, s.act a = .awTest t p ∧ (s.prom p).settled ≠ none ∧
      s' = { s with act := upd s.act a (.run t), prom := setProm s p (fun q => { q with locked := none }) } := by
  simp only [Step, stepB] at h
  split at h <;> try contradiction
  split at h <;> try contradiction
  rename_i t p' heq hc
  obtain ⟨hc1, hq⟩ := hc
  subst hc1
  exact ⟨t, heq, hq, by simpa using h.symm⟩

theorem step_reg {N Q s a p s'} (h : Step N Q s (.reg a p) s') :
    ∃ t, s.act a = .awSusp t p ∧
      s' = { s with act := upd s.act a (.awUnl p), prom := setProm s p (fun q => { q with conts := q.conts ++ [t] }),
                    resumeOn := upd s.resumeOn t (some p), loc := upd s.loc t (.waiting p) } := by
  simp only [Step, stepB] at h
  split at h <;> try contradiction
  split at h <;> try contradiction
  rename_i t p' heq hc
  subst hc
  exact ⟨t, heq, by simpa using h.symm⟩

theorem step_unl {N Q s a p s'} (h : Step N Q s (.unl a p) s') :
    s.act a = .awUnl p ∧
      s' = { s with act := upd s.act a .idle, prom := setProm s p (fun q => { q with locked := none }) } := by
  simp only [Step, stepB] at h
  split at h <;> try contradiction
  split at h <;> try contradiction
  rename_i p' heq hc
  subst hc
  exact ⟨heq, by simpa using h.symm⟩

theorem step_res {N Q s a p r s'} (h : Step N Q s (.res a p r) s') :
    (s.act a = .run p ∧
      s' = { s with act := upd s.act a (.resLock true p r), bodyRes := upd s.bodyRes p (some r) }) ∨
    (s.act a = .idle ∧ N ≤ a ∧ (s.prom p).kind = .ext ∧ (s.prom p).claimed = none ∧
      s' = { s with act := upd s.act a (.resLock false p r), bodyRes := upd s.bodyRes p (some r),
                    prom := setProm s p (fun q => { q with claimed := some a }) }) := by
  simp only [Step, stepB] at h
  split at h <;> try contradiction
  · split at h <;> try contradiction
    rename_i t heq hc
    subst hc
    left; exact ⟨heq, by simpa using h.symm⟩
  · split at h <;> try contradiction
    rename_i heq hc
    right; exact ⟨heq, hc.1, hc.2.1, hc.2.2, by simpa using h.symm⟩

theorem step_resl {N Q s a p s'} (h : Step N Q s (.resl a p) s') :
    ∃ own r, s.act a = .resLock own p r ∧ (s.prom p).locked = none ∧
      s' = { s with act := upd s.act a (.resPub own p r), prom := setProm s p (fun q => { q with locked := some a }) } := by
  simp only [Step, stepB] at h
  split at h <;> try contradiction
  split at h <;> try contradiction
  rename_i own p' r heq hc
  obtain ⟨hc1, hq⟩ := hc
  subst hc1
  exact ⟨own, r, heq, hq, by simpa using h.symm⟩

theorem step_pub {N Q s a p s'} (h : Step N Q s (.pub a p) s') :
    ∃ own r, s.act a = .resPub own p r ∧
      s' = { s with act := upd s.act a (.resEnq p (s.prom p).conts),
                    prom := setProm s p (fun q => { q with settled := some r }),
                    pubs := upd s.pubs p (s.pubs p + 1),
                    loc := pubLoc s.loc p own (s.prom p).conts a } := by
  simp only [Step, stepB] at h
  split at h <;> try contradiction
  split at h <;> try contradiction
  rename_i own p' r heq hc
  subst hc
  exact ⟨own, r, heq, by simpa using h.symm⟩

theorem step_enqc {N Q s a p c s'} (h : Step N Q s (.enqc a p c) s') :
    ∃ rest, s.act a = .resEnq p (c :: rest) ∧ s.queue.length < Q ∧
      s' = { s with act := upd s.act a (.resEnq p rest), queue := s.queue ++ [c], loc := upd s.loc c .queued } := by
  simp only [Step, stepB] at h
  split at h <;> try contradiction
  split at h <;> try contradiction
  rename_i p' c' rest heq hc
  obtain ⟨hc1, hc2, hq⟩ := hc
  subst hc1; subst hc2
  exact ⟨rest, heq, hq, by simpa using h.symm⟩

theorem step_resu {N Q s a p s'} (h : Step N Q s (.resu a p) s') :
    s.act a = .resEnq p [] ∧
      s' = { s with act := upd s.act a .idle, prom := setProm s p (fun q => { q with conts := [], locked := none }) } := by
  simp only [Step, stepB] at h
  split at h <;> try contradiction
  split at h <;> try contradiction
  rename_i p' heq hc
  subst hc
  exact ⟨heq, by simpa using h.symm⟩

theorem step_newx {N Q s a p s'} (h : Step N Q s (.newx a p) s') :
    ∃ ret, starter N s a = some ret ∧ (s.prom p).kind = .none ∧
      s' = { s with prom := setProm s p (fun _ => { kind := .ext }) } := by
  simp only [Step, stepB] at h
  split at h <;> try contradiction
  split at h <;> try contradiction
  rename_i ret hst hk
  exact ⟨ret, hst, hk, by simpa using h.symm⟩

theorem step_syw {N Q s a p s'} (h : Step N Q s (.syw a p) s') :
    ∃ ret, starter N s a = some ret ∧ (s.prom p).kind ≠ .none ∧
      s' = { s with act := upd s.act a (.wait ret p) } := by
  simp only [Step, stepB] at h
  split at h <;> try contradiction
  split at h <;> try contradiction
  rename_i ret hst hk
  exact ⟨ret, hst, hk, by simpa using h.symm⟩

theorem step_sywd {N Q s a p s'} (h : Step N Q s (.sywd a p) s') :
    ∃ ret, s.act a = .wait ret p ∧ (s.prom p).settled ≠ none ∧
      s' = { s with act := upd s.act a (retState ret) } := by
  simp only [Step, stepB] at h
  split at h <;> try contradiction
  split at h <;> try contradiction
  rename_i ret p' heq hc
  obtain ⟨hc1, hq⟩ := hc
  subst hc1
  exact ⟨ret, heq, hq, by simpa using h.symm⟩

/-! ### the protocol invariant -/

structure Inv (s : Sys) : Prop where
  qAgree : ∀ c, s.queue.count c = if s.loc c = .queued then 1 else 0
  aAgree : ∀ a c, (s.act a).holdCount c = if s.loc c = .actor a then 1 else 0
  wAgree : ∀ p c, (s.prom p).settled = none → (s.prom p).conts.count c = if s.loc c = .waiting p then 1 else 0
  wUnset : ∀ p c, s.loc c = .waiting p → (s.prom p).settled = none
  finIff : ∀ c, s.loc c = .finished ↔ ((s.prom c).kind = .task ∧ (s.prom c).settled ≠ none)
  locNone : ∀ c, s.loc c = .none ↔ (s.prom c).kind ≠ .task
  lockHolder : ∀ a p, (s.act a).holdsLock p = true → (s.prom p).locked = some a
  lockHeld : ∀ p a, (s.prom p).locked = some a → (s.act a).holdsLock p = true
  suspUnset : ∀ a t p, s.act a = .awSusp t p → (s.prom p).settled = none
  resUnset : ∀ a own p r, (s.act a = .resLock own p r ∨ s.act a = .resPub own p r) → (s.prom p).settled = none
  extClaim : ∀ a p r, (s.act a = .resLock false p r ∨ s.act a = .resPub false p r) →
      (s.prom p).claimed = some a ∧ (s.prom p).kind = .ext
  extSettled : ∀ p, (s.prom p).kind = .ext → (s.prom p).settled ≠ none → (s.prom p).claimed ≠ none
  lostWake : ∀ p, (s.prom p).settled ≠ none → (s.prom p).conts = [] ∨ ∃ a rest, s.act a = .resEnq p rest
  resumeReady : ∀ t p, s.resumeOn t = some p → s.loc t = .waiting p ∨ (s.prom p).settled ≠ none
  pubsOnce : ∀ p, s.pubs p = if (s.prom p).settled = none then 0 else 1
  bodyResSet : ∀ p r, (s.prom p).settled = some r → s.bodyRes p = some r
  bodyResAct : ∀ a own p r, (s.act a = .resLock own p r ∨ s.act a = .resPub own p r) → s.bodyRes p = some r
  tasksIff : ∀ c, c ∈ s.tasks ↔ (s.prom c).kind = .task
  tasksNodup : s.tasks.Nodup
  fresh : ∀ p, (s.prom p).kind = .none → s.prom p = {}
  resumeTask : ∀ t p, s.resumeOn t = some p → (s.prom t).kind = .task
  awKind : ∀ a t p, s.act a = .awLock t p → (s.prom p).kind ≠ .none
  enqSettled : ∀ a p rest, s.act a = .resEnq p rest → (s.prom p).settled ≠ none
  resumeLoc : ∀ t p, s.resumeOn t = some p →
      s.loc t = .waiting p ∨ s.loc t = .queued ∨ ∃ a, s.loc t = .actor a ∧ (s.act a).isEnq = true

theorem inv_init : Inv init := by
  constructor <;> simp [init, AState.holdCount, AState.holdsLock, AState.isEnq]



theorem count_eraseFirst (c t : Nat) (l : List Nat) :
    (eraseFirst t l).count c = if c = t ∧ t ∈ l then l.count c - 1 else l.count c := by
  induction l with
  | nil => simp [eraseFirst]
  | cons x xs ih =>
    simp only [eraseFirst]
    by_cases hx : x = t
    · subst hx; by_cases hc : c = x <;> simp [hc, List.count_cons]
      · intro h; exact absurd h.symm hc
    · simp only [hx, if_false, List.count_cons, ih, List.mem_cons]
      by_cases hc : c = t
      · subst hc
        have : (x == c) = false := by simp [hx]
        simp only [this]
        by_cases hm : c ∈ xs
        · have := List.count_pos_iff.mpr hm
          simp [hm] <;> omega
        · simp [hm, Ne.symm hx]
      · simp [hc]

macro "inv_split" : tactic => `(tactic|
  (refine ⟨?_, ?_, ?_, ?_, ?_, ?_, ?_, ?_, ?_, ?_, ?_, ?_, ?_, ?_, ?_, ?_, ?_, ?_, ?_, ?_, ?_, ?_, ?_, ?_⟩ <;>
    simp only [upd_apply, setProm, pubLoc, apply_ite PState.settled, apply_ite PState.conts, apply_ite PState.locked, apply_ite PState.kind, apply_ite PState.claimed, List.count_append, List.count_cons, List.count_nil, count_eraseFirst] <;> intros))

theorem inv_add {N Q s a c s'} (hi : Inv s) (h : Step N Q s (.add a c) s') : Inv s' := by
  obtain ⟨ret, hst, hk, rfl⟩ := step_add h
  obtain ⟨h1,h2,h3,h4,h5,h6,h7,h8,h9,h10,h11,h12,h13,h14,h15,h16,h17,h18,h19,h20,h21,h22,h23,h24⟩ := hi
  have e1 := starter_hold hst
  have e2 := starter_lock hst
  have e3 := starter_some hst
  have ha2 := h2 a
  simp only [e1] at ha2
  inv_split
  all_goals grind [AState.holdCount, AState.holdsLock, AState.isEnq]

theorem inv_enq {N Q s a c s'} (hi : Inv s) (h : Step N Q s (.enq a c) s') : Inv s' := by
  obtain ⟨ret, ha, hq, rfl⟩ := step_enq h
  obtain ⟨h1,h2,h3,h4,h5,h6,h7,h8,h9,h10,h11,h12,h13,h14,h15,h16,h17,h18,h19,h20,h21,h22,h23,h24⟩ := hi
  have ha2 := h2 a
  simp only [ha, AState.holdCount, List.count_cons, List.count_nil, Nat.zero_add] at ha2
  have ha7 := h7 a
  simp only [ha, AState.holdsLock] at ha7
  have e1 := retState_hold ret
  have e2 := retState_lock ret
  have e3 : retState ret = .idle ∨ ∃ t, retState ret = .run t := by cases ret <;> simp [retState]
  inv_split
  all_goals grind [AState.holdCount, AState.holdsLock, AState.isEnq]

theorem inv_deq {N Q s a t s'} (hi : Inv s) (h : Step N Q s (.deq a t) s') : Inv s' := by
  obtain ⟨ha, hn, hm, rfl⟩ := step_deq h
  obtain ⟨h1,h2,h3,h4,h5,h6,h7,h8,h9,h10,h11,h12,h13,h14,h15,h16,h17,h18,h19,h20,h21,h22,h23,h24⟩ := hi
  have ha2 := h2 a
  simp only [ha, AState.holdCount, List.count_cons, List.count_nil, Nat.zero_add] at ha2
  have ha7 := h7 a
  simp only [ha, AState.holdsLock] at ha7
  inv_split
  all_goals grind [AState.holdCount, AState.holdsLock, AState.isEnq]

theorem inv_aw {N Q s a p s'} (hi : Inv s) (h : Step N Q s (.aw a p) s') : Inv s' := by
  obtain ⟨t, ha, hk, rfl⟩ := step_aw h
  obtain ⟨h1,h2,h3,h4,h5,h6,h7,h8,h9,h10,h11,h12,h13,h14,h15,h16,h17,h18,h19,h20,h21,h22,h23,h24⟩ := hi
  have ha2 := h2 a
  simp only [ha, AState.holdCount, List.count_cons, List.count_nil, Nat.zero_add] at ha2
  have ha7 := h7 a
  simp only [ha, AState.holdsLock] at ha7
  inv_split
  all_goals grind [AState.holdCount, AState.holdsLock, AState.isEnq]

theorem inv_awl {N Q s a p s'} (hi : Inv s) (h : Step N Q s (.awl a p) s') : Inv s' := by
  obtain ⟨t, ha, hl, rfl⟩ := step_awl h
  obtain ⟨h1,h2,h3,h4,h5,h6,h7,h8,h9,h10,h11,h12,h13,h14,h15,h16,h17,h18,h19,h20,h21,h22,h23,h24⟩ := hi
  have ha2 := h2 a
  simp only [ha, AState.holdCount, List.count_cons, List.count_nil, Nat.zero_add] at ha2
  have ha7 := h7 a
  simp only [ha, AState.holdsLock] at ha7
  inv_split
  all_goals grind [AState.holdCount, AState.holdsLock, AState.isEnq]

theorem inv_aws {N Q s a p s'} (hi : Inv s) (h : Step N Q s (.aws a p) s') : Inv s' := by
  obtain ⟨t, ha, hs, rfl⟩ := step_aws h
  obtain ⟨h1,h2,h3,h4,h5,h6,h7,h8,h9,h10,h11,h12,h13,h14,h15,h16,h17,h18,h19,h20,h21,h22,h23,h24⟩ := hi
  have ha2 := h2 a
  simp only [ha, AState.holdCount, List.count_cons, List.count_nil, Nat.zero_add] at ha2
  have ha7 := h7 a
  simp only [ha, AState.holdsLock] at ha7
  inv_split
  all_goals grind [AState.holdCount, AState.holdsLock, AState.isEnq]

theorem inv_awr {N Q s a p s'} (hi : Inv s) (h : Step N Q s (.awr a p) s') : Inv s' := by
  obtain ⟨t, ha, hs, rfl⟩ := step_awr h
  obtain ⟨h1,h2,h3,h4,h5,h6,h7,h8,h9,h10,h11,h12,h13,h14,h15,h16,h17,h18,h19,h20,h21,h22,h23,h24⟩ := hi
  have ha2 := h2 a
  simp only [ha, AState.holdCount, List.count_cons, List.count_nil, Nat.zero_add] at ha2
  have ha7 := h7 a
  simp only [ha, AState.holdsLock] at ha7
  inv_split
  all_goals grind [AState.holdCount, AState.holdsLock, AState.isEnq]

theorem inv_unl {N Q s a p s'} (hi : Inv s) (h : Step N Q s (.unl a p) s') : Inv s' := by
  obtain ⟨ha, rfl⟩ := step_unl h
  obtain ⟨h1,h2,h3,h4,h5,h6,h7,h8,h9,h10,h11,h12,h13,h14,h15,h16,h17,h18,h19,h20,h21,h22,h23,h24⟩ := hi
  have ha2 := h2 a
  simp only [ha, AState.holdCount, List.count_cons, List.count_nil, Nat.zero_add] at ha2
  have ha7 := h7 a
  simp only [ha, AState.holdsLock] at ha7
  inv_split
  all_goals grind [AState.holdCount, AState.holdsLock, AState.isEnq]

theorem inv_resl {N Q s a p s'} (hi : Inv s) (h : Step N Q s (.resl a p) s') : Inv s' := by
  obtain ⟨own, r, ha, hl, rfl⟩ := step_resl h
  obtain ⟨h1,h2,h3,h4,h5,h6,h7,h8,h9,h10,h11,h12,h13,h14,h15,h16,h17,h18,h19,h20,h21,h22,h23,h24⟩ := hi
  have ha2 := h2 a
  simp only [ha, AState.holdCount, List.count_cons, List.count_nil, Nat.zero_add] at ha2
  have ha7 := h7 a
  simp only [ha, AState.holdsLock] at ha7
  inv_split
  all_goals grind [AState.holdCount, AState.holdsLock, AState.isEnq]

theorem inv_resu {N Q s a p s'} (hi : Inv s) (h : Step N Q s (.resu a p) s') : Inv s' := by
  obtain ⟨ha, rfl⟩ := step_resu h
  obtain ⟨h1,h2,h3,h4,h5,h6,h7,h8,h9,h10,h11,h12,h13,h14,h15,h16,h17,h18,h19,h20,h21,h22,h23,h24⟩ := hi
  have ha2 := h2 a
  simp only [ha, AState.holdCount, List.count_cons, List.count_nil, Nat.zero_add] at ha2
  have ha7 := h7 a
  simp only [ha, AState.holdsLock] at ha7
  inv_split
  all_goals grind [AState.holdCount, AState.holdsLock, AState.isEnq]

theorem inv_newx {N Q s a p s'} (hi : Inv s) (h : Step N Q s (.newx a p) s') : Inv s' := by
  obtain ⟨ret, hst, hk, rfl⟩ := step_newx h
  obtain ⟨h1,h2,h3,h4,h5,h6,h7,h8,h9,h10,h11,h12,h13,h14,h15,h16,h17,h18,h19,h20,h21,h22,h23,h24⟩ := hi
  have e1 := starter_hold hst
  have e2 := starter_lock hst
  have e3 := starter_some hst
  have ha2 := h2 a
  simp only [e1] at ha2
  inv_split
  all_goals grind [AState.holdCount, AState.holdsLock, AState.isEnq]

theorem inv_syw {N Q s a p s'} (hi : Inv s) (h : Step N Q s (.syw a p) s') : Inv s' := by
  obtain ⟨ret, hst, hk, rfl⟩ := step_syw h
  obtain ⟨h1,h2,h3,h4,h5,h6,h7,h8,h9,h10,h11,h12,h13,h14,h15,h16,h17,h18,h19,h20,h21,h22,h23,h24⟩ := hi
  have e1 := starter_hold hst
  have e2 := starter_lock hst
  have e3 := starter_some hst
  have ha2 := h2 a
  simp only [e1] at ha2
  inv_split
  all_goals grind [AState.holdCount, AState.holdsLock, AState.isEnq]

theorem inv_sywd {N Q s a p s'} (hi : Inv s) (h : Step N Q s (.sywd a p) s') : Inv s' := by
  obtain ⟨ret, ha, hs, rfl⟩ := step_sywd h
  obtain ⟨h1,h2,h3,h4,h5,h6,h7,h8,h9,h10,h11,h12,h13,h14,h15,h16,h17,h18,h19,h20,h21,h22,h23,h24⟩ := hi
  have ha2 := h2 a
  simp only [ha, AState.holdCount, List.count_cons, List.count_nil, Nat.zero_add] at ha2
  have ha7 := h7 a
  simp only [ha, AState.holdsLock] at ha7
  have e1 := retState_hold ret
  have e2 := retState_lock ret
  have e3 : retState ret = .idle ∨ ∃ t, retState ret = .run t := by cases ret <;> simp [retState]
  inv_split
  all_goals grind [AState.holdCount, AState.holdsLock, AState.isEnq]

theorem inv_reg {N Q s a p s'} (hi : Inv s) (h : Step N Q s (.reg a p) s') : Inv s' := by
  obtain ⟨t, ha, rfl⟩ := step_reg h
  have hsu := hi.suspUnset a t p ha
  obtain ⟨h1,h2,h3,h4,h5,h6,h7,h8,h9,h10,h11,h12,h13,h14,h15,h16,h17,h18,h19,h20,h21,h22,h23,h24⟩ := hi
  have ha2 := h2 a
  simp only [ha, AState.holdCount, List.count_cons, List.count_nil, Nat.zero_add] at ha2
  have ha7 := h7 a
  simp only [ha, AState.holdsLock] at ha7
  inv_split
  case refine_3 =>
    rename_i p' c hs
    by_cases hp : p' = p
    · subst hp; simp only [if_true] at hs ⊢; simp only [List.count_append, List.count_cons, List.count_nil]; grind
    · simp only [hp, if_false] at hs ⊢; grind
  all_goals grind [AState.holdCount, AState.holdsLock, AState.isEnq]

theorem inv_pub {N Q s a p s'} (hi : Inv s) (h : Step N Q s (.pub a p) s') : Inv s' := by
  obtain ⟨own, r, ha, rfl⟩ := step_pub h
  have hsett := hi.resUnset a own p r (Or.inr ha)
  have hb := hi.bodyResAct a own p r (Or.inr ha)
  have hcnt := fun c => hi.wAgree p c hsett
  have hm : ∀ c, c ∈ (s.prom p).conts ↔ s.loc c = .waiting p := by
    intro c; rw [← List.count_pos_iff, hcnt c]; split <;> simp_all
  obtain ⟨h1,h2,h3,h4,h5,h6,h7,h8,h9,h10,h11,h12,h13,h14,h15,h16,h17,h18,h19,h20,h21,h22,h23,h24⟩ := hi
  have ha2 := h2 a
  simp only [ha, AState.holdCount, List.count_cons, List.count_nil, Nat.zero_add] at ha2
  have ha7 := h7 a
  simp only [ha, AState.holdsLock] at ha7
  have hext : own = false → (s.prom p).claimed = some a ∧ (s.prom p).kind = .ext := by
    intro ho; subst ho; exact h11 a p r (Or.inr ha)
  have hown : own = true → s.loc p = .actor a ∧ (s.prom p).kind = .task := by
    intro ho; have := ha2 p; have := h6 p; grind
  have hx : ∀ b, (s.act b).holdsLock p = true → b = a := by
    intro b hb; have := h7 b p hb; have := ha7 p; grind
  have hres : ∀ b own' r', b ≠ a → s.act b ≠ .resLock own' p r' ∧ s.act b ≠ .resPub own' p r' := by
    intro b own' r' hne
    have e1 := h2 b p
    have e2 := h6 p
    have e3 := h11 b p r'
    have e4 := hx b
    refine ⟨?_, ?_⟩ <;> intro hc <;> simp only [hc, AState.holdCount, AState.holdsLock] at e1 e3 e4 <;>
      cases own <;> cases own' <;> grind
  inv_split
  all_goals try simp only [hm]
  all_goals grind [AState.holdCount, AState.holdsLock, AState.isEnq]

theorem inv_enqc {N Q s a p c s'} (hi : Inv s) (h : Step N Q s (.enqc a p c) s') : Inv s' := by
  obtain ⟨rest, ha, hq, rfl⟩ := step_enqc h
  obtain ⟨h1,h2,h3,h4,h5,h6,h7,h8,h9,h10,h11,h12,h13,h14,h15,h16,h17,h18,h19,h20,h21,h22,h23,h24⟩ := hi
  have ha2 := h2 a
  simp only [ha, AState.holdCount, List.count_cons, List.count_nil, Nat.zero_add] at ha2
  have ha7 := h7 a
  simp only [ha, AState.holdsLock] at ha7
  inv_split
  all_goals grind [AState.holdCount, AState.holdsLock, AState.isEnq]

theorem inv_res {N Q s a p r s'} (hi : Inv s) (h : Step N Q s (.res a p r) s') : Inv s' := by
  rcases step_res h with ⟨ha, rfl⟩ | ⟨ha, hn, hk, hc, rfl⟩
  · obtain ⟨h1,h2,h3,h4,h5,h6,h7,h8,h9,h10,h11,h12,h13,h14,h15,h16,h17,h18,h19,h20,h21,h22,h23,h24⟩ := hi
    have ha2 := h2 a
    simp only [ha, AState.holdCount, List.count_cons, List.count_nil, Nat.zero_add] at ha2
    have ha7 := h7 a
    simp only [ha, AState.holdsLock] at ha7
    have hres : ∀ b own' r', b ≠ a → s.act b ≠ .resLock own' p r' ∧ s.act b ≠ .resPub own' p r' := by
      intro b own' r' hne
      have e1 := h2 b p
      have e2 := h6 p
      have e3 := h11 b p r'
      have e5 := ha2 p
      refine ⟨?_, ?_⟩ <;> intro hc <;> simp only [hc, AState.holdCount] at e1 e3 <;>
        cases own' <;> grind
    inv_split
    all_goals grind [AState.holdCount, AState.holdsLock, AState.isEnq]
  · obtain ⟨h1,h2,h3,h4,h5,h6,h7,h8,h9,h10,h11,h12,h13,h14,h15,h16,h17,h18,h19,h20,h21,h22,h23,h24⟩ := hi
    have ha2 := h2 a
    simp only [ha, AState.holdCount, List.count_cons, List.count_nil, Nat.zero_add] at ha2
    have ha7 := h7 a
    simp only [ha, AState.holdsLock] at ha7
    have hres : ∀ b own' r', b ≠ a → s.act b ≠ .resLock own' p r' ∧ s.act b ≠ .resPub own' p r' := by
      intro b own' r' hne
      have e1 := h2 b p
      have e2 := h6 p
      have e3 := h11 b p r'
      refine ⟨?_, ?_⟩ <;> intro hc <;> simp only [hc, AState.holdCount] at e1 e3 <;>
        cases own' <;> grind
    inv_split
    all_goals grind [AState.holdCount, AState.holdsLock, AState.isEnq]


theorem inv_step {N Q s e s'} (hi : Inv s) (h : Step N Q s e s') : Inv s' := by
  cases e with
  | add a c => exact inv_add hi h
  | enq a c => exact inv_enq hi h
  | deq a t => exact inv_deq hi h
  | aw a p => exact inv_aw hi h
  | awl a p => exact inv_awl hi h
  | aws a p => exact inv_aws hi h
  | awr a p => exact inv_awr hi h
  | reg a p => exact inv_reg hi h
  | unl a p => exact inv_unl hi h
  | res a p r => exact inv_res hi h
  | resl a p => exact inv_resl hi h
  | pub a p => exact inv_pub hi h
  | enqc a p c => exact inv_enqc hi h
  | resu a p => exact inv_resu hi h
  | newx a p => exact inv_newx hi h
  | syw a p => exact inv_syw hi h
  | sywd a p => exact inv_sywd hi h

theorem inv_reachable {N Q s} (h : Reachable N Q s) : Inv s := by
  induction h with
  | init => exact inv_init
  | step _ hs ih => exact inv_step ih hs

end Elk.Promise
